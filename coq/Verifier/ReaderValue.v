(* C03: what the accessors of the GENERATED READER return (src/compiler/codegen_c_reader.c macros, as they appear in
   flatbuffers_common_reader.h and <schema>_reader.h), as an executable model, and the value tree a client obtains
   by calling every accessor.  ReaderModel.v describes the same reader as a set of READS (memory safety, C01);
   this file describes the VALUES.

   Conventions.  Memory is [Spec.mem = Z -> option Z] (a byte per address, [None] outside): a load outside the
   memory makes the accessor result [None] ("the C behaviour is not defined"; never the case on a conforming buffer,
   see ReaderValueProofs.v).  A C pointer into the buffer is its absolute position; a possibly-NULL pointer is an
   [option Z] with [None] = NULL.  Pointer arithmetic is unbounded (64-bit addresses), integer arithmetic has the
   width of its C type: [voffset_t id__tmp = ID] is [u16], the soffset is [s32], uoffsets / lengths are the 32-bit
   loads.  The reader checks NOTHING (no bounds, no alignment, no terminator, no count limits): none of the checks
   of Format/Spec.v occurs here.  FLATCC_ASSERT is modelled only for "required field missing" (result [None]);
   the "index out of range" assertions of the vec_at accessors are not: the tree assembly indexes below the length.
   Identifier tests of as_root (has_identifier) are not modelled: the model is [T_as_root_with_identifier(buf, 0)].
   No proofs in this file. *)
From Flatcc.Format Require Export Schema Spec.
Local Open Scope Z_scope.

(* schema defaults of scalar fields: table index -> field id -> the little-endian bytes of the default value
   (the V argument of __flatbuffers_define_scalar_field) *)
Definition defaults := nat -> Z -> list Z.

Section Reader.
Variable m : mem.

(* ------------------------------------------------------------------ loads (X_read_from_pe, little-endian host) *)
Definition ld8 (a : Z) : option Z := m a.
Definition ld16 (a : Z) : option Z :=
  b0 <- m a;; b1 <- m (a + 1);; Some (b0 + 256 * b1).
Definition ld32 (a : Z) : option Z :=
  b0 <- m a;; b1 <- m (a + 1);; b2 <- m (a + 2);; b3 <- m (a + 3);;
  Some (b0 + 256 * b1 + 65536 * b2 + 16777216 * b3).
Definition lds32 (a : Z) : option Z := x <- ld32 a;; Some (s32 x).          (* __flatbuffers_soffset_read_from_pe *)
(* a scalar of n bytes / the n bytes behind a struct pointer: returned as the raw bytes ("bit exact") *)
Fixpoint ldbytes (a : Z) (n : nat) : option (list Z) :=
  match n with
  | O => Some []
  | S k => b <- m a;; r <- ldbytes (a + 1) k;; Some (b :: r)
  end.

(* ------------------------------------------------------------------ __flatbuffers_read_vt(ID, offset, t)
     voffset_t offset = 0; id__tmp = ID;
     vt__tmp = (voffset_t * )((uint8_t * )(t) - soffset_read(t));
     if (voffset_read(vt__tmp) >= sizeof(vt__tmp[0]) * (id__tmp + 3u)) offset = voffset_read(vt__tmp + id__tmp + 2); *)
Definition read_vt (t id : Z) : option Z :=
  let id16 := u16 id in
  so <- lds32 t;;
  let vt := t - so in
  vs <- ld16 vt;;
  if 2 * (id16 + 3) <=? vs then ld16 (vt + 2 * (id16 + 2)) else Some 0.

(* __flatbuffers_field_present: T_f_is_present *)
Definition field_present (t id : Z) : option bool :=
  o <- read_vt t id;; Some (negb (o =? 0)).

(* __flatbuffers_define_scalar_field: T_f_get / T_f : the stored value, or the schema default V when absent *)
Definition scalar_get (t id : Z) (size : nat) (dflt : list Z) : option (list Z) :=
  o <- read_vt t id;; if o =? 0 then Some dflt else ldbytes (t + o) size.

(* __flatbuffers_scalar_field: T_f_get_ptr *)
Definition scalar_get_ptr (t id : Z) : option (option Z) :=
  o <- read_vt t id;; Some (if o =? 0 then None else Some (t + o)).

(* __flatbuffers_define_scalar_optional_field: T_f_option : (is_null, value) *)
Definition scalar_option (t id : Z) (size : nat) (dflt : list Z) : option (bool * list Z) :=
  o <- read_vt t id;;
  v <- (if o =? 0 then Some dflt else ldbytes (t + o) size);;
  Some (o =? 0, v).

(* __flatbuffers_struct_field(T, ID, t, r): pointer to the inline struct, NULL when absent (assertion when required) *)
Definition struct_field (t id : Z) (req : bool) : option (option Z) :=
  o <- read_vt t id;;
  if o =? 0 then (if req then None else Some None) else Some (Some (t + o)).

(* __flatbuffers_offset_field(T, ID, t, r, adjust): elem = t + offset; result elem + adjust + uoffset_read(elem).
   adjust = 4 for vectors and strings (pointer past the length word), 0 for tables and union values *)
Definition offset_field (t id : Z) (req : bool) (adjust : Z) : option (option Z) :=
  o <- read_vt t id;;
  if o =? 0 then (if req then None else Some None)
  else let elem := t + o in u <- ld32 elem;; Some (Some (elem + adjust + u)).

(* __flatbuffers_vec_len / string_len: (vec) ? uoffset_read((uoffset_t * )vec - 1) : 0 *)
Definition vec_len (vec : option Z) : option Z :=
  match vec with None => Some 0 | Some v => ld32 (v - 4) end.

(* __flatbuffers_scalar_vec_at(N, vec, i): read_scalar(N, &vec[i]) *)
Definition scalar_vec_at (vec esize i : Z) : option (list Z) := ldbytes (vec + i * esize) (Z.to_nat esize).
(* __flatbuffers_struct_vec_at(vec, i): vec + i (a pointer) *)
Definition struct_vec_at (vec esize i : Z) : Z := vec + i * esize.
(* __flatbuffers_offset_vec_at(T, vec, i, adjust): elem = vec + i; elem + uoffset_read(elem) + adjust.
   adjust = 4: string_vec_at, generic_vec_at_as_string; 0: table vec_at, generic_vec_at *)
Definition offset_vec_at (vec i adjust : Z) : option Z :=
  let elem := vec + 4 * i in u <- ld32 elem;; Some (elem + u + adjust).

(* flatbuffers_string_cast_from_generic(p) = p + 4 *)
Definition string_cast_from_generic (p : Z) : Z := p + 4.

(* __flatbuffers_union_type_field(ID, t) (called with ID - 1): the type byte, 0 when absent *)
Definition union_type_field (t id : Z) : option Z :=
  o <- read_vt t id;; if o =? 0 then Some 0 else ld8 (t + o).

(* T_f_union(t): { type, value }; value is only fetched (T_f_get = table_field, adjust 0) when type is not NONE *)
Definition union_field (t id : Z) (req : bool) : option (Z * option Z) :=
  ty <- union_type_field t (id - 1);;
  if ty =? 0 then Some (0, None) else v <- offset_field t id req 0;; Some (ty, v).

(* __flatbuffers_define_union_vector_field: T_f_union(t) = { T_f_type_get(t), T_f_get(t) }, two vector fields *)
Definition union_vec_field (t id : Z) (req : bool) : option (option Z * option Z) :=
  ty <- offset_field t (id - 1) req 4;; v <- offset_field t id req 4;; Some (ty, v).
(* T_union_vec_len(uv) = vec_len(uv.type) *)
Definition union_vec_len (uv : option Z * option Z) : option Z := vec_len (fst uv).
(* T_union_vec_at(uv, i): type = uv.type[i]; NONE -> {0, 0}; else value = generic_vec_at(uv.value, i) *)
Definition union_vec_at (uv : option Z * option Z) (i : Z) : option (Z * option Z) :=
  match fst uv with
  | None => None
  | Some tv =>
    ty <- ld8 (tv + i);;
    if ty =? 0 then Some (0, None)
    else match snd uv with
         | None => None
         | Some vv => p <- offset_vec_at vv i 0;; Some (ty, Some p)
         end
  end.

(* flatbuffers_read_size_prefix(b, 0) = b + 4;  __flatbuffers_read_root(T, K, buffer, 0) = buffer + uoffset_read(buffer) *)
Definition read_size_prefix (b : Z) : Z := b + 4.
Definition read_root_ptr (buffer : Z) : option Z := u <- ld32 buffer;; Some (buffer + u).

(* ------------------------------------------------------------------ the value tree obtained through the accessors *)
(* a string: string_len(s) bytes from s *)
Definition read_string (s : Z) : option value :=
  n <- vec_len (Some s);; bs <- ldbytes s (Z.to_nat n);; Some (VString bs).

(* scalar / struct vector: T_vec_at(vec, i) for i, i+1, .. (a struct element is the esize bytes behind struct_vec_at) *)
Fixpoint read_elems (vec esize i : Z) (count : nat) : option (list (list Z)) :=
  match count with
  | O => Some []
  | S k => e <- scalar_vec_at vec esize i;; r <- read_elems vec esize (i + 1) k;; Some (e :: r)
  end.

Definition read_vector (vec esize : Z) : option value :=
  n <- vec_len (Some vec);; es <- read_elems vec esize 0 (Z.to_nat n);; Some (VVec es).

(* string / table vector: offset_vec_at(vec, i, adjust) then the element reader *)
Fixpoint read_offs (f : Z -> option value) (vec adjust i : Z) (count : nat) : option (list value) :=
  match count with
  | O => Some []
  | S k => p <- offset_vec_at vec i adjust;; v <- f p;; r <- read_offs f vec adjust (i + 1) k;; Some (v :: r)
  end.

Definition read_offvec (f : Z -> option value) (vec adjust : Z) : option value :=
  n <- vec_len (Some vec);; es <- read_offs f vec adjust 0 (Z.to_nat n);; Some (VOffVec es).

Section Table.
Variable Sc : schema.
Variable dflt : defaults.
Variable rt : nat -> Z -> option value.          (* the table reader one level down: table type, table pointer *)

Definition read_struct (p size : Z) : option value := bs <- ldbytes p (Z.to_nat size);; Some (VBytes bs).

(* what a client does with { type, value }: cast by the type *)
Definition read_member (u : nat) (code p : Z) : option value :=
  match union_member Sc u code with
  | Some (UTable t) => rt t p
  | Some (UStruct size al) => read_struct p size
  | Some UString => read_string (string_cast_from_generic p)
  | None => Some VUnknown
  end.

Fixpoint read_uelems (u : nat) (uv : option Z * option Z) (i : Z) (count : nat) : option (list (Z * option value)) :=
  match count with
  | O => Some []
  | S k =>
    e <- union_vec_at uv i;;
    x <- match e with
         | (ty, None) => Some (ty, None)
         | (ty, Some p) => v <- read_member u ty p;; Some (ty, Some v)
         end;;
    r <- read_uelems u uv (i + 1) k;; Some (x :: r)
  end.

(* T_f_as_root(t) of a nested buffer field: the ubyte vector pointer is the buffer *)
Definition read_buffer (R : root) (buffer : Z) : option value :=
  p <- read_root_ptr buffer;;
  match R with
  | RTable t => rt t p
  | RStruct size al => read_struct p size
  end.

Definition with_ptr (p : option (option Z)) (k : Z -> option value) : option (option value) :=
  q <- p;; match q with None => Some None | Some a => v <- k a;; Some (Some v) end.

(* field [id] of kind [k] of the table of type [tix] at pointer [t]: Some None = not present *)
Definition read_kind (tix : nat) (t id : Z) (req : bool) (k : fkind) : option (option value) :=
  match k with
  | FScalar size al =>
    p <- field_present t id;;
    if p then bs <- scalar_get t id (Z.to_nat size) (dflt tix id);; Some (Some (VBytes bs))
    else if req then None else Some None
  | FString => with_ptr (offset_field t id req 4) read_string
  | FVector esize al maxc => with_ptr (offset_field t id req 4) (fun vec => read_vector vec esize)
  | FStringVec => with_ptr (offset_field t id req 4) (fun vec => read_offvec read_string vec 4)
  | FTable t' => with_ptr (offset_field t id req 0) (rt t')
  | FTableVec t' => with_ptr (offset_field t id req 4) (fun vec => read_offvec (rt t') vec 0)
  | FUnion u =>
    un <- union_field t id req;;
    match un with
    | (ty, None) => if ty =? 0 then Some None else None           (* type set, value NULL: nothing to cast *)
    | (ty, Some p) => v <- read_member u ty p;; Some (Some (VUnion ty v))
    end
  | FUnionVec u =>
    pr <- field_present t id;;
    if pr then
      uv <- union_vec_field t id req;;
      n <- union_vec_len uv;;
      es <- read_uelems u uv 0 (Z.to_nat n);; Some (Some (VUnionVec es))
    else if req then None else Some None
  | FNestedTable al t' =>
    with_ptr (offset_field t id req 4) (fun b => v <- read_buffer (RTable t') b;; Some (VNested v))
  | FNestedStruct size al =>
    with_ptr (offset_field t id req 4) (fun b => v <- read_buffer (RStruct size al) b;; Some (VNested v))
  end.

Fixpoint read_fields (tix : nat) (t : Z) (fl : list field) : option (list (Z * value)) :=
  match fl with
  | [] => Some []
  | f :: r =>
    ov <- read_kind tix t (fid f) (frequired f) (fk f);; rest <- read_fields tix t r;;
    Some (match ov with Some v => (fid f, v) :: rest | None => rest end)
  end.

Definition read_table_body (tix : nat) (t : Z) : option value :=
  flds <- table_fields Sc tix;; fs <- read_fields tix t flds;; Some (VTable fs).
End Table.
End Reader.

(* nesting depth bounded by the fuel, as in Spec.dec_table *)
Fixpoint read_table (n : nat) (Sc : schema) (dflt : defaults) (m : mem) (tix : nat) (t : Z) : option value :=
  match n with
  | O => None
  | S k => read_table_body m Sc dflt (read_table k Sc dflt m) tix t
  end.

(* T_as_root (plain) / flatbuffers_read_size_prefix + T_as_root (size-prefixed) on the memory [m] whose address 0 is
   the start of the buffer, then the whole tree *)
Definition root_ptr (m : mem) (with_size : bool) : option Z :=
  read_root_ptr m (if with_size then read_size_prefix 0 else 0).

Definition read_root (n : nat) (Sc : schema) (dflt : defaults) (R : root) (with_size : bool) (m : mem) : option value :=
  read_buffer m (read_table n Sc dflt m) R (if with_size then read_size_prefix 0 else 0).

Definition read_root_list (n : nat) (Sc : schema) (dflt : defaults) (R : root) (with_size : bool) (l : list Z) : option value :=
  read_root n Sc dflt R with_size (mem_of_list l).

(* the side condition on schemas: a field id fits voffset_t arithmetic ([id__tmp = ID] is a voffset_t) and the type
   field of a union / union vector (ID - 1) exists *)
Definition kind_is_union (k : fkind) : bool := match k with FUnion _ | FUnionVec _ => true | _ => false end.
Definition id_ok (f : field) : bool :=
  ((if kind_is_union (fk f) then 1 else 0) <=? fid f) && (fid f <? 65536).
Definition ids_ok (Sc : schema) : bool := forallb (forallb id_ok) (tables Sc).
