(* C01 (printer half): verifier acceptance implies that every read of the JSON printer (PrinterModel.v) is in
   bounds and aligned, and that the printer raises no error of its own (no "deep recursion", no "bad input").
   One more pass over the verifier model in the style of VerifierProofsMain.v, reusing its fact lemmas
   (vtable entries, offset fields, vectors, structs, headers, verify_table_with) with T = "anything" and SND = True.
   The nesting budgets: the invariant is  verifier ttl <= printer ttl  at every table; the verifier spends one
   level per table and one more per table / union vector, the printer one per table only. *)
From Flatcc.Verifier Require Import VerifierProofsBase VerifierProofsMain PrinterModel.
From Coq Require Import ZifyBool Znumtheory.
Local Open Scope Z_scope.
Ltac Zify.zify_post_hook ::= Z.div_mod_to_equations.

Lemma ploop_ok : forall n slot body,
  (forall i, 0 <= i < Z.of_nat n -> body (slot + 4 * i) = POk) -> ploop n slot body = POk.
Proof.
  induction n; intros slot body H; [reflexivity|].
  cbn [ploop]. replace (body slot) with POk.
  - apply IHn. intros i Hi. replace (slot + 4 + 4 * i) with (slot + 4 * (i + 1)) by lia. apply H. lia.
  - symmetry. replace slot with (slot + 4 * 0) by lia. apply H. lia.
Qed.

Lemma loop_count_small b n : 0 <= n <= blen b -> loop_count b n = Z.to_nat n.
Proof. intros H. unfold loop_count. rewrite Z.min_l by lia. reflexivity. Qed.

Section PrinterSound.
Variable b : buf.
Variable addr : Z.
Variable S : schema.
Variable ra : nat -> Z.
Hypothesis Hwf : wf_buf b.
Hypothesis HS : schema_wf S = true.
Hypothesis Hsz : blen b <= SOUND_MAX_SIZE.
Hypothesis Hra : ra_ok S ra = true.

Let T := fun _ : vres => True.
Let T_err : forall c, T (VErr c) := fun _ => I.
Local Notation post := (post T).
Local Notation region := (region b addr).
Local Notation tdi := (td_inv b addr True).

Local Notation vtw_post := (verify_table_with_post b addr S T True ra Hwf T_err (fun _ => Hsz) (fun _ => Hra)).
Local Notation rve_spec := (read_vt_entry_spec b addr S T True ra Hwf T_err).
Local Notation rve_ex := (read_vt_entry_ex b addr S T True ra Hwf T_err).
Local Notation vf_post := (verify_field_post b addr S T True ra Hwf T_err).
Local Notation wfrd_facts := (with_field_rd_facts b addr S T True ra Hwf T_err).
Local Notation vecf_facts := (vector_field_facts b addr S T True ra Hwf T_err).
Local Notation vv_post := (verify_vector_post b addr S T ra Hwf T_err).
Local Notation vs_post := (verify_struct_post S T ra T_err).
Local Notation vbh_post := (verify_buffer_header_noid_post addr S T ra T_err).
Local Notation fwf_spec := (field_wf_spec addr S T ra T_err).
Local Notation cm4 := (count_max_4 S T ra T_err).
Local Notation cm1 := (count_max_1 S T ra T_err).

Ltac pif H := apply (post_if T T_err); intros H.
Ltac pifn H := apply (post_if_neg T T_err); intros H.
Ltac pok := apply (post_ok T).
Ltac perr := apply (post_err T T_err).
Ltac pbnd := eapply (post_bind T).
Ltac pweak := eapply (post_weaken T).
Ltac triv := first [assumption | reflexivity | lia].

Ltac dinv Hd :=
  let Hd' := fresh "Hd" in
  pose proof Hd as Hd'; unfold td_inv, VerifierProofsMain.region in Hd';
  destruct Hd' as ((Ho0 & He0 & Hoe & He & Hao) & Ht0 & Ht4 & Htm & Hv0 & Hvm & Hve & Rvs & Hvsm & Hvs4 & Hvs & Hts0 & Hts & Hso).

Lemma post_elim r (P : Prop) : post r P -> r = VOk -> P.
Proof. intros [[_ H]|[Hn _]] E; [assumption|contradiction]. Qed.

(* the printer's table descriptor for the verifier's: same table, same vtable, same vsize; own budget *)
Definition pd_of (d : td) (pttl : Z) : ptd :=
  {| p_table := t_o d + t_table d; p_vtable := t_o d + t_vtable d; p_vsize := t_vsize d; p_ttl := pttl |}.

(* get_field_ptr finds exactly the verifier's vtable entry (vsize is even, so the two size tests agree) *)
Lemma get_field_ptr_spec d pttl id vte ka kp : tdi d -> 0 <= id < 32764 ->
  read_vt_entry b d id = Some vte ->
  get_field_ptr b addr (pd_of d pttl) id ka kp = if vte =? 0 then ka else kp (t_o d + t_table d + vte).
Proof.
  intros Hd Hid Hr. pose proof (rve_spec d id Hd Hid) as Hspec. dinv Hd.
  unfold get_field_ptr, pd_of. cbn [p_table p_vtable p_vsize p_ttl]. cbv zeta.
  destruct Hspec as [[Hle Hr0] | [Hle [vte' [Hr' [R' Hv']]]]].
  - rewrite Hr0 in Hr. some_inj Hr. subst vte.
    assert (E: (t_vsize d <=? (id + 2) * 2) = true) by (apply Z.leb_le; lia). rewrite E. reflexivity.
  - rewrite Hr' in Hr. some_inj Hr. subst vte'.
    assert (E: (t_vsize d <=? (id + 2) * 2) = false) by (apply Z.leb_gt; lia). rewrite E.
    rewrite need_ok_intro by lia. rewrite (g16_eq _ _ _ R'). reflexivity.
Qed.

(* ---- strings: the terminator the verifier insists on is what stops the printer's scan *)
Lemma pstring_post o e base off :
  region o e -> 0 <= base -> in_u32 off ->
  post (verify_string b o e base off) (print_string_object b addr (o + base + off) = POk).
Proof.
  intros (Ho0 & He0 & Hoe & He & Hao) Hb Ho. unfold verify_string.
  pif Hch. apply check_header_spec in Hch; [|assumption..]. destruct Hch as (Eu & Hoff & Hin & Hal).
  rewrite Eu. cbv zeta. unfold r32, r8.
  destruct (rd32_in b (o + (base + off)) Hwf) as [n [Rn Hn]]; [lia|lia|]. rewrite Rn.
  rewrite (u32_add_nowrap (base + off) 4) by lia.
  rewrite (u32_id (e - (base + off + 4))) by (unfold in_u32; lia).
  unfold in_u32 in Hn.
  pif H1. apply Z.ltb_lt in H1.
  destruct (rd8_in b (o + (base + off + 4 + n)) Hwf) as [c [Rc Hc]]; [lia|lia|]. rewrite Rc.
  pif H2. apply Z.eqb_eq in H2. subst c. pok.
  unfold print_string_object. replace (o + base + off) with (o + (base + off)) by lia.
  rewrite (g32_eq _ _ _ Rn). cbv zeta.
  rewrite need_ok_intro by lia.
  rewrite need_ok_intro; [|lia|lia|apply mod1].
  replace (o + (base + off) + 4 + n) with (o + (base + off + 4 + n)) by lia.
  rewrite (g8_eq _ _ _ Rc). reflexivity.
Qed.

Lemma pvector_ok q n esize align :
  rd32 b q = Some n -> 0 <= q -> 0 <= n * esize -> q + 4 + n * esize <= blen b -> (addr + q) mod 4 = 0 ->
  (n * esize <> 0 -> (addr + (q + 4)) mod align = 0) ->
  print_vector_object b addr q esize align = POk.
Proof.
  intros R H1 H2 H3 H4 H5. unfold print_vector_object. rewrite (g32_eq _ _ _ R).
  rewrite need_ok_intro by (assumption || lia).
  destruct (n * esize =? 0) eqn:E; [reflexivity|]. apply Z.eqb_neq in E.
  rewrite need_ok_intro; [reflexivity|lia|lia|auto].
Qed.

(* ---- a present offset field: the printer reads the slot, then the object *)
Lemma pfield_rd_post d pttl id req F kp :
  tdi d -> 0 <= id < 32764 ->
  (forall base off, 0 < base -> base + 4 <= t_end d -> base mod 4 = 0 -> in_u32 off ->
     rd32 b (t_o d + base) = Some off -> post (F base off) (kp (t_o d + base + off) = POk)) ->
  post (with_field b d id req (fun base => match r32 b (t_o d) base with None => VOob | Some off => F base off end))
       (get_field_ptr b addr (pd_of d pttl) id POk
          (fun fp => if need_ok b addr fp 4 4 then kp (follow b fp) else PBad fp 4 4) = POk).
Proof.
  intros Hd Hid HF. pweak.
  { apply (wfrd_facts d id req F (fun base off => kp (t_o d + base + off) = POk)); assumption. }
  dinv Hd.
  intros [vte [Hr [[-> _] | (H0 & H4 & Hm & off & R & Hoff & HP)]]];
    rewrite (get_field_ptr_spec d pttl id _ _ _ Hd Hid Hr).
  - reflexivity.
  - destruct (vte =? 0) eqn:E0; [apply Z.eqb_eq in E0; lia|].
    replace (t_o d + t_table d + vte) with (t_o d + (t_table d + vte)) by lia.
    rewrite need_ok_intro by lia. unfold follow. rewrite (g32_eq _ _ _ R). exact HP.
Qed.

(* vector of uoffsets (strings, tables) *)
Lemma poffset_vector_post (elem : Z -> Z -> vres) (pelem : Z -> pres) o e base off :
  region o e -> 0 <= base -> in_u32 off ->
  (forall bi off', 0 <= bi -> bi + 4 <= e -> bi mod 4 = 0 -> in_u32 off' -> rd32 b (o + bi) = Some off' ->
     post (elem bi off') (pelem (o + bi + off') = POk)) ->
  post (vbind (verify_vector b o e base off 4 4 (COUNT_MAX 4))
         (let base1 := u32 (base + off) in
          match r32 b o base1 with
          | None => VOob
          | Some n => vloop (Z.to_nat n) (u32 (base1 + 4))
                        (fun bi => match r32 b o bi with None => VOob | Some off' => elem bi off' end)
          end))
       ((let q := o + base + off in
         if need_ok b addr q 4 4 then
           ploop (loop_count b (g32 b q)) (q + 4)
             (fun slot => if need_ok b addr slot 4 4 then pelem (follow b slot) else PBad slot 4 4)
         else PBad q 4 4) = POk).
Proof.
  intros Hr Hb Ho Helem. pose proof Hr as (Ho0 & He0 & Hoe & He & Hao).
  pbnd. { apply vv_post; try assumption; [lia|apply cm4|apply cm4]. }
  intros (Hoff & Hin & Hal & n & Rn & Hn & Hne & _). cbv zeta.
  rewrite (u32_add_nowrap base off) by (unfold in_u32 in *; lia).
  unfold r32 at 1. rewrite Rn.
  rewrite (u32_add_nowrap (base + off) 4) by lia.
  pweak.
  { apply (vloop_post T T_err (fun bi =>
        (if need_ok b addr (o + bi) 4 4 then pelem (follow b (o + bi)) else PBad (o + bi) 4 4) = POk)) with (lim := e).
    - assumption.
    - intros bi Hb0 Hb4 Hbm. unfold r32.
      destruct (rd32_in b (o + bi) Hwf) as [off' [R Hoff']]; [lia|lia|]. rewrite R.
      pweak. { apply (Helem bi off'); assumption. }
      intros HP. rewrite need_ok_intro by lia. unfold follow. rewrite (g32_eq _ _ _ R). auto.
    - lia.
    - lia.
    - rewrite Z2Nat.id by lia. lia. }
  intros Hall.
  replace (o + base + off) with (o + (base + off)) by lia.
  rewrite need_ok_intro by lia. rewrite (g32_eq _ _ _ Rn).
  rewrite loop_count_small by lia.
  apply ploop_ok. intros i Hi.
  replace (o + (base + off) + 4 + 4 * i) with (o + (base + off + 4 + 4 * i)) by lia.
  apply Hall; assumption.
Qed.

(* ---- the recursive callback: verifier budget ttl, printer budget pttl >= ttl *)
Definition cbp (vt : Z -> Z -> Z -> Z -> Z -> nat -> vres) (pt : ptf) (lim : Z) : Prop :=
  forall o e base off ttl pttl t, region o e -> 0 <= base -> in_u32 off -> ttl <= lim -> ttl <= pttl ->
    (ra t | addr + o) ->
    post (vt o e base off ttl t) (pt (o + base + off) pttl t = POk).

(* ---- per-kind field lemmas *)
Lemma pscalar_field_post d pttl id size align :
  tdi d -> 0 <= id < 32764 -> 0 <= size < 65536 -> pow2_le align 32768 = true ->
  post (verify_field b addr d id false size align)
    (get_field_ptr b addr (pd_of d pttl) id POk
       (fun fp => if (size =? 0) || need_ok b addr fp size align then POk else PBad fp size align) = POk).
Proof.
  intros Hd Hid Hsize Hal. pweak. { apply vf_post; eassumption. }
  dinv Hd.
  intros [vte [Hr [Hv [->|(Hn & Hle & Hm)]]]]; rewrite (get_field_ptr_spec d pttl id _ _ _ Hd Hid Hr).
  - reflexivity.
  - destruct (vte =? 0) eqn:E0; [apply Z.eqb_eq in E0; lia|].
    rewrite need_ok_intro; [rewrite orb_true_r; reflexivity|lia|lia|assumption].
Qed.

Lemma pstring_field_post d pttl id req :
  tdi d -> 0 <= id < 32764 ->
  post (verify_string_field b d id req)
       (get_field_ptr b addr (pd_of d pttl) id POk
          (fun fp => if need_ok b addr fp 4 4 then print_string_object b addr (follow b fp) else PBad fp 4 4) = POk).
Proof.
  intros Hd Hid. unfold verify_string_field.
  apply (pfield_rd_post d pttl id req (verify_string b (t_o d) (t_end d)) (print_string_object b addr)); [assumption|assumption|].
  intros base off H0 H4 Hm Hoff R. apply pstring_post; [apply (td_region b addr True); assumption|lia|assumption].
Qed.

Lemma pvector_field_post d pttl id req esize align maxc A :
  tdi d -> 0 <= id < 32764 -> 0 < esize -> 0 <= maxc -> maxc * esize <= U32_MAX ->
  divides_b align A = true -> (A | addr + t_o d) ->
  post (verify_vector_field b d id req esize align maxc)
       (get_field_ptr b addr (pd_of d pttl) id POk
          (fun fp => if need_ok b addr fp 4 4 then print_vector_object b addr (follow b fp) esize align else PBad fp 4 4) = POk).
Proof.
  intros Hd Hid Hes Hmc Hmul HA HAo. unfold verify_vector_field.
  apply (pfield_rd_post d pttl id req (fun base off => verify_vector b (t_o d) (t_end d) base off esize align maxc)
          (fun q => print_vector_object b addr q esize align)); [assumption|assumption|].
  intros base off H0 H4 Hm Hoff R. pweak. { apply vv_post; try assumption; [apply (td_region b addr True); assumption|lia]. }
  dinv Hd.
  intros (Hoff0 & Hin & Hal & n & Rn & Hn & Hne & Haln).
  apply pvector_ok with (n := n).
  - replace (t_o d + base + off) with (t_o d + (base + off)) by lia. exact Rn.
  - lia.
  - nia.
  - lia.
  - replace (addr + (t_o d + base + off)) with (addr + t_o d + (base + off)) by lia. lia.
  - intros Hne0. assert (Hn0 : n <> 0) by (intros ->; lia).
    destruct (divides_b_spec _ _ HA) as [Hal0 Hdiv].
    replace (addr + (t_o d + base + off + 4)) with (addr + t_o d + (base + off + 4)) by lia.
    apply abs_aligned with (A := A); auto.
Qed.

Lemma pstring_vector_field_post d pttl id req :
  tdi d -> 0 <= id < 32764 ->
  post (verify_string_vector_field b d id req)
       (get_field_ptr b addr (pd_of d pttl) id POk
          (fun fp => if need_ok b addr fp 4 4 then
             (let q := follow b fp in
              if need_ok b addr q 4 4 then
                ploop (loop_count b (g32 b q)) (q + 4)
                  (fun slot => if need_ok b addr slot 4 4 then print_string_object b addr (follow b slot) else PBad slot 4 4)
              else PBad q 4 4)
           else PBad fp 4 4) = POk).
Proof.
  intros Hd Hid. unfold verify_string_vector_field.
  apply (pfield_rd_post d pttl id req (verify_string_vector b (t_o d) (t_end d))
           (fun q => if need_ok b addr q 4 4 then
                ploop (loop_count b (g32 b q)) (q + 4)
                  (fun slot => if need_ok b addr slot 4 4 then print_string_object b addr (follow b slot) else PBad slot 4 4)
              else PBad q 4 4)); [assumption|assumption|].
  intros base off H0 H4 Hm Hoff R. unfold verify_string_vector.
  apply (poffset_vector_post (verify_string b (t_o d) (t_end d)) (print_string_object b addr));
    [apply (td_region b addr True); assumption|lia|assumption|].
  intros bi off' Hb0 Hb4 Hbm Hoff' R'. apply pstring_post; [apply (td_region b addr True); assumption|lia|assumption].
Qed.

Lemma ptable_field_post vt pt d pttl id req t :
  tdi d -> 0 <= id < 32764 -> cbp vt pt (t_ttl d) -> t_ttl d <= pttl -> (ra t | addr + t_o d) ->
  post (verify_table_field b (fun o e bs of tl => vt o e bs of tl t) d id req)
       (get_field_ptr b addr (pd_of d pttl) id POk
          (fun fp => if need_ok b addr fp 4 4 then pt (follow b fp) pttl t else PBad fp 4 4) = POk).
Proof.
  intros Hd Hid Hcb Hl Hal. unfold verify_table_field.
  apply (pfield_rd_post d pttl id req (fun base off => vt (t_o d) (t_end d) base off (t_ttl d) t) (fun q => pt q pttl t));
    [assumption|assumption|].
  intros base off H0 H4 Hm Hoff R. apply Hcb; try assumption; [apply (td_region b addr True); assumption|lia|lia].
Qed.

Lemma ptable_vector_field_post vt pt d pttl id req t :
  tdi d -> 0 <= id < 32764 -> cbp vt pt (t_ttl d) -> t_ttl d <= pttl -> (ra t | addr + t_o d) ->
  post (verify_table_vector_field b (fun o e bs of tl => vt o e bs of tl t) d id req)
       (get_field_ptr b addr (pd_of d pttl) id POk
          (fun fp => if need_ok b addr fp 4 4 then
             (let q := follow b fp in
              if need_ok b addr q 4 4 then
                ploop (loop_count b (g32 b q)) (q + 4)
                  (fun slot => if need_ok b addr slot 4 4 then pt (follow b slot) pttl t else PBad slot 4 4)
              else PBad q 4 4)
           else PBad fp 4 4) = POk).
Proof.
  intros Hd Hid Hcb Hl Hal. unfold verify_table_vector_field.
  apply (pfield_rd_post d pttl id req
          (fun base off => verify_table_vector b (fun bs of tl => vt (t_o d) (t_end d) bs of tl t) (t_o d) (t_end d) base off (t_ttl d))
          (fun q => if need_ok b addr q 4 4 then
                ploop (loop_count b (g32 b q)) (q + 4)
                  (fun slot => if need_ok b addr slot 4 4 then pt (follow b slot) pttl t else PBad slot 4 4)
              else PBad q 4 4)); [assumption|assumption|].
  intros base off H0 H4 Hm Hoff R. unfold verify_table_vector. pif Httl.
  apply (poffset_vector_post (fun bi off' => vt (t_o d) (t_end d) bi off' (t_ttl d - 1) t) (fun q => pt q pttl t));
    [apply (td_region b addr True); assumption|lia|assumption|].
  intros bi off' Hb0 Hb4 Hbm Hoff' R'. apply Hcb; try assumption; [apply (td_region b addr True); assumption|lia|lia].
Qed.

(* ---- unions: [base] is the uoffset slot (ud->member), read by the member printer itself *)
Lemma punion_member_post vt pt lim u o e ty base off ttl pttl A :
  cbp vt pt lim -> ttl <= lim -> ttl <= pttl -> region o e -> 0 <= base -> base + 4 <= e -> base mod 4 = 0 ->
  in_u32 off -> rd32 b (o + base) = Some off ->
  forallb (member_ra_ok ra A) (union_members S u) = true -> (A | addr + o) ->
  post (union_verifier b S vt u o e ty base off ttl)
       (print_union_member b addr S pt u ty (o + base) pttl = POk).
Proof.
  intros Hcb Hl Hlp Hr Hb Hb4 Hbm Ho R HA HAo. unfold union_verifier, print_union_member.
  destruct (find_member (union_members S u) ty) as [m|] eqn:F; [|pok; auto].
  pose proof (schema_wf_member S u ty m HS F) as Hm.
  assert (Hra' : member_ra_ok ra A (ty, m) = true).
  { rewrite forallb_forall in HA. apply HA. apply find_member_In. exact F. }
  pose proof Hr as (Ho0 & He0 & Hoe & He & Hao).
  assert (Hslot : need_ok b addr (o + base) 4 4 = true) by (apply need_ok_intro; lia).
  assert (Hfol : follow b (o + base) = o + base + off) by (unfold follow; rewrite (g32_eq _ _ _ R); reflexivity).
  rewrite Hslot, Hfol.
  destruct m as [t|size align|].
  - apply Hcb; try assumption. unfold member_ra_ok in Hra'. cbn [snd] in Hra'.
    apply divides_b_spec in Hra'. destruct Hra' as [_ Hdiv]. eapply Z.divide_trans; [exact Hdiv|auto].
  - cbn [umember_wf] in Hm. apply andb_true_iff in Hm. destruct Hm as [Hm Hp]. apply andb_true_iff in Hm.
    destruct Hm as [Hs0 Hs1]. apply Z.leb_le in Hs0. apply Z.ltb_lt in Hs1.
    pweak. { apply vs_post; try assumption; lia. }
    intros HP. destruct HP as (H0 & Hle & Hmod); [lia|].
    unfold member_ra_ok in Hra'. cbn [snd] in Hra'.
    apply divides_b_spec in Hra'. destruct Hra' as [Hal0 Hdiv].
    rewrite need_ok_intro; [rewrite orb_true_r; reflexivity|lia|lia|].
    replace (addr + (o + base + off)) with (addr + o + (base + off)) by lia.
    apply abs_aligned with (A := A); auto.
  - apply pstring_post; assumption.
Qed.

Lemma punion_field_post vt pt d pttl f u A :
  fk f = FUnion u -> tdi d -> 1 <= fid f < 32764 -> cbp vt pt (t_ttl d) -> t_ttl d <= pttl ->
  forallb (member_ra_ok ra A) (union_members S u) = true -> (A | addr + t_o d) ->
  post (verify_union_field b addr (union_verifier b S vt u) d (fid f) (freq f))
       (print_field b addr S pt (pd_of d pttl) f = POk).
Proof.
  intros K Hd Hid Hcb Hlp HA HAo.
  assert (Hid1: 0 <= fid f - 1 < 32764) by lia. assert (Hid0 : 0 <= fid f < 32764) by lia.
  destruct (rve_ex d (fid f - 1) Hd Hid1) as [vty [Rty Hvty]].
  destruct (rve_ex d (fid f) Hd Hid0) as [vtab [Rtab Hvtab]].
  dinv Hd.
  assert (Hprinter : forall W,
     (if vty =? 0 then POk else if vtab =? 0 then POk else
        if need_ok b addr (t_o d + t_table d + vty) 1 1 then
          (if g8 b (t_o d + t_table d + vty) =? 0 then POk
           else print_union_member b addr S pt u (g8 b (t_o d + t_table d + vty)) (t_o d + t_table d + vtab) pttl)
        else PBad (t_o d + t_table d + vty) 1 1) = W ->
     print_field b addr S pt (pd_of d pttl) f = W).
  { intros W HW. unfold print_field. rewrite K. cbv zeta.
    rewrite (get_field_ptr_spec d pttl (fid f - 1) _ _ _ Hd Hid1 Rty).
    rewrite !(get_field_ptr_spec d pttl (fid f) _ _ _ Hd Hid0 Rtab).
    cbn [p_ttl pd_of]. rewrite <- HW.
    destruct (vty =? 0); destruct (vtab =? 0); reflexivity. }
  unfold verify_union_field. rewrite Rty.
  destruct (vty =? 0) eqn:E0.
  - rewrite Rtab. pif H1. pif H2. pok. apply Hprinter. reflexivity.
  - pbnd. { apply (vf_post d (fid f - 1) false 1 1); [assumption|lia|lia|reflexivity]. }
    intros [vte' [Rty' [_ Hcase]]]. rewrite Rty in Rty'. some_inj Rty'. subst vte'.
    destruct Hcase as [Hz|(_ & Hle & _)]; [apply Z.eqb_neq in E0; contradiction|].
    rewrite Rtab. unfold r8.
    destruct (rd8_in b (t_o d + (t_table d + vty)) Hwf) as [ty [Rt Hty]]; [lia|lia|]. rewrite Rt.
    pif H1.
    assert (Htp : need_ok b addr (t_o d + t_table d + vty) 1 1 = true) by (apply need_ok_intro; [lia|lia|apply mod1]).
    assert (Hg : g8 b (t_o d + t_table d + vty) = ty).
    { replace (t_o d + t_table d + vty) with (t_o d + (t_table d + vty)) by lia. apply g8_eq. exact Rt. }
    destruct (ty =? 0) eqn:Ety.
    + pok. apply Hprinter. rewrite Htp, Hg, Ety. destruct (vtab =? 0); reflexivity.
    + pweak.
      { apply (wfrd_facts d (fid f) (freq f)
                 (fun base off => union_verifier b S vt u (t_o d) (t_end d) ty base off (t_ttl d))
                 (fun base off => print_union_member b addr S pt u ty (t_o d + base) pttl = POk)); [assumption|lia|].
        intros base off H0 H4 Hm Hoff R.
        apply punion_member_post with (lim := t_ttl d) (A := A); try assumption;
          [lia|apply (td_region b addr True); assumption|lia]. }
      intros [vte [Rtab' [[-> _] | (H0' & H4' & Hm' & off & Roff & Hoff & HP)]]]; rewrite Rtab in Rtab'; some_inj Rtab'; subst vtab.
      * apply Hprinter. reflexivity.
      * apply Hprinter. rewrite Htp, Hg, Ety.
        destruct (vte =? 0) eqn:E1; [reflexivity|].
        replace (t_o d + t_table d + vte) with (t_o d + (t_table d + vte)) by lia. exact HP.
Qed.

Lemma puloop_post vt pt lim u o e ttl pttl A :
  cbp vt pt lim -> ttl <= lim -> ttl <= pttl -> region o e ->
  forallb (member_ra_ok ra A) (union_members S u) = true -> (A | addr + o) ->
  forall n base types, 0 <= base -> base mod 4 = 0 -> base + 4 * Z.of_nat n <= e ->
    0 <= types -> types + Z.of_nat n <= e ->
  post (uloop b n o base types ttl (union_verifier b S vt u o e))
       (puloop b addr S pt u pttl n (o + types) (o + base) = POk).
Proof.
  intros Hcb Hl Hlp Hr HA HAo. pose proof Hr as (Ho0 & He0 & Hoe & He & Hao).
  induction n; intros base types Hb Hbm Hbn Ht Htn.
  - pok. reflexivity.
  - cbn [uloop]. unfold r32, r8.
    destruct (rd32_in b (o + base) Hwf) as [elem [Re Helem]]; [lia|lia|].
    destruct (rd8_in b (o + types) Hwf) as [ty [Rt Hty]]; [lia|lia|]. rewrite Re, Rt.
    apply (post_bind T) with (P1 :=
       (if need_ok b addr (o + types) 1 1 then
          (if g8 b (o + types) =? 0 then POk
           else print_union_member b addr S pt u (g8 b (o + types)) (o + base) pttl)
        else PBad (o + types) 1 1) = POk).
    + destruct (elem =? 0) eqn:Ee.
      * pif H1. apply Z.eqb_eq in H1. pok.
        rewrite need_ok_intro; [|lia|lia|apply mod1]. rewrite (g8_eq _ _ _ Rt). subst ty. reflexivity.
      * pif H1. apply negb_true_iff in H1.
        pweak. { apply punion_member_post with (pt := pt) (pttl := pttl) (lim := lim) (A := A); try assumption; lia. }
        intros HP.
        rewrite need_ok_intro; [|lia|lia|apply mod1]. rewrite (g8_eq _ _ _ Rt). rewrite H1. exact HP.
    + intros Hhead. rewrite u32_add_nowrap by lia.
      pweak. { apply (IHn (base + 4) (types + 1)); lia. }
      intros Htail. cbn [puloop]. rewrite Hhead.
      replace (o + types + 1) with (o + (types + 1)) by lia.
      replace (o + base + 4) with (o + (base + 4)) by lia. exact Htail.
Qed.

Lemma pverify_union_vector_post vt pt lim u o e base off count types ttl pttl A :
  cbp vt pt lim -> ttl - 1 <= lim -> ttl - 1 <= pttl -> region o e -> 0 <= base -> in_u32 off ->
  forallb (member_ra_ok ra A) (union_members S u) = true -> (A | addr + o) ->
  0 <= types -> types + count <= e ->
  post (verify_union_vector b o e base off count types ttl (union_verifier b S vt u o e))
    (0 < off /\ base + off + 4 <= e /\ (base + off) mod 4 = 0 /\ rd32 b (o + (base + off)) = Some count /\
     0 <= count /\ base + off + 4 + count * 4 <= e /\
     puloop b addr S pt u pttl (Z.to_nat count) (o + types) (o + (base + off + 4)) = POk).
Proof.
  intros Hcb Hl Hlp Hr Hb Ho HA HAo Ht Htc. pose proof Hr as (Ho0 & He0 & Hoe & He & Hao).
  unfold verify_union_vector. pif Httl.
  pbnd. { apply vv_post; try assumption; [lia|apply cm4|apply cm4]. }
  intros (Hoff & Hin & Hal & n & Rn & Hn & Hne & _). cbv zeta.
  rewrite (u32_add_nowrap base off) by (unfold in_u32 in *; lia).
  unfold r32. rewrite Rn. pif Hc. apply Z.eqb_eq in Hc. subst n.
  rewrite (u32_add_nowrap (base + off) 4) by lia.
  pweak. { apply (puloop_post vt pt lim u o e (ttl - 1) pttl A Hcb Hl Hlp Hr HA HAo (Z.to_nat count) (base + off + 4) types);
           rewrite ?Z2Nat.id by lia; lia. }
  intros HP. repeat split; triv.
Qed.

Lemma punion_vector_field_post vt pt d pttl f u A :
  fk f = FUnionVec u -> tdi d -> 1 <= fid f < 32764 -> cbp vt pt (t_ttl d) -> t_ttl d <= pttl ->
  forallb (member_ra_ok ra A) (union_members S u) = true -> (A | addr + t_o d) ->
  post (verify_union_vector_field b (union_verifier b S vt u) d (fid f) (freq f))
       (print_field b addr S pt (pd_of d pttl) f = POk).
Proof.
  intros K Hd Hid Hcb Hlp HA HAo.
  assert (Hid1: 0 <= fid f - 1 < 32764) by lia. assert (Hid0 : 0 <= fid f < 32764) by lia.
  destruct (rve_ex d (fid f - 1) Hd Hid1) as [vty [Rty Hvty]].
  destruct (rve_ex d (fid f) Hd Hid0) as [vtab [Rtab Hvtab]].
  dinv Hd.
  unfold verify_union_vector_field, verify_union_vector_field_gen. rewrite Rty, Rtab.
  apply (post_bind T) with (P1 := True).
  { destruct ((vty =? 0) && (vtab =? 0)); [pif H; pok; exact I | pok; exact I]. }
  intros _.
  apply (post_bind T) with (P1 := True).
  { cbn [andb]. destruct ((vty =? 0) && negb (vtab =? 0)); [perr | pok; exact I]. }
  intros _.
  pbnd. { apply (vecf_facts d (fid f - 1) (freq f) 1 1 (COUNT_MAX 1)); try assumption; [lia|apply cm1|apply cm1]. }
  intros [vte [Rty' Hcase]]. rewrite Rty in Rty'. some_inj Rty'. subst vte.
  destruct Hcase as [[-> _] | (H0 & H4 & Hm & toff & Rtoff & Htoff & (Hoff & Hin & Hal & count & Rcount & Hcnt & Hcb' & _))].
  - cbn [Z.eqb]. pok. unfold print_field. rewrite K. cbv zeta.
    rewrite (get_field_ptr_spec d pttl (fid f - 1) _ _ _ Hd Hid1 Rty). cbn [Z.eqb].
    rewrite (get_field_ptr_spec d pttl (fid f) _ _ _ Hd Hid0 Rtab). destruct (vtab =? 0); reflexivity.
  - destruct (vty =? 0) eqn:E0; [apply Z.eqb_eq in E0; lia|].
    unfold r32 at 1. rewrite Rtoff. cbv zeta. unfold r32 at 1. rewrite Rcount.
    pweak.
    { apply (wfrd_facts d (fid f) true
               (fun base off => verify_union_vector b (t_o d) (t_end d) base off count (t_table d + vty + toff + 4)
                                  (t_ttl d) (union_verifier b S vt u (t_o d) (t_end d)))
               (fun base off => 0 < off /\ base + off + 4 <= t_end d /\ (base + off) mod 4 = 0 /\
                   rd32 b (t_o d + (base + off)) = Some count /\
                   0 <= count /\ base + off + 4 + count * 4 <= t_end d /\
                   puloop b addr S pt u pttl (Z.to_nat count) (t_o d + (t_table d + vty + toff + 4))
                             (t_o d + (base + off + 4)) = POk)); [assumption|lia|].
      intros base off Hb0 Hb4 Hbm Hoff' R.
      apply pverify_union_vector_post with (lim := t_ttl d) (A := A); try assumption; try lia.
      apply (td_region b addr True); assumption. }
    intros [vte [Rtab' [[_ Hfalse]|(H0' & H4' & Hm' & voff & Rvoff & Hvoff & (Hvoff0 & Hvin & Hval & Rvc & Hc0 & Hcle & HW))]]];
      [discriminate|].
    rewrite Rtab in Rtab'. some_inj Rtab'. subst vte.
    unfold print_field. rewrite K. cbv zeta.
    rewrite (get_field_ptr_spec d pttl (fid f - 1) _ _ _ Hd Hid1 Rty). rewrite E0.
    rewrite (get_field_ptr_spec d pttl (fid f) _ _ _ Hd Hid0 Rtab).
    destruct (vtab =? 0) eqn:E1; [apply Z.eqb_eq in E1; lia|].
    rewrite (get_field_ptr_spec d pttl (fid f - 1) _ _ _ Hd Hid1 Rty). rewrite E0.
    cbn [p_ttl pd_of].
    replace (t_o d + t_table d + vty) with (t_o d + (t_table d + vty)) by lia.
    replace (t_o d + t_table d + vtab) with (t_o d + (t_table d + vtab)) by lia.
    rewrite (need_ok_intro b addr (t_o d + (t_table d + vty)) 4 4) by lia.
    rewrite (need_ok_intro b addr (t_o d + (t_table d + vtab)) 4 4) by lia.
    unfold follow. rewrite (g32_eq _ _ _ Rtoff), (g32_eq _ _ _ Rvoff).
    replace (t_o d + (t_table d + vty) + toff) with (t_o d + (t_table d + vty + toff)) by lia.
    replace (t_o d + (t_table d + vtab) + voff) with (t_o d + (t_table d + vtab + voff)) by lia.
    rewrite (pvector_ok (t_o d + (t_table d + vty + toff)) count 1 1 Rcount); [|lia|lia|lia|lia|intros _; apply mod1].
    rewrite (need_ok_intro b addr (t_o d + (t_table d + vtab + voff)) 4 4) by lia.
    rewrite (g32_eq _ _ _ Rvc). rewrite loop_count_small by lia.
    replace (t_o d + (t_table d + vty + toff) + 4) with (t_o d + (t_table d + vty + toff + 4)) by lia.
    replace (t_o d + (t_table d + vtab + voff) + 4) with (t_o d + (t_table d + vtab + voff + 4)) by lia.
    exact HW.
Qed.

(* ---- nested roots *)
Lemma pnested_table_post vt pt d pttl f al t A :
  fk f = FNestedTable al t -> tdi d -> 0 <= fid f < 32764 -> cbp vt pt (t_ttl d) -> t_ttl d <= pttl ->
  divides_b (ra t) 4 || (divides_b al A && divides_b (ra t) al) = true -> (A | addr + t_o d) ->
  post (verify_table_as_nested_root b addr (fun o e bs of tl => vt o e bs of tl t) d (fid f) (freq f) al)
       (print_field b addr S pt (pd_of d pttl) f = POk).
Proof.
  intros K Hd Hid Hcb Hlp HA HAo. dinv Hd.
  unfold verify_table_as_nested_root.
  pbnd. { apply (vecf_facts d (fid f) (freq f) 1 al (COUNT_MAX 1)); try assumption; [lia|apply cm1|apply cm1]. }
  intros [vte [Rv Hcase]]. unfold get_field_pos. rewrite Rv.
  destruct Hcase as [[-> _] | (H0 & H4 & Hm & off & Roff & Hoff & (Hoff0 & Hin & Hal & n & Rn & Hn & Hne & Haln))].
  - cbn [Z.eqb]. pok. unfold print_field. rewrite K. cbv zeta.
    rewrite (get_field_ptr_spec d pttl (fid f) _ _ _ Hd Hid Rv). reflexivity.
  - destruct (vte =? 0) eqn:E0; [apply Z.eqb_eq in E0; lia|].
    destruct (t_table d + vte =? 0) eqn:E1; [apply Z.eqb_eq in E1; lia|].
    unfold r32 at 1. rewrite Roff. cbv zeta. unfold r32 at 1. rewrite Rn.
    set (o' := t_o d + (t_table d + vte + off) + 4).
    pbnd. { apply vbh_post. }
    intros (Hao' & Hn8 & HnM). unfold U32_MAX in HnM.
    unfold r32. destruct (rd32_in b (o' + 0) Hwf) as [roff [Rr Hroff]]; [lia|lia|]. rewrite Rr.
    assert (Hreg' : region o' n) by (unfold VerifierProofsMain.region; repeat split; lia).
    pweak.
    { apply (Hcb o' n 0 roff (t_ttl d) pttl t Hreg'); [lia|assumption|lia|assumption|].
      apply orb_true_iff in HA. destruct HA as [H4d | HA].
      - apply divides_b_spec in H4d. destruct H4d as [_ H4d]. eapply Z.divide_trans; [exact H4d|].
        apply mod0_divide; [lia|assumption].
      - apply andb_true_iff in HA. destruct HA as [HA1 HA2].
        apply divides_b_spec in HA1. destruct HA1 as [Hal0 HalA].
        apply divides_b_spec in HA2. destruct HA2 as [_ Hraal].
        eapply Z.divide_trans; [exact Hraal|].
        replace (addr + o') with (addr + t_o d + (t_table d + vte + off + 4)) by lia.
        apply Z.divide_add_r.
        + eapply Z.divide_trans; [exact HalA|auto].
        + apply mod0_divide; [assumption|]. apply Haln. lia. }
    intros HP. unfold print_field. rewrite K. cbv zeta.
    rewrite (get_field_ptr_spec d pttl (fid f) _ _ _ Hd Hid Rv). rewrite E0.
    replace (t_o d + t_table d + vte) with (t_o d + (t_table d + vte)) by lia.
    rewrite need_ok_intro by lia. unfold follow. rewrite (g32_eq _ _ _ Roff).
    replace (t_o d + (t_table d + vte) + off) with (t_o d + (t_table d + vte + off)) by lia.
    rewrite need_ok_intro by lia. rewrite (g32_eq _ _ _ Rn).
    assert (Eh : header_ok n = true) by (unfold header_ok; apply Z.leb_le; lia). rewrite Eh.
    fold o'. rewrite need_ok_intro by lia.
    replace o' with (o' + 0) at 1 2 by lia. rewrite (g32_eq _ _ _ Rr).
    cbn [p_ttl pd_of]. exact HP.
Qed.

Lemma pnested_struct_post pt d pttl f size al A :
  fk f = FNestedStruct size al -> tdi d -> 0 <= fid f < 32764 -> 0 <= size < 65536 ->
  divides_b al A = true -> (A | addr + t_o d) ->
  post (verify_struct_as_nested_root b addr d (fid f) (freq f) size al)
       (print_field b addr S pt (pd_of d pttl) f = POk).
Proof.
  intros K Hd Hid Hsize HA HAo. dinv Hd.
  unfold verify_struct_as_nested_root.
  pbnd. { apply (vecf_facts d (fid f) (freq f) 1 al (COUNT_MAX 1)); try assumption; [lia|apply cm1|apply cm1]. }
  intros [vte [Rv Hcase]]. unfold get_field_pos. rewrite Rv.
  destruct Hcase as [[-> _] | (H0 & H4 & Hm & off & Roff & Hoff & (Hoff0 & Hin & Hal & n & Rn & Hn & Hne & Haln))].
  - cbn [Z.eqb]. pok. unfold print_field. rewrite K. cbv zeta.
    rewrite (get_field_ptr_spec d pttl (fid f) _ _ _ Hd Hid Rv). reflexivity.
  - destruct (vte =? 0) eqn:E0; [apply Z.eqb_eq in E0; lia|].
    destruct (t_table d + vte =? 0) eqn:E1; [apply Z.eqb_eq in E1; lia|].
    unfold r32 at 1. rewrite Roff. cbv zeta. unfold r32 at 1. rewrite Rn.
    set (o' := t_o d + (t_table d + vte + off) + 4).
    unfold verify_struct_as_root_at.
    pbnd. { apply vbh_post. }
    intros (Hao' & Hn8 & HnM). unfold U32_MAX in HnM.
    unfold r32. destruct (rd32_in b (o' + 0) Hwf) as [roff [Rr Hroff]]; [lia|lia|]. rewrite Rr.
    pweak. { apply vs_post; [lia|assumption|lia]. }
    intros HP. destruct HP as (Hr0 & Hrle & Hrm); [lia|]. unfold print_field. rewrite K. cbv zeta.
    rewrite (get_field_ptr_spec d pttl (fid f) _ _ _ Hd Hid Rv). rewrite E0.
    replace (t_o d + t_table d + vte) with (t_o d + (t_table d + vte)) by lia.
    rewrite need_ok_intro by lia. unfold follow. rewrite (g32_eq _ _ _ Roff).
    replace (t_o d + (t_table d + vte) + off) with (t_o d + (t_table d + vte + off)) by lia.
    rewrite need_ok_intro by lia. rewrite (g32_eq _ _ _ Rn).
    assert (Eh : header_ok n = true) by (unfold header_ok; apply Z.leb_le; lia). rewrite Eh.
    fold o'. rewrite need_ok_intro by lia.
    replace o' with (o' + 0) at 1 2 by lia. rewrite (g32_eq _ _ _ Rr).
    destruct (divides_b_spec _ _ HA) as [Hal0 HalA].
    rewrite need_ok_intro; [rewrite orb_true_r; reflexivity|lia|lia|].
    replace (addr + (o' + 0 + roff)) with (addr + t_o d + (t_table d + vte + off + 4 + (0 + roff))) by lia.
    apply abs_aligned with (A := A); auto.
    apply divide_mod0; [assumption|]. apply Z.divide_add_r; apply mod0_divide; auto. apply Haln. lia.
Qed.

(* ---- the generated table printer against the generated table verifier *)
Lemma print_one_post vt pt d pttl f A :
  tdi d -> field_wf f = true -> cbp vt pt (t_ttl d) -> t_ttl d <= pttl ->
  field_ra_ok S ra A f = true -> (A | addr + t_o d) ->
  post (verify_one b addr S vt d f) (print_field b addr S pt (pd_of d pttl) f = POk).
Proof.
  intros Hd Hf Hcb Hlp HA HAo. apply fwf_spec in Hf. destruct Hf as (Hid & Hk & Hu).
  unfold verify_one. cbv zeta. unfold field_ra_ok in HA.
  destruct (fk f) as [size align| |esize align maxc| |t|t|u|u|align t|size align] eqn:K; cbn [fkind_wf] in Hk.
  - (* FScalar *)
    apply andb_true_iff in Hk. destruct Hk as [Hk _]. apply andb_true_iff in Hk. destruct Hk as [Hk Hp].
    apply andb_true_iff in Hk. destruct Hk as [Hs0 Hs1]. apply Z.leb_le in Hs0. apply Z.ltb_lt in Hs1.
    pweak. { apply (pscalar_field_post d pttl); try eassumption. lia. }
    intros HP. unfold print_field. rewrite K. exact HP.
  - (* FString *)
    pweak. { apply (pstring_field_post d pttl); assumption. }
    intros HP. unfold print_field. rewrite K. exact HP.
  - (* FVector *)
    apply andb_true_iff in Hk. destruct Hk as [Hk Hmul]. apply andb_true_iff in Hk. destruct Hk as [Hk Hmc].
    apply andb_true_iff in Hk. destruct Hk as [Hk _]. apply andb_true_iff in Hk. destruct Hk as [Hk Hp].
    apply andb_true_iff in Hk. destruct Hk as [Hs0 Hs1].
    apply Z.ltb_lt in Hs0. apply Z.leb_le in Hmc. apply Z.leb_le in Hmul.
    pweak. { apply (pvector_field_post d pttl (fid f) (freq f) esize align maxc A); assumption. }
    intros HP. unfold print_field. rewrite K. exact HP.
  - (* FStringVec *)
    pweak. { apply (pstring_vector_field_post d pttl); assumption. }
    intros HP. unfold print_field. rewrite K. exact HP.
  - (* FTable *)
    pweak. { apply (ptable_field_post vt pt d pttl (fid f) (freq f) t); try assumption.
             destruct (divides_b_spec _ _ HA) as [_ Hdv]. eapply Z.divide_trans; [exact Hdv|auto]. }
    intros HP. unfold print_field. rewrite K. exact HP.
  - (* FTableVec *)
    pweak. { apply (ptable_vector_field_post vt pt d pttl (fid f) (freq f) t); try assumption.
             destruct (divides_b_spec _ _ HA) as [_ Hdv]. eapply Z.divide_trans; [exact Hdv|auto]. }
    intros HP. unfold print_field. rewrite K. exact HP.
  - (* FUnion *)
    apply (punion_field_post vt pt d pttl f u A); try assumption. lia.
  - (* FUnionVec *)
    apply (punion_vector_field_post vt pt d pttl f u A); try assumption. lia.
  - (* FNestedTable *)
    apply (pnested_table_post vt pt d pttl f align t A); assumption.
  - (* FNestedStruct *)
    apply andb_true_iff in Hk. destruct Hk as [Hk Hp]. apply andb_true_iff in Hk. destruct Hk as [Hs0 Hs1].
    apply Z.leb_le in Hs0. apply Z.ltb_lt in Hs1.
    apply (pnested_struct_post pt d pttl f size align A); try assumption. lia.
Qed.

Lemma print_fields_post vt pt d pttl A : tdi d -> cbp vt pt (t_ttl d) -> t_ttl d <= pttl -> (A | addr + t_o d) ->
  forall fs, (forall f, In f fs -> field_wf f = true /\ field_ra_ok S ra A f = true) ->
  post (verify_fields b addr S vt d fs) (print_fields b addr S pt (pd_of d pttl) fs = POk).
Proof.
  intros Hd Hcb Hlp HAo. induction fs as [|f r IH]; intros Hall.
  - pok. reflexivity.
  - cbn [verify_fields]. pbnd.
    { apply (print_one_post vt pt d pttl f A); try assumption; apply Hall; left; reflexivity. }
    intros H1. pweak. { apply IH. intros f' Hin. apply Hall. right. assumption. }
    intros H2. cbn [print_fields]. rewrite H1. exact H2.
Qed.

(* ---- the recursion: printer budget >= verifier budget, so "deep recursion" is never raised *)
Lemma print_table_post : forall fuel o e base off ttl pttl t,
  region o e -> 0 <= base -> in_u32 off -> ttl <= pttl -> (ra t | addr + o) ->
  post (verify_table b addr S fuel o e base off ttl t)
       (print_table b addr S fuel (o + base + off) pttl t = POk).
Proof.
  induction fuel as [|fuel IH]; intros o e base off ttl pttl t Hr Hb Ho Hlp Hal.
  - cbn [verify_table]. right. split; [discriminate|exact I].
  - cbn [verify_table]. apply vtw_post; try assumption.
    intros d Hd Eo Ee Et Ettl Httl.
    assert (Hcb : cbp (verify_table b addr S fuel) (print_table b addr S fuel) (t_ttl d)).
    { intros o1 e1 base1 off1 ttl1 pttl1 t1 Hr1 Hb1 Ho1 Hl1 Hlp1 Hal1. apply IH; assumption. }
    pweak.
    { apply (print_fields_post (verify_table b addr S fuel) (print_table b addr S fuel) d (pttl - 1) (ra t) Hd Hcb).
      - lia.
      - rewrite Eo. assumption.
      - intros f Hin. split.
        + eapply schema_wf_field; eassumption.
        + apply ra_ok_field; auto. }
    intros HP. cbn [print_table]. unfold print_table_object. dinv Hd.
    destruct (pttl - 1 =? 0) eqn:Ez; [apply Z.eqb_eq in Ez; lia|].
    replace (o + base + off) with (t_o d + t_table d) by lia.
    rewrite need_ok_intro by lia.
    destruct (Hso I) as [so [Rso Eso]]. rewrite (g32_eq _ _ _ Rso). cbv zeta.
    replace (t_o d + t_table d - s32 so) with (t_o d + t_vtable d) by lia.
    rewrite need_ok_intro by lia. rewrite (g16_eq _ _ _ Rvs). exact HP.
Qed.

(* ---- roots *)
Definition ident_ok (start : Z) (ident : option Z) : Prop :=
  match ident with None => True | Some h => h = 0 \/ g32 b (start + 4) = h end.

Lemma print_walk_gen_intro maxlev fuel r (wsz : bool) ident :
  8 <= blen b - (if wsz then 4 else 0) -> addr mod 4 = 0 -> ident_ok (if wsz then 4 else 0) ident ->
  (if need_ok b addr (if wsz then 4 else 0) 4 4 then
     match r with
     | RTable t => print_table b addr S fuel (follow b (if wsz then 4 else 0)) maxlev t
     | RStruct size align =>
       if (size =? 0) || need_ok b addr (follow b (if wsz then 4 else 0)) size align then POk
       else PBad (follow b (if wsz then 4 else 0)) size align
     end
   else PBad (if wsz then 4 else 0) 4 4) = POk ->
  print_walk_gen b addr S maxlev fuel r wsz ident = POk.
Proof.
  intros H8 Hal Hid Hgo. unfold print_walk_gen. cbv zeta.
  assert (E: header_ok (blen b - (if wsz then 4 else 0)) = true) by (apply Z.leb_le; lia). rewrite E. cbn [negb].
  destruct ident as [h|]; [|exact Hgo].
  rewrite need_ok_intro by (destruct wsz; lia).
  cbn [ident_ok] in Hid.
  assert (Ec : (h =? 0) || (g32 b ((if wsz then 4 else 0) + 4) =? h) = true).
  { apply orb_true_iff. destruct Hid as [Hid|Hid]; [left|right]; apply Z.eqb_eq; assumption. }
  rewrite Ec. exact Hgo.
Qed.

Lemma print_root_post maxlev fuel r v ident :
  root_wf r -> root_aligned ra addr r -> VERIFIER_MAX_LEVELS <= maxlev ->
  ident_ok (if ws v then 4 else 0) ident ->
  post (verify_root b addr S fuel r v) (print_walk_gen b addr S maxlev fuel r (ws v) ident = POk).
Proof.
  intros Hrw Hal Hlev Hid. destruct Hwf as [Hlen _].
  unfold verify_root. destruct r as [t|size align]; cbn [root_wf root_aligned] in *.
  - unfold verify_table_as_root. destruct v; cbn [ws] in *.
    + pbnd. { apply vbh_post. }
      intros (Hao & H8 & HM). unfold U32_MAX in HM. unfold r32.
      destruct (rd32_in b (0 + 0) Hwf) as [off [R Hoff]]; [lia|lia|]. rewrite R.
      assert (Hreg : region 0 (blen b)) by (unfold VerifierProofsMain.region; repeat split; lia).
      pweak. { apply (print_table_post fuel 0 (blen b) 0 off VERIFIER_MAX_LEVELS maxlev t Hreg); try assumption; [lia|].
               replace (addr + 0) with addr by lia. auto. }
      intros HP. apply print_walk_gen_intro; [lia|lia|assumption|].
      rewrite need_ok_intro by lia. unfold follow.
      assert (R' : rd32 b 0 = Some off) by exact R. rewrite (g32_eq _ _ _ R'). exact HP.
    + pif H1. apply Z.eqb_eq in H1. rewrite u32_mod in H1 by (try lia; exists 1073741824; reflexivity).
      pif H2. apply Z.leb_le in H2. unfold U32_MAX in H2. pif H3. apply Z.leb_le in H3. unfold r32.
      destruct (rd32_in b (0 + 0) Hwf) as [sf [Rsf Hsf]]; [lia|lia|]. rewrite Rsf. unfold in_u32 in Hsf.
      pif H4. apply Z.leb_le in H4.
      destruct (rd32_in b (0 + 4) Hwf) as [off [R Hoff]]; [lia|lia|]. rewrite R.
      assert (Hreg : region 0 (sf + 4)) by (unfold VerifierProofsMain.region; repeat split; lia).
      pweak. { apply (print_table_post fuel 0 (sf + 4) 4 off VERIFIER_MAX_LEVELS maxlev t Hreg); try assumption; [lia|].
               replace (addr + 0) with addr by lia. auto. }
      intros HP. apply print_walk_gen_intro; [lia|lia|assumption|].
      rewrite need_ok_intro by lia. unfold follow.
      assert (R' : rd32 b 4 = Some off) by exact R. rewrite (g32_eq _ _ _ R'). exact HP.
  - destruct Hrw as [Hsize Hal0]. unfold verify_struct_as_root. destruct v; cbn [ws] in *.
    + unfold verify_struct_as_root_at.
      pbnd. { apply vbh_post. }
      intros (Hao & H8 & HM). unfold U32_MAX in HM. unfold r32.
      destruct (rd32_in b (0 + 0) Hwf) as [off [R Hoff]]; [lia|lia|]. rewrite R.
      pweak. { apply vs_post; [lia|assumption|lia]. }
      intros HP. destruct (HP Hsize) as (H0 & Hle & Hm).
      apply print_walk_gen_intro; [lia|lia|assumption|].
      rewrite need_ok_intro by lia. unfold follow.
      assert (R' : rd32 b 0 = Some off) by exact R. rewrite (g32_eq _ _ _ R').
      rewrite need_ok_intro; [rewrite orb_true_r; reflexivity|lia|lia|].
      apply abs_aligned with (A := align); auto. apply Z.divide_refl.
    + pif H1. apply Z.eqb_eq in H1. rewrite u32_mod in H1 by (try lia; exists 1073741824; reflexivity).
      pif H2. apply Z.leb_le in H2. unfold U32_MAX in H2. pif H3. apply Z.leb_le in H3. unfold r32.
      destruct (rd32_in b (0 + 0) Hwf) as [sf [Rsf Hsf]]; [lia|lia|]. rewrite Rsf. unfold in_u32 in Hsf.
      pif H4. apply Z.leb_le in H4.
      destruct (rd32_in b (0 + 4) Hwf) as [off [R Hoff]]; [lia|lia|]. rewrite R.
      pweak. { apply vs_post; [lia|assumption|lia]. }
      intros HP. destruct (HP Hsize) as (H0 & Hle & Hm).
      apply print_walk_gen_intro; [lia|lia|assumption|].
      rewrite need_ok_intro by lia. unfold follow.
      assert (R' : rd32 b 4 = Some off) by exact R. rewrite (g32_eq _ _ _ R').
      rewrite need_ok_intro; [rewrite orb_true_r; reflexivity|lia|lia|].
      apply abs_aligned with (A := align); auto. apply Z.divide_refl.
Qed.

End PrinterSound.

(* ------------------------------------------------------------------------------------------------
   top level *)
Definition start_of (v : variant) : Z := if ws v then 4 else 0.

(* the printer's budget is at least the verifier's (current constants; re-checked when Consts.v changes) *)
Lemma levels_le : VERIFIER_MAX_LEVELS <= JSON_PRINT_MAX_LEVELS.
Proof. unfold VERIFIER_MAX_LEVELS, JSON_PRINT_MAX_LEVELS. lia. Qed.

Theorem printer_sound_gen : forall b addr S ra maxlev fuel r v ident,
  wf_buf b -> schema_wf S = true -> ra_ok S ra = true -> blen b <= SOUND_MAX_SIZE ->
  root_wf r -> root_aligned ra addr r ->
  VERIFIER_MAX_LEVELS <= maxlev ->
  ident_ok b (start_of v) ident ->
  verify_root b addr S fuel r v = VOk ->
  print_walk_gen b addr S maxlev fuel r (ws v) ident = POk.
Proof.
  intros b addr S ra maxlev fuel r v ident Hwf HS Hra Hsz Hrw Hal Hlev Hid HV.
  exact (post_elim _ _ (print_root_post b addr S ra Hwf HS Hsz Hra maxlev fuel r v ident Hrw Hal Hlev Hid) HV).
Qed.

Theorem printer_sound : forall b addr S ra fuel r v ident,
  wf_buf b -> schema_wf S = true -> ra_ok S ra = true -> blen b <= SOUND_MAX_SIZE ->
  root_wf r -> root_aligned ra addr r ->
  ident_ok b (start_of v) ident ->
  verify_root b addr S fuel r v = VOk ->
  print_walk b addr S fuel r (match v with WithSize => true | Plain => false end) ident = POk.
Proof.
  intros b addr S ra fuel r v ident Hwf HS Hra Hsz Hrw Hal Hid HV.
  exact (printer_sound_gen b addr S ra JSON_PRINT_MAX_LEVELS fuel r v ident Hwf HS Hra Hsz Hrw Hal levels_le Hid HV).
Qed.

(* the instance a caller has: C verdict "accepted" = model verdict VOk at the verifier's own nesting limit *)
Theorem accepted_print_within_levels : forall b addr S ra r v,
  wf_buf b -> schema_wf S = true -> ra_ok S ra = true -> blen b <= SOUND_MAX_SIZE ->
  root_wf r -> root_aligned ra addr r ->
  verify_root b addr S (Z.to_nat VERIFIER_MAX_LEVELS) r v = VOk ->
  print_walk b addr S (Z.to_nat VERIFIER_MAX_LEVELS) r (match v with WithSize => true | Plain => false end) None = POk.
Proof.
  intros b addr S ra r v Hwf HS Hra Hsz Hrw Hal HV.
  exact (printer_sound b addr S ra _ r v None Hwf HS Hra Hsz Hrw Hal I HV).
Qed.

(* ---- the budget hypothesis cannot be dropped: with a printer limit of 3 a chain of three tables, accepted by
   the verifier, makes the printer raise "deep recursion" (all its reads are still fine) *)
Definition chain3_schema : schema := {| tables := [[{| fid := 0; freq := false; fk := FTable 0 |}]]; unions := [] |}.
Definition chain3_bytes : list Z :=
  [16;0;0;0; 0;0;0;0; 8;0;8;0;4;0;0;0; 8;0;0;0; 12;0;0;0; 8;0;8;0;4;0;0;0; 8;0;0;0; 12;0;0;0;
   8;0;8;0;0;0;0;0; 8;0;0;0; 0;0;0;0].
Definition chain3_buf : buf := of_list chain3_bytes.

Lemma levels_hypothesis_needed :
  wf_buf chain3_buf /\ schema_wf chain3_schema = true /\ ra_ok chain3_schema (fun _ => 4) = true /\
  blen chain3_buf <= SOUND_MAX_SIZE /\ root_aligned (fun _ => 4) 0 (RTable 0) /\
  verify_root chain3_buf 0 chain3_schema 5 (RTable 0) Plain = VOk /\
  print_walk_gen chain3_buf 0 chain3_schema 3 5 (RTable 0) false None = PErr PE_deep_recursion /\
  print_walk_gen chain3_buf 0 chain3_schema 4 5 (RTable 0) false None = POk.
Proof.
  split; [apply of_list_wf|]. split; [vm_compute; reflexivity|]. split; [vm_compute; reflexivity|].
  split; [vm_compute; discriminate|]. split; [exists 0; reflexivity|].
  split; [vm_compute; reflexivity|]. split; vm_compute; reflexivity.
Qed.

(* ---- the string terminator matters to the printer: same bytes as a valid buffer except a non-zero, non-stop
   terminator: the verifier rejects (string_not_zero_terminated) and the printer's scan leaves the buffer *)
Definition sterm_schema : schema := {| tables := [[{| fid := 0; freq := false; fk := FString |}]]; unions := [] |}.
Definition sterm_bytes (term : Z) : list Z :=
  [12;0;0;0; 0;0; 6;0;8;0;4;0; 6;0;0;0; 4;0;0;0; 2;0;0;0; 104;105;term;0].
Lemma string_terminator_matters :
  verify_root (of_list (sterm_bytes 0)) 0 sterm_schema 5 (RTable 0) Plain = VOk /\
  print_walk (of_list (sterm_bytes 0)) 0 sterm_schema 5 (RTable 0) false None = POk /\
  verify_root (of_list (sterm_bytes 65)) 0 sterm_schema 5 (RTable 0) Plain = VErr E_string_not_zero_terminated /\
  print_walk (of_list (sterm_bytes 65)) 0 sterm_schema 5 (RTable 0) false None = PBad 28 1 1.
Proof. repeat split; vm_compute; reflexivity. Qed.

(* ---- non-vacuity: the accepted example buffers of VerifierProofsWitness.v satisfy every hypothesis *)
From Flatcc.Verifier Require Import VerifierProofsWitness.
Lemma example_print_table :
  wf_buf ex1_buf /\ schema_wf ex1_schema = true /\ ra_ok ex1_schema (fun _ => 8) = true /\
  blen ex1_buf <= SOUND_MAX_SIZE /\ root_wf (RTable 0) /\ root_aligned (fun _ => 8) 0 (RTable 0) /\
  verify_root ex1_buf 0 ex1_schema (Z.to_nat VERIFIER_MAX_LEVELS) (RTable 0) Plain = VOk /\
  print_walk ex1_buf 0 ex1_schema (Z.to_nat VERIFIER_MAX_LEVELS) (RTable 0) false None = POk.
Proof.
  destruct example_table as (H1 & H2 & H3 & H4 & H5 & H6 & H7 & _).
  repeat (split; [assumption|]). vm_compute. reflexivity.
Qed.

Lemma example_print_with_size_union_nested :
  wf_buf ex2_buf /\ schema_wf ex2_schema = true /\ ra_ok ex2_schema (fun _ => 8) = true /\
  blen ex2_buf <= SOUND_MAX_SIZE /\ root_aligned (fun _ => 8) 0 (RTable 0) /\
  verify_root ex2_buf 0 ex2_schema 5 (RTable 0) WithSize = VOk /\
  print_walk ex2_buf 0 ex2_schema 5 (RTable 0) true None = POk.
Proof.
  destruct example_with_size_union_nested as (H1 & H2 & H3 & H4 & H5 & H6 & _).
  repeat (split; [assumption|]). vm_compute. reflexivity.
Qed.

(* ------------------------------------------------------------------------------------------------
   termination: the printer's own budget bounds the recursion on EVERY buffer (accepted or not): with fuel for
   JSON_PRINT_MAX_LEVELS levels the model never runs out of fuel (ttl strictly decreases, stops at 1) *)

Section NoFuel.
Variable b : buf.
Variable addr : Z.
Variable S : schema.

Ltac nf := repeat (cbv zeta; match goal with
  | |- (if ?c then _ else _) <> PFuel => destruct c
  | |- POk <> PFuel => discriminate
  | |- PErr _ <> PFuel => discriminate
  | |- PBad _ _ _ <> PFuel => discriminate
  end).

Lemma pbind_nf (r k : pres) : r <> PFuel -> k <> PFuel -> pbind r k <> PFuel.
Proof. destruct r; destruct k; congruence. Qed.

Lemma gfp_nf d id ka kp : ka <> PFuel -> (forall fp, kp fp <> PFuel) -> get_field_ptr b addr d id ka kp <> PFuel.
Proof. intros Ha Hp. unfold get_field_ptr. nf; auto. Qed.

Lemma pstr_nf q : print_string_object b addr q <> PFuel.
Proof. unfold print_string_object. nf. Qed.

Lemma pvec_nf q e a : print_vector_object b addr q e a <> PFuel.
Proof. unfold print_vector_object. nf. Qed.

Lemma ploop_nf body : (forall s, body s <> PFuel) -> forall n slot, ploop n slot body <> PFuel.
Proof. intros H. induction n; intros slot; cbn [ploop]; [discriminate|]. apply pbind_nf; auto. Qed.

Lemma pum_nf pt u ty m ttl : (forall q t, pt q ttl t <> PFuel) -> print_union_member b addr S pt u ty m ttl <> PFuel.
Proof.
  intros H. unfold print_union_member. destruct (find_member (union_members S u) ty) as [[t|sz al|]|]; nf; auto.
  apply pstr_nf.
Qed.

Lemma puloop_nf pt u ttl : (forall q t, pt q ttl t <> PFuel) -> forall n types slot, puloop b addr S pt u ttl n types slot <> PFuel.
Proof.
  intros H. induction n; intros types slot; cbn [puloop]; [discriminate|]. apply pbind_nf; [|auto].
  nf. apply pum_nf. assumption.
Qed.

Lemma pfield_nf pt d f : (forall q t, pt q (p_ttl d) t <> PFuel) -> print_field b addr S pt d f <> PFuel.
Proof.
  intros H. unfold print_field. cbv zeta.
  destruct (fk f) as [size align| |esize align maxc| |t|t|u|u|align t|size align].
  - apply gfp_nf; [discriminate|]. intros fp. nf.
  - apply gfp_nf; [discriminate|]. intros fp. nf. apply pstr_nf.
  - apply gfp_nf; [discriminate|]. intros fp. nf. apply pvec_nf.
  - apply gfp_nf; [discriminate|]. intros fp. nf. apply ploop_nf. intros s. nf. apply pstr_nf.
  - apply gfp_nf; [discriminate|]. intros fp. nf. apply H.
  - apply gfp_nf; [discriminate|]. intros fp. nf. apply ploop_nf. intros s. nf. apply H.
  - apply gfp_nf; [apply gfp_nf; [discriminate|intros; discriminate]|]. intros tp.
    apply gfp_nf; [discriminate|]. intros vp. nf. apply pum_nf. exact H.
  - apply gfp_nf; [apply gfp_nf; [discriminate|intros; discriminate]|]. intros tp.
    apply gfp_nf; [discriminate|]. intros vp. apply pbind_nf.
    + apply gfp_nf; [discriminate|]. intros tp'. nf. apply pvec_nf.
    + nf. apply puloop_nf. exact H.
  - apply gfp_nf; [discriminate|]. intros fp. nf. apply H.
  - apply gfp_nf; [discriminate|]. intros fp. nf.
Qed.

Lemma pfields_nf pt d : (forall q t, pt q (p_ttl d) t <> PFuel) -> forall fs, print_fields b addr S pt d fs <> PFuel.
Proof.
  intros H. induction fs as [|f r IH]; cbn [print_fields]; [discriminate|].
  apply pbind_nf; [apply pfield_nf; assumption|assumption].
Qed.

Lemma ptable_nf : forall fuel p ttl t, 1 <= ttl <= Z.of_nat fuel -> print_table b addr S fuel p ttl t <> PFuel.
Proof.
  induction fuel as [|fuel IH]; intros p ttl t Hl; [lia|].
  cbn [print_table]. unfold print_table_object.
  destruct (ttl - 1 =? 0) eqn:E; [discriminate|]. apply Z.eqb_neq in E. nf.
  apply pfields_nf. cbn [p_ttl]. intros q t'. apply IH. lia.
Qed.

Lemma print_walk_gen_nf maxlev fuel r wsz ident :
  1 <= maxlev <= Z.of_nat fuel -> print_walk_gen b addr S maxlev fuel r wsz ident <> PFuel.
Proof.
  intros Hl. unfold print_walk_gen. cbv zeta.
  destruct (negb (header_ok (blen b - (if wsz then 4 else 0)))); [discriminate|].
  destruct ident as [h|]; nf; destruct r as [t|size align]; nf; apply ptable_nf; assumption.
Qed.
End NoFuel.

Theorem print_terminates : forall b addr S fuel r wsz ident,
  (Z.to_nat JSON_PRINT_MAX_LEVELS <= fuel)%nat -> print_walk b addr S fuel r wsz ident <> PFuel.
Proof.
  intros. apply print_walk_gen_nf. unfold JSON_PRINT_MAX_LEVELS in *. lia.
Qed.
