(* C01 leaves (T5): verify_field, as TRANSLATED from the current src/runtime/verifier.c by translators/cleaf_to_coq.py
   (Flatcc.Generated.Leaf_verifier), equal the hand-written model functions of VerifierModel.v for all arguments in the
   ranges of the C parameter types, under the reading conventions of LeafConv.v.  Proofs: unfold, then the generic
   tactic [leaf_auto] of LeafTac.v (no step names a particular check, so a semantics-preserving rewrite of a leaf
   re-proves; a changed comparison, a dropped check, a different width of an intermediate does not). *)
From Flatcc.Verifier Require Import VerifierModel LeafTac LeafConv.
From Flatcc.Generated Require Import Leaf_verifier.
From Coq Require Import ZifyBool.
Local Open Scope Z_scope.
Ltac Zify.zify_post_hook ::= Z.div_mod_to_equations.

Lemma c_verify_field_eq b addr d id required size align :
  id_ok id -> in_s32 required -> in_u32 size -> pow2_16 align -> td_inv d -> wf_buf b ->
  vres_of (c_verify_field (td_of b addr d) id required size align) = verify_field b addr d id (negb (required =? 0)) size align.
Proof.
  unfold in_s32. intros Hi Hr Hs Ha Hd Hwf.
  unfold c_verify_field, verify_field, c_read_vt_entry, read_vt_entry, td_of, ptr_of, r16, s32, u64, u32, u16.
  cbn [td_vsize td_vtable td_buf td_table td_tsize p_rd16 p_addr].
  leaf_auto.
Qed.

