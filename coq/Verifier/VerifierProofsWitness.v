(* C01 proofs, part 4: concrete witnesses.
   - examples: the hypotheses of the soundness theorem are satisfiable and the verifier accepts;
   - size_bound_refuted: one byte above SOUND_MAX_SIZE acceptance no longer implies a safe walk (the verifier
     computes the vtable position modulo 2^32, the reader with pointer arithmetic);
   - nested_alignment_refuted: without the alignment certificate, a nested table buffer that starts at a
     4-but-not-8-aligned position and contains a [double] vector is accepted and walked misaligned. *)
From Flatcc.Verifier Require Import VerifierProofsBase.
Local Open Scope Z_scope.

Definition fld (id : Z) (k : fkind) : field := {| fid := id; freq := false; fk := k |}.

(* ---- example 1: table { a:int; s:string; v:[double] } *)
Definition ex1_schema : schema :=
  {| tables := [[fld 0 (FScalar 4 4); fld 1 FString; fld 2 (FVector 8 8 (COUNT_MAX 8))]]; unions := [] |}.
Definition ex1_bytes : list Z :=
  [16;0;0;0;  10;0;16;0; 4;0;8;0; 12;0;0;0;
   12;0;0;0;  42;0;0;0;  8;0;0;0;  16;0;0;0;
   2;0;0;0;   104;105;0;0;  0;0;0;0;  1;0;0;0;  1;2;3;4;5;6;7;8].
Definition ex1_buf : buf := of_list ex1_bytes.

Lemma example_table :
  wf_buf ex1_buf /\ schema_wf ex1_schema = true /\ ra_ok ex1_schema (fun _ => 8) = true /\
  blen ex1_buf <= SOUND_MAX_SIZE /\ root_wf (RTable 0) /\ root_aligned (fun _ => 8) 0 (RTable 0) /\
  verify_root ex1_buf 0 ex1_schema (Z.to_nat VERIFIER_MAX_LEVELS) (RTable 0) Plain = VOk /\
  walk_root ex1_buf 0 ex1_schema (Z.to_nat VERIFIER_MAX_LEVELS) (RTable 0) false = WOk.
Proof.
  split; [apply of_list_wf|]. split; [vm_compute; reflexivity|]. split; [vm_compute; reflexivity|].
  split; [vm_compute; discriminate|]. split; [exact I|]. split; [exists 0; reflexivity|].
  split; vm_compute; reflexivity.
Qed.

(* ---- example 2: the same buffer size-prefixed, a union with a struct member, a nested struct root *)
Definition ex2_schema : schema :=
  {| tables := [[fld 1 (FUnion 0); fld 2 (FNestedStruct 8 8)]];
     unions := [[(1, UStruct 8 8); (2, UString); (3, UTable 0)]] |}.
(* size prefix | root offset | vtable(10, 16, type@4, value@8, nested@12) | table | struct | ubyte vector *)
Definition ex2_bytes : list Z :=
  [68;0;0;0;  20;0;0;0;  0;0;0;0;  10;0;16;0; 4;0;8;0; 12;0;0;0;
   12;0;0;0;  1;0;0;0;  8;0;0;0;  16;0;0;0;
   9;9;9;9;9;9;9;9;  0;0;0;0;
   16;0;0;0;  8;0;0;0; 0;0;0;0;  7;7;7;7;7;7;7;7].
Definition ex2_buf : buf := of_list ex2_bytes.

Lemma example_with_size_union_nested :
  wf_buf ex2_buf /\ schema_wf ex2_schema = true /\ ra_ok ex2_schema (fun _ => 8) = true /\
  blen ex2_buf <= SOUND_MAX_SIZE /\ root_aligned (fun _ => 8) 0 (RTable 0) /\
  verify_root ex2_buf 0 ex2_schema 5 (RTable 0) WithSize = VOk /\
  walk_root ex2_buf 0 ex2_schema 5 (RTable 0) true = WOk.
Proof.
  split; [apply of_list_wf|]. split; [vm_compute; reflexivity|]. split; [vm_compute; reflexivity|].
  split; [vm_compute; discriminate|]. split; [exists 0; reflexivity|].
  split; vm_compute; reflexivity.
Qed.

(* ---- the size bound is tight: a 2^31 + 4 byte buffer *)
Definition big_schema : schema :=
  {| tables := [[fld 0 (FTable 1)]; [fld 0 (FScalar 4 4)]]; unions := [] |}.
(* byte 0: root offset 0x00010008, doubling as the vtable {vsize 8, tsize 1, 0, 0} of the second table;
   0x10000: vtable {6, 8, 4} of the root table at 0x10008 whose field points to the table at 2^31;
   that table's soffset is 0x80000000: the verifier computes vtable = u32(2^31 - 2^31) = 0,
   the reader p - (int32_t)0x80000000 = 2^32 *)
Definition big_get (i : Z) : Z :=
  if i =? 0 then 8 else if i =? 2 then 1 else
  if i =? 65536 then 6 else if i =? 65538 then 8 else if i =? 65540 then 4 else
  if i =? 65544 then 8 else
  if i =? 65548 then 244 else if i =? 65549 then 255 else if i =? 65550 then 254 else if i =? 65551 then 127 else
  if i =? 2147483651 then 128 else 0.
Definition big_buf : buf := {| blen := 2147483652; bget := big_get |}.

Lemma big_buf_wf : wf_buf big_buf.
Proof.
  split; [cbn; lia|]. intros i. cbn [bget big_buf]. unfold big_get.
  repeat (match goal with |- context [if ?c then _ else _] => destruct c end; [lia|]). lia.
Qed.

Lemma size_bound_refuted :
  exists b addr S ra fuel r v,
    wf_buf b /\ schema_wf S = true /\ ra_ok S ra = true /\ blen b = SOUND_MAX_SIZE + 1 /\
    root_wf r /\ root_aligned ra addr r /\
    verify_root b addr S fuel r v = VOk /\
    walk_root b addr S fuel r (match v with WithSize => true | Plain => false end) = WBad 4294967296 2 2.
Proof.
  exists big_buf, 0, big_schema, (fun _ => 1), 3%nat, (RTable 0), Plain.
  split; [apply big_buf_wf|]. split; [vm_compute; reflexivity|]. split; [vm_compute; reflexivity|].
  split; [reflexivity|]. split; [exact I|]. split; [exists 0; reflexivity|].
  split; vm_compute; reflexivity.
Qed.

(* ---- nested table buffers: alignment above 4 is only checked relative to the nested start *)
Definition nested_schema : schema :=
  {| tables := [[fld 0 (FNestedTable 1 1)]; [fld 0 (FVector 8 8 (COUNT_MAX 8))]]; unions := [] |}.
Definition nested_bytes : list Z :=
  [12;0;0;0;  6;0;8;0; 4;0;0;0;  8;0;0;0; 8;0;0;0;  0;0;0;0;  32;0;0;0;
   (* nested buffer at 28 *)
   12;0;0;0;  6;0;8;0; 4;0;0;0;  8;0;0;0; 4;0;0;0;  1;0;0;0;  0;0;0;0;0;0;0;0].
Definition nested_buf : buf := of_list nested_bytes.

(* every alignment of the schema divides 8 and the buffer is placed at address 0 *)
Lemma nested_alignment_refuted :
  exists b addr S fuel r v,
    wf_buf b /\ schema_wf S = true /\ blen b <= SOUND_MAX_SIZE /\ addr mod 32768 = 0 /\ root_wf r /\
    verify_root b addr S fuel r v = VOk /\
    walk_root b addr S fuel r (match v with WithSize => true | Plain => false end) = WBad 52 8 8.
Proof.
  exists nested_buf, 0, nested_schema, 4%nat, (RTable 0), Plain.
  split; [apply of_list_wf|]. split; [vm_compute; reflexivity|]. split; [vm_compute; discriminate|].
  split; [reflexivity|]. split; [exact I|].
  split; vm_compute; reflexivity.
Qed.

(* ... and no alignment certificate exists for that schema: the hypothesis [ra_ok] excludes exactly this *)
Lemma nested_schema_has_no_certificate : forall ra, ra_ok nested_schema ra = false.
Proof.
  intros ra. destruct (ra_ok nested_schema ra) eqn:E; [exfalso|reflexivity].
  pose proof (ra_ok_field nested_schema ra 0%nat (fld 0 (FNestedTable 1 1)) E (or_introl eq_refl)) as H0.
  pose proof (ra_ok_field nested_schema ra 1%nat (fld 0 (FVector 8 8 (COUNT_MAX 8))) E (or_introl eq_refl)) as H1.
  cbn [field_ra_ok fk fld] in H0, H1.
  apply divides_b_spec in H1. destruct H1 as [_ H8].
  apply orb_true_iff in H0. destruct H0 as [H0|H0].
  - apply divides_b_spec in H0. destruct H0 as [Hp H4].
    assert (H : (8 | 4)) by (eapply Z.divide_trans; eassumption). apply Z.divide_pos_le in H; lia.
  - apply andb_true_iff in H0. destruct H0 as [_ H0]. apply divides_b_spec in H0. destruct H0 as [Hp H1].
    assert (H : (8 | 1)) by (eapply Z.divide_trans; eassumption). apply Z.divide_pos_le in H; lia.
Qed.
