(* C09, builder side, part 2: the format specification's decoder (Format/Spec.v) under schema evolution.
   Whatever decodes under the NEW schema B decodes under the OLD schema A, to the value RESTRICTED to A:
   fields A does not list are dropped, a union member whose type code A does not list becomes [VUnknown] (the decoder
   does not follow it - the same rule as the generated verifier's default case), everything else is equal. *)
From Flatcc.Format Require Import Schema Spec.
From Flatcc.Verifier Require Import Evolution2.
Local Open Scope Z_scope.

Ltac bd H :=
  match type of H with
  | bind ?e _ = Some _ => let E := fresh "E" in destruct e eqn:E; [cbn [bind] in H |- * | discriminate H]
  | (if ?b then _ else None) = Some _ => let E := fresh "E" in destruct b eqn:E; [| discriminate H]
  | (if ?b then None else _) = Some _ => let E := fresh "E" in destruct b eqn:E; [discriminate H |]
  end.

(* ------------------------------------------------------------------ the restriction of a value to schema A *)
Section Restr.
Variable A : schema.
Variable rv : nat -> value -> value.      (* restriction of a table value, by table type *)

Definition rv_member (u : nat) (c : Z) (x : value) : value :=
  match union_member A u c with
  | Some (UTable t) => rv t x
  | Some (UStruct _ _) => x
  | Some UString => x
  | None => VUnknown
  end.

Definition rv_uelem (u : nat) (ce : Z * option value) : Z * option value :=
  (fst ce, option_map (rv_member u (fst ce)) (snd ce)).

Definition rv_kind (k : fkind) : value -> value :=
  match k with
  | FTable t => rv t
  | FTableVec t => fun v => match v with VOffVec es => VOffVec (map (rv t) es) | _ => v end
  | FUnion u => fun v => match v with VUnion c x => VUnion c (rv_member u c x) | _ => v end
  | FUnionVec u => fun v => match v with VUnionVec es => VUnionVec (map (rv_uelem u) es) | _ => v end
  | FNestedTable _ t => fun v => match v with VNested x => VNested (rv t x) | _ => v end
  | _ => fun v => v
  end.

Fixpoint rv_fields (fa : list field) (fs : list (Z * value)) : list (Z * value) :=
  match fa with
  | [] => []
  | f :: r =>
    match assocZ (fid f) fs with
    | Some v => (fid f, rv_kind (fk f) v) :: rv_fields r fs
    | None => rv_fields r fs
    end
  end.

Definition rv_table_body (t : nat) (v : value) : value :=
  match table_fields A t, v with
  | Some fa, VTable fs => VTable (rv_fields fa fs)
  | _, _ => v
  end.
End Restr.

Fixpoint rv_table (A : schema) (n : nat) : nat -> value -> value :=
  match n with
  | O => fun _ v => v
  | Datatypes.S k => rv_table_body A (rv_table A k)
  end.

Definition rv_root (A : schema) (n : nat) (R : root) (v : value) : value :=
  match R with RTable t => rv_table A n t v | RStruct _ _ => v end.

(* ------------------------------------------------------------------ A refers to its own tables only *)
Definition kind_closed (A : schema) (k : fkind) : bool :=
  match k with
  | FTable t | FTableVec t | FNestedTable _ t => Nat.ltb t (length (tables A))
  | _ => true
  end.
Definition member_closed (A : schema) (m : umember) : bool :=
  match m with UTable t => Nat.ltb t (length (tables A)) | _ => true end.
Definition tables_closed (A : schema) : bool :=
  forallb (forallb (fun f => kind_closed A (fk f))) (tables A)
  && forallb (forallb (fun cm => member_closed A (snd cm))) (unions A).
Definition root_in (A : schema) (R : root) : Prop :=
  match R with RTable t => (t < length (tables A))%nat | RStruct _ _ => True end.

Lemma closed_field A t fa f : tables_closed A = true -> table_fields A t = Some fa -> In f fa -> kind_closed A (fk f) = true.
Proof.
  intros H Ht Hin. unfold tables_closed in H. apply andb_true_iff in H. destruct H as [H _].
  rewrite forallb_forall in H. unfold table_fields in Ht. specialize (H fa (nth_error_In _ _ Ht)).
  rewrite forallb_forall in H. exact (H f Hin).
Qed.

Lemma closed_member A u c t : tables_closed A = true -> union_member A u c = Some (UTable t) -> (t < length (tables A))%nat.
Proof.
  intros H Hm. unfold tables_closed in H. apply andb_true_iff in H. destruct H as [_ H].
  rewrite forallb_forall in H. unfold union_member in Hm.
  destruct (nth_error (unions A) u) as [ms|] eqn:Eu; [|discriminate].
  specialize (H ms (nth_error_In _ _ Eu)). rewrite forallb_forall in H.
  specialize (H (c, UTable t) (assocZ_in _ _ _ Hm)). cbn in H. apply Nat.ltb_lt in H. exact H.
Qed.

(* ------------------------------------------------------------------ generic pieces *)
Lemma dec_offs_res (fB fA : Z -> option value) (g : value -> value) m o :
  (forall p v, fB p = Some v -> fA p = Some (g v)) ->
  forall n p l, dec_offs fB m o p n = Some l -> dec_offs fA m o p n = Some (map g l).
Proof.
  intros Hf. induction n; intros p l E; cbn [dec_offs] in *.
  - injection E as <-. reflexivity.
  - bd E. bd E. bd E. rewrite (Hf _ _ E1). cbn [bind]. rewrite (IHn _ _ E2). cbn [bind].
    injection E as <-. reflexivity.
Qed.

Lemma dec_offvec_res (fB fA : Z -> option value) (g : value -> value) m o ds p v :
  (forall p v, fB p = Some v -> fA p = Some (g v)) ->
  dec_offvec fB m o ds p = Some v ->
  dec_offvec fA m o ds p = Some (match v with VOffVec es => VOffVec (map g es) | _ => v end).
Proof.
  intros Hf. unfold dec_offvec. intros E. bd E. bd E. bd E. bd E.
  rewrite (dec_offs_res _ _ _ _ _ Hf _ _ _ E3). cbn [bind]. injection E as <-. reflexivity.
Qed.

(* every key of a decoded field list is an id of the field list *)
Lemma dec_fields_keys rec Sc m o ds vt vsize tp tsize : forall fl fs,
  dec_fields rec Sc m o ds vt vsize tp tsize fl = Some fs -> forall k v, assocZ k fs = Some v -> In k (map fid fl).
Proof.
  induction fl as [|f r IH]; intros fs E k v Hk; cbn [dec_fields] in E.
  - injection E as <-. discriminate.
  - bd E. bd E. injection E as <-. cbn [map]. destruct o0 as [w|].
    + cbn [assocZ] in Hk. destruct (k =? fid f) eqn:Ek.
      * left. apply Z.eqb_eq in Ek. congruence.
      * right. eapply IH; [reflexivity | exact Hk].
    + right. eapply IH; [reflexivity | exact Hk].
Qed.

(* with distinct ids, looking an id up in the decoded list gives exactly what decoding that field gave *)
Lemma dec_fields_assoc rec Sc m o ds vt vsize tp tsize : forall fl fs, NoDup (map fid fl) ->
  dec_fields rec Sc m o ds vt vsize tp tsize fl = Some fs ->
  forall f, In f fl -> exists ov, dec_field rec Sc m o ds vt vsize tp tsize f = Some ov /\ assocZ (fid f) fs = ov.
Proof.
  induction fl as [|h r IH]; intros fs Hnd E f Hin; [destruct Hin|].
  cbn [dec_fields] in E. bd E. bd E. injection E as <-.
  cbn [map] in Hnd. inversion Hnd as [|? ? Hnh Hnr]; subst.
  destruct Hin as [->|Hin].
  - exists o0. split; [exact E0|]. destruct o0 as [w|].
    + cbn [assocZ]. rewrite Z.eqb_refl. reflexivity.
    + destruct (assocZ (fid f) l) as [w|] eqn:Ea; [|reflexivity].
      exfalso. apply Hnh. eapply dec_fields_keys; eassumption.
  - destruct (IH l Hnr eq_refl f Hin) as (ov & Hov & Ha). exists ov. split; [exact Hov|].
    destruct o0 as [w|]; [|exact Ha].
    cbn [assocZ]. destruct (fid f =? fid h) eqn:Ek; [|exact Ha].
    exfalso. apply Hnh. apply Z.eqb_eq in Ek. rewrite <- Ek. apply in_map. exact Hin.
Qed.

(* ------------------------------------------------------------------ one level *)
Section Level.
Variables A B : schema.
Hypothesis HE : extends A B = true.
Hypothesis HC : tables_closed A = true.
Variables (rB rA : tdec) (rv : nat -> value -> value).

Definition rres : Prop :=
  forall m o ds t p v, (t < length (tables A))%nat -> rB m o ds t p = Some v -> rA m o ds t p = Some (rv t v).
Hypothesis Hrec : rres.

Lemma dec_member_res m o ds u c t v :
  dec_member rB B m o ds u c t = Some v -> dec_member rA A m o ds u c t = Some (rv_member A rv u c v).
Proof.
  unfold dec_member, rv_member. destruct (union_member A u c) as [mem|] eqn:EA.
  - rewrite (extends_member A B u c mem HE EA). destruct mem as [t0|s a|].
    + intros E. apply Hrec; [eapply closed_member; eassumption | exact E].
    + auto.
    + auto.
  - intros _. reflexivity.
Qed.

Lemma dec_uelems_res m o ds u : forall n tp vp l,
  dec_uelems rB B m o ds u tp vp n = Some l -> dec_uelems rA A m o ds u tp vp n = Some (map (rv_uelem A rv u) l).
Proof.
  induction n; intros tp vp l E; cbn [dec_uelems] in *.
  - injection E as <-. reflexivity.
  - bd E. bd E. bd E. bd E. injection E as <-.
    assert (E2' : (if z =? 0 then if z0 =? 0 then Some None else None
                   else if z0 =? 0 then None
                   else v <- dec_member rA A m o ds u z (vp + z0);; Some (Some v))
                  = Some (option_map (rv_member A rv u z) o0)).
    { destruct (z =? 0).
      - destruct (z0 =? 0); [|discriminate]. injection E2 as <-. reflexivity.
      - destruct (z0 =? 0); [discriminate|]. bd E2. injection E2 as <-.
        rewrite (dec_member_res _ _ _ _ _ _ _ E). reflexivity. }
    rewrite E2'. cbn [bind]. rewrite (IHn _ _ _ E3). reflexivity.
Qed.

Lemma dec_uvec_res m o ds u tp vp v :
  dec_uvec rB B m o ds u tp vp = Some v ->
  dec_uvec rA A m o ds u tp vp = Some (match v with VUnionVec es => VUnionVec (map (rv_uelem A rv u) es) | _ => v end).
Proof.
  unfold dec_uvec. intros E. bd E. bd E. bd E. bd E. bd E.
  rewrite (dec_uelems_res _ _ _ _ _ _ _ _ E4). cbn [bind]. injection E as <-. reflexivity.
Qed.

Definition rv_rootv (R : root) (v : value) : value := match R with RTable t => rv t v | RStruct _ _ => v end.

Lemma dec_buffer_res m o ds R hp v : root_in A R ->
  dec_buffer rB m o ds R hp = Some v -> dec_buffer rA m o ds R hp = Some (rv_rootv R v).
Proof.
  intros HR. unfold dec_buffer. intros E. bd E. bd E.
  destruct R as [t|s a]; cbn [rv_rootv]; [apply Hrec; [exact HR | exact E] | exact E].
Qed.

Lemma dec_nested_res m o ds R al t v : root_in A R ->
  dec_nested rB m o ds R al t = Some v ->
  dec_nested rA m o ds R al t = Some (match v with VNested x => VNested (rv_rootv R x) | _ => v end).
Proof.
  intros HR. unfold dec_nested. intros E. bd E. bd E. bd E. bd E.
  rewrite (dec_buffer_res _ _ _ _ _ _ HR E3). cbn [bind]. injection E as <-. reflexivity.
Qed.

Section Table.
Variables (m : mem) (o : Z) (ds : list Z) (vt vsize tp tsize : Z).

Lemma with_off_res id (kB kA : Z -> option value) (g : value -> value) ov :
  (forall p v, kB p = Some v -> kA p = Some (g v)) ->
  with_off m o ds vt vsize tp tsize id kB = Some ov ->
  with_off m o ds vt vsize tp tsize id kA = Some (option_map g ov).
Proof.
  intros Hk. unfold with_off. intros E. bd E. destruct o0 as [p|].
  - bd E. bd E. rewrite (Hk _ _ E2). cbn [bind]. injection E as <-. reflexivity.
  - injection E as <-. reflexivity.
Qed.

Lemma dec_kind_res id k ov : kind_closed A k = true ->
  dec_kind rB B m o ds vt vsize tp tsize id k = Some ov ->
  dec_kind rA A m o ds vt vsize tp tsize id k = Some (option_map (rv_kind A rv k) ov).
Proof.
  intros Hcl. destruct k; cbn [dec_kind rv_kind kind_closed] in *; intros E.
  - rewrite E. destruct ov; reflexivity.
  - rewrite E. destruct ov; reflexivity.
  - rewrite E. destruct ov; reflexivity.
  - rewrite E. destruct ov; reflexivity.
  - apply Nat.ltb_lt in Hcl. eapply with_off_res; [|exact E]. intros p v. apply Hrec. exact Hcl.
  - apply Nat.ltb_lt in Hcl. eapply with_off_res; [|exact E]. intros p v.
    apply dec_offvec_res. intros p' v'. apply Hrec. exact Hcl.
  - bd E. bd E. bd E.
    destruct (z =? 0).
    + rewrite E. destruct ov as [w|]; [|reflexivity]. destruct o1; discriminate.
    + destruct o1 as [p|]; [|discriminate]. bd E. bd E. injection E as <-.
      rewrite (dec_member_res _ _ _ _ _ _ _ E4). reflexivity.
  - bd E. bd E. destruct o0 as [pt|], o1 as [pv|]; try discriminate.
    + bd E. bd E. bd E. injection E as <-. rewrite (dec_uvec_res _ _ _ _ _ _ _ E4). reflexivity.
    + injection E as <-. reflexivity.
  - apply Nat.ltb_lt in Hcl. eapply with_off_res; [|exact E]. intros p v Hd.
    apply (dec_nested_res m o ds (RTable t) align p v Hcl Hd).
  - rewrite (with_off_res id (dec_nested rB m o ds (RStruct size align) align)
               (dec_nested rA m o ds (RStruct size align) align) (fun v => v) ov); [destruct ov; reflexivity| |exact E].
    intros p v Hd. pose proof (dec_nested_res m o ds (RStruct size align) align p v I Hd) as Hn.
    rewrite Hn. destruct v; reflexivity.
Qed.

Lemma dec_field_res f ov : kind_closed A (fk f) = true ->
  dec_field rB B m o ds vt vsize tp tsize f = Some ov ->
  dec_field rA A m o ds vt vsize tp tsize f = Some (option_map (rv_kind A rv (fk f)) ov).
Proof.
  intros Hcl. unfold dec_field. intros E. bd E. rewrite (dec_kind_res _ _ _ Hcl E0). cbn [bind].
  destruct o0 as [w|]; cbn [option_map].
  - injection E as <-. reflexivity.
  - destruct (frequired f); [discriminate|]. injection E as <-. reflexivity.
Qed.

Lemma dec_fields_res fsB : forall fa,
  (forall f, In f fa -> kind_closed A (fk f) = true) ->
  (forall f, In f fa -> exists ov, dec_field rB B m o ds vt vsize tp tsize f = Some ov /\ assocZ (fid f) fsB = ov) ->
  dec_fields rA A m o ds vt vsize tp tsize fa = Some (rv_fields A rv fa fsB).
Proof.
  induction fa as [|f r IH]; intros Hcl Hall; [reflexivity|].
  cbn [dec_fields rv_fields].
  destruct (Hall f (or_introl eq_refl)) as (ov & Hov & Ha).
  rewrite (dec_field_res f ov (Hcl f (or_introl eq_refl)) Hov). cbn [bind].
  rewrite IH; [| intros g Hg; apply Hcl; right; exact Hg | intros g Hg; apply Hall; right; exact Hg].
  cbn [bind]. rewrite Ha. destruct ov; reflexivity.
Qed.
End Table.

Lemma dec_table_body_res m o ds t p v : fids_distinct B = true -> (t < length (tables A))%nat ->
  dec_table_body rB B m o ds t p = Some v -> dec_table_body rA A m o ds t p = Some (rv_table_body A rv t v).
Proof.
  intros Hd Ht. unfold dec_table_body, rv_table_body. intros E.
  destruct (table_fields A t) as [fa|] eqn:Hfa; [|unfold table_fields in Hfa; apply nth_error_None in Hfa; lia].
  cbn [bind].
  destruct (extends_table A B t fa HE Hfa) as (fb & Hfb & Hsub). rewrite Hfb in E. cbn [bind] in E.
  bd E. bd E. bd E. bd E. bd E. bd E. bd E. bd E. bd E. injection E as <-.
  rewrite (dec_fields_res m o ds (p - s32 z) z0 p z1 l fa).
  - reflexivity.
  - intros f Hf. eapply closed_field; eassumption.
  - intros f Hf. eapply dec_fields_assoc; [|exact E8|eapply fsub_in; eassumption].
    apply nodupb_NoDup. unfold fids_distinct in Hd. rewrite forallb_forall in Hd. apply Hd.
    unfold table_fields in Hfb. eapply nth_error_In; eassumption.
Qed.
End Level.

(* ------------------------------------------------------------------ all levels, whole buffers *)
Section Whole.
Variables A B : schema.
Hypothesis HE : extends A B = true.
Hypothesis HC : tables_closed A = true.
Hypothesis HD : fids_distinct B = true.

Lemma dec_table_res : forall n, rres A (dec_table n B) (dec_table n A) (rv_table A n).
Proof.
  induction n as [|n IH]; intros m o ds t p v Ht E; [discriminate E|].
  cbn [dec_table rv_table] in *. eapply dec_table_body_res; eassumption.
Qed.

Lemma decode_mem_res n R ws ds0 m len v : root_in A R ->
  decode_mem n B R ws ds0 m len = Some v -> decode_mem n A R ws ds0 m len = Some (rv_root A n R v).
Proof.
  intros HR. unfold decode_mem. intros E. destruct ws.
  - bd E. bd E.
    rewrite (dec_buffer_res A (dec_table n B) (dec_table n A) (rv_table A n) (dec_table_res n) _ _ _ R _ v HR E).
    destruct R; reflexivity.
  - rewrite (dec_buffer_res A (dec_table n B) (dec_table n A) (rv_table A n) (dec_table_res n) _ _ _ R _ v HR E).
    destruct R; reflexivity.
Qed.

(* Whatever decodes under the new schema decodes under the old schema to the restricted value. *)
Theorem decode_root_res n R ws l v : root_in A R ->
  decode_root n B R ws l = Some v -> decode_root n A R ws l = Some (rv_root A n R v).
Proof. intros HR. unfold decode_root. apply decode_mem_res. exact HR. Qed.

End Whole.

(* ------------------------------------------------------------------ what a decoded table can contain *)
(* a table decoded under schema Sc lists only ids of Sc's field list for that table: a reader generated from Sc sees
   every other slot of the vtable as not there *)
Lemma dec_table_keys n Sc m o ds t p v : dec_table n Sc m o ds t p = Some v ->
  exists fa fs, table_fields Sc t = Some fa /\ v = VTable fs /\ forall k x, assocZ k fs = Some x -> In k (map fid fa).
Proof.
  destruct n as [|n]; [discriminate|]. cbn [dec_table]. unfold dec_table_body. intros E.
  bd E. bd E. bd E. bd E. bd E. bd E. bd E. bd E. bd E. bd E. injection E as <-.
  exists l, l0. split; [reflexivity|]. split; [reflexivity|].
  eapply dec_fields_keys. eassumption.
Qed.

Lemma decode_root_table_keys n Sc t ws l v : decode_root n Sc (RTable t) ws l = Some v ->
  exists fa fs, table_fields Sc t = Some fa /\ v = VTable fs /\ forall k x, assocZ k fs = Some x -> In k (map fid fa).
Proof.
  unfold decode_root, decode_mem, dec_buffer. intros E. destruct ws.
  - bd E. bd E. bd E. bd E. eapply dec_table_keys. exact E.
  - bd E. bd E. eapply dec_table_keys. exact E.
Qed.
