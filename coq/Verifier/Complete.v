(* C02 (completeness direction), part 3: whole tables by induction on the specification's depth bound, buffer roots, and
   the theorem: every buffer the independent format specification Format/Spec.v accepts (relative to a start that is
   aligned to A only) is accepted by the verifier model, within the verifier's documented limits. *)
From Coq Require Import ZifyBool Znumtheory.
From Flatcc.Format Require Schema Spec.
From Flatcc.Verifier Require Import Schema VerifierModel VerifierProofsBase CompleteBase CompleteTable.
Local Open Scope Z_scope.
Ltac Zify.zify_post_hook ::= Z.div_mod_to_equations.

Section Body.
Variables (m : Sp.mem) (b : buf) (o e : Z).
Hypothesis Hm : mrel m b o e.
Hypothesis Hb : wf_buf b.
Variables (addr : Z) (ds : list Z).
Hypothesis Hds : ds_ok addr o ds.
Hypothesis He : e <= 2147483648.
Variables (rec : Sp.tdec) (Sc : FS.schema) (vtf : Z -> Z -> Z -> Z -> Z -> nat -> vres) (K T : Z).
Hypothesis Hrec : forall t pb off v ttl, 0 <= pb -> 0 < off ->
  rec m o ds t (pb + off) = Some v -> K <= ttl -> vtf o e pb off ttl t = VOk.
Hypothesis Hwf : schema_wf (to_vschema Sc) = true.
Hypothesis Hne : members_nonempty Sc = true.
Hypothesis Hfrag : schema_in_fragment Sc = true.
Hypothesis HT : 2 <= T.
Hypothesis HKT : K <= T - 1.
Hypothesis Hvn : schema_vecnest Sc = true -> K + 1 <= T - 1.

Lemma table_body_ok t pb off v : 0 <= pb -> 0 < off ->
  Sp.dec_table_body rec Sc m o ds t (pb + off) = Some v ->
  verify_table_with b (fun d => verify_fields b addr (to_vschema Sc) vtf d (table_fields (to_vschema Sc) t)) o e pb off T = VOk.
Proof.
  intros Hpb Hoff E. unfold Sp.dec_table_body in E. bd E. bd E. bd E. cbv zeta in E.
  set (vt := pb + off - s32 z) in *. bd E. bd E. bd E. bd E. bd E. bd E. bd E.
  rename z into so, z0 into vsize, z1 into tsize, l into flds.
  apply andb_true_iff in E3. destruct E3 as [Hvt0 Hvta]. apply Z.leb_le in Hvt0.
  destruct (Hds _ 4 ltac:(lia) d4 E1) as [Hta _].
  destruct (Hds _ 2 ltac:(lia) d2 Hvta) as [Hvt2 _].
  destruct (m32 m b o e Hm Hb _ _ E2) as (Hrso & _ & Htpe & Hso).
  destruct (m16 m b o e Hm Hb _ _ E4) as (Hrvs & _ & Hvte & Hvs).
  replace (o + vt + 2) with (o + (vt + 2)) in E5 by ring.
  destruct (m16 m b o e Hm Hb _ _ E5) as (Hrts & _ & _ & Hts).
  replace (o + vt + vsize - 1) with (o + (vt + vsize - 1)) in E7 by ring.
  destruct (m8 m b o e Hm Hb _ _ E7) as (_ & _ & Hvend & _).
  replace (o + (pb + off) + tsize - 1) with (o + (pb + off + tsize - 1)) in E8 by ring.
  destruct (m8 m b o e Hm Hb _ _ E8) as (_ & _ & Htend & _).
  assert (Hvbase : u32 (pb + off - so) = vt).
  { unfold vt, s32. rewrite (u32_id so) by exact Hso.
    assert (Hvt0' : 0 <= pb + off - s32 so) by exact Hvt0. unfold s32 in Hvt0'. rewrite (u32_id so) in Hvt0' by exact Hso.
    assert (Hvte' : pb + off - s32 so + 2 <= e) by exact Hvte. unfold s32 in Hvte'. rewrite (u32_id so) in Hvte' by exact Hso.
    destruct (so <? 2147483648); unfold u32; lia. }
  unfold verify_table_with. okif.
  rewrite (header_ok e He pb off) by lia.
  rewrite (u32_id (pb + off)) by (unfold in_u32; lia). rewrite Hrso, Hvbase.
  okif. okif. rewrite Hrvs.
  rewrite (u32_id (vt + vsize)) by (unfold in_u32; lia).
  okif. okif. rewrite Hrts.
  rewrite (u32_id (e - (pb + off))) by (unfold in_u32; lia). okif.
  rewrite (to_v_table_fields _ _ _ E0).
  change {| t_o := o; t_end := e; t_ttl := T - 1; t_vtable := vt; t_table := pb + off; t_tsize := tsize; t_vsize := vsize |}
    with (tdesc o e (T - 1) vt (pb + off) tsize vsize).
  eapply (fields_ok m b o e Hm Hb addr ds Hds He rec Sc vtf K Hrec Hwf Hne); try eassumption; try lia.
  intros f Hin. split; [|split].
  - apply (to_v_field_in Sc t flds f Hwf E0 Hin).
  - unfold schema_in_fragment in Hfrag. rewrite forallb_forall in Hfrag.
    unfold FS.table_fields in E0. apply nth_error_In in E0. specialize (Hfrag _ E0).
    rewrite forallb_forall in Hfrag. apply (Hfrag _ Hin).
  - intros Hk. apply Hvn. unfold schema_vecnest. apply existsb_exists. exists flds. split.
    + unfold FS.table_fields in E0. apply nth_error_In in E0. exact E0.
    + apply existsb_exists. exists f. split; [exact Hin | exact Hk].
Qed.
End Body.

(* nesting levels a buffer of specification depth n needs: the verifier spends one level per table and one more per
   vector of tables / union vector on the path (and refuses the last level: ttl must stay positive after the decrement) *)
Definition levels_needed (Sc : FS.schema) (n : nat) : Z :=
  if schema_vecnest Sc then 2 * Z.of_nat n else Z.of_nat n + 1.

Section Tables.
Variables (b : buf) (addr : Z) (Sc : FS.schema).
Hypothesis Hb : wf_buf b.
Hypothesis Hwf : schema_wf (to_vschema Sc) = true.
Hypothesis Hne : members_nonempty Sc = true.
Hypothesis Hfrag : schema_in_fragment Sc = true.

Lemma table_complete : forall n fuel, (n <= fuel)%nat ->
  forall m o e ds, mrel m b o e -> ds_ok addr o ds -> e <= 2147483648 ->
  forall t pb off v T, 0 <= pb -> 0 < off ->
  Sp.dec_table n Sc m o ds t (pb + off) = Some v -> levels_needed Sc n <= T ->
  verify_table b addr (to_vschema Sc) fuel o e pb off T t = VOk.
Proof.
  induction n as [|k IH]; intros fuel Hfuel m o e ds Hm Hds He t pb off v T Hpb Hoff E HT; [discriminate E|].
  destruct fuel as [|fuel']; [lia|]. cbn [Sp.dec_table] in E. cbn [verify_table].
  assert (Hrec : forall t' pb' off' v' ttl, 0 <= pb' -> 0 < off' ->
            Sp.dec_table k Sc m o ds t' (pb' + off') = Some v' -> levels_needed Sc k <= ttl ->
            verify_table b addr (to_vschema Sc) fuel' o e pb' off' ttl t' = VOk).
  { intros t' pb' off' v' ttl Hpb' Hoff' E' Httl.
    apply (IH fuel' ltac:(lia) m o e ds Hm Hds He t' pb' off' v' ttl Hpb' Hoff' E' Httl). }
  assert (H2 : 2 <= T) by (unfold levels_needed in HT; destruct (schema_vecnest Sc); lia).
  assert (HK : levels_needed Sc k <= T - 1) by (unfold levels_needed in *; destruct (schema_vecnest Sc); lia).
  assert (Hvn : schema_vecnest Sc = true -> levels_needed Sc k + 1 <= T - 1).
  { unfold levels_needed in *. intros Hv. rewrite Hv in *. lia. }
  exact (table_body_ok m b o e Hm Hb addr ds Hds He (Sp.dec_table k Sc) Sc
           (verify_table b addr (to_vschema Sc) fuel') (levels_needed Sc k) T Hrec Hwf Hne Hfrag H2 HK Hvn t pb off v Hpb Hoff E).
Qed.

Lemma dec_table_head n m o ds t p v : Sp.dec_table n Sc m o ds t p = Some v ->
  Sp.aligned ds p 4 = true /\ exists so, Sp.mrd32 m (o + p) = Some so.
Proof.
  destruct n as [|k]; [discriminate|]. cbn [Sp.dec_table]. unfold Sp.dec_table_body. intros E.
  bd E. bd E. bd E. split; [reflexivity | exists z; reflexivity].
Qed.
End Tables.

(* ------------------------------------------------------------------ whole buffers *)
Lemma mrel_of_list_all l : byte_list l = true -> mrel (Sp.mem_of_list l) (of_list l) 0 (Z.of_nat (length l)).
Proof.
  intros Hl. unfold mrel. cbn [blen of_list]. split; [lia|]. split; [lia|]. split; [lia|].
  intros a v H. unfold Sp.mem_of_list in H. destruct (a <? 0) eqn:E0; [discriminate|].
  assert (Hlt : (Z.to_nat a < length l)%nat) by (apply nth_error_Some; congruence).
  split; [lia|]. cbn [bget of_list]. rewrite E0.
  rewrite (bytes_nth _ _ _ H). apply u8_id.
  unfold byte_list in Hl. rewrite forallb_forall in Hl.
  apply nth_error_In in H. specialize (Hl _ H). unfold in_u8. lia.
Qed.

Lemma hdr_noid_ok addr len : u32 addr mod 4 = 0 -> 8 <= len <= 2147483648 -> verify_buffer_header_noid addr 0 len = VOk.
Proof.
  intros Ha Hl. unfold verify_buffer_header_noid. rewrite Z.add_0_r. okif. unfold U32_MAX. okif. okif. reflexivity.
Qed.

Definition to_variant (ws : bool) : variant := if ws then WithSize else Plain.

(* a struct root is not empty and its alignment is a power of two *)
Definition root_ok (R : FS.root) : Prop :=
  match R with FS.RTable _ => True | FS.RStruct size al => 0 < size < 4294967296 /\ pow2_le al 32768 = true end.

(* the verifier's header limit: room for the root offset and the identifier (after the size prefix if any).  A table
   root always has it; a struct root smaller than four bytes need not. *)
Definition header_room (R : FS.root) (ws : bool) (len : Z) : Prop :=
  match R with FS.RTable _ => True | FS.RStruct _ _ => (if ws then 12 else 8) <= len end.

(* the common part: decoding relative to the origins [0 :: ds0] *)
Lemma verify_complete_gen : forall n Sc R ws l ds0 addr fuel v,
  schema_wf (to_vschema Sc) = true -> schema_in_fragment Sc = true -> members_nonempty Sc = true -> root_ok R ->
  byte_list l = true ->
  Sp.decode_mem n Sc R ws ds0 (Sp.mem_of_list l) (Z.of_nat (length l)) = Some v ->
  levels_needed Sc n <= VERIFIER_MAX_LEVELS -> (n <= fuel)%nat ->
  header_room R ws (Z.of_nat (length l)) -> Z.of_nat (length l) <= 2147483648 ->
  ds_ok addr 0 (0 :: ds0) ->
  verify_root (of_list l) addr (to_vschema Sc) fuel (to_vroot R) (to_variant ws) = VOk.
Proof.
  intros n Sc R ws l ds0 addr fuel v Hwf Hfrag Hne HR Hl E Hlev Hfuel Hroom Hlen Hds.
  pose proof (of_list_wf l) as Hb.
  set (len := Z.of_nat (length l)) in *.
  unfold Sp.decode_mem in E.
  assert (H4 : forall x, Sp.aligned (0 :: ds0) x 4 = true -> u32 addr mod 4 = 0 /\ x mod 4 = 0).
  { intros x Hx. destruct (Hds x 4 ltac:(lia) d4 Hx) as [Hx4 Hax].
    rewrite (u32_mod 4 addr ltac:(lia) ltac:(exists 1073741824; lia)). lia. }
  destruct ws; cbn [to_variant].
  - (* size-prefixed *)
    bd E. bd E. apply Z.leb_le in E1. rename z into sz.
    pose proof (mrel_of_list_all l Hl) as Hm0. fold len in Hm0.
    destruct (m32 _ _ 0 len Hm0 Hb 0 sz E0) as (Hrsz & _ & _ & Hsz).
    assert (Hm : mrel (Sp.restrict (Sp.mem_of_list l) 0 (4 + sz)) (of_list l) 0 (4 + sz))
      by (apply mrel_of_list; [exact Hl | fold len; lia]).
    unfold Sp.dec_buffer in E. bd E. bd E.
    destruct (H4 _ E2) as [Ha4 _].
    destruct (m_follow _ _ 0 (4 + sz) Hm Hb 4 z E3) as (off & Hroff & Hoff & -> & _ & Hpe).
    destruct R as [t|size al]; cbn [to_vroot verify_root].
    + destruct (dec_table_head Sc _ _ _ _ _ _ _ E) as (Hta & so & Hso).
      destruct (H4 _ Hta) as [_ Hta4].
      destruct (m32 _ _ 0 (4 + sz) Hm Hb (4 + off) so Hso) as (_ & _ & Htpe & _).
      unfold verify_table_as_root. cbn [blen of_list]. fold len.
      okif. unfold U32_MAX. okif. okif.
      change (r32 (of_list l) 0 0) with (r32 (of_list l) 0 0). rewrite Hrsz. okif. rewrite Hroff.
      rewrite (Z.add_comm sz 4).
      apply (table_complete (of_list l) addr Sc Hb Hwf Hne Hfrag n fuel Hfuel _ 0 (4 + sz) (0 :: ds0) Hm Hds ltac:(lia)
               t 4 off v VERIFIER_MAX_LEVELS ltac:(lia) ltac:(lia) E Hlev).
    + destruct HR as [[Hsize _] Hal]. apply pow2_le_div in Hal. destruct Hal as (Hal & Hdv & _). cbn [header_room] in Hroom.
      unfold verify_struct_as_root. cbn [blen of_list]. fold len.
      okif. unfold U32_MAX. okif. okif. rewrite Hrsz. okif. rewrite Hroff.
      rewrite (Z.add_comm sz 4).
      apply (struct_ok _ (of_list l) 0 (4 + sz) Hm Hb addr (0 :: ds0) Hds ltac:(lia) 4 off size al v ltac:(lia) ltac:(lia) Hsize Hal Hdv E).
  - (* plain *)
    assert (Hm : mrel (Sp.restrict (Sp.mem_of_list l) 0 len) (of_list l) 0 len)
      by (apply mrel_of_list; [exact Hl | fold len; lia]).
    unfold Sp.dec_buffer in E. bd E. bd E.
    destruct (H4 _ E0) as [Ha4 _].
    destruct (m_follow _ _ 0 len Hm Hb 0 z E1) as (off & Hroff & Hoff & -> & _ & Hpe).
    destruct R as [t|size al]; cbn [to_vroot verify_root].
    + destruct (dec_table_head Sc _ _ _ _ _ _ _ E) as (Hta & so & Hso).
      destruct (H4 _ Hta) as [_ Hta4].
      destruct (m32 _ _ 0 len Hm Hb (0 + off) so Hso) as (_ & _ & Htpe & _).
      unfold verify_table_as_root. cbn [blen of_list]. fold len.
      rewrite (hdr_noid_ok addr len Ha4) by lia. rewrite Hroff.
      apply (table_complete (of_list l) addr Sc Hb Hwf Hne Hfrag n fuel Hfuel _ 0 len (0 :: ds0) Hm Hds Hlen
               t 0 off v VERIFIER_MAX_LEVELS ltac:(lia) ltac:(lia) E Hlev).
    + destruct HR as [[Hsize _] Hal]. apply pow2_le_div in Hal. destruct Hal as (Hal & Hdv & _). cbn [header_room] in Hroom.
      unfold verify_struct_as_root, verify_struct_as_root_at. cbn [blen of_list]. fold len.
      rewrite (hdr_noid_ok addr len Ha4) by lia. rewrite Hroff.
      apply (struct_ok _ (of_list l) 0 len Hm Hb addr (0 :: ds0) Hds Hlen 0 off size al v ltac:(lia) ltac:(lia) Hsize Hal Hdv E).
Qed.

(* relative to a start that is aligned to A only (what the builder reports) *)
Theorem verify_complete_partial : forall n Sc R ws l A addr fuel,
  schema_wf (to_vschema Sc) = true -> schema_in_fragment Sc = true -> members_nonempty Sc = true -> root_ok R ->
  byte_list l = true ->
  Sp.wf_aligned n Sc R ws A l = true ->
  levels_needed Sc n <= VERIFIER_MAX_LEVELS -> (n <= fuel)%nat ->
  header_room R ws (Z.of_nat (length l)) -> Z.of_nat (length l) <= 2147483648 ->
  0 < A -> addr mod A = 0 ->
  verify_root (of_list l) addr (to_vschema Sc) fuel (to_vroot R) (to_variant ws) = VOk.
Proof.
  intros n Sc R ws l A addr fuel Hwf Hfrag Hne HR Hl Hw Hlev Hfuel Hroom Hlen HA Haddr.
  unfold Sp.wf_aligned in Hw.
  destruct (Sp.decode_mem n Sc R ws [A] (Sp.mem_of_list l) (Z.of_nat (length l))) as [v|] eqn:E; [clear Hw | discriminate Hw].
  apply (verify_complete_gen n Sc R ws l [A] addr fuel v Hwf Hfrag Hne HR Hl E Hlev Hfuel Hroom Hlen (ds_ok_top addr A HA Haddr)).
Qed.

(* relative to a start that is as aligned as any element can need (32768 = the largest alignment a schema can ask for) *)
Theorem verify_complete_wf_partial : forall n Sc R ws l addr fuel,
  schema_wf (to_vschema Sc) = true -> schema_in_fragment Sc = true -> members_nonempty Sc = true -> root_ok R ->
  byte_list l = true ->
  Sp.wf n Sc R ws l = true ->
  levels_needed Sc n <= VERIFIER_MAX_LEVELS -> (n <= fuel)%nat ->
  header_room R ws (Z.of_nat (length l)) -> Z.of_nat (length l) <= 2147483648 ->
  addr mod 32768 = 0 ->
  verify_root (of_list l) addr (to_vschema Sc) fuel (to_vroot R) (to_variant ws) = VOk.
Proof.
  intros n Sc R ws l addr fuel Hwf Hfrag Hne HR Hl Hw Hlev Hfuel Hroom Hlen Haddr.
  unfold Sp.wf, Sp.decode_root in Hw.
  destruct (Sp.decode_mem n Sc R ws [] (Sp.mem_of_list l) (Z.of_nat (length l))) as [v|] eqn:E; [clear Hw | discriminate Hw].
  apply (verify_complete_gen n Sc R ws l [] addr fuel v Hwf Hfrag Hne HR Hl E Hlev Hfuel Hroom Hlen (ds_ok_abs addr Haddr)).
Qed.
