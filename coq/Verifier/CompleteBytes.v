(* C02 (completeness direction), part 6: whatever the builder model emits is a list of bytes when the data handed to it
   (string contents, vector / struct / inline field data, union type codes, embedded buffers) are bytes.  This holds for
   EVERY script, well typed or not; it discharges the [byte_list] hypothesis of build_verifies from the script. *)
From Coq Require Import ZifyBool.
From Flatcc.Format Require Schema Spec.
From Flatcc.Builder Require EmitModel VMem Script ScriptProofs Example.
From Flatcc.Verifier Require Import Schema VerifierModel VerifierProofsBase CompleteBase CompleteTable Complete CompleteBuild.
Local Open Scope Z_scope.
Ltac Zify.zify_post_hook ::= Z.div_mod_to_equations.

Definition targ_bytes (a : EM.targ) : bool :=
  match a with EM.TInline _ _ _ bytes => byte_list bytes | EM.TOffset _ _ => true end.
Definition cmd_bytes (c : EM.cmd) : bool :=
  match c with
  | EM.CString s => byte_list s
  | EM.CVector _ _ _ _ data => byte_list data
  | EM.CStruct _ data => byte_list data
  | EM.CUnionVec elems => byte_list (map fst elems)
  | EM.CTable adds => forallb targ_bytes adds
  | EM.CEmbedBuffer _ data _ _ => byte_list data
  | _ => true
  end.
Definition script_bytes (sc : list EM.cmd) : bool := forallb cmd_bytes sc.

Definition sb (st : EM.est) : Prop := byte_list (EM.front st) = true /\ byte_list (EM.back st) = true.

Lemma bl_app a b : byte_list (a ++ b) = byte_list a && byte_list b.
Proof. apply forallb_app. Qed.
Lemma bl_le16 x : byte_list (EM.le16 x) = true.
Proof. unfold EM.le16, byte_list. cbn [forallb]. lia. Qed.
Lemma bl_le32 x : byte_list (EM.le32 x) = true.
Proof. unfold EM.le32, byte_list. cbn [forallb]. lia. Qed.
Lemma bl_zeros n : byte_list (EM.zeros n) = true.
Proof. unfold EM.zeros. induction (Z.to_nat n) as [|k IH]; [reflexivity|]. cbn [repeat byte_list forallb]. exact IH. Qed.
Lemma bl_firstn l : forall n, byte_list l = true -> byte_list (firstn n l) = true.
Proof.
  induction l as [|x t IH]; intros [|n] H; try reflexivity.
  cbn [firstn byte_list forallb] in *. apply andb_true_iff in H. destruct H as [Hx Ht].
  rewrite Hx. apply (IH n Ht).
Qed.
Ltac bl := rewrite ?bl_app, ?bl_le32, ?bl_le16, ?bl_zeros; cbn [andb]; try reflexivity.

Lemma sma_front st a : EM.front (EM.set_min_align st a) = EM.front st.
Proof. unfold EM.set_min_align. destruct (_ <? _); reflexivity. Qed.
Lemma sma_back st a : EM.back (EM.set_min_align st a) = EM.back st.
Proof. unfold EM.set_min_align. destruct (_ <? _); reflexivity. Qed.
Lemma sma_sb st a : sb st -> sb (EM.set_min_align st a).
Proof. unfold sb. rewrite sma_front, sma_back. auto. Qed.

Lemma emit_front_sb st bytes r e st' :
  EM.emit_front st bytes = Some (r, e, st') -> byte_list bytes = true -> sb st -> sb st'.
Proof.
  unfold EM.emit_front. cbv zeta. destruct (_ || _); [discriminate|]. intros H Hb [Hf Hk].
  injection H as _ _ <-. split; cbn [EM.front EM.back EM.set_emit_front]; [rewrite bl_app, Hb, Hf; reflexivity | exact Hk].
Qed.
Lemma emit_back_sb st bytes r e st' :
  EM.emit_back st bytes = Some (r, e, st') -> byte_list bytes = true -> sb st -> sb st'.
Proof.
  unfold EM.emit_back. cbv zeta. destruct (_ || _); [discriminate|]. intros H Hb [Hf Hk].
  injection H as _ _ <-. split; cbn [EM.front EM.back EM.set_emit_back]; [exact Hf | rewrite bl_app, Hb, Hk; reflexivity].
Qed.

Lemma create_string_sb st s r e st' : EM.create_string st s = Some (r, e, st') -> byte_list s = true -> sb st -> sb st'.
Proof.
  unfold EM.create_string. cbv zeta. destruct (_ <? _); [discriminate|]. intros H Hs Hst.
  apply (emit_front_sb _ _ _ _ _ H); [|exact Hst]. bl. rewrite Hs. reflexivity.
Qed.
Lemma create_struct_sb st d al r e st' : EM.create_struct st d al = Some (r, e, st') -> byte_list d = true -> sb st -> sb st'.
Proof.
  unfold EM.create_struct. cbv zeta. intros H Hs Hst.
  apply (emit_front_sb _ _ _ _ _ H); [|apply sma_sb; exact Hst]. bl. rewrite Hs. reflexivity.
Qed.
Lemma create_vector_sb st d c es al mc r e st' :
  EM.create_vector st d c es al mc = Some (r, e, st') -> byte_list d = true -> sb st -> sb st'.
Proof.
  unfold EM.create_vector. cbv zeta. destruct (_ <? _); [discriminate|]. intros H Hs Hst.
  apply (emit_front_sb _ _ _ _ _ H); [|apply sma_sb; exact Hst]. bl. rewrite (bl_firstn _ _ Hs). reflexivity.
Qed.
Lemma bl_patch base : forall refs i, byte_list (EM.patch_offsets base i refs) = true.
Proof.
  induction refs as [|x t IH]; intros i; [reflexivity|]. cbn [EM.patch_offsets]. rewrite bl_app, IH.
  destruct (x =? 0); rewrite bl_le32; reflexivity.
Qed.
Lemma create_offset_vector_sb st refs r e st' : EM.create_offset_vector st refs = Some (r, e, st') -> sb st -> sb st'.
Proof.
  unfold EM.create_offset_vector. cbv zeta. destruct (_ <? _); [discriminate|]. intros H Hst.
  apply (emit_front_sb _ _ _ _ _ H); [|apply sma_sb; exact Hst]. bl. rewrite bl_patch. reflexivity.
Qed.
Lemma create_union_vector_sb st types refs tr vr es st' :
  EM.create_union_vector st types refs = Some (tr, vr, es, st') -> byte_list types = true -> sb st -> sb st'.
Proof.
  unfold EM.create_union_vector. intros H Ht Hst.
  destruct (EM.create_offset_vector st refs) as [[[vref e1] st1]|] eqn:E1; [|discriminate].
  destruct (EM.create_vector st1 types _ 1 1 _) as [[[tref e2] st2]|] eqn:E2; [|discriminate].
  injection H as _ _ _ <-.
  apply (create_vector_sb _ _ _ _ _ _ _ _ _ E2 Ht). apply (create_offset_vector_sb _ _ _ _ _ E1 Hst).
Qed.

Lemma create_vtable_sb st vt r e st' : EM.create_vtable st vt = Some (r, e, st') -> byte_list vt = true -> sb st -> sb st'.
Proof.
  unfold EM.create_vtable. intros H Hv Hst. destruct (_ && _).
  - apply (emit_back_sb _ _ _ _ _ H Hv Hst).
  - destruct (EM.emit_front st _) as [[[ref e1] st1]|] eqn:E1; [|discriminate]. injection H as _ _ <-.
    apply (emit_front_sb _ _ _ _ _ E1); [|exact Hst]. bl. rewrite Hv. reflexivity.
Qed.
Lemma create_cached_vtable_sb st vt r es st' :
  EM.create_cached_vtable st vt = Some (r, es, st') -> byte_list vt = true -> sb st -> sb st'.
Proof.
  unfold EM.create_cached_vtable. intros H Hv Hst. destruct (EM.vcache_find _ _ _).
  - injection H as _ _ <-. exact Hst.
  - destruct (EM.create_vtable st vt) as [[[r1 e1] st1]|] eqn:E1; [|discriminate]. injection H as _ _ <-.
    exact (create_vtable_sb _ _ _ _ _ E1 Hv Hst).
Qed.

Definition farg_bytes (a : EM.farg) : bool :=
  match a with EM.AInline _ _ _ bytes => byte_list bytes | EM.AOffset _ _ => true end.

Lemma bl_vs_entries placed : forall n id, byte_list (EM.vs_entries placed id n) = true.
Proof. induction n as [|k IH]; intros id; [reflexivity|]. cbn [EM.vs_entries]. rewrite bl_app, bl_le16, IH. reflexivity. Qed.
Lemma bl_vtable_bytes placed size : byte_list (EM.vtable_bytes placed size) = true.
Proof. unfold EM.vtable_bytes. cbv zeta. bl. apply bl_vs_entries. Qed.
Lemma bl_table_data : forall placed base cur, forallb (fun p => farg_bytes (fst p)) placed = true ->
  byte_list (EM.table_data placed base cur) = true.
Proof.
  induction placed as [|[a o] r IH]; intros base cur H; [reflexivity|].
  cbn [forallb fst] in H. apply andb_true_iff in H. destruct H as [Ha Hr].
  cbn [EM.table_data]. cbv zeta. rewrite !bl_app, bl_zeros, (IH _ _ Hr). cbn [andb]. rewrite andb_true_r.
  destruct a as [id size al bytes|id ref]; [|apply bl_le32].
  apply bl_firstn. rewrite bl_app, bl_zeros. cbn [farg_bytes] in Ha. rewrite Ha. reflexivity.
Qed.
Lemma place_bytes : forall adds off, forallb farg_bytes adds = true ->
  forallb (fun p => farg_bytes (fst p)) (fst (EM.place adds off)) = true.
Proof.
  induction adds as [|a r IH]; intros off H; [reflexivity|].
  cbn [forallb] in H. apply andb_true_iff in H. destruct H as [Ha Hr].
  cbn [EM.place]. destruct a as [id size al bytes|id ref].
  - specialize (IH (u32 (EM.alignup off al + size)) Hr). destruct (EM.place r _) as [pl fin]. cbn [fst forallb] in *. rewrite Ha, IH. reflexivity.
  - specialize (IH (u32 (EM.alignup off 4 + 4)) Hr). destruct (EM.place r _) as [pl fin]. cbn [fst forallb] in *. rewrite IH. reflexivity.
Qed.
Lemma create_table_sb st placed size al vt r e st' :
  EM.create_table st placed size al vt = Some (r, e, st') -> forallb (fun p => farg_bytes (fst p)) placed = true -> sb st -> sb st'.
Proof.
  unfold EM.create_table. cbv zeta. destruct (negb _); [discriminate|]. intros H Hp Hst.
  apply (emit_front_sb _ _ _ _ _ H); [|apply sma_sb; exact Hst]. bl. rewrite (bl_table_data _ _ _ Hp). reflexivity.
Qed.
Lemma build_table_sb st adds r es st' :
  EM.build_table st adds = Some (r, es, st') -> forallb farg_bytes adds = true -> sb st -> sb st'.
Proof.
  unfold EM.build_table. intros H Ha Hst. destruct (EM.has_dup _); [discriminate|].
  pose proof (place_bytes adds 0 Ha) as Hp. destruct (EM.place adds 0) as [placed size]. cbn [fst] in Hp.
  destruct (_ <? _) in H; [discriminate|].
  destruct (EM.create_cached_vtable st _) as [[[vt_ref es1] st1]|] eqn:E1; [|discriminate].
  destruct (EM.create_table st1 placed size _ vt_ref) as [[[ref e1] st2]|] eqn:E2; [|discriminate].
  injection H as _ _ <-.
  apply (create_table_sb _ _ _ _ _ _ _ _ E2 Hp). apply (create_cached_vtable_sb _ _ _ _ _ E1 (bl_vtable_bytes _ _) Hst).
Qed.

Lemma align_buffer_end_sb st al ba nested a es st' :
  EM.align_buffer_end st al ba nested = Some (a, es, st') -> sb st -> sb st'.
Proof.
  unfold EM.align_buffer_end. cbv zeta. intros H Hst. destruct nested; [injection H as _ _ <-; exact Hst|].
  destruct (_ =? 0) in H; [injection H as _ _ <-; exact Hst|].
  destruct (EM.emit_back st _) as [[[r1 e1] st1]|] eqn:E1; [|discriminate]. injection H as _ _ <-.
  apply (emit_back_sb _ _ _ _ _ E1 (bl_zeros _) Hst).
Qed.
Lemma create_buffer_sb st id ba root al fl r es st' :
  EM.create_buffer st id ba root al fl = Some (r, es, st') -> sb st -> sb st'.
Proof.
  unfold EM.create_buffer. cbv zeta. intros H Hst.
  destruct (EM.align_buffer_end st al ba _) as [[[a es1] st1]|] eqn:E1; [|discriminate].
  destruct (EM.emit_front _ _) as [[[ref e1] st3]|] eqn:E2; [|discriminate]. injection H as _ _ <-.
  apply (emit_front_sb _ _ _ _ _ E2); [|apply sma_sb; apply (align_buffer_end_sb _ _ _ _ _ _ _ E1 Hst)].
  bl. destruct (_ || _); destruct (id =? 0); bl.
Qed.
Lemma embed_buffer_sb st ba data al fl r es st' :
  EM.embed_buffer st ba data al fl = Some (r, es, st') -> byte_list data = true -> sb st -> sb st'.
Proof.
  unfold EM.embed_buffer. cbv zeta. intros H Hd Hst.
  destruct (EM.align_buffer_end st al ba _) as [[[a es1] st1]|] eqn:E1; [|discriminate].
  destruct (EM.emit_front _ _) as [[[ref e1] st3]|] eqn:E2; [|discriminate]. injection H as _ _ <-.
  apply (emit_front_sb _ _ _ _ _ E2); [|apply sma_sb; apply (align_buffer_end_sb _ _ _ _ _ _ _ E1 Hst)].
  bl. rewrite Hd. destruct (0 <? EM.level st); bl.
Qed.
Lemma end_buffer_sb st root r es st' : EM.end_buffer st root = Some (r, es, st') -> sb st -> sb st'.
Proof.
  unfold EM.end_buffer. cbv zeta. intros H Hst. destruct (EM.frames st) as [|fr rest]; [discriminate|].
  destruct (EM.create_buffer _ _ _ _ _ _) as [[[ref es1] st2]|] eqn:E1; [|discriminate]. injection H as _ _ <-.
  apply (create_buffer_sb _ _ _ _ _ _ _ _ _ E1). apply sma_sb. exact Hst.
Qed.

Lemma targs_get_bytes regs : forall adds fargs, EM.targs_get regs adds = Some fargs ->
  forallb targ_bytes adds = true -> forallb farg_bytes fargs = true.
Proof.
  induction adds as [|a r IH]; intros fargs H Hb; cbn [EM.targs_get] in H.
  - injection H as <-. reflexivity.
  - cbn [forallb] in Hb. apply andb_true_iff in Hb. destruct Hb as [Ha Hr]. destruct a as [id size al bytes|id rr].
    + destruct (EM.targs_get regs r) as [l|]; [|discriminate]. injection H as <-. cbn [forallb farg_bytes]. rewrite (IH l eq_refl Hr).
      cbn [targ_bytes] in Ha. rewrite Ha. reflexivity.
    + destruct (EM.reg regs rr); [|discriminate]. destruct (EM.targs_get regs r) as [l|]; [|discriminate]. injection H as <-.
      cbn [forallb farg_bytes]. apply (IH l eq_refl Hr).
Qed.
Lemma uelems_get_types regs : forall es types refs, EM.uelems_get regs es = Some (types, refs) -> types = map fst es.
Proof.
  induction es as [|[c [r|]] t IH]; intros types refs H; cbn [EM.uelems_get] in H.
  - injection H as <- _. reflexivity.
  - destruct (EM.reg regs r); [|discriminate]. destruct (EM.uelems_get regs t) as [[cs rs]|]; [|discriminate].
    injection H as <- _. cbn [map fst]. rewrite (IH cs rs eq_refl). reflexivity.
  - destruct (EM.uelems_get regs t) as [[cs rs]|]; [|discriminate].
    injection H as <- _. cbn [map fst]. rewrite (IH cs rs eq_refl). reflexivity.
Qed.

Lemma run_cmd_sb st regs c new es st' : EM.run_cmd st regs c = Some (new, es, st') -> cmd_bytes c = true -> sb st -> sb st'.
Proof.
  intros H Hc Hst. destruct c; cbn [EM.run_cmd cmd_bytes] in *.
  - unfold EM.one in H. destruct (EM.create_string st s) as [[[r e] st1]|] eqn:E; [|discriminate]. injection H as _ _ <-.
    apply (create_string_sb _ _ _ _ _ E Hc Hst).
  - unfold EM.one in H. destruct (EM.create_vector _ _ _ _ _ _) as [[[r e] st1]|] eqn:E; [|discriminate]. injection H as _ _ <-.
    apply (create_vector_sb _ _ _ _ _ _ _ _ _ E Hc Hst).
  - unfold EM.one in H. destruct (EM.create_struct _ _ _) as [[[r e] st1]|] eqn:E; [|discriminate]. injection H as _ _ <-.
    apply (create_struct_sb _ _ _ _ _ _ E Hc Hst).
  - destruct (EM.regs_get regs rs) as [refs|]; [|discriminate].
    unfold EM.one in H. destruct (EM.create_offset_vector _ _) as [[[r e] st1]|] eqn:E; [|discriminate]. injection H as _ _ <-.
    apply (create_offset_vector_sb _ _ _ _ _ E Hst).
  - destruct (EM.uelems_get regs elems) as [[types refs]|] eqn:Eu; [|discriminate].
    destruct (EM.create_union_vector st types refs) as [[[[tref vref] ems] st1]|] eqn:E; [|discriminate]. injection H as _ _ <-.
    apply (create_union_vector_sb _ _ _ _ _ _ _ E); [|exact Hst]. rewrite (uelems_get_types _ _ _ _ Eu). exact Hc.
  - destruct (EM.targs_get regs adds) as [a|] eqn:Et; [|discriminate].
    unfold EM.many in H. destruct (EM.build_table st a) as [[[r e] st1]|] eqn:E; [|discriminate]. injection H as _ _ <-.
    apply (build_table_sb _ _ _ _ _ E (targs_get_bytes _ _ _ Et Hc) Hst).
  - injection H as _ _ <-. exact Hst.
  - destruct (EM.reg regs root) as [rt|]; [|discriminate].
    unfold EM.many in H. destruct (EM.end_buffer st rt) as [[[r e] st1]|] eqn:E; [|discriminate]. injection H as _ _ <-.
    apply (end_buffer_sb _ _ _ _ _ E Hst).
  - destruct (EM.reg regs root) as [rt|]; [|discriminate].
    unfold EM.many in H. destruct (EM.create_buffer _ _ _ _ _ _) as [[[r e] st1]|] eqn:E; [|discriminate]. injection H as _ _ <-.
    apply (create_buffer_sb _ _ _ _ _ _ _ _ _ E Hst).
  - unfold EM.many in H. destruct (EM.embed_buffer _ _ _ _ _) as [[[r e] st1]|] eqn:E; [|discriminate]. injection H as _ _ <-.
    apply (embed_buffer_sb _ _ _ _ _ _ _ _ E Hc Hst).
  - injection H as _ _ <-. exact Hst.
Qed.

Lemma run_sb : forall sc st regs regs' es st', EM.run st regs sc = Some (regs', es, st') -> script_bytes sc = true -> sb st -> sb st'.
Proof.
  induction sc as [|c r IH]; intros st regs regs' es st' H Hs Hst; cbn [EM.run] in H.
  - injection H as _ _ <-. exact Hst.
  - cbn [script_bytes forallb] in Hs. apply andb_true_iff in Hs. destruct Hs as [Hc Hr].
    destruct (EM.run_cmd st regs c) as [[[new es1] st1]|] eqn:E1; [|discriminate].
    destruct (EM.run st1 (regs ++ new) r) as [[[regs2 es2] st2]|] eqn:E2; [|discriminate]. injection H as _ _ <-.
    apply (IH _ _ _ _ _ E2 Hr). apply (run_cmd_sb _ _ _ _ _ _ E1 Hc Hst).
Qed.

Theorem build_emits_bytes : forall sc regs es st,
  EM.run EM.init_state [] sc = Some (regs, es, st) -> script_bytes sc = true -> byte_list (EM.buffer_bytes st) = true.
Proof.
  intros sc regs es st H Hs. destruct (run_sb sc EM.init_state [] regs es st H Hs (conj eq_refl eq_refl)) as [Hf Hb].
  unfold EM.buffer_bytes. rewrite bl_app, Hf, Hb. reflexivity.
Qed.

(* build_verifies / build_reads_safely with the hypothesis on the script instead of on the output *)
Theorem build_verifies' : forall Sc sc R v ws n regs ems st addr fuel,
  BS.wt_script Sc sc R v ws n -> EM.run EM.init_state [] sc = Some (regs, ems, st) -> VMem.small st ->
  schema_wf (to_vschema Sc) = true -> schema_in_fragment Sc = true -> members_nonempty Sc = true -> root_ok R ->
  script_bytes sc = true ->
  levels_needed Sc n <= VERIFIER_MAX_LEVELS -> (n <= fuel)%nat ->
  header_room R ws (EM.lenZ (EM.buffer_bytes st)) ->
  addr mod EM.buffer_alignment st = 0 ->
  verify_root (of_list (EM.buffer_bytes st)) addr (to_vschema Sc) fuel (to_vroot R) (to_variant ws) = VOk.
Proof.
  intros. eapply build_verifies; try eassumption. eapply build_emits_bytes; eassumption.
Qed.

Theorem build_reads_safely' : forall Sc sc R v ws n regs ems st addr fuel ra,
  BS.wt_script Sc sc R v ws n -> EM.run EM.init_state [] sc = Some (regs, ems, st) -> VMem.small st ->
  schema_wf (to_vschema Sc) = true -> schema_in_fragment Sc = true -> members_nonempty Sc = true -> root_ok R ->
  script_bytes sc = true ->
  levels_needed Sc n <= VERIFIER_MAX_LEVELS -> (n <= fuel)%nat ->
  header_room R ws (EM.lenZ (EM.buffer_bytes st)) ->
  addr mod EM.buffer_alignment st = 0 ->
  ra_ok (to_vschema Sc) ra = true -> root_aligned ra addr (to_vroot R) ->
  walk_root (of_list (EM.buffer_bytes st)) addr (to_vschema Sc) fuel (to_vroot R) ws = WOk.
Proof.
  intros. eapply build_reads_safely; try eassumption. eapply build_emits_bytes; eassumption.
Qed.

(* ------------------------------------------------------------------ non-vacuity *)
Definition ex_bytes : list Z :=
  match EM.run EM.init_state [] Example.ex_script with Some (_, _, st) => EM.buffer_bytes st | None => [] end.

Example ex_build_verifies : exists regs ems st,
  BS.wt_script Example.ex_schema Example.ex_script (FS.RTable 1) Example.ex_value true 2 /\
  EM.run EM.init_state [] Example.ex_script = Some (regs, ems, st) /\ VMem.small st /\
  schema_wf (to_vschema Example.ex_schema) = true /\ schema_in_fragment Example.ex_schema = true /\
  members_nonempty Example.ex_schema = true /\ script_bytes Example.ex_script = true /\
  levels_needed Example.ex_schema 2 = 3 /\ EM.buffer_alignment st = 16 /\
  ra_ok (to_vschema Example.ex_schema) (fun _ => 16) = true /\
  verify_root (of_list (EM.buffer_bytes st)) 0 (to_vschema Example.ex_schema) 2 (RTable 1) WithSize = VOk /\
  walk_root (of_list (EM.buffer_bytes st)) 0 (to_vschema Example.ex_schema) 2 (RTable 1) true = WOk.
Proof.
  destruct (EM.run EM.init_state [] Example.ex_script) as [[[regs ems] st]|] eqn:E; [|vm_compute in E; discriminate].
  exists regs, ems, st.
  assert (Hsmall : VMem.small st) by (vm_compute in E; injection E as <- <- <-; vm_compute; reflexivity).
  assert (Hal : EM.buffer_alignment st = 16) by (vm_compute in E; injection E as <- <- <-; reflexivity).
  assert (Hby : script_bytes Example.ex_script = true) by reflexivity.
  assert (Hwf : schema_wf (to_vschema Example.ex_schema) = true) by (vm_compute; reflexivity).
  assert (Hfr : schema_in_fragment Example.ex_schema = true) by reflexivity.
  assert (Hne : members_nonempty Example.ex_schema = true) by reflexivity.
  assert (Hra : ra_ok (to_vschema Example.ex_schema) (fun _ => 16) = true) by (vm_compute; reflexivity).
  assert (Hlev : levels_needed Example.ex_schema 2 = 3) by reflexivity.
  assert (Haddr : 0 mod EM.buffer_alignment st = 0) by (rewrite Hal; reflexivity).
  repeat split; try assumption; try reflexivity.
  - exact Example.ex_wt.
  - apply (build_verifies' Example.ex_schema Example.ex_script (FS.RTable 1) Example.ex_value true 2 regs ems st 0 2%nat
             Example.ex_wt E Hsmall Hwf Hfr Hne I Hby); [rewrite Hlev; unfold VERIFIER_MAX_LEVELS; lia | lia | exact I | exact Haddr].
  - apply (build_reads_safely' Example.ex_schema Example.ex_script (FS.RTable 1) Example.ex_value true 2 regs ems st 0 2%nat (fun _ => 16)
             Example.ex_wt E Hsmall Hwf Hfr Hne I Hby); [rewrite Hlev; unfold VERIFIER_MAX_LEVELS; lia | lia | exact I | exact Haddr | exact Hra |].
    cbn. exists 0. reflexivity.
Qed.

(* the same acceptance, computed on the bytes (independent of the theorem) *)
Example ex_build_verifies_computed :
  EM.lenZ ex_bytes = 112 /\
  verify_root (of_list ex_bytes) 0 (to_vschema Example.ex_schema) (Z.to_nat VERIFIER_MAX_LEVELS) (RTable 1) WithSize = VOk.
Proof. vm_compute. split; reflexivity. Qed.
