(* C01 leaves (T5): verify_vector, as TRANSLATED from the current src/runtime/verifier.c by translators/cleaf_to_coq.py
   (Flatcc.Generated.Leaf_verifier), equal the hand-written model functions of VerifierModel.v for all arguments in the
   ranges of the C parameter types, under the reading conventions of LeafConv.v.  Proofs: unfold, then the generic
   tactic [leaf_auto] of LeafTac.v (no step names a particular check, so a semantics-preserving rewrite of a leaf
   re-proves; a changed comparison, a dropped check, a different width of an intermediate does not). *)
From Flatcc.Verifier Require Import VerifierModel LeafTac LeafConv.
From Flatcc.Generated Require Import Leaf_verifier.
From Coq Require Import ZifyBool.
Local Open Scope Z_scope.
Ltac Zify.zify_post_hook ::= Z.div_mod_to_equations.

Lemma c_verify_vector_eq b addr o e base offset esize align maxcount :
  in_u32 e -> in_u32 base -> in_u32 offset -> in_u32 esize -> in_u32 maxcount -> pow2_16 align -> wf_buf b ->
  vres_of (c_verify_vector (ptr_of b addr o) e base offset esize align maxcount) = verify_vector b o e base offset esize align maxcount.
Proof.
  intros He Hb Ho Hes Hm Ha Hwf.
  unfold c_verify_vector, verify_vector, c_check_header, check_header, ptr_of, r32, r8, s32, u64, u32, u16.
  cbn [p_rd32 p_rd8].
  leaf_auto.
Qed.

