(* C02 (completeness direction), part 2: one table.  Every field the format specification decodes passes the generated
   table verifier's call for that field; a decoded table body passes verify_table. *)
From Coq Require Import ZifyBool Znumtheory.
From Flatcc.Format Require Schema Spec.
From Flatcc.Verifier Require Import Schema VerifierModel VerifierProofsBase CompleteBase.
Local Open Scope Z_scope.
Ltac Zify.zify_post_hook ::= Z.div_mod_to_equations.

(* ------------------------------------------------------------------ the fragment and the schema side conditions *)
(* nested buffers are outside the proved fragment (see design.d/C02-complete.md) *)
Definition kind_in_fragment (k : FS.fkind) : bool :=
  match k with FS.FNestedTable _ _ | FS.FNestedStruct _ _ => false | _ => true end.
Definition schema_in_fragment (Sc : FS.schema) : bool :=
  forallb (forallb (fun f => kind_in_fragment (FS.fk f))) (FS.tables Sc).

(* kinds whose verification spends one extra nesting level on the vector *)
Definition kind_vecnest (k : FS.fkind) : bool :=
  match k with FS.FTableVec _ | FS.FUnionVec _ => true | _ => false end.
Definition schema_vecnest (Sc : FS.schema) : bool :=
  existsb (existsb (fun f => kind_vecnest (FS.fk f))) (FS.tables Sc).

(* struct union members are not empty (the specification reads zero bytes of an empty struct and so does not bound its
   position; the verifier demands the position inside the buffer) *)
Definition members_nonempty (Sc : FS.schema) : bool :=
  forallb (forallb (fun cm => match snd cm with FS.UStruct s _ => 0 <? s | _ => true end)) (FS.unions Sc).

Definition tdesc (o e T' vt tp tsize vsize : Z) : td :=
  {| t_o := o; t_end := e; t_ttl := T'; t_vtable := vt; t_table := tp; t_tsize := tsize; t_vsize := vsize |}.

Lemma assocZ_In {A} c (ms : list (Z * A)) a : FS.assocZ c ms = Some a -> In (c, a) ms.
Proof.
  induction ms as [|[k x] r IH]; cbn [FS.assocZ]; [discriminate|].
  destruct (c =? k) eqn:E.
  - apply Z.eqb_eq in E. intros [= <-]. left. congruence.
  - intros H. right. apply IH. exact H.
Qed.

Lemma member_struct_wf Sc u c size al :
  schema_wf (to_vschema Sc) = true -> members_nonempty Sc = true ->
  FS.union_member Sc u c = Some (FS.UStruct size al) -> 0 < size /\ 0 < al /\ (al | 32768).
Proof.
  intros Hw Hn H. unfold FS.union_member in H.
  destruct (nth_error (FS.unions Sc) u) as [ms|] eqn:E; [|discriminate].
  apply assocZ_In in H. apply nth_error_In in E. split.
  - unfold members_nonempty in Hn. rewrite forallb_forall in Hn. specialize (Hn _ E).
    rewrite forallb_forall in Hn. specialize (Hn _ H). cbn in Hn. lia.
  - unfold schema_wf in Hw. apply andb_true_iff in Hw. destruct Hw as [_ Hw].
    rewrite forallb_forall in Hw. specialize (Hw (to_vmembers ms)).
    assert (Hin : In (to_vmembers ms) (unions (to_vschema Sc))) by (cbn [to_vschema unions]; apply in_map; exact E).
    specialize (Hw Hin). rewrite forallb_forall in Hw.
    specialize (Hw (c, UStruct size al)).
    assert (Hin2 : In (c, UStruct size al) (to_vmembers ms)).
    { unfold to_vmembers. apply (in_map (fun cm => (fst cm, to_vmember (snd cm))) ms (c, FS.UStruct size al)). exact H. }
    specialize (Hw Hin2). cbn [fst snd umember_wf] in Hw.
    apply andb_true_iff in Hw. destruct Hw as [_ Hw]. apply andb_true_iff in Hw. destruct Hw as [_ Hw].
    apply pow2_le_div in Hw. tauto.
Qed.

Section Tab.
Variables (m : Sp.mem) (b : buf) (o e : Z).
Hypothesis Hm : mrel m b o e.
Hypothesis Hb : wf_buf b.
Variables (addr : Z) (ds : list Z).
Hypothesis Hds : ds_ok addr o ds.
Hypothesis He : e <= 2147483648.

(* the recursion: specification side [rec], verifier side [vtf]; [K] is the nesting budget the callee needs *)
Variables (rec : Sp.tdec) (Sc : FS.schema) (vtf : Z -> Z -> Z -> Z -> Z -> nat -> vres) (K : Z).
Hypothesis Hrec : forall t pb off v ttl, 0 <= pb -> 0 < off ->
  rec m o ds t (pb + off) = Some v -> K <= ttl -> vtf o e pb off ttl t = VOk.
Hypothesis Hwf : schema_wf (to_vschema Sc) = true.
Hypothesis Hne : members_nonempty Sc = true.

Lemma member_ok u c pb off v ttl : 0 <= pb -> 0 < off -> K <= ttl ->
  Sp.dec_member rec Sc m o ds u c (pb + off) = Some v ->
  union_verifier b (to_vschema Sc) vtf u o e c pb off ttl = VOk.
Proof.
  intros Hpb Hoff HK E. unfold Sp.dec_member in E. unfold union_verifier. rewrite to_v_member.
  destruct (FS.union_member Sc u c) as [[t|size al|]|] eqn:Em; cbn [option_map to_vmember].
  - apply (Hrec t pb off v ttl Hpb Hoff E HK).
  - destruct (member_struct_wf _ _ _ _ _ Hwf Hne Em) as (Hs & Ha & Hdv).
    apply (struct_ok m b o e Hm Hb addr ds Hds He pb off size al v Hpb Hoff Hs Ha Hdv E).
  - apply (string_ok m b o e Hm Hb addr ds Hds He pb off v Hpb Hoff E).
  - reflexivity.
Qed.

Lemma table_vector_ok t pb off v ttl : 0 <= pb -> 0 < off -> 0 < ttl -> K <= ttl - 1 ->
  Sp.dec_offvec (rec m o ds t) m o ds (pb + off) = Some v ->
  verify_table_vector b (fun bi off ttl => vtf o e bi off ttl t) o e pb off ttl = VOk.
Proof.
  intros Hpb Hoff Httl HK E. unfold verify_table_vector. okif.
  apply (offvec_ok m b o e Hm Hb addr ds Hds He (rec m o ds t) _ pb off v Hpb Hoff); [|exact E].
  intros p t' v' Hp Hf Hd. destruct (m_follow m b o e Hm Hb _ _ Hf) as (off' & Hr & Hoff' & -> & _). rewrite Hr.
  apply (Hrec t p off' v' (ttl - 1) Hp ltac:(lia) Hd HK).
Qed.

(* union vectors: the element loop *)
Lemma uelems_range u : forall n tpos vpos l, Sp.dec_uelems rec Sc m o ds u tpos vpos n = Some l -> (0 < n)%nat ->
  0 <= tpos /\ tpos + Z.of_nat n <= e /\ 0 <= vpos /\ vpos + 4 * Z.of_nat n <= e.
Proof.
  induction n as [|k IH]; intros tpos vpos l E Hn; [lia|].
  cbn [Sp.dec_uelems] in E. bd E. bd E. bd E. bd E.
  destruct (m8 m b o e Hm Hb _ _ E0) as (_ & Ht0 & Hte & _).
  destruct (m32 m b o e Hm Hb _ _ E1) as (_ & Hv0 & Hve & _).
  destruct k as [|k']; [lia|]. specialize (IH _ _ _ E3 ltac:(lia)). lia.
Qed.

Lemma uloop_ok u ttl : K <= ttl ->
  forall n tpos vpos l, 0 <= vpos -> Sp.dec_uelems rec Sc m o ds u tpos vpos n = Some l ->
  uloop b n o vpos tpos ttl (union_verifier b (to_vschema Sc) vtf u o e) = VOk.
Proof.
  intros HK. induction n as [|k IH]; intros tpos vpos l Hvp E; [reflexivity|].
  cbn [Sp.dec_uelems] in E. bd E. bd E. bd E. bd E.
  destruct (m8 m b o e Hm Hb _ _ E0) as (Hr8 & Ht0 & Hte & _).
  destruct (m32 m b o e Hm Hb _ _ E1) as (Hr32 & Hv0 & Hve & Hz0).
  cbn [uloop]. rewrite Hr32, Hr8.
  rewrite (u32_id (vpos + 4)) by (unfold in_u32; lia).
  rewrite (IH _ (vpos + 4) l0 ltac:(lia) E3).
  destruct (z =? 0) eqn:Ez.
  - destruct (z0 =? 0) eqn:Ez0; [reflexivity | discriminate E2].
  - destruct (z0 =? 0) eqn:Ez0; [discriminate E2|]. cbn [negb]. bd E2.
    rewrite (member_ok u z vpos z0 v ttl Hvp ltac:(lia) HK E4). reflexivity.
Qed.

Lemma uvec_ok u pt toff pv voff v ttl :
  0 <= pt -> 0 < toff -> 0 <= pv -> 0 < voff -> 0 < ttl -> K <= ttl - 1 ->
  Sp.dec_uvec rec Sc m o ds u (pt + toff) (pv + voff) = Some v ->
  exists nt, r32 b o (pt + toff) = Some nt /\
  verify_vector b o e pt toff 1 1 (COUNT_MAX 1) = VOk /\
  verify_union_vector b o e pv voff nt (pt + toff + 4) ttl (union_verifier b (to_vschema Sc) vtf u o e) = VOk.
Proof.
  intros Hpt Htoff Hpv Hvoff Httl HK E. unfold Sp.dec_uvec in E. bd E. bd E. bd E. bd E. bd E.
  apply andb_true_iff in E0. destruct E0 as [Hat Hav].
  apply andb_true_iff in E3. destruct E3 as [Heq Hmax]. apply Z.eqb_eq in Heq. apply Z.leb_le in Hmax. subst z.
  destruct (Hds _ 4 ltac:(lia) d4 Hat) as [Hat4 _].
  destruct (m32 m b o e Hm Hb _ _ E1) as (Hrt & _ & Hte & Hz).
  destruct (m32 m b o e Hm Hb _ _ E2) as (Hrv & _ & Hve & _).
  assert (Hrange : 0 < z0 -> pt + toff + 4 + z0 <= e /\ pv + voff + 4 + 4 * z0 <= e).
  { intros Hz0. pose proof (uelems_range _ _ _ _ _ E4 ltac:(lia)) as H. rewrite Z2Nat.id in H by lia. lia. }
  exists z0. split; [exact Hrt|]. split.
  - unfold verify_vector. rewrite (header_ok e He pt toff) by lia.
    rewrite (u32_id (pt + toff)) by (unfold in_u32; lia). rewrite Hrt.
    rewrite (u32_id (pt + toff + 4)) by (unfold in_u32; lia).
    rewrite (u32_id (e - (pt + toff + 4))) by (unfold in_u32; lia).
    rewrite Z.mul_1_r. rewrite (u32_id z0) by (unfold in_u32; lia).
    change (COUNT_MAX 1) with 4294967295.
    destruct ((ENFORCE_ALIGNED_EMPTY_VECTORS =? 0) && (z0 =? 0)); okif; okif; okif; reflexivity.
  - unfold verify_union_vector. okif.
    rewrite (offvec_header_ok m b o e Hm Hb addr ds Hds He pv voff z0 Hpv Hvoff Hav E2 Hmax) by (intros; lia).
    rewrite (u32_id (pv + voff)) by (unfold in_u32; lia). rewrite Hrv.
    rewrite Z.eqb_refl.
    rewrite (u32_id (pv + voff + 4)) by (unfold in_u32; lia).
    eapply (uloop_ok u (ttl - 1) HK _ _ (pv + voff + 4)); [lia | exact E4].
Qed.

(* ------------------------------------------------------------------ one table *)
Variables (vt vsize tp tsize T' : Z).
Notation d := (tdesc o e T' vt tp tsize vsize).
Hypothesis Hvt : 0 <= vt.
Hypothesis Hvs : 4 <= vsize < 65536.
Hypothesis Hvs2 : vsize mod 2 = 0.
Hypothesis Hvte : vt + vsize <= e.
Hypothesis Htp : 0 <= tp.
Hypothesis Hts : 0 <= tsize < 65536.
Hypothesis Htpe : tp + tsize <= e.
Hypothesis HT' : 0 < T'.
Hypothesis HKT : K <= T'.

Lemma vte_ok id x : 0 <= id < 32764 ->
  Sp.vt_entry m o vt vsize id = Some x -> read_vt_entry b d id = Some x /\ 0 <= x < 65536.
Proof.
  intros Hid E. unfold Sp.vt_entry in E. unfold read_vt_entry. cbn [t_vsize t_o t_vtable tdesc].
  assert (Hvo : u16 ((id + 2) * 2) = 2 * id + 4) by (unfold u16; lia). rewrite Hvo.
  destruct ((0 <=? id) && (4 + 2 * id + 2 <=? vsize)) eqn:C.
  - replace (o + vt + 4 + 2 * id) with (o + (vt + (2 * id + 4))) in E by ring.
    destruct (m16 m b o e Hm Hb _ _ E) as (Hr & _ & _ & Hx).
    replace (vsize <=? 2 * id + 4) with false by lia. split; [exact Hr | exact Hx].
  - some_inj E. subst x. replace (vsize <=? 2 * id + 4) with true by lia. split; [reflexivity | lia].
Qed.

Lemma fpos id fs fa r : 0 <= id < 32764 ->
  Sp.field_pos m o ds vt vsize tp tsize id fs fa = Some r ->
  exists x, read_vt_entry b d id = Some x /\ 0 <= x < 65536 /\
    match r with
    | None => x = 0
    | Some p => x <> 0 /\ p = tp + x /\ 4 <= x /\ x + fs <= tsize /\ Sp.aligned ds (tp + x) fa = true
    end.
Proof.
  intros Hid E. unfold Sp.field_pos in E. bd E.
  destruct (vte_ok id z Hid E0) as [Hr Hz]. exists z. split; [exact Hr|]. split; [exact Hz|].
  destruct (z =? 0) eqn:Ez.
  - injection E as <-. lia.
  - bd E. injection E as <-.
    apply andb_true_iff in E1. destruct E1 as [E1 Hal]. repeat split; try lia. exact Hal.
Qed.

Lemma scalar_ok id size al r : 0 <= id < 32764 -> 0 <= size < 65536 -> 0 < al -> (al | 32768) ->
  Sp.field_pos m o ds vt vsize tp tsize id size al = Some r ->
  verify_field b addr d id false size al = VOk.
Proof.
  intros Hid Hsz Hal Hdv E. destruct (fpos _ _ _ _ Hid E) as (x & Hr & Hx & Hcase).
  assert (Hdiv : (al | 4294967296)) by (apply (Z.divide_trans _ 32768); [exact Hdv | exists 131072; reflexivity]).
  unfold verify_field. rewrite Hr. destruct r as [p|].
  - destruct Hcase as (Hx0 & -> & Hx4 & Hxs & Ha).
    replace (x =? 0) with false by lia.
    rewrite (u32_id (x + size)) by (unfold in_u32; lia). cbn [t_tsize t_table t_o tdesc]. okif.
    destruct (Hds _ al Hal Hdv Ha) as [_ Habs].
    rewrite (u32_mod al _ Hal Hdiv), (mod_u32_inner al _ _ Hal Hdiv).
    replace (x + tp + (addr + o)) with (addr + o + (tp + x)) by ring. rewrite Habs. reflexivity.
  - subst x. reflexivity.
Qed.

Lemma with_field_ok id req r k : 0 <= id < 32764 ->
  Sp.field_pos m o ds vt vsize tp tsize id 4 4 = Some r ->
  (req = true -> r <> None) ->
  (forall p, r = Some p -> 4 <= p -> p + 4 <= e -> k p = VOk) ->
  with_field b d id req k = VOk.
Proof.
  intros Hid E Hreq Hk. destruct (fpos _ _ _ _ Hid E) as (x & Hr & Hx & Hcase).
  unfold with_field, get_offset_field. rewrite Hr. destruct r as [p|].
  - destruct Hcase as (Hx0 & -> & Hx4 & Hxs & Ha).
    replace (x =? 0) with false by lia.
    rewrite (u32_id (x + 4)) by (unfold in_u32; lia). cbn [t_tsize t_table t_o tdesc].
    destruct (Hds _ 4 ltac:(lia) d4 Ha) as [Ha4 _].
    rewrite (u32_id (x + tp)) by (unfold in_u32; lia).
    replace (x + 4 <=? tsize) with true by lia. cbn [negb].
    replace ((x + tp) mod 4 =? 0) with true by lia. cbn [negb].
    replace (x + tp =? 0) with false by lia.
    replace (x + tp) with (tp + x) by ring. apply Hk; [reflexivity | lia | lia].
  - subst x. cbn [Z.eqb]. destruct req; [exfalso; apply Hreq; reflexivity|]. reflexivity.
Qed.

Lemma with_off_ok id req kk r (Kf : Z -> Z -> vres) : 0 <= id < 32764 ->
  Sp.with_off m o ds vt vsize tp tsize id kk = Some r ->
  (req = true -> r <> None) ->
  (forall pb off v, 0 <= pb -> 0 < off -> kk (pb + off) = Some v -> Kf pb off = VOk) ->
  with_field b d id req (fun base => match r32 b o base with None => VOob | Some off => Kf base off end) = VOk.
Proof.
  intros Hid E Hreq HK. unfold Sp.with_off in E. bd E.
  apply (with_field_ok id req o0 _ Hid E0).
  - intros Hq ->. apply (Hreq Hq). congruence.
  - intros p -> Hp4 Hpe. bd E. bd E.
    destruct (m_follow m b o e Hm Hb _ _ E1) as (off & Hr & Hoff & -> & _). rewrite Hr.
    apply (HK p off v ltac:(lia) ltac:(lia) E2).
Qed.

Lemma kind_ok f r :
  field_wf (to_vfield f) = true -> kind_in_fragment (FS.fk f) = true ->
  Sp.dec_kind rec Sc m o ds vt vsize tp tsize (FS.fid f) (FS.fk f) = Some r ->
  (FS.frequired f = true -> r <> None) ->
  (kind_vecnest (FS.fk f) = true -> K + 1 <= T') ->
  verify_one b addr (to_vschema Sc) vtf d (to_vfield f) = VOk.
Proof.
  intros Hfw Hfrag E Hreq Hvn. unfold field_wf in Hfw. cbn [fid fk to_vfield] in Hfw.
  apply andb_true_iff in Hfw. destruct Hfw as [Hfw Hu]. apply andb_true_iff in Hfw. destruct Hfw as [Hfw Hkw].
  assert (Hid : 0 <= FS.fid f < 32764) by lia. clear Hfw.
  unfold verify_one. cbn [fk fid freq to_vfield].
  destruct (FS.fk f) as [size al|  |es al mc|  |t|t|u|u|al t|size al] eqn:Ek;
    cbn [to_vkind] in *; cbn [Sp.dec_kind] in E; try discriminate Hfrag.
  - (* scalar *)
    cbn [fkind_wf] in Hkw.
    apply andb_true_iff in Hkw. destruct Hkw as [Hkw _]. apply andb_true_iff in Hkw. destruct Hkw as [Hkw Hp2].
    apply pow2_le_div in Hp2. destruct Hp2 as (Hal & Hdiv & _).
    bd E. apply (scalar_ok (FS.fid f) size al o0 Hid); [lia | exact Hal | exact Hdiv | exact E0].
  - (* string *)
    unfold verify_string_field. cbn [t_o t_end tdesc].
    apply (with_off_ok _ _ _ r (verify_string b o e) Hid E Hreq).
    intros pb off v. apply (string_ok m b o e Hm Hb addr ds Hds He).
  - (* vector *)
    cbn [fkind_wf] in Hkw.
    apply andb_true_iff in Hkw. destruct Hkw as [Hkw _]. apply andb_true_iff in Hkw. destruct Hkw as [Hkw _].
    apply andb_true_iff in Hkw. destruct Hkw as [Hkw _]. apply andb_true_iff in Hkw. destruct Hkw as [Hkw Hp2].
    assert (Hes : 0 < es) by lia.
    apply pow2_le_div in Hp2. destruct Hp2 as (Hal & Hdiv & _).
    unfold verify_vector_field. cbn [t_o t_end tdesc].
    apply (with_off_ok _ _ _ r (fun base off => verify_vector b o e base off es al mc) Hid E Hreq).
    intros pb off v Hpb Hoff. apply (vector_ok m b o e Hm Hb addr ds Hds He pb off es al mc v Hpb Hoff Hes Hal Hdiv).
  - (* string vector *)
    unfold verify_string_vector_field. cbn [t_o t_end tdesc].
    apply (with_off_ok _ _ _ r (verify_string_vector b o e) Hid E Hreq).
    intros pb off v. apply (string_vector_ok m b o e Hm Hb addr ds Hds He).
  - (* table *)
    unfold verify_table_field. cbn [t_o t_end t_ttl tdesc].
    apply (with_off_ok _ _ _ r (fun base off => vtf o e base off T' t) Hid E Hreq).
    intros pb off v Hpb Hoff Hd. apply (Hrec t pb off v T' Hpb Hoff Hd HKT).
  - (* table vector *)
    unfold verify_table_vector_field. cbn [t_o t_end t_ttl tdesc].
    apply (with_off_ok _ _ _ r (fun base off => verify_table_vector b (fun bi off ttl => vtf o e bi off ttl t) o e base off T') Hid E Hreq).
    intros pb off v Hpb Hoff Hd. specialize (Hvn eq_refl).
    apply (table_vector_ok t pb off v T' Hpb Hoff HT' ltac:(lia) Hd).
  - (* union *)
    assert (Hid1 : 0 <= FS.fid f - 1 < 32764) by lia.
    bd E. bd E. bd E.
    destruct (fpos _ _ _ _ Hid1 E0) as (xt & Hrt & Hxt & Hct).
    destruct (fpos _ _ _ _ Hid E2) as (xv & Hrv & Hxv & Hcv).
    unfold verify_union_field. rewrite Hrt.
    destruct o0 as [p|].
    + destruct Hct as (Hxt0 & -> & Hxt4 & Hxts & _).
      replace (xt =? 0) with false by lia.
      rewrite (scalar_ok _ 1 1 _ Hid1 ltac:(lia) ltac:(lia) d1 E0).
      rewrite Hrv. cbn [t_o t_table tdesc].
      destruct (m8 m b o e Hm Hb _ _ E1) as (Hr8 & _ & _ & Hz). rewrite Hr8.
      destruct (z =? 0) eqn:Ez.
      * destruct o1; [discriminate E|]. subst xv. reflexivity.
      * cbn [negb orb]. cbn [t_end t_ttl tdesc].
        apply (with_field_ok _ _ o1 _ Hid E2).
        { intros _ ->. discriminate E. }
        intros pv -> Hp4 Hpe. bd E. bd E.
        destruct (m_follow m b o e Hm Hb _ _ E3) as (off & Hr & Hoff & -> & _). rewrite Hr.
        apply (member_ok u z pv off v T' ltac:(lia) ltac:(lia) HKT E4).
    + subst xt. cbn [Z.eqb]. some_inj E1. subst z. cbn [Z.eqb] in E. rewrite Hrv.
      destruct o1; [discriminate E|]. subst xv. cbn [Z.eqb].
      injection E as <-. destruct (FS.frequired f); [exfalso; apply Hreq; reflexivity|]. reflexivity.
  - (* union vector *)
    assert (Hid1 : 0 <= FS.fid f - 1 < 32764) by lia.
    bd E. bd E.
    destruct (fpos _ _ _ _ Hid1 E0) as (xt & Hrt & Hxt & Hct).
    destruct (fpos _ _ _ _ Hid E1) as (xv & Hrv & Hxv & Hcv).
    unfold verify_union_vector_field, verify_union_vector_field_gen. rewrite Hrt, Hrv.
    destruct o0 as [pt|], o1 as [pv|]; try discriminate E.
    + destruct Hct as (Hxt0 & -> & Hxt4 & Hxts & _). destruct Hcv as (Hxv0 & -> & Hxv4 & Hxvs & _).
      replace (xt =? 0) with false by lia. replace (xv =? 0) with false by lia. cbn [andb negb].
      bd E. bd E. bd E.
      destruct (m_follow m b o e Hm Hb _ _ E2) as (toff & Hrtt & Htoff & -> & _ & Hpte).
      destruct (m_follow m b o e Hm Hb _ _ E3) as (voff & Hrvv & Hvoff & -> & _ & Hpve).
      specialize (Hvn eq_refl).
      destruct (uvec_ok u (tp + xt) toff (tp + xv) voff v T' ltac:(lia) ltac:(lia) ltac:(lia) ltac:(lia) HT' ltac:(lia) E4)
        as (nt & Hrn & Hv1 & Hv2).
      unfold verify_vector_field. cbn [t_o t_end t_table t_ttl tdesc].
      rewrite (with_field_ok (FS.fid f - 1) (FS.frequired f) (Some (tp + xt)) _ Hid1 E0).
      2:{ intros _. discriminate. }
      2:{ intros p [= <-] _ _. rewrite Hrtt. exact Hv1. }
      rewrite Hrtt, Hrn.
      apply (with_field_ok (FS.fid f) true (Some (tp + xv)) _ Hid E1).
      { intros _. discriminate. }
      intros p [= <-] _ _. rewrite Hrvv. exact Hv2.
    + subst xt xv. cbn [Z.eqb andb negb]. injection E as <-.
      destruct (FS.frequired f) eqn:Erq; [exfalso; apply Hreq; reflexivity|]. cbn [negb].
      unfold verify_vector_field.
      rewrite (with_field_ok (FS.fid f - 1) false None _ Hid1 E0); [reflexivity | discriminate | discriminate].
Qed.

Lemma fields_ok : forall flds fs,
  Sp.dec_fields rec Sc m o ds vt vsize tp tsize flds = Some fs ->
  (forall f, In f flds -> field_wf (to_vfield f) = true /\ kind_in_fragment (FS.fk f) = true /\
                          (kind_vecnest (FS.fk f) = true -> K + 1 <= T')) ->
  verify_fields b addr (to_vschema Sc) vtf d (map to_vfield flds) = VOk.
Proof.
  induction flds as [|f r IH]; intros fs E Hall; [reflexivity|].
  cbn [Sp.dec_fields] in E. bd E. bd E.
  cbn [map verify_fields].
  destruct (Hall f (or_introl eq_refl)) as (Hfw & Hfr & Hvn).
  unfold Sp.dec_field in E0. bd E0.
  rewrite (kind_ok f o1 Hfw Hfr E2).
  - apply (IH l eq_refl). intros g Hg. apply Hall. right. exact Hg.
  - intros Hq ->. rewrite Hq in E0. discriminate E0.
  - exact Hvn.
Qed.

End Tab.
