(* C01: transcription of src/runtime/verifier.c plus an interpreter over a schema descriptor that plays the
   role of the generated *_verify_table / *_union_verifier functions. No proofs in this file.

   Conventions: every uoffset_t computation is an explicit [u32]; expressions the C evaluates in size_t
   (anything involving sizeof) are unbounded. [o] is the offset of the (possibly nested) buffer start inside
   the byte string [b]; [addr] the address of byte 0 of [b]; all positions handed around are relative to [o],
   as in the C where a nested buffer is verified through an advanced pointer. A read outside [b] gives VOob:
   the verifier itself would touch memory it was not given. *)
From Flatcc.Verifier Require Export Schema.
From Flatcc.Generated Require Export Consts.
Local Open Scope Z_scope.

Inductive vres := VOk | VErr (code : Z) | VOob | VFuel.

(* sequencing is a notation, not a function: after extraction to strict OCaml the continuation must not be
   evaluated when the first check fails (it may convert a hostile 32-bit count to a unary nat) *)
Notation "'vbind' r k" := (match r with VOk => k | VErr c_ => VErr c_ | VOob => VOob | VFuel => VFuel end)
  (at level 10, r at level 9, k at level 9).
Notation "'check' c 'else' e ; k" := (if c then k else VErr e) (at level 200, c at level 99, e at level 99, right associativity).

Definition COUNT_MAX (esize : Z) : Z := U32_MAX / esize.

Section WithBuffer.
Variable b : buf.
Variable addr : Z.

Definition r8  (o k : Z) : option Z := rd8 b (o + k).
Definition r16 (o k : Z) : option Z := rd16 b (o + k).
Definition r32 (o k : Z) : option Z := rd32 b (o + k).

(* static inline int check_header(uoffset_t end, uoffset_t base, uoffset_t offset) *)
Definition check_header (e base offset : Z) : bool :=
  let k := u32 (base + offset) in
  (base <? k) && (k + 4 <=? e) && (k mod 4 =? 0).

(* static inline int verify_struct(end, base, offset, size, align) *)
Definition verify_struct (e base offset size align : Z) : vres :=
  if (offset =? 0) || (u32 (base + offset) <? base) || (e <? u32 (base + offset)) then VErr E_offset_out_of_range else
  let base' := u32 (base + offset) in
  check (base' <=? u32 (base' + size)) else E_struct_size_overflow;
  check (u32 (base' + size) <=? e) else E_struct_out_of_range;
  check (base' mod align =? 0) else E_struct_unaligned;
  VOk.

(* table verifier descriptor *)
Record td := { t_o : Z; t_end : Z; t_ttl : Z; t_vtable : Z; t_table : Z; t_tsize : Z; t_vsize : Z }.

(* read_vt_entry: vo = (id + 2u) * sizeof(voffset_t) truncated to voffset_t *)
Definition read_vt_entry (d : td) (id : Z) : option Z :=
  let vo := u16 ((id + 2) * 2) in
  if t_vsize d <=? vo then Some 0 else r16 (t_o d) (t_vtable d + vo).

(* verify_field *)
Definition verify_field (d : td) (id : Z) (required : bool) (size align : Z) : vres :=
  match read_vt_entry d id with
  | None => VOob
  | Some vte =>
    if vte =? 0 then (if required then VErr E_required_field_missing else VOk) else
    let k2 := u32 (vte + size) in
    check (k2 <=? t_tsize d) else E_table_field_out_of_range;
    let k := u32 (vte + t_table d + u32 (addr + t_o d)) in
    check (k mod align =? 0) else E_table_field_not_aligned;
    VOk
  end.

(* get_offset_field: result (error, base); base = 0 means absent *)
Definition get_offset_field (d : td) (id : Z) (required : bool) : vres * Z :=
  match read_vt_entry d id with
  | None => (VOob, 0)
  | Some vte =>
    if vte =? 0 then ((if required then VErr E_required_field_missing else VOk), 0) else
    let k2 := u32 (vte + 4) in
    if negb (k2 <=? t_tsize d) then (VErr E_table_field_out_of_range, 0) else
    let k := u32 (vte + t_table d) in
    if negb (k mod 4 =? 0) then (VErr E_table_field_not_aligned, 0) else
    (VOk, k)
  end.

(* check_field macro: run [k base] when the field is present *)
Definition with_field (d : td) (id : Z) (required : bool) (k : Z -> vres) : vres :=
  match get_offset_field d id required with
  | (VOk, base) => if base =? 0 then VOk else k base
  | (r, _) => r
  end.

Definition verify_string (o e base offset : Z) : vres :=
  check (check_header e base offset) else E_string_header_out_of_range_or_unaligned;
  let base1 := u32 (base + offset) in
  match r32 o base1 with
  | None => VOob
  | Some n =>
    let base2 := u32 (base1 + 4) in
    check (n <? u32 (e - base2)) else E_string_out_of_range;
    match r8 o (base2 + n) with
    | None => VOob
    | Some c => check (c =? 0) else E_string_not_zero_terminated; VOk
    end
  end.

Definition verify_vector (o e base offset esize align maxcount : Z) : vres :=
  check (check_header e base offset) else E_vector_header_out_of_range_or_unaligned;
  let base1 := u32 (base + offset) in
  match r32 o base1 with
  | None => VOob
  | Some n =>
    let base2 := u32 (base1 + 4) in
    let align' := if (ENFORCE_ALIGNED_EMPTY_VECTORS =? 0) && (n =? 0) then 4 else align in
    check ((base2 mod align' =? 0) && (base2 mod 4 =? 0)) else E_vector_header_out_of_range_or_unaligned;
    check (n <=? maxcount) else E_vector_count_exceeds_representable_vector_size;
    check (u32 (n * esize) <=? u32 (e - base2)) else E_vector_out_of_range;
    VOk
  end.

(* for (i = 0; i < n; ++i, base += offset_size) body(base) *)
Fixpoint vloop (n : nat) (base : Z) (body : Z -> vres) : vres :=
  match n with
  | O => VOk
  | S n' => vbind (body base) (vloop n' (u32 (base + 4)) body)
  end.

Definition verify_string_vector (o e base offset : Z) : vres :=
  vbind (verify_vector o e base offset 4 4 (COUNT_MAX 4))
  (let base1 := u32 (base + offset) in
   match r32 o base1 with
   | None => VOob
   | Some n =>
     vloop (Z.to_nat n) (u32 (base1 + 4)) (fun bi =>
       match r32 o bi with None => VOob | Some off => verify_string o e bi off end)
   end).

(* The recursive callback: verify_table o e base offset ttl t *)
Definition tv := Z -> Z -> Z -> Z -> Z -> nat -> vres.

(* verify_table up to the call of the generated table verifier [tvf] *)
Definition verify_table_with (tvf : td -> vres) (o e base offset ttl : Z) : vres :=
  (* verify((td.ttl = ttl - 1), max_nesting_level_reached): see the note on [ttl_ok] *)
  check (0 <? ttl - 1) else E_max_nesting_level_reached;
  check (check_header e base offset) else E_table_header_out_of_range_or_unaligned;
  let table := u32 (base + offset) in
  match r32 o table with
  | None => VOob
  | Some so =>
    let vbase := u32 (table - so) in
    check ((vbase <? 2147483648) && (vbase mod 2 =? 0)) else E_vtable_offset_out_of_range_or_unaligned;
    check (vbase + 2 <=? e) else E_vtable_header_out_of_range;
    match r16 o vbase with
    | None => VOob
    | Some vsize =>
      let vend := u32 (vbase + vsize) in
      check ((vend <=? e) && (vsize mod 2 =? 0)) else E_vtable_size_out_of_range_or_unaligned;
      check (4 <=? vsize) else E_vtable_header_too_small;
      match r16 o (vbase + 2) with
      | None => VOob
      | Some tsize =>
        check (tsize <=? u32 (e - table)) else E_table_size_out_of_range;
        tvf {| t_o := o; t_end := e; t_ttl := ttl - 1; t_vtable := vbase; t_table := table;
               t_tsize := tsize; t_vsize := vsize |}
      end
    end
  end.

Definition verify_table_vector (vt : Z -> Z -> Z -> vres) (o e base offset ttl : Z) : vres :=
  check (0 <? ttl) else E_max_nesting_level_reached;
  vbind (verify_vector o e base offset 4 4 (COUNT_MAX 4))
  (let base1 := u32 (base + offset) in
   match r32 o base1 with
   | None => VOob
   | Some n =>
     vloop (Z.to_nat n) (u32 (base1 + 4)) (fun bi =>
       match r32 o bi with None => VOob | Some off => vt bi off (ttl - 1) end)
   end).

(* union verifier descriptor: type, base, offset, ttl (buf/end are the enclosing ones) *)
Definition uvf := Z -> Z -> Z -> Z -> vres.   (* type base offset ttl *)

(* loop of verify_union_vector; [types] is the position of the first type byte *)
Fixpoint uloop (n : nat) (o : Z) (base types : Z) (ttl : Z) (f : uvf) : vres :=
  match n with
  | O => VOk
  | S n' =>
    match r32 o base, r8 o types with
    | Some elem, Some ty =>
      vbind (if elem =? 0 then (check (ty =? 0) else E_union_element_absent_without_type_NONE; VOk)
             else (check (negb (ty =? 0)) else E_union_element_present_with_type_NONE; f ty base elem ttl))
            (uloop n' o (u32 (base + 4)) (types + 1) ttl f)
    | _, _ => VOob
    end
  end.

Definition verify_union_vector (o e base offset count types ttl : Z) (f : uvf) : vres :=
  check (0 <? ttl) else E_max_nesting_level_reached;
  vbind (verify_vector o e base offset 4 4 (COUNT_MAX 4))
  (let base1 := u32 (base + offset) in
   match r32 o base1 with
   | None => VOob
   | Some n =>
     check (n =? count) else E_union_vector_length_mismatch;
     uloop (Z.to_nat n) o (u32 (base1 + 4)) types (ttl - 1) f
   end).

(* ---- field entry points (flatcc_verify_*_field) *)
Definition verify_string_field (d : td) (id : Z) (required : bool) : vres :=
  with_field d id required (fun base =>
    match r32 (t_o d) base with None => VOob | Some off => verify_string (t_o d) (t_end d) base off end).

Definition verify_vector_field (d : td) (id : Z) (required : bool) (esize align maxc : Z) : vres :=
  with_field d id required (fun base =>
    match r32 (t_o d) base with None => VOob | Some off => verify_vector (t_o d) (t_end d) base off esize align maxc end).

Definition verify_string_vector_field (d : td) (id : Z) (required : bool) : vres :=
  with_field d id required (fun base =>
    match r32 (t_o d) base with None => VOob | Some off => verify_string_vector (t_o d) (t_end d) base off end).

Definition verify_table_field (vt : Z -> Z -> Z -> Z -> Z -> vres) (d : td) (id : Z) (required : bool) : vres :=
  with_field d id required (fun base =>
    match r32 (t_o d) base with None => VOob | Some off => vt (t_o d) (t_end d) base off (t_ttl d) end).

Definition verify_table_vector_field (vt : Z -> Z -> Z -> Z -> Z -> vres) (d : td) (id : Z) (required : bool) : vres :=
  with_field d id required (fun base =>
    match r32 (t_o d) base with None => VOob
    | Some off => verify_table_vector (vt (t_o d) (t_end d)) (t_o d) (t_end d) base off (t_ttl d) end).

(* flatcc_verify_union_field *)
Definition verify_union_field (f : Z -> Z -> uvf) (d : td) (id : Z) (required : bool) : vres :=
  match read_vt_entry d (id - 1) with
  | None => VOob
  | Some vte_type =>
    if vte_type =? 0 then
      match read_vt_entry d id with
      | None => VOob
      | Some vte_table =>
        check (vte_table =? 0) else E_union_cannot_have_a_table_without_a_type;
        check (negb required) else E_type_field_absent_from_required_union_field;
        VOk
      end
    else
      vbind (verify_field d (id - 1) false 1 1)
      (match read_vt_entry d id, r8 (t_o d) (t_table d + vte_type) with
       | Some vte_table, Some ty =>
         check ((negb (ty =? 0)) || (vte_table =? 0)) else E_union_type_NONE_cannot_have_a_value;
         if ty =? 0 then VOk else
         with_field d id required (fun base =>
           match r32 (t_o d) base with None => VOob
           | Some off => f (t_o d) (t_end d) ty base off (t_ttl d) end)
       | _, _ => VOob
       end)
  end.

(* flatcc_verify_union_vector_field.  The type vector and the value vector must be present together:
   [fixed = true] is the behaviour the property needs (and /repo has after its fix: commit);
   [fixed = false] transcribes the pinned code, kept for the _refuted lemma. *)
Definition verify_union_vector_field_gen (fixed : bool) (f : Z -> Z -> uvf) (d : td) (id : Z) (required : bool) : vres :=
  match read_vt_entry d (id - 1), read_vt_entry d id with
  | Some vte_type, Some vte_table =>
    vbind (if (vte_type =? 0) && (vte_table =? 0) then (check (negb required) else E_type_field_absent_from_required_union_vector_field; VOk) else VOk)
    (vbind (if fixed && (vte_type =? 0) && negb (vte_table =? 0) then VErr E_union_cannot_have_a_table_without_a_type else VOk)
    (vbind (verify_vector_field d (id - 1) required 1 1 (COUNT_MAX 1))
     (if vte_type =? 0 then VOk else
      match r32 (t_o d) (t_table d + vte_type) with
      | None => VOob
      | Some toff =>
        let tv_pos := t_table d + vte_type + toff in           (* pointer arithmetic: no wrap *)
        match r32 (t_o d) tv_pos with
        | None => VOob
        | Some count =>
          let types := tv_pos + 4 in
          with_field d id (if fixed then true else required) (fun base =>
            match r32 (t_o d) base with None => VOob
            | Some off => verify_union_vector (t_o d) (t_end d) base off count types (t_ttl d) (f (t_o d) (t_end d)) end)
        end
      end)))
  | _, _ => VOob
  end.
Definition verify_union_vector_field := verify_union_vector_field_gen true.

(* ---- buffer headers (identifier checks are C17's; here id = null) *)
Definition verify_buffer_header_noid (o len : Z) : vres :=
  check (u32 (addr + o) mod 4 =? 0) else E_runtime_buffer_header_not_aligned;
  check (len <=? U32_MAX - 8) else E_runtime_buffer_size_too_large;
  check (8 <=? len) else E_buffer_header_too_small;
  VOk.

(* flatcc_verify_struct_as_root (no identifier) on the buffer (o, len) *)
Definition verify_struct_as_root_at (o len size align : Z) : vres :=
  vbind (verify_buffer_header_noid o len)
  (match r32 o 0 with None => VOob | Some off => verify_struct len 0 off size align end).

(* ---- nested roots *)
Definition get_field_pos (d : td) (id : Z) : option Z :=          (* get_field_ptr: table + vte, 0 if absent *)
  match read_vt_entry d id with
  | None => None
  | Some vte => Some (if vte =? 0 then 0 else t_table d + vte)
  end.

(* flatcc_verify_table_as_nested_root(td, id, required, fid = 0, align, tvf): the containing [ubyte] vector is
   verified with element size 1 and the alignment the generated code passes *)
Definition verify_table_as_nested_root (vt : Z -> Z -> Z -> Z -> Z -> vres) (d : td) (id : Z) (required : bool) (align : Z) : vres :=
  vbind (verify_vector_field d id required 1 align (COUNT_MAX 1))
  (match get_field_pos d id with
   | None => VOob
   | Some p =>
     if p =? 0 then VOk else
     match r32 (t_o d) p with
     | None => VOob
     | Some off =>
       let vp := p + off in
       match r32 (t_o d) vp with
       | None => VOob
       | Some bufsiz =>
         let o' := t_o d + vp + 4 in
         vbind (verify_buffer_header_noid o' bufsiz)
         (match r32 o' 0 with None => VOob | Some roff => vt o' bufsiz 0 roff (t_ttl d) end)
       end
     end
   end).

Definition verify_struct_as_nested_root (d : td) (id : Z) (required : bool) (size align : Z) : vres :=
  vbind (verify_vector_field d id required 1 align (COUNT_MAX 1))
  (match get_field_pos d id with
   | None => VOob
   | Some p =>
     if p =? 0 then VOk else
     match r32 (t_o d) p with
     | None => VOob
     | Some off =>
       let vp := p + off in
       match r32 (t_o d) vp with
       | None => VOob
       | Some bufsiz => verify_struct_as_root_at (t_o d + vp + 4) bufsiz size align
       end
     end
   end).

End WithBuffer.

(* ---- the generated code as an interpreter over the descriptor *)
Section Interp.
Variable b : buf.
Variable addr : Z.
Variable S : schema.

(* generated T_union_verifier: switch (ud->type) *)
Definition union_verifier (vt : Z -> Z -> Z -> Z -> Z -> nat -> vres) (u : nat) (o e ty base offset ttl : Z) : vres :=
  match find_member (union_members S u) ty with
  | None => VOk                                                 (* default: return flatcc_verify_ok *)
  | Some (UTable t) => vt o e base offset ttl t
  | Some (UStruct size align) => verify_struct e base offset size align
  | Some UString => verify_string b o e base offset
  end.

Definition verify_one (vt : Z -> Z -> Z -> Z -> Z -> nat -> vres) (d : td) (f : field) : vres :=
  let vt' t := fun o e base off ttl => vt o e base off ttl t in
  match fk f with
  | FScalar size align => verify_field b addr d (fid f) false size align
  | FString => verify_string_field b d (fid f) (freq f)
  | FVector esize align maxc => verify_vector_field b d (fid f) (freq f) esize align maxc
  | FStringVec => verify_string_vector_field b d (fid f) (freq f)
  | FTable t => verify_table_field b (vt' t) d (fid f) (freq f)
  | FTableVec t => verify_table_vector_field b (vt' t) d (fid f) (freq f)
  | FUnion u => verify_union_field b addr (union_verifier vt u) d (fid f) (freq f)
  | FUnionVec u => verify_union_vector_field b (union_verifier vt u) d (fid f) (freq f)
  | FNestedTable align t => verify_table_as_nested_root b addr (vt' t) d (fid f) (freq f) align
  | FNestedStruct size align => verify_struct_as_nested_root b addr d (fid f) (freq f) size align
  end.

Fixpoint verify_fields (vt : Z -> Z -> Z -> Z -> Z -> nat -> vres) (d : td) (fs : list field) : vres :=
  match fs with
  | [] => VOk
  | f :: r => vbind (verify_one vt d f) (verify_fields vt d r)
  end.

(* verify_table with the generated table verifier; structural on fuel *)
Fixpoint verify_table (fuel : nat) (o e base offset ttl : Z) (t : nat) : vres :=
  match fuel with
  | O => VFuel
  | Datatypes.S fuel' =>
    verify_table_with b (fun d => verify_fields (verify_table fuel') d (table_fields S t)) o e base offset ttl
  end.

Inductive variant := Plain | WithSize.

(* flatcc_verify_table_as_root / _with_size (identifier = null) *)
Definition verify_table_as_root (fuel : nat) (v : variant) (t : nat) : vres :=
  match v with
  | Plain =>
    vbind (verify_buffer_header_noid addr 0 (blen b))
    (match r32 b 0 0 with None => VOob
     | Some off => verify_table fuel 0 (blen b) 0 off VERIFIER_MAX_LEVELS t end)
  | WithSize =>
    check (u32 addr mod 4 =? 0) else E_runtime_buffer_header_not_aligned;
    check (blen b <=? U32_MAX - 8) else E_runtime_buffer_size_too_large;
    check (12 <=? blen b) else E_buffer_header_too_small;
    match r32 b 0 0 with
    | None => VOob
    | Some size_field =>
      check (size_field <=? blen b - 4) else E_runtime_buffer_size_less_than_size_field;
      match r32 b 0 4 with None => VOob
      | Some off => verify_table fuel 0 (size_field + 4) 4 off VERIFIER_MAX_LEVELS t end
    end
  end.

(* flatcc_verify_struct_as_root / _with_size (string identifier variant, identifier = null).
   with_size: the root offset is at byte 4 and offsets are relative to it (as in the typed variant). *)
Definition verify_struct_as_root (v : variant) (size align : Z) : vres :=
  match v with
  | Plain => verify_struct_as_root_at b addr 0 (blen b) size align
  | WithSize =>
    check (u32 addr mod 4 =? 0) else E_runtime_buffer_header_not_aligned;
    check (blen b <=? U32_MAX - 8) else E_runtime_buffer_size_too_large;
    check (12 <=? blen b) else E_buffer_header_too_small;
    match r32 b 0 0 with
    | None => VOob
    | Some size_field =>
      check (size_field <=? blen b - 4) else E_runtime_buffer_size_less_than_size_field;
      match r32 b 0 4 with None => VOob
      | Some off => verify_struct (size_field + 4) 4 off size align end
    end
  end.

Definition verify_root (fuel : nat) (r : root) (v : variant) : vres :=
  match r with
  | RTable t => verify_table_as_root fuel v t
  | RStruct size align => verify_struct_as_root v size align
  end.

End Interp.
