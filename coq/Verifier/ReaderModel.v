(* C01: the reads a client of the generated reader API (and the generated JSON printer, which follows the same
   structure through json_printer.c) can make on a buffer, given the schema: every field, every vector element
   below its length, every string up to and including its terminator, every union member, every nested root.
   Positions are absolute in [b]; pointer arithmetic is unbounded (64-bit addresses do not wrap in practice).
   [need p w al] is the obligation "bytes [p, p+w) lie inside the buffer and the address is aligned to al".
   The walk returns WBad at the first read that violates it. No proofs in this file. *)
From Flatcc.Verifier Require Export Schema.
Local Open Scope Z_scope.

Inductive wres := WOk | WBad (pos w al : Z) | WFuel.
(* sequencing and obligations are notations so that continuations stay lazy after extraction to strict OCaml *)
Notation "'wbind' r k" := (match r with WOk => k | WBad p_ w_ a_ => WBad p_ w_ a_ | WFuel => WFuel end)
  (at level 10, r at level 9, k at level 9).

Section Walk.
Variable b : buf.
Variable addr : Z.
Variable S : schema.

Definition need_ok (p w al : Z) : bool :=
  (0 <=? p) && (p + w <=? blen b) && ((addr + p) mod al =? 0).
Notation "'need' p w al k" := (if need_ok p w al then k else WBad p w al)
  (at level 10, p at level 9, w at level 9, al at level 9, k at level 9).
(* a run of [len] bytes of elements aligned to [al]; an empty run touches nothing *)
Notation "'need_run' p len al k" := (if (len =? 0) || need_ok p len al then k else WBad p len al)
  (at level 10, p at level 9, len at level 9, al at level 9, k at level 9).

(* reads that were declared needed: total function with default 0 (the walk has already failed otherwise) *)
Definition g8  (p : Z) : Z := match rd8 b p with Some v => v | None => 0 end.
Definition g16 (p : Z) : Z := match rd16 b p with Some v => v | None => 0 end.
Definition g32 (p : Z) : Z := match rd32 b p with Some v => v | None => 0 end.

(* flatbuffers_string_t: length word, bytes, terminator *)
Definition walk_string (q : Z) : wres :=
  need q 4 4 (need (q + 4) (g32 q + 1) 1 WOk).

(* follow the uoffset stored at [slot] *)
Definition follow (slot : Z) : Z := slot + g32 slot.

Fixpoint wloop (n : nat) (slot : Z) (body : Z -> wres) : wres :=
  match n with
  | O => WOk
  | Datatypes.S n' => wbind (body slot) (wloop n' (slot + 4) body)
  end.

(* scalar / struct vector at q (position of the length word) *)
Definition walk_vector (q esize align : Z) : wres :=
  need q 4 4 (need_run (q + 4) (g32 q * esize) align WOk).

Definition walk_string_vector (q : Z) : wres :=
  need q 4 4 (wloop (Z.to_nat (g32 q)) (q + 4) (fun slot => need slot 4 4 (walk_string (follow slot)))).

(* __flatbuffers_read_vt(ID, offset, t): the vtable entry of field id for the table at p; 0 = absent.
   Returns the obligations as a continuation over the entry. *)
Definition with_vte (p id : Z) (k : Z -> wres) : wres :=
  need p 4 4
  (let vt := p - s32 (g32 p) in
   need vt 2 2
   (if (id + 3) * 2 <=? g16 vt then need (vt + (id + 2) * 2) 2 2 (k (g16 (vt + (id + 2) * 2))) else k 0)).

(* a present offset field: k receives the target position *)
Definition with_offset_field (p id : Z) (k : Z -> wres) : wres :=
  with_vte p id (fun vte => if vte =? 0 then WOk else need (p + vte) 4 4 (k (follow (p + vte)))).

Definition walk_union_member (wt : Z -> nat -> wres) (u : nat) (ty target : Z) : wres :=
  match find_member (union_members S u) ty with
  | None => WOk                                   (* unknown type: the value is not followed *)
  | Some (UTable t) => wt target t
  | Some (UStruct size align) => need_run target size align WOk
  | Some UString => walk_string target
  end.

(* union vector element i: type byte at types + i; when non-zero, the value slot is followed *)
Fixpoint wuloop (wt : Z -> nat -> wres) (u : nat) (n : nat) (types slot : Z) : wres :=
  match n with
  | O => WOk
  | Datatypes.S n' =>
    wbind (need types 1 1
            (if g8 types =? 0 then WOk
             else need slot 4 4 (walk_union_member wt u (g8 types) (follow slot))))
          (wuloop wt u n' (types + 1) (slot + 4))
  end.

(* as_root on the bytes starting at position r (after any size prefix): root offset then the object *)
Definition walk_root_table (wt : Z -> nat -> wres) (r : Z) (t : nat) : wres :=
  need r 4 4 (wt (follow r) t).
Definition walk_root_struct (r size align : Z) : wres :=
  need r 4 4 (need_run (follow r) size align WOk).

Definition walk_field (wt : Z -> nat -> wres) (p : Z) (f : field) : wres :=
  match fk f with
  | FScalar size align =>
    with_vte p (fid f) (fun vte => if vte =? 0 then WOk else need_run (p + vte) size align WOk)
  | FString => with_offset_field p (fid f) walk_string
  | FVector esize align _ => with_offset_field p (fid f) (fun q => walk_vector q esize align)
  | FStringVec => with_offset_field p (fid f) walk_string_vector
  | FTable t => with_offset_field p (fid f) (fun q => wt q t)
  | FTableVec t =>
    with_offset_field p (fid f) (fun q =>
      need q 4 4 (wloop (Z.to_nat (g32 q)) (q + 4) (fun slot => need slot 4 4 (wt (follow slot) t))))
  | FUnion u =>
    (* T_f_type(t) then, when the type is not NONE, T_f(t) *)
    with_vte p (fid f - 1) (fun vty =>
      if vty =? 0 then WOk else
      need (p + vty) 1 1
      (if g8 (p + vty) =? 0 then WOk else
       with_offset_field p (fid f) (fun target => walk_union_member wt u (g8 (p + vty)) target)))
  | FUnionVec u =>
    (* T_f_type(t) (a ubyte vector) gives the length; T_f(t) the value vector; union_vec_at(i) for i < len *)
    with_offset_field p (fid f - 1) (fun tq =>
      need tq 4 4
      (wbind (need_run (tq + 4) (g32 tq) 1 WOk)
       (if g32 tq =? 0 then WOk else
        with_vte p (fid f) (fun vv =>
          (* a non-empty type vector indexes the value vector: it must be there *)
          if vv =? 0 then WBad 0 4 4 else
          need (p + vv) 4 4
          (let vq := follow (p + vv) in
           need vq 4 4 (wuloop wt u (Z.to_nat (g32 tq)) (tq + 4) (vq + 4)))))))
  | FNestedTable _ t =>
    (* T_f(t) is the ubyte vector; T_f_as_root(t) treats its content as a buffer *)
    with_offset_field p (fid f) (fun q =>
      need q 4 4 (wbind (need_run (q + 4) (g32 q) 1 WOk) (walk_root_table wt (q + 4) t)))
  | FNestedStruct size align =>
    with_offset_field p (fid f) (fun q =>
      need q 4 4 (wbind (need_run (q + 4) (g32 q) 1 WOk) (walk_root_struct (q + 4) size align)))
  end.

Fixpoint walk_fields (wt : Z -> nat -> wres) (p : Z) (fs : list field) : wres :=
  match fs with
  | [] => WOk
  | f :: r => wbind (walk_field wt p f) (walk_fields wt p r)
  end.

Fixpoint walk_table (fuel : nat) (p : Z) (t : nat) : wres :=
  match fuel with
  | O => WFuel
  | Datatypes.S fuel' => need p 4 4 (walk_fields (walk_table fuel') p (table_fields S t))
  end.

(* entry: what a client does with a buffer it was handed, per root kind and variant *)
Definition walk_root (fuel : nat) (r : root) (with_size : bool) : wres :=
  let start := if with_size then 4 else 0 in       (* flatbuffers_read_size_prefix reads and skips the size word *)
  wbind (if with_size then need 0 4 4 WOk else WOk)
  (match r with
   | RTable t => walk_root_table (walk_table fuel) start t
   | RStruct size align => walk_root_struct start size align
   end).

End Walk.
