(* C09, builder side, part 3: the format-side evolution relation maps to the verifier-side one, and the build theorems
   (C02 completeness, C03 build-then-decode) compose with it in both directions. *)
From Coq Require Import ZifyBool.
From Flatcc.Format Require Schema Spec SpecProofs.
From Flatcc.Builder Require EmitModel VMem Script ScriptProofs.
From Flatcc.Verifier Require Import Schema VerifierModel VerifierProofsBase VerifierProofsTop
  CompleteBase CompleteTable Complete CompleteBuild CompleteBytes Evolution.
From Flatcc.Verifier Require Evolution2 Evolution2Dec.
Local Open Scope Z_scope.

Module E2 := Flatcc.Verifier.Evolution2.
Module E2D := Flatcc.Verifier.Evolution2Dec.

(* ------------------------------------------------------------------ extends (format side) gives restricts (verifier side) *)
Lemma fkind_eqb_refl (k : fkind) : fkind_eqb k k = true.
Proof. destruct k; cbn; rewrite ?Z.eqb_refl, ?Nat.eqb_refl; reflexivity. Qed.

Lemma field_eqb_refl (f : field) : field_eqb f f = true.
Proof. unfold field_eqb. rewrite Z.eqb_refl, Bool.eqb_reflx, fkind_eqb_refl. reflexivity. Qed.

Lemma umember_eqb_refl (m : umember) : umember_eqb m m = true.
Proof. destruct m; cbn; rewrite ?Z.eqb_refl, ?Nat.eqb_refl; reflexivity. Qed.

Lemma fields_ext_sub fa fb : E2.fields_ext fa fb = true -> fields_sub (map to_vfield fa) (map to_vfield fb) = true.
Proof.
  intros H. apply E2.fields_ext_fsub in H. unfold fields_sub. apply forallb_forall. intros f' Hin.
  apply in_map_iff in Hin. destruct Hin as (f & <- & Hf). apply existsb_exists. exists (to_vfield f).
  split; [apply in_map; eapply E2.fsub_in; eassumption | apply field_eqb_refl].
Qed.

Lemma members_ext_sub ma mb : E2.members_ext ma mb = true -> members_sub (to_vmembers ma) (to_vmembers mb) = true.
Proof.
  unfold E2.members_ext, members_sub. intros H. rewrite forallb_forall in H. apply forallb_forall. intros cm' Hin.
  unfold to_vmembers in Hin. apply in_map_iff in Hin. destruct Hin as (cm & <- & Hcm). cbn [fst].
  fold (to_vmembers ma). fold (to_vmembers mb). rewrite !to_v_find. specialize (H cm Hcm).
  destruct (FS.assocZ (fst cm) ma) as [x|]; [|discriminate].
  destruct (FS.assocZ (fst cm) mb) as [y|]; [|discriminate].
  apply E2.umember_eqb_eq in H. subst. cbn [option_map]. apply umember_eqb_refl.
Qed.

Lemma alli_all_nth {X Y} (pF : nat -> X -> bool) (pV : nat -> Y -> bool) (g : X -> Y) :
  (forall i x, pF i x = true -> pV i (g x) = true) ->
  forall l i, E2.alli pF i l = true -> all_nth pV i (map g l) = true.
Proof.
  intros Hp. induction l as [|x r IH]; intros i H; [reflexivity|].
  cbn [E2.alli] in H. apply andb_true_iff in H. destruct H as [Hx Hr].
  cbn [map all_nth]. rewrite (Hp _ _ Hx). apply IH. exact Hr.
Qed.

Theorem extends_restricts A B : E2.extends A B = true -> restricts (to_vschema A) (to_vschema B) = true.
Proof.
  unfold E2.extends, restricts. intros H. apply andb_true_iff in H. destruct H as [Ht Hu].
  apply andb_true_iff. split.
  - cbn [tables to_vschema]. eapply alli_all_nth; [|exact Ht]. intros i fa. unfold E2.ext_table.
    destruct (nth_error (FS.tables B) i) as [fb|] eqn:E; [|discriminate]. intros H.
    rewrite (to_v_table_fields B i fb E). apply fields_ext_sub. exact H.
  - cbn [unions to_vschema]. eapply alli_all_nth; [|exact Hu]. intros i ma. unfold E2.ext_union.
    destruct (nth_error (FS.unions B) i) as [mb|] eqn:E; [|discriminate]. intros H.
    unfold union_members, to_vschema. cbn [unions]. change (@nil (Z * umember)) with (to_vmembers []). rewrite map_nth.
    rewrite (nth_error_nth _ _ _ E). apply members_ext_sub. exact H.
Qed.

(* the old verifier accepts what the new verifier accepts, for every root *)
Lemma verify_root_mono_all b addr A B fuel R v : restricts A B = true ->
  verify_root b addr B fuel R v = VOk -> verify_root b addr A fuel R v = VOk.
Proof.
  intros HR. destruct R as [t|s a]; [apply verify_root_mono; exact HR | exact (fun H => H)].
Qed.

(* ------------------------------------------------------------------ old builds under the new schema *)
Section OldBuilds.
Variables A B : FS.schema.
Hypothesis HE : E2.extends A B = true.

(* (a) the NEW verifier accepts every buffer finished by a build that is well typed over the OLD schema and adds none
       of the new slots *)
Theorem new_verifier_accepts_old_builds_gen : forall sc R v ws n regs ems st addr fuel,
  E2.wt_script_p (E2.avoids A B) A sc R v ws n ->
  EM.run EM.init_state [] sc = Some (regs, ems, st) -> VMem.small st ->
  schema_wf (to_vschema B) = true -> schema_in_fragment B = true -> members_nonempty B = true -> root_ok R ->
  script_bytes sc = true ->
  levels_needed B n <= VERIFIER_MAX_LEVELS -> (n <= fuel)%nat ->
  header_room R ws (EM.lenZ (EM.buffer_bytes st)) ->
  addr mod EM.buffer_alignment st = 0 ->
  verify_root (of_list (EM.buffer_bytes st)) addr (to_vschema B) fuel (to_vroot R) (to_variant ws) = VOk.
Proof.
  intros sc R v ws n regs ems st addr fuel Hwt. intros.
  eapply build_verifies'; try eassumption. apply (E2.wt_script_mono A B HE). exact Hwt.
Qed.

Theorem new_verifier_accepts_old_builds : forall sc R v ws n regs ems st addr fuel,
  E2.ids_distinct B = true ->
  E2.wt_script_tight A sc R v ws n ->
  EM.run EM.init_state [] sc = Some (regs, ems, st) -> VMem.small st ->
  schema_wf (to_vschema B) = true -> schema_in_fragment B = true -> members_nonempty B = true -> root_ok R ->
  script_bytes sc = true ->
  levels_needed B n <= VERIFIER_MAX_LEVELS -> (n <= fuel)%nat ->
  header_room R ws (EM.lenZ (EM.buffer_bytes st)) ->
  addr mod EM.buffer_alignment st = 0 ->
  verify_root (of_list (EM.buffer_bytes st)) addr (to_vschema B) fuel (to_vroot R) (to_variant ws) = VOk.
Proof.
  intros sc R v ws n regs ems st addr fuel Hd Hwt. intros.
  eapply build_verifies'; try eassumption. apply (E2.wt_script_tight_mono A B HE); eassumption.
Qed.

(* ... and the NEW reader's walk over it is in bounds and aligned *)
Theorem new_reader_safe_on_old_builds : forall sc R v ws n regs ems st addr fuel ra,
  E2.ids_distinct B = true ->
  E2.wt_script_tight A sc R v ws n ->
  EM.run EM.init_state [] sc = Some (regs, ems, st) -> VMem.small st ->
  schema_wf (to_vschema B) = true -> schema_in_fragment B = true -> members_nonempty B = true -> root_ok R ->
  script_bytes sc = true ->
  levels_needed B n <= VERIFIER_MAX_LEVELS -> (n <= fuel)%nat ->
  header_room R ws (EM.lenZ (EM.buffer_bytes st)) ->
  addr mod EM.buffer_alignment st = 0 ->
  ra_ok (to_vschema B) ra = true -> root_aligned ra addr (to_vroot R) ->
  walk_root (of_list (EM.buffer_bytes st)) addr (to_vschema B) fuel (to_vroot R) ws = WOk.
Proof.
  intros sc R v ws n regs ems st addr fuel ra Hd Hwt. intros.
  eapply build_reads_safely'; try eassumption. apply (E2.wt_script_tight_mono A B HE); eassumption.
Qed.

(* (c1) the new schema's decoder returns, on an old build, exactly the value that was built - the same value the old
        schema's decoder returns: the fields the new schema adds are not there *)
Theorem old_build_decodes_under_new : forall sc R v ws n regs ems st,
  E2.ids_distinct B = true ->
  E2.wt_script_tight A sc R v ws n ->
  EM.run EM.init_state [] sc = Some (regs, ems, st) -> VMem.small st ->
  Sp.decode_root n B R ws (EM.buffer_bytes st) = Some v /\ Sp.decode_root n A R ws (EM.buffer_bytes st) = Some v.
Proof.
  intros sc R v ws n regs ems st Hd Hwt Hrun Hsm. split.
  - eapply ScriptProofs.build_decode; [|exact Hrun|exact Hsm]. apply (E2.wt_script_tight_mono A B HE); eassumption.
  - eapply ScriptProofs.build_decode; [|exact Hrun|exact Hsm]. eapply E2.wt_script_p_forget. exact Hwt.
Qed.

(* spelled out for a table root: every key of the decoded root table is an id of the OLD schema's table *)
Theorem old_build_new_fields_absent : forall sc t v ws n regs ems st,
  E2.ids_distinct B = true ->
  E2.wt_script_tight A sc (FS.RTable t) v ws n ->
  EM.run EM.init_state [] sc = Some (regs, ems, st) -> VMem.small st ->
  Sp.decode_root n B (FS.RTable t) ws (EM.buffer_bytes st) = Some v /\
  exists fa fs, FS.table_fields A t = Some fa /\ v = Sp.VTable fs /\
                forall k x, FS.assocZ k fs = Some x -> In k (map FS.fid fa).
Proof.
  intros sc t v ws n regs ems st Hd Hwt Hrun Hsm.
  destruct (old_build_decodes_under_new sc (FS.RTable t) v ws n regs ems st Hd Hwt Hrun Hsm) as [HB HA].
  split; [exact HB|]. eapply E2D.decode_root_table_keys. exact HA.
Qed.
End OldBuilds.

(* ------------------------------------------------------------------ new builds under the old schema *)
Section NewBuilds.
Variables A B : FS.schema.
Hypothesis HE : E2.extends A B = true.

(* (b) the OLD verifier accepts every buffer finished by a build that is well typed over the NEW schema *)
Theorem old_verifier_accepts_new_builds : forall sc R v ws n regs ems st addr fuel,
  BS.wt_script B sc R v ws n ->
  EM.run EM.init_state [] sc = Some (regs, ems, st) -> VMem.small st ->
  schema_wf (to_vschema B) = true -> schema_in_fragment B = true -> members_nonempty B = true -> root_ok R ->
  script_bytes sc = true ->
  levels_needed B n <= VERIFIER_MAX_LEVELS -> (n <= fuel)%nat ->
  header_room R ws (EM.lenZ (EM.buffer_bytes st)) ->
  addr mod EM.buffer_alignment st = 0 ->
  verify_root (of_list (EM.buffer_bytes st)) addr (to_vschema A) fuel (to_vroot R) (to_variant ws) = VOk.
Proof.
  intros. eapply verify_root_mono_all; [apply extends_restricts; exact HE|].
  eapply build_verifies'; eassumption.
Qed.

(* ... and the OLD reader's walk over it is in bounds and aligned (C01 for the old schema) *)
Theorem old_reader_safe_on_new_builds : forall sc R v ws n regs ems st addr fuel ra,
  BS.wt_script B sc R v ws n ->
  EM.run EM.init_state [] sc = Some (regs, ems, st) -> VMem.small st ->
  schema_wf (to_vschema B) = true -> schema_in_fragment B = true -> members_nonempty B = true -> root_ok R ->
  script_bytes sc = true ->
  levels_needed B n <= VERIFIER_MAX_LEVELS -> (n <= fuel)%nat ->
  header_room R ws (EM.lenZ (EM.buffer_bytes st)) ->
  addr mod EM.buffer_alignment st = 0 ->
  schema_wf (to_vschema A) = true -> ra_ok (to_vschema A) ra = true -> root_aligned ra addr (to_vroot R) ->
  walk_root (of_list (EM.buffer_bytes st)) addr (to_vschema A) fuel (to_vroot R) ws = WOk.
Proof.
  intros sc R v ws n regs ems st addr fuel ra Hwt Hrun Hsm HwfB Hfr Hne HR Hby Hlev Hfuel Hroom Haddr HwfA Hra Hral.
  pose proof (old_verifier_accepts_new_builds sc R v ws n regs ems st addr fuel
                Hwt Hrun Hsm HwfB Hfr Hne HR Hby Hlev Hfuel Hroom Haddr) as Hv.
  pose proof (verify_sound (of_list (EM.buffer_bytes st)) addr (to_vschema A) ra fuel (to_vroot R) (to_variant ws)
                (of_list_wf _) HwfA Hra) as Hs.
  assert (Hws : match to_variant ws with WithSize => true | Plain => false end = ws) by (destruct ws; reflexivity).
  rewrite Hws in Hs. apply Hs; [| apply root_ok_wf; exact HR | exact Hral | exact Hv].
  cbn [blen of_list]. unfold SOUND_MAX_SIZE. unfold VMem.small, EM.lenZ in Hsm. unfold EM.buffer_bytes. rewrite app_length. lia.
Qed.

(* (c2) the old schema's decoder returns, on a new build, the built value restricted to the old schema *)
Theorem new_build_decodes_under_old : forall sc R v ws n regs ems st,
  E2D.tables_closed A = true -> E2.fids_distinct B = true -> E2D.root_in A R ->
  BS.wt_script B sc R v ws n ->
  EM.run EM.init_state [] sc = Some (regs, ems, st) -> VMem.small st ->
  Sp.decode_root n A R ws (EM.buffer_bytes st) = Some (E2D.rv_root A n R v).
Proof.
  intros sc R v ws n regs ems st HC HD HRi Hwt Hrun Hsm.
  apply (E2D.decode_root_res A B HE HC HD n R ws _ v HRi).
  eapply ScriptProofs.build_decode; eassumption.
Qed.
End NewBuilds.

(* ------------------------------------------------------------------ two versions with a common extension *)
(* Deprecation: version B drops a non-required field of version A (and may add fields of its own).  Neither schema
   extends the other, but both are extended by the schema M that keeps every field either version has.  Every tight
   build over A is then accepted by B's verifier and decoded under B as the built value restricted to B. *)
Section Common.
Variables A B M : FS.schema.
Hypothesis HA : E2.extends A M = true.
Hypothesis HB : E2.extends B M = true.

Theorem verifier_accepts_builds_via_common_extension : forall sc R v ws n regs ems st addr fuel,
  E2.ids_distinct M = true ->
  E2.wt_script_tight A sc R v ws n ->
  EM.run EM.init_state [] sc = Some (regs, ems, st) -> VMem.small st ->
  schema_wf (to_vschema M) = true -> schema_in_fragment M = true -> members_nonempty M = true -> root_ok R ->
  script_bytes sc = true ->
  levels_needed M n <= VERIFIER_MAX_LEVELS -> (n <= fuel)%nat ->
  header_room R ws (EM.lenZ (EM.buffer_bytes st)) ->
  addr mod EM.buffer_alignment st = 0 ->
  verify_root (of_list (EM.buffer_bytes st)) addr (to_vschema B) fuel (to_vroot R) (to_variant ws) = VOk.
Proof.
  intros. eapply verify_root_mono_all; [apply extends_restricts; exact HB|].
  eapply (new_verifier_accepts_old_builds A M HA); eassumption.
Qed.

Theorem build_decodes_via_common_extension : forall sc R v ws n regs ems st,
  E2.ids_distinct M = true -> E2.fids_distinct M = true -> E2D.tables_closed B = true -> E2D.root_in B R ->
  E2.wt_script_tight A sc R v ws n ->
  EM.run EM.init_state [] sc = Some (regs, ems, st) -> VMem.small st ->
  Sp.decode_root n B R ws (EM.buffer_bytes st) = Some (E2D.rv_root B n R v).
Proof.
  intros sc R v ws n regs ems st Hd Hfd HC HRi Hwt Hrun Hsm.
  apply (E2D.decode_root_res B M HB HC Hfd n R ws _ v HRi).
  exact (proj1 (old_build_decodes_under_new A M HA sc R v ws n regs ems st Hd Hwt Hrun Hsm)).
Qed.
End Common.
