(* C09, builder side, part 4a: a concrete two-version schema pair and build scripts over each version (format / builder
   side only; the verifier-side facts about them are in Evolution2Example.v). *)
From Flatcc.Format Require Import Schema Spec SpecProofs.
From Flatcc.Builder Require Import EmitModel VMem Objects Leaves OffVec TableLayout Table Buffer Script ScriptProofs Example.
From Flatcc.Verifier Require Import Evolution2 Evolution2Dec.
Local Open Scope Z_scope.

(* version 1 = Builder/Example.v:
     table T0 { a:int; s:string; v:[short]; }   union U { T0 }   table T1 { child:T0 (required); names:[string]; u:U; }
   version 2 appends: T0.d:double, union member U.string, table T2 { x:short }, T1.extra:T2, T1.u2:U *)
Definition evA : schema := ex_schema.
Definition evB : schema :=
  {| tables := [ [ {| fid := 0; frequired := false; fk := FScalar 4 4 |};
                   {| fid := 1; frequired := false; fk := FString |};
                   {| fid := 2; frequired := false; fk := FVector 2 2 2147483647 |};
                   {| fid := 3; frequired := false; fk := FScalar 8 8 |} ];
                 [ {| fid := 0; frequired := true; fk := FTable 0 |};
                   {| fid := 1; frequired := false; fk := FStringVec |};
                   {| fid := 3; frequired := false; fk := FUnion 0 |};
                   {| fid := 4; frequired := false; fk := FTable 2 |};
                   {| fid := 6; frequired := false; fk := FUnion 0 |} ];
                 [ {| fid := 0; frequired := false; fk := FScalar 2 2 |} ] ];
     unions := [ [ (1, UTable 0); (2, UString) ] ] |}.

Example ev_extends : extends evA evB = true. Proof. vm_compute. reflexivity. Qed.
Example ev_ids_distinct : ids_distinct evB = true. Proof. vm_compute. reflexivity. Qed.
Example ev_fids_distinct : fids_distinct evB = true. Proof. vm_compute. reflexivity. Qed.
Example ev_closed : tables_closed evA = true. Proof. vm_compute. reflexivity. Qed.

(* the relation is not trivial: a new REQUIRED field, a changed kind, a changed member are all refused *)
Example ev_not_extends_required :
  extends evA {| tables := [ [ {| fid := 0; frequired := false; fk := FScalar 4 4 |};
                               {| fid := 1; frequired := false; fk := FString |};
                               {| fid := 2; frequired := false; fk := FVector 2 2 2147483647 |};
                               {| fid := 3; frequired := true; fk := FString |} ];
                             [ {| fid := 0; frequired := true; fk := FTable 0 |};
                               {| fid := 1; frequired := false; fk := FStringVec |};
                               {| fid := 3; frequired := false; fk := FUnion 0 |} ] ];
                 unions := [ [ (1, UTable 0) ] ] |} = false.
Proof. vm_compute. reflexivity. Qed.
Example ev_not_extends_member :
  extends evA {| tables := tables evA; unions := [ [ (1, UString) ] ] |} = false.
Proof. vm_compute. reflexivity. Qed.

(* ------------------------------------------------------------------ the version-1 script is tight *)
Ltac tight_tac :=
  cbn [cmd_ok]; let t := fresh "t" in let Ht := fresh "Ht" in intros t Ht; vm_compute in Ht; injection Ht as <-;
  let fa := fresh "fa" in let Hfa := fresh "Hfa" in intros fa Hfa; vm_compute in Hfa; injection Hfa as <-;
  let a := fresh "a" in let Ha := fresh "Ha" in intros a Ha; cbn in Ha;
  repeat (destruct Ha as [<-|Ha]; [solve [vm_compute; repeat (first [left; reflexivity | right])]|]); destruct Ha.

Example ev_old_tight : wt_script_tight evA ex_script (RTable 1) ex_value true 2%nat.
Proof.
  unfold wt_script_tight, evA, ex_script.
  change [CSettings false 0 0; CString [97; 98]; CStartBuffer 1145258561 16 2; CVector 2 2 2147483647 2 [1; 0; 2; 0];
          CTable [TOffset 2 1%nat; TInline 0 4 4 [42; 0; 0; 0]; TOffset 1 0%nat]; COffVec [0%nat; 0%nat];
          CTable [TOffset 1 3%nat; TOffset 0 2%nat; TInline 2 1 1 [1]; TOffset 3 2%nat]; CEndBuffer 4%nat]
    with (CSettings false 0 0 :: [CString [97; 98]] ++ CStartBuffer 1145258561 16 2 ::
          [CVector 2 2 2147483647 (Z.of_nat (length [[1; 0]; [2; 0]])) (concat [[1; 0]; [2; 0]]);
           CTable [TOffset 2 1%nat; TInline 0 4 4 [42; 0; 0; 0]; TOffset 1 0%nat]; COffVec [0%nat; 0%nat];
           CTable [TOffset 1 3%nat; TOffset 0 2%nat; TInline 2 1 1 [1]; TOffset 3 2%nat]] ++ [CEndBuffer 4%nat]).
  change true with (negb (Z.land 2 2 =? 0)).
  eapply (WTP_top (tight ex_schema) ex_schema false 0 0 [CString [97; 98]] 1145258561 16 2 _ 4%nat (RTable 1) ex_value 2%nat _ _).
  - left; reflexivity.
  - eapply WTP_cons; [apply WT_string | exact I | apply WTP_nil].
  - eapply WTP_cons; [apply (WT_vector ex_schema _ 2 2 2147483647 [[1; 0]; [2; 0]]) | exact I |].
    { apply (p2 1); lia. } { unfold U32_MAX; lia. } { repeat constructor. } { unfold U32_MAX; lia. }
    eapply WTP_cons.
    { eapply (WT_table ex_schema _ [TOffset 2 1%nat; TInline 0 4 4 [42; 0; 0; 0]; TOffset 1 0%nat] 0%nat _
               [(0, VBytes [42; 0; 0; 0]); (1, VString [97; 98]); (2, VVec [[1; 0]; [2; 0]])] 0%nat).
      - repeat constructor; cbn; try lia; try (apply (p2 2); lia).
      - cbn; lia.
      - vm_compute. discriminate.
      - reflexivity.
      - apply WFS_present; [eapply WF_scalar; [reflexivity | cbn; tauto]|].
        apply WFS_present; [eapply (WF_string _ _ _ _ _ 0%nat); [reflexivity | cbn; tauto | reflexivity | lia]|].
        apply WFS_present; [eapply (WF_vector _ _ _ _ _ 2 2 2147483647 1%nat [[1; 0]; [2; 0]]); [reflexivity | cbn; tauto | reflexivity | lia | cbn; lia]|].
        apply WFS_nil. }
    { tight_tac. }
    eapply WTP_cons.
    { apply (WT_offvec ex_schema _ [0%nat; 0%nat] OString [VString [97; 98]; VString [97; 98]] 0%nat).
      - left; reflexivity.
      - constructor; [exists 0%nat; split; [reflexivity | lia]|]. constructor; [exists 0%nat; split; [reflexivity | lia]|]. constructor. }
    { exact I. }
    eapply WTP_cons; [| |apply WTP_nil].
    { eapply (WT_table ex_schema _ [TOffset 1 3%nat; TOffset 0 2%nat; TInline 2 1 1 [1]; TOffset 3 2%nat] 1%nat _
               [(0, VTable [(0, VBytes [42; 0; 0; 0]); (1, VString [97; 98]); (2, VVec [[1; 0]; [2; 0]])]);
                (1, VOffVec [VString [97; 98]; VString [97; 98]]);
                (3, VUnion 1 (VTable [(0, VBytes [42; 0; 0; 0]); (1, VString [97; 98]); (2, VVec [[1; 0]; [2; 0]])]))] 1%nat).
      + repeat constructor; cbn; try lia; try (apply (p2 2); lia); try (apply (p2 0); lia).
      + cbn; lia.
      + vm_compute. discriminate.
      + reflexivity.
      + apply WFS_present; [eapply (WF_table _ _ _ _ _ 0%nat 2%nat); [reflexivity | cbn; tauto | reflexivity | lia]|].
        apply WFS_present; [eapply (WF_strvec _ _ _ _ _ 3%nat); [reflexivity | cbn; tauto | reflexivity | lia]|].
        apply WFS_present; [|apply WFS_nil].
        eapply (WF_union _ _ _ _ _ 0%nat 1 2%nat (UTable 0) _ 1%nat); [reflexivity | lia | cbn; tauto | cbn; tauto | reflexivity | reflexivity | lia]. }
    { tight_tac. }
  - reflexivity.
  - right. apply (p2 4); lia.
  - unfold in_u32; lia.
  - lia.
Qed.

(* ------------------------------------------------------------------ a version-2 script using everything that is new *)
Definition ev_new_script : list cmd :=
  [ CSettings false 0 0;
    CStartBuffer 0 0 0;
    CString [104; 105];                                                          (* r0 *)
    CTable [TInline 0 4 4 [7; 0; 0; 0]; TInline 3 8 8 [1; 2; 3; 4; 5; 6; 7; 8]];  (* r1 : T0 with the new field d *)
    CTable [TInline 0 2 2 [9; 0]];                                               (* r2 : the new table T2 *)
    CTable [TOffset 0 1%nat; TInline 2 1 1 [2]; TOffset 3 0%nat;                 (* r3 : T1; u holds the NEW member (string), *)
            TOffset 4 2%nat; TInline 5 1 1 [1]; TOffset 6 1%nat];                (*      new fields extra and u2 *)
    CEndBuffer 3%nat ].

Definition ev_t0v : value := VTable [(0, VBytes [7; 0; 0; 0]); (3, VBytes [1; 2; 3; 4; 5; 6; 7; 8])].
Definition ev_new_value : value :=
  VTable [ (0, ev_t0v); (3, VUnion 2 (VString [104; 105])); (4, VTable [(0, VBytes [9; 0])]); (6, VUnion 1 ev_t0v) ].

(* what version 1 sees of it: T0.d, T1.extra, T1.u2 gone; the member of the unknown kind not followed *)
Definition ev_new_value_restricted : value :=
  VTable [ (0, VTable [(0, VBytes [7; 0; 0; 0])]); (3, VUnion 2 VUnknown) ].

Example ev_restriction_computed : rv_root evA 2 (RTable 1) ev_new_value = ev_new_value_restricted.
Proof. vm_compute. reflexivity. Qed.

Ltac notin_tac :=
  let a := fresh "a" in let Ha := fresh "Ha" in intros a Ha; cbn in Ha;
  repeat (destruct Ha as [<-|Ha]; [cbn; discriminate|]); destruct Ha.

Example ev_new_wt : wt_script evB ev_new_script (RTable 1) ev_new_value false 2%nat.
Proof.
  unfold ev_new_script.
  change [CSettings false 0 0; CStartBuffer 0 0 0; CString [104; 105];
          CTable [TInline 0 4 4 [7; 0; 0; 0]; TInline 3 8 8 [1; 2; 3; 4; 5; 6; 7; 8]];
          CTable [TInline 0 2 2 [9; 0]];
          CTable [TOffset 0 1%nat; TInline 2 1 1 [2]; TOffset 3 0%nat; TOffset 4 2%nat; TInline 5 1 1 [1]; TOffset 6 1%nat];
          CEndBuffer 3%nat]
    with (CSettings false 0 0 :: [] ++ CStartBuffer 0 0 0 ::
          [CString [104; 105];
           CTable [TInline 0 4 4 [7; 0; 0; 0]; TInline 3 8 8 [1; 2; 3; 4; 5; 6; 7; 8]];
           CTable [TInline 0 2 2 [9; 0]];
           CTable [TOffset 0 1%nat; TInline 2 1 1 [2]; TOffset 3 0%nat; TOffset 4 2%nat; TInline 5 1 1 [1]; TOffset 6 1%nat]]
          ++ [CEndBuffer 3%nat]).
  change false with (negb (Z.land 0 2 =? 0)).
  eapply (WT_top evB false 0 0 [] 0 0 0 _ 3%nat (RTable 1) ev_new_value 2%nat _ _).
  - left; reflexivity.
  - apply WTS_nil.
  - eapply WTS_cons; [apply WT_string|].
    eapply WTS_cons.
    { eapply (WT_table evB _ [TInline 0 4 4 [7; 0; 0; 0]; TInline 3 8 8 [1; 2; 3; 4; 5; 6; 7; 8]] 0%nat _
               [(0, VBytes [7; 0; 0; 0]); (3, VBytes [1; 2; 3; 4; 5; 6; 7; 8])] 0%nat).
      - repeat constructor; cbn; try lia; try (apply (p2 2); lia); try (apply (p2 3); lia).
      - cbn; lia.
      - vm_compute. discriminate.
      - reflexivity.
      - apply WFS_present; [eapply WF_scalar; [reflexivity | cbn; tauto]|].
        apply WFS_absent; [apply WF_absent; [notin_tac | exact I | reflexivity]|].
        apply WFS_absent; [apply WF_absent; [notin_tac | exact I | reflexivity]|].
        apply WFS_present; [eapply WF_scalar; [reflexivity | cbn; tauto]|].
        apply WFS_nil. }
    eapply WTS_cons.
    { eapply (WT_table evB _ [TInline 0 2 2 [9; 0]] 2%nat _ [(0, VBytes [9; 0])] 0%nat).
      - repeat constructor; cbn; try lia; try (apply (p2 1); lia).
      - cbn; lia.
      - vm_compute. discriminate.
      - reflexivity.
      - apply WFS_present; [eapply WF_scalar; [reflexivity | cbn; tauto]|]. apply WFS_nil. }
    eapply WTS_cons; [|apply WTS_nil].
    eapply (WT_table evB _ [TOffset 0 1%nat; TInline 2 1 1 [2]; TOffset 3 0%nat; TOffset 4 2%nat; TInline 5 1 1 [1]; TOffset 6 1%nat]
              1%nat _ [(0, ev_t0v); (3, VUnion 2 (VString [104; 105])); (4, VTable [(0, VBytes [9; 0])]); (6, VUnion 1 ev_t0v)] 1%nat).
    + repeat constructor; cbn; try lia; try (apply (p2 2); lia); try (apply (p2 0); lia).
    + cbn; lia.
    + vm_compute. discriminate.
    + reflexivity.
    + apply WFS_present; [eapply (WF_table _ _ _ _ _ 0%nat 1%nat); [reflexivity | cbn; tauto | reflexivity | lia]|].
      apply WFS_absent; [apply WF_absent; [notin_tac | exact I | reflexivity]|].
      apply WFS_present;
        [eapply (WF_union _ _ _ _ _ 0%nat 2 0%nat UString _ 0%nat);
           [reflexivity | lia | cbn; tauto | cbn; tauto | reflexivity | reflexivity | lia]|].
      apply WFS_present; [eapply (WF_table _ _ _ _ _ 2%nat 2%nat); [reflexivity | cbn; tauto | reflexivity | lia]|].
      apply WFS_present; [|apply WFS_nil].
      eapply (WF_union _ _ _ _ _ 0%nat 1 1%nat (UTable 0) _ 1%nat);
        [reflexivity | lia | cbn; tauto | cbn; tauto | reflexivity | reflexivity | lia].
  - reflexivity.
  - left; reflexivity.
  - unfold in_u32; lia.
  - lia.
Qed.

(* version 1 does NOT type this script (the union code 2 is not a member of version 1's union): the B-to-A direction
   cannot go through typing, it goes through the verifier's and the decoder's monotonicity *)

Definition ev_old_bytes : list Z :=
  match run init_state [] ex_script with Some (_, _, st) => buffer_bytes st | None => [] end.
Definition ev_new_bytes : list Z :=
  match run init_state [] ev_new_script with Some (_, _, st) => buffer_bytes st | None => [] end.

Example ev_new_runs : exists regs ems st,
  run init_state [] ev_new_script = Some (regs, ems, st) /\ small st /\ buffer_alignment st = 8 /\
  buffer_bytes st = ev_new_bytes /\ lenZ ev_new_bytes = 112.
Proof.
  destruct (run init_state [] ev_new_script) as [[[regs ems] st]|] eqn:E; [|vm_compute in E; discriminate].
  exists regs, ems, st. split; [reflexivity|].
  unfold ev_new_bytes. rewrite E.
  vm_compute in E. injection E as <- <- <-. vm_compute. repeat split; congruence.
Qed.

(* ------------------------------------------------------------------ why tightness is needed *)
(* A: table T { a:int }   B: table T { a:int; s:string }.  The script adds slot 1 with four bytes of inline data: over A
   it is well typed (slot 1 is no field of A, it is ignored), over B slot 1 is a string offset. *)
Definition ntA : schema := {| tables := [ [ {| fid := 0; frequired := false; fk := FScalar 4 4 |} ] ]; unions := [] |}.
Definition ntB : schema :=
  {| tables := [ [ {| fid := 0; frequired := false; fk := FScalar 4 4 |}; {| fid := 1; frequired := false; fk := FString |} ] ];
     unions := [] |}.
Definition nt_script : list cmd :=
  [ CSettings false 0 0; CStartBuffer 0 0 0;
    CTable [TInline 0 4 4 [1; 0; 0; 0]; TInline 1 4 4 [255; 255; 255; 127]];
    CEndBuffer 0%nat ].
Definition nt_bytes : list Z :=
  match run init_state [] nt_script with Some (_, _, st) => buffer_bytes st | None => [] end.

Example nt_extends : extends ntA ntB = true /\ ids_distinct ntB = true.
Proof. vm_compute. split; reflexivity. Qed.

Example nt_wt : wt_script ntA nt_script (RTable 0) (VTable [(0, VBytes [1; 0; 0; 0])]) false 1%nat.
Proof.
  unfold nt_script.
  change [CSettings false 0 0; CStartBuffer 0 0 0;
          CTable [TInline 0 4 4 [1; 0; 0; 0]; TInline 1 4 4 [255; 255; 255; 127]]; CEndBuffer 0%nat]
    with (CSettings false 0 0 :: [] ++ CStartBuffer 0 0 0 ::
          [CTable [TInline 0 4 4 [1; 0; 0; 0]; TInline 1 4 4 [255; 255; 255; 127]]] ++ [CEndBuffer 0%nat]).
  change false with (negb (Z.land 0 2 =? 0)).
  eapply (WT_top ntA false 0 0 [] 0 0 0 _ 0%nat (RTable 0) (VTable [(0, VBytes [1; 0; 0; 0])]) 1%nat _ _).
  - left; reflexivity.
  - apply WTS_nil.
  - eapply WTS_cons; [|apply WTS_nil].
    eapply (WT_table ntA _ [TInline 0 4 4 [1; 0; 0; 0]; TInline 1 4 4 [255; 255; 255; 127]] 0%nat _ [(0, VBytes [1; 0; 0; 0])] 0%nat).
    + repeat constructor; cbn; try lia; try (apply (p2 2); lia).
    + cbn; lia.
    + vm_compute. discriminate.
    + reflexivity.
    + apply WFS_present; [eapply WF_scalar; [reflexivity | cbn; tauto]|]. apply WFS_nil.
  - reflexivity.
  - left; reflexivity.
  - unfold in_u32; lia.
  - lia.
Qed.

Example nt_decodes : exists regs ems st,
  run init_state [] nt_script = Some (regs, ems, st) /\ small st /\ buffer_bytes st = nt_bytes /\
  decode_root 1 ntA (RTable 0) false nt_bytes = Some (VTable [(0, VBytes [1; 0; 0; 0])]) /\
  decode_root 1 ntB (RTable 0) false nt_bytes = None.
Proof.
  destruct (run init_state [] nt_script) as [[[regs ems] st]|] eqn:E; [|vm_compute in E; discriminate].
  exists regs, ems, st. split; [reflexivity|].
  unfold nt_bytes. rewrite E.
  vm_compute in E. injection E as <- <- <-. vm_compute. repeat split; congruence.
Qed.

(* ------------------------------------------------------------------ deprecation *)
(* version 2' = version 2 with T0.s (id 1, not required) deprecated: it is absent from the descriptor.  Version 1 and
   version 2' do not extend one another; version 2 (which keeps every field either has) extends both. *)
Definition evD : schema :=
  {| tables := [ [ {| fid := 0; frequired := false; fk := FScalar 4 4 |};
                   {| fid := 2; frequired := false; fk := FVector 2 2 2147483647 |};
                   {| fid := 3; frequired := false; fk := FScalar 8 8 |} ];
                 [ {| fid := 0; frequired := true; fk := FTable 0 |};
                   {| fid := 1; frequired := false; fk := FStringVec |};
                   {| fid := 3; frequired := false; fk := FUnion 0 |};
                   {| fid := 4; frequired := false; fk := FTable 2 |};
                   {| fid := 6; frequired := false; fk := FUnion 0 |} ];
                 [ {| fid := 0; frequired := false; fk := FScalar 2 2 |} ] ];
     unions := [ [ (1, UTable 0); (2, UString) ] ] |}.

Example ev_dep_extends :
  extends evD evB = true /\ extends evA evD = false /\ extends evD evA = false /\ tables_closed evD = true.
Proof. vm_compute. repeat split; reflexivity. Qed.

(* what version 2' reads of Builder/Example.v's value: the deprecated string is gone from both uses of the T0 table *)
Definition ev_old_value_deprecated : value :=
  VTable [ (0, VTable [ (0, VBytes [42; 0; 0; 0]); (2, VVec [[1; 0]; [2; 0]]) ]);
           (1, VOffVec [VString [97; 98]; VString [97; 98]]);
           (3, VUnion 1 (VTable [ (0, VBytes [42; 0; 0; 0]); (2, VVec [[1; 0]; [2; 0]]) ])) ].

Example ev_dep_restriction_computed : rv_root evD 2 (RTable 1) ex_value = ev_old_value_deprecated.
Proof. vm_compute. reflexivity. Qed.
