(* C02 (completeness direction), part 1: the translation between the two schema types, the relation between the
   format specification's memory and the verifier's buffer, and the leaf objects: every string / vector / struct the
   independent format specification Format/Spec.v decodes passes the corresponding check of Verifier/VerifierModel.v. *)
From Coq Require Import ZifyBool Znumtheory.
From Flatcc.Format Require Schema Spec.
From Flatcc.Verifier Require Import Schema VerifierModel VerifierProofsBase.
Local Open Scope Z_scope.
Ltac Zify.zify_post_hook ::= Z.div_mod_to_equations.

Module FS := Flatcc.Format.Schema.
Module Sp := Flatcc.Format.Spec.

(* ------------------------------------------------------------------ schema translation *)
Definition to_vkind (k : FS.fkind) : fkind :=
  match k with
  | FS.FScalar s a => FScalar s a
  | FS.FString => FString
  | FS.FVector es a mc => FVector es a mc
  | FS.FStringVec => FStringVec
  | FS.FTable t => FTable t
  | FS.FTableVec t => FTableVec t
  | FS.FUnion u => FUnion u
  | FS.FUnionVec u => FUnionVec u
  | FS.FNestedTable a t => FNestedTable a t
  | FS.FNestedStruct s a => FNestedStruct s a
  end.
Definition to_vfield (f : FS.field) : field :=
  {| fid := FS.fid f; freq := FS.frequired f; fk := to_vkind (FS.fk f) |}.
Definition to_vmember (m : FS.umember) : umember :=
  match m with FS.UTable t => UTable t | FS.UStruct s a => UStruct s a | FS.UString => UString end.
Definition to_vmembers (ms : list (Z * FS.umember)) : list (Z * umember) :=
  map (fun cm => (fst cm, to_vmember (snd cm))) ms.
Definition to_vschema (Sc : FS.schema) : schema :=
  {| tables := map (map to_vfield) (FS.tables Sc); unions := map to_vmembers (FS.unions Sc) |}.
Definition to_vroot (R : FS.root) : root :=
  match R with FS.RTable t => RTable t | FS.RStruct s a => RStruct s a end.

Lemma to_v_table_fields Sc t flds :
  FS.table_fields Sc t = Some flds -> table_fields (to_vschema Sc) t = map to_vfield flds.
Proof.
  unfold FS.table_fields, table_fields, to_vschema. cbn [tables].
  intros H. change (@nil field) with (map to_vfield []). rewrite map_nth.
  rewrite (nth_error_nth _ _ _ H). reflexivity.
Qed.

Lemma to_v_find ms c : find_member (to_vmembers ms) c = option_map to_vmember (FS.assocZ c ms).
Proof.
  induction ms as [|[k a] r IH]; [reflexivity|].
  cbn [to_vmembers map find_member FS.assocZ fst snd]. rewrite (Z.eqb_sym k c).
  destruct (c =? k); [reflexivity | exact IH].
Qed.

Lemma to_v_member Sc u c :
  find_member (union_members (to_vschema Sc) u) c = option_map to_vmember (FS.union_member Sc u c).
Proof.
  unfold FS.union_member, union_members, to_vschema. cbn [unions].
  change (@nil (Z * umember)) with (to_vmembers []). rewrite map_nth.
  destruct (nth_error (FS.unions Sc) u) as [ms|] eqn:E.
  - rewrite (nth_error_nth _ _ _ E). apply to_v_find.
  - rewrite nth_overflow by (apply nth_error_None; exact E). reflexivity.
Qed.

Lemma to_v_field_in Sc t flds f :
  schema_wf (to_vschema Sc) = true -> FS.table_fields Sc t = Some flds -> In f flds -> field_wf (to_vfield f) = true.
Proof.
  intros Hw Ht Hin. apply (schema_wf_field (to_vschema Sc) t); [exact Hw|].
  rewrite (to_v_table_fields _ _ _ Ht). apply in_map. exact Hin.
Qed.

(* ------------------------------------------------------------------ small tactics *)
Ltac bd H :=
  match type of H with
  | Sp.bind ?e _ = Some _ => let E := fresh "E" in destruct e eqn:E; [cbn [Sp.bind] in H | discriminate H]
  | (if ?b then _ else None) = Some _ => let E := fresh "E" in destruct b eqn:E; [| discriminate H]
  | (if ?b then None else _) = Some _ => let E := fresh "E" in destruct b eqn:E; [discriminate H |]
  end.

(* discharge the guard of a verifier check that holds *)
Ltac okif :=
  match goal with
  | |- (if ?c then _ else _) = VOk => let Hc := fresh "Hc" in assert (Hc : c = true) by lia; rewrite Hc; clear Hc
  end.
Ltac noif :=
  match goal with
  | |- (if ?c then _ else _) = VOk => let Hc := fresh "Hc" in assert (Hc : c = false) by lia; rewrite Hc; clear Hc
  end.

(* ------------------------------------------------------------------ memories *)
(* the specification's memory [m] is the window [o, o + e) of the verifier's buffer [b] *)
Definition mrel (m : Sp.mem) (b : buf) (o e : Z) : Prop :=
  0 <= o /\ 0 <= e /\ o + e <= blen b /\ forall a v, m a = Some v -> (o <= a < o + e) /\ bget b a = v.

(* alignment demanded by the specification relative to the origins [ds] gives what the verifier checks: alignment relative to
   the buffer start and (for table fields) of the absolute address *)
Definition ds_ok (addr o : Z) (ds : list Z) : Prop :=
  forall x al, 0 < al -> (al | 32768) -> Sp.aligned ds x al = true -> x mod al = 0 /\ (addr + o + x) mod al = 0.

Lemma d1 : (1 | 32768). Proof. exists 32768; reflexivity. Qed.
Lemma d2 : (2 | 32768). Proof. exists 16384; reflexivity. Qed.
Lemma d4 : (4 | 32768). Proof. exists 8192; reflexivity. Qed.

Lemma pow2_le_div a : pow2_le a 32768 = true -> 0 < a /\ (a | 32768) /\ (a | 4294967296).
Proof.
  intros H. destruct (pow2_le_spec a H) as [Hp Hd]. split; [exact Hp|]. split; [|exact Hd].
  unfold pow2_le in H. apply existsb_exists in H. destruct H as [p [Hin Hp']].
  apply filter_In in Hin. destruct Hin as [Hin _]. apply Z.eqb_eq in Hp'. subst p.
  simpl in Hin.
  repeat (destruct Hin as [<- | Hin]; [apply Z.mod_divide; [lia|reflexivity] |]).
  contradiction.
Qed.

(* a start that is as aligned as any element can need *)
Lemma ds_ok_abs addr : addr mod 32768 = 0 -> ds_ok addr 0 [0].
Proof.
  intros Haddr x al Hal Hdiv H. unfold Sp.aligned in H. cbn [forallb] in H.
  apply andb_true_iff in H. destruct H as [H0 _]. apply Z.eqb_eq in H0. rewrite Z.add_0_l in H0.
  split; [exact H0|]. rewrite Z.add_0_r.
  apply (abs_aligned al 32768 addr x Hal Hdiv); [apply mod0_divide; [lia | exact Haddr] | exact H0].
Qed.

Lemma ds_ok_top addr A : 0 < A -> addr mod A = 0 -> ds_ok addr 0 [0; A].
Proof.
  intros HA Haddr x al Hal _ H. unfold Sp.aligned in H. cbn [forallb] in H.
  apply andb_true_iff in H. destruct H as [H0 H]. apply andb_true_iff in H. destruct H as [H1 _].
  apply Z.eqb_eq in H0. apply Z.eqb_eq in H1. rewrite Z.add_0_l in H0. split; [exact H0|].
  rewrite Z.add_0_r.
  assert (HdA : (al | A)).
  { apply mod0_divide; [exact Hal|]. replace A with ((A + x) - x) by ring.
    rewrite Zminus_mod, H0, H1. reflexivity. }
  apply (abs_aligned al A addr x Hal HdA); [apply mod0_divide; assumption | exact H0].
Qed.

Lemma bytes_nth l : forall i v, nth_error l i = Some v -> nthZ l i = v.
Proof.
  induction l as [|x t IH]; intros [|i] v H; cbn in *; try discriminate.
  - congruence.
  - apply IH; exact H.
Qed.

Definition byte_list (l : list Z) : bool := forallb (fun x => (0 <=? x) && (x <? 256)) l.

Lemma mrel_of_list l len :
  byte_list l = true -> 0 <= len <= Z.of_nat (length l) ->
  mrel (Sp.restrict (Sp.mem_of_list l) 0 len) (of_list l) 0 len.
Proof.
  intros Hl Hlen. unfold mrel. cbn [blen of_list]. repeat split; try lia.
  - unfold Sp.restrict in H. destruct ((0 <=? a) && (a <? len)) eqn:E; [lia|discriminate].
  - unfold Sp.restrict in H. destruct ((0 <=? a) && (a <? len)) eqn:E; [lia|discriminate].
  - unfold Sp.restrict in H. destruct ((0 <=? a) && (a <? len)) eqn:E; [|discriminate].
    unfold Sp.mem_of_list in H. cbn [bget of_list].
    destruct (a <? 0) eqn:E0; [discriminate|].
    rewrite (bytes_nth _ _ _ H). apply u8_id.
    unfold byte_list in Hl. rewrite forallb_forall in Hl.
    apply nth_error_In in H. specialize (Hl _ H). unfold in_u8. lia.
Qed.

Section Mem.
Variables (m : Sp.mem) (b : buf) (o e : Z).
Hypothesis Hm : mrel m b o e.
Hypothesis Hb : wf_buf b.

Lemma m_at a v : m a = Some v -> o <= a < o + e /\ bget b a = v /\ 0 <= a /\ a < blen b /\ 0 <= v < 256.
Proof.
  destruct Hm as (Ho & He & Hl & H). intros E. destruct (H _ _ E) as [Hr Hv].
  destruct Hb as [_ Hbb]. pose proof (Hbb a). repeat split; try lia; exact Hv.
Qed.

Lemma m8 p v : m (o + p) = Some v -> r8 b o p = Some v /\ 0 <= p /\ p + 1 <= e /\ 0 <= v < 256.
Proof.
  intros E. destruct (m_at _ _ E) as (Hr & Hv & H0 & Hl & Hvr).
  unfold r8, rd8, inb. replace ((0 <=? o + p) && (o + p + 1 <=? blen b)) with true by lia.
  rewrite Hv. repeat split; lia.
Qed.

Lemma m16 p v : Sp.mrd16 m (o + p) = Some v -> r16 b o p = Some v /\ 0 <= p /\ p + 2 <= e /\ 0 <= v < 65536.
Proof.
  unfold Sp.mrd16. intros E. bd E. bd E. some_inj E.
  destruct (m_at _ _ E0) as (Hr0 & Hv0 & H00 & Hl0 & Hvr0).
  destruct (m_at _ _ E1) as (Hr1 & Hv1 & H01 & Hl1 & Hvr1).
  unfold r16, rd16, inb. replace ((0 <=? o + p) && (o + p + 2 <=? blen b)) with true by lia.
  rewrite Hv0, Hv1, E. repeat split; lia.
Qed.

Lemma m32 p v : Sp.mrd32 m (o + p) = Some v -> r32 b o p = Some v /\ 0 <= p /\ p + 4 <= e /\ 0 <= v < 4294967296.
Proof.
  unfold Sp.mrd32. intros E. bd E. bd E. bd E. bd E. some_inj E.
  destruct (m_at _ _ E0) as (Hr0 & Hv0 & H00 & Hl0 & Hvr0).
  destruct (m_at _ _ E1) as (Hr1 & Hv1 & H01 & Hl1 & Hvr1).
  destruct (m_at _ _ E2) as (Hr2 & Hv2 & H02 & Hl2 & Hvr2).
  destruct (m_at _ _ E3) as (Hr3 & Hv3 & H03 & Hl3 & Hvr3).
  unfold r32, rd32, inb. replace ((0 <=? o + p) && (o + p + 4 <=? blen b)) with true by lia.
  rewrite Hv0, Hv1, Hv2, Hv3, E. repeat split; lia.
Qed.

Lemma mbytes n : forall a l, Sp.mrdbytes m a n = Some l -> (0 < n)%nat -> o <= a /\ a + Z.of_nat n <= o + e.
Proof.
  induction n as [|k IH]; intros a l E Hn; [lia|].
  cbn [Sp.mrdbytes] in E. bd E. bd E.
  destruct (m_at _ _ E0) as (Hr0 & _).
  destruct k as [|k']; [lia|].
  destruct (IH _ _ E1 ltac:(lia)). lia.
Qed.

Lemma melems es : forall n a l, Sp.rd_elems m a es n = Some l -> (0 < es)%nat -> (0 < n)%nat ->
  o <= a /\ a + Z.of_nat n * Z.of_nat es <= o + e.
Proof.
  induction n as [|k IH]; intros a l E Hes Hn; [lia|].
  cbn [Sp.rd_elems] in E. bd E. bd E.
  destruct (mbytes _ _ _ E0 Hes) as [Ha Hae].
  destruct k as [|k']; [lia|].
  destruct (IH _ _ E1 Hes ltac:(lia)). lia.
Qed.

Lemma m_follow p t : Sp.follow m o p = Some t ->
  exists off, r32 b o p = Some off /\ 0 < off < 4294967296 /\ t = p + off /\ 0 <= p /\ p + 4 <= e.
Proof.
  unfold Sp.follow. intros E. bd E. bd E. some_inj E.
  destruct (m32 _ _ E0) as (Hr & Hp & Hpe & Hv). exists z. repeat split; try lia; exact Hr.
Qed.

(* ------------------------------------------------------------------ leaves *)
Variables (addr : Z) (ds : list Z).
Hypothesis Hds : ds_ok addr o ds.
Hypothesis He : e <= 2147483648.

Lemma header_ok pb off : 0 <= pb -> 0 < off -> pb + off + 4 <= e -> (pb + off) mod 4 = 0 -> check_header e pb off = true.
Proof.
  intros. unfold check_header. rewrite (u32_id (pb + off)) by (unfold in_u32; lia). lia.
Qed.

Lemma string_ok pb off v : 0 <= pb -> 0 < off ->
  Sp.dec_string m o ds (pb + off) = Some v -> verify_string b o e pb off = VOk.
Proof.
  intros Hpb Hoff E. unfold Sp.dec_string in E. bd E. bd E. bd E. bd E. bd E.
  destruct (Hds _ 4 ltac:(lia) d4 E0) as [Hal _].
  destruct (m32 _ _ E1) as (Hr & _ & Hpe & Hz).
  replace (o + (pb + off) + 4 + z) with (o + (pb + off + 4 + z)) in E3 by ring.
  destruct (m8 _ _ E3) as (Hr8 & _ & Hze & _).
  unfold verify_string. rewrite header_ok by lia.
  rewrite (u32_id (pb + off)) by (unfold in_u32; lia). rewrite Hr.
  rewrite (u32_id (pb + off + 4)) by (unfold in_u32; lia).
  rewrite (u32_id (e - (pb + off + 4))) by (unfold in_u32; lia).
  okif. rewrite Hr8. okif. reflexivity.
Qed.

Lemma vector_ok pb off es al mc v : 0 <= pb -> 0 < off -> 0 < es -> 0 < al -> (al | 32768) ->
  Sp.dec_vector m o ds es al mc (pb + off) = Some v -> verify_vector b o e pb off es al mc = VOk.
Proof.
  intros Hpb Hoff Hes Hal Hdv E. unfold Sp.dec_vector in E. bd E. bd E. bd E. bd E.
  apply andb_true_iff in E2. destruct E2 as [Hmc Hal2]. apply Z.leb_le in Hmc.
  destruct (Hds _ 4 ltac:(lia) d4 E0) as [Ha4 _].
  destruct (Hds _ al Hal Hdv Hal2) as [Haa _].
  destruct (m32 _ _ E1) as (Hr & _ & Hpe & Hz).
  unfold verify_vector. rewrite header_ok by lia.
  rewrite (u32_id (pb + off)) by (unfold in_u32; lia). rewrite Hr.
  rewrite (u32_id (pb + off + 4)) by (unfold in_u32; lia).
  rewrite (u32_id (e - (pb + off + 4))) by (unfold in_u32; lia).
  assert (Hrange : z * es <= e - (pb + off + 4)).
  { destruct (Z.eq_dec z 0) as [->|Hz0]; [lia|].
    destruct (melems _ _ _ _ E3 ltac:(lia) ltac:(lia)) as [_ H]. rewrite !Z2Nat.id in H by lia. lia. }
  assert (Hnn : 0 <= z * es) by (apply Z.mul_nonneg_nonneg; lia).
  rewrite (u32_id (z * es)) by (unfold in_u32; lia).
  destruct ((ENFORCE_ALIGNED_EMPTY_VECTORS =? 0) && (z =? 0)); okif; okif; okif; reflexivity.
Qed.

Lemma struct_ok pb off size al v : 0 <= pb -> 0 < off -> 0 < size -> 0 < al -> (al | 32768) ->
  Sp.dec_struct m o ds size al (pb + off) = Some v -> verify_struct e pb off size al = VOk.
Proof.
  intros Hpb Hoff Hsz Hal Hdv E. unfold Sp.dec_struct in E. bd E. bd E.
  destruct (Hds _ al Hal Hdv E0) as [Haa _].
  destruct (mbytes _ _ _ E1 ltac:(lia)) as [_ H]. rewrite Z2Nat.id in H by lia.
  unfold verify_struct.
  rewrite (u32_id (pb + off)) by (unfold in_u32; lia).
  rewrite (u32_id (pb + off + size)) by (unfold in_u32; lia).
  noif. okif. okif. okif. reflexivity.
Qed.

(* loops over offset vectors *)
Lemma vloop_ok (f : Z -> option Sp.value) body :
  (forall pb t v, 0 <= pb -> Sp.follow m o pb = Some t -> f t = Some v -> body pb = VOk) ->
  forall n p l, 0 <= p -> Sp.dec_offs f m o p n = Some l -> vloop n p body = VOk.
Proof.
  intros Hbody. induction n as [|k IH]; intros p l Hp E; [reflexivity|].
  cbn [Sp.dec_offs] in E. bd E. bd E. bd E. cbn [vloop].
  rewrite (Hbody _ _ _ Hp E0 E1).
  destruct (m_follow _ _ E0) as (off & _ & _ & _ & _ & Hpe).
  rewrite (u32_id (p + 4)) by (unfold in_u32; lia).
  apply (IH (p + 4) l0); [lia | exact E2].
Qed.

Lemma offs_range (f : Z -> option Sp.value) : forall n p l, Sp.dec_offs f m o p n = Some l -> (0 < n)%nat ->
  p + 4 * Z.of_nat n <= e.
Proof.
  induction n as [|k IH]; intros p l E Hn; [lia|].
  cbn [Sp.dec_offs] in E. bd E. bd E. bd E.
  destruct (m_follow _ _ E0) as (off & _ & _ & _ & _ & Hpe).
  destruct k as [|k']; [lia|]. specialize (IH _ _ E2 ltac:(lia)). lia.
Qed.

(* the vector-of-offsets header shared by string vectors, table vectors and union value vectors *)
Lemma offvec_header_ok pb off n : 0 <= pb -> 0 < off ->
  Sp.aligned ds (pb + off) 4 = true -> Sp.mrd32 m (o + (pb + off)) = Some n -> n <= Sp.MAX_OFFSET_COUNT ->
  (0 < n -> pb + off + 4 + 4 * n <= e) ->
  verify_vector b o e pb off 4 4 (COUNT_MAX 4) = VOk.
Proof.
  intros Hpb Hoff Hal E Hmax Hrange.
  destruct (Hds _ 4 ltac:(lia) d4 Hal) as [Ha4 _].
  destruct (m32 _ _ E) as (Hr & _ & Hpe & Hz).
  unfold verify_vector. rewrite header_ok by lia.
  rewrite (u32_id (pb + off)) by (unfold in_u32; lia). rewrite Hr.
  rewrite (u32_id (pb + off + 4)) by (unfold in_u32; lia).
  rewrite (u32_id (e - (pb + off + 4))) by (unfold in_u32; lia).
  unfold Sp.MAX_OFFSET_COUNT in Hmax.
  rewrite (u32_id (n * 4)) by (unfold in_u32; lia).
  change (COUNT_MAX 4) with 1073741823.
  destruct ((ENFORCE_ALIGNED_EMPTY_VECTORS =? 0) && (n =? 0)); okif; okif; okif; reflexivity.
Qed.

Lemma offvec_ok (f : Z -> option Sp.value) body pb off v : 0 <= pb -> 0 < off ->
  (forall pb t v, 0 <= pb -> Sp.follow m o pb = Some t -> f t = Some v -> body pb = VOk) ->
  Sp.dec_offvec f m o ds (pb + off) = Some v ->
  vbind (verify_vector b o e pb off 4 4 (COUNT_MAX 4))
    (match r32 b o (u32 (pb + off)) with
     | None => VOob
     | Some n => vloop (Z.to_nat n) (u32 (u32 (pb + off) + 4)) body
     end) = VOk.
Proof.
  intros Hpb Hoff Hbody E. unfold Sp.dec_offvec in E. bd E. bd E. bd E. bd E.
  apply Z.leb_le in E2.
  destruct (m32 _ _ E1) as (Hr & _ & Hpe & Hz).
  rewrite (offvec_header_ok pb off z Hpb Hoff E0 E1 E2).
  2:{ intros Hz0. pose proof (offs_range _ _ _ _ E3 ltac:(lia)) as H. rewrite Z2Nat.id in H by lia. lia. }
  rewrite (u32_id (pb + off)) by (unfold in_u32; lia). rewrite Hr.
  rewrite (u32_id (pb + off + 4)) by (unfold in_u32; lia).
  eapply (vloop_ok f body Hbody _ (pb + off + 4)); [lia | exact E3].
Qed.

Lemma string_vector_ok pb off v : 0 <= pb -> 0 < off ->
  Sp.dec_offvec (Sp.dec_string m o ds) m o ds (pb + off) = Some v -> verify_string_vector b o e pb off = VOk.
Proof.
  intros Hpb Hoff E. unfold verify_string_vector.
  apply (offvec_ok (Sp.dec_string m o ds) _ pb off v Hpb Hoff); [|exact E].
  intros p t v' Hp Hf Hd. destruct (m_follow _ _ Hf) as (off' & Hr & Hoff' & -> & _). rewrite Hr.
  apply (string_ok p off' v' Hp ltac:(lia) Hd).
Qed.

End Mem.
