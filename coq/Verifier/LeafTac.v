(* T5 (translated leaves): shared definitions and the generic proof tactic [leaf_auto] used to prove that a leaf
   function TRANSLATED from the C source (Flatcc.Generated.Leaf_*.v, translators/cleaf_to_coq.py) equals its hand-written
   model.  Nothing here depends on generated code.

   leaf_auto: (1) range hypotheses unfolded, named integer constants unfolded to their literals; (2) wrap removal:
   x mod M -> x where lia shows 0 <= x < M, innermost first, each remaining wrap tried once; (3) masks: Z.land x m ->
   x mod (m + 1) for a closed m = 2^k - 1, Z.land x (a - 1) -> x mod a under [pow2_16 a]; any other mask is handled at the
   leaves of the case analysis by the 16 cases of a; (4) case analysis driven by the HEAD of the goal (the outermost
   condition or read that blocks reduction, on either side), closed conditions computed, every new branch pruned with lia;
   reads at provably equal positions are identified before they are destructed; (5) reflexivity / lia at the leaves.
   No step names a particular leaf or check. *)
From Flatcc.Verifier Require Import VerifierModel.
From Coq Require Import ZifyBool.
Local Open Scope Z_scope.
Ltac Zify.zify_post_hook ::= Z.div_mod_to_equations.

(* an int result r reads as [vres_of (Some r)]: 0 is VOk, anything else VErr r; None (a read outside the buffer) is VOob *)
Definition vres_of (r : option Z) : vres :=
  match r with None => VOob | Some c => if c =? 0 then VOk else VErr c end.

(* `uint16_t align` arguments are powers of two up to 32768 *)
Definition pow2_16 (a : Z) : Prop :=
  In a [1; 2; 4; 8; 16; 32; 64; 128; 256; 512; 1024; 2048; 4096; 8192; 16384; 32768].

Definition in_s32 (x : Z) : Prop := -2147483648 <= x < 2147483648.

(* What the call sites establish before a table-descriptor leaf runs, in the C and in the model alike:
   verify_table fills the descriptor only after it has checked the table header (position > 0, 4-aligned, header inside
   the buffer), the vtable position (even, below 2^31, header inside the buffer), the vtable size (even, >= 4, vtable
   inside the buffer) and the table size (inside the buffer); vsize and tsize are 16-bit words read from the buffer.
   LeafInv.v proves that the model's verify_table hands only such descriptors to a table verifier.  Stated as a
   bool so that the witness search can filter its grid with it. *)
Definition td_invb (d : td) : bool :=
  (0 <=? t_end d) && (t_end d <? 4294967296) &&
  (0 <? t_table d) && (t_table d mod 4 =? 0) && (t_table d + 4 <=? t_end d) &&
  (0 <=? t_vtable d) && (t_vtable d <? 2147483648) && (t_vtable d mod 2 =? 0) && (t_vtable d + 2 <=? t_end d) &&
  (4 <=? t_vsize d) && (t_vsize d <? 65536) && (t_vsize d mod 2 =? 0) && (t_vtable d + t_vsize d <=? t_end d) &&
  (0 <=? t_tsize d) && (t_tsize d <? 65536) && (t_tsize d <=? t_end d - t_table d).
Definition td_inv (d : td) : Prop := td_invb d = true.

(* field ids the schema compiler can emit (Schema.field_wf: 0 <= fid < 32764, and fid >= 1 for a union whose type
   field is looked up at fid - 1); in this range (id + 2) * sizeof(voffset_t) does not wrap in 16 bits *)
Definition id_okb (id : Z) : bool := (0 <=? id) && (id <? 32764).
Definition id_ok (id : Z) : Prop := id_okb id = true.

Lemma land_lit x m : (0 <=? m) && (m + 1 =? 2 ^ Z.log2 (m + 1)) = true -> Z.land x m = x mod (m + 1).
Proof.
  intros H. apply andb_true_iff in H. destruct H as [H0 H1]. apply Z.leb_le in H0. apply Z.eqb_eq in H1.
  rewrite H1. rewrite <- Z.land_ones by apply Z.log2_nonneg. f_equal. rewrite Z.ones_equiv. lia.
Qed.

Ltac has_var t := match t with context [?v] => is_var v end.
Ltac no_var t := tryif has_var t then fail else idtac.

Ltac land_step :=
  match goal with
  | |- context [Z.land ?x ?m] =>
      no_var m;
      rewrite (land_lit x m) by (vm_compute; reflexivity);
      let v := eval vm_compute in (m + 1) in change (m + 1) with v
  | H : context [Z.land ?x ?m] |- _ =>
      no_var m;
      rewrite (land_lit x m) in H by (vm_compute; reflexivity);
      let v := eval vm_compute in (m + 1) in change (m + 1) with v in H
  end.

Ltac inner_cond c :=
  match c with
  | context [if ?c2 then _ else _] =>
      lazymatch c2 with context [if _ then _ else _] => fail | _ => constr:(c2) end
  | _ => constr:(c)
  end.

(* the term whose value blocks the reduction of t at its head *)
Ltac blocker t :=
  lazymatch t with
  | vres_of ?x => blocker x
  | fst ?x => blocker x
  | snd ?x => blocker x
  | Some ?x => blocker x
  | (?a, ?b) => match a with _ => blocker a | _ => blocker b end
  | ?a = ?b => match a with _ => blocker a | _ => blocker b end
  | ?a /\ ?b => match a with _ => blocker a | _ => blocker b end
  | _ -> ?b => blocker b
  | match ?x with _ => _ end =>
      lazymatch x with
      | match _ with _ => _ end => blocker x
      | _ => lazymatch type of x with bool => inner_cond x | _ => constr:(x) end
      end
  end.

Ltac unify_reads rd b X :=
  repeat match goal with
  | |- context [rd b ?Y] => lazymatch Y with X => fail | _ => idtac end; replace Y with X by lia
  end.

Ltac destruct_blocker x :=
  lazymatch type of x with
  | bool => destruct x eqn:?
  | _ =>
    let v := fresh "v" in let E := fresh "E" in
    lazymatch x with
    | rd32 ?b ?X => unify_reads rd32 b X; destruct (rd32 b X) as [v|] eqn:E;
        [ try match goal with Hwf : wf_buf b |- _ => pose proof (rd32_range b X v Hwf E) end | ]
    | rd16 ?b ?X => unify_reads rd16 b X; destruct (rd16 b X) as [v|] eqn:E;
        [ try match goal with Hwf : wf_buf b |- _ => pose proof (rd16_range b X v Hwf E) end | ]
    | rd8 ?b ?X => unify_reads rd8 b X; destruct (rd8 b X) as [v|] eqn:E;
        [ try match goal with Hwf : wf_buf b |- _ => pose proof (rd8_range b X v Hwf E) end | ]
    end
  end.

Ltac step_side t :=
  let x := blocker t in
  tryif has_var x then (destruct_blocker x; try (exfalso; lia))
  else (let v := eval vm_compute in x in change x with v).

Ltac split_any_if :=
  match goal with
  | |- context [if ?c then _ else _] =>
      lazymatch c with context [if _ then _ else _] => fail | _ => idtac end;
      destruct c eqn:?; try (exfalso; lia)
  end.

Ltac step := first [ match goal with |- ?G => step_side G end | split_any_if ].

Ltac unfold_Z_consts :=
  repeat match goal with
  | |- context [?c] => is_const c; lazymatch type of c with Z => idtac end;
        let v := eval cbv delta [c] in c in
        lazymatch v with Z0 => idtac | Zpos _ => idtac | Zneg _ => idtac end; change c with v
  end.

Ltac finish_pre :=
  repeat match goal with
         | |- _ /\ _ => split
         | |- _ -> _ => intro
         | |- (_ :: _) = (_ :: _) => f_equal
         | |- (_, _) = (_, _) => f_equal
         | |- Some _ = Some _ => f_equal
         | |- ?f _ = ?f _ => is_constructor f; f_equal
         | |- Z.b2z _ = Z.b2z _ => f_equal
         end.

Ltac finish0 :=
  finish_pre;
  first [ reflexivity | lazymatch goal with |- @eq Z _ _ => lia | |- @eq bool _ _ => lia end | exfalso; lia ].

Ltac finish :=
  finish_pre;
  first [ reflexivity
        | lazymatch goal with |- @eq Z _ _ => lia | |- @eq bool _ _ => lia end
        | match goal with H : pow2_16 ?a |- _ =>
            unfold pow2_16 in H; cbn [In] in H;
            repeat (destruct H as [H|H]; [subst a; repeat land_step; finish0 |]); contradiction
          end
        | exfalso; lia ].

Lemma pow2_16_bound a : pow2_16 a -> 1 <= a <= 32768.
Proof. unfold pow2_16. cbn [In]. intros H. repeat (destruct H as [H|H]; [subst a; lia|]). contradiction. Qed.

Lemma land_pow2 x a : pow2_16 a -> Z.land x (a - 1) = x mod a.
Proof.
  unfold pow2_16. cbn [In]. intros H.
  repeat (destruct H as [H|H]; [subst a; rewrite land_lit by (vm_compute; reflexivity); reflexivity|]). contradiction.
Qed.

(* wrap removal: x mod M -> x where lia shows 0 <= x < M (innermost first); the wraps that stay are
   parked as [kmod] (with their bounds) so that they are tried once only, and restored at the end *)
Definition kmod := Z.modulo.
Lemma kmod_bound x M : 0 < M -> 0 <= kmod x M < M.
Proof. intros. apply Z.mod_pos_bound. assumption. Qed.

Ltac is_Zlit m := lazymatch m with Zpos ?p => no_var p end.

Ltac unwrap_step :=
  match goal with
  | |- context [?x mod ?M] =>
      is_Zlit M;
      lazymatch x with context [_ mod _] => fail | _ => idtac end;
      first [ rewrite (Z.mod_small x M) by lia
            | change (x mod M) with (kmod x M);
              lazymatch goal with
              | _ : 0 <= kmod x M < M |- _ => idtac
              | _ => pose proof (kmod_bound x M eq_refl)
              end ]
  end.

Ltac unwrap := repeat unwrap_step; unfold kmod in *.

(* a signed char / short / int read back as unsigned *)
Lemma u8_s8 x : u8 (s8 x) = u8 x.
Proof. unfold s8, u8. destruct (x mod 256 <? 128); lia. Qed.
Lemma u16_s16 x : u16 (s16 x) = u16 x.
Proof. unfold s16, u16. destruct (x mod 65536 <? 32768); lia. Qed.
Lemma u32_s32 x : u32 (s32 x) = u32 x.
Proof. unfold s32, u32. destruct (x mod 4294967296 <? 2147483648); lia. Qed.

(* shifts by a literal count: x << n = x * 2^n, x >> n = x / 2^n (the translator only emits literal counts below the width) *)
Ltac shift_norm :=
  repeat match goal with
  | |- context [Z.shiftl ?x ?n] => is_Zlit n; rewrite (Z.shiftl_mul_pow2 x n) by lia;
        let v := eval vm_compute in (2 ^ n) in change (2 ^ n) with v
  | |- context [Z.shiftr ?x ?n] => is_Zlit n; rewrite (Z.shiftr_div_pow2 x n) by lia;
        let v := eval vm_compute in (2 ^ n) in change (2 ^ n) with v
  end.

(* literal factors to the right (c * x -> x * c): syntactically equal wraps are one atom for lia, different ones two *)
Ltac mul_norm :=
  repeat match goal with
  | |- context [?c * ?x] => is_Zlit c; tryif is_Zlit x then fail else rewrite (Z.mul_comm c x)
  end.

Ltac leaf_auto :=
  repeat match goal with H : _ /\ _ |- _ => destruct H end;
  unfold td_inv, td_invb, id_ok, id_okb in *;
  repeat match goal with H : _ && _ = true |- _ => apply andb_prop in H; destruct H end;
  repeat match goal with
         | H : (_ <=? _) = true |- _ => apply Z.leb_le in H
         | H : (_ <? _) = true |- _ => apply Z.ltb_lt in H
         | H : (_ =? _) = true |- _ => apply Z.eqb_eq in H
         end;
  unfold in_u8, in_u16, in_u32, in_u64 in *;
  try match goal with H : pow2_16 ?a |- _ => pose proof (pow2_16_bound a H) end;
  unfold_Z_consts; cbv beta iota zeta; shift_norm; mul_norm; unwrap;
  repeat match goal with H : pow2_16 ?a |- context [Z.land ?x (?a - 1)] => rewrite (land_pow2 x a H) end;
  unwrap;
  repeat first [ progress cbv beta iota zeta | progress cbn [fst snd] | progress shift_norm | land_step | step ];
  finish.



