(* T5: the invariants under which the table-descriptor leaves are compared ([td_inv], [id_ok] of LeafTac.v) are the
   ones the call sites establish - here for the MODEL (the C establishes the same ones with the same tests, which the
   C01 differential harness exercises): verify_table hands a descriptor to a table verifier only after the checks that
   make it [td_inv], and the interpreter looks up only ids of a well-formed schema.  Nothing generated is imported. *)
From Flatcc.Verifier Require Import VerifierModel LeafTac.
From Coq Require Import ZifyBool.
Local Open Scope Z_scope.
Ltac Zify.zify_post_hook ::= Z.div_mod_to_equations.

(* verify_table_with either decides without calling the table verifier, or its result is the table verifier's result
   on one descriptor, and that descriptor satisfies td_inv (and carries the buffer position, end and ttl it was given) *)
Lemma verify_table_with_td_inv b o e base offset ttl :
  wf_buf b -> in_u32 e -> in_u32 base -> in_u32 offset ->
  (exists r, forall tvf, verify_table_with b tvf o e base offset ttl = r) \/
  (exists d, td_inv d /\ t_o d = o /\ t_end d = e /\ t_ttl d = ttl - 1 /\
             forall tvf, verify_table_with b tvf o e base offset ttl = tvf d).
Proof.
  intros Hwf He Hb Ho. unfold in_u32 in *. unfold verify_table_with.
  destruct (0 <? ttl - 1) eqn:Httl; [|left; eexists; intros; reflexivity].
  destruct (check_header e base offset) eqn:Hch; [|left; eexists; intros; reflexivity].
  set (table := u32 (base + offset)) in *.
  destruct (r32 b o table) as [so|] eqn:Eso; [|left; eexists; intros; reflexivity].
  set (vbase := u32 (table - so)) in *.
  destruct ((vbase <? 2147483648) && (vbase mod 2 =? 0)) eqn:Hvb; [|left; eexists; intros; reflexivity].
  destruct (vbase + 2 <=? e) eqn:Hvh; [|left; eexists; intros; reflexivity].
  destruct (r16 b o vbase) as [vsize|] eqn:Evs; [|left; eexists; intros; reflexivity].
  destruct ((u32 (vbase + vsize) <=? e) && (vsize mod 2 =? 0)) eqn:Hve; [|left; eexists; intros; reflexivity].
  destruct (4 <=? vsize) eqn:Hv4; [|left; eexists; intros; reflexivity].
  destruct (r16 b o (vbase + 2)) as [tsize|] eqn:Ets; [|left; eexists; intros; reflexivity].
  destruct (tsize <=? u32 (e - table)) eqn:Hts; [|left; eexists; intros; reflexivity].
  right. exists {| t_o := o; t_end := e; t_ttl := ttl - 1; t_vtable := vbase; t_table := table; t_tsize := tsize; t_vsize := vsize |}.
  split; [|split; [reflexivity|split; [reflexivity|split; [reflexivity|intros; reflexivity]]]].
  unfold td_inv, td_invb. cbn [t_end t_table t_vtable t_vsize t_tsize].
  pose proof (rd16_range b _ _ Hwf Evs) as Rvs. pose proof (rd16_range b _ _ Hwf Ets) as Rts.
  unfold check_header in Hch. fold table in Hch.
  assert (Htab : 0 <= table < 4294967296) by (apply u32_range).
  assert (Hvbr : 0 <= vbase < 4294967296) by (apply u32_range).
  unfold u32 in *. lia.
Qed.

(* the ids the interpreter looks up: fid f, and fid f - 1 for the type field of a union (vector) *)
Lemma field_wf_id_ok f : field_wf f = true ->
  id_ok (fid f) /\ match fk f with FUnion _ | FUnionVec _ => id_ok (fid f - 1) | _ => True end.
Proof.
  unfold field_wf, id_ok, id_okb. intros H.
  destruct (fk f); split; try exact I; lia.
Qed.
