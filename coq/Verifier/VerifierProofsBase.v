(* C01 proofs, part 1: definitions used by the theorem statements (alignment certificates, root hypotheses),
   the generic "post-condition" combinators over verifier results, integer-wrap facts and reader leaf lemmas. *)
From Flatcc.Verifier Require Export Schema VerifierModel ReaderModel.
From Coq Require Import ZifyBool Znumtheory.
Local Open Scope Z_scope.
Ltac Zify.zify_post_hook ::= Z.div_mod_to_equations.

(* ------------------------------------------------------------------------------------------------
   Alignment certificate.  Vectors, union-member structs and nested struct roots are alignment-checked by
   the verifier RELATIVE to the start of the buffer being verified; a nested buffer starts wherever the
   containing [ubyte] vector puts it.  [ra t] is the alignment the start of a buffer must have for table [t]
   to be walked safely; [ra_ok] checks that the assignment is closed under the schema's references. *)
Definition divides_b (a m : Z) : bool := (0 <? a) && (m mod a =? 0).

Definition member_ra_ok (ra : nat -> Z) (A : Z) (cm : Z * umember) : bool :=
  match snd cm with
  | UTable t' => divides_b (ra t') A
  | UStruct _ al => divides_b al A
  | UString => true
  end.

Definition field_ra_ok (S : schema) (ra : nat -> Z) (A : Z) (f : field) : bool :=
  match fk f with
  | FVector _ al _ => divides_b al A
  | FTable t' | FTableVec t' => divides_b (ra t') A
  | FUnion u | FUnionVec u => forallb (member_ra_ok ra A) (union_members S u)
  | FNestedStruct _ al => divides_b al A
  (* the nested buffer start is 4-aligned (header check) and aligned to [al] when the outer start is *)
  | FNestedTable al t' => divides_b (ra t') 4 || (divides_b al A && divides_b (ra t') al)
  | _ => true
  end.

Definition ra_ok (S : schema) (ra : nat -> Z) : bool :=
  forallb (fun t => forallb (field_ra_ok S ra (ra t)) (table_fields S t)) (seq 0 (length (tables S))).

Definition root_wf (r : root) : Prop :=
  match r with
  | RTable _ => True
  | RStruct size align => 0 <= size < 4294967296 /\ 0 < align
  end.

Definition root_aligned (ra : nat -> Z) (addr : Z) (r : root) : Prop :=
  match r with
  | RTable t => (ra t | addr)
  | RStruct _ align => (align | addr)
  end.

(* the largest buffer for which acceptance implies a safe walk: 2^31 + 3 bytes *)
Definition SOUND_MAX_SIZE : Z := 2147483651.

(* ------------------------------------------------------------------------------------------------
   post T r P: the verifier result r is either VOk and P holds, or a non-OK result tolerated by T. *)
Definition post (T : vres -> Prop) (r : vres) (P : Prop) : Prop := (r = VOk /\ P) \/ (r <> VOk /\ T r).

Section Post.
Variable T : vres -> Prop.
Hypothesis T_err : forall c, T (VErr c).

Lemma post_err c P : post T (VErr c) P.
Proof. right. split; [discriminate|apply T_err]. Qed.

Lemma post_ok (P : Prop) : P -> post T VOk P.
Proof. left. auto. Qed.

Lemma post_weaken r (P P' : Prop) : post T r P -> (P -> P') -> post T r P'.
Proof. intros [[E H]|H] HP; [left|right]; auto. Qed.

Lemma post_bind r k (P1 P : Prop) : post T r P1 -> (P1 -> post T k P) -> post T (vbind r k) P.
Proof.
  intros [[E H]|[Hn Ht]] Hk.
  - subst r. auto.
  - right. destruct r; try congruence; split; auto; discriminate.
Qed.

Lemma post_if (c : bool) code k P : (c = true -> post T k P) -> post T (if c then k else VErr code) P.
Proof. destruct c; intros H; [auto|apply post_err]. Qed.

Lemma post_if_neg (c : bool) code k P : (c = false -> post T k P) -> post T (if c then VErr code else k) P.
Proof. destruct c; intros H; [apply post_err|auto]. Qed.
End Post.

(* ------------------------------------------------------------------------------------------------
   arithmetic *)
Lemma check_header_spec e base off :
  0 <= base -> in_u32 off -> check_header e base off = true ->
  u32 (base + off) = base + off /\ 0 < off /\ base + off + 4 <= e /\ (base + off) mod 4 = 0.
Proof.
  unfold check_header, in_u32. intros Hb Ho H.
  apply andb_true_iff in H. destruct H as [H H3]. apply andb_true_iff in H. destruct H as [H1 H2].
  apply Z.ltb_lt in H1. apply Z.leb_le in H2. apply Z.eqb_eq in H3.
  assert (E: u32 (base + off) = base + off) by (unfold u32 in *; lia).
  rewrite E in *. lia.
Qed.

Lemma pow2_le_spec a : pow2_le a 32768 = true -> 0 < a /\ (a | 4294967296).
Proof.
  unfold pow2_le. intros H. apply existsb_exists in H. destruct H as [p [Hin Hp]].
  apply filter_In in Hin. destruct Hin as [Hin _]. apply Z.eqb_eq in Hp. subst p.
  simpl in Hin.
  repeat (destruct Hin as [<- | Hin]; [split; [lia | apply Z.mod_divide; [lia|reflexivity]] |]).
  contradiction.
Qed.

Lemma u32_mod a x : 0 < a -> (a | 4294967296) -> u32 x mod a = x mod a.
Proof. intros Ha Hd. unfold u32. symmetry. apply Zmod_div_mod; [lia|lia|assumption]. Qed.

Lemma mod_u32_inner a x y : 0 < a -> (a | 4294967296) -> (x + u32 y) mod a = (x + y) mod a.
Proof.
  intros Ha Hd. rewrite (Z.add_mod x (u32 y)) by lia. rewrite u32_mod by assumption.
  rewrite <- Z.add_mod by lia. reflexivity.
Qed.

Lemma divides_b_spec a m : divides_b a m = true -> 0 < a /\ (a | m).
Proof.
  unfold divides_b. intros H. apply andb_true_iff in H. destruct H as [H1 H2].
  apply Z.ltb_lt in H1. apply Z.eqb_eq in H2. split; [lia|]. apply Z.mod_divide; [lia|assumption].
Qed.

Lemma divide_mod0 a x : 0 < a -> (a | x) -> x mod a = 0.
Proof. intros Ha H. apply Z.mod_divide; [lia|assumption]. Qed.

Lemma mod0_divide a x : 0 < a -> x mod a = 0 -> (a | x).
Proof. intros Ha H. apply Z.mod_divide in H; [assumption|lia]. Qed.

(* absolute alignment from alignment of the start and of the relative position *)
Lemma abs_aligned al A start x :
  0 < al -> (al | A) -> (A | start) -> x mod al = 0 -> (start + x) mod al = 0.
Proof.
  intros Ha H1 H2 Hx. apply divide_mod0; [assumption|]. apply Z.divide_add_r.
  - eapply Z.divide_trans; eassumption.
  - apply mod0_divide; assumption.
Qed.

Lemma mod1 x : x mod 1 = 0.
Proof. apply Z.mod_1_r. Qed.

Lemma s32_vbase table so :
  0 <= table < 2147483648 -> in_u32 so -> u32 (table - so) < 2147483648 -> table - s32 so = u32 (table - so).
Proof.
  unfold in_u32, s32. intros Ht Hs Hv. rewrite (u32_id so) by exact Hs.
  destruct (so <? 2147483648) eqn:E; unfold u32 in *; lia.
Qed.

(* ------------------------------------------------------------------------------------------------
   reads *)
Lemma rd32_in b i : wf_buf b -> 0 <= i -> i + 4 <= blen b -> exists v, rd32 b i = Some v /\ in_u32 v.
Proof.
  intros Hwf H1 H2. assert (E: inb b i 4 = true) by (apply inb_true; lia).
  destruct (rd32 b i) eqn:R.
  - eexists; split; [reflexivity|]. eapply rd32_range; eassumption.
  - unfold rd32 in R. rewrite E in R. discriminate.
Qed.

Lemma rd16_in b i : wf_buf b -> 0 <= i -> i + 2 <= blen b -> exists v, rd16 b i = Some v /\ 0 <= v < 65536.
Proof.
  intros Hwf H1 H2. assert (E: inb b i 2 = true) by (apply inb_true; lia).
  destruct (rd16 b i) eqn:R.
  - eexists; split; [reflexivity|]. eapply rd16_range; eassumption.
  - unfold rd16 in R. rewrite E in R. discriminate.
Qed.

Lemma rd8_in b i : wf_buf b -> 0 <= i -> i + 1 <= blen b -> exists v, rd8 b i = Some v /\ 0 <= v < 256.
Proof.
  intros Hwf H1 H2. assert (E: inb b i 1 = true) by (apply inb_true; lia).
  destruct (rd8 b i) eqn:R.
  - eexists; split; [reflexivity|]. eapply rd8_range; eassumption.
  - unfold rd8 in R. rewrite E in R. discriminate.
Qed.

Lemma g32_eq b p v : rd32 b p = Some v -> g32 b p = v.
Proof. unfold g32. intros ->. reflexivity. Qed.
Lemma g16_eq b p v : rd16 b p = Some v -> g16 b p = v.
Proof. unfold g16. intros ->. reflexivity. Qed.
Lemma g8_eq b p v : rd8 b p = Some v -> g8 b p = v.
Proof. unfold g8. intros ->. reflexivity. Qed.

Lemma need_ok_intro b addr p w al :
  0 <= p -> p + w <= blen b -> (addr + p) mod al = 0 -> need_ok b addr p w al = true.
Proof.
  intros H1 H2 H3. unfold need_ok. rewrite H3. rewrite Z.eqb_refl.
  apply Z.leb_le in H1. apply Z.leb_le in H2. rewrite H1, H2. reflexivity.
Qed.

(* ------------------------------------------------------------------------------------------------
   reader leaves *)
Lemma walk_string_ok b addr q n :
  rd32 b q = Some n -> 0 <= q -> 0 <= n -> q + 4 + n + 1 <= blen b -> (addr + q) mod 4 = 0 ->
  walk_string b addr q = WOk.
Proof.
  intros R H1 H2 H3 H4. unfold walk_string. rewrite (g32_eq _ _ _ R).
  rewrite need_ok_intro by (assumption || lia).
  rewrite need_ok_intro; [reflexivity|lia|lia|apply mod1].
Qed.

Lemma walk_vector_ok b addr q n esize align :
  rd32 b q = Some n -> 0 <= q -> 0 <= n * esize -> q + 4 + n * esize <= blen b -> (addr + q) mod 4 = 0 ->
  (n * esize <> 0 -> (addr + (q + 4)) mod align = 0) ->
  walk_vector b addr q esize align = WOk.
Proof.
  intros R H1 H2 H3 H4 H5. unfold walk_vector. rewrite (g32_eq _ _ _ R).
  rewrite need_ok_intro by (assumption || lia).
  destruct (n * esize =? 0) eqn:E; [reflexivity|]. apply Z.eqb_neq in E.
  rewrite need_ok_intro; [reflexivity|lia|lia|auto].
Qed.

Lemma wloop_ok : forall n slot body,
  (forall i, 0 <= i < Z.of_nat n -> body (slot + 4 * i) = WOk) -> wloop n slot body = WOk.
Proof.
  induction n; intros slot body H; [reflexivity|].
  cbn [wloop]. replace (body slot) with WOk.
  - apply IHn. intros i Hi. replace (slot + 4 + 4 * i) with (slot + 4 * (i + 1)) by lia. apply H. lia.
  - symmetry. replace slot with (slot + 4 * 0) by lia. apply H. lia.
Qed.

(* vloop: per-slot post-conditions, no wrap of the slot position below [lim] *)
Lemma vloop_post (T : vres -> Prop) (T_err : forall c, T (VErr c)) (PW : Z -> Prop) body lim :
  lim < 4294967296 ->
  (forall bi, 0 <= bi -> bi + 4 <= lim -> bi mod 4 = 0 -> post T (body bi) (PW bi)) ->
  forall n base, 0 <= base -> base mod 4 = 0 -> base + 4 * Z.of_nat n <= lim ->
  post T (vloop n base body) (forall i, 0 <= i < Z.of_nat n -> PW (base + 4 * i)).
Proof.
  intros Hlim Hbody. induction n; intros base H0 Hm Hl.
  - apply post_ok. intros i Hi. lia.
  - cbn [vloop]. eapply post_bind.
    + apply (Hbody base); lia.
    + intros HP. rewrite u32_add_nowrap by lia.
      eapply post_weaken. { apply IHn; lia. }
      intros Hrest i Hi. destruct (Z.eq_dec i 0) as [->|Hne].
      * replace (base + 4 * 0) with base by lia. exact HP.
      * replace (base + 4 * i) with (base + 4 + 4 * (i - 1)) by lia. apply Hrest. lia.
Qed.

(* ------------------------------------------------------------------------------------------------
   schema facts *)
Lemma schema_wf_field S t f : schema_wf S = true -> In f (table_fields S t) -> field_wf f = true.
Proof.
  unfold schema_wf, table_fields. intros H Hin. apply andb_true_iff in H. destruct H as [H _].
  rewrite forallb_forall in H.
  destruct (Nat.lt_ge_cases t (length (tables S))) as [Hlt|Hge].
  - specialize (H (nth t (tables S) []) (nth_In _ _ Hlt)). rewrite forallb_forall in H. auto.
  - rewrite nth_overflow in Hin by assumption. contradiction.
Qed.

Lemma ra_ok_field S ra t f : ra_ok S ra = true -> In f (table_fields S t) -> field_ra_ok S ra (ra t) f = true.
Proof.
  unfold ra_ok. intros H Hin. rewrite forallb_forall in H.
  destruct (Nat.lt_ge_cases t (length (tables S))) as [Hlt|Hge].
  - assert (Hs: In t (seq 0 (length (tables S)))) by (apply in_seq; lia).
    specialize (H t Hs). rewrite forallb_forall in H. auto.
  - unfold table_fields in Hin. rewrite nth_overflow in Hin by assumption. contradiction.
Qed.

Lemma find_member_In ms ty m : find_member ms ty = Some m -> In (ty, m) ms.
Proof.
  induction ms as [|[c m'] r IH]; cbn [find_member]; [discriminate|].
  destruct (c =? ty) eqn:E.
  - intros [= <-]. apply Z.eqb_eq in E. subst. left. reflexivity.
  - intros H. right. auto.
Qed.

Lemma schema_wf_member S u ty m :
  schema_wf S = true -> find_member (union_members S u) ty = Some m -> umember_wf m = true.
Proof.
  unfold schema_wf, union_members. intros H Hf. apply andb_true_iff in H. destruct H as [_ H].
  apply find_member_In in Hf. rewrite forallb_forall in H.
  destruct (Nat.lt_ge_cases u (length (unions S))) as [Hlt|Hge].
  - specialize (H (nth u (unions S) []) (nth_In _ _ Hlt)). rewrite forallb_forall in H.
    specialize (H _ Hf). cbn [fst snd] in H. apply andb_true_iff in H. tauto.
  - rewrite nth_overflow in Hf by assumption. contradiction.
Qed.
