(* C02 (completeness direction), part 5: the hypotheses of verify_complete_partial are needed - concrete buffers the
   format specification accepts and the verifier model refuses when one of them is dropped; tightness of the level bound. *)
From Flatcc.Format Require Schema Spec.
From Flatcc.Verifier Require Import Schema VerifierModel VerifierProofsBase CompleteBase CompleteTable Complete.
Local Open Scope Z_scope.

(* a struct root smaller than the identifier space: 5 bytes *)
Definition hr_schema : FS.schema := {| FS.tables := []; FS.unions := [] |}.
Definition hr_bytes : list Z := [4;0;0;0; 7].

Lemma header_room_needed : exists Sc R l A,
  schema_wf (to_vschema Sc) = true /\ schema_in_fragment Sc = true /\ members_nonempty Sc = true /\ root_ok R /\
  byte_list l = true /\ Sp.wf_aligned 0 Sc R false A l = true /\ 0 < A /\
  verify_root (of_list l) 0 (to_vschema Sc) 0 (to_vroot R) Plain = VErr E_buffer_header_too_small.
Proof.
  exists hr_schema, (FS.RStruct 1 1), hr_bytes, 4.
  repeat split; try reflexivity; cbn; try lia.
Qed.

(* an empty struct as union member: the value offset may point anywhere for the specification *)
Definition mn_schema : FS.schema :=
  {| FS.tables := [ [ {| FS.fid := 1; FS.frequired := false; FS.fk := FS.FUnion 0 |} ] ];
     FS.unions := [ [ (1, FS.UStruct 0 1) ] ] |}.
Definition mn_bytes : list Z :=
  [12;0;0;0;  8;0; 12;0; 8;0; 4;0;  8;0;0;0;  232;3;0;0;  1;0;0;0].

Lemma members_nonempty_needed : exists Sc l,
  schema_wf (to_vschema Sc) = true /\ schema_in_fragment Sc = true /\ byte_list l = true /\
  Sp.wf_aligned 1 Sc (FS.RTable 0) false 4 l = true /\
  verify_root (of_list l) 0 (to_vschema Sc) 1 (RTable 0) Plain = VErr E_offset_out_of_range.
Proof. exists mn_schema, mn_bytes. repeat split; vm_compute; reflexivity. Qed.

(* chains of tables: table T { c : [T] } and table T { c : T } *)
Definition vchain_schema : FS.schema :=
  {| FS.tables := [ [ {| FS.fid := 0; FS.frequired := false; FS.fk := FS.FTableVec 0 |} ] ]; FS.unions := [] |}.
Definition tchain_schema : FS.schema :=
  {| FS.tables := [ [ {| FS.fid := 0; FS.frequired := false; FS.fk := FS.FTable 0 |} ] ]; FS.unions := [] |}.

Definition last_block : list Z := [4;0; 4;0; 0;0;0;0;  8;0;0;0].
(* vtable {6, 8, 4}, pad; table: soffset 8, field -> vector; vector: count 1, element -> the next block's table *)
Definition vblock : list Z := [6;0; 8;0; 4;0; 0;0;  8;0;0;0; 4;0;0;0;  1;0;0;0; 12;0;0;0].
Definition tblock : list Z := [6;0; 8;0; 4;0; 0;0;  8;0;0;0; 12;0;0;0].

Fixpoint blocks (blk : list Z) (k : nat) : list Z :=
  match k with O => last_block | S k' => blk ++ blocks blk k' end.
(* a chain with k tables *)
Definition chain (blk : list Z) (k : nat) : list Z := [12;0;0;0] ++ blocks blk (k - 1).

Lemma levels_needed_tight :
  (* through table vectors: 50 tables accepted, 51 refused *)
  levels_needed vchain_schema 50 = 100 /\
  Sp.wf_aligned 50 vchain_schema (FS.RTable 0) false 4 (chain vblock 50) = true /\
  verify_root (of_list (chain vblock 50)) 0 (to_vschema vchain_schema) 100 (RTable 0) Plain = VOk /\
  levels_needed vchain_schema 51 = 102 /\
  Sp.wf_aligned 51 vchain_schema (FS.RTable 0) false 4 (chain vblock 51) = true /\
  verify_root (of_list (chain vblock 51)) 0 (to_vschema vchain_schema) 100 (RTable 0) Plain = VErr E_max_nesting_level_reached /\
  (* through table fields: 99 tables accepted, 100 refused *)
  levels_needed tchain_schema 99 = 100 /\
  Sp.wf_aligned 99 tchain_schema (FS.RTable 0) false 4 (chain tblock 99) = true /\
  verify_root (of_list (chain tblock 99)) 0 (to_vschema tchain_schema) 100 (RTable 0) Plain = VOk /\
  levels_needed tchain_schema 100 = 101 /\
  Sp.wf_aligned 100 tchain_schema (FS.RTable 0) false 4 (chain tblock 100) = true /\
  verify_root (of_list (chain tblock 100)) 0 (to_vschema tchain_schema) 100 (RTable 0) Plain = VErr E_max_nesting_level_reached.
Proof. repeat split; vm_compute; reflexivity. Qed.

(* outside the fragment: a nested buffer whose start is 4- but not 8-aligned *)
Definition ns_schema : FS.schema :=
  {| FS.tables := [ [ {| FS.fid := 0; FS.frequired := false; FS.fk := FS.FNestedTable 8 1 |} ];
                    [ {| FS.fid := 0; FS.frequired := false; FS.fk := FS.FScalar 8 8 |} ] ];
     FS.unions := [] |}.
Definition ns_bytes : list Z :=
  [12;0;0;0;  6;0; 8;0; 4;0; 0;0;  8;0;0;0; 8;0;0;0;  0;0;0;0;  12;0;0;0;
   8;0;0;0;  4;0; 4;0;  4;0;0;0].

Lemma nested_start_stricter : exists Sc l,
  schema_wf (to_vschema Sc) = true /\ byte_list l = true /\
  Sp.wf_aligned 2 Sc (FS.RTable 0) false 8 l = true /\
  verify_root (of_list l) 0 (to_vschema Sc) 2 (RTable 0) Plain = VErr E_vector_header_out_of_range_or_unaligned.
Proof. exists ns_schema, ns_bytes. repeat split; vm_compute; reflexivity. Qed.
