(* C01 proofs, part 5: the simplest alignment certificate.  For a schema without nested table roots (or whose
   relative alignments are all <= 4) the constant assignment "every buffer start is aligned to the largest
   vector / union-struct / nested-struct alignment of the schema" is a certificate. *)
From Flatcc.Verifier Require Import VerifierProofsBase.
From Coq Require Import Znumtheory.
Local Open Scope Z_scope.

Definition member_aligns (cm : Z * umember) : list Z :=
  match snd cm with UStruct _ al => [al] | _ => [] end.
Definition field_aligns (S : schema) (f : field) : list Z :=
  match fk f with
  | FVector _ al _ => [al]
  | FNestedStruct _ al => [al]
  | FUnion u | FUnionVec u => flat_map member_aligns (union_members S u)
  | _ => []
  end.
(* the alignments the verifier checks relative to the buffer start *)
Definition schema_aligns (S : schema) : list Z := flat_map (flat_map (field_aligns S)) (tables S).
Definition max_align (S : schema) : Z := fold_right Z.max 1 (schema_aligns S).
Definition is_nested_table (f : field) : bool := match fk f with FNestedTable _ _ => true | _ => false end.
Definition has_nested_table (S : schema) : bool := existsb (existsb is_nested_table) (tables S).

Definition pow2s : list Z := [1;2;4;8;16;32;64;128;256;512;1024;2048;4096;8192;16384;32768].

Lemma pow2_le_In a : pow2_le a 32768 = true -> In a pow2s.
Proof.
  unfold pow2_le. intros H. apply existsb_exists in H. destruct H as [p [Hin Hp]].
  apply filter_In in Hin. destruct Hin as [Hin _]. apply Z.eqb_eq in Hp. subst p. exact Hin.
Qed.

Lemma pow2_divide a m : In a pow2s -> In m pow2s -> a <= m -> (a | m).
Proof.
  intros Ha Hm Hle. unfold pow2s in *. simpl in Ha. simpl in Hm.
  repeat (destruct Ha as [<-|Ha];
          [ repeat (destruct Hm as [<-|Hm]; [first [lia | apply Z.mod_divide; [lia|reflexivity]] |]); contradiction |]).
  contradiction.
Qed.

Lemma pow2_pos a : In a pow2s -> 0 < a.
Proof. unfold pow2s. simpl. intros H. repeat (destruct H as [<-|H]; [lia|]). contradiction. Qed.

Lemma max_pow2 l : (forall x, In x l -> In x pow2s) ->
  In (fold_right Z.max 1 l) pow2s /\ forall x, In x l -> x <= fold_right Z.max 1 l.
Proof.
  induction l as [|a l IH]; intros H.
  - split; [left; reflexivity|intros x []].
  - destruct IH as [IH1 IH2]. { intros x Hx. apply H. right. assumption. }
    cbn [fold_right]. split.
    + destruct (Z.max_spec a (fold_right Z.max 1 l)) as [[_ ->]|[_ ->]]; [assumption|apply H; left; reflexivity].
    + intros x [<-|Hx]; [lia|]. specialize (IH2 x Hx). lia.
Qed.

Lemma schema_aligns_pow2 S : schema_wf S = true -> forall x, In x (schema_aligns S) -> In x pow2s.
Proof.
  intros HS x Hx. unfold schema_aligns in Hx. apply in_flat_map in Hx. destruct Hx as [fs [Hfs Hx]].
  apply in_flat_map in Hx. destruct Hx as [f [Hf Hx]].
  pose proof HS as HS'. unfold schema_wf in HS'. apply andb_true_iff in HS'. destruct HS' as [HT HU].
  rewrite forallb_forall in HT. specialize (HT fs Hfs). rewrite forallb_forall in HT. specialize (HT f Hf).
  unfold field_wf in HT. apply andb_true_iff in HT. destruct HT as [HT _]. apply andb_true_iff in HT.
  destruct HT as [_ Hk]. unfold field_aligns in Hx.
  assert (Hmem : forall u, In x (flat_map member_aligns (union_members S u)) -> In x pow2s).
  { intros u Hu. apply in_flat_map in Hu. destruct Hu as [[c m] [Hcm Hm]].
    unfold member_aligns in Hm. cbn [snd] in Hm. destruct m as [|size al|]; try contradiction.
    destruct Hm as [<-|[]].
    unfold union_members in Hcm. rewrite forallb_forall in HU.
    destruct (Nat.lt_ge_cases u (length (unions S))) as [Hlt|Hge].
    - specialize (HU (nth u (unions S) []) (nth_In _ _ Hlt)). rewrite forallb_forall in HU.
      specialize (HU _ Hcm). cbn [fst snd umember_wf] in HU. apply andb_true_iff in HU. destruct HU as [_ HU].
      apply andb_true_iff in HU. destruct HU as [_ HU]. apply pow2_le_In. exact HU.
    - rewrite nth_overflow in Hcm by assumption. contradiction. }
  destruct (fk f) as [| |esize al maxc| | | |u|u| |size al]; try contradiction; cbn [fkind_wf] in Hk.
  - destruct Hx as [<-|[]]. apply andb_true_iff in Hk. destruct Hk as [Hk _]. apply andb_true_iff in Hk.
    destruct Hk as [Hk _]. apply andb_true_iff in Hk. destruct Hk as [Hk _]. apply andb_true_iff in Hk.
    destruct Hk as [_ Hk]. apply pow2_le_In. exact Hk.
  - apply (Hmem u Hx).
  - apply (Hmem u Hx).
  - destruct Hx as [<-|[]]. apply andb_true_iff in Hk. destruct Hk as [_ Hk]. apply pow2_le_In. exact Hk.
Qed.

Lemma divides_b_intro a m : 0 < a -> (a | m) -> divides_b a m = true.
Proof.
  intros Ha Hd. unfold divides_b. apply andb_true_iff. split; [apply Z.ltb_lt; assumption|].
  apply Z.eqb_eq. apply Z.mod_divide; [lia|assumption].
Qed.

(* the constant certificate *)
Lemma max_align_certificate S :
  schema_wf S = true -> (has_nested_table S = false \/ max_align S <= 4) ->
  ra_ok S (fun _ => max_align S) = true.
Proof.
  intros HS Hn. set (M := max_align S).
  destruct (max_pow2 (schema_aligns S) (schema_aligns_pow2 S HS)) as [HM Hle]. fold (max_align S) in HM, Hle. fold M in HM, Hle.
  pose proof (pow2_pos M HM) as HM0.
  assert (HMM : divides_b M M = true) by (apply divides_b_intro; [assumption|apply Z.divide_refl]).
  assert (Hal : forall x, In x (schema_aligns S) -> divides_b x M = true).
  { intros x Hx. pose proof (schema_aligns_pow2 S HS x Hx) as Hp. apply divides_b_intro; [apply pow2_pos; assumption|].
    apply pow2_divide; auto. }
  unfold ra_ok. apply forallb_forall. intros t Ht. apply in_seq in Ht.
  apply forallb_forall. intros f Hf.
  assert (Hfs : In (table_fields S t) (tables S)) by (unfold table_fields; apply nth_In; lia).
  assert (Hfa : forall x, In x (field_aligns S f) -> divides_b x M = true).
  { intros x Hx. apply Hal. unfold schema_aligns. apply in_flat_map. exists (table_fields S t). split; [assumption|].
    apply in_flat_map. exists f. split; assumption. }
  unfold field_ra_ok. unfold field_aligns in Hfa.
  assert (Hun : forall u, (forall x, In x (flat_map member_aligns (union_members S u)) -> divides_b x M = true) ->
                 forallb (member_ra_ok (fun _ => M) M) (union_members S u) = true).
  { intros u Hu. apply forallb_forall. intros [c m] Hcm. unfold member_ra_ok. cbn [snd].
    destruct m as [t'|size al|]; [assumption| |reflexivity].
    apply Hu. apply in_flat_map. exists (c, UStruct size al). split; [assumption|]. left. reflexivity. }
  destruct (fk f) as [| |esize al maxc| |t'|t'|u|u|al t'|size al] eqn:K; try reflexivity; try assumption.
  - apply Hfa. left. reflexivity.
  - apply Hun. assumption.
  - apply Hun. assumption.
  - destruct Hn as [Hn|Hn].
    + exfalso. unfold has_nested_table in Hn.
      assert (Hex : existsb (existsb is_nested_table) (tables S) = true).
      { apply existsb_exists. exists (table_fields S t). split; [assumption|]. apply existsb_exists. exists f.
        split; [assumption|]. unfold is_nested_table. rewrite K. reflexivity. }
      rewrite Hex in Hn. discriminate.
    + apply orb_true_iff. left. apply divides_b_intro; [assumption|].
      apply pow2_divide; [assumption| |assumption]. unfold pow2s. simpl. tauto.
  - apply Hfa. left. reflexivity.
Qed.
