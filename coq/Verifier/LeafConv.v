(* C01 leaves (T5): reading conventions that relate the Gallina GENERATED from src/runtime/verifier.c
   (Flatcc.Generated.Leaf_verifier, translators/cleaf_to_coq.py) to the hand-written VerifierModel, and an
   executable boundary-grid search for an argument tuple on which a regenerated leaf and the hand model differ.
   Definitions only; the equivalence lemmas are in LeafEquiv.v (which may stop checking after a source edit while
   this file still compiles, so that the search can run).

   Conventions
   * a C byte pointer into the buffer [b] at position [pos] (the model's [o], or [o + vtable]) whose byte 0 has the
     address [addr] is [ptr_of b addr pos]: numeric value u64 (addr + pos); reads are the model's guarded reads, so a
     read outside [b] is None on both sides.
   * the descriptor struct is [td_of b addr d]: td->buf = b + t_o, td->vtable = b + t_o + t_vtable (the C stores
     a pointer, the model the position), the integer members are the model's.
   * an int result r is read as [vres_of (Some r)]: 0 is VOk, anything else VErr r; None (a read outside [b]) is VOob.
   * C `int required` is any int; the model's bool is [negb (required =? 0)].
   * `uint16_t align` is a power of two up to 32768 ([pow2_16]): the C masks with (align - 1u), the model uses mod.
   * descriptor leaves are compared on the descriptors verify_table constructs ([td_inv], LeafTac.v / LeafInv.v) and on
     field ids a schema can contain ([id_ok]). *)
From Flatcc.Verifier Require Export VerifierModel LeafTac.
From Flatcc.Generated Require Import Leaf_verifier.
Local Open Scope Z_scope.

Definition ptr_of (b : buf) (addr pos : Z) : cptr :=
  {| p_addr := u64 (addr + pos);
     p_rd8 := fun k => rd8 b (pos + k); p_rd16 := fun k => rd16 b (pos + k); p_rd32 := fun k => rd32 b (pos + k) |}.

Definition td_of (b : buf) (addr : Z) (d : td) : c_td :=
  {| td_buf := ptr_of b addr (t_o d); td_end := t_end d; td_ttl := t_ttl d;
     td_vtable := ptr_of b addr (t_o d + t_vtable d);
     td_table := t_table d; td_tsize := t_tsize d; td_vsize := t_vsize d |}.

(* ------------------------------------------------------------------------------------------------------------
   Search (used by checks/c01c_util.py when LeafEquiv.v no longer checks): results are coded as integers,
   VOk 0, VErr c -> c, VOob -> -1, VFuel -> -2; a witness is (bytes of the buffer, arguments ++ [C result; model result]). *)
Definition code (r : vres) : Z := match r with VOk => 0 | VErr c => c | VOob => -1 | VFuel => -2 end.
Definition ocode (r : option Z) : Z := match r with None => -1 | Some v => v end.

Fixpoint first_some {A B} (f : A -> option B) (l : list A) : option B :=
  match l with
  | [] => None
  | x :: r => match f x with Some y => Some y | None => first_some f r end
  end.

Definition wit (bytes args : list Z) (c m : Z) : option (list Z * list Z) :=
  if c =? m then None else Some (bytes, args ++ [c; m]).

Definition G32 : list Z :=
  [0; 1; 2; 3; 4; 5; 6; 7; 8; 9; 11; 12; 13; 15; 16; 17; 20; 24; 28; 31; 32; 36; 40; 64; 65535; 65536;
   2147483647; 2147483648; 4294967288; 4294967291; 4294967292; 4294967293; 4294967294; 4294967295].
Definition G32s : list Z := [0; 1; 3; 4; 5; 8; 12; 16; 4294967292; 4294967295].
Definition Galign : list Z := [1; 2; 4; 8; 32768].

Definition search_check_header :=
  first_some (fun e => first_some (fun base => first_some (fun off =>
    wit [] [e; base; off] (c_check_header e base off) (Z.b2z (check_header e base off))) G32) G32) G32.

Definition search_verify_struct :=
  first_some (fun e => first_some (fun base => first_some (fun off => first_some (fun size => first_some (fun al =>
    wit [] [e; base; off; size; al] (code (vres_of (Some (c_verify_struct e base off size al)))) (code (verify_struct e base off size al)))
    Galign) G32s) G32s) G32s) G32s.

(* descriptors over small buffers that start with a vtable *)
Definition Gvt : list (list Z) :=
  [ [8; 0; 12; 0; 4; 0; 8; 0; 0; 0; 0; 0; 1; 2; 3; 4; 5; 6; 7; 8];
    [6; 0; 8; 0; 5; 0; 9; 0; 0; 0; 0; 0; 0; 0; 0; 0];
    [8; 0; 8; 0; 0; 0; 6; 0; 8; 0; 0; 0; 0; 0; 0; 0];
    [4; 0; 4; 0; 7; 0];
    [4; 0] ].
(* only descriptors verify_table can construct (td_invb) and ids a schema can contain (id_okb): a difference outside
   these is not a difference between the verifier and its model *)
Definition Gtd : list td :=
  filter td_invb
  (flat_map (fun vt => flat_map (fun table => flat_map (fun tsize => map (fun vsize =>
    {| t_o := 0; t_end := 20; t_ttl := 10; t_vtable := vt; t_table := table; t_tsize := tsize; t_vsize := vsize |})
    [4; 6; 8; 10; 12; 5; 0; 65534]) [12; 8; 4; 9; 0; 65535]) [8; 12; 16; 0; 10; 4294967292]) [0; 2; 4; 1]).
Definition Gid : list Z := filter id_okb [0; 1; 2; 3; 4; 5; 32762; 32763; 32764; 32766; 65535].
Definition Greq : list Z := [0; 1; -1].
Definition td_args (d : td) : list Z := [t_vtable d; t_table d; t_tsize d; t_vsize d].

Definition search_read_vt_entry :=
  first_some (fun l => let b := of_list l in first_some (fun d => first_some (fun id =>
    wit l (td_args d ++ [id]) (ocode (c_read_vt_entry (td_of b 0 d) id)) (ocode (read_vt_entry b d id))) Gid) Gtd) Gvt.

Definition search_verify_field :=
  first_some (fun l => let b := of_list l in first_some (fun addr => first_some (fun d => first_some (fun id =>
    first_some (fun req => first_some (fun size => first_some (fun al =>
      wit l (addr :: td_args d ++ [id; req; size; al])
        (code (vres_of (c_verify_field (td_of b addr d) id req size al)))
        (code (verify_field b addr d id (negb (req =? 0)) size al)))
    [1; 4; 8]) [0; 4; 4294967295]) Greq) (firstn 4 Gid)) Gtd) [0; 1; 4294967298]) (firstn 3 Gvt).

Definition search_get_offset_field :=
  first_some (fun l => let b := of_list l in first_some (fun d => first_some (fun id => first_some (fun req =>
    match c_get_offset_field (td_of b 0 d) id req 77, get_offset_field b d id (negb (req =? 0)) with
    | None, (m, _) => wit l (td_args d ++ [id; req]) (-1) (code m)
    | Some (r, o), (m, mo) =>
        match wit l (td_args d ++ [id; req]) (code (vres_of (Some r))) (code m) with
        | Some w => Some w
        | None => if r =? 0 then wit l (td_args d ++ [id; req; 0]) o mo else None
        end
    end) Greq) Gid) Gtd) Gvt.

(* strings and vectors *)
Definition Gsv : list (list Z) :=
  [ [4; 0; 0; 0; 4; 0; 0; 0; 97; 98; 99; 100; 0; 0; 0; 0];
    [4; 0; 0; 0; 3; 0; 0; 0; 97; 98; 99; 0];
    [4; 0; 0; 0; 3; 0; 0; 0; 97; 98; 99; 1];
    [4; 0; 0; 0; 2; 0; 0; 0; 1; 0; 2; 0; 3; 0; 4; 0];
    [4; 0; 0; 0; 0; 0; 0; 0];
    [4; 0; 0; 0; 0; 0; 0; 0; 1; 0; 0; 0; 9; 0; 0; 0; 0; 0; 0; 0];
    [8; 0; 0; 0; 0; 0; 0; 0; 255; 255; 255; 255; 0; 0; 0; 0];
    [] ].
Definition Ge : list Z := [16; 12; 8; 20; 4; 7; 13; 0; 4294967295].
Definition Gbase : list Z := [0; 4; 8; 4294967292].
Definition Goff : list Z := [4; 8; 12; 0; 1; 4294967292; 4294967295].

Definition search_verify_string :=
  first_some (fun l => let b := of_list l in first_some (fun e => first_some (fun base => first_some (fun off =>
    wit l [e; base; off] (code (vres_of (c_verify_string (ptr_of b 0 0) e base off))) (code (verify_string b 0 e base off)))
    Goff) Gbase) Ge) Gsv.

Definition search_verify_vector :=
  first_some (fun l => let b := of_list l in first_some (fun e => first_some (fun base => first_some (fun off =>
    first_some (fun es => first_some (fun al => first_some (fun mc =>
      wit l [e; base; off; es; al; mc] (code (vres_of (c_verify_vector (ptr_of b 0 0) e base off es al mc)))
        (code (verify_vector b 0 e base off es al mc)))
    [2; 1; 0; 4294967295]) [4; 1; 8]) [1; 4; 0; 2147483648]) Goff) Gbase) Ge) Gsv.
