(* Extraction of the JSON scanner model (C04) and codecs (C05) for the correspondence driver (ocaml/json/driver.ml). *)
From Coq Require Extraction.
From Coq Require Import ExtrOcamlBasic.
From Flatcc.Json Require Import Scanner Codecs.
Extraction Language OCaml.
(* ocaml/zutil.ml.inc opens Model and calls Stdlib's print_string: do not emit a value of that name *)
Definition json_print_string (s : list Z) : list Z := print_string s.
Extraction Inline print_string.
Extraction "../ocaml/json/model.ml"
  ctx_init observe
  space space_ext string_start string_part string_end string_escape
  symbol_start symbol_end symbol_part match_scope match_symbol match_type_suffix match_constant skip_constant
  object_start object_end array_start array_end null none integer uint8 bool_
  number number_current generic_json generic_json_current unmatched_symbol unmatched_symbol_gen
  build_string char_array
  json_print_string print_char_array print_base64 base64_encode base64_decode base64_encoded_size base64_decoded_size parse_base64
  utf8_valid rfc8259_string.
