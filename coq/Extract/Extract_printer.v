(* Extraction of the C11 model for the correspondence driver (ocaml/printer/driver.ml). *)
From Coq Require Extraction.
From Coq Require Import ExtrOcamlBasic.
From Flatcc.Printer Require Import FlushModel PrintOps.
Extraction Language OCaml.
Extraction "../ocaml/printer/model.ml"
  mkcfg mkocfg mkflags init run_f observe text chk wfv is_fieldlike root_ops no_perr
  cfg_fixed cfg_current ocfg_fixed ocfg_current
  PRINT_RESERVE PRINT_NUM_WRITE_MAX PRINT_MAX_LEVELS.
