(* Extraction of the C14 / C13 builder-state model for the correspondence driver (ocaml/reset/driver.ml). *)
From Coq Require Extraction.
From Coq Require Import ExtrOcamlBasic.
From Flatcc.Reset Require Import BuilderState.
From Flatcc.Generated Require Import ResetConsts.
Extraction Language OCaml.
Extraction "../ocaml/reset/model.ml" step st_init cap_get caps_total all_kinds kind_index
  set_fa set_fa_rep set_fe set_fe_rep set_caps caps0 set_ds_limit set_limit_level PAGE_SIZE.
