(* Extraction of the C12 models for the correspondence driver (ocaml/emitter/driver.ml). *)
From Coq Require Extraction.
From Coq Require Import ExtrOcamlBasic.
From Flatcc.Emitter Require Import EmitterModel EmitModel.
Extraction Language OCaml.
Extraction "../ocaml/emitter/model.ml"
  est_init emitter reset clear recycle copy_buffer_c copy_buffer direct_buffer buffer_size abs start_off end_off last_off
  build_iov bst_init emit_front emit_back emit_site run_sites toolarge_c toolarge_fixed site_inventory site_pushes site_back bst_reset run_rounds.
