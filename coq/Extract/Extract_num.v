(* Extraction of the C19 models for the correspondence driver (ocaml/num/driver.ml). *)
From Coq Require Extraction.
From Coq Require Import ExtrOcamlBasic.
From Flatcc.Num Require Import NumModel FloatOracle.
Extraction Language OCaml.
Extraction "../ocaml/num/model.ml"
  print_uint8 print_uint16 print_uint32 print_uint64 print_int8 print_int16 print_int32 print_int64
  parse_integer parse_integer_current
  parse_uint8 parse_uint16 parse_uint32 parse_uint64 parse_int8 parse_int16 parse_int32 parse_int64
  json_integer json_integer_current
  coerce_uint8 coerce_uint16 coerce_uint32 coerce_uint64 coerce_int8 coerce_int16 coerce_int32 coerce_int64 coerce_bool
  json_uint8 json_uint16 json_uint32 json_uint64 json_int8 json_int16 json_int32 json_int64 json_bool
  decimal sdecimal dval
  rounds_to32 rounds_to64 rounds_to_inf32 rounds_to_inf64.
