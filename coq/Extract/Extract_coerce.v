(* Extraction of the C08 model for the correspondence driver (ocaml/coerce/driver.ml). *)
From Coq Require Extraction.
From Coq Require Import ExtrOcamlBasic.
From Flatcc.Coerce Require Import CoerceModel.
Extraction Language OCaml.
Extraction "../ocaml/coerce/model.ml"
  lex lex_cur lex_value denote coerce coerce_cur field_default field_default_cur
  process_enum process_enum_cur array_len force_align_value struct_layout exact_in.
