(* Extraction of the C07 layout / field id models (and the C06 protocol automaton, C20 search model)
   for the correspondence driver ocaml/layout/driver.ml. *)
From Coq Require Extraction.
From Coq Require Import ExtrOcamlBasic.
From Flatcc.Layout Require Import StructLayout FieldIds.
Extraction Language OCaml.
Extraction "../ocaml/layout/model.ml"
  fb_align is_valid_align struct_layout layout_structs assign_ids.
