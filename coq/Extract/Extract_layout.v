(* Extraction of the C07 layout / field id models
   for the correspondence driver ocaml/layout/driver.ml. *)
From Coq Require Extraction.
From Coq Require Import ExtrOcamlBasic.
From Flatcc.Layout Require Import StructLayout FieldIds.
Extraction Language OCaml.
Extraction "../ocaml/layout/model.ml"
  fb_align is_valid_align struct_layout layout_structs assign_ids.
