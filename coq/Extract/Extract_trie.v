(* Extraction of the C10 trie model, specification and certified checker for ocaml/trie/driver.ml. *)
From Coq Require Extraction.
From Coq Require Import ExtrOcamlBasic.
From Flatcc.Trie Require Import TrieAst TrieEval TrieSpec TrieCheck.
Extraction Language OCaml.
Extraction "../ocaml/trie/model.ml"
  eval run win win_c tm_symbol tm_symbol_c tm_scope tm_constant lookup names_ident check conv sym scoped snd_ok sres_is
  tl_symbol_quoted tl_symbol_unquoted tl_symbol_unquoted_c tl_scope tl_constant_quoted tl_constant_unquoted.
