(* Extraction of the C01/C09 models for the correspondence driver (ocaml/verifier/driver.ml). *)
From Coq Require Extraction.
From Coq Require Import ExtrOcamlBasic.
From Flatcc.Verifier Require Import VerifierModel ReaderModel Evolution.
Extraction Language OCaml.
Extraction "../ocaml/verifier/model.ml" verify_root walk_root schema_wf restricts VERIFIER_MAX_LEVELS.
