(* Extraction of the C18 model for the correspondence driver (ocaml/refmap/driver.ml). *)
From Coq Require Extraction.
From Coq Require Import ExtrOcamlBasic.
From Flatcc.Refmap Require Import RefmapModel.
Extraction Language OCaml.
Extraction "../ocaml/refmap/model.ml"
  rm_init insert find resize reset clear refmap_hash tget count buckets table probe clone
  ref_insert_buckets ref_resize_buckets.
