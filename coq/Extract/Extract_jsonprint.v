(* Extraction of the printer-text model and the round-trip vocabulary (C05, document layer) for ocaml/jsonprint/driver.ml. *)
From Coq Require Extraction.
From Coq Require Import ExtrOcamlBasic.
From Flatcc.Json Require Import PrinterText.
Extraction Language OCaml.
(* ocaml/zutil.ml.inc opens Model and calls Stdlib's print_string: do not emit a value of that name *)
Extraction Inline print_string.
Extraction "../ocaml/jsonprint/model.ml" print_root parse_root sp_int reparse_table wt_table need_table canon decode_root
  to_schema rfc8259_document api_set_flags api_set_indent prflags0 rt_schema_okb enums_okb utf8_valid.
