(* Extraction of the C01 printer-read model (and the verifier, to filter accepted buffers on the model side too)
   for ocaml/printerwalk/driver.ml. *)
From Coq Require Extraction.
From Coq Require Import ExtrOcamlBasic.
From Flatcc.Verifier Require Import VerifierModel PrinterModel.
Extraction Language OCaml.
Extraction "../ocaml/printerwalk/model.ml" print_walk print_walk_gen verify_root schema_wf JSON_PRINT_MAX_LEVELS VERIFIER_MAX_LEVELS.
