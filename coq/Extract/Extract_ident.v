(* Extraction of the C17 model for the correspondence driver (ocaml/ident/driver.ml). *)
From Coq Require Extraction.
From Coq Require Import ExtrOcamlBasic.
From Flatcc.Ident Require Import IdentModel.
Extraction Language OCaml.
Extraction "../ocaml/ident/model.ml"
  of_list fnv1a32 type_hash_from_name compile_type_hash compile_type_identifier qualified_name
  identifier_from_type_hash identifier_from_name type_hash_from_identifier type_hash_from_string
  builder_id_field id_pos verify_buffer_header verify_buffer_header_with_size has_identifier
  printer_accept_header stored_identifier.
