(* Extraction of the generated-parser control-flow model (C04, parser layer) for ocaml/jsonparser/driver.ml. *)
From Coq Require Extraction.
From Coq Require Import ExtrOcamlBasic.
From Flatcc.Json Require Import ParserModel.
Extraction Language OCaml.
Extraction "../ocaml/jsonparser/model.ml" run_parser sp_int to_schema decode_root.
