(* Extraction of the generated-reader value model (C03, Verifier/ReaderValue.v) and of the independent format decoder it is
   proved equal to, for the differential driver ocaml/readervalue/driver.ml (checks/c03b_util.py). *)
From Coq Require Extraction.
From Coq Require Import ExtrOcamlBasic.
From Flatcc.Format Require Import Schema Spec.
From Flatcc.Verifier Require Import ReaderValue.
Extraction Language OCaml.
Extraction "../ocaml/readervalue/model.ml"
  read_root read_root_list read_table root_ptr ids_ok decode_mem mem_of_list
  ld8 ld16 ld32 ldbytes read_vt field_present scalar_get scalar_get_ptr scalar_option struct_field offset_field
  vec_len scalar_vec_at struct_vec_at offset_vec_at string_cast_from_generic union_type_field union_field
  union_vec_field union_vec_len union_vec_at read_size_prefix read_root_ptr union_member table_fields.
