(* Extraction of the C16 model for the correspondence driver (ocaml/sort/driver.ml). *)
From Coq Require Extraction.
From Coq Require Import ExtrOcamlBasic.
From Flatcc.Sort Require Import SortModel.
Extraction Language OCaml.
Extraction "../ocaml/sort/model.ml"
  heap_sort_list heap_sort_offsets targets uoffset_swap value_swap
  scalar_diff string_diff string_n_cmp strcmp
  find_list scan_ex_list rscan_ex_list scan_list rscan_list.
