(* Extraction of the builder model (C02/C03/C15) and of the independent format decoder for the
   correspondence driver (ocaml/builder/driver.ml). *)
From Coq Require Extraction.
From Coq Require Import ExtrOcamlBasic.
From Flatcc.Format Require Import Schema Spec.
From Flatcc.Builder Require Import EmitModel.
Extraction Language OCaml.
Extraction "../ocaml/builder/model.ml"
  init_state run buffer_bytes buffer_alignment decode_mem decode_root wf wf_aligned mem_of_list nested_extent.
