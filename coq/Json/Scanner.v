(* C04 / C05: the scanner layer of the flatcc JSON parser.
   Transcribes, guard for guard, src/runtime/json_parser.c and the inline functions of
   include/flatcc/flatcc_json_parser.h for the default configuration
   (ALLOW_UNQUOTED=1, ALLOW_TRAILING_COMMA=1, WIDE_SPACE=0, unaligned access, no SSE4.2, plain char signed;
   checks/c04.py compares these switches with Generated/JsonConsts.v on every run).

   The C functions receive [buf,end) and must never read *end.  Input here is a [buf] (length + bytes),
   positions are offsets from the start of the input (start = 0, end = blen b).  EVERY `*buf`, `buf[k]`
   and memcmp in the C is a [get] here, which is [None] outside [0, blen b): the result [Oob] IS the
   out-of-bounds read the theorems exclude.  Loops take fuel that each wrapper computes from the length;
   [Fuel] is excluded by the theorems as well.
   No proofs in this file. *)
From Flatcc.Common Require Export Bytes.
From Flatcc.Generated Require Export Consts JsonConsts.
Local Open Scope Z_scope.

(* ------------------------------------------------------------------ parser context *)
(* flatcc_json_parser_t: flags, unquoted, line, line_start, pos, error, error_loc *)
Record pctx := mkctx { cflags : Z; cunq : bool; cline : Z; clstart : Z; cpos : Z; cerr : Z; cerrloc : Z }.

(* flatcc_json_parser_init (start = 0) *)
Definition ctx_init (flags : Z) : pctx := mkctx flags false 1 0 0 0 0.

Inductive res (A : Type) := Ok (c : pctx) (p : Z) (v : A) | Oob | Fuel.
Arguments Ok {A}. Arguments Oob {A}. Arguments Fuel {A}.
(* loops that do not touch the context *)
Inductive lres := LAt (p : Z) | LOob | LFuel.

Definition get (b : buf) (i : Z) : option Z := rd8 b i.

(* value of a plain `char` (signed on this target) holding byte x *)
Definition sc (x : Z) : Z := if x <? 128 then x else x - 256.

(* the byte as compared with 0x20 in unquoted symbols: `*buf > 0x20` on the plain char as the code stands, or
   `(unsigned char)*buf > 0x20`; Generated/JsonConsts.v records which one /repo implements (behaviour probe) *)
Definition uc (x : Z) : Z := if JCFG_unquoted_hi_unsigned =? 1 then x else sc x.

(* flatcc_json_parser_set_error: first error wins; always returns `end` *)
Definition set_error (c : pctx) (loc err : Z) : pctx :=
  if cerr c =? 0 then mkctx (cflags c) (cunq c) (cline c) (clstart c) (loc - clstart c + 1) err loc else c.
Definition fail {A} (b : buf) (c : pctx) (loc err : Z) (v : A) : res A := Ok (set_error c loc err) (blen b) v.

Definition set_unq (c : pctx) (u : bool) : pctx :=
  mkctx (cflags c) u (cline c) (clstart c) (cpos c) (cerr c) (cerrloc c).
(* ++ctx->line; ctx->line_start = p *)
Definition newline (c : pctx) (p : Z) : pctx :=
  mkctx (cflags c) (cunq c) (cline c + 1) p (cpos c) (cerr c) (cerrloc c).
Definition has_flag (c : pctx) (f : Z) : bool := negb (Z.land (cflags c) f =? 0).

(* fuel for a forward scan from i: one step per remaining byte, plus the final test *)
Definition scan_fuel (b : buf) (i : Z) : nat := S (Z.to_nat (blen b - i)).

Notation "'rd!' x <- b @ i ; k" := (match get b i with Some x => k | None => Oob end)
  (at level 200, x name, b at level 9, i at level 9, k at level 200).
Notation "'do!' c , p , v <- e ; k" := (match e with Ok c p v => k | Oob => Oob | Fuel => Fuel end)
  (at level 200, c name, p name, v name, e at level 100, k at level 200).
Notation "'lp!' p <- e ; k" := (match e with LAt p => k | LOob => Oob | LFuel => Fuel end)
  (at level 200, p name, e at level 100, k at level 200).

(* ------------------------------------------------------------------ string_part  (json_parser.c:65) *)
Fixpoint string_part_scan (fuel : nat) (b : buf) (i : Z) : lres :=
  match fuel with O => LFuel | S f =>
    if i =? blen b then LAt i else
    match get b i with None => LOob | Some x =>
      if negb (x =? 34) && (32 <=? x) && negb (x =? 92) then string_part_scan f b (i + 1) else LAt i
    end
  end.

Definition string_part (b : buf) (c : pctx) (i : Z) : res unit :=
  lp! p <- string_part_scan (scan_fuel b i) b i;
  if p =? blen b then fail b c p JE_unterminated_string tt else
  rd! x <- b @ p;
  if x =? 34 then Ok c p tt else
  if sc x <? 32 then fail b c p JE_invalid_character tt else Ok c p tt.

(* ------------------------------------------------------------------ space_ext  (json_parser.c:96) *)
(* the block guarded by `end - buf >= 16` (it always leaves the loop after one round): (true, p) = return p *)
Definition space_wide (b : buf) (i : Z) : option (bool * Z) :=
  if 16 <=? blen b - i then
    match get b i with None => None | Some x0 =>
    if 32 <? sc x0 then Some (true, i) else
    match rd16 b i with None => None | Some w =>            (* ((uint16_t * )buf)[0] *)
    let i1 := if w =? 8224 then i + 2 else i in
    match get b i1 with None => None | Some x1 =>
    let i2 := if x1 =? 32 then i1 + 1 else i1 in
    match get b i2 with None => None | Some x2 =>
    if 32 <? sc x2 then Some (true, i2) else Some (false, i2)
    end end end end
  else Some (false, i).

(* while (buf != end && *buf == 0x20) ++buf; *)
Fixpoint skip_sp (fuel : nat) (b : buf) (i : Z) : lres :=
  match fuel with O => LFuel | S f =>
    if i =? blen b then LAt i else
    match get b i with None => LOob | Some x => if x =? 32 then skip_sp f b (i + 1) else LAt i end
  end.

(* label `again:` up to the third loop *)
Inductive pre := PRet (p : Z) | PCont (p : Z) | POob | PFuel.
Definition space_again (b : buf) (i : Z) : pre :=
  match space_wide b i with
  | None => POob
  | Some (true, p) => PRet p
  | Some (false, p) => match skip_sp (scan_fuel b p) b p with LAt q => PCont q | LOob => POob | LFuel => PFuel end
  end.

(* while (buf != end && *buf <= 0x20) switch ( *buf) ...   (`case 0x20: goto again` runs space_again and re-enters) *)
Fixpoint space_ctl (fuel : nat) (b : buf) (c : pctx) (i : Z) : res unit :=
  match fuel with O => Fuel | S f =>
    if i =? blen b then Ok c i tt else
    rd! x <- b @ i;
    if sc x <=? 32 then
      if x =? 13 then
        (* buf += (end - buf > 1 && buf[1] == 0x0a); ++line; line_start = ++buf *)
        if 1 <? blen b - i then
          rd! y <- b @ (i + 1);
          let j := if y =? 10 then i + 1 else i in
          space_ctl f b (newline c (j + 1)) (j + 1)
        else space_ctl f b (newline c (i + 1)) (i + 1)
      else if x =? 10 then space_ctl f b (newline c (i + 1)) (i + 1)
      else if x =? 9 then space_ctl f b c (i + 1)
      else if x =? 32 then
        match space_again b i with
        | POob => Oob | PFuel => Fuel
        | PRet p => Ok c p tt
        | PCont q => space_ctl f b c q
        end
      else fail b c i JE_unexpected_character tt
    else Ok c i tt
  end.

Definition space_ext (b : buf) (c : pctx) (i : Z) : res unit :=
  match space_again b i with
  | POob => Oob | PFuel => Fuel
  | PRet p => Ok c p tt
  | PCont q => space_ctl (scan_fuel b q) b c q
  end.

(* flatcc_json_parser_space (inline fast path) *)
Definition space (b : buf) (c : pctx) (i : Z) : res unit :=
  if 1 <? blen b - i then
    rd! x0 <- b @ i;
    if 32 <? sc x0 then Ok c i tt else
    rd! x1 <- b @ (i + 1);
    if (x0 =? 32) && (32 <? sc x1) then Ok c (i + 1) tt else space_ext b c i
  else space_ext b c i.

(* ------------------------------------------------------------------ string_start / string_end *)
Definition string_start (b : buf) (c : pctx) (i : Z) : res unit :=
  if i =? blen b then fail b c i JE_expected_string tt else
  rd! x <- b @ i;
  if negb (x =? 34) then fail b c i JE_expected_string tt else Ok c (i + 1) tt.

Definition string_end (b : buf) (c : pctx) (i : Z) : res unit :=
  if i =? blen b then fail b c i JE_unterminated_string tt else
  rd! x <- b @ i;
  if negb (x =? 34) then fail b c i JE_unterminated_string tt else Ok c (i + 1) tt.

(* ------------------------------------------------------------------ string_escape  (json_parser.c:157-390) *)
(* one hex digit as the C tests it: '0'..'9', else c |= 0x20 and 'a'..'f' *)
Definition hexdig (x : Z) : option Z :=
  if (48 <=? x) && (x <=? 57) then Some (x - 48) else
  let y := Z.lor x 32 in
  if (97 <=? y) && (y <=? 102) then Some (y - 97 + 10) else None.

(* decode_hex4(buf + k): reads buf[k..k+3]; None = read out of bounds, Some None = not hex *)
Definition decode_hex4 (b : buf) (i : Z) : option (option Z) :=
  match get b i, get b (i + 1), get b (i + 2), get b (i + 3) with
  | Some a0, Some a1, Some a2, Some a3 =>
    Some (match hexdig a0 with None => None | Some h0 =>
          match hexdig a1 with None => None | Some h1 =>
          match hexdig a2 with None => None | Some h2 =>
          match hexdig a3 with None => None | Some h3 => Some (4096 * h0 + 256 * h1 + 16 * h2 + h3)
          end end end end)
  | _, _, _, _ => None
  end.

(* decode_unicode_char: code[1..code[0]], None when u > 0x10ffff *)
Definition decode_unicode_char (u : Z) : option (list Z) :=
  if u <=? 127 then Some [u] else
  if u <=? 2047 then Some [192 + u / 64; 128 + u mod 64] else
  if u <=? 65535 then Some [224 + u / 4096; 128 + (u / 64) mod 64; 128 + u mod 64] else
  if u <=? 1114111 then Some [240 + u / 262144; 128 + (u / 4096) mod 64; 128 + (u / 64) mod 64; 128 + u mod 64]
  else None.

(* combine_utf16_surrogate_pair in uint32_t *)
Definition combine_surrogates (hi lo : Z) : Z := u32 ((hi - 55296) * 1024 + (lo - 56320) + 65536).

Definition esc_fail (b : buf) (c : pctx) (i : Z) : res (list Z) := fail b c i JE_invalid_escape [].

(* result value: the bytes code[1..code[0]] *)
Definition string_escape (b : buf) (c : pctx) (i : Z) : res (list Z) :=
  if blen b - i <? 2 then esc_fail b c i else
  rd! x0 <- b @ i;
  if negb (x0 =? 92) then esc_fail b c i else
  rd! x1 <- b @ (i + 1);
  if x1 =? 120 then                                   (* 'x' *)
    if blen b - i <? 4 then esc_fail b c i else
    rd! a <- b @ (i + 2);
    match hexdig a with None => esc_fail b c i | Some h =>
    rd! a' <- b @ (i + 3);
    match hexdig a' with None => esc_fail b c i | Some l => Ok c (i + 4) [u8 (16 * h + l)] end end
  else if x1 =? 117 then                              (* 'u' *)
    if blen b - i <? 6 then esc_fail b c i else
    match decode_hex4 b (i + 2) with None => Oob | Some None => esc_fail b c i | Some (Some u) =>
    let single := match decode_unicode_char u with Some l => Ok c (i + 6) l | None => Ok c (i + 6) [] end in
    if (55296 <=? u) && (u <=? 56319) && (12 <=? blen b - i) then
      rd! y0 <- b @ (i + 6);
      if negb (y0 =? 92) then single else
      rd! y1 <- b @ (i + 7);
      if negb (y1 =? 117) then single else
      match decode_hex4 b (i + 8) with None => Oob | Some None => single | Some (Some u2) =>
      if (56320 <=? u2) && (u2 <=? 57343) then
        match decode_unicode_char (combine_surrogates u u2) with
        | Some l => Ok c (i + 12) l
        | None => esc_fail b c i
        end
      else single
      end
    else single
    end
  else if x1 =? 116 then Ok c (i + 2) [9]
  else if x1 =? 110 then Ok c (i + 2) [10]
  else if x1 =? 114 then Ok c (i + 2) [13]
  else if x1 =? 98 then Ok c (i + 2) [8]
  else if x1 =? 102 then Ok c (i + 2) [12]
  else if x1 =? 34 then Ok c (i + 2) [34]
  else if x1 =? 92 then Ok c (i + 2) [92]
  else if x1 =? 47 then Ok c (i + 2) [47]
  else esc_fail b c i.

(* ------------------------------------------------------------------ symbols *)
(* flatcc_json_parser_symbol_start *)
Definition symbol_start (b : buf) (c : pctx) (i : Z) : res unit :=
  if i =? blen b then Ok c i tt else
  rd! x <- b @ i;
  if x =? 34 then Ok (set_unq c false) (i + 1) tt else
  if x =? 46 then fail b c i JE_unexpected_character tt else
  Ok (set_unq c true) i tt.

Definition is_alpha_lc (x : Z) : bool := let y := Z.lor (sc x) 32 in (97 <=? y) && (y <=? 122).
Definition is_digit (x : Z) : bool := (48 <=? x) && (x <=? 57).

(* unquoted branch of symbol_end: returns (position, clast) *)
Fixpoint symbol_end_unq (fuel : nat) (b : buf) (i : Z) (clast : Z) : option (option (Z * Z)) :=
  match fuel with O => Some None | S f =>
    if i =? blen b then Some (Some (i, clast)) else
    match get b i with None => None | Some x =>
      if 32 <? uc x then
        if (x =? 95) || (x =? 46) || negb (Z.land x 128 =? 0) || is_digit x then symbol_end_unq f b (i + 1) x
        else if is_alpha_lc x then symbol_end_unq f b (i + 1) x
        else Some (Some (i, x))
      else Some (Some (i, clast))
    end
  end.

(* quoted branch: while (buf != end && *buf != QUOTE) { if ( *buf == '\\') { if (end - buf < 2) break; ++buf; } ++buf; } *)
Fixpoint symbol_end_q (fuel : nat) (b : buf) (i : Z) : lres :=
  match fuel with O => LFuel | S f =>
    if i =? blen b then LAt i else
    match get b i with None => LOob | Some x =>
      if x =? 34 then LAt i else
      if x =? 92 then (if blen b - i <? 2 then LAt i else symbol_end_q f b (i + 2))
      else symbol_end_q f b (i + 1)
    end
  end.

Definition symbol_end (b : buf) (c : pctx) (i : Z) : res unit :=
  if cunq c then
    match symbol_end_unq (scan_fuel b i) b i 0 with
    | None => Oob | Some None => Fuel
    | Some (Some (p, clast)) => if clast =? 46 then fail b c p JE_unexpected_character tt else Ok c p tt
    end
  else
    lp! p <- symbol_end_q (scan_fuel b i) b i;
    if p =? blen b then fail b c p JE_unterminated_string tt else
    rd! x <- b @ p;
    if negb (x =? 34) then fail b c p JE_unterminated_string tt else Ok c (p + 1) tt.

(* flatcc_json_parser_symbol_part: up to 8 bytes as a big endian word, left aligned *)
Fixpoint symbol_part_n (n : nat) (b : buf) (i : Z) (shift : Z) : option Z :=
  match n with O => Some 0 | S k =>
    match get b i with None => None | Some x =>
      match symbol_part_n k b (i + 1) (shift - 8) with None => None | Some w => Some (x * 2 ^ shift + w) end
    end
  end.
Definition symbol_part (b : buf) (i : Z) : option Z :=
  let n := blen b - i in
  symbol_part_n (Z.to_nat (if 8 <=? n then 8 else n)) b i 56.

(* flatcc_json_parser_match_scope *)
Definition match_scope (b : buf) (i pos : Z) : option Z :=
  if blen b - i <=? pos then Some i else
  match get b (i + pos) with None => None | Some x => if negb (x =? 46) then Some i else Some (i + pos + 1) end.

(* flatcc_json_parser_match_symbol *)
Definition match_symbol (b : buf) (c : pctx) (i pos : Z) : res unit :=
  if blen b - i <=? pos then Ok c i tt else
  rd! x <- b @ (i + pos);
  let cont (c1 : pctx) (j : Z) : res unit :=
    do! c2, p, _u <- space b c1 j;
    if p =? blen b then fail b c2 p JE_expected_colon tt else
    rd! y <- b @ p;
    if y =? 58 then space b c2 (p + 1) else fail b c2 p JE_expected_colon tt in
  if cunq c then
    if (32 <? uc x) && negb (x =? 58) then Ok c i tt else cont (set_unq c false) (i + pos)
  else
    if negb (x =? 34) then Ok c i tt else cont c (i + pos + 1).

(* memcmp(buf, lit, |lit|) == 0 with every byte of the range read *)
Fixpoint match_bytes (b : buf) (i : Z) (lit : list Z) : option bool :=
  match lit with [] => Some true | l :: t =>
    match get b i with None => None | Some x =>
      match match_bytes b (i + 1) t with None => None | Some r => Some ((x =? l) && r) end
    end
  end.
Definition lit_type : list Z := [95; 116; 121; 112; 101].     (* "_type" *)
Definition lit_null : list Z := [110; 117; 108; 108].
Definition lit_true : list Z := [116; 114; 117; 101].
Definition lit_false : list Z := [102; 97; 108; 115; 101].

(* flatcc_json_parser_match_type_suffix *)
Definition match_type_suffix (b : buf) (c : pctx) (i pos : Z) : res unit :=
  if blen b - i <=? pos + 5 then Ok c i tt else
  match match_bytes b (i + pos) lit_type with None => Oob
  | Some false => Ok c i tt
  | Some true => match_symbol b c i (pos + 5)
  end.

(* flatcc_json_parser_match_constant  (json_parser.c:418): value = more *)
Definition match_constant (b : buf) (c : pctx) (i pos : Z) : res bool :=
  let k := i + pos in
  if blen b - i <=? pos then Ok c i false else
  if cunq c then
    do! c1, p, _u <- space b c k;
    if p =? blen b then Ok c1 p false else
    rd! x <- b @ p;
    if negb (p =? k) && ((x =? 95) || negb (Z.land x 128 =? 0) || is_alpha_lc x) then Ok c1 p true else
    if (x =? 44) || (x =? 125) || (x =? 93) then Ok c1 p false else Ok c1 i false
  else
    rd! x <- b @ k;
    let tail (p : Z) : res bool :=
      rd! y <- b @ p;
      if y =? 92 then fail b c p JE_invalid_escape false else
      if y =? 34 then (do! c1, q, _u <- space b c (p + 1); Ok c1 q false) else Ok c i false in
    if x =? 32 then
      lp! p <- skip_sp (scan_fuel b (k + 1)) b (k + 1);
      if p =? blen b then Ok c p false else
      rd! y <- b @ p;
      if negb (y =? 34) then Ok c p true else tail p
    else tail k.

(* flatcc_json_parser_skip_constant  (json_parser.c:393) *)
Fixpoint skip_constant_go (fuel : nat) (b : buf) (c : pctx) (i : Z) : res unit :=
  match fuel with O => Fuel | S f =>
    if i =? blen b then Ok c i tt else
    rd! x <- b @ i;
    if negb (Z.land x 128 =? 0) || (x =? 95) || is_digit x || (x =? 46) then skip_constant_go f b c (i + 1) else
    if is_alpha_lc x then skip_constant_go f b c (i + 1) else
    do! c1, p, _u <- space b c i;
    if p =? i then Ok c1 p tt else skip_constant_go f b c1 p
  end.
Definition skip_constant (b : buf) (c : pctx) (i : Z) : res unit := skip_constant_go (scan_fuel b i) b c i.

(* ------------------------------------------------------------------ object / array delimiters; value = more *)
Definition delim_start (open close err : Z) (b : buf) (c : pctx) (i : Z) : res bool :=
  if i =? blen b then fail b c i err false else
  rd! x <- b @ i;
  if negb (x =? open) then fail b c i err false else
  do! c1, p, _u <- space b c (i + 1);
  if p =? blen b then Ok c1 p true else
  rd! y <- b @ p;
  if y =? close then (do! c2, q, _u <- space b c1 (p + 1); Ok c2 q false) else Ok c1 p true.
Definition object_start := delim_start 123 125 JE_expected_object.
Definition array_start := delim_start 91 93 JE_expected_array.

Definition delim_end (close err : Z) (b : buf) (c : pctx) (i : Z) : res bool :=
  do! c1, p, _u <- space b c i;
  if p =? blen b then Ok c1 p false else
  rd! x <- b @ p;
  if negb (x =? 44) then
    if negb (x =? close) then fail b c1 p err false
    else (do! c2, q, _u <- space b c1 (p + 1); Ok c2 q false)
  else
    do! c2, q, _u <- space b c1 (p + 1);
    if q =? blen b then fail b c2 q err false else
    rd! y <- b @ q;
    if y =? close then (do! c3, r, _u <- space b c2 (q + 1); Ok c3 r false)   (* trailing comma *)
    else Ok c2 q true.
Definition object_end := delim_end 125 JE_unbalanced_object.
Definition array_end := delim_end 93 JE_unbalanced_array.

(* ------------------------------------------------------------------ constants *)
(* flatcc_json_parser_null: position only *)
Definition null (b : buf) (i : Z) : option Z :=
  if 4 <=? blen b - i then
    match match_bytes b i lit_null with None => None | Some true => Some (i + 4) | Some false => Some i end
  else Some i.
(* flatcc_json_parser_none *)
Definition none (b : buf) (c : pctx) (i : Z) : res unit :=
  match null b i with None => Oob | Some p =>
    if p =? i then fail b c i JE_union_none_not_null tt else Ok c p tt end.

(* ------------------------------------------------------------------ integer  (flatcc_json_parser_integer)
   The decimal accumulation with the overflow test of /repo HEAD (fix 13090de):
       x0 = *buf - '0';  if (x > (UINT64_MAX - x0) / 10) error;  x = x * 10 + x0;
   (the pinned snapshot compared `x0 > x` after the wrapped multiplication and missed most overflows).
   The numeric semantics are C19's (coq/Num/NumModel.v [ovf_fixed]); here the value only decides where scanning stops. *)
Fixpoint integer_digits (fuel : nat) (b : buf) (i : Z) (x : Z) : option (option (Z * Z + Z)) :=
  (* Some (Some (inl (p, x))): stopped at p with value x; inr p: overflow detected at p *)
  match fuel with O => Some None | S f =>
    if i =? blen b then Some (Some (inl (i, x))) else
    match get b i with None => None | Some d =>
      if is_digit d then
        let x0 := d - 48 in
        if x >? (U64_MAX - x0) / 10 then Some (Some (inr i)) else integer_digits f b (i + 1) (u64 (x * 10 + x0))
      else Some (Some (inl (i, x)))
    end
  end.

(* value = (sign, magnitude) *)
Definition integer (b : buf) (c : pctx) (i : Z) : res (bool * Z) :=
  if i =? blen b then Ok c i (false, 0) else
  rd! x0 <- b @ i;
  let sign := x0 =? 45 in
  let j := if sign then i + 1 else i in
  match integer_digits (scan_fuel b j) b j 0 with
  | None => Oob | Some None => Fuel
  | Some (Some (inr p)) => fail b c p JE_underflow (sign, 0)      (* `value_sign ?` tests the pointer: always underflow *)
  | Some (Some (inl (p, v))) =>
    if p =? i then Ok c p (sign, 0) else
    if p =? blen b then Ok c p (sign, v) else
    rd! y <- b @ p;
    if (y =? 101) || (y =? 69) || (y =? 46) then fail b c p JE_float_unexpected (sign, 0) else Ok c p (sign, v)
  end.

(* flatcc_json_parser_uint8 = integer + coerce_uint8 *)
Definition uint8 (b : buf) (c : pctx) (i : Z) : res Z :=
  if i =? blen b then Ok c i 0 else
  do! c1, p, sv <- integer b c i;
  if p =? i then Ok c1 p 0 else
  let '(sign, v) := sv in
  if sign then fail b c1 p JE_underflow 0 else
  if 255 <? v then fail b c1 p JE_overflow 0 else Ok c1 p v.

(* flatcc_json_parser_bool *)
Definition bool_ (b : buf) (c : pctx) (i : Z) : res Z :=
  let other := do! c1, p, v <- uint8 b c i; Ok c1 p (if v =? 0 then 0 else 1) in
  let try_false :=
    if 5 <=? blen b - i then
      match match_bytes b i lit_false with None => Oob | Some true => Ok c (i + 5) 0 | Some false => other end
    else other in
  if 4 <=? blen b - i then
    match match_bytes b i lit_true with None => Oob | Some true => Ok c (i + 4) 1 | Some false => try_false end
  else try_false.

(* ------------------------------------------------------------------ number syntax  (json_parser.c:516) *)
Fixpoint digits (fuel : nat) (b : buf) (i : Z) : lres :=
  match fuel with O => LFuel | S f =>
    if i =? blen b then LAt i else
    match get b i with None => LOob | Some x => if is_digit x then digits f b (i + 1) else LAt i end
  end.

Definition num_fail (b : buf) (c : pctx) (p : Z) : res unit := fail b c p JE_invalid_numeric tt.

(* the final successor test (json_parser.c:576) *)
Definition num_final (b : buf) (c : pctx) (r : Z) : res unit :=
  if r =? blen b then num_fail b c r else
  rd! t <- b @ r;
  if (t =? 44) || (t =? 58) || (t =? 93) || (t =? 125) || (t =? 32) || (t =? 13) || (t =? 9) || (t =? 10) || (t =? 11)
  then Ok c r tt else num_fail b c r.

(* optional exponent (json_parser.c:550) *)
Definition num_exp (b : buf) (c : pctx) (q : Z) : res unit :=
  if q =? blen b then num_final b c q else
  rd! e <- b @ q;
  if (e =? 101) || (e =? 69) then
    let q1 := q + 1 in
    if q1 =? blen b then num_fail b c q1 else
    rd! s <- b @ q1;
    let q2 := if (s =? 43) || (s =? 45) then q1 + 1 else q1 in
    if q2 =? blen b then num_fail b c q2 else
    rd! d <- b @ q2;
    if negb (is_digit d) then num_fail b c q2 else
    lp! r <- digits (scan_fuel b (q2 + 1)) b (q2 + 1);
    num_final b c r
  else num_final b c q.

(* optional fraction (json_parser.c:538).  [guarded = false] is the code as it stands: line 541 reads *buf right
   after the '.' without testing buf != end;  [guarded = true] adds the missing `buf == end ||`. *)
Definition num_frac (guarded : bool) (b : buf) (c : pctx) (p : Z) : res unit :=
  if p =? blen b then num_exp b c p else
  rd! dot <- b @ p;
  if dot =? 46 then
    let p1 := p + 1 in
    if guarded && (p1 =? blen b) then num_fail b c p1 else
    rd! d <- b @ p1;                                   (* json_parser.c:541 *)
    if negb (is_digit d) then num_fail b c p1 else
    lp! q <- digits (scan_fuel b (p1 + 1)) b (p1 + 1);
    num_exp b c q
  else num_exp b c p.

(* integer part, at the first character after the optional sign (buf != end here) *)
Definition num_int (guarded : bool) (b : buf) (c : pctx) (j : Z) : res unit :=
  rd! x <- b @ j;
  if x =? 48 then num_frac guarded b c (j + 1) else
  if negb ((49 <=? x) && (x <=? 57)) then num_fail b c j else
  lp! p <- digits (scan_fuel b (j + 1)) b (j + 1);
  num_frac guarded b c p.

Definition number_gen (guarded : bool) (b : buf) (c : pctx) (i : Z) : res unit :=
  if i =? blen b then Ok c i tt else
  rd! x0 <- b @ i;
  if x0 =? 45 then
    if i + 1 =? blen b then num_fail b c (i + 1) else num_int guarded b c (i + 1)
  else num_int guarded b c i.

Definition number := number_gen true.
Definition number_current := number_gen false.

(* ------------------------------------------------------------------ generic_json  (json_parser.c:639) *)
(* the string case: string_start; while (buf != end && *buf != QUOTE) { string_part; if at QUOTE break; string_escape }; string_end *)
Fixpoint gstring_loop (fuel : nat) (b : buf) (c : pctx) (i : Z) : res unit :=
  match fuel with O => Fuel | S f =>
    if i =? blen b then Ok c i tt else
    rd! x <- b @ i;
    if x =? 34 then Ok c i tt else
    do! c1, p, _u <- string_part b c i;
    if p =? blen b then
      (* string_escape at end: `end - buf < 2`, first error wins *)
      do! c2, q, _v <- string_escape b c1 p; gstring_loop f b c2 q
    else
      rd! y <- b @ p;
      if y =? 34 then Ok c1 p tt else
      do! c2, q, _v <- string_escape b c1 p; gstring_loop f b c2 q
  end.

Definition gstring (b : buf) (c : pctx) (i : Z) : res unit :=
  do! c1, p, _u <- string_start b c i;
  do! c2, q, _u2 <- gstring_loop (scan_fuel b p) b c1 p;
  string_end b c2 q.

Inductive glabel := GAgain | GPop.
Definition RBRACKET : Z := 93.
Definition RBRACE : Z := 125.

(* `char stack[FLATCC_JSON_PARSE_GENERIC_MAX_NEST]`, top first.  `*sp++ = x` is a write into that array:
   [None] is a write past stack[MAX_NEST - 1]. *)
Definition spush (x : Z) (st : list Z) : option (list Z) :=
  if Z.of_nat (length st) <? JSON_GENERIC_MAX_NEST then Some (x :: st) else None.

(* the `switch ( *buf)` of one value at j; [rec] continues at label `again` / at the closing loop.
   [guarded = false]: the code as it stands (line 667 `switch ( *buf)` is reached with buf == end after the key's colon,
   and the number scanner lacks its guard); [guarded = true]: with the two missing guards. *)
Definition gvalue (guarded : bool) (rec : pctx -> Z -> list Z -> glabel -> res unit)
    (b : buf) (c0 : pctx) (j : Z) (st : list Z) : res unit :=
  if guarded && (j =? blen b) then fail b c0 j JE_unbalanced_object tt else
  rd! x <- b @ j;                                             (* json_parser.c:667 *)
  if x =? 34 then
    do! c1, p, _u <- gstring b c0 j; rec c1 p st GPop
  else if (x =? 45) || is_digit x then
    do! c1, p, _u <- number_gen guarded b c0 j; rec c1 p st GPop
  else if (x =? 91) || (x =? 123) then
    let close := if x =? 91 then RBRACKET else RBRACE in
    (* sp == spend *)
    if Z.of_nat (length st) =? JSON_GENERIC_MAX_NEST then fail b c0 j JE_deep_nesting tt else
    match spush close st with None => Oob | Some st1 =>
      do! c1, p, _u <- space b c0 (j + 1);
      if p =? blen b then rec c1 p st1 GAgain else
      rd! y <- b @ p;
      if y =? close then rec c1 p st1 GPop else rec c1 p st1 GAgain
    end
  else
    do! c1, p, _u <- skip_constant b c0 j;
    if p =? j then fail b c1 p JE_unexpected_character tt else rec c1 p st GPop.

(* inside an object, about to read a field name (json_parser.c:654-666): value = position of the value *)
Definition gkey (b : buf) (c : pctx) (i : Z) : res (option Z) :=
  do! c1, p1, _u1 <- symbol_start b c i;
  do! c2, p2, _u2 <- symbol_end b c1 p1;
  do! c3, p3, _u3 <- space b c2 p2;
  if p3 =? blen b then fail b c3 p3 JE_unbalanced_object None else
  rd! x <- b @ p3;
  if negb (x =? 58) then fail b c3 p3 JE_expected_colon None else
  do! c4, p4, _u4 <- space b c3 (p3 + 1);
  Ok c4 p4 (Some p4).

Fixpoint generic_go (guarded : bool) (fuel : nat) (b : buf) (c : pctx) (i : Z) (st : list Z) (lbl : glabel) : res unit :=
  match fuel with O => Fuel | S f =>
  match lbl with
  | GAgain =>
    if i =? blen b then Ok c i tt else
    match st with
    | t :: _ =>
      if t =? RBRACE then
        do! c4, p4, k <- gkey b c i;
        match k with
        | None => Ok c4 p4 tt                                  (* `return set_error(...)` *)
        | Some j => gvalue guarded (generic_go guarded f b) b c4 j st
        end
      else gvalue guarded (generic_go guarded f b) b c i st
    | [] => gvalue guarded (generic_go guarded f b) b c i st
    end
  | GPop =>
    (* while (buf != end && sp != stack) { --sp; ... if (more) { ++sp; goto again; } } *)
    match st with
    | t :: st' =>
      if i =? blen b then
        fail b c i (if t =? RBRACKET then JE_unbalanced_array else JE_unbalanced_object) tt
      else
        do! c1, p, more <- (if t =? RBRACKET then array_end b c i else object_end b c i);
        if more then generic_go guarded f b c1 p st GAgain else generic_go guarded f b c1 p st' GPop
    | [] => Ok c i tt
    end
  end end.

Definition generic_fuel (b : buf) (i : Z) : nat := S (S (Z.to_nat (2 * (blen b - i)))).
Definition generic_json_gen (guarded : bool) (b : buf) (c : pctx) (i : Z) : res unit :=
  generic_go guarded (generic_fuel b i) b c i [] GAgain.
Definition generic_json := generic_json_gen true.
Definition generic_json_current := generic_json_gen false.

(* flatcc_json_parser_unmatched_symbol *)
Definition unmatched_symbol_gen (guarded : bool) (b : buf) (c : pctx) (i : Z) : res unit :=
  if has_flag c JF_skip_unknown then
    do! c1, p1, _u1 <- symbol_end b c i;
    do! c2, p2, _u2 <- space b c1 p1;
    if p2 =? blen b then fail b c2 p2 JE_expected_colon tt else
    rd! x <- b @ p2;
    if x =? 58 then
      do! c3, p3, _u3 <- space b c2 (p2 + 1);
      generic_json_gen guarded b c3 p3
    else fail b c2 p2 JE_expected_colon tt
  else fail b c i JE_unknown_symbol tt.
Definition unmatched_symbol := unmatched_symbol_gen true.

(* ------------------------------------------------------------------ strings with content *)
(* bytes [i, j) of the input; None when the range is not inside the input (memcpy / append of input bytes) *)
Fixpoint bytes_from (n : nat) (b : buf) (i : Z) : list Z :=
  match n with O => [] | S k => bget b i :: bytes_from k b (i + 1) end.
Definition slice (b : buf) (i j : Z) : option (list Z) :=
  if (0 <=? i) && (i <=? j) && (j <=? blen b) then Some (bytes_from (Z.to_nat (j - i)) b i) else None.

Notation "'sl!' s <- b @[ i , j ] ; k" := (match slice b i j with Some s => k | None => Oob end)
  (at level 200, s name, b at level 9, k at level 200).

(* flatcc_json_parser_build_string (json_parser.c:890): the text handed to the builder (create_string or
   start/append/end_string); builder failures are outside this model. *)
Fixpoint build_string_loop (fuel : nat) (b : buf) (c : pctx) (i : Z) (acc : list Z) : res (list Z) :=
  match fuel with O => Fuel | S f =>
    if i =? blen b then Ok c i acc else
    rd! x <- b @ i;
    if x =? 34 then Ok c i acc else
    do! c1, p, code <- string_escape b c i;
    do! c2, q, _u <- string_part b c1 p;
    if q =? blen b then build_string_loop f b c2 q (acc ++ code)
    else (sl! s <- b @[p, q]; build_string_loop f b c2 q (acc ++ code ++ s))
  end.

Definition build_string (b : buf) (c : pctx) (i : Z) : res (list Z) :=
  do! c1, m, _u <- string_start b c i;
  do! c2, p, _u2 <- string_part b c1 m;
  sl! s <- b @[m, p];
  let quoted := if p =? blen b then Some false else match get b p with None => None | Some x => Some (x =? 34) end in
  match quoted with None => Oob
  | Some true => do! c3, q, _u3 <- string_end b c2 p; Ok c3 q s
  | Some false =>
    do! c3, q, text <- build_string_loop (scan_fuel b p) b c2 p s;
    do! c4, r, _u4 <- string_end b c3 q; Ok c4 r text
  end.

(* flatcc_json_parser_char_array (json_parser.c:841): value = the bytes written to s[0..n0) in order
   (always at most n0 of them); on the early `return end` paths the array is left partly written. *)
Definition take_z (k : Z) (l : list Z) : list Z := firstn (Z.to_nat k) l.

Fixpoint char_array_loop (fuel : nat) (b : buf) (c : pctx) (i : Z) (n : Z) (acc : list Z) : res (list Z * Z * bool) :=
  (* value: (bytes written so far, remaining n, finished normally) *)
  match fuel with O => Fuel | S f =>
    rd! x <- b @ i;
    if x =? 34 then Ok c i (acc, n, true) else
    do! c1, p, _u <- string_part b c i;
    if p =? blen b then Ok c1 p (acc, n, false) else
    sl! s <- b @[i, p];
    let k := p - i in
    if (n <? k) && negb (has_flag c1 JF_skip_array_overflow) then
      Ok (set_error c1 p JE_array_overflow) (blen b) (acc, n, false) else
    let k := if n <? k then n else k in
    let acc1 := acc ++ take_z k s in
    let n1 := n - k in
    rd! y <- b @ p;
    if y =? 34 then Ok c1 p (acc1, n1, true) else
    do! c2, q, code <- string_escape b c1 p;
    if q =? blen b then Ok c2 q (acc1, n1, false) else
    let k2 := Z.of_nat (length code) in
    if (n1 <? k2) && negb (has_flag c2 JF_skip_array_overflow) then
      Ok (set_error c2 q JE_array_overflow) (blen b) (acc1, n1, false) else
    let k2 := if n1 <? k2 then n1 else k2 in
    char_array_loop f b c2 q (n1 - k2) (acc1 ++ take_z k2 code)
  end.

Definition char_array (b : buf) (c : pctx) (i : Z) (n : Z) : res (list Z) :=
  do! c1, m, _u <- string_start b c i;
  if m =? blen b then
    (* `if (buf != end)` skips the loop; n != 0 handling and string_end follow *)
    if negb (n =? 0) && has_flag c1 JF_reject_array_underflow then
      Ok (set_error c1 m JE_array_underflow) (blen b) []
    else (do! c2, q, _u2 <- string_end b c1 m; Ok c2 q (repeat 0 (Z.to_nat n)))
  else
    do! c2, p, r <- char_array_loop (scan_fuel b m) b c1 m n [];
    let '(acc, n1, fin) := r in
    if negb fin then Ok c2 p acc else
    if negb (n1 =? 0) && has_flag c2 JF_reject_array_underflow then
      Ok (set_error c2 p JE_array_underflow) (blen b) acc
    else (do! c3, q, _u3 <- string_end b c2 p; Ok c3 q (acc ++ repeat 0 (Z.to_nat n1))).

(* ------------------------------------------------------------------ observable outcome of one call *)
Inductive sres (A : Type) := SOk (p : Z) (v : A) | SErr (code : Z) (loc : Z) | SOob | SFuel.
Arguments SOk {A}. Arguments SErr {A}. Arguments SOob {A}. Arguments SFuel {A}.
Definition observe {A} (r : res A) : sres A :=
  match r with
  | Ok c p v => if cerr c =? 0 then SOk p v else SErr (cerr c) (cerrloc c)
  | Oob => SOob
  | Fuel => SFuel
  end.
