(* C04 (parser layer): the CONTROL FLOW of the generated table parsers as an interpreter over a schema descriptor.

   Source: src/compiler/codegen_c_json_parser.c  gen_table_parser / gen_field_match_handler (what a generated
   `<T>_parse_json_table` does), src/runtime/json_parser.c  flatcc_json_parser_table_as_root, build_string, and the
   builder calls they issue (start_table / table_add / table_add_offset / check_required_field / end_table,
   create_string / start_string, start_vector / extend_vector / end_vector, start_offset_vector / ... / end_offset_vector,
   enter_frame's level test).

   The scanner primitives are those of Json/Scanner.v (space, object/array delimiters, symbol_start, match_symbol,
   unmatched_symbol incl. the generic skipper, string_start/part/escape/end, integer, bool).

   What is ABSTRACTED (each point is named in design.d/C04-parser.md):
   * name dispatch: the generated trie is replaced by exact lookup in the table's field-name list
     ([find_field]: the first declared name that is a prefix of the text at the symbol position and is accepted by
     flatcc_json_parser_match_symbol with that length) - C10 proves this of the generated tries;
   * scalar values: a parameter [sp] (position, little-endian value bytes) with the contract [sp_ok] of ParserProofs.v;
     [sp_int] below is the concrete instance for integer / bool literals (flatcc_json_parser_<int type> + coerce);
     the symbolic-constant path (enum names, flatcc_json_parser_symbolic_TYPE) is reported as [PStop W_OUT];
   * after the first error the C code keeps running with buf == end until `if (ctx->error) goto failed`; since
     flatcc_json_parser_set_error keeps the FIRST error (C04_first_error_wins) the model stops at the first error:
     [PErr code loc] is ctx->error / ctx->error_loc at the return of <T>_parse_json_as_root;
   * builder allocation failures and the emitter are outside this model; the builder-side result is the create-level
     script of Builder/EmitModel.v (objects in order of completion), whose execution is [EmitModel.run].

   Fragment: tables with scalar (all integer types, bool, enum given as integer), string, scalar vector, string vector,
   table and table vector fields; required fields.  NOT modelled: unions, union vectors, nested buffers, base64,
   structs and fixed arrays, floats, optional scalars, symbolic constants, struct roots.
   No proofs in this file. *)
From Flatcc.Json Require Export Scanner.
From Flatcc.Format Require Export Schema Spec.
From Flatcc.Builder Require Export EmitModel.
Local Open Scope Z_scope.

(* ------------------------------------------------------------------ schema descriptor *)
(* integer scalar type of a field: byte size (1,2,4,8; alignment = size), signedness, bool *)
Record sty := { st_size : Z; st_signed : bool; st_bool : bool }.

Inductive pkind :=
| PScalar (ty : sty) (dflt : list Z)      (* default value as little-endian bytes *)
| PString
| PVecScalar (ty : sty)
| PVecString
| PTable (t : nat)
| PVecTable (t : nat).

Record pfield := { pf_name : list Z; pf_id : Z; pf_req : bool; pf_kind : pkind }.
Definition pschema := list (list pfield).

(* FLATBUFFERS_COUNT_MAX(elem_size) as printed into the start_vector call *)
Definition count_max (size : Z) : Z := U32_MAX / size.

Definition to_fkind (k : pkind) : fkind :=
  match k with
  | PScalar ty _ => FScalar (st_size ty) (st_size ty)
  | PString => FString
  | PVecScalar ty => FVector (st_size ty) (st_size ty) (count_max (st_size ty))
  | PVecString => FStringVec
  | PTable t => FTable t
  | PVecTable t => FTableVec t
  end.
Definition to_field (f : pfield) : field := {| fid := pf_id f; frequired := pf_req f; fk := to_fkind (pf_kind f) |}.
Definition to_schema (PS : pschema) : schema := {| tables := map (map to_field) PS; unions := [] |}.

(* ------------------------------------------------------------------ results *)
Definition W_OOB : Z := 0.       (* a read outside [0, blen b) *)
Definition W_FUEL : Z := 1.      (* out of fuel *)
Definition W_OUT : Z := 2.       (* input / schema outside the modelled fragment *)

(* [POk c p s v]: no error so far, position p, script body s (objects created so far, in order of completion) *)
Inductive pres (A : Type) :=
| POk (c : pctx) (p : Z) (s : list cmd) (v : A)
| PErr (code loc : Z)
| PStop (w : Z).
Arguments POk {A}. Arguments PErr {A}. Arguments PStop {A}.

(* a scanner call followed by `the rest`; the rest is only reached without error *)
Definition lift {A B} (r : res A) (k : pctx -> Z -> A -> pres B) : pres B :=
  match r with
  | Ok c p v => if cerr c =? 0 then k c p v else PErr (cerr c) (cerrloc c)
  | Oob => PStop W_OOB
  | Fuel => PStop W_FUEL
  end.

(* `goto failed` with no error recorded yet: set_error(ctx, buf, end, flatcc_json_parser_error_runtime) *)
Definition failed {A} (p : Z) : pres A := PErr JE_runtime p.

(* ------------------------------------------------------------------ scalar values *)
Inductive sval :=
| SBytes (l : list Z)        (* parsed; the value as little-endian bytes *)
| SFailed                    (* `if (buf == mark || buf == end) goto failed` *)
| SOutside.                  (* symbolic constant path: not modelled *)

Definition scalar_parser := sty -> buf -> pctx -> Z -> res sval.

Fixpoint le_bytes (n : nat) (x : Z) : list Z :=
  match n with O => [] | S k => (x mod 256) :: le_bytes k (x / 256) end.

(* flatcc_json_parser_coerce_<type>: value as the unsigned image of the C value *)
Definition coerce (ty : sty) (b : buf) (c : pctx) (p : Z) (sign : bool) (v : Z) : res sval :=
  let bits := 8 * st_size ty in
  let enc x := Ok c p (SBytes (le_bytes (Z.to_nat (st_size ty)) (x mod 2 ^ bits))) in
  if st_signed ty then
    if sign then
      if 2 ^ (bits - 1) <? v then fail b c p JE_underflow SFailed else enc (2 ^ bits - v)
    else
      if 2 ^ (bits - 1) - 1 <? v then fail b c p JE_overflow SFailed else enc v
  else
    if sign then fail b c p JE_underflow SFailed else
    if 2 ^ bits - 1 <? v then fail b c p JE_overflow SFailed else enc v.

(* flatcc_json_parser_<int type> / flatcc_json_parser_bool followed by the generated
   `if (mark == buf) { buf = flatcc_json_parser_symbolic_<type>(...); if (buf == mark || buf == end) goto failed; }` *)
Definition sp_int : scalar_parser := fun ty b c i =>
  if i =? blen b then Ok c i SFailed else        (* both parsers return buf; constant_start returns end *)
  if st_bool ty then
    do! c1, p, v <- bool_ b c i;
    if p =? i then Ok c1 p SOutside else Ok c1 p (SBytes [v])
  else
    do! c1, p, sv <- integer b c i;
    if p =? i then Ok c1 p SOutside else
    if negb (cerr c1 =? 0) then Ok c1 p SFailed else     (* integer returned end with an error: first error wins *)
    coerce ty b c1 p (fst sv) (snd sv).

(* ------------------------------------------------------------------ helpers *)
Fixpoint list_eqb (a b : list Z) : bool :=
  match a, b with
  | [], [] => true
  | x :: r, y :: s => (x =? y) && list_eqb r s
  | _, _ => false
  end.

Definition targ_id (a : targ) : Z := match a with TInline id _ _ _ => id | TOffset id _ => id end.
Definition has_id (id : Z) (adds : list targ) : bool := existsb (fun a => targ_id a =? id) adds.

(* the text at i starts with the name *)
Fixpoint name_at (b : buf) (i : Z) (nm : list Z) : bool :=
  match nm with
  | [] => true
  | x :: r => match get b i with Some y => (y =? x) && name_at b (i + 1) r | None => false end
  end.

(* exact dispatch (C10): the declared field whose name is a prefix of the symbol and which
   flatcc_json_parser_match_symbol(ctx, buf, end, strlen(name)) accepts; with it the result of that call *)
Fixpoint find_field (flds : list pfield) (b : buf) (c : pctx) (i : Z) : option (pfield * res unit) :=
  match flds with
  | [] => None
  | fd :: r =>
    if name_at b i (pf_name fd) then
      match match_symbol b c i (lenZ (pf_name fd)) with
      | Ok c' p u => if p =? i then find_field r b c i else Some (fd, Ok c' p u)
      | e => Some (fd, e)
      end
    else find_field r b c i
  end.

(* ------------------------------------------------------------------ strings *)
(* flatcc_json_parser_build_string with the builder calls it issues: create_string when the text has no escape,
   otherwise start_string (a frame: enter_frame fails above max_level) / append / end_string.
   [lvl] = the builder's current level. *)
Definition pstring (maxlvl lvl : Z) (b : buf) (c : pctx) (i : Z) (s : list cmd) : pres (nat * list Z) :=
  lift (string_start b c i) (fun c1 m _ =>
  lift (string_part b c1 m) (fun c2 p _ =>
  match slice b m p with None => PStop W_OOB | Some t0 =>
  match (if p =? blen b then Some false else match get b p with None => None | Some x => Some (x =? 34) end) with
  | None => PStop W_OOB
  | Some true =>
    lift (string_end b c2 p) (fun c3 q _ => POk c3 q (s ++ [CString t0]) (length s, t0))
  | Some false =>
    if maxlvl <? lvl + 1 then failed p else
    lift (build_string_loop (scan_fuel b p) b c2 p t0) (fun c3 q text =>
    lift (string_end b c3 q) (fun c4 r _ => POk c4 r (s ++ [CString text]) (length s, text)))
  end end)).

(* ------------------------------------------------------------------ the table frame *)
(* adds = the table_add / table_add_offset calls so far, in call order; vals = the value of each; dmax = depth bound of
   the children added so far *)
Record tframe := { adds : list targ; vals : list (Z * value); dmax : nat }.
Definition frame0 : tframe := {| adds := []; vals := []; dmax := O |}.
Definition frame_add (fr : tframe) (a : targ) (v : value) (d : nat) : tframe :=
  {| adds := adds fr ++ [a]; vals := vals fr ++ [(targ_id a, v)]; dmax := Nat.max (dmax fr) d |}.

(* `if (!ref || !(pref = flatcc_builder_table_add_offset(ctx->ctx, id))) goto failed;`: the field is already set *)
Definition add_offset {A} (fr : tframe) (id : Z) (r : nat) (v : value) (d : nat) (p : Z) (k : tframe -> pres A) : pres A :=
  if has_id id (adds fr) then failed p else k (frame_add fr (TOffset id r) v d).

Definition required_ok (flds : list pfield) (ads : list targ) : bool :=
  forallb (fun fd => negb (pf_req fd) || has_id (pf_id fd) ads) flds.

(* size of the data area of the table (Builder/Script.v tplace_end) *)
Definition targ_size (a : targ) : Z := match a with TInline _ s _ _ => s | TOffset _ _ => 4 end.
Definition targ_align (a : targ) : Z := match a with TInline _ _ al _ => al | TOffset _ _ => 4 end.
Fixpoint place_end (ads : list targ) (off : Z) : Z :=
  match ads with
  | [] => off
  | a :: r => place_end r (u32 (alignup off (targ_align a) + targ_size a))
  end.

(* present fields in schema order *)
Definition order_vals (flds : list pfield) (vs : list (Z * value)) : list (Z * value) :=
  flat_map (fun fd => match assocZ (pf_id fd) vs with Some v => [(pf_id fd, v)] | None => [] end) flds.

(* after the member loop: `if (ctx->error) goto failed;` (no error here), the required tests, end_table *)
Definition tfinish (flds : list pfield) (c : pctx) (q : Z) (s : list cmd) (fr : tframe) : pres (nat * value * nat) :=
  if negb (required_ok flds (adds fr)) then PErr JE_required q else
  if 65535 <? place_end (adds fr) 0 + 4 then PStop W_OUT else       (* table data above 64 KiB: builder assertion *)
  POk c q (s ++ [CTable (adds fr)]) (length s, VTable (order_vals flds (vals fr)), S (dmax fr)).

(* ------------------------------------------------------------------ vectors of scalars and of strings *)
(* while (more) { extend_vector(1); <scalar>; write; array_end } *)
Fixpoint pscalvec (fuel : nat) (sp : scalar_parser) (ty : sty) (b : buf) (c : pctx) (i : Z) (s : list cmd)
    (elems : list (list Z)) : pres (list (list Z)) :=
  match fuel with O => PStop W_FUEL | S f =>
    if count_max (st_size ty) <? Z.of_nat (length elems) + 1 then failed i else      (* extend_vector: count above max_count *)
    lift (sp ty b c i) (fun c1 p sv =>
    match sv with
    | SOutside => PStop W_OUT
    | SFailed => failed p
    | SBytes bytes =>
      lift (array_end b c1 p) (fun c2 q more =>
      if more then pscalvec f sp ty b c2 q s (elems ++ [bytes]) else POk c2 q s (elems ++ [bytes]))
    end)
  end.

(* while (more) { build_string; extend_offset_vector(1); array_end } *)
Fixpoint pstrvec (fuel : nat) (maxlvl lvl : Z) (b : buf) (c : pctx) (i : Z) (s : list cmd)
    (rs : list nat) (vs : list value) : pres (list nat * list value) :=
  match fuel with O => PStop W_FUEL | S f =>
    match pstring maxlvl lvl b c i s with
    | PErr e l => PErr e l
    | PStop w => PStop w
    | POk c1 p s1 (r, text) =>
      lift (array_end b c1 p) (fun c2 q more =>
      if more then pstrvec f maxlvl lvl b c2 q s1 (rs ++ [r]) (vs ++ [VString text])
      else POk c2 q s1 (rs ++ [r], vs ++ [VString text]))
    end
  end.

(* ------------------------------------------------------------------ one matched member: gen_field_match_handler *)
Definition tres := pres (nat * value * nat).                 (* register, value, depth bound *)
Definition vres := pres (list nat * list value * nat).

Definition pvalue (sp : scalar_parser) (maxlvl : Z)
    (rec_table : nat -> Z -> pctx -> Z -> list cmd -> tres)
    (rec_tabvec : nat -> Z -> pctx -> Z -> list cmd -> list nat -> list value -> nat -> vres)
    (fd : pfield) (lvl : Z) (b : buf) (c : pctx) (i : Z) (s : list cmd) (fr : tframe) : pres tframe :=
  let id := pf_id fd in
  match pf_kind fd with
  | PScalar ty dflt =>
    lift (sp ty b c i) (fun c1 p sv =>
    match sv with
    | SOutside => PStop W_OUT
    | SFailed => failed p
    | SBytes bytes =>
      (* if (val != default || (ctx->flags & force_add)) { if (!(pval = table_add(id, size, align))) goto failed; write } *)
      if list_eqb bytes dflt && negb (has_flag c1 JF_force_add) then POk c1 p s fr else
      if has_id id (adds fr) then failed p else
      POk c1 p s (frame_add fr (TInline id (st_size ty) (st_size ty) bytes) (VBytes bytes) O)
    end)
  | PString =>
    match pstring maxlvl lvl b c i s with
    | PErr e l => PErr e l
    | PStop w => PStop w
    | POk c1 p s1 (r, text) => add_offset fr id r (VString text) O p (fun fr1 => POk c1 p s1 fr1)
    end
  | PVecScalar ty =>
    if maxlvl <? lvl + 1 then failed i else                       (* start_vector *)
    lift (array_start b c i) (fun c1 p more =>
    let fin c2 q elems :=
      let s1 := s ++ [CVector (st_size ty) (st_size ty) (count_max (st_size ty)) (Z.of_nat (length elems)) (concat elems)] in
      add_offset fr id (length s) (VVec elems) O q (fun fr1 => POk c2 q s1 fr1) in
    if more then
      match pscalvec (scan_fuel b p) sp ty b c1 p s [] with
      | PErr e l => PErr e l
      | PStop w => PStop w
      | POk c2 q _ elems => fin c2 q elems
      end
    else fin c1 p [])
  | PVecString =>
    if maxlvl <? lvl + 1 then failed i else                       (* start_offset_vector *)
    lift (array_start b c i) (fun c1 p more =>
    let fin c2 q s1 rs vs :=
      add_offset fr id (length s1) (VOffVec vs) O q (fun fr1 => POk c2 q (s1 ++ [COffVec rs]) fr1) in
    if more then
      match pstrvec (scan_fuel b p) maxlvl (lvl + 1) b c1 p s [] [] with
      | PErr e l => PErr e l
      | PStop w => PStop w
      | POk c2 q s1 (rs, vs) => fin c2 q s1 rs vs
      end
    else fin c1 p s [] [])
  | PTable t =>
    match rec_table t lvl c i s with
    | PErr e l => PErr e l
    | PStop w => PStop w
    | POk c1 p s1 (r, v, d) => add_offset fr id r v d p (fun fr1 => POk c1 p s1 fr1)
    end
  | PVecTable t =>
    if maxlvl <? lvl + 1 then failed i else                       (* start_offset_vector *)
    lift (array_start b c i) (fun c1 p more =>
    let fin c2 q s1 rs vs d :=
      add_offset fr id (length s1) (VOffVec vs) d q (fun fr1 => POk c2 q (s1 ++ [COffVec rs]) fr1) in
    if more then
      match rec_tabvec t (lvl + 1) c1 p s [] [] O with
      | PErr e l => PErr e l
      | PStop w => PStop w
      | POk c2 q s1 (rs, vs, d) => fin c2 q s1 rs vs d
      end
    else fin c1 p s [] [] O)
  end.

(* ------------------------------------------------------------------ tables: gen_table_parser *)
Section Parser.
Variable sp : scalar_parser.
Variable maxlvl : Z.            (* B->max_level during the parse: FLATCC_JSON_PARSE_MAX_LEVELS *)
Variable PS : pschema.
Variable b : buf.

(* [lvl] = the builder level when the function is entered.
   ptable: *result = 0; start_table; object_start; member loop; required; end_table
   pfields: one round of `while (more) { symbol_start; <trie>; object_end }`
   ptabvec: one round of `while (more) { <T>_parse_json_table; extend_offset_vector; array_end }` *)
Fixpoint ptable (fuel : nat) (t : nat) (lvl : Z) (c : pctx) (i : Z) (s : list cmd) : tres :=
  match fuel with O => PStop W_FUEL | S f =>
    match nth_error PS t with None => PStop W_OUT | Some flds =>
    if maxlvl <? lvl + 1 then failed i else                       (* start_table: enter_frame *)
    lift (object_start b c i) (fun c1 p more =>
    if more then pfields f flds (lvl + 1) c1 p s frame0 else tfinish flds c1 p s frame0)
    end
  end
with pfields (fuel : nat) (flds : list pfield) (lvl : Z) (c : pctx) (i : Z) (s : list cmd) (fr : tframe) : tres :=
  match fuel with O => PStop W_FUEL | S f =>
    lift (symbol_start b c i) (fun c1 p1 _ =>
    let next (r : pres tframe) : tres :=
      match r with
      | PErr e l => PErr e l
      | PStop w => PStop w
      | POk c3 p3 s3 fr3 =>
        lift (object_end b c3 p3) (fun c4 p4 more =>
        if more then pfields f flds lvl c4 p4 s3 fr3 else tfinish flds c4 p4 s3 fr3)
      end in
    match find_field flds b c1 p1 with
    | None => next (lift (unmatched_symbol b c1 p1) (fun c2 p2 _ => POk c2 p2 s fr))
    | Some (fd, r) => next (lift r (fun c2 p2 _ => pvalue sp maxlvl (ptable f) (ptabvec f) fd lvl b c2 p2 s fr))
    end)
  end
with ptabvec (fuel : nat) (t : nat) (lvl : Z) (c : pctx) (i : Z) (s : list cmd)
    (rs : list nat) (vs : list value) (d : nat) : vres :=
  match fuel with O => PStop W_FUEL | S f =>
    match ptable f t lvl c i s with
    | PErr e l => PErr e l
    | PStop w => PStop w
    | POk c1 p s1 (r, v, d1) =>
      lift (array_end b c1 p) (fun c2 q more =>
      if more then ptabvec f t lvl c2 q s1 (rs ++ [r]) (vs ++ [v]) (Nat.max d d1)
      else POk c2 q s1 (rs ++ [r], vs ++ [v], Nat.max d d1))
    end
  end.

(* fuel that always suffices (ParserProofs.v): two rounds per input byte *)
Definition parser_fuel : nat := S (S (Z.to_nat (2 * blen b))).

(* Entry point modelled: <T>_parse_json_as_root = flatcc_json_parser_table_as_root.  The schema-level <basename>_parse_json is NOT modelled
   separately: as generated at the pinned tree it opens the buffer itself without the nesting bound and without with_size
   (fixes/C04-root-parse-json-no-nesting-limit.patch makes it a one-line call of <Root>_parse_json_as_root, i.e. this function);
   checks/c04.py drives it as root `Root@schema` against the property statement only. *)
(* flatcc_json_parser_table_as_root: init, max_level, start_buffer(fid, 0, with_size) [level 1], the table parser,
   end_buffer.  [idw] = the identifier as a little-endian word (0: none).  Result: the whole create-level script,
   the value tree of the root and its depth bound; position = ctx->end_loc. *)
Definition parse_root_fuel (fuel : nat) (root : nat) (flags idw : Z) : pres (value * nat) :=
  let c := ctx_init flags in
  if maxlvl <? 1 then PStop W_OUT else                             (* start_buffer would fail: rc -1, not a parse result *)
  match ptable fuel root 1 c 0 [] with
  | PErr e l => PErr e l
  | PStop w => PStop w
  | POk c1 p s (r, v, d) =>
    POk c1 p (CSettings true 0 0 :: [] ++ CStartBuffer idw 0 (if has_flag c JF_with_size then 2 else 0) :: s ++ [CEndBuffer r]) (v, d)
  end.
Definition parse_root := parse_root_fuel parser_fuel.
End Parser.

(* what the caller of <T>_parse_json_as_root observes, and the finished buffer of the builder model *)
Inductive outcome :=
| OAccept (end_loc : Z) (bytes : option (list Z)) (v : value)     (* rc = 0; bytes = None: the builder model failed *)
| OReject (code loc : Z)
| OStop (w : Z).

Definition run_parser (sp : scalar_parser) (maxlvl : Z) (PS : pschema) (b : buf) (root : nat) (flags idw : Z) : outcome :=
  match parse_root sp maxlvl PS b root flags idw with
  | PErr e l => OReject e l
  | PStop w => OStop w
  | POk _ p sc (v, _) =>
    OAccept p (match run init_state [] sc with Some (_, _, st) => Some (buffer_bytes st) | None => None end) v
  end.
