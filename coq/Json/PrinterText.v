(* C05 (document layer): the TEXT the generated JSON printer and the runtime src/runtime/json_printer.c produce for a
   value tree of the fragment Json/ParserModel.v covers, and the vocabulary of the round-trip statements.

   Source: src/compiler/codegen_c_json_printer.c (what a generated `<T>_print_json_table` is: one runtime call per field,
   in id order), src/runtime/json_printer.c:
     print_start / print_end / print_nl / print_space / print_last_nl   (level, indentation, newlines)
     print_symbol / print_name                                           (quotes under `unquote`, colon, space)
     __define_print_scalar_field / __define_print_enum_field             (skip_default by bit pattern, force_default)
     flatcc_json_printer_string_field, <T>_vector_field, string_vector_field, table_field, table_vector_field
     print_table_object                                                  (ttl: `if (!--ttl)` deep_recursion)
     flatcc_json_printer_table_as_root                                   (ttl = FLATCC_JSON_PRINT_MAX_LEVELS, last newline)
   Integers go through the pprintint.h routines as transcribed by C19 (Num/NumModel.v print_uint8 .. print_int64),
   strings through [print_string] of Json/Codecs.v.  Nothing of these is duplicated here.

   The value tree is [Format/Spec.value] as Json/ParserModel.v returns it: VTable (present fields (id, value)),
   VBytes (scalar: little-endian bytes of the field's size), VString, VVec (scalar elements), VOffVec (strings / tables).
   A field is looked up by id ([assocZ], as get_field_ptr looks it up in the vtable); fields are printed in descriptor
   order, which is id order for generated code.

   Fragment: exactly that of ParserModel (integer scalars of every width, bool, enums, strings, vectors of those,
   tables, vectors of tables, required fields).  FLOATS ARE LEFT OUT of the fragment (no float kind in the
   descriptor): they are C19's.  Enum SYMBOLS are printed by this model (the tie compares them byte for byte) but the
   parser model answers W_OUT on symbolic constants, so the round-trip theorems ask for `noenum` or values that are not
   members.  bit_flags enums, unions, union vectors, nested buffers, base64, structs / fixed arrays are outside.
   Output flushing only decides where the bytes go (C11); the functions here return the produced byte sequence.
   No proofs in this file. *)
From Flatcc.Json Require Export Codecs ParserModel.
From Flatcc.Num Require NumModel.
Local Open Scope Z_scope.

(* ------------------------------------------------------------------ printer settings *)
(* flatcc_json_printer_t: unquote, noenum, skip_default, force_default (uint8_t, 0 / 1), indent (uint8_t) *)
Record prflags := { fl_unquote : bool; fl_noenum : bool; fl_skip_default : bool; fl_force_default : bool; fl_indent : Z }.

(* after flatcc_json_printer_init* (memset 0) *)
Definition prflags0 : prflags :=
  {| fl_unquote := false; fl_noenum := false; fl_skip_default := false; fl_force_default := false; fl_indent := 0 |}.

Definition pbit (bits k : Z) : bool := negb (Z.land bits k =? 0).

(* flatcc_json_printer_set_flags(ctx, bits): unquote = 1, noenum = 2, skip_default = 4, force_default = 8, pretty = 16
   (indent 2), nonstrict = 32 (set_nonstrict: indent 2, unquote 1, noenum 0) *)
Definition api_set_flags (bits : Z) (F : prflags) : prflags :=
  let ns := pbit bits 32 in
  {| fl_unquote := pbit bits 1 || ns;
     fl_noenum := pbit bits 2 && negb ns;
     fl_skip_default := pbit bits 4;
     fl_force_default := pbit bits 8;
     fl_indent := if pbit bits 16 || ns then 2 else fl_indent F |}.

(* flatcc_json_printer_set_indent(ctx, uint8_t x) *)
Definition api_set_indent (x : Z) (F : prflags) : prflags :=
  {| fl_unquote := fl_unquote F; fl_noenum := fl_noenum F; fl_skip_default := fl_skip_default F;
     fl_force_default := fl_force_default F; fl_indent := u8 x |}.

(* every setting the API can produce has an indent in 0..255 *)
Definition prflags_ok (F : prflags) : Prop := 0 <= fl_indent F <= 255.

(* ------------------------------------------------------------------ enum symbol tables *)
(* (table index, field id) -> members (value as the C type sees it, name) of the field's enum type, in declaration order;
   no entry: not an enum.  bit_flags enums are not in the fragment. *)
Definition penums := list (nat * Z * list (Z * list Z)).
Fixpoint enum_of (E : penums) (t : nat) (id : Z) : list (Z * list Z) :=
  match E with
  | [] => []
  | (t', id', syms) :: r => if Nat.eqb t t' && (id =? id') then syms else enum_of r t id
  end.

(* ------------------------------------------------------------------ scalars *)
(* flatbuffers_<T>_read_from_pe on a little-endian host *)
Fixpoint le_val (bs : list Z) : Z := match bs with [] => 0 | x :: r => x + 256 * le_val r end.
(* the value as the field's C type *)
Definition sval_of (ty : sty) (bs : list Z) : Z :=
  let x := le_val bs in
  let bits := 8 * st_size ty in
  if st_signed ty && (2 ^ (bits - 1) <=? x) then x - 2 ^ bits else x.

(* ctx->p += print_<TN>(x, ctx->p): the k characters the pprintint.h routine returns (it also writes a NUL at p[k]) *)
Definition taken (r : NumModel.pres) : list Z := firstn (Z.to_nat (fst r)) (snd r).
Definition num_text (ty : sty) (x : Z) : list Z :=
  taken
    (if st_signed ty then
       (if st_size ty =? 1 then NumModel.print_int8 x else if st_size ty =? 2 then NumModel.print_int16 x
        else if st_size ty =? 4 then NumModel.print_int32 x else NumModel.print_int64 x)
     else
       (if st_size ty =? 1 then NumModel.print_uint8 x else if st_size ty =? 2 then NumModel.print_uint16 x
        else if st_size ty =? 4 then NumModel.print_uint32 x else NumModel.print_uint64 x)).

Section Printer.
Variable F : prflags.
Variable PS : pschema.
Variable E : penums.

(* print_nl / the newline of print_end at level [lvl]:  '\n' and lvl * indent spaces, nothing when indent = 0 *)
Definition nl (lvl : Z) : list Z :=
  if 0 <? fl_indent F then 10 :: repeat 32 (Z.to_nat (lvl * fl_indent F)) else [].
(* print_space *)
Definition sp1 : list Z := if 0 <? fl_indent F then [32] else [].
(* print_symbol: the quotes are written but not kept under unquote *)
Definition psymbol (nm : list Z) : list Z := if fl_unquote F then nm else 34 :: nm ++ [34].
(* print_name at level [lvl]: print_nl, symbol, ':', print_space *)
Definition pname (lvl : Z) (nm : list Z) : list Z := nl lvl ++ psymbol nm ++ 58 :: sp1.
(* print_end(ch) of an object opened at level [lvl] (the level is lvl again when the newline is indented) *)
Definition pend (lvl : Z) (ch : Z) : list Z := nl lvl ++ [ch].
(* `if (count++) print_char(',')` *)
Definition commas (items : list (list Z)) : list Z :=
  match items with [] => [] | x :: r => x ++ flat_map (fun y => 44 :: y) r end.

(* one scalar: print_bool / print_<TN> / the generated <Enum>_print_json_enum (symbol for a member, number otherwise) *)
Definition scalar_text (syms : list (Z * list Z)) (ty : sty) (bs : list Z) : list Z :=
  if st_bool ty then (if le_val bs =? 0 then lit_false else lit_true) else
  let x := sval_of ty bs in
  if fl_noenum F then num_text ty x else
  match assocZ x syms with Some nm => psymbol nm | None => num_text ty x end.

(* the value a field is printed with, if it is printed: get_field_ptr, skip_default (memcmp of the bit pattern),
   force_default (absent scalar printed with the schema default); every other kind is printed iff present *)
Definition field_item (fd : pfield) (fields : list (Z * value)) : option value :=
  match pf_kind fd, assocZ (pf_id fd) fields with
  | PScalar _ d, Some (VBytes bs) => if fl_skip_default F && list_eqb bs d then None else Some (VBytes bs)
  | PScalar _ d, None => if fl_force_default F then Some (VBytes d) else None
  | _, o => o
  end.
Definition table_items (flds : list pfield) (fields : list (Z * value)) : list (pfield * value) :=
  flat_map (fun fd => match field_item fd fields with Some v => [(fd, v)] | None => [] end) flds.

Fixpoint opt_all {A} (l : list (option A)) : option (list A) :=
  match l with
  | [] => Some []
  | None :: _ => None
  | Some x :: r => match opt_all r with Some r' => Some (x :: r') | None => None end
  end.

(* the value of one field, printed when ctx->level = lvl.  [rec t lvl v] = print_table_object for table type t. *)
Definition print_value (rec : nat -> Z -> value -> option (list Z)) (t : nat) (fd : pfield) (lvl : Z) (v : value)
    : option (list Z) :=
  let syms := enum_of E t (pf_id fd) in
  match pf_kind fd, v with
  | PScalar ty _, VBytes bs => Some (scalar_text syms ty bs)
  | PString, VString s => Some (print_string s)
  | PVecScalar ty, VVec es =>
    (* '[' (level + 1); per element print_nl and the scalar; print_end(']') *)
    Some (91 :: commas (map (fun e => nl (lvl + 1) ++ scalar_text syms ty e) es) ++ pend lvl 93)
  | PVecString, VOffVec l =>
    match opt_all (map (fun x => match x with VString s => Some (nl (lvl + 1) ++ print_string s) | _ => None end) l) with
    | Some its => Some (91 :: commas its ++ pend lvl 93)
    | None => None
    end
  | PTable t', VTable _ => rec t' lvl v
  | PVecTable t', VOffVec l =>
    (* table elements follow '[' and ',' directly: no print_nl *)
    match opt_all (map (rec t' (lvl + 1)) l) with
    | Some its => Some (91 :: commas its ++ pend lvl 93)
    | None => None
    end
  | _, _ => None
  end.

(* print_table_object with ttl = k + 1 on entry: `if (!--ttl)` is k = 0 (deep_recursion: the call prints nothing and the
   root call returns -1: None).  [lvl] = ctx->level on entry. *)
Fixpoint print_table (k : nat) (t : nat) (lvl : Z) (v : value) : option (list Z) :=
  match k with O => None | S k' =>
    match nth_error PS t, v with
    | Some flds, VTable fields =>
      match opt_all (map (fun it : pfield * value =>
               match print_value (print_table k') t (fst it) (lvl + 1) (snd it) with
               | Some tx => Some (pname (lvl + 1) (pf_name (fst it)) ++ tx)
               | None => None
               end) (table_items flds fields)) with
      | Some its => Some (123 :: commas its ++ pend lvl 125)
      | None => None
      end
    | _, _ => None
    end
  end.

(* flatcc_json_printer_table_as_root on a context at level 0: ttl = pmax (FLATCC_JSON_PRINT_MAX_LEVELS), print_last_nl *)
Definition print_root (pmax : Z) (root : nat) (v : value) : option (list Z) :=
  match print_table (Z.to_nat (pmax - 1)) root 0 v with
  | Some tx => Some (tx ++ (if 0 <? fl_indent F then [10] else []))
  | None => None
  end.

(* ------------------------------------------------------------------ what a parse of the printed text builds *)
(* [fa] = the parser flag force_add.  A scalar member equal to the default is not added unless force_add; everything
   else that was printed is added.  Fields come back in descriptor order. *)
Definition reparse_item (rec : nat -> value -> value) (fa : bool) (it : pfield * value) : list (Z * value) :=
  let (fd, x) := it in
  match pf_kind fd, x with
  | PScalar _ d, VBytes bs => if list_eqb bs d && negb fa then [] else [(pf_id fd, x)]
  | PTable t', VTable _ => [(pf_id fd, rec t' x)]
  | PVecTable t', VOffVec l => [(pf_id fd, VOffVec (map (rec t') l))]
  | _, _ => [(pf_id fd, x)]
  end.
Fixpoint reparse_table (fa : bool) (k : nat) (t : nat) (v : value) : value :=
  match k with O => v | S k' =>
    match nth_error PS t, v with
    | Some flds, VTable fields => VTable (flat_map (reparse_item (reparse_table fa k') fa) (table_items flds fields))
    | _, _ => v
    end
  end.

(* ------------------------------------------------------------------ well-typed value trees of the fragment *)
Definition byte_okb (x : Z) : bool := (0 <=? x) && (x <? 256).
(* a scalar of type ty: exactly st_size bytes; a bool holds 0 or 1 (print_bool prints every non-zero byte as `true`) *)
Definition scalar_okb (ty : sty) (bs : list Z) : bool :=
  (lenZ bs =? st_size ty) && forallb byte_okb bs && (negb (st_bool ty) || (le_val bs <=? 1)).
(* the printer prints a number for this scalar (noenum, or the value is not a member): what the parser model covers *)
Definition nosym_okb (syms : list (Z * list Z)) (ty : sty) (bs : list Z) : bool :=
  st_bool ty || fl_noenum F || match assocZ (sval_of ty bs) syms with Some _ => false | None => true end.

Definition wt_value (rec : nat -> value -> bool) (t : nat) (fd : pfield) (v : value) : bool :=
  let syms := enum_of E t (pf_id fd) in
  match pf_kind fd, v with
  | PScalar ty _, VBytes bs => scalar_okb ty bs && nosym_okb syms ty bs
  | PString, VString s => forallb byte_okb s
  | PVecScalar ty, VVec es =>
    forallb (fun e => scalar_okb ty e && nosym_okb syms ty e) es && (Z.of_nat (length es) <=? count_max (st_size ty))
  | PVecString, VOffVec l => forallb (fun x => match x with VString s => forallb byte_okb s | _ => false end) l
  | PTable t', VTable _ => rec t' v
  | PVecTable t', VOffVec l => forallb (rec t') l
  | _, _ => false
  end.
(* a table of type t, nested at most k tables deep: every declared field that is present has a value of its kind, every
   required field is present.  Ids the descriptor does not declare and the order of the list do not matter (the printer
   looks fields up by id). *)
Fixpoint wt_table (k : nat) (t : nat) (v : value) : bool :=
  match k with O => false | S k' =>
    match nth_error PS t, v with
    | Some flds, VTable fields =>
      forallb (fun fd => match assocZ (pf_id fd) fields with
                         | Some x => wt_value (wt_table k') t fd x
                         | None =>
                           (* absent: not required; a scalar that force_default prints must print as a number too *)
                           negb (pf_req fd) &&
                           match pf_kind fd with
                           | PScalar ty d => negb (fl_force_default F) || nosym_okb (enum_of E t (pf_id fd)) ty d
                           | _ => true
                           end
                         end) flds
    | _, _ => false
    end
  end.
End Printer.

(* the same content: all scalars equal to their default dropped (what every accessor reads is unchanged by it) *)
Definition canonF : prflags :=
  {| fl_unquote := false; fl_noenum := true; fl_skip_default := true; fl_force_default := false; fl_indent := 0 |}.
Definition canon (PS : pschema) (k : nat) (t : nat) (v : value) : value := reparse_table canonF PS false k t v.

(* ------------------------------------------------------------------ builder frames the parser needs for a tree *)
(* one frame per table, per vector (scalar, string, table) and per string that contains an escape (start_string) *)
Definition str_need (s : list Z) : Z := if existsb needs_escape s then 1 else 0.
(* counted over what is printed: the declared fields, with the values [table_items] selects *)
Section Need.
Variable F : prflags.
Variable PS : pschema.
Definition need_value (rec : nat -> value -> Z) (fd : pfield) (v : value) : Z :=
  match pf_kind fd, v with
  | PString, VString s => str_need s
  | PVecScalar _, VVec _ => 1
  | PVecString, VOffVec l => 1 + fold_right (fun x a => Z.max (match x with VString s => str_need s | _ => 0 end) a) 0 l
  | PTable t', VTable _ => rec t' v
  | PVecTable t', VOffVec l => 1 + fold_right (fun x a => Z.max (rec t' x) a) 0 l
  | _, _ => 0
  end.
Fixpoint need_table (k : nat) (t : nat) (v : value) : Z :=
  match k with O => 0 | S k' =>
    match nth_error PS t, v with
    | Some flds, VTable fields =>
      1 + fold_right (fun it a => Z.max (need_value (need_table k') (fst it) (snd it)) a) 0 (table_items F flds fields)
    | _, _ => 0
    end
  end.
End Need.

(* ------------------------------------------------------------------ schema side conditions of the round trip *)
(* field names: identifiers ([A-Za-z0-9_], as the schema grammar gives them), pairwise different in a table; the table's
   data area stays below the builder's 64 KiB limit whatever subset of fields is present (15 bytes per field); scalar
   defaults are values of their type and scalars are not `required` *)
Definition ident_char (x : Z) : bool :=
  (48 <=? x) && (x <=? 57) || (65 <=? x) && (x <=? 90) || (97 <=? x) && (x <=? 122) || (x =? 95).
Definition name_okb (nm : list Z) : bool := negb (lenZ nm =? 0) && forallb ident_char nm.
Fixpoint names_distinct (l : list (list Z)) : bool :=
  match l with [] => true | x :: r => negb (existsb (list_eqb x) r) && names_distinct r end.
Definition rt_table_okb (flds : list pfield) : bool :=
  forallb (fun fd => name_okb (pf_name fd)) flds && names_distinct (map pf_name flds) &&
  (15 * Z.of_nat (length flds) + 4 <=? 65535) &&
  forallb (fun fd => match pf_kind fd with
                     | PScalar ty d => scalar_okb ty d && negb (pf_req fd)    (* the default is a value of the type; `required` is for non-scalars *)
                     | _ => true end) flds.
Definition rt_schema_okb (PS : pschema) : bool := forallb rt_table_okb PS.
Definition enums_okb (E : penums) : bool :=
  forallb (fun e : nat * Z * list (Z * list Z) => forallb (fun m : Z * list Z => name_okb (snd m)) (snd e)) E.

(* ------------------------------------------------------------------ RFC 8259 recognizer for a whole document *)
(* ws = *( %x20 / %x09 / %x0A / %x0D ) *)
Definition json_ws (x : Z) : bool := (x =? 32) || (x =? 9) || (x =? 10) || (x =? 13).
Fixpoint skip_ws (s : list Z) : list Z :=
  match s with x :: r => if json_ws x then skip_ws r else s | [] => [] end.

(* the end of a string: the first quotation mark that is not the second character of an escape.
   (body, rest after the closing quote) *)
Fixpoint split_string (fuel : nat) (s : list Z) (acc : list Z) : option (list Z * list Z) :=
  match fuel with O => None | S f =>
    match s with
    | [] => None
    | x :: r =>
      if x =? 34 then Some (rev acc, r) else
      if x =? 92 then match r with e :: r' => split_string f r' (e :: 92 :: acc) | [] => None end
      else split_string f r (x :: acc)
    end
  end.
(* string: section 7, through [rfc8259_string] of Json/Codecs.v on the delimited text *)
Definition json_string (s : list Z) : option (list Z) :=
  match s with
  | x :: t =>
    if x =? 34 then
      match split_string (S (length t)) t [] with
      | Some (body, rest) => if rfc8259_string (34 :: body ++ [34]) then Some rest else None
      | None => None
      end
    else None
  | [] => None
  end.

(* number = [ minus ] int [ frac ] [ exp ];  int = zero / ( digit1-9 *DIGIT ) *)
Fixpoint skip_digits (s : list Z) : list Z :=
  match s with x :: r => if is_digit x then skip_digits r else s | [] => [] end.
Definition json_digits1 (s : list Z) : option (list Z) :=      (* 1*DIGIT *)
  match s with x :: r => if is_digit x then Some (skip_digits r) else None | [] => None end.
Definition hd_is (c : Z) (s : list Z) : bool := match s with x :: _ => x =? c | [] => false end.
Definition json_number (s : list Z) : option (list Z) :=
  let s1 := if hd_is 45 s then tl s else s in
  match s1 with
  | [] => None
  | d :: r =>
    let after_int := if d =? 48 then Some r else if (49 <=? d) && (d <=? 57) then Some (skip_digits r) else None in
    match after_int with None => None | Some s2 =>
      let after_frac := if hd_is 46 s2 then json_digits1 (tl s2) else Some s2 in
      match after_frac with None => None | Some s3 =>
        if hd_is 101 s3 || hd_is 69 s3 then
          let r3 := tl s3 in
          json_digits1 (if hd_is 43 r3 || hd_is 45 r3 then tl r3 else r3)
        else Some s3
      end
    end
  end.

Fixpoint strip_prefix (lit s : list Z) : option (list Z) :=
  match lit with
  | [] => Some s
  | l :: lt => match s with x :: r => if x =? l then strip_prefix lt r else None | [] => None end
  end.

(* value = false / null / true / object / array / number / string;  returns the text after the value.
   object = '{' ws [ member *( ws ',' ws member ) ] ws '}', member = string ws ':' ws value
   array  = '[' ws [ value *( ws ',' ws value ) ] ws ']'.
   [fuel] bounds the nesting and the number of members / elements taken together (the text length suffices). *)
Fixpoint json_value (fuel : nat) (s : list Z) : option (list Z) :=
  match fuel with O => None | S f =>
    match s with
    | [] => None
    | c :: r =>
      if c =? 123 then (let r1 := skip_ws r in if hd_is 125 r1 then Some (tl r1) else json_members f r1)
      else if c =? 91 then (let r1 := skip_ws r in if hd_is 93 r1 then Some (tl r1) else json_elements f r1)
      else if c =? 34 then json_string s
      else if c =? 116 then strip_prefix lit_true s
      else if c =? 102 then strip_prefix lit_false s
      else if c =? 110 then strip_prefix lit_null s
      else json_number s
    end
  end
with json_members (fuel : nat) (s : list Z) : option (list Z) :=      (* at a member; up to and including '}' *)
  match fuel with O => None | S f =>
    match json_string s with None => None | Some s1 =>
      let s1' := skip_ws s1 in
      if hd_is 58 s1' then
        match json_value f (skip_ws (tl s1')) with None => None | Some s3 =>
          let s3' := skip_ws s3 in
          if hd_is 125 s3' then Some (tl s3')
          else if hd_is 44 s3' then json_members f (skip_ws (tl s3'))
          else None
        end
      else None
    end
  end
with json_elements (fuel : nat) (s : list Z) : option (list Z) :=     (* at an element; up to and including ']' *)
  match fuel with O => None | S f =>
    match json_value f s with None => None | Some s1 =>
      let s1' := skip_ws s1 in
      if hd_is 93 s1' then Some (tl s1')
      else if hd_is 44 s1' then json_elements f (skip_ws (tl s1'))
      else None
    end
  end.

(* JSON-text = ws value ws, and nothing else *)
Definition rfc8259_document (s : list Z) : bool :=
  match json_value (S (length s)) (skip_ws s) with
  | Some r => match skip_ws r with [] => true | _ => false end
  | None => false
  end.

(* every string of the tree is well-formed UTF-8 (RFC 3629): the hypothesis of the strictness clause *)
Fixpoint utf8_value (v : value) : bool :=
  match v with
  | VString s => utf8_valid s
  | VTable fs => forallb (fun p => utf8_value (snd p)) fs
  | VOffVec l => forallb utf8_value l
  | _ => true
  end.
