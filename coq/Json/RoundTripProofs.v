(* C05 (document layer): the generated parser reads back what the generated printer writes.
   Lemmas about Json/PrinterText.v (the text) against Json/ParserModel.v / Json/Scanner.v (the parser), and the
   RFC 8259 recognizer for whole documents.  Statements used by Properties/Properties_C05b.v are at the end. *)
From Flatcc.Json Require Import Codecs CodecsProofs ScannerProofs ParserModel ParserProofs PrinterText.
From Flatcc.Num Require NumModel NumProofs.
From Coq Require Import ZifyBool.
Local Open Scope Z_scope.
Ltac Zify.zify_post_hook ::= Z.div_mod_to_equations.

(* ------------------------------------------------------------------ the input from a position on *)
(* the bytes of b from i to the end are exactly l *)
Fixpoint tail_is (b : buf) (i : Z) (l : list Z) : Prop :=
  match l with
  | [] => 0 <= i /\ i = blen b
  | x :: t => get b i = Some x /\ tail_is b (i + 1) t
  end.

Lemma tail_is_range b l : forall i, tail_is b i l -> 0 <= i /\ i + len l = blen b.
Proof.
  induction l as [|x t IH]; intros i H; cbn [tail_is] in H.
  - cbn. lia.
  - destruct H as [Hg Ht]. apply get_Some in Hg. apply IH in Ht. cbn [length]. lia.
Qed.

Lemma tail_is_holds b l1 : forall l2 i, tail_is b i (l1 ++ l2) -> holds b i l1 /\ tail_is b (i + len l1) l2.
Proof.
  induction l1 as [|x t IH]; intros l2 i H.
  - cbn [app length holds]. replace (i + Z.of_nat 0) with i by lia. split; [|exact H].
    apply tail_is_range in H. lia.
  - cbn [app tail_is] in H. destruct H as [Hg Ht]. apply IH in Ht. destruct Ht as [Hh Ht].
    cbn [holds length]. split; [split; assumption|].
    replace (i + Z.of_nat (S (length t))) with (i + 1 + len t) by lia. exact Ht.
Qed.

Lemma tail_is_app b l1 l2 i : tail_is b i (l1 ++ l2) -> tail_is b (i + len l1) l2.
Proof. intros H. apply tail_is_holds in H. tauto. Qed.

Lemma tail_is_cons b x t i : tail_is b i (x :: t) -> get b i = Some x /\ tail_is b (i + 1) t /\ 0 <= i < blen b /\ bget b i = x.
Proof.
  intros H. pose proof (tail_is_range _ _ _ H) as R. cbn [length] in R. destruct H as [Hg Ht].
  pose proof (get_Some _ _ _ Hg). repeat split; try assumption; lia.
Qed.

Lemma tail_is_of_list l : Forall in_u8 l -> tail_is (of_list l) 0 l.
Proof.
  intros Hl. assert (G : forall post pre, Forall in_u8 post -> l = pre ++ post -> tail_is (of_list l) (len pre) post).
  { induction post as [|x t IH]; intros pre Hp E.
    - cbn [tail_is blen of_list]. subst l. rewrite app_nil_r. lia.
    - inversion Hp as [|? ? Hx Ht]; subst. cbn [tail_is]. split.
      + pose proof (holds_of_list [x] pre t ltac:(constructor; [exact Hx|constructor])) as H. cbn [holds app] in H.
        destruct H as [H _]. exact H.
      + specialize (IH (pre ++ [x]) Ht). rewrite <- app_assoc in IH. specialize (IH eq_refl).
        rewrite app_length in IH. cbn [length] in IH. replace (len pre + 1) with (len pre + Z.of_nat 1) by lia.
        rewrite <- Nat2Z.inj_add. exact IH. }
  exact (G l [] Hl eq_refl).
Qed.

(* ------------------------------------------------------------------ contexts *)
(* no error so far, flags as given *)
Definition cok (fl : Z) (c : pctx) : Prop := cerr c = 0 /\ cflags c = fl.

Lemma cok_set_unq fl c u : cok fl c -> cok fl (set_unq c u).
Proof. intros [? ?]. split; assumption. Qed.
Lemma cok_newline fl c p : cok fl c -> cok fl (newline c p).
Proof. intros [? ?]. split; assumption. Qed.
Lemma cok_init fl : cok fl (ctx_init fl).
Proof. split; reflexivity. Qed.

Lemma lift_ok {A B} (r : res A) (k : pctx -> Z -> A -> pres B) fl c p v :
  r = Ok c p v -> cok fl c -> lift r k = k c p v.
Proof. intros -> [E _]. unfold lift. rewrite E. reflexivity. Qed.

Lemma has_flag_cok fl c f : cok fl c -> has_flag c f = negb (Z.land fl f =? 0).
Proof. intros [_ E]. unfold has_flag. rewrite E. reflexivity. Qed.

(* ------------------------------------------------------------------ white space *)
(* [i, j) holds newlines and spaces only; at j the input ends or a printable ASCII character stands *)
Definition wsreg (b : buf) (i j : Z) : Prop :=
  0 <= i <= j /\ j <= blen b /\ (forall k, i <= k < j -> bget b k = 10 \/ bget b k = 32) /\
  (j = blen b \/ 32 < bget b j < 128).

Definition wsp (ws : list Z) : Prop := Forall (fun x => x = 10 \/ x = 32) ws.
Definition stop (rest : list Z) : Prop := match rest with [] => True | x :: _ => 32 < x < 128 end.

Lemma wsreg_of_text b ws : forall i rest, tail_is b i (ws ++ rest) -> wsp ws -> stop rest -> wsreg b i (i + len ws).
Proof.
  induction ws as [|x t IH]; intros i rest H Hw Hs.
  - cbn [app length] in *. replace (i + Z.of_nat 0) with i by lia.
    pose proof (tail_is_range _ _ _ H). unfold wsreg. repeat split; try lia.
    destruct rest as [|y r]; [cbn in *; left; lia|]. apply tail_is_cons in H. cbn in Hs. right. lia.
  - cbn [app] in H. apply tail_is_cons in H. destruct H as (_ & Ht & Hi & Hx).
    inversion Hw as [|? ? Hx0 Hw']; subst. destruct (IH (i + 1) rest Ht Hw' Hs) as (A & B & C & D).
    cbn [length]. replace (i + Z.of_nat (S (length t))) with (i + 1 + len t) by lia.
    unfold wsreg. split; [lia|]. split; [lia|]. split; [|exact D].
    intros k Hk. destruct (Z.eq_dec k i) as [->|]; [lia|]. apply C. lia.
Qed.

Lemma wsreg_step b i j : wsreg b i j -> i < j -> wsreg b (i + 1) j.
Proof. intros (A & B & C & D) H. unfold wsreg. split; [lia|]. split; [lia|]. split; [|exact D]. intros k Hk. apply C. lia. Qed.

Lemma wsreg_from b i j q : wsreg b i j -> i <= q <= j -> wsreg b q j.
Proof. intros (A & B & C & D) H. unfold wsreg. split; [lia|]. split; [lia|]. split; [|exact D]. intros k Hk. apply C. lia. Qed.

Lemma sc_small x : 0 <= x < 128 -> sc x = x.
Proof. intros. unfold sc. replace (x <? 128) with true by lia. reflexivity. Qed.

(* classification of a position of the region *)
Lemma wsreg_at b i j k : wsreg b i j -> i <= k <= j -> k < blen b ->
  (k < j /\ (bget b k = 10 \/ bget b k = 32) /\ (32 <? sc (bget b k)) = false) \/
  (k = j /\ 32 < bget b k < 128 /\ (32 <? sc (bget b k)) = true).
Proof.
  intros (A & B & C & D) Hk Hl. destruct (Z.eq_dec k j) as [->|Hne].
  - right. destruct D as [D|D]; [lia|]. rewrite sc_small by lia. repeat split; lia.
  - left. assert (H := C k ltac:(lia)). rewrite sc_small by lia. repeat split; lia.
Qed.

Lemma skip_sp_reg : forall fuel b p j, wsreg b p j -> Z.of_nat fuel > j - p ->
  exists q, skip_sp fuel b p = LAt q /\ p <= q <= j /\ (bget b p = 32 -> p < j -> p < q).
Proof.
  induction fuel as [|f IH]; intros b p j R Hf; [destruct R; lia|]. cbn [skip_sp].
  pose proof R as (A & B & _).
  destruct (p =? blen b) eqn:E.
  - exists p. repeat split; lia.
  - rewrite get_in by lia.
    destruct (wsreg_at b p j p R ltac:(lia) ltac:(lia)) as [(H1 & H2 & _)|(H1 & H2 & _)].
    + destruct (bget b p =? 32) eqn:E2.
      * destruct (IH b (p + 1) j (wsreg_step _ _ _ R H1) ltac:(lia)) as (q & -> & Hq & _). exists q. repeat split; lia.
      * exists p. repeat split; lia.
    + replace (bget b p =? 32) with false by lia. exists p. repeat split; lia.
Qed.

Lemma space_wide_reg b i j : wsreg b i j ->
  exists r p, space_wide b i = Some (r, p) /\ i <= p <= j /\ (r = true -> p = j).
Proof.
  intros R. pose proof R as (A & B & _). unfold space_wide.
  destruct (16 <=? blen b - i) eqn:E; [|exists false, i; repeat split; try lia; discriminate].
  rewrite get_in by lia.
  destruct (wsreg_at b i j i R ltac:(lia) ltac:(lia)) as [(H1 & H2 & ->)|(H1 & H2 & ->)];
    [|exists true, i; repeat split; lia].
  rewrite rd16_in by lia.
  destruct (wsreg_at b i j (i + 1) R ltac:(lia) ltac:(lia)) as [(K1 & K2 & K3)|(K1 & K2 & K3)].
  - destruct (bget b i + 256 * bget b (i + 1) =? 8224) eqn:Ew.
    + assert (bget b i = 32 /\ bget b (i + 1) = 32) as [X0 X1] by lia.
      rewrite get_in by lia.
      destruct (wsreg_at b i j (i + 2) R ltac:(lia) ltac:(lia)) as [(L1 & L2 & L3)|(L1 & L2 & L3)].
      * destruct (bget b (i + 2) =? 32) eqn:E2.
        -- rewrite get_in by lia.
           destruct (wsreg_at b i j (i + 2 + 1) R ltac:(lia) ltac:(lia)) as [(M1 & M2 & ->)|(M1 & M2 & ->)].
           ++ exists false, (i + 2 + 1). repeat split; try lia; discriminate.
           ++ exists true, (i + 2 + 1). repeat split; lia.
        -- rewrite get_in by lia. rewrite L3. exists false, (i + 2). repeat split; try lia; discriminate.
      * replace (bget b (i + 2) =? 32) with false by lia. rewrite get_in by lia. rewrite L3.
        exists true, (i + 2). repeat split; lia.
    + rewrite get_in by lia. destruct (bget b i =? 32) eqn:E0.
      * rewrite get_in by lia. rewrite K3. exists false, (i + 1). repeat split; try lia; discriminate.
      * rewrite get_in by lia. replace (32 <? sc (bget b i)) with false by (rewrite sc_small; lia).
        exists false, i. repeat split; try lia; discriminate.
  - replace (bget b i + 256 * bget b (i + 1) =? 8224) with false by lia.
    rewrite get_in by lia. destruct (bget b i =? 32) eqn:E0.
    + rewrite get_in by lia. rewrite K3. exists true, (i + 1). repeat split; lia.
    + rewrite get_in by lia. replace (32 <? sc (bget b i)) with false by (rewrite sc_small; lia).
      exists false, i. repeat split; try lia; discriminate.
Qed.

Lemma space_again_reg b i j : wsreg b i j ->
  space_again b i = PRet j \/
  exists q, space_again b i = PCont q /\ i <= q <= j /\ (bget b i = 32 -> i < j -> i < q).
Proof.
  intros R. unfold space_again. destruct (space_wide_reg b i j R) as (r & p & -> & Hp & Hr).
  destruct r; [left; rewrite Hr; reflexivity|]. right.
  destruct (skip_sp_reg (scan_fuel b p) b p j (wsreg_from _ _ _ _ R Hp)) as (q & -> & Hq & Hs).
  { unfold scan_fuel. destruct R. lia. }
  exists q. repeat split; try lia. intros H32 Hlt.
  destruct (Z.eq_dec p i) as [->|]; [apply Hs; assumption | lia].
Qed.

Lemma space_ctl_reg fl : forall fuel b c i j, wsreg b i j -> cok fl c -> Z.of_nat fuel > j - i ->
  exists c', space_ctl fuel b c i = Ok c' j tt /\ cok fl c'.
Proof.
  induction fuel as [|f IH]; intros b c i j R Hc Hf; [destruct R; lia|]. cbn [space_ctl].
  pose proof R as (A & B & _).
  destruct (i =? blen b) eqn:E; [exists c; replace j with i by lia; split; [reflexivity|assumption]|].
  rewrite get_in by lia.
  destruct (wsreg_at b i j i R ltac:(lia) ltac:(lia)) as [(H1 & H2 & H3)|(H1 & H2 & H3)].
  - replace (sc (bget b i) <=? 32) with true by lia.
    replace (bget b i =? 13) with false by lia.
    destruct (bget b i =? 10) eqn:E10.
    + apply IH; [apply wsreg_step; assumption | apply cok_newline; assumption | lia].
    + replace (bget b i =? 9) with false by lia. replace (bget b i =? 32) with true by lia.
      destruct (space_again_reg b i j R) as [->|(q & -> & Hq & Hs)]; [exists c; split; [reflexivity|assumption]|].
      apply IH; [eapply wsreg_from; eassumption | assumption | lia].
  - replace (sc (bget b i) <=? 32) with false by lia. exists c. subst j. split; [reflexivity|assumption].
Qed.

Lemma space_ext_reg fl b c i j : wsreg b i j -> cok fl c -> exists c', space_ext b c i = Ok c' j tt /\ cok fl c'.
Proof.
  intros R Hc. unfold space_ext.
  destruct (space_again_reg b i j R) as [->|(q & -> & Hq & _)]; [exists c; split; [reflexivity|assumption]|].
  apply (space_ctl_reg fl); [eapply wsreg_from; eassumption | assumption | unfold scan_fuel; destruct R; lia].
Qed.

Lemma space_reg fl b c i j : wsreg b i j -> cok fl c -> exists c', space b c i = Ok c' j tt /\ cok fl c'.
Proof.
  intros R Hc. unfold space. pose proof R as (A & B & _).
  destruct (1 <? blen b - i) eqn:E; [|apply (space_ext_reg fl); assumption].
  rewrite get_in by lia.
  destruct (wsreg_at b i j i R ltac:(lia) ltac:(lia)) as [(H1 & H2 & ->)|(H1 & H2 & ->)];
    [|exists c; subst j; split; [reflexivity|assumption]].
  rewrite get_in by lia.
  destruct (wsreg_at b i j (i + 1) R ltac:(lia) ltac:(lia)) as [(K1 & K2 & ->)|(K1 & K2 & ->)].
  - rewrite andb_false_r. apply (space_ext_reg fl); assumption.
  - destruct (bget b i =? 32) eqn:E0; cbn [andb].
    + exists c. subst j. split; [reflexivity|assumption].
    + apply (space_ext_reg fl); assumption.
Qed.

(* the form used below: white space [ws] at i, then [rest] *)
Lemma space_ws fl b c i ws rest : tail_is b i (ws ++ rest) -> wsp ws -> stop rest -> cok fl c ->
  exists c', space b c i = Ok c' (i + len ws) tt /\ cok fl c' /\ tail_is b (i + len ws) rest.
Proof.
  intros H Hw Hs Hc. destruct (space_reg fl b c i (i + len ws) (wsreg_of_text _ _ _ _ H Hw Hs) Hc) as (c' & E & Hc').
  exists c'. split; [exact E|]. split; [exact Hc'|]. apply tail_is_app in H. exact H.
Qed.

(* ------------------------------------------------------------------ object / array delimiters *)
Lemma delim_start_more fl o cl e b c i ws y r :
  tail_is b i (o :: ws ++ y :: r) -> wsp ws -> 32 < y < 128 -> y <> cl -> cok fl c ->
  exists c', delim_start o cl e b c i = Ok c' (i + 1 + len ws) true /\ cok fl c' /\ tail_is b (i + 1 + len ws) (y :: r).
Proof.
  intros H Hw Hy Hne Hc. apply tail_is_cons in H. destruct H as (Hg & Ht & Hi & _).
  unfold delim_start. replace (i =? blen b) with false by lia. rewrite Hg, Z.eqb_refl. cbn [negb].
  destruct (space_ws fl b c (i + 1) ws (y :: r) Ht Hw ltac:(cbn; lia) Hc) as (c1 & -> & Hc1 & Ht1).
  pose proof (tail_is_cons _ _ _ _ Ht1) as (Hg1 & _ & Hp & _).
  replace (i + 1 + len ws =? blen b) with false by lia. rewrite Hg1.
  replace (y =? cl) with false by lia. exists c1. auto.
Qed.

Lemma delim_start_empty fl o cl e b c i ws ws2 rest :
  tail_is b i (o :: ws ++ cl :: ws2 ++ rest) -> wsp ws -> wsp ws2 -> 32 < cl < 128 -> stop rest -> cok fl c ->
  exists c' p, delim_start o cl e b c i = Ok c' p false /\ cok fl c' /\ tail_is b p rest.
Proof.
  intros H Hw Hw2 Hcl Hs Hc. apply tail_is_cons in H. destruct H as (Hg & Ht & Hi & _).
  unfold delim_start. replace (i =? blen b) with false by lia. rewrite Hg, Z.eqb_refl. cbn [negb].
  destruct (space_ws fl b c (i + 1) ws (cl :: ws2 ++ rest) Ht Hw ltac:(cbn; lia) Hc) as (c1 & -> & Hc1 & Ht1).
  pose proof (tail_is_cons _ _ _ _ Ht1) as (Hg1 & Ht2 & Hp & _).
  replace (i + 1 + len ws =? blen b) with false by lia. rewrite Hg1, Z.eqb_refl.
  destruct (space_ws fl b c1 _ ws2 rest Ht2 Hw2 Hs Hc1) as (c2 & -> & Hc2 & Ht3).
  exists c2, (i + 1 + len ws + 1 + len ws2). auto.
Qed.

Lemma delim_end_more fl cl e b c i ws ws2 y r :
  tail_is b i (ws ++ 44 :: ws2 ++ y :: r) -> wsp ws -> wsp ws2 -> 32 < y < 128 -> y <> cl -> cok fl c ->
  exists c' p, delim_end cl e b c i = Ok c' p true /\ cok fl c' /\ tail_is b p (y :: r).
Proof.
  intros H Hw Hw2 Hy Hne Hc. unfold delim_end.
  destruct (space_ws fl b c i ws (44 :: ws2 ++ y :: r) H Hw ltac:(cbn; lia) Hc) as (c1 & -> & Hc1 & Ht1).
  pose proof (tail_is_cons _ _ _ _ Ht1) as (Hg1 & Ht2 & Hp & _).
  replace (i + len ws =? blen b) with false by lia. rewrite Hg1. cbn [Z.eqb Pos.eqb negb].
  destruct (space_ws fl b c1 _ ws2 (y :: r) Ht2 Hw2 ltac:(cbn; lia) Hc1) as (c2 & -> & Hc2 & Ht3).
  pose proof (tail_is_cons _ _ _ _ Ht3) as (Hg3 & _ & Hq & _).
  replace (i + len ws + 1 + len ws2 =? blen b) with false by lia. rewrite Hg3.
  replace (y =? cl) with false by lia. exists c2, (i + len ws + 1 + len ws2). auto.
Qed.

Lemma delim_end_close fl cl e b c i ws ws2 rest :
  tail_is b i (ws ++ cl :: ws2 ++ rest) -> wsp ws -> wsp ws2 -> 32 < cl < 128 -> cl <> 44 -> stop rest -> cok fl c ->
  exists c' p, delim_end cl e b c i = Ok c' p false /\ cok fl c' /\ tail_is b p rest.
Proof.
  intros H Hw Hw2 Hcl Hne Hs Hc. unfold delim_end.
  destruct (space_ws fl b c i ws (cl :: ws2 ++ rest) H Hw ltac:(cbn; lia) Hc) as (c1 & -> & Hc1 & Ht1).
  pose proof (tail_is_cons _ _ _ _ Ht1) as (Hg1 & Ht2 & Hp & _).
  replace (i + len ws =? blen b) with false by lia. rewrite Hg1.
  replace (cl =? 44) with false by lia. cbn [negb]. rewrite Z.eqb_refl. cbn [negb].
  destruct (space_ws fl b c1 _ ws2 rest Ht2 Hw2 Hs Hc1) as (c2 & -> & Hc2 & Ht3).
  exists c2, (i + len ws + 1 + len ws2). auto.
Qed.

(* ------------------------------------------------------------------ field names *)
Lemma list_eqb_refl l : list_eqb l l = true.
Proof. induction l as [|x t IH]; cbn [list_eqb]; [reflexivity|]. rewrite Z.eqb_refl, IH. reflexivity. Qed.
Lemma list_eqb_eq : forall a b, list_eqb a b = true -> a = b.
Proof.
  induction a as [|x t IH]; intros [|y s] H; cbn [list_eqb] in H; try discriminate; [reflexivity|].
  apply andb_true_iff in H. destruct H as [H1 H2]. f_equal; [lia|auto].
Qed.

Lemma ident_range x : ident_char x = true -> 32 < x < 128 /\ x <> 34 /\ x <> 58 /\ x <> 125 /\ x <> 46.
Proof. unfold ident_char. lia. Qed.

Lemma uc_small x : 0 <= x < 128 -> uc x = x.
Proof. intros. unfold uc. destruct (JCFG_unquoted_hi_unsigned =? 1); [reflexivity|apply sc_small; assumption]. Qed.

Lemma get_end b i : i = blen b -> get b i = None.
Proof. intros ->. unfold get, rd8, inb. replace (blen b + 1 <=? blen b) with false by lia. rewrite andb_false_r. reflexivity. Qed.

Lemma name_at_prefix b nm : forall i txt, tail_is b i txt -> (name_at b i nm = true <-> exists r, txt = nm ++ r).
Proof.
  induction nm as [|x t IH]; intros i txt H; cbn [name_at].
  - split; [intros _; exists txt; reflexivity | reflexivity].
  - destruct txt as [|y r].
    + cbn [tail_is] in H. rewrite get_end by lia. split; [discriminate | intros (r & Hr); discriminate].
    + apply tail_is_cons in H. destruct H as (Hg & Ht & _). rewrite Hg. specialize (IH (i + 1) r Ht).
      rewrite andb_true_iff, IH. split.
      * intros (E & r' & ->). exists r'. cbn [app]. f_equal. lia.
      * intros (r' & E). cbn [app] in E. inversion E; subst. split; [lia | exists r'; reflexivity].
Qed.

Lemma prefix_cases : forall nm' nm d rest, Forall (fun x => ident_char x = true) nm' -> ident_char d = false ->
  (exists r, nm ++ d :: rest = nm' ++ r) -> nm' = nm \/ exists x r', nm = nm' ++ x :: r'.
Proof.
  induction nm' as [|y t IH]; intros nm d rest Hn Hd (r & E).
  - destruct nm as [|x r']; [left; reflexivity | right; exists x, r'; reflexivity].
  - inversion Hn as [|? ? Hy Ht]; subst. destruct nm as [|x r'].
    + cbn [app] in E. inversion E; subst. congruence.
    + cbn [app] in E. inversion E; subst.
      destruct (IH r' d rest Ht Hd (ex_intro _ r H1)) as [->|(x0 & r0 & ->)]; [left; reflexivity|].
      right. exists x0, r0. reflexivity.
Qed.

(* the declared name is shorter than the symbol: the character after it is an identifier character *)
Lemma match_symbol_no b c i nm' x r : tail_is b i (nm' ++ x :: r) -> ident_char x = true ->
  match_symbol b c i (lenZ nm') = Ok c i tt.
Proof.
  intros H Hx. apply tail_is_app in H. apply tail_is_cons in H. destruct H as (Hg & _ & Hi & _).
  apply ident_range in Hx. unfold match_symbol, lenZ.
  replace (blen b - i <=? len nm') with false by lia. rewrite Hg.
  destruct (cunq c).
  - rewrite uc_small by lia. replace ((32 <? x) && negb (x =? 58)) with true by lia. reflexivity.
  - replace (negb (x =? 34)) with true by lia. reflexivity.
Qed.

Lemma match_symbol_quoted fl b c i nm ws rest : cunq c = false ->
  tail_is b i (nm ++ 34 :: 58 :: ws ++ rest) -> wsp ws -> stop rest -> cok fl c ->
  exists c' p, match_symbol b c i (lenZ nm) = Ok c' p tt /\ cok fl c' /\ tail_is b p rest /\ p <> i.
Proof.
  intros Hu H Hw Hs Hc. apply tail_is_app in H. apply tail_is_cons in H. destruct H as (Hg & Ht & Hi & _).
  unfold match_symbol, lenZ. replace (blen b - i <=? len nm) with false by lia. rewrite Hg, Hu.
  cbn [Z.eqb Pos.eqb negb].
  destruct (space_ws fl b c (i + len nm + 1) [] (58 :: ws ++ rest) Ht ltac:(constructor) ltac:(cbn; lia) Hc) as (c1 & -> & Hc1 & Ht1).
  cbn [length] in *. replace (i + len nm + 1 + Z.of_nat 0) with (i + len nm + 1) in * by lia.
  apply tail_is_cons in Ht1. destruct Ht1 as (Hg1 & Ht2 & Hp & _).
  replace (i + len nm + 1 =? blen b) with false by lia. rewrite Hg1. cbn [Z.eqb Pos.eqb].
  destruct (space_ws fl b c1 _ ws rest Ht2 Hw Hs Hc1) as (c2 & -> & Hc2 & Ht3).
  exists c2, (i + len nm + 1 + 1 + len ws). repeat split; try assumption; try apply Hc2. lia.
Qed.

Lemma match_symbol_unquoted fl b c i nm ws rest : cunq c = true ->
  tail_is b i (nm ++ 58 :: ws ++ rest) -> wsp ws -> stop rest -> cok fl c ->
  exists c' p, match_symbol b c i (lenZ nm) = Ok c' p tt /\ cok fl c' /\ tail_is b p rest /\ p <> i.
Proof.
  intros Hu H Hw Hs Hc. apply tail_is_app in H. pose proof H as H0. apply tail_is_cons in H. destruct H as (Hg & Ht & Hi & _).
  unfold match_symbol, lenZ. replace (blen b - i <=? len nm) with false by lia. rewrite Hg, Hu.
  cbn [Z.eqb Pos.eqb negb]. rewrite andb_false_r.
  destruct (space_ws fl b (set_unq c false) (i + len nm) [] (58 :: ws ++ rest) H0 ltac:(constructor) ltac:(cbn; lia)
              (cok_set_unq _ _ _ Hc)) as (c1 & E1 & Hc1 & Ht1).
  cbn [length] in *. replace (i + len nm + Z.of_nat 0) with (i + len nm) in * by lia. rewrite E1.
  replace (i + len nm =? blen b) with false by lia. rewrite Hg. cbn [Z.eqb Pos.eqb].
  destruct (space_ws fl b c1 _ ws rest Ht Hw Hs Hc1) as (c2 & -> & Hc2 & Ht3).
  exists c2, (i + len nm + 1 + len ws). repeat split; try assumption; try apply Hc2. lia.
Qed.

Definition names_ok (flds : list pfield) : Prop :=
  Forall (fun fd => Forall (fun x => ident_char x = true) (pf_name fd)) flds /\ names_distinct (map pf_name flds) = true.

Lemma names_ok_tail fd r : names_ok (fd :: r) -> names_ok r.
Proof.
  intros [H1 H2]. inversion H1; subst. cbn [map names_distinct] in H2. apply andb_true_iff in H2. split; tauto.
Qed.

(* the exact dispatch: the symbol at i is the name of fd followed by a non-identifier character d *)
Lemma find_field_hit b c i fd d after c' p : forall flds, names_ok flds -> In fd flds ->
  tail_is b i (pf_name fd ++ d :: after) -> ident_char d = false ->
  match_symbol b c i (lenZ (pf_name fd)) = Ok c' p tt -> p <> i ->
  find_field flds b c i = Some (fd, Ok c' p tt).
Proof.
  induction flds as [|fd0 r IH]; intros Hn Hin Ht Hd Hm Hp; [destruct Hin|]. cbn [find_field].
  pose proof (name_at_prefix b (pf_name fd0) i _ Ht) as Hna.
  destruct (name_at b i (pf_name fd0)) eqn:E.
  - destruct Hna as [Hna _]. specialize (Hna eq_refl).
    destruct Hn as [Hn1 Hn2]. inversion Hn1 as [|? ? Hid0 Hidr]; subst.
    destruct (prefix_cases _ _ _ _ Hid0 Hd Hna) as [Eq|(x & r' & Eq)].
    + (* the same name: the same field *)
      assert (fd0 = fd) as ->.
      { destruct Hin as [?|Hin]; [assumption|exfalso].
        cbn [map names_distinct] in Hn2. apply andb_true_iff in Hn2. destruct Hn2 as [Hn2 _].
        apply negb_true_iff in Hn2. rewrite <- not_true_iff_false in Hn2. apply Hn2.
        apply existsb_exists. exists (pf_name fd). split; [apply in_map; assumption|].
        rewrite Eq. apply list_eqb_refl. }
      rewrite Hm. replace (p =? i) with false by lia. reflexivity.
    + rewrite Eq in Ht. rewrite <- app_assoc in Ht. cbn [app] in Ht.
      assert (Hx : ident_char x = true).
      { assert (Hf : Forall (fun x => ident_char x = true) (pf_name fd)).
        { rewrite Forall_forall in Hidr. destruct Hin as [<-|Hin]; [|apply Hidr; assumption].
          exfalso. assert (Hl := f_equal (@length Z) Eq). rewrite app_length in Hl. cbn [length] in Hl. lia. }
        rewrite Eq in Hf. apply Forall_app in Hf. destruct Hf as [_ Hf]. inversion Hf; assumption. }
      rewrite (match_symbol_no b c i (pf_name fd0) x _ Ht Hx). rewrite Z.eqb_refl.
      apply IH; try assumption.
      * split; [assumption|]. cbn [map names_distinct] in Hn2. apply andb_true_iff in Hn2. tauto.
      * destruct Hin as [<-|Hin]; [|assumption]. exfalso.
        assert (Hl := f_equal (@length Z) Eq). rewrite app_length in Hl. cbn [length] in Hl. lia.
      * rewrite Eq. rewrite <- app_assoc. exact Ht.
  - apply IH; try assumption.
    + eapply names_ok_tail; eassumption.
    + destruct Hin as [<-|Hin]; [|assumption]. exfalso.
      destruct Hna as [_ Hna]. assert (false = true) by (apply Hna; eexists; reflexivity). discriminate.
Qed.

(* ------------------------------------------------------------------ scalars: bytes <-> value *)
Definition bytes_ok (bs : list Z) : Prop := Forall in_u8 bs.

Lemma byte_okb_forall bs : forallb byte_okb bs = true -> bytes_ok bs.
Proof.
  intros H. apply Forall_forall. intros x Hx. rewrite forallb_forall in H. specialize (H x Hx).
  unfold byte_okb in H. unfold in_u8. lia.
Qed.

Lemma le_val_bound bs : bytes_ok bs -> 0 <= le_val bs < 256 ^ len bs.
Proof.
  induction 1 as [|x t Hx Ht IH]; cbn [le_val length]; [cbn; lia|].
  rewrite Nat2Z.inj_succ, Z.pow_succ_r by lia. unfold in_u8 in Hx. lia.
Qed.

Lemma le_bytes_le_val bs : bytes_ok bs -> le_bytes (length bs) (le_val bs) = bs.
Proof.
  induction 1 as [|x t Hx Ht IH]; cbn [le_val length le_bytes]; [reflexivity|]. unfold in_u8 in Hx.
  replace ((x + 256 * le_val t) mod 256) with x by lia.
  replace ((x + 256 * le_val t) / 256) with (le_val t) by lia. rewrite IH. reflexivity.
Qed.

Lemma pow2_bits n : 0 < n -> 2 ^ (8 * n) = 2 * 2 ^ (8 * n - 1) /\ 0 < 2 ^ (8 * n - 1).
Proof.
  intros H. split; [|apply Z.pow_pos_nonneg; lia].
  replace (8 * n) with (Z.succ (8 * n - 1)) at 1 by lia. rewrite Z.pow_succ_r by lia. reflexivity.
Qed.

Lemma sval_range ty bs : sty_ok ty -> lenZ bs = st_size ty -> bytes_ok bs ->
  let B := 2 ^ (8 * st_size ty - 1) in
  0 <= le_val bs < 2 * B /\ 2 ^ (8 * st_size ty) = 2 * B /\
  (if st_signed ty then - B <= sval_of ty bs < B else 0 <= sval_of ty bs < 2 * B).
Proof.
  intros Hok Hl Hb B. pose proof (sty_size ty Hok) as Hs. pose proof (le_val_bound bs Hb) as Hu.
  unfold lenZ in Hl. rewrite Hl in Hu. replace 256 with (2 ^ 8) in Hu by reflexivity.
  rewrite <- Z.pow_mul_r in Hu by lia. destruct (pow2_bits (st_size ty) ltac:(lia)) as [E Hp]. fold B in E, Hp.
  rewrite E in Hu. split; [exact Hu|]. split; [exact E|].
  unfold sval_of. fold B. rewrite E. destruct (st_signed ty); cbn [andb]; [|exact Hu].
  destruct (B <=? le_val bs) eqn:C; lia.
Qed.

Lemma coerce_sval ty b c p bs : sty_ok ty -> lenZ bs = st_size ty -> bytes_ok bs ->
  coerce ty b c p (sval_of ty bs <? 0) (Z.abs (sval_of ty bs)) = Ok c p (SBytes bs).
Proof.
  intros Hok Hl Hb. destruct (sval_range ty bs Hok Hl Hb) as (Hu & E & Hx).
  pose proof (sty_size ty Hok) as Hs.
  assert (Hn : Z.to_nat (st_size ty) = length bs) by (unfold lenZ in Hl; lia).
  unfold coerce. cbv zeta. rewrite E. set (B := 2 ^ (8 * st_size ty - 1)) in *. rewrite Hn.
  unfold sval_of in *. rewrite E in *. fold B in Hx |- *.
  destruct (st_signed ty); cbn [andb] in *.
  - destruct (B <=? le_val bs) eqn:C.
    + replace (le_val bs - 2 * B <? 0) with true by lia.
      replace (B <? Z.abs (le_val bs - 2 * B)) with false by lia.
      replace ((2 * B - Z.abs (le_val bs - 2 * B)) mod (2 * B)) with (le_val bs) by (rewrite Z.mod_small; lia).
      rewrite le_bytes_le_val by assumption. reflexivity.
    + replace (le_val bs <? 0) with false by lia.
      replace (B - 1 <? Z.abs (le_val bs)) with false by lia.
      replace (Z.abs (le_val bs) mod (2 * B)) with (le_val bs) by (rewrite Z.mod_small; lia).
      rewrite le_bytes_le_val by assumption. reflexivity.
  - replace (le_val bs <? 0) with false by lia.
    replace (2 * B - 1 <? Z.abs (le_val bs)) with false by lia.
    replace (Z.abs (le_val bs) mod (2 * B)) with (le_val bs) by (rewrite Z.mod_small; lia).
    rewrite le_bytes_le_val by assumption. reflexivity.
Qed.

(* ------------------------------------------------------------------ scalars: the number text *)
Lemma taken_spec l : taken (len l, l ++ [0]) = l.
Proof. unfold taken. cbn [fst snd]. rewrite Nat2Z.id, firstn_app, Nat.sub_diag, firstn_all. cbn. apply app_nil_r. Qed.

Lemma sdecimal_nonneg x : 0 <= x -> NumModel.sdecimal x = NumModel.decimal x.
Proof. intros. unfold NumModel.sdecimal. replace (x <? 0) with false by lia. reflexivity. Qed.

Lemma num_text_sdecimal ty bs : sty_ok ty -> lenZ bs = st_size ty -> bytes_ok bs ->
  num_text ty (sval_of ty bs) = NumModel.sdecimal (sval_of ty bs).
Proof.
  intros Hok Hl Hb. destruct (sval_range ty bs Hok Hl Hb) as (_ & _ & Hx).
  set (x := sval_of ty bs) in *. unfold num_text.
  destruct (sty_size ty Hok) as [E|[E|[E|E]]]; rewrite E in *; cbn [Z.eqb Pos.eqb]; destruct (st_signed ty).
  - change (2 ^ (8 * 1 - 1)) with 128 in Hx. rewrite NumProofs.print_int8_spec by lia. apply taken_spec.
  - change (2 ^ (8 * 1 - 1)) with 128 in Hx. rewrite NumProofs.print_uint8_spec by lia.
    rewrite sdecimal_nonneg by lia. apply taken_spec.
  - change (2 ^ (8 * 2 - 1)) with 32768 in Hx. rewrite NumProofs.print_int16_spec by lia. apply taken_spec.
  - change (2 ^ (8 * 2 - 1)) with 32768 in Hx. rewrite NumProofs.print_uint16_spec by lia.
    rewrite sdecimal_nonneg by lia. apply taken_spec.
  - change (2 ^ (8 * 4 - 1)) with 2147483648 in Hx. rewrite NumProofs.print_int32_spec by lia. apply taken_spec.
  - change (2 ^ (8 * 4 - 1)) with 2147483648 in Hx. rewrite NumProofs.print_uint32_spec by lia.
    rewrite sdecimal_nonneg by lia. apply taken_spec.
  - change (2 ^ (8 * 8 - 1)) with 9223372036854775808 in Hx. rewrite NumProofs.print_int64_spec by lia. apply taken_spec.
  - change (2 ^ (8 * 8 - 1)) with 9223372036854775808 in Hx. rewrite NumProofs.print_uint64_spec by lia.
    rewrite sdecimal_nonneg by lia. apply taken_spec.
Qed.

(* ------------------------------------------------------------------ scalars: the integer scanner on decimal text *)
Lemma integer_digits_run : forall ds fuel b j x0 y r,
  Forall NumProofs.digitc ds -> tail_is b j (ds ++ y :: r) -> is_digit y = false ->
  0 <= x0 -> NumModel.dval_from x0 ds < 18446744073709551616 -> (length ds < fuel)%nat ->
  integer_digits fuel b j x0 = Some (Some (inl (j + len ds, NumModel.dval_from x0 ds))).
Proof.
  induction ds as [|d t IH]; intros fuel b j x0 y r Hd Ht Hy Hx Hv Hf;
    (destruct fuel as [|f]; [cbn in Hf; lia|]); cbn [integer_digits].
  - cbn [app] in Ht. apply tail_is_cons in Ht. destruct Ht as (Hg & _ & Hj & _).
    replace (j =? blen b) with false by lia. rewrite Hg, Hy. cbn [length]. replace (j + Z.of_nat 0) with j by lia. reflexivity.
  - cbn [app] in Ht. apply tail_is_cons in Ht. destruct Ht as (Hg & Ht & Hj & _).
    inversion Hd as [|? ? Hd0 Hdt]; subst. unfold NumProofs.digitc in Hd0.
    replace (j =? blen b) with false by lia. rewrite Hg.
    replace (is_digit d) with true by (unfold is_digit; lia).
    rewrite NumProofs.dval_from_cons in Hv |- *.
    pose proof (NumProofs.dval_from_ge t (x0 * 10 + (d - 48)) Hdt ltac:(lia)) as Hge.
    replace (x0 >? (U64_MAX - (d - 48)) / 10) with false by (unfold U64_MAX; lia).
    rewrite u64_id by (unfold in_u64; lia).
    rewrite (IH f b (j + 1) (x0 * 10 + (d - 48)) y r Hdt Ht Hy ltac:(lia) Hv ltac:(cbn in Hf; lia)).
    replace (j + 1 + len t) with (j + len (d :: t)) by (cbn [length]; lia). reflexivity.
Qed.

(* a character that may follow a value: newline, space, comma, closing brace / bracket *)
Definition vfollow (y : Z) : Prop := y = 10 \/ y = 32 \/ y = 44 \/ y = 125 \/ y = 93.

Lemma integer_sdecimal b c i x y r : - 18446744073709551616 < x < 18446744073709551616 ->
  tail_is b i (NumModel.sdecimal x ++ y :: r) -> vfollow y ->
  integer b c i = Ok c (i + len (NumModel.sdecimal x)) (x <? 0, Z.abs x).
Proof.
  intros Hx Ht Hy. unfold integer.
  assert (Hyd : is_digit y = false) by (unfold is_digit, vfollow in *; lia).
  assert (Hye : (y =? 101) || (y =? 69) || (y =? 46) = false) by (unfold vfollow in *; lia).
  unfold NumModel.sdecimal in *. destruct (x <? 0) eqn:Hs.
  - cbn [app] in Ht. apply tail_is_cons in Ht. destruct Ht as (Hg & Ht & Hi & _).
    replace (i =? blen b) with false by lia. rewrite Hg. cbn [Z.eqb Pos.eqb].
    pose proof (NumProofs.decimal_digits (- x) ltac:(lia)) as Hd.
    pose proof (NumProofs.decimal_dval (- x) ltac:(lia)) as Hv.
    pose proof (NumProofs.decimal_nonempty (- x) ltac:(lia)) as Hne.
    pose proof (tail_is_range _ _ _ Ht) as R. rewrite app_length in R. cbn [length] in R.
    rewrite (integer_digits_run (NumModel.decimal (- x)) _ b (i + 1) 0 y r Hd Ht Hyd ltac:(lia));
      [| fold (NumModel.dval (NumModel.decimal (- x))); lia | unfold scan_fuel; lia].
    fold (NumModel.dval (NumModel.decimal (- x))). rewrite Hv.
    assert (0 < len (NumModel.decimal (- x))) by (destruct (NumModel.decimal (- x)); [congruence|cbn; lia]).
    replace (i + 1 + len (NumModel.decimal (- x)) =? i) with false by lia.
    replace (i + 1 + len (NumModel.decimal (- x)) =? blen b) with false by lia.
    apply tail_is_app in Ht. apply tail_is_cons in Ht. destruct Ht as (Hg2 & _). rewrite Hg2, Hye.
    f_equal; [cbn [length]; lia | f_equal; lia].
  - pose proof (NumProofs.decimal_digits x ltac:(lia)) as Hd.
    pose proof (NumProofs.decimal_dval x ltac:(lia)) as Hv.
    pose proof (NumProofs.decimal_nonempty x ltac:(lia)) as Hne.
    pose proof (tail_is_range _ _ _ Ht) as R. rewrite app_length in R. cbn [length] in R.
    destruct (NumModel.decimal x) as [|d0 t0] eqn:Ed; [congruence|].
    pose proof Ht as Ht0. cbn [app] in Ht0. apply tail_is_cons in Ht0. destruct Ht0 as (Hg & _ & Hi & _).
    pose proof (Forall_inv Hd) as Hd0. unfold NumProofs.digitc in Hd0.
    replace (i =? blen b) with false by lia. rewrite Hg. replace (d0 =? 45) with false by lia.
    rewrite (integer_digits_run (d0 :: t0) _ b i 0 y r Hd Ht Hyd ltac:(lia));
      [| fold (NumModel.dval (d0 :: t0)); lia | unfold scan_fuel; cbn [length] in *; lia].
    fold (NumModel.dval (d0 :: t0)). rewrite Hv.
    replace (i + len (d0 :: t0) =? i) with false by (cbn [length]; lia).
    replace (i + len (d0 :: t0) =? blen b) with false by lia.
    apply tail_is_app in Ht. apply tail_is_cons in Ht. destruct Ht as (Hg2 & _). rewrite Hg2, Hye.
    f_equal. f_equal. lia.
Qed.

(* ------------------------------------------------------------------ scalars: sp_int on the printed scalar *)
Lemma match_bytes_yes b lit : forall i r, tail_is b i (lit ++ r) -> match_bytes b i lit = Some true.
Proof.
  induction lit as [|l t IH]; intros i r H; cbn [match_bytes]; [reflexivity|].
  cbn [app] in H. apply tail_is_cons in H. destruct H as (Hg & Ht & _). rewrite Hg, (IH _ _ Ht), Z.eqb_refl. reflexivity.
Qed.

Lemma sp_int_printed F syms fl b c i ty bs y r : sty_ok ty -> cok fl c ->
  scalar_okb ty bs = true -> nosym_okb F syms ty bs = true ->
  tail_is b i (scalar_text F syms ty bs ++ y :: r) -> vfollow y ->
  sp_int ty b c i = Ok c (i + len (scalar_text F syms ty bs)) (SBytes bs).
Proof.
  intros Hok Hc Hs Hn Ht Hy. unfold scalar_okb in Hs. apply andb_true_iff in Hs. destruct Hs as [Hs Hb01].
  apply andb_true_iff in Hs. destruct Hs as [Hl Hb]. apply byte_okb_forall in Hb.
  assert (Hlen : lenZ bs = st_size ty) by lia.
  unfold sp_int, scalar_text in *.
  destruct (st_bool ty) eqn:Eb.
  - (* bool: one byte, 0 or 1 *)
    assert (Hs1 : st_size ty = 1).
    { unfold sty_ok, sty_okb in Hok. rewrite Eb in Hok. lia. }
    cbn [negb orb] in Hb01. unfold lenZ in Hlen.
    destruct bs as [|x [|x' t]]; cbn [length] in Hlen; try lia. cbn [le_val] in *.
    inversion Hb as [|? ? Hx _]; subst. unfold in_u8 in Hx.
    pose proof (tail_is_range _ _ _ Ht) as R. rewrite app_length in R. cbn [length] in R.
    destruct (x + 256 * 0 =? 0) eqn:E0.
    + assert (x = 0) by lia. subst x. cbn [length lit_false] in R |- *.
      replace (i =? blen b) with false by lia. unfold bool_.
      replace (4 <=? blen b - i) with true by lia. replace (5 <=? blen b - i) with true by lia.
      pose proof Ht as Ht'. cbn [lit_false app] in Ht'.
      destruct Ht' as (G0 & G1 & G2 & G3 & _).
      cbn [match_bytes lit_true]. rewrite G0, G1, G2, G3. cbn [Z.eqb Pos.eqb andb].
      rewrite (match_bytes_yes b lit_false i _ Ht).
      replace (i + 5 =? i) with false by lia. reflexivity.
    + assert (x = 1) by lia. subst x. cbn [length lit_true] in R |- *.
      replace (i =? blen b) with false by lia. unfold bool_.
      replace (4 <=? blen b - i) with true by lia.
      rewrite (match_bytes_yes b lit_true i _ Ht).
      replace (i + 4 =? i) with false by lia. reflexivity.
  - assert (Htxt : (if fl_noenum F then num_text ty (sval_of ty bs)
                    else match assocZ (sval_of ty bs) syms with Some nm => psymbol F nm | None => num_text ty (sval_of ty bs) end)
                   = NumModel.sdecimal (sval_of ty bs)).
    { unfold nosym_okb in Hn. rewrite Eb in Hn. cbn [orb] in Hn.
      destruct (fl_noenum F); [apply num_text_sdecimal; assumption|]. cbn [orb] in Hn.
      destruct (assocZ (sval_of ty bs) syms); [discriminate|apply num_text_sdecimal; assumption]. }
    rewrite Htxt in *.
    destruct (sval_range ty bs Hok Hlen Hb) as (_ & _ & Hx).
    assert (Hr : - 18446744073709551616 < sval_of ty bs < 18446744073709551616).
    { destruct (sty_size ty Hok) as [E|[E|[E|E]]]; rewrite E in Hx; destruct (st_signed ty);
        first [ change (2 ^ (8 * 1 - 1)) with 128 in Hx | change (2 ^ (8 * 2 - 1)) with 32768 in Hx
              | change (2 ^ (8 * 4 - 1)) with 2147483648 in Hx | change (2 ^ (8 * 8 - 1)) with 9223372036854775808 in Hx ]; lia. }
    pose proof (tail_is_range _ _ _ Ht) as R. rewrite app_length in R. cbn [length] in R.
    replace (i =? blen b) with false by lia.
    rewrite (integer_sdecimal b c i _ y r Hr Ht Hy).
    assert (0 < len (NumModel.sdecimal (sval_of ty bs))).
    { unfold NumModel.sdecimal. destruct (sval_of ty bs <? 0) eqn:E; [cbn [length]; lia|].
      pose proof (NumProofs.decimal_nonempty (sval_of ty bs) ltac:(lia)).
      destruct (NumModel.decimal (sval_of ty bs)); [congruence|cbn [length]; lia]. }
    replace (i + len (NumModel.sdecimal (sval_of ty bs)) =? i) with false by lia.
    cbn [fst snd]. destruct Hc as [Hc _]. rewrite Hc. cbn [Z.eqb negb].
    apply coerce_sval; assumption.
Qed.

(* ------------------------------------------------------------------ strings *)
Lemma lift_Ok {A B} (k : pctx -> Z -> A -> pres B) c p v : cerr c = 0 -> lift (Ok c p v) k = k c p v.
Proof. intros E. unfold lift. rewrite E. reflexivity. Qed.

Lemma raw_prefix_need s r u : raw_prefix s = (r, u) -> u <> [] -> str_need s = 1.
Proof.
  intros H Hu. destruct (raw_prefix_spec _ _ _ H) as (-> & _ & He & _). unfold str_need.
  destruct u as [|x t]; [congruence|]. cbn in He. rewrite existsb_app. cbn [existsb]. rewrite He, orb_true_r. reflexivity.
Qed.

Lemma pstring_printed fl maxlvl lvl b c i s str rest :
  bytes_ok str -> cok fl c -> tail_is b i (print_string str ++ rest) -> lvl + str_need str <= maxlvl ->
  pstring maxlvl lvl b c i s = POk c (i + len (print_string str)) (s ++ [CString str]) (length s, str).
Proof.
  intros Hb Hc Ht Hlvl. destruct Hc as [Hce _].
  apply tail_is_holds in Ht. destruct Ht as [Hh _].
  rewrite print_string_length. unfold print_string in Hh. destruct Hh as [Hq Hh].
  destruct (raw_prefix str) as [r u] eqn:Ep.
  destruct (raw_prefix_spec _ _ _ Ep) as (Hs & Hr & He & Hl).
  pose proof (body_split _ _ _ Ep) as Hbody. rewrite Hbody in Hh |- *.
  rewrite <- app_assoc in Hh.
  destruct (body_head_stop u [] He) as (stop & rest' & Hst & Hstop).
  assert (Hh2 := Hh). rewrite Hst in Hh2.
  apply holds_app in Hh. destruct Hh as [Hrun Hh3].
  assert (Hrs : holds b (i + 1) (r ++ [stop])).
  { change (stop :: rest') with ([stop] ++ rest') in Hh2. rewrite app_assoc in Hh2.
    apply holds_app in Hh2. tauto. }
  pose proof (string_part_run b c (i + 1) r stop Hr Hstop Hrs) as Hsp.
  pose proof (holds_range _ _ _ Hrs) as R. rewrite app_length in R. simpl in R.
  unfold pstring. rewrite (string_start_quote b c i Hq), lift_Ok by assumption. rewrite Hsp, lift_Ok by assumption.
  rewrite (slice_holds b (i + 1) r (i + 1 + len r) Hrun eq_refl).
  replace (i + 1 + len r =? blen b) with false by lia.
  destruct u as [|x t].
  - simpl in Hh3. destruct Hh3 as [Hg _]. rewrite Hg. change (34 =? 34) with true. cbv iota.
    rewrite (string_end_quote b c _ Hg), lift_Ok by assumption. rewrite app_nil_r in Hs. subst str.
    f_equal. rewrite app_nil_r. lia.
  - assert (Hg : get b (i + 1 + len r) = Some 92).
    { simpl in He. rewrite body_cons in Hh3. unfold print_byte in Hh3. rewrite He in Hh3.
      unfold print_escape in Hh3. destruct Hh3 as [Hg _]. exact Hg. }
    rewrite Hg. change (92 =? 34) with false. cbv iota.
    rewrite (raw_prefix_need _ _ _ Ep ltac:(discriminate)) in Hlvl.
    replace (maxlvl <? lvl + 1) with false by lia.
    assert (Hbu : Forall in_u8 (x :: t)). { subst str. apply Forall_app in Hb. tauto. }
    pose proof (holds_range _ _ _ Hh3) as R3. rewrite app_length in R3. cbn [length] in R3.
    rewrite (build_loop_ok (length (x :: t)) (x :: t) _ b c (i + 1 + len r) r (le_n _) Hbu He Hh3);
      [| unfold scan_fuel; lia].
    rewrite lift_Ok by assumption.
    apply holds_app in Hh3. destruct Hh3 as [_ [Hg2 _]].
    rewrite (string_end_quote b c _ Hg2), lift_Ok by assumption. subst str. f_equal. rewrite app_length. lia.
Qed.
