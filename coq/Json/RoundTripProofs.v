(* C05 (document layer): the generated parser reads back what the generated printer writes.
   Lemmas about Json/PrinterText.v (the text) against Json/ParserModel.v / Json/Scanner.v (the parser), and the
   RFC 8259 recognizer for whole documents.  Statements used by Properties/Properties_C05b.v are at the end. *)
From Flatcc.Json Require Import Codecs CodecsProofs ScannerProofs ParserModel ParserProofs PrinterText.
From Flatcc.Num Require NumModel NumProofs.
From Flatcc.Builder Require Import VMem TableLayout.
From Coq Require Import ZifyBool.
Local Open Scope Z_scope.
Ltac Zify.zify_post_hook ::= Z.div_mod_to_equations.

(* ------------------------------------------------------------------ the input from a position on *)
(* the bytes of b from i to the end are exactly l *)
Fixpoint tail_is (b : buf) (i : Z) (l : list Z) : Prop :=
  match l with
  | [] => 0 <= i /\ i = blen b
  | x :: t => get b i = Some x /\ tail_is b (i + 1) t
  end.

Lemma tail_is_range b l : forall i, tail_is b i l -> 0 <= i /\ i + len l = blen b.
Proof.
  induction l as [|x t IH]; intros i H; cbn [tail_is] in H.
  - cbn. lia.
  - destruct H as [Hg Ht]. apply get_Some in Hg. apply IH in Ht. cbn [length]. lia.
Qed.

Lemma tail_is_holds b l1 : forall l2 i, tail_is b i (l1 ++ l2) -> holds b i l1 /\ tail_is b (i + len l1) l2.
Proof.
  induction l1 as [|x t IH]; intros l2 i H.
  - cbn [app length holds]. replace (i + Z.of_nat 0) with i by lia. split; [|exact H].
    apply tail_is_range in H. lia.
  - cbn [app tail_is] in H. destruct H as [Hg Ht]. apply IH in Ht. destruct Ht as [Hh Ht].
    cbn [holds length]. split; [split; assumption|].
    replace (i + Z.of_nat (S (length t))) with (i + 1 + len t) by lia. exact Ht.
Qed.

Lemma tail_is_app b l1 l2 i : tail_is b i (l1 ++ l2) -> tail_is b (i + len l1) l2.
Proof. intros H. apply tail_is_holds in H. tauto. Qed.

Lemma tail_is_cons b x t i : tail_is b i (x :: t) -> get b i = Some x /\ tail_is b (i + 1) t /\ 0 <= i < blen b /\ bget b i = x.
Proof.
  intros H. pose proof (tail_is_range _ _ _ H) as R. cbn [length] in R. destruct H as [Hg Ht].
  pose proof (get_Some _ _ _ Hg). repeat split; try assumption; lia.
Qed.

Lemma tail_is_of_list l : Forall in_u8 l -> tail_is (of_list l) 0 l.
Proof.
  intros Hl. assert (G : forall post pre, Forall in_u8 post -> l = pre ++ post -> tail_is (of_list l) (len pre) post).
  { induction post as [|x t IH]; intros pre Hp E.
    - cbn [tail_is blen of_list]. subst l. rewrite app_nil_r. lia.
    - inversion Hp as [|? ? Hx Ht]; subst. cbn [tail_is]. split.
      + pose proof (holds_of_list [x] pre t ltac:(constructor; [exact Hx|constructor])) as H. cbn [holds app] in H.
        destruct H as [H _]. exact H.
      + specialize (IH (pre ++ [x]) Ht). rewrite <- app_assoc in IH. specialize (IH eq_refl).
        rewrite app_length in IH. cbn [length] in IH. replace (len pre + 1) with (len pre + Z.of_nat 1) by lia.
        rewrite <- Nat2Z.inj_add. exact IH. }
  exact (G l [] Hl eq_refl).
Qed.

(* ------------------------------------------------------------------ contexts *)
(* no error so far, flags as given *)
Definition cok (fl : Z) (c : pctx) : Prop := cerr c = 0 /\ cflags c = fl.

Lemma cok_set_unq fl c u : cok fl c -> cok fl (set_unq c u).
Proof. intros [? ?]. split; assumption. Qed.
Lemma cok_newline fl c p : cok fl c -> cok fl (newline c p).
Proof. intros [? ?]. split; assumption. Qed.
Lemma cok_init fl : cok fl (ctx_init fl).
Proof. split; reflexivity. Qed.

Lemma lift_ok {A B} (r : res A) (k : pctx -> Z -> A -> pres B) fl c p v :
  r = Ok c p v -> cok fl c -> lift r k = k c p v.
Proof. intros -> [E _]. unfold lift. rewrite E. reflexivity. Qed.

Lemma has_flag_cok fl c f : cok fl c -> has_flag c f = negb (Z.land fl f =? 0).
Proof. intros [_ E]. unfold has_flag. rewrite E. reflexivity. Qed.

(* ------------------------------------------------------------------ white space *)
(* [i, j) holds newlines and spaces only; at j the input ends or a printable ASCII character stands *)
Definition wsreg (b : buf) (i j : Z) : Prop :=
  0 <= i <= j /\ j <= blen b /\ (forall k, i <= k < j -> bget b k = 10 \/ bget b k = 32) /\
  (j = blen b \/ 32 < bget b j < 128).

Definition wsp (ws : list Z) : Prop := Forall (fun x => x = 10 \/ x = 32) ws.
Definition stop (rest : list Z) : Prop := match rest with [] => True | x :: _ => 32 < x < 128 end.

Lemma wsreg_of_text b ws : forall i rest, tail_is b i (ws ++ rest) -> wsp ws -> stop rest -> wsreg b i (i + len ws).
Proof.
  induction ws as [|x t IH]; intros i rest H Hw Hs.
  - cbn [app length] in *. replace (i + Z.of_nat 0) with i by lia.
    pose proof (tail_is_range _ _ _ H). unfold wsreg. repeat split; try lia.
    destruct rest as [|y r]; [cbn in *; left; lia|]. apply tail_is_cons in H. cbn in Hs. right. lia.
  - cbn [app] in H. apply tail_is_cons in H. destruct H as (_ & Ht & Hi & Hx).
    inversion Hw as [|? ? Hx0 Hw']; subst. destruct (IH (i + 1) rest Ht Hw' Hs) as (A & B & C & D).
    cbn [length]. replace (i + Z.of_nat (S (length t))) with (i + 1 + len t) by lia.
    unfold wsreg. split; [lia|]. split; [lia|]. split; [|exact D].
    intros k Hk. destruct (Z.eq_dec k i) as [->|]; [lia|]. apply C. lia.
Qed.

Lemma wsreg_step b i j : wsreg b i j -> i < j -> wsreg b (i + 1) j.
Proof. intros (A & B & C & D) H. unfold wsreg. split; [lia|]. split; [lia|]. split; [|exact D]. intros k Hk. apply C. lia. Qed.

Lemma wsreg_from b i j q : wsreg b i j -> i <= q <= j -> wsreg b q j.
Proof. intros (A & B & C & D) H. unfold wsreg. split; [lia|]. split; [lia|]. split; [|exact D]. intros k Hk. apply C. lia. Qed.

Lemma sc_small x : 0 <= x < 128 -> sc x = x.
Proof. intros. unfold sc. replace (x <? 128) with true by lia. reflexivity. Qed.

(* classification of a position of the region *)
Lemma wsreg_at b i j k : wsreg b i j -> i <= k <= j -> k < blen b ->
  (k < j /\ (bget b k = 10 \/ bget b k = 32) /\ (32 <? sc (bget b k)) = false) \/
  (k = j /\ 32 < bget b k < 128 /\ (32 <? sc (bget b k)) = true).
Proof.
  intros (A & B & C & D) Hk Hl. destruct (Z.eq_dec k j) as [->|Hne].
  - right. destruct D as [D|D]; [lia|]. rewrite sc_small by lia. repeat split; lia.
  - left. assert (H := C k ltac:(lia)). rewrite sc_small by lia. repeat split; lia.
Qed.

Lemma skip_sp_reg : forall fuel b p j, wsreg b p j -> Z.of_nat fuel > j - p ->
  exists q, skip_sp fuel b p = LAt q /\ p <= q <= j /\ (bget b p = 32 -> p < j -> p < q).
Proof.
  induction fuel as [|f IH]; intros b p j R Hf; [destruct R; lia|]. cbn [skip_sp].
  pose proof R as (A & B & _).
  destruct (p =? blen b) eqn:E.
  - exists p. repeat split; lia.
  - rewrite get_in by lia.
    destruct (wsreg_at b p j p R ltac:(lia) ltac:(lia)) as [(H1 & H2 & _)|(H1 & H2 & _)].
    + destruct (bget b p =? 32) eqn:E2.
      * destruct (IH b (p + 1) j (wsreg_step _ _ _ R H1) ltac:(lia)) as (q & -> & Hq & _). exists q. repeat split; lia.
      * exists p. repeat split; lia.
    + replace (bget b p =? 32) with false by lia. exists p. repeat split; lia.
Qed.

Lemma space_wide_reg b i j : wsreg b i j ->
  exists r p, space_wide b i = Some (r, p) /\ i <= p <= j /\ (r = true -> p = j).
Proof.
  intros R. pose proof R as (A & B & _). unfold space_wide.
  destruct (16 <=? blen b - i) eqn:E; [|exists false, i; repeat split; try lia; discriminate].
  rewrite get_in by lia.
  destruct (wsreg_at b i j i R ltac:(lia) ltac:(lia)) as [(H1 & H2 & ->)|(H1 & H2 & ->)];
    [|exists true, i; repeat split; lia].
  rewrite rd16_in by lia.
  destruct (wsreg_at b i j (i + 1) R ltac:(lia) ltac:(lia)) as [(K1 & K2 & K3)|(K1 & K2 & K3)].
  - destruct (bget b i + 256 * bget b (i + 1) =? 8224) eqn:Ew.
    + assert (bget b i = 32 /\ bget b (i + 1) = 32) as [X0 X1] by lia.
      rewrite get_in by lia.
      destruct (wsreg_at b i j (i + 2) R ltac:(lia) ltac:(lia)) as [(L1 & L2 & L3)|(L1 & L2 & L3)].
      * destruct (bget b (i + 2) =? 32) eqn:E2.
        -- rewrite get_in by lia.
           destruct (wsreg_at b i j (i + 2 + 1) R ltac:(lia) ltac:(lia)) as [(M1 & M2 & ->)|(M1 & M2 & ->)].
           ++ exists false, (i + 2 + 1). repeat split; try lia; discriminate.
           ++ exists true, (i + 2 + 1). repeat split; lia.
        -- rewrite get_in by lia. rewrite L3. exists false, (i + 2). repeat split; try lia; discriminate.
      * replace (bget b (i + 2) =? 32) with false by lia. rewrite get_in by lia. rewrite L3.
        exists true, (i + 2). repeat split; lia.
    + rewrite get_in by lia. destruct (bget b i =? 32) eqn:E0.
      * rewrite get_in by lia. rewrite K3. exists false, (i + 1). repeat split; try lia; discriminate.
      * rewrite get_in by lia. replace (32 <? sc (bget b i)) with false by (rewrite sc_small; lia).
        exists false, i. repeat split; try lia; discriminate.
  - replace (bget b i + 256 * bget b (i + 1) =? 8224) with false by lia.
    rewrite get_in by lia. destruct (bget b i =? 32) eqn:E0.
    + rewrite get_in by lia. rewrite K3. exists true, (i + 1). repeat split; lia.
    + rewrite get_in by lia. replace (32 <? sc (bget b i)) with false by (rewrite sc_small; lia).
      exists false, i. repeat split; try lia; discriminate.
Qed.

Lemma space_again_reg b i j : wsreg b i j ->
  space_again b i = PRet j \/
  exists q, space_again b i = PCont q /\ i <= q <= j /\ (bget b i = 32 -> i < j -> i < q).
Proof.
  intros R. unfold space_again. destruct (space_wide_reg b i j R) as (r & p & -> & Hp & Hr).
  destruct r; [left; rewrite Hr; reflexivity|]. right.
  destruct (skip_sp_reg (scan_fuel b p) b p j (wsreg_from _ _ _ _ R Hp)) as (q & -> & Hq & Hs).
  { unfold scan_fuel. destruct R. lia. }
  exists q. repeat split; try lia. intros H32 Hlt.
  destruct (Z.eq_dec p i) as [->|]; [apply Hs; assumption | lia].
Qed.

Lemma space_ctl_reg fl : forall fuel b c i j, wsreg b i j -> cok fl c -> Z.of_nat fuel > j - i ->
  exists c', space_ctl fuel b c i = Ok c' j tt /\ cok fl c'.
Proof.
  induction fuel as [|f IH]; intros b c i j R Hc Hf; [destruct R; lia|]. cbn [space_ctl].
  pose proof R as (A & B & _).
  destruct (i =? blen b) eqn:E; [exists c; replace j with i by lia; split; [reflexivity|assumption]|].
  rewrite get_in by lia.
  destruct (wsreg_at b i j i R ltac:(lia) ltac:(lia)) as [(H1 & H2 & H3)|(H1 & H2 & H3)].
  - replace (sc (bget b i) <=? 32) with true by lia.
    replace (bget b i =? 13) with false by lia.
    destruct (bget b i =? 10) eqn:E10.
    + apply IH; [apply wsreg_step; assumption | apply cok_newline; assumption | lia].
    + replace (bget b i =? 9) with false by lia. replace (bget b i =? 32) with true by lia.
      destruct (space_again_reg b i j R) as [->|(q & -> & Hq & Hs)]; [exists c; split; [reflexivity|assumption]|].
      apply IH; [eapply wsreg_from; eassumption | assumption | lia].
  - replace (sc (bget b i) <=? 32) with false by lia. exists c. subst j. split; [reflexivity|assumption].
Qed.

Lemma space_ext_reg fl b c i j : wsreg b i j -> cok fl c -> exists c', space_ext b c i = Ok c' j tt /\ cok fl c'.
Proof.
  intros R Hc. unfold space_ext.
  destruct (space_again_reg b i j R) as [->|(q & -> & Hq & _)]; [exists c; split; [reflexivity|assumption]|].
  apply (space_ctl_reg fl); [eapply wsreg_from; eassumption | assumption | unfold scan_fuel; destruct R; lia].
Qed.

Lemma space_reg fl b c i j : wsreg b i j -> cok fl c -> exists c', space b c i = Ok c' j tt /\ cok fl c'.
Proof.
  intros R Hc. unfold space. pose proof R as (A & B & _).
  destruct (1 <? blen b - i) eqn:E; [|apply (space_ext_reg fl); assumption].
  rewrite get_in by lia.
  destruct (wsreg_at b i j i R ltac:(lia) ltac:(lia)) as [(H1 & H2 & ->)|(H1 & H2 & ->)];
    [|exists c; subst j; split; [reflexivity|assumption]].
  rewrite get_in by lia.
  destruct (wsreg_at b i j (i + 1) R ltac:(lia) ltac:(lia)) as [(K1 & K2 & ->)|(K1 & K2 & ->)].
  - rewrite andb_false_r. apply (space_ext_reg fl); assumption.
  - destruct (bget b i =? 32) eqn:E0; cbn [andb].
    + exists c. subst j. split; [reflexivity|assumption].
    + apply (space_ext_reg fl); assumption.
Qed.

(* the form used below: white space [ws] at i, then [rest] *)
Lemma space_ws fl b c i ws rest : tail_is b i (ws ++ rest) -> wsp ws -> stop rest -> cok fl c ->
  exists c', space b c i = Ok c' (i + len ws) tt /\ cok fl c' /\ tail_is b (i + len ws) rest.
Proof.
  intros H Hw Hs Hc. destruct (space_reg fl b c i (i + len ws) (wsreg_of_text _ _ _ _ H Hw Hs) Hc) as (c' & E & Hc').
  exists c'. split; [exact E|]. split; [exact Hc'|]. apply tail_is_app in H. exact H.
Qed.

(* ------------------------------------------------------------------ object / array delimiters *)
Lemma delim_start_more fl o cl e b c i ws y r :
  tail_is b i (o :: ws ++ y :: r) -> wsp ws -> 32 < y < 128 -> y <> cl -> cok fl c ->
  exists c', delim_start o cl e b c i = Ok c' (i + 1 + len ws) true /\ cok fl c' /\ tail_is b (i + 1 + len ws) (y :: r).
Proof.
  intros H Hw Hy Hne Hc. apply tail_is_cons in H. destruct H as (Hg & Ht & Hi & _).
  unfold delim_start. replace (i =? blen b) with false by lia. rewrite Hg, Z.eqb_refl. cbn [negb].
  destruct (space_ws fl b c (i + 1) ws (y :: r) Ht Hw ltac:(cbn; lia) Hc) as (c1 & -> & Hc1 & Ht1).
  pose proof (tail_is_cons _ _ _ _ Ht1) as (Hg1 & _ & Hp & _).
  replace (i + 1 + len ws =? blen b) with false by lia. rewrite Hg1.
  replace (y =? cl) with false by lia. exists c1. auto.
Qed.

Lemma delim_start_empty fl o cl e b c i ws ws2 rest :
  tail_is b i (o :: ws ++ cl :: ws2 ++ rest) -> wsp ws -> wsp ws2 -> 32 < cl < 128 -> stop rest -> cok fl c ->
  exists c' p, delim_start o cl e b c i = Ok c' p false /\ cok fl c' /\ tail_is b p rest /\ p = i + 1 + len ws + 1 + len ws2.
Proof.
  intros H Hw Hw2 Hcl Hs Hc. apply tail_is_cons in H. destruct H as (Hg & Ht & Hi & _).
  unfold delim_start. replace (i =? blen b) with false by lia. rewrite Hg, Z.eqb_refl. cbn [negb].
  destruct (space_ws fl b c (i + 1) ws (cl :: ws2 ++ rest) Ht Hw ltac:(cbn; lia) Hc) as (c1 & -> & Hc1 & Ht1).
  pose proof (tail_is_cons _ _ _ _ Ht1) as (Hg1 & Ht2 & Hp & _).
  replace (i + 1 + len ws =? blen b) with false by lia. rewrite Hg1, Z.eqb_refl.
  destruct (space_ws fl b c1 _ ws2 rest Ht2 Hw2 Hs Hc1) as (c2 & -> & Hc2 & Ht3).
  exists c2, (i + 1 + len ws + 1 + len ws2). auto.
Qed.

Lemma delim_end_more fl cl e b c i ws ws2 y r :
  tail_is b i (ws ++ 44 :: ws2 ++ y :: r) -> wsp ws -> wsp ws2 -> 32 < y < 128 -> y <> cl -> cok fl c ->
  exists c' p, delim_end cl e b c i = Ok c' p true /\ cok fl c' /\ tail_is b p (y :: r) /\ p = i + len ws + 1 + len ws2.
Proof.
  intros H Hw Hw2 Hy Hne Hc. unfold delim_end.
  destruct (space_ws fl b c i ws (44 :: ws2 ++ y :: r) H Hw ltac:(cbn; lia) Hc) as (c1 & -> & Hc1 & Ht1).
  pose proof (tail_is_cons _ _ _ _ Ht1) as (Hg1 & Ht2 & Hp & _).
  replace (i + len ws =? blen b) with false by lia. rewrite Hg1. cbn [Z.eqb Pos.eqb negb].
  destruct (space_ws fl b c1 _ ws2 (y :: r) Ht2 Hw2 ltac:(cbn; lia) Hc1) as (c2 & -> & Hc2 & Ht3).
  pose proof (tail_is_cons _ _ _ _ Ht3) as (Hg3 & _ & Hq & _).
  replace (i + len ws + 1 + len ws2 =? blen b) with false by lia. rewrite Hg3.
  replace (y =? cl) with false by lia. exists c2, (i + len ws + 1 + len ws2). auto.
Qed.

Lemma delim_end_close fl cl e b c i ws ws2 rest :
  tail_is b i (ws ++ cl :: ws2 ++ rest) -> wsp ws -> wsp ws2 -> 32 < cl < 128 -> cl <> 44 -> stop rest -> cok fl c ->
  exists c' p, delim_end cl e b c i = Ok c' p false /\ cok fl c' /\ tail_is b p rest /\ p = i + len ws + 1 + len ws2.
Proof.
  intros H Hw Hw2 Hcl Hne Hs Hc. unfold delim_end.
  destruct (space_ws fl b c i ws (cl :: ws2 ++ rest) H Hw ltac:(cbn; lia) Hc) as (c1 & -> & Hc1 & Ht1).
  pose proof (tail_is_cons _ _ _ _ Ht1) as (Hg1 & Ht2 & Hp & _).
  replace (i + len ws =? blen b) with false by lia. rewrite Hg1.
  replace (cl =? 44) with false by lia. cbn [negb]. rewrite Z.eqb_refl. cbn [negb].
  destruct (space_ws fl b c1 _ ws2 rest Ht2 Hw2 Hs Hc1) as (c2 & -> & Hc2 & Ht3).
  exists c2, (i + len ws + 1 + len ws2). auto.
Qed.

(* ------------------------------------------------------------------ field names *)
Lemma list_eqb_refl l : list_eqb l l = true.
Proof. induction l as [|x t IH]; cbn [list_eqb]; [reflexivity|]. rewrite Z.eqb_refl, IH. reflexivity. Qed.
Lemma list_eqb_eq : forall a b, list_eqb a b = true -> a = b.
Proof.
  induction a as [|x t IH]; intros [|y s] H; cbn [list_eqb] in H; try discriminate; [reflexivity|].
  apply andb_true_iff in H. destruct H as [H1 H2]. f_equal; [lia|auto].
Qed.

Lemma ident_range x : ident_char x = true -> 32 < x < 128 /\ x <> 34 /\ x <> 58 /\ x <> 125 /\ x <> 46.
Proof. unfold ident_char. lia. Qed.

Lemma uc_small x : 0 <= x < 128 -> uc x = x.
Proof. intros. unfold uc. destruct (JCFG_unquoted_hi_unsigned =? 1); [reflexivity|apply sc_small; assumption]. Qed.

Lemma get_end b i : i = blen b -> get b i = None.
Proof. intros ->. unfold get, rd8, inb. replace (blen b + 1 <=? blen b) with false by lia. rewrite andb_false_r. reflexivity. Qed.

Lemma name_at_prefix b nm : forall i txt, tail_is b i txt -> (name_at b i nm = true <-> exists r, txt = nm ++ r).
Proof.
  induction nm as [|x t IH]; intros i txt H; cbn [name_at].
  - split; [intros _; exists txt; reflexivity | reflexivity].
  - destruct txt as [|y r].
    + cbn [tail_is] in H. rewrite get_end by lia. split; [discriminate | intros (r & Hr); discriminate].
    + apply tail_is_cons in H. destruct H as (Hg & Ht & _). rewrite Hg. specialize (IH (i + 1) r Ht).
      rewrite andb_true_iff, IH. split.
      * intros (E & r' & ->). exists r'. cbn [app]. f_equal. lia.
      * intros (r' & E). cbn [app] in E. inversion E; subst. split; [lia | exists r'; reflexivity].
Qed.

Lemma prefix_cases : forall nm' nm d rest, Forall (fun x => ident_char x = true) nm' -> ident_char d = false ->
  (exists r, nm ++ d :: rest = nm' ++ r) -> nm' = nm \/ exists x r', nm = nm' ++ x :: r'.
Proof.
  induction nm' as [|y t IH]; intros nm d rest Hn Hd (r & E).
  - destruct nm as [|x r']; [left; reflexivity | right; exists x, r'; reflexivity].
  - inversion Hn as [|? ? Hy Ht]; subst. destruct nm as [|x r'].
    + cbn [app] in E. inversion E; subst. congruence.
    + cbn [app] in E. inversion E; subst.
      destruct (IH r' d rest Ht Hd (ex_intro _ r H1)) as [->|(x0 & r0 & ->)]; [left; reflexivity|].
      right. exists x0, r0. reflexivity.
Qed.

(* the declared name is shorter than the symbol: the character after it is an identifier character *)
Lemma match_symbol_no b c i nm' x r : tail_is b i (nm' ++ x :: r) -> ident_char x = true ->
  match_symbol b c i (lenZ nm') = Ok c i tt.
Proof.
  intros H Hx. apply tail_is_app in H. apply tail_is_cons in H. destruct H as (Hg & _ & Hi & _).
  apply ident_range in Hx. unfold match_symbol, lenZ.
  replace (blen b - i <=? len nm') with false by lia. rewrite Hg.
  destruct (cunq c).
  - rewrite uc_small by lia. replace ((32 <? x) && negb (x =? 58)) with true by lia. reflexivity.
  - replace (negb (x =? 34)) with true by lia. reflexivity.
Qed.

Lemma match_symbol_quoted fl b c i nm ws rest : cunq c = false ->
  tail_is b i (nm ++ 34 :: 58 :: ws ++ rest) -> wsp ws -> stop rest -> cok fl c ->
  exists c' p, match_symbol b c i (lenZ nm) = Ok c' p tt /\ cok fl c' /\ tail_is b p rest /\ p = i + len nm + 2 + len ws.
Proof.
  intros Hu H Hw Hs Hc. apply tail_is_app in H. apply tail_is_cons in H. destruct H as (Hg & Ht & Hi & _).
  unfold match_symbol, lenZ. replace (blen b - i <=? len nm) with false by lia. rewrite Hg, Hu.
  cbn [Z.eqb Pos.eqb negb].
  destruct (space_ws fl b c (i + len nm + 1) [] (58 :: ws ++ rest) Ht ltac:(constructor) ltac:(cbn; lia) Hc) as (c1 & -> & Hc1 & Ht1).
  cbn [length] in *. replace (i + len nm + 1 + Z.of_nat 0) with (i + len nm + 1) in * by lia.
  apply tail_is_cons in Ht1. destruct Ht1 as (Hg1 & Ht2 & Hp & _).
  replace (i + len nm + 1 =? blen b) with false by lia. rewrite Hg1. cbn [Z.eqb Pos.eqb].
  destruct (space_ws fl b c1 _ ws rest Ht2 Hw Hs Hc1) as (c2 & -> & Hc2 & Ht3).
  exists c2, (i + len nm + 1 + 1 + len ws). repeat split; try assumption; try apply Hc2; lia.
Qed.

Lemma match_symbol_unquoted fl b c i nm ws rest : cunq c = true ->
  tail_is b i (nm ++ 58 :: ws ++ rest) -> wsp ws -> stop rest -> cok fl c ->
  exists c' p, match_symbol b c i (lenZ nm) = Ok c' p tt /\ cok fl c' /\ tail_is b p rest /\ p = i + len nm + 1 + len ws.
Proof.
  intros Hu H Hw Hs Hc. apply tail_is_app in H. pose proof H as H0. apply tail_is_cons in H. destruct H as (Hg & Ht & Hi & _).
  unfold match_symbol, lenZ. replace (blen b - i <=? len nm) with false by lia. rewrite Hg, Hu.
  cbn [Z.eqb Pos.eqb negb]. rewrite andb_false_r.
  destruct (space_ws fl b (set_unq c false) (i + len nm) [] (58 :: ws ++ rest) H0 ltac:(constructor) ltac:(cbn; lia)
              (cok_set_unq _ _ _ Hc)) as (c1 & E1 & Hc1 & Ht1).
  cbn [length] in *. replace (i + len nm + Z.of_nat 0) with (i + len nm) in * by lia. rewrite E1.
  replace (i + len nm =? blen b) with false by lia. rewrite Hg. cbn [Z.eqb Pos.eqb].
  destruct (space_ws fl b c1 _ ws rest Ht Hw Hs Hc1) as (c2 & -> & Hc2 & Ht3).
  exists c2, (i + len nm + 1 + len ws). repeat split; try assumption; try apply Hc2; lia.
Qed.

Definition names_ok (flds : list pfield) : Prop :=
  Forall (fun fd => Forall (fun x => ident_char x = true) (pf_name fd)) flds /\ names_distinct (map pf_name flds) = true.

Lemma names_ok_tail fd r : names_ok (fd :: r) -> names_ok r.
Proof.
  intros [H1 H2]. inversion H1; subst. cbn [map names_distinct] in H2. apply andb_true_iff in H2. split; tauto.
Qed.

(* the exact dispatch: the symbol at i is the name of fd followed by a non-identifier character d *)
Lemma find_field_hit b c i fd d after c' p : forall flds, names_ok flds -> In fd flds ->
  tail_is b i (pf_name fd ++ d :: after) -> ident_char d = false ->
  match_symbol b c i (lenZ (pf_name fd)) = Ok c' p tt -> p <> i ->
  find_field flds b c i = Some (fd, Ok c' p tt).
Proof.
  induction flds as [|fd0 r IH]; intros Hn Hin Ht Hd Hm Hp; [destruct Hin|]. cbn [find_field].
  pose proof (name_at_prefix b (pf_name fd0) i _ Ht) as Hna.
  destruct (name_at b i (pf_name fd0)) eqn:E.
  - destruct Hna as [Hna _]. specialize (Hna eq_refl).
    destruct Hn as [Hn1 Hn2]. inversion Hn1 as [|? ? Hid0 Hidr]; subst.
    destruct (prefix_cases _ _ _ _ Hid0 Hd Hna) as [Eq|(x & r' & Eq)].
    + (* the same name: the same field *)
      assert (fd0 = fd) as ->.
      { destruct Hin as [?|Hin]; [assumption|exfalso].
        cbn [map names_distinct] in Hn2. apply andb_true_iff in Hn2. destruct Hn2 as [Hn2 _].
        apply negb_true_iff in Hn2. rewrite <- not_true_iff_false in Hn2. apply Hn2.
        apply existsb_exists. exists (pf_name fd). split; [apply in_map; assumption|].
        rewrite Eq. apply list_eqb_refl. }
      rewrite Hm. replace (p =? i) with false by lia. reflexivity.
    + rewrite Eq in Ht. rewrite <- app_assoc in Ht. cbn [app] in Ht.
      assert (Hx : ident_char x = true).
      { assert (Hf : Forall (fun x => ident_char x = true) (pf_name fd)).
        { rewrite Forall_forall in Hidr. destruct Hin as [<-|Hin]; [|apply Hidr; assumption].
          exfalso. assert (Hl := f_equal (@length Z) Eq). rewrite app_length in Hl. cbn [length] in Hl. lia. }
        rewrite Eq in Hf. apply Forall_app in Hf. destruct Hf as [_ Hf]. inversion Hf; assumption. }
      rewrite (match_symbol_no b c i (pf_name fd0) x _ Ht Hx). rewrite Z.eqb_refl.
      apply IH; try assumption.
      * split; [assumption|]. cbn [map names_distinct] in Hn2. apply andb_true_iff in Hn2. tauto.
      * destruct Hin as [<-|Hin]; [|assumption]. exfalso.
        assert (Hl := f_equal (@length Z) Eq). rewrite app_length in Hl. cbn [length] in Hl. lia.
      * rewrite Eq. rewrite <- app_assoc. exact Ht.
  - apply IH; try assumption.
    + eapply names_ok_tail; eassumption.
    + destruct Hin as [<-|Hin]; [|assumption]. exfalso.
      destruct Hna as [_ Hna]. assert (false = true) by (apply Hna; eexists; reflexivity). discriminate.
Qed.

(* ------------------------------------------------------------------ scalars: bytes <-> value *)
Definition bytes_ok (bs : list Z) : Prop := Forall in_u8 bs.

Lemma byte_okb_forall bs : forallb byte_okb bs = true -> bytes_ok bs.
Proof.
  intros H. apply Forall_forall. intros x Hx. rewrite forallb_forall in H. specialize (H x Hx).
  unfold byte_okb in H. unfold in_u8. lia.
Qed.

Lemma le_val_bound bs : bytes_ok bs -> 0 <= le_val bs < 256 ^ len bs.
Proof.
  induction 1 as [|x t Hx Ht IH]; cbn [le_val length]; [cbn; lia|].
  rewrite Nat2Z.inj_succ, Z.pow_succ_r by lia. unfold in_u8 in Hx. lia.
Qed.

Lemma le_bytes_le_val bs : bytes_ok bs -> le_bytes (length bs) (le_val bs) = bs.
Proof.
  induction 1 as [|x t Hx Ht IH]; cbn [le_val length le_bytes]; [reflexivity|]. unfold in_u8 in Hx.
  replace ((x + 256 * le_val t) mod 256) with x by lia.
  replace ((x + 256 * le_val t) / 256) with (le_val t) by lia. rewrite IH. reflexivity.
Qed.

Lemma pow2_bits n : 0 < n -> 2 ^ (8 * n) = 2 * 2 ^ (8 * n - 1) /\ 0 < 2 ^ (8 * n - 1).
Proof.
  intros H. split; [|apply Z.pow_pos_nonneg; lia].
  replace (8 * n) with (Z.succ (8 * n - 1)) at 1 by lia. rewrite Z.pow_succ_r by lia. reflexivity.
Qed.

Lemma sval_range ty bs : sty_ok ty -> lenZ bs = st_size ty -> bytes_ok bs ->
  let B := 2 ^ (8 * st_size ty - 1) in
  0 <= le_val bs < 2 * B /\ 2 ^ (8 * st_size ty) = 2 * B /\
  (if st_signed ty then - B <= sval_of ty bs < B else 0 <= sval_of ty bs < 2 * B).
Proof.
  intros Hok Hl Hb B. pose proof (sty_size ty Hok) as Hs. pose proof (le_val_bound bs Hb) as Hu.
  unfold lenZ in Hl. rewrite Hl in Hu. replace 256 with (2 ^ 8) in Hu by reflexivity.
  rewrite <- Z.pow_mul_r in Hu by lia. destruct (pow2_bits (st_size ty) ltac:(lia)) as [E Hp]. fold B in E, Hp.
  rewrite E in Hu. split; [exact Hu|]. split; [exact E|].
  unfold sval_of. fold B. rewrite E. destruct (st_signed ty); cbn [andb]; [|exact Hu].
  destruct (B <=? le_val bs) eqn:C; lia.
Qed.

Lemma coerce_sval ty b c p bs : sty_ok ty -> lenZ bs = st_size ty -> bytes_ok bs ->
  coerce ty b c p (sval_of ty bs <? 0) (Z.abs (sval_of ty bs)) = Ok c p (SBytes bs).
Proof.
  intros Hok Hl Hb. destruct (sval_range ty bs Hok Hl Hb) as (Hu & E & Hx).
  pose proof (sty_size ty Hok) as Hs.
  assert (Hn : Z.to_nat (st_size ty) = length bs) by (unfold lenZ in Hl; lia).
  unfold coerce. cbv zeta. rewrite E. set (B := 2 ^ (8 * st_size ty - 1)) in *. rewrite Hn.
  unfold sval_of in *. rewrite E in *. fold B in Hx |- *.
  destruct (st_signed ty); cbn [andb] in *.
  - destruct (B <=? le_val bs) eqn:C.
    + replace (le_val bs - 2 * B <? 0) with true by lia.
      replace (B <? Z.abs (le_val bs - 2 * B)) with false by lia.
      replace ((2 * B - Z.abs (le_val bs - 2 * B)) mod (2 * B)) with (le_val bs) by (rewrite Z.mod_small; lia).
      rewrite le_bytes_le_val by assumption. reflexivity.
    + replace (le_val bs <? 0) with false by lia.
      replace (B - 1 <? Z.abs (le_val bs)) with false by lia.
      replace (Z.abs (le_val bs) mod (2 * B)) with (le_val bs) by (rewrite Z.mod_small; lia).
      rewrite le_bytes_le_val by assumption. reflexivity.
  - replace (le_val bs <? 0) with false by lia.
    replace (2 * B - 1 <? Z.abs (le_val bs)) with false by lia.
    replace (Z.abs (le_val bs) mod (2 * B)) with (le_val bs) by (rewrite Z.mod_small; lia).
    rewrite le_bytes_le_val by assumption. reflexivity.
Qed.

(* ------------------------------------------------------------------ scalars: the number text *)
Lemma taken_spec l : taken (len l, l ++ [0]) = l.
Proof. unfold taken. cbn [fst snd]. rewrite Nat2Z.id, firstn_app, Nat.sub_diag, firstn_all. cbn. apply app_nil_r. Qed.

Lemma sdecimal_nonneg x : 0 <= x -> NumModel.sdecimal x = NumModel.decimal x.
Proof. intros. unfold NumModel.sdecimal. replace (x <? 0) with false by lia. reflexivity. Qed.

Lemma num_text_sdecimal ty bs : sty_ok ty -> lenZ bs = st_size ty -> bytes_ok bs ->
  num_text ty (sval_of ty bs) = NumModel.sdecimal (sval_of ty bs).
Proof.
  intros Hok Hl Hb. destruct (sval_range ty bs Hok Hl Hb) as (_ & _ & Hx).
  set (x := sval_of ty bs) in *. unfold num_text.
  destruct (sty_size ty Hok) as [E|[E|[E|E]]]; rewrite E in *; cbn [Z.eqb Pos.eqb]; destruct (st_signed ty).
  - change (2 ^ (8 * 1 - 1)) with 128 in Hx. rewrite NumProofs.print_int8_spec by lia. apply taken_spec.
  - change (2 ^ (8 * 1 - 1)) with 128 in Hx. rewrite NumProofs.print_uint8_spec by lia.
    rewrite sdecimal_nonneg by lia. apply taken_spec.
  - change (2 ^ (8 * 2 - 1)) with 32768 in Hx. rewrite NumProofs.print_int16_spec by lia. apply taken_spec.
  - change (2 ^ (8 * 2 - 1)) with 32768 in Hx. rewrite NumProofs.print_uint16_spec by lia.
    rewrite sdecimal_nonneg by lia. apply taken_spec.
  - change (2 ^ (8 * 4 - 1)) with 2147483648 in Hx. rewrite NumProofs.print_int32_spec by lia. apply taken_spec.
  - change (2 ^ (8 * 4 - 1)) with 2147483648 in Hx. rewrite NumProofs.print_uint32_spec by lia.
    rewrite sdecimal_nonneg by lia. apply taken_spec.
  - change (2 ^ (8 * 8 - 1)) with 9223372036854775808 in Hx. rewrite NumProofs.print_int64_spec by lia. apply taken_spec.
  - change (2 ^ (8 * 8 - 1)) with 9223372036854775808 in Hx. rewrite NumProofs.print_uint64_spec by lia.
    rewrite sdecimal_nonneg by lia. apply taken_spec.
Qed.

(* ------------------------------------------------------------------ scalars: the integer scanner on decimal text *)
Lemma integer_digits_run : forall ds fuel b j x0 y r,
  Forall NumProofs.digitc ds -> tail_is b j (ds ++ y :: r) -> is_digit y = false ->
  0 <= x0 -> NumModel.dval_from x0 ds < 18446744073709551616 -> (length ds < fuel)%nat ->
  integer_digits fuel b j x0 = Some (Some (inl (j + len ds, NumModel.dval_from x0 ds))).
Proof.
  induction ds as [|d t IH]; intros fuel b j x0 y r Hd Ht Hy Hx Hv Hf;
    (destruct fuel as [|f]; [cbn in Hf; lia|]); cbn [integer_digits].
  - cbn [app] in Ht. apply tail_is_cons in Ht. destruct Ht as (Hg & _ & Hj & _).
    replace (j =? blen b) with false by lia. rewrite Hg, Hy. cbn [length]. replace (j + Z.of_nat 0) with j by lia. reflexivity.
  - cbn [app] in Ht. apply tail_is_cons in Ht. destruct Ht as (Hg & Ht & Hj & _).
    inversion Hd as [|? ? Hd0 Hdt]; subst. unfold NumProofs.digitc in Hd0.
    replace (j =? blen b) with false by lia. rewrite Hg.
    replace (is_digit d) with true by (unfold is_digit; lia).
    rewrite NumProofs.dval_from_cons in Hv |- *.
    pose proof (NumProofs.dval_from_ge t (x0 * 10 + (d - 48)) Hdt ltac:(lia)) as Hge.
    replace (x0 >? (U64_MAX - (d - 48)) / 10) with false by (unfold U64_MAX; lia).
    rewrite u64_id by (unfold in_u64; lia).
    rewrite (IH f b (j + 1) (x0 * 10 + (d - 48)) y r Hdt Ht Hy ltac:(lia) Hv ltac:(cbn in Hf; lia)).
    replace (j + 1 + len t) with (j + len (d :: t)) by (cbn [length]; lia). reflexivity.
Qed.

(* a character that may follow a value: newline, space, comma, closing brace / bracket *)
Definition vfollow (y : Z) : Prop := y = 10 \/ y = 32 \/ y = 44 \/ y = 125 \/ y = 93.

Lemma integer_sdecimal b c i x y r : - 18446744073709551616 < x < 18446744073709551616 ->
  tail_is b i (NumModel.sdecimal x ++ y :: r) -> vfollow y ->
  integer b c i = Ok c (i + len (NumModel.sdecimal x)) (x <? 0, Z.abs x).
Proof.
  intros Hx Ht Hy. unfold integer.
  assert (Hyd : is_digit y = false) by (unfold is_digit, vfollow in *; lia).
  assert (Hye : (y =? 101) || (y =? 69) || (y =? 46) = false) by (unfold vfollow in *; lia).
  unfold NumModel.sdecimal in *. destruct (x <? 0) eqn:Hs.
  - cbn [app] in Ht. apply tail_is_cons in Ht. destruct Ht as (Hg & Ht & Hi & _).
    replace (i =? blen b) with false by lia. rewrite Hg. cbn [Z.eqb Pos.eqb].
    pose proof (NumProofs.decimal_digits (- x) ltac:(lia)) as Hd.
    pose proof (NumProofs.decimal_dval (- x) ltac:(lia)) as Hv.
    pose proof (NumProofs.decimal_nonempty (- x) ltac:(lia)) as Hne.
    pose proof (tail_is_range _ _ _ Ht) as R. rewrite app_length in R. cbn [length] in R.
    rewrite (integer_digits_run (NumModel.decimal (- x)) _ b (i + 1) 0 y r Hd Ht Hyd ltac:(lia));
      [| fold (NumModel.dval (NumModel.decimal (- x))); lia | unfold scan_fuel; lia].
    fold (NumModel.dval (NumModel.decimal (- x))). rewrite Hv.
    assert (0 < len (NumModel.decimal (- x))) by (destruct (NumModel.decimal (- x)); [congruence|cbn; lia]).
    replace (i + 1 + len (NumModel.decimal (- x)) =? i) with false by lia.
    replace (i + 1 + len (NumModel.decimal (- x)) =? blen b) with false by lia.
    apply tail_is_app in Ht. apply tail_is_cons in Ht. destruct Ht as (Hg2 & _). rewrite Hg2, Hye.
    f_equal; [cbn [length]; lia | f_equal; lia].
  - pose proof (NumProofs.decimal_digits x ltac:(lia)) as Hd.
    pose proof (NumProofs.decimal_dval x ltac:(lia)) as Hv.
    pose proof (NumProofs.decimal_nonempty x ltac:(lia)) as Hne.
    pose proof (tail_is_range _ _ _ Ht) as R. rewrite app_length in R. cbn [length] in R.
    destruct (NumModel.decimal x) as [|d0 t0] eqn:Ed; [congruence|].
    pose proof Ht as Ht0. cbn [app] in Ht0. apply tail_is_cons in Ht0. destruct Ht0 as (Hg & _ & Hi & _).
    pose proof (Forall_inv Hd) as Hd0. unfold NumProofs.digitc in Hd0.
    replace (i =? blen b) with false by lia. rewrite Hg. replace (d0 =? 45) with false by lia.
    rewrite (integer_digits_run (d0 :: t0) _ b i 0 y r Hd Ht Hyd ltac:(lia));
      [| fold (NumModel.dval (d0 :: t0)); lia | unfold scan_fuel; cbn [length] in *; lia].
    fold (NumModel.dval (d0 :: t0)). rewrite Hv.
    replace (i + len (d0 :: t0) =? i) with false by (cbn [length]; lia).
    replace (i + len (d0 :: t0) =? blen b) with false by lia.
    apply tail_is_app in Ht. apply tail_is_cons in Ht. destruct Ht as (Hg2 & _). rewrite Hg2, Hye.
    f_equal. f_equal. lia.
Qed.

(* ------------------------------------------------------------------ scalars: sp_int on the printed scalar *)
Lemma match_bytes_yes b lit : forall i r, tail_is b i (lit ++ r) -> match_bytes b i lit = Some true.
Proof.
  induction lit as [|l t IH]; intros i r H; cbn [match_bytes]; [reflexivity|].
  cbn [app] in H. apply tail_is_cons in H. destruct H as (Hg & Ht & _). rewrite Hg, (IH _ _ Ht), Z.eqb_refl. reflexivity.
Qed.

Lemma sp_int_printed F syms fl b c i ty bs y r : sty_ok ty -> cok fl c ->
  scalar_okb ty bs = true -> nosym_okb F syms ty bs = true ->
  tail_is b i (scalar_text F syms ty bs ++ y :: r) -> vfollow y ->
  sp_int ty b c i = Ok c (i + len (scalar_text F syms ty bs)) (SBytes bs).
Proof.
  intros Hok Hc Hs Hn Ht Hy. unfold scalar_okb in Hs. apply andb_true_iff in Hs. destruct Hs as [Hs Hb01].
  apply andb_true_iff in Hs. destruct Hs as [Hl Hb]. apply byte_okb_forall in Hb.
  assert (Hlen : lenZ bs = st_size ty) by lia.
  unfold sp_int, scalar_text in *.
  destruct (st_bool ty) eqn:Eb.
  - (* bool: one byte, 0 or 1 *)
    assert (Hs1 : st_size ty = 1).
    { unfold sty_ok, sty_okb in Hok. rewrite Eb in Hok. lia. }
    cbn [negb orb] in Hb01. unfold lenZ in Hlen.
    destruct bs as [|x [|x' t]]; cbn [length] in Hlen; try lia. cbn [le_val] in *.
    inversion Hb as [|? ? Hx _]; subst. unfold in_u8 in Hx.
    pose proof (tail_is_range _ _ _ Ht) as R. rewrite app_length in R. cbn [length] in R.
    destruct (x + 256 * 0 =? 0) eqn:E0.
    + assert (x = 0) by lia. subst x. cbn [length lit_false] in R |- *.
      replace (i =? blen b) with false by lia. unfold bool_.
      replace (4 <=? blen b - i) with true by lia. replace (5 <=? blen b - i) with true by lia.
      pose proof Ht as Ht'. cbn [lit_false app] in Ht'.
      destruct Ht' as (G0 & G1 & G2 & G3 & _).
      cbn [match_bytes lit_true]. rewrite G0, G1, G2, G3. cbn [Z.eqb Pos.eqb andb].
      rewrite (match_bytes_yes b lit_false i _ Ht).
      replace (i + 5 =? i) with false by lia. reflexivity.
    + assert (x = 1) by lia. subst x. cbn [length lit_true] in R |- *.
      replace (i =? blen b) with false by lia. unfold bool_.
      replace (4 <=? blen b - i) with true by lia.
      rewrite (match_bytes_yes b lit_true i _ Ht).
      replace (i + 4 =? i) with false by lia. reflexivity.
  - assert (Htxt : (if fl_noenum F then num_text ty (sval_of ty bs)
                    else match assocZ (sval_of ty bs) syms with Some nm => psymbol F nm | None => num_text ty (sval_of ty bs) end)
                   = NumModel.sdecimal (sval_of ty bs)).
    { unfold nosym_okb in Hn. rewrite Eb in Hn. cbn [orb] in Hn.
      destruct (fl_noenum F); [apply num_text_sdecimal; assumption|]. cbn [orb] in Hn.
      destruct (assocZ (sval_of ty bs) syms); [discriminate|apply num_text_sdecimal; assumption]. }
    rewrite Htxt in *.
    destruct (sval_range ty bs Hok Hlen Hb) as (_ & _ & Hx).
    assert (Hr : - 18446744073709551616 < sval_of ty bs < 18446744073709551616).
    { destruct (sty_size ty Hok) as [E|[E|[E|E]]]; rewrite E in Hx; destruct (st_signed ty);
        first [ change (2 ^ (8 * 1 - 1)) with 128 in Hx | change (2 ^ (8 * 2 - 1)) with 32768 in Hx
              | change (2 ^ (8 * 4 - 1)) with 2147483648 in Hx | change (2 ^ (8 * 8 - 1)) with 9223372036854775808 in Hx ]; lia. }
    pose proof (tail_is_range _ _ _ Ht) as R. rewrite app_length in R. cbn [length] in R.
    replace (i =? blen b) with false by lia.
    rewrite (integer_sdecimal b c i _ y r Hr Ht Hy).
    assert (0 < len (NumModel.sdecimal (sval_of ty bs))).
    { unfold NumModel.sdecimal. destruct (sval_of ty bs <? 0) eqn:E; [cbn [length]; lia|].
      pose proof (NumProofs.decimal_nonempty (sval_of ty bs) ltac:(lia)).
      destruct (NumModel.decimal (sval_of ty bs)); [congruence|cbn [length]; lia]. }
    replace (i + len (NumModel.sdecimal (sval_of ty bs)) =? i) with false by lia.
    cbn [fst snd]. destruct Hc as [Hc _]. rewrite Hc. cbn [Z.eqb negb].
    apply coerce_sval; assumption.
Qed.

(* ------------------------------------------------------------------ strings *)
Lemma lift_Ok {A B} (k : pctx -> Z -> A -> pres B) c p v : cerr c = 0 -> lift (Ok c p v) k = k c p v.
Proof. intros E. unfold lift. rewrite E. reflexivity. Qed.

Lemma raw_prefix_need s r u : raw_prefix s = (r, u) -> u <> [] -> str_need s = 1.
Proof.
  intros H Hu. destruct (raw_prefix_spec _ _ _ H) as (-> & _ & He & _). unfold str_need.
  destruct u as [|x t]; [congruence|]. cbn in He. rewrite existsb_app. cbn [existsb]. rewrite He, orb_true_r. reflexivity.
Qed.

Lemma pstring_printed fl maxlvl lvl b c i s str rest :
  bytes_ok str -> cok fl c -> tail_is b i (print_string str ++ rest) -> lvl + str_need str <= maxlvl ->
  pstring maxlvl lvl b c i s = POk c (i + len (print_string str)) (s ++ [CString str]) (length s, str).
Proof.
  intros Hb Hc Ht Hlvl. destruct Hc as [Hce _].
  apply tail_is_holds in Ht. destruct Ht as [Hh _].
  rewrite print_string_length. unfold print_string in Hh. destruct Hh as [Hq Hh].
  destruct (raw_prefix str) as [r u] eqn:Ep.
  destruct (raw_prefix_spec _ _ _ Ep) as (Hs & Hr & He & Hl).
  pose proof (body_split _ _ _ Ep) as Hbody. rewrite Hbody in Hh |- *.
  rewrite <- app_assoc in Hh.
  destruct (body_head_stop u [] He) as (stop & rest' & Hst & Hstop).
  assert (Hh2 := Hh). rewrite Hst in Hh2.
  apply holds_app in Hh. destruct Hh as [Hrun Hh3].
  assert (Hrs : holds b (i + 1) (r ++ [stop])).
  { change (stop :: rest') with ([stop] ++ rest') in Hh2. rewrite app_assoc in Hh2.
    apply holds_app in Hh2. tauto. }
  pose proof (string_part_run b c (i + 1) r stop Hr Hstop Hrs) as Hsp.
  pose proof (holds_range _ _ _ Hrs) as R. rewrite app_length in R. simpl in R.
  unfold pstring. rewrite (string_start_quote b c i Hq), lift_Ok by assumption. rewrite Hsp, lift_Ok by assumption.
  rewrite (slice_holds b (i + 1) r (i + 1 + len r) Hrun eq_refl).
  replace (i + 1 + len r =? blen b) with false by lia.
  destruct u as [|x t].
  - simpl in Hh3. destruct Hh3 as [Hg _]. rewrite Hg. change (34 =? 34) with true. cbv iota.
    rewrite (string_end_quote b c _ Hg), lift_Ok by assumption. rewrite app_nil_r in Hs. subst str.
    f_equal. rewrite app_nil_r. lia.
  - assert (Hg : get b (i + 1 + len r) = Some 92).
    { simpl in He. rewrite body_cons in Hh3. unfold print_byte in Hh3. rewrite He in Hh3.
      unfold print_escape in Hh3. destruct Hh3 as [Hg _]. exact Hg. }
    rewrite Hg. change (92 =? 34) with false. cbv iota.
    rewrite (raw_prefix_need _ _ _ Ep ltac:(discriminate)) in Hlvl.
    replace (maxlvl <? lvl + 1) with false by lia.
    assert (Hbu : Forall in_u8 (x :: t)). { subst str. apply Forall_app in Hb. tauto. }
    pose proof (holds_range _ _ _ Hh3) as R3. rewrite app_length in R3. cbn [length] in R3.
    rewrite (build_loop_ok (length (x :: t)) (x :: t) _ b c (i + 1 + len r) r (le_n _) Hbu He Hh3);
      [| unfold scan_fuel; lia].
    rewrite lift_Ok by assumption.
    apply holds_app in Hh3. destruct Hh3 as [_ [Hg2 _]].
    rewrite (string_end_quote b c _ Hg2), lift_Ok by assumption. subst str. f_equal. rewrite app_length. lia.
Qed.

(* ------------------------------------------------------------------ shapes of printed pieces *)
Definition vfollow_head (rest : list Z) : Prop := match rest with y :: _ => vfollow y | [] => False end.
(* after a member / element: comma or the closing character *)
Definition vstop (rest : list Z) : Prop := match rest with y :: _ => y = 44 \/ y = 125 \/ y = 93 | [] => False end.

Lemma vstop_stop rest : vstop rest -> stop rest.
Proof. destruct rest; cbn; [tauto|lia]. Qed.

Lemma vfollow_ws ws rest : wsp ws -> vstop rest -> vfollow_head (ws ++ rest).
Proof.
  intros Hw Hr. destruct ws as [|x t]; cbn [app].
  - destruct rest; cbn in *; [tauto|]. unfold vfollow. lia.
  - inversion Hw; subst. cbn. unfold vfollow. lia.
Qed.

Lemma sp_int_printed' F syms fl b c i ty bs rest : sty_ok ty -> cok fl c ->
  scalar_okb ty bs = true -> nosym_okb F syms ty bs = true ->
  tail_is b i (scalar_text F syms ty bs ++ rest) -> vfollow_head rest ->
  sp_int ty b c i = Ok c (i + len (scalar_text F syms ty bs)) (SBytes bs).
Proof. intros. destruct rest as [|y r]; [contradiction|]. eapply sp_int_printed; eassumption. Qed.

Section Shapes.
Variable F : prflags.
Hypothesis HF : prflags_ok F.

Lemma wsp_nl lvl : wsp (nl F lvl).
Proof.
  unfold nl. destruct (0 <? fl_indent F); [|constructor]. constructor; [left; reflexivity|].
  apply Forall_forall. intros x Hx. apply repeat_spec in Hx. right. exact Hx.
Qed.
Lemma wsp_sp1 : wsp (sp1 F).
Proof. unfold sp1. destruct (0 <? fl_indent F); [constructor; [right; reflexivity|constructor] | constructor]. Qed.

(* first character of a printed scalar: a digit, '-', 't' or 'f' *)
Definition vhead (l : list Z) : Prop := match l with y :: _ => 32 < y < 128 /\ y <> 93 /\ y <> 125 /\ y <> 44 | [] => False end.

Lemma sdecimal_head x : vhead (NumModel.sdecimal x).
Proof.
  unfold NumModel.sdecimal. destruct (x <? 0) eqn:E; [cbn; lia|].
  pose proof (NumProofs.decimal_digits x ltac:(lia)) as Hd. pose proof (NumProofs.decimal_nonempty x ltac:(lia)).
  destruct (NumModel.decimal x) as [|d t]; [congruence|]. apply Forall_inv in Hd. unfold NumProofs.digitc in Hd. cbn. lia.
Qed.

Lemma scalar_text_head syms ty bs : sty_ok ty -> scalar_okb ty bs = true -> nosym_okb F syms ty bs = true ->
  vhead (scalar_text F syms ty bs).
Proof.
  intros Hok Hs Hn. unfold scalar_okb in Hs. apply andb_true_iff in Hs. destruct Hs as [Hs _].
  apply andb_true_iff in Hs. destruct Hs as [Hl Hb]. apply byte_okb_forall in Hb.
  unfold scalar_text. destruct (st_bool ty) eqn:Eb; [destruct (le_val bs =? 0); cbn; lia|].
  unfold nosym_okb in Hn. rewrite Eb in Hn. cbn [orb] in Hn.
  assert (E : num_text ty (sval_of ty bs) = NumModel.sdecimal (sval_of ty bs)) by (apply num_text_sdecimal; [assumption|lia|assumption]).
  destruct (fl_noenum F); [rewrite E; apply sdecimal_head|]. cbn [orb] in Hn.
  destruct (assocZ (sval_of ty bs) syms); [discriminate|]. rewrite E. apply sdecimal_head.
Qed.
End Shapes.

(* ------------------------------------------------------------------ the builder's data area stays small *)
Definition targ_small (a : targ) : Prop := 0 <= targ_size a <= 8 /\ pow2 (targ_align a) /\ targ_align a <= 8.

Lemma place_end_small : forall ads off, Forall targ_small ads -> 0 <= off -> off + 15 * len ads <= 2147483648 ->
  0 <= place_end ads off <= off + 15 * len ads.
Proof.
  induction ads as [|a r IH]; intros off Hs Ho Hb; cbn [place_end length]; [cbn; lia|].
  inversion Hs as [|? ? (Hsz & Hp & Hal) Hr]; subst. cbn [length] in Hb. rewrite Nat2Z.inj_succ in *.
  pose proof (alignup_facts off (targ_align a) Hp Ho ltac:(lia)) as [Ha _].
  rewrite u32_id by (unfold in_u32; lia).
  specialize (IH (alignup off (targ_align a) + targ_size a) Hr ltac:(lia) ltac:(lia)). lia.
Qed.

Lemma pow2_4 : pow2 4.
Proof. exists 2. split; [lia|reflexivity]. Qed.

(* ------------------------------------------------------------------ vectors of scalars and of strings *)
Section Loops.
Variables (F : prflags) (fl maxlvl : Z).
Hypothesis HF : prflags_ok F.

Lemma pscalvec_printed syms ty lvl L : sty_ok ty -> forall es e fuel b c i s acc wsA rest,
  Forall (fun e => scalar_okb ty e = true /\ nosym_okb F syms ty e = true) (e :: es) ->
  tail_is b i (scalar_text F syms ty e ++
               flat_map (fun y => 44 :: y) (map (fun e => nl F L ++ scalar_text F syms ty e) es) ++
               nl F lvl ++ 93 :: wsA ++ rest) ->
  wsp wsA -> stop rest -> cok fl c -> Z.of_nat fuel > blen b - i ->
  len acc + 1 + len es <= count_max (st_size ty) ->
  exists c' q, pscalvec fuel sp_int ty b c i s acc = POk c' q s (acc ++ e :: es) /\ cok fl c' /\ tail_is b q rest.
Proof.
  intros Hok. induction es as [|e2 r IH]; intros e fuel b c i s acc wsA rest Hes Ht HwA Hs Hc Hf Hcnt;
    (destruct fuel as [|f]; [pose proof (tail_is_range _ _ _ Ht); lia|]); cbn [pscalvec];
    (replace (count_max (st_size ty) <? len acc + 1) with false by (cbn [length] in Hcnt; lia));
    inversion Hes as [|? ? [He1 He2] Hes']; subst.
  - cbn [map flat_map app] in Ht.
    rewrite (sp_int_printed' F syms fl b c i ty e _ Hok Hc He1 He2 Ht)
      by (apply vfollow_ws; [apply wsp_nl | cbn; tauto]).
    rewrite lift_Ok by apply Hc.
    apply tail_is_app in Ht.
    destruct (delim_end_close fl 93 JE_unbalanced_array b c _ (nl F lvl) wsA rest Ht (wsp_nl F lvl) HwA ltac:(lia) ltac:(lia) Hs Hc)
      as (c' & q & E & Hc' & Ht' & Hq).
    unfold array_end. rewrite E, lift_Ok by apply Hc'. exists c', q. auto.
  - cbn [map flat_map app] in Ht.
    rewrite (sp_int_printed' F syms fl b c i ty e _ Hok Hc He1 He2 Ht) by (cbn; unfold vfollow; tauto).
    rewrite lift_Ok by apply Hc.
    apply tail_is_app in Ht.
    inversion Hes' as [|? ? [He21 He22] _]; subst.
    pose proof (scalar_text_head F syms ty e2 Hok He21 He22) as Hh.
    rewrite <- !app_assoc in Ht.
    destruct (scalar_text F syms ty e2) as [|y t] eqn:Etxt; [contradiction|]. cbn [vhead] in Hh.
    destruct (delim_end_more fl 93 JE_unbalanced_array b c _ [] (nl F L) y _ Ht ltac:(constructor) (wsp_nl F L) ltac:(lia) ltac:(lia) Hc)
      as (c' & q & E & Hc' & Ht' & Hq).
    unfold array_end. rewrite E, lift_Ok by apply Hc'.
    destruct (IH e2 f b c' q s (acc ++ [e]) wsA rest Hes') as (c2 & q2 & E2 & Hc2 & Ht2); try assumption.
    + rewrite Etxt. exact Ht'.
    + cbn [length] in Hq. lia.
    + rewrite app_length. cbn [length] in *. lia.
    + exists c2, q2. rewrite E2, <- app_assoc. auto.
Qed.

(* while (more) { build_string; extend_offset_vector; array_end } *)
Lemma pstrvec_printed plvl lvl L : forall strs str fuel b c i s rs vs wsA rest,
  Forall (fun x => bytes_ok x /\ plvl + str_need x <= maxlvl) (str :: strs) ->
  tail_is b i (print_string str ++
               flat_map (fun y => 44 :: y) (map (fun x => nl F L ++ print_string x) strs) ++
               nl F lvl ++ 93 :: wsA ++ rest) ->
  wsp wsA -> stop rest -> cok fl c -> Z.of_nat fuel > blen b - i ->
  exists c' q s' rs', pstrvec fuel maxlvl plvl b c i s rs vs = POk c' q s' (rs', vs ++ map VString (str :: strs)) /\
                      cok fl c' /\ tail_is b q rest.
Proof.
  induction strs as [|x2 r IH]; intros str fuel b c i s rs vs wsA rest Hes Ht HwA Hs Hc Hf;
    (destruct fuel as [|f]; [pose proof (tail_is_range _ _ _ Ht); lia|]); cbn [pstrvec];
    inversion Hes as [|? ? [He1 He2] Hes']; subst.
  - cbn [map flat_map app] in Ht.
    rewrite (pstring_printed fl maxlvl plvl b c i s str _ He1 Hc Ht He2).
    apply tail_is_app in Ht.
    destruct (delim_end_close fl 93 JE_unbalanced_array b c _ (nl F lvl) wsA rest Ht (wsp_nl F lvl) HwA ltac:(lia) ltac:(lia) Hs Hc)
      as (c' & q & E & Hc' & Ht' & Hq).
    unfold array_end. rewrite E, lift_Ok by apply Hc'. eexists c', q, _, _. split; [reflexivity|auto].
  - cbn [map flat_map app] in Ht.
    rewrite (pstring_printed fl maxlvl plvl b c i s str _ He1 Hc Ht He2).
    apply tail_is_app in Ht. rewrite <- !app_assoc in Ht.
    change (print_string x2) with (34 :: (print_string_body x2 ++ [34])) in Ht. cbn [app] in Ht.
    destruct (delim_end_more fl 93 JE_unbalanced_array b c _ [] (nl F L) 34 _ Ht ltac:(constructor) (wsp_nl F L) ltac:(lia) ltac:(lia) Hc)
      as (c' & q & E & Hc' & Ht' & Hq).
    unfold array_end. rewrite E, lift_Ok by apply Hc'.
    destruct (IH x2 f b c' q (s ++ [CString str]) (rs ++ [length s]) (vs ++ [VString str]) wsA rest Hes') as (c2 & q2 & s2 & rs2 & E2 & Hc2 & Ht2);
      try assumption.
    + cbn [length] in Hq. lia.
    + exists c2, q2, s2, rs2. rewrite E2, <- app_assoc. auto.
Qed.
End Loops.

(* ------------------------------------------------------------------ lists of optional results *)
Lemma opt_all_Forall2 {A B} (g : A -> option B) : forall l r, opt_all (map g l) = Some r -> Forall2 (fun a b => g a = Some b) l r.
Proof.
  induction l as [|a t IH]; intros r H; cbn [map opt_all] in H.
  - inversion H. constructor.
  - destruct (g a) eqn:E; [|discriminate]. destruct (opt_all (map g t)) eqn:E2; [|discriminate].
    inversion H; subst. constructor; [assumption|]. apply IH. reflexivity.
Qed.

Lemma fold_max_ge {A} (f : A -> Z) l x : In x l -> f x <= fold_right (fun y a => Z.max (f y) a) 0 l.
Proof. induction l as [|y t IH]; intros H; [destruct H|]. cbn [fold_right]. destruct H as [->|H]; [lia|]. specialize (IH H). lia. Qed.

Lemma fold_max_nonneg {A} (f : A -> Z) l : 0 <= fold_right (fun y a => Z.max (f y) a) 0 l.
Proof. induction l; cbn [fold_right]; lia. Qed.

(* ------------------------------------------------------------------ frames *)
Definition fr_inv (fr : tframe) : Prop :=
  map ParserModel.targ_id (adds fr) = map fst (vals fr) /\ Forall targ_small (adds fr).

Lemma fr_inv_0 : fr_inv frame0.
Proof. split; [reflexivity|constructor]. Qed.

Lemma fr_inv_add fr a v d : fr_inv fr -> targ_small a -> fr_inv (frame_add fr a v d).
Proof.
  intros [H1 H2] Ha. unfold frame_add, fr_inv. cbn [adds vals]. rewrite !map_app, H1. cbn [map fst].
  split; [reflexivity|]. apply Forall_app. split; [assumption|constructor; [assumption|constructor]].
Qed.

Lemma has_id_vals fr id : fr_inv fr -> ~ In id (map fst (vals fr)) -> has_id id (adds fr) = false.
Proof.
  intros [H1 _] Hn. destruct (has_id id (adds fr)) eqn:E; [|reflexivity]. exfalso. apply Hn. rewrite <- H1.
  unfold has_id in E. apply existsb_exists in E. destruct E as (a & Ha & Ea). apply in_map_iff. exists a. split; [lia|assumption].
Qed.

Lemma offset_small id r : targ_small (TOffset id r).
Proof. unfold targ_small. cbn. split; [lia|]. split; [apply pow2_4|lia]. Qed.

Lemma add_offset_ok {A} fr id r v d p (k : tframe -> pres A) : fr_inv fr -> ~ In id (map fst (vals fr)) ->
  add_offset fr id r v d p k = k (frame_add fr (TOffset id r) v d).
Proof. intros Hi Hn. unfold add_offset. rewrite (has_id_vals fr id Hi Hn). reflexivity. Qed.

(* string vectors as the tree holds them *)
Lemma strvec_shape l : forallb (fun x => match x with VString s => forallb byte_okb s | _ => false end) l = true ->
  exists strs, l = map VString strs /\ Forall bytes_ok strs.
Proof.
  induction l as [|x t IH]; cbn [forallb]; intros H; [exists []; split; [reflexivity|constructor]|].
  apply andb_true_iff in H. destruct H as [Hx Ht]. destruct (IH Ht) as (strs & -> & Hs).
  destruct x; try discriminate. exists (s :: strs). split; [reflexivity|]. constructor; [apply byte_okb_forall; assumption|assumption].
Qed.

(* ------------------------------------------------------------------ association lists built field by field *)
Lemma flat_map_flat_map {A B C} (f : A -> list B) (g : B -> list C) l :
  flat_map g (flat_map f l) = flat_map (fun x => flat_map g (f x)) l.
Proof. induction l as [|x t IH]; [reflexivity|]. cbn [flat_map]. rewrite flat_map_app, IH. reflexivity. Qed.

Lemma flat_map_ext_in' {A B} (f g : A -> list B) l : (forall x, In x l -> f x = g x) -> flat_map f l = flat_map g l.
Proof.
  induction l as [|x t IH]; intros H; [reflexivity|]. cbn [flat_map]. rewrite (H x (or_introl eq_refl)), IH; [reflexivity|].
  intros y Hy. apply H. right. exact Hy.
Qed.

Definition one_key (G : pfield -> list (Z * value)) : Prop := forall fd, G fd = [] \/ exists v, G fd = [(pf_id fd, v)].

Lemma keys_flat_map G l : one_key G -> forall k, In k (map fst (flat_map G l)) -> In k (map pf_id l).
Proof.
  intros HG. induction l as [|fd r IH]; intros k Hk; [destruct Hk|]. cbn [flat_map] in Hk. rewrite map_app, in_app_iff in Hk.
  cbn [map]. destruct Hk as [Hk|Hk]; [|right; auto].
  destruct (HG fd) as [E|(v & E)]; rewrite E in Hk; cbn in Hk; [destruct Hk|]. destruct Hk as [<-|[]]. left. reflexivity.
Qed.

Lemma assocZ_not_in {A} k (l : list (Z * A)) : ~ In k (map fst l) -> assocZ k l = None.
Proof.
  induction l as [|[k' a] r IH]; intros H; [reflexivity|]. cbn [assocZ]. cbn [map fst] in H.
  destruct (k =? k') eqn:E; [exfalso; apply H; left; lia|]. apply IH. intros Hin. apply H. right. exact Hin.
Qed.

Lemma assocZ_app_skip {A} k (l1 l2 : list (Z * A)) : ~ In k (map fst l1) -> assocZ k (l1 ++ l2) = assocZ k l2.
Proof.
  induction l1 as [|[k' a] r IH]; intros H; [reflexivity|]. cbn [app assocZ]. cbn [map fst] in H.
  destruct (k =? k') eqn:E; [exfalso; apply H; left; lia|]. apply IH. intros Hin. apply H. right. exact Hin.
Qed.

Lemma assoc_flat_map G : one_key G -> forall l fd, NoDup (map pf_id l) -> In fd l ->
  assocZ (pf_id fd) (flat_map G l) = match G fd with (_, v) :: _ => Some v | [] => None end.
Proof.
  intros HG. induction l as [|fd0 r IH]; intros fd Hnd Hin; [destruct Hin|].
  cbn [map] in Hnd. inversion Hnd as [|? ? Hni Hnd']; subst. cbn [flat_map].
  destruct Hin as [->|Hin].
  - destruct (HG fd) as [E|(v & E)]; rewrite E; cbn [app].
    + apply assocZ_not_in. intros Hk. apply Hni. eapply keys_flat_map; eassumption.
    + cbn [assocZ]. rewrite Z.eqb_refl. reflexivity.
  - assert (Hne : pf_id fd <> pf_id fd0). { intros Eq. apply Hni. rewrite <- Eq. apply in_map. exact Hin. }
    rewrite assocZ_app_skip; [apply IH; assumption|].
    destruct (HG fd0) as [E|(v & E)]; rewrite E; cbn; [tauto|]. intros [Eq|[]]. congruence.
Qed.

Lemma order_vals_flat_map G flds : one_key G -> NoDup (map pf_id flds) ->
  order_vals flds (flat_map G flds) = flat_map G flds.
Proof.
  intros HG Hnd. unfold order_vals. apply flat_map_ext_in'. intros fd Hin.
  rewrite (assoc_flat_map G HG flds fd Hnd Hin).
  destruct (HG fd) as [E|(v & E)]; rewrite E; reflexivity.
Qed.

(* sub-sequences of the field list keep distinct ids *)
Lemma NoDup_flat_map_ids {B} (f : pfield -> list (pfield * B)) l :
  (forall fd, f fd = [] \/ exists x, f fd = [(fd, x)]) -> NoDup (map pf_id l) ->
  NoDup (map (fun it => pf_id (fst it)) (flat_map f l)).
Proof.
  intros Hf. induction l as [|fd r IH]; intros Hnd; [constructor|]. cbn [map] in Hnd. inversion Hnd as [|? ? Hni Hnd']; subst.
  cbn [flat_map]. destruct (Hf fd) as [E|(x & E)]; rewrite E; cbn [app map fst]; [auto|].
  constructor; [|auto]. intros Hin. apply Hni. apply in_map_iff in Hin. destruct Hin as ([fd' x'] & Eid & Hin).
  apply in_flat_map in Hin. destruct Hin as (fd2 & Hin2 & Hin3).
  destruct (Hf fd2) as [E2|(x2 & E2)]; rewrite E2 in Hin3; [destruct Hin3|]. destruct Hin3 as [Eq|[]]. inversion Eq; subst.
  cbn [fst] in Eid. rewrite <- Eid. apply in_map. exact Hin2.
Qed.

Lemma Forall2_impl_in {A B} (P Q : A -> B -> Prop) l r :
  Forall2 P l r -> (forall a b, In a l -> P a b -> Q a b) -> Forall2 Q l r.
Proof.
  induction 1 as [|a b l r Hab Hr IH]; intros H; constructor.
  - apply H; [left; reflexivity|assumption].
  - apply IH. intros a' b' Hin. apply H. right. exact Hin.
Qed.

Lemma flat_map_length_le {A B} (f : A -> list B) l : (forall x, (length (f x) <= 1)%nat) -> (length (flat_map f l) <= length l)%nat.
Proof. intros H. induction l as [|x t IH]; cbn [flat_map length]; [lia|]. rewrite app_length. specialize (H x). lia. Qed.

(* delimiters followed by any text whose first character is printable and not the closing one *)
Definition hd_ok (cl : Z) (rest : list Z) : Prop := match rest with y :: _ => 32 < y < 128 /\ y <> cl | [] => False end.

Lemma delim_start_more' fl o cl e b c i ws rest :
  tail_is b i (o :: ws ++ rest) -> wsp ws -> hd_ok cl rest -> cok fl c ->
  exists c', delim_start o cl e b c i = Ok c' (i + 1 + len ws) true /\ cok fl c' /\ tail_is b (i + 1 + len ws) rest.
Proof. intros H Hw Hh Hc. destruct rest as [|y r]; [contradiction|]. destruct Hh. eapply delim_start_more; eassumption. Qed.

Lemma delim_end_more' fl cl e b c i ws ws2 rest :
  tail_is b i (ws ++ 44 :: ws2 ++ rest) -> wsp ws -> wsp ws2 -> hd_ok cl rest -> cok fl c ->
  exists c' p, delim_end cl e b c i = Ok c' p true /\ cok fl c' /\ tail_is b p rest /\ p = i + len ws + 1 + len ws2.
Proof. intros H Hw Hw2 Hh Hc. destruct rest as [|y r]; [contradiction|]. destruct Hh. eapply delim_end_more; eassumption. Qed.

(* ------------------------------------------------------------------ one unfolding step of the mutual fixpoint *)
Lemma ptable_step sp maxlvl PS b f t lvl c i s :
  ptable sp maxlvl PS b (S f) t lvl c i s =
  match nth_error PS t with None => PStop W_OUT | Some flds =>
    if maxlvl <? lvl + 1 then failed i else
    lift (object_start b c i) (fun c1 p more =>
    if more then pfields sp maxlvl PS b f flds (lvl + 1) c1 p s frame0 else tfinish flds c1 p s frame0)
  end.
Proof. reflexivity. Qed.

Lemma pfields_step sp maxlvl PS b f flds lvl c i s fr :
  pfields sp maxlvl PS b (S f) flds lvl c i s fr =
  lift (symbol_start b c i) (fun c1 p1 _ =>
    let next (r : pres tframe) : tres :=
      match r with
      | PErr e l => PErr e l
      | PStop w => PStop w
      | POk c3 p3 s3 fr3 =>
        lift (object_end b c3 p3) (fun c4 p4 more =>
        if more then pfields sp maxlvl PS b f flds lvl c4 p4 s3 fr3 else tfinish flds c4 p4 s3 fr3)
      end in
    match find_field flds b c1 p1 with
    | None => next (lift (unmatched_symbol b c1 p1) (fun c2 p2 _ => POk c2 p2 s fr))
    | Some (fd, r) => next (lift r (fun c2 p2 _ =>
        pvalue sp maxlvl (ptable sp maxlvl PS b f) (ptabvec sp maxlvl PS b f) fd lvl b c2 p2 s fr))
    end).
Proof. reflexivity. Qed.

Lemma ptabvec_step sp maxlvl PS b f t lvl c i s rs vs d :
  ptabvec sp maxlvl PS b (S f) t lvl c i s rs vs d =
  match ptable sp maxlvl PS b f t lvl c i s with
  | PErr e l => PErr e l
  | PStop w => PStop w
  | POk c1 p s1 (r, v, d1) =>
    lift (array_end b c1 p) (fun c2 q more =>
    if more then ptabvec sp maxlvl PS b f t lvl c2 q s1 (rs ++ [r]) (vs ++ [v]) (Nat.max d d1)
    else POk c2 q s1 (rs ++ [r], vs ++ [v], Nat.max d d1))
  end.
Proof. reflexivity. Qed.

Ltac norm_app H := cbn [commas map app] in H; unfold pend in H; repeat (rewrite <- !app_assoc in H; cbn [app] in H).

(* ------------------------------------------------------------------ one table type against its printed text *)
Section Main.
Variables (F : prflags) (PS : pschema) (E : penums) (maxlvl fl : Z).
Hypothesis HF : prflags_ok F.
Hypothesis HPS : pschema_okb PS = true.
Hypothesis HRT : rt_schema_okb PS = true.

(* the parser flag force_add *)
Definition fa_of : bool := negb (Z.land fl JF_force_add =? 0).

(* the parser on the printed text of a table of depth at most k (any table type, any levels, any position) *)
Definition table_spec (k : nat) : Prop := forall t lvl plvl v text,
  print_table F PS E k t lvl v = Some text -> wt_table F PS E k t v = true ->
  plvl + need_table F PS k t v <= maxlvl ->
  forall fuel b c i s ws rest, tail_is b i (text ++ ws ++ rest) -> wsp ws -> stop rest -> cok fl c ->
    Z.of_nat fuel >= 2 * (blen b - i) + 2 ->
    exists c' p s' r d,
      ptable sp_int maxlvl PS b fuel t plvl c i s = POk c' p s' (r, reparse_table F PS fa_of k t v, d) /\
      cok fl c' /\ tail_is b p rest.

Section Step.
Variable k : nat.
Hypothesis IHk : table_spec k.

(* while (more) { <T>_parse_json_table; extend_offset_vector; array_end } on the printed elements *)
Lemma ptabvec_printed t lvl L plvl : forall vs0 txs v1 tx1 fuel b c i s rs vs d wsA rest,
  Forall2 (fun v tx => print_table F PS E k t L v = Some tx /\ wt_table F PS E k t v = true /\
                       plvl + need_table F PS k t v <= maxlvl) (v1 :: vs0) (tx1 :: txs) ->
  tail_is b i (tx1 ++ flat_map (fun y => 44 :: y) txs ++ nl F lvl ++ 93 :: wsA ++ rest) ->
  wsp wsA -> stop rest -> cok fl c -> Z.of_nat fuel >= 2 * (blen b - i) + 3 ->
  exists c' q s' rs' d', ptabvec sp_int maxlvl PS b fuel t plvl c i s rs vs d =
                           POk c' q s' (rs', vs ++ map (reparse_table F PS fa_of k t) (v1 :: vs0), d') /\
                         cok fl c' /\ tail_is b q rest.
Proof.
  induction vs0 as [|v2 r IH]; intros txs v1 tx1 fuel b c i s rs vs d wsA rest H2 Ht HwA Hs Hc Hf;
    (destruct fuel as [|f]; [pose proof (tail_is_range _ _ _ Ht); lia|]); rewrite ptabvec_step;
    inversion H2 as [|? ? ? ? (Hp1 & Hw1 & Hn1) H2']; subst.
  - inversion H2'; subst. cbn [flat_map app] in Ht.
    destruct (IHk t L plvl v1 tx1 Hp1 Hw1 Hn1 f b c i s (nl F lvl) (93 :: wsA ++ rest) Ht (wsp_nl F lvl) ltac:(cbn; lia) Hc ltac:(lia))
      as (c1 & p & s1 & r1 & d1 & E1 & Hc1 & Ht1).
    rewrite E1.
    destruct (delim_end_close fl 93 JE_unbalanced_array b c1 p [] wsA rest Ht1 ltac:(constructor) HwA ltac:(lia) ltac:(lia) Hs Hc1)
      as (c' & q & E2 & Hc' & Ht' & Hq).
    unfold array_end. rewrite E2, lift_Ok by apply Hc'. eexists c', q, _, _, _. split; [reflexivity|auto].
  - inversion H2' as [|? tx2 ? txs' (Hp2 & Hw2 & Hn2) H2'']; subst. cbn [flat_map app] in Ht.
    rewrite <- !app_assoc in Ht.
    (* the next element starts with '{' *)
    assert (Hb2 : exists t2, tx2 = 123 :: t2).
    { destruct k as [|k']; [discriminate|]. cbn [print_table] in Hp2.
      destruct (nth_error PS t); [|discriminate]. destruct v2; try discriminate.
      destruct (opt_all _); [|discriminate]. inversion Hp2. eexists; reflexivity. }
    destruct Hb2 as (t2 & ->).
    destruct (IHk t L plvl v1 tx1 Hp1 Hw1 Hn1 f b c i s [] (44 :: (123 :: t2) ++ flat_map (fun y => 44 :: y) txs' ++ nl F lvl ++ 93 :: wsA ++ rest)
                Ht ltac:(constructor) ltac:(cbn; lia) Hc ltac:(lia))
      as (c1 & p & s1 & r1 & d1 & E1 & Hc1 & Ht1).
    rewrite E1.
    pose proof (tail_is_range _ _ _ Ht1) as R1. pose proof (tail_is_range _ _ _ Ht) as R0.
    destruct (delim_end_more fl 93 JE_unbalanced_array b c1 p [] [] 123 _ Ht1 ltac:(constructor) ltac:(constructor) ltac:(lia) ltac:(lia) Hc1)
      as (c' & q & E2 & Hc' & Ht' & Hq).
    unfold array_end. rewrite E2, lift_Ok by apply Hc'.
    destruct (IH txs' v2 (123 :: t2) f b c' q s1 (rs ++ [r1]) (vs ++ [reparse_table F PS fa_of k t v1]) (Nat.max d d1) wsA rest)
      as (c2 & q2 & s2 & rs2 & d2 & E3 & Hc2 & Ht2); try assumption.
    + cbn [length] in Hq. cbn [length] in R1. rewrite app_length in R0. cbn [length] in R0. lia.
    + exists c2, q2, s2, rs2, d2. rewrite E3, <- app_assoc. auto.
Qed.

(* ------------------------------------------------------------------ one member value *)
Definition item_ok (t : nat) (lvl plvl : Z) (fd : pfield) (x : value) (tx : list Z) : Prop :=
  pfield_okb fd = true /\
  print_value F E (print_table F PS E k) t fd lvl x = Some tx /\
  wt_value F E (wt_table F PS E k) t fd x = true /\
  plvl + need_value (need_table F PS k) fd x <= maxlvl.

Lemma strvec_texts L : forall strs its,
  opt_all (map (fun x => match x with VString s => Some (nl F L ++ print_string s) | _ => None end) (map VString strs)) = Some its ->
  its = map (fun s => nl F L ++ print_string s) strs.
Proof.
  induction strs as [|x t IH]; intros its H; cbn [map opt_all] in H; [inversion H; reflexivity|].
  destruct (opt_all _) eqn:Eo; [|discriminate]. inversion H; subst. cbn [map]. f_equal. apply IH. reflexivity.
Qed.

Lemma pvalue_printed t lvl plvl fd x tx : item_ok t lvl plvl fd x tx ->
  forall f b c i s fr ws rest, tail_is b i (tx ++ ws ++ rest) -> wsp ws -> vstop rest -> cok fl c ->
    Z.of_nat f >= 2 * (blen b - i) + 2 -> fr_inv fr -> ~ In (pf_id fd) (map fst (vals fr)) ->
    exists c' p s' fr' ws',
      pvalue sp_int maxlvl (ptable sp_int maxlvl PS b f) (ptabvec sp_int maxlvl PS b f) fd plvl b c i s fr = POk c' p s' fr' /\
      cok fl c' /\ wsp ws' /\ tail_is b p (ws' ++ rest) /\ fr_inv fr' /\
      vals fr' = vals fr ++ reparse_item (reparse_table F PS fa_of k) fa_of (fd, x).
Proof.
  intros (Hfd & Hp & Hw & Hn) f b c i s fr ws rest Ht Hws Hvs Hc Hf Hfi Hid.
  pose proof (vstop_stop _ Hvs) as Hst.
  unfold pvalue, print_value, wt_value, need_value, reparse_item in *.
  unfold pfield_okb in Hfd. apply andb_true_iff in Hfd. destruct Hfd as [Hfd Hkd].
  destruct (pf_kind fd) as [ty dflt| |ty| |t'|t'] eqn:Ek; cbn [pkind_okb] in Hkd.
  - (* scalar *)
    destruct x as [bs| | | | | | | |]; try discriminate. inversion Hp; subst tx. clear Hp.
    apply andb_true_iff in Hw. destruct Hw as [Hw1 Hw2].
    rewrite (sp_int_printed' F _ fl b c i ty bs _ Hkd Hc Hw1 Hw2 Ht) by (apply vfollow_ws; assumption).
    rewrite lift_Ok by apply Hc. rewrite (has_flag_cok fl c JF_force_add Hc). fold fa_of.
    apply tail_is_app in Ht.
    destruct (list_eqb bs dflt && negb fa_of).
    + exists c, (i + len (scalar_text F (enum_of E t (pf_id fd)) ty bs)), s, fr, ws.
      rewrite app_nil_r. auto 10.
    + rewrite (has_id_vals fr _ Hfi Hid).
      eexists c, _, s, _, ws. split; [reflexivity|]. split; [assumption|]. split; [assumption|]. split; [assumption|].
      split; [|reflexivity]. apply fr_inv_add; [assumption|].
      pose proof (sty_size ty Hkd). pose proof (sty_pow2 ty Hkd). unfold targ_small. cbn [targ_size targ_align]. repeat split; try assumption; lia.
  - (* string *)
    destruct x as [|s0| | | | | | |]; try discriminate. inversion Hp; subst tx. clear Hp.
    apply byte_okb_forall in Hw.
    rewrite (pstring_printed fl maxlvl plvl b c i s s0 _ Hw Hc Ht Hn).
    rewrite add_offset_ok by assumption. apply tail_is_app in Ht.
    eexists c, _, _, _, ws. split; [reflexivity|]. split; [assumption|]. split; [assumption|]. split; [assumption|].
    split; [|reflexivity]. apply fr_inv_add; [assumption|apply offset_small].
  - (* vector of scalars *)
    destruct x as [| |es| | | | | |]; try discriminate. inversion Hp; subst tx. clear Hp.
    apply andb_true_iff in Hw. destruct Hw as [Hw Hcnt].
    replace (maxlvl <? plvl + 1) with false by lia.
    assert (Hes : Forall (fun e => scalar_okb ty e = true /\ nosym_okb F (enum_of E t (pf_id fd)) ty e = true) es).
    { apply Forall_forall. intros e He. rewrite forallb_forall in Hw. specialize (Hw e He). apply andb_true_iff in Hw. exact Hw. }
    destruct es as [|e es'].
    + norm_app Ht.
      destruct (delim_start_empty fl 91 93 JE_expected_array b c i (nl F lvl) ws rest Ht (wsp_nl F lvl) Hws ltac:(lia) Hst Hc)
        as (c1 & p & E1 & Hc1 & Ht1 & _).
      unfold array_start. rewrite E1, lift_Ok by apply Hc1. cbv zeta. rewrite add_offset_ok by assumption.
      eexists c1, p, _, _, []. split; [reflexivity|]. split; [assumption|]. split; [constructor|]. split; [assumption|].
      split; [|reflexivity]. apply fr_inv_add; [assumption|apply offset_small].
    + norm_app Ht.
      inversion Hes as [|? ? [He1 He2] Hes']; subst.
      pose proof (scalar_text_head F _ ty e Hkd He1 He2) as Hh.
      destruct (scalar_text F (enum_of E t (pf_id fd)) ty e) as [|y t0] eqn:Etxt; [contradiction|]. cbn [vhead] in Hh.
      destruct (delim_start_more fl 91 93 JE_expected_array b c i (nl F (lvl + 1)) y _ Ht (wsp_nl F _) ltac:(lia) ltac:(lia) Hc)
        as (c1 & E1 & Hc1 & Ht1).
      unfold array_start. rewrite E1, lift_Ok by apply Hc1. cbv zeta.
      pose proof (tail_is_range _ _ _ Ht1) as R1.
      destruct (pscalvec_printed F fl (enum_of E t (pf_id fd)) ty lvl (lvl + 1) Hkd es' e (scan_fuel b (i + 1 + len (nl F (lvl + 1)))) b c1 (i + 1 + len (nl F (lvl + 1))) s [] ws rest)
        as (c2 & q & E2 & Hc2 & Ht2); try assumption.
      * rewrite Etxt. exact Ht1.
      * unfold scan_fuel. lia.
      * cbn [length] in *. lia.
      * rewrite E2. cbn [app]. rewrite add_offset_ok by assumption.
        eexists c2, q, _, _, []. split; [reflexivity|]. split; [assumption|]. split; [constructor|]. split; [assumption|].
        split; [|reflexivity]. apply fr_inv_add; [assumption|apply offset_small].
  - (* vector of strings *)
    destruct x as [| | | |l| | | |]; try discriminate.
    destruct (strvec_shape l Hw) as (strs & -> & Hstrs).
    destruct (opt_all _) as [its|] eqn:Eits; [|discriminate]. inversion Hp; subst tx. clear Hp.
    apply strvec_texts in Eits. subst its.
    assert (Hlv : Forall (fun x => bytes_ok x /\ plvl + 1 + str_need x <= maxlvl) strs).
    { apply Forall_forall. intros x0 Hx0. split; [rewrite Forall_forall in Hstrs; auto|].
      pose proof (fold_max_ge (fun x => match x with VString s => str_need s | _ => 0 end) (map VString strs) (VString x0) (in_map _ _ _ Hx0)) as G.
      cbn beta iota in G. lia. }
    assert (Hl1 : plvl + 1 <= maxlvl).
    { pose proof (fold_max_nonneg (fun x => match x with VString s => str_need s | _ => 0 end) (map VString strs)). lia. }
    replace (maxlvl <? plvl + 1) with false by lia.
    destruct strs as [|x1 strs'].
    + norm_app Ht.
      destruct (delim_start_empty fl 91 93 JE_expected_array b c i (nl F lvl) ws rest Ht (wsp_nl F lvl) Hws ltac:(lia) Hst Hc)
        as (c1 & p & E1 & Hc1 & Ht1 & _).
      unfold array_start. rewrite E1, lift_Ok by apply Hc1. cbv zeta. rewrite add_offset_ok by assumption.
      eexists c1, p, _, _, []. split; [reflexivity|]. split; [assumption|]. split; [constructor|]. split; [assumption|].
      split; [|reflexivity]. apply fr_inv_add; [assumption|apply offset_small].
    + norm_app Ht.
      change (print_string x1) with (34 :: (print_string_body x1 ++ [34])) in Ht at 1.
      destruct (delim_start_more fl 91 93 JE_expected_array b c i (nl F (lvl + 1)) 34 _ Ht (wsp_nl F _) ltac:(lia) ltac:(lia) Hc)
        as (c1 & E1 & Hc1 & Ht1).
      unfold array_start. rewrite E1, lift_Ok by apply Hc1. cbv zeta.
      pose proof (tail_is_range _ _ _ Ht1) as R1.
      destruct (pstrvec_printed F fl maxlvl (plvl + 1) lvl (lvl + 1) strs' x1 (scan_fuel b (i + 1 + len (nl F (lvl + 1)))) b c1 (i + 1 + len (nl F (lvl + 1))) s [] [] ws rest)
        as (c2 & q & s2 & rs2 & E2 & Hc2 & Ht2); try assumption.
      * unfold scan_fuel. lia.
      * rewrite E2. cbn [app]. rewrite add_offset_ok by assumption.
        eexists c2, q, _, _, []. split; [reflexivity|]. split; [assumption|]. split; [constructor|]. split; [assumption|].
        split; [|reflexivity]. apply fr_inv_add; [assumption|apply offset_small].
  - (* table *)
    destruct x as [| | |fs| | | | |]; try discriminate.
    destruct (IHk t' lvl plvl (VTable fs) tx Hp Hw Hn f b c i s ws rest Ht Hws Hst Hc Hf)
      as (c1 & p & s1 & r1 & d1 & E1 & Hc1 & Ht1).
    rewrite E1. rewrite add_offset_ok by assumption.
    eexists c1, p, _, _, []. split; [reflexivity|]. split; [assumption|]. split; [constructor|]. split; [assumption|].
    split; [|reflexivity]. apply fr_inv_add; [assumption|apply offset_small].
  - (* vector of tables *)
    destruct x as [| | | |l| | | |]; try discriminate.
    destruct (opt_all _) as [its|] eqn:Eits; [|discriminate]. inversion Hp; subst tx. clear Hp.
    apply opt_all_Forall2 in Eits.
    assert (Hl1 : plvl + 1 <= maxlvl).
    { pose proof (fold_max_nonneg (need_table F PS k t') l). lia. }
    replace (maxlvl <? plvl + 1) with false by lia.
    destruct l as [|v1 vs0].
    + inversion Eits; subst. norm_app Ht.
      destruct (delim_start_empty fl 91 93 JE_expected_array b c i (nl F lvl) ws rest Ht (wsp_nl F lvl) Hws ltac:(lia) Hst Hc)
        as (c1 & p & E1 & Hc1 & Ht1 & _).
      unfold array_start. rewrite E1, lift_Ok by apply Hc1. cbv zeta. rewrite add_offset_ok by assumption.
      eexists c1, p, _, _, []. split; [reflexivity|]. split; [assumption|]. split; [constructor|]. split; [assumption|].
      split; [|reflexivity]. apply fr_inv_add; [assumption|apply offset_small].
    + inversion Eits as [|? tx1 ? txs Hp1 Eits']; subst.
      assert (Hb1 : exists t1, tx1 = 123 :: t1).
      { destruct k as [|k']; [discriminate|]. cbn [print_table] in Hp1.
        destruct (nth_error PS t'); [|discriminate]. destruct v1; try discriminate.
        destruct (opt_all _); [|discriminate]. inversion Hp1. eexists; reflexivity. }
      destruct Hb1 as (t1 & ->).
      norm_app Ht.
      destruct (delim_start_more fl 91 93 JE_expected_array b c i [] 123 _ Ht ltac:(constructor) ltac:(lia) ltac:(lia) Hc)
        as (c1 & E1 & Hc1 & Ht1).
      unfold array_start. rewrite E1, lift_Ok by apply Hc1. cbv zeta.
      destruct (ptabvec_printed t' lvl (lvl + 1) (plvl + 1) vs0 txs v1 (123 :: t1) f b c1 (i + 1 + len (@nil Z)) s [] [] O ws rest)
        as (c2 & q & s2 & rs2 & d2 & E2 & Hc2 & Ht2); try assumption.
      * (* every element prints, is well typed and fits *)
        assert (G : forall vs ts, Forall2 (fun a b0 => print_table F PS E k t' (lvl + 1) a = Some b0) vs ts ->
                    (forall v, In v vs -> In v (v1 :: vs0)) ->
                    Forall2 (fun v tx => print_table F PS E k t' (lvl + 1) v = Some tx /\ wt_table F PS E k t' v = true /\
                                         plvl + 1 + need_table F PS k t' v <= maxlvl) vs ts).
        { induction 1 as [|a b0 vs ts Hab Hr IH]; intros Hin; constructor.
          - split; [assumption|]. split.
            + rewrite forallb_forall in Hw. apply Hw. apply Hin. left. reflexivity.
            + pose proof (fold_max_ge (need_table F PS k t') (v1 :: vs0) a (Hin a (or_introl eq_refl))). lia.
          - apply IH. intros v Hv. apply Hin. right. assumption. }
        apply G; [constructor; assumption | auto].
      * cbn [length] in *. lia.
      * rewrite E2. cbn [app]. rewrite add_offset_ok by assumption.
        eexists c2, q, _, _, []. split; [reflexivity|]. split; [assumption|]. split; [constructor|]. split; [assumption|].
        split; [|reflexivity]. apply fr_inv_add; [assumption|apply offset_small].
Qed.


(* ------------------------------------------------------------------ the member loop *)
Lemma print_value_head t lvl plvl fd x tx : item_ok t lvl plvl fd x tx -> hd_ok 0 tx.
Proof.
  intros (Hfd & Hp & Hw & _). unfold print_value, wt_value in *.
  unfold pfield_okb in Hfd. apply andb_true_iff in Hfd. destruct Hfd as [_ Hkd].
  destruct (pf_kind fd) as [ty dflt| |ty| |t'|t'] eqn:Ek; cbn [pkind_okb] in Hkd.
  - destruct x; try discriminate. inversion Hp; subst. apply andb_true_iff in Hw. destruct Hw as [Hw1 Hw2].
    pose proof (scalar_text_head F _ ty bs Hkd Hw1 Hw2) as Hh. destruct (scalar_text _ _ _ _); [contradiction|]. cbn in *. lia.
  - destruct x; try discriminate. inversion Hp; subst. cbn. lia.
  - destruct x; try discriminate. inversion Hp; subst. cbn. lia.
  - destruct x; try discriminate. destruct (opt_all _); [|discriminate]. inversion Hp; subst. cbn. lia.
  - destruct x; try discriminate. destruct k as [|k']; [discriminate|]. cbn [print_table] in Hp.
    destruct (nth_error PS t'); [|discriminate]. destruct (opt_all _); [|discriminate]. inversion Hp; subst. cbn. lia.
  - destruct x; try discriminate. destruct (opt_all _); [|discriminate]. inversion Hp; subst. cbn. lia.
Qed.

Fixpoint tail_text (lvl : Z) (bodies : list (list Z)) : list Z :=
  match bodies with
  | [] => nl F lvl ++ [125]
  | b2 :: r => 44 :: nl F (lvl + 1) ++ b2 ++ tail_text lvl r
  end.

Definition member_ok (t : nat) (flds : list pfield) (lvl plvl : Z) (it : pfield * value) (body : list Z) : Prop :=
  In (fst it) flds /\ name_okb (pf_name (fst it)) = true /\
  exists tx, item_ok t (lvl + 1) plvl (fst it) (snd it) tx /\ body = psymbol F (pf_name (fst it)) ++ 58 :: sp1 F ++ tx.

Lemma name_okb_facts nm : name_okb nm = true -> Forall (fun x => ident_char x = true) nm /\ exists x r, nm = x :: r.
Proof.
  unfold name_okb. intros H. apply andb_true_iff in H. destruct H as [H1 H2]. split.
  - apply Forall_forall. rewrite forallb_forall in H2. exact H2.
  - destruct nm as [|x r]; [cbn in H1; discriminate|]. eauto.
Qed.

Lemma member_hd t flds lvl plvl it body : member_ok t flds lvl plvl it body -> hd_ok 125 body.
Proof.
  intros (_ & Hn & tx & _ & ->). apply name_okb_facts in Hn. destruct Hn as (Hid & x & r & Enm). rewrite Enm in *.
  unfold psymbol. destruct (fl_unquote F); cbn; [|lia]. apply Forall_inv in Hid. apply ident_range in Hid. lia.
Qed.

Lemma ri_one rec fa fd x : reparse_item rec fa (fd, x) = [] \/ exists v, reparse_item rec fa (fd, x) = [(pf_id fd, v)].
Proof.
  unfold reparse_item. destruct (pf_kind fd); destruct x; try (right; eexists; reflexivity).
  destruct (list_eqb bs dflt && negb fa); [left; reflexivity | right; eexists; reflexivity].
Qed.

Lemma has_id_in id ads : In id (map ParserModel.targ_id ads) -> has_id id ads = true.
Proof.
  intros H. unfold has_id. apply existsb_exists. apply in_map_iff in H. destruct H as (a & Ea & Ha). exists a. split; [assumption|lia].
Qed.

(* symbol_start and the name dispatch on a printed member *)
Lemma dispatch_member t flds lvl plvl fd x body b c i rest : names_ok flds ->
  member_ok t flds lvl plvl (fd, x) body -> tail_is b i (body ++ rest) -> cok fl c ->
  exists tx c1 p1 c2 p2,
    item_ok t (lvl + 1) plvl fd x tx /\
    symbol_start b c i = Ok c1 p1 tt /\ cerr c1 = 0 /\
    find_field flds b c1 p1 = Some (fd, Ok c2 p2 tt) /\ cok fl c2 /\ tail_is b p2 (tx ++ rest) /\ i < p2.
Proof.
  intros Hnames (Hin & Hnm & tx & Hitem & ->) Ht Hc. cbn [fst snd] in *.
  pose proof (name_okb_facts _ Hnm) as (Hid & x0 & r0 & Enm).
  pose proof (print_value_head _ _ _ _ _ _ Hitem) as Hhd.
  assert (Hstop : stop (tx ++ rest)). { destruct tx as [|y r]; [contradiction|]. cbn in *. lia. }
  exists tx. unfold psymbol in Ht. destruct (fl_unquote F).
  - (* name: value *)
    cbn [app] in Ht; repeat (rewrite <- !app_assoc in Ht; cbn [app] in Ht).
    assert (Hx0 : ident_char x0 = true). { rewrite Enm in Hid. apply Forall_inv in Hid. exact Hid. }
    pose proof Ht as Ht0. rewrite Enm in Ht0. cbn [app] in Ht0. apply tail_is_cons in Ht0. destruct Ht0 as (Hg & _ & Hi & _).
    apply ident_range in Hx0.
    assert (Es : symbol_start b c i = Ok (set_unq c true) i tt).
    { unfold symbol_start. replace (i =? blen b) with false by lia. rewrite Hg.
      replace (x0 =? 34) with false by lia. replace (x0 =? 46) with false by lia. reflexivity. }
    destruct (match_symbol_unquoted fl b (set_unq c true) i (pf_name fd) (sp1 F) (tx ++ rest) eq_refl Ht (wsp_sp1 F) Hstop (cok_set_unq _ _ _ Hc))
      as (c2 & p2 & Em & Hc2 & Ht2 & Hp2).
    exists (set_unq c true), i, c2, p2. split; [assumption|]. split; [assumption|]. split; [apply Hc|].
    split; [|split; [assumption|split; [assumption|lia]]].
    eapply (find_field_hit b _ i fd 58); try eassumption; [reflexivity|lia].
  - (* "name": value *)
    cbn [app] in Ht; repeat (rewrite <- !app_assoc in Ht; cbn [app] in Ht).
    pose proof Ht as Ht0. apply tail_is_cons in Ht0. destruct Ht0 as (Hg & Ht1 & Hi & _).
    assert (Es : symbol_start b c i = Ok (set_unq c false) (i + 1) tt).
    { unfold symbol_start. replace (i =? blen b) with false by lia. rewrite Hg. reflexivity. }
    destruct (match_symbol_quoted fl b (set_unq c false) (i + 1) (pf_name fd) (sp1 F) (tx ++ rest) eq_refl Ht1 (wsp_sp1 F) Hstop (cok_set_unq _ _ _ Hc))
      as (c2 & p2 & Em & Hc2 & Ht2 & Hp2).
    exists (set_unq c false), (i + 1), c2, p2. split; [assumption|]. split; [assumption|]. split; [apply Hc|].
    split; [|split; [assumption|split; [assumption|lia]]].
    eapply (find_field_hit b _ (i + 1) fd 34); try eassumption; [reflexivity|lia].
Qed.

Lemma tfinish_ok flds c q s fr : fr_inv fr ->
  (forall fd, In fd flds -> pf_req fd = true -> In (pf_id fd) (map fst (vals fr))) ->
  len (vals fr) <= len flds -> 15 * len flds + 4 <= 65535 ->
  tfinish flds c q s fr = POk c q (s ++ [CTable (adds fr)]) (length s, VTable (order_vals flds (vals fr)), S (dmax fr)).
Proof.
  intros [Hi1 Hi2] Hreq Hlen Hsize. unfold tfinish.
  assert (R : required_ok flds (adds fr) = true).
  { unfold required_ok. apply forallb_forall. intros fd Hin. destruct (pf_req fd) eqn:Er; [|reflexivity]. cbn [negb orb].
    apply has_id_in. rewrite Hi1. apply Hreq; assumption. }
  rewrite R. cbn [negb].
  assert (Hl : len (adds fr) = len (vals fr)).
  { assert (H := f_equal (@length Z) Hi1). rewrite !map_length in H. lia. }
  pose proof (place_end_small (adds fr) 0 Hi2 ltac:(lia) ltac:(lia)).
  replace (65535 <? place_end (adds fr) 0 + 4) with false by lia. reflexivity.
Qed.

Lemma pfields_printed t flds lvl plvl : names_ok flds -> NoDup (map pf_id flds) -> 15 * len flds + 4 <= 65535 ->
  forall its bodies it body fuel b c i s fr wsT restT,
  Forall2 (member_ok t flds lvl plvl) (it :: its) (body :: bodies) ->
  NoDup (map (fun it => pf_id (fst it)) (it :: its)) ->
  (forall it', In it' (it :: its) -> ~ In (pf_id (fst it')) (map fst (vals fr))) ->
  fr_inv fr ->
  tail_is b i (body ++ tail_text lvl bodies ++ wsT ++ restT) -> wsp wsT -> stop restT -> cok fl c ->
  Z.of_nat fuel >= 2 * (blen b - i) + 1 ->
  (forall fd, In fd flds -> pf_req fd = true ->
     In (pf_id fd) (map fst (vals fr ++ flat_map (reparse_item (reparse_table F PS fa_of k) fa_of) (it :: its)))) ->
  len (vals fr) + len (it :: its) <= len flds ->
  exists c' p s' r d,
    pfields sp_int maxlvl PS b fuel flds plvl c i s fr =
      POk c' p s' (r, VTable (order_vals flds (vals fr ++ flat_map (reparse_item (reparse_table F PS fa_of k) fa_of) (it :: its))), d) /\
    cok fl c' /\ tail_is b p restT.
Proof.
  intros Hnames Hnd Hsize.
  induction its as [|it2 its' IH]; intros bodies it body fuel b c i s fr wsT restT H2 Hndi Hfresh Hfi Ht HwT Hst Hc Hf Hreq Hlen;
    (destruct fuel as [|f]; [pose proof (tail_is_range _ _ _ Ht); lia|]); rewrite pfields_step;
    inversion H2 as [|? ? ? ? Hm H2']; subst; destruct it as [fd x].
  - inversion H2'; subst. cbn [tail_text] in Ht.
    destruct (dispatch_member t flds lvl plvl fd x body b c i _ Hnames Hm Ht Hc)
      as (tx & c1 & p1 & c2 & p2 & Hitem & Es & Hc1 & Ef & Hc2 & Ht2 & Hp2).
    rewrite Es, lift_Ok by assumption. cbv zeta. rewrite Ef, lift_Ok by apply Hc2.
    cbn [app] in Ht2; repeat (rewrite <- !app_assoc in Ht2; cbn [app] in Ht2).
    destruct (pvalue_printed t (lvl + 1) plvl fd x tx Hitem f b c2 p2 s fr (nl F lvl) (125 :: wsT ++ restT) Ht2 (wsp_nl F lvl)
                ltac:(cbn; tauto) Hc2 ltac:(lia) Hfi (Hfresh _ (or_introl eq_refl)))
      as (c3 & p3 & s3 & fr3 & ws' & Ev & Hc3 & Hws' & Ht3 & Hfi3 & Hvals).
    rewrite Ev.
    destruct (delim_end_close fl 125 JE_unbalanced_object b c3 p3 ws' wsT restT Ht3 Hws' HwT ltac:(lia) ltac:(lia) Hst Hc3)
      as (c4 & p4 & Ee & Hc4 & Ht4 & _).
    unfold object_end. rewrite Ee, lift_Ok by apply Hc4.
    cbn [flat_map] in Hreq |- *. rewrite app_nil_r in Hreq |- *. rewrite <- Hvals in Hreq |- *.
    rewrite tfinish_ok; try assumption.
    + eexists c4, p4, _, _, _. split; [reflexivity|auto].
    + rewrite Hvals, app_length. destruct (ri_one (reparse_table F PS fa_of k) fa_of fd x) as [->|(v & ->)]; cbn [length] in *; lia.
  - inversion H2' as [|? body2 ? bodies' Hm2 H2'']; subst. cbn [tail_text] in Ht.
    destruct (dispatch_member t flds lvl plvl fd x body b c i _ Hnames Hm Ht Hc)
      as (tx & c1 & p1 & c2 & p2 & Hitem & Es & Hc1 & Ef & Hc2 & Ht2 & Hp2).
    rewrite Es, lift_Ok by assumption. cbv zeta. rewrite Ef, lift_Ok by apply Hc2.
    cbn [app] in Ht2; repeat (rewrite <- !app_assoc in Ht2; cbn [app] in Ht2).
    destruct (pvalue_printed t (lvl + 1) plvl fd x tx Hitem f b c2 p2 s fr []
                (44 :: nl F (lvl + 1) ++ body2 ++ tail_text lvl bodies' ++ wsT ++ restT) Ht2 ltac:(constructor)
                ltac:(cbn; tauto) Hc2 ltac:(lia) Hfi (Hfresh _ (or_introl eq_refl)))
      as (c3 & p3 & s3 & fr3 & ws' & Ev & Hc3 & Hws' & Ht3 & Hfi3 & Hvals).
    rewrite Ev.
    assert (Hh2 : hd_ok 125 (body2 ++ tail_text lvl bodies' ++ wsT ++ restT)).
    { pose proof (member_hd _ _ _ _ _ _ Hm2) as Hh. destruct body2; [contradiction|exact Hh]. }
    destruct (delim_end_more' fl 125 JE_unbalanced_object b c3 p3 ws' (nl F (lvl + 1)) _ Ht3 Hws' (wsp_nl F _) Hh2 Hc3)
      as (c4 & p4 & Ee & Hc4 & Ht4 & Hp4).
    unfold object_end. rewrite Ee, lift_Ok by apply Hc4.
    pose proof (tail_is_range _ _ _ Ht3) as R3. pose proof (tail_is_range _ _ _ Ht2) as R2.
    rewrite !app_length in R2, R3. cbn [length] in R2, R3. rewrite !app_length in R2, R3.
    change (NoDup (pf_id fd :: map (fun it => pf_id (fst it)) (it2 :: its'))) in Hndi.
    apply NoDup_cons_iff in Hndi. destruct Hndi as [Hni Hndi'].
    destruct (IH bodies' it2 body2 f b c4 p4 s3 fr3 wsT restT H2' Hndi') as (c5 & p5 & s5 & r5 & d5 & E5 & Hc5 & Ht5); try assumption.
    + (* the ids still to come are not in the frame *)
      intros it' Hin'. rewrite Hvals, map_app, in_app_iff. intros [Hold|Hnew].
      * exact (Hfresh it' (or_intror Hin') Hold).
      * destruct (ri_one (reparse_table F PS fa_of k) fa_of fd x) as [Er|(v & Er)]; rewrite Er in Hnew; cbn in Hnew; [exact Hnew|].
        destruct Hnew as [Eq|[]]. apply Hni. rewrite Eq. apply (in_map (fun it => pf_id (fst it)) _ _ Hin').
    + lia.
    + rewrite Hvals, <- app_assoc. exact Hreq.
    + rewrite Hvals, app_length. destruct (ri_one (reparse_table F PS fa_of k) fa_of fd x) as [->|(v & ->)]; cbn [length] in *; lia.
    + exists c5, p5, s5, r5, d5. rewrite E5, Hvals, <- app_assoc. auto.
Qed.

(* ------------------------------------------------------------------ a whole table *)
Lemma table_facts t flds : nth_error PS t = Some flds ->
  (forall fd, In fd flds -> pfield_okb fd = true) /\ NoDup (map pf_id flds) /\ names_ok flds /\
  15 * len flds + 4 <= 65535 /\ (forall fd, In fd flds -> name_okb (pf_name fd) = true) /\
  (forall fd ty d, In fd flds -> pf_kind fd = PScalar ty d -> scalar_okb ty d = true /\ pf_req fd = false).
Proof.
  intros Et. apply nth_error_In in Et.
  unfold pschema_okb in HPS. rewrite forallb_forall in HPS. specialize (HPS _ Et).
  unfold rt_schema_okb in HRT. rewrite forallb_forall in HRT. specialize (HRT _ Et).
  unfold ptable_okb in HPS. apply andb_true_iff in HPS. destruct HPS as [H1 _]. apply andb_true_iff in H1. destruct H1 as [H1 H2].
  unfold rt_table_okb in HRT. apply andb_true_iff in HRT. destruct HRT as [R1 R4]. apply andb_true_iff in R1. destruct R1 as [R1 R3].
  apply andb_true_iff in R1. destruct R1 as [R1 R2].
  rewrite forallb_forall in H1, R1, R4.
  split; [exact H1|]. split; [apply nodupb_NoDup; exact H2|]. split.
  { split; [|exact R2]. apply Forall_forall. intros fd Hin. apply (name_okb_facts _ (R1 fd Hin)). }
  split; [lia|]. split; [exact R1|].
  intros fd ty d Hin Ek. specialize (R4 fd Hin). rewrite Ek in R4. apply andb_true_iff in R4. destruct R4 as [A B].
  split; [exact A|]. destruct (pf_req fd); [discriminate|reflexivity].
Qed.

Lemma tail_text_eq lvl bodies :
  flat_map (fun y => 44 :: y) (map (app (nl F (lvl + 1))) bodies) ++ nl F lvl ++ [125] = tail_text lvl bodies.
Proof.
  induction bodies as [|b0 r IH]; [reflexivity|]. cbn [map flat_map tail_text]. rewrite <- IH.
  cbn [app]. rewrite <- !app_assoc. reflexivity.
Qed.

Lemma order_vals_nil flds : order_vals flds [] = [].
Proof. unfold order_vals. induction flds as [|fd r IH]; cbn; auto. Qed.

Lemma map_flat_map_fst_in (ri : pfield * value -> list (Z * value)) l it v :
  In it l -> ri it = [(pf_id (fst it), v)] -> In (pf_id (fst it)) (map fst (flat_map ri l)).
Proof.
  intros Hin E0. apply in_map_iff. exists (pf_id (fst it), v). split; [reflexivity|]. apply in_flat_map. exists it. split; [assumption|].
  rewrite E0. left. reflexivity.
Qed.

Lemma ptable_printed : table_spec (S k).
Proof.
  intros t lvl plvl v text Hp Hw Hn fuel b c i s ws rest Ht Hws Hst Hc Hf.
  cbn [print_table wt_table need_table reparse_table] in *.
  destruct (nth_error PS t) as [flds|] eqn:Et; [|discriminate]. destruct v as [| | |fields| | | | |]; try discriminate.
  destruct (table_facts t flds Et) as (Hfok & Hnd & Hnames & Hsize & Hnmok & Hdef).
  set (items := table_items F flds fields) in *.
  destruct (opt_all _) as [its|] eqn:Eits; [|discriminate]. inversion Hp; subst text. clear Hp.
  apply opt_all_Forall2 in Eits.
  pose proof (fold_max_nonneg (fun it : pfield * value => need_value (need_table F PS k) (fst it) (snd it)) items) as Hn0.
  destruct fuel as [|f]; [pose proof (tail_is_range _ _ _ Ht); lia|]. rewrite ptable_step, Et.
  replace (maxlvl <? plvl + 1) with false by lia.
  (* membership in the item list *)
  assert (Hitems : forall it, In it items -> In (fst it) flds /\ field_item F (fst it) fields = Some (snd it)).
  { intros [fd x] Hin. unfold items, table_items in Hin. apply in_flat_map in Hin. destruct Hin as (fd' & Hin1 & Hin2).
    destruct (field_item F fd' fields) eqn:Ef; [|destruct Hin2]. destruct Hin2 as [Eq|[]]. inversion Eq; subst. cbn [fst snd]. auto. }
  rewrite forallb_forall in Hw.
  (* every item is well typed *)
  assert (Hwt : forall it, In it items -> wt_value F E (wt_table F PS E k) t (fst it) (snd it) = true).
  { intros [fd x] Hin. destruct (Hitems _ Hin) as [Hfd Hfi]. cbn [fst snd] in *. specialize (Hw fd Hfd).
    unfold field_item in Hfi. destruct (pf_kind fd) as [ty d| | | | |] eqn:Ek.
    - destruct (assocZ (pf_id fd) fields) as [y|] eqn:Ea.
      + destruct y; try (inversion Hfi; subst; exact Hw).
        destruct (fl_skip_default F && list_eqb bs d); [discriminate|]. inversion Hfi; subst. exact Hw.
      + destruct (fl_force_default F) eqn:Efd; [|discriminate]. inversion Hfi; subst.
        apply andb_true_iff in Hw. destruct Hw as [_ Hw]. cbn [negb orb] in Hw.
        unfold wt_value. rewrite Ek. rewrite Hw. destruct (Hdef fd ty d Hfd Ek) as [-> _]. reflexivity.
    - rewrite Hfi in Hw. exact Hw.
    - rewrite Hfi in Hw. exact Hw.
    - rewrite Hfi in Hw. exact Hw.
    - rewrite Hfi in Hw. exact Hw.
    - rewrite Hfi in Hw. exact Hw. }
  (* bodies of the members *)
  assert (Hbod : forall l r, Forall2 (fun (it : pfield * value) b0 =>
                   match print_value F E (print_table F PS E k) t (fst it) (lvl + 1) (snd it) with
                   | Some tx => Some (pname F (lvl + 1) (pf_name (fst it)) ++ tx) | None => None end = Some b0) l r ->
                 (forall it, In it l -> In it items) ->
                 exists bodies, r = map (app (nl F (lvl + 1))) bodies /\ Forall2 (member_ok t flds lvl (plvl + 1)) l bodies).
  { induction 1 as [|it b0 l r Hb Hr IH]; intros Hsub; [exists []; split; [reflexivity|constructor]|].
    destruct IH as (bodies & -> & Hm); [intros; apply Hsub; right; assumption|].
    destruct (print_value _ _ _ _ _ _ _) as [tx|] eqn:Epv; [|discriminate]. inversion Hb; subst b0.
    exists ((psymbol F (pf_name (fst it)) ++ 58 :: sp1 F ++ tx) :: bodies). split.
    - cbn [map]. unfold pname. rewrite <- !app_assoc. reflexivity.
    - constructor; [|exact Hm]. pose proof (Hsub it (or_introl eq_refl)) as Hin. destruct (Hitems _ Hin) as [Hfd _].
      split; [exact Hfd|]. split; [apply Hnmok; exact Hfd|]. exists tx. split; [|reflexivity].
      split; [apply Hfok; exact Hfd|]. split; [exact Epv|]. split; [apply Hwt; exact Hin|].
      pose proof (fold_max_ge (fun it : pfield * value => need_value (need_table F PS k) (fst it) (snd it)) items it Hin) as G.
      cbn beta in G. lia. }
  destruct (Hbod items its Eits ltac:(auto)) as (bodies & -> & Hmem). clear Hbod.
  destruct items as [|it items'] eqn:Eitems.
  - (* no member: "{" newline "}" *)
    inversion Hmem; subst. norm_app Ht.
    destruct (delim_start_empty fl 123 125 JE_expected_object b c i (nl F lvl) ws rest Ht (wsp_nl F lvl) Hws ltac:(lia) Hst Hc)
      as (c1 & p & E1 & Hc1 & Ht1 & _).
    unfold object_start. rewrite E1, lift_Ok by apply Hc1.
    rewrite tfinish_ok; [| apply fr_inv_0 | | cbn; lia | assumption].
    + cbn [flat_map vals frame0]. eexists c1, p, _, _, _. split; [|auto].
      rewrite order_vals_nil. reflexivity.
    + (* nothing is required *)
      intros fd Hfd Hreq. exfalso. specialize (Hw fd Hfd).
      destruct (assocZ (pf_id fd) fields) as [y|] eqn:Ea; [|rewrite Hreq in Hw; discriminate].
      assert (Hin : In (fd, y) (table_items F flds fields)).
      { unfold table_items. apply in_flat_map. exists fd. split; [assumption|].
        unfold field_item. rewrite Ea. destruct (pf_kind fd) as [ty d| | | | |] eqn:Ek; try (left; reflexivity).
        destruct (Hdef fd ty d Hfd Ek). congruence. }
      fold items in Hin. rewrite Eitems in Hin. destruct Hin.
  - inversion Hmem as [|? body ? bodies' Hm1 Hmem']; subst.
    cbn [map commas] in Ht. unfold pend in Ht. rewrite <- !app_assoc in Ht. rewrite tail_text_eq in Ht.
    cbn [app] in Ht; repeat (rewrite <- !app_assoc in Ht; cbn [app] in Ht).
    assert (Hh : hd_ok 125 (body ++ tail_text lvl bodies' ++ ws ++ rest)).
    { pose proof (member_hd _ _ _ _ _ _ Hm1) as Hh. destruct body; [contradiction|exact Hh]. }
    destruct (delim_start_more' fl 123 125 JE_expected_object b c i (nl F (lvl + 1)) _ Ht (wsp_nl F _) Hh Hc) as (c1 & E1 & Hc1 & Ht1).
    unfold object_start. rewrite E1, lift_Ok by apply Hc1.
    assert (Hndi : NoDup (map (fun it : pfield * value => pf_id (fst it)) (it :: items'))).
    { rewrite <- Eitems. unfold items, table_items. apply NoDup_flat_map_ids; [|exact Hnd].
      intros fd. destruct (field_item F fd fields); [right; eexists; reflexivity | left; reflexivity]. }
    destruct (pfields_printed t flds lvl (plvl + 1) Hnames Hnd Hsize items' bodies' it body f b c1 (i + 1 + len (nl F (lvl + 1))) s frame0 ws rest Hmem Hndi)
      as (c' & p & s' & r & d & E2 & Hc' & Ht'); try assumption.
    + intros it' _. cbn. tauto.
    + apply fr_inv_0.
    + pose proof (tail_is_range _ _ _ Ht). lia.
    + (* required fields are members that are added *)
      intros fd Hfd Hreq. cbn [vals frame0 app]. specialize (Hw fd Hfd).
      destruct (assocZ (pf_id fd) fields) as [y|] eqn:Ea; [|rewrite Hreq in Hw; discriminate].
      assert (Hk : forall ty d, pf_kind fd <> PScalar ty d). { intros ty d Ek. destruct (Hdef fd ty d Hfd Ek). congruence. }
      assert (Hin : In (fd, y) (it :: items')).
      { rewrite <- Eitems. unfold items, table_items. apply in_flat_map. exists fd. split; [assumption|].
        unfold field_item. rewrite Ea. destruct (pf_kind fd) as [ty d| | | | |] eqn:Ek; try (left; reflexivity). exfalso. eapply Hk; reflexivity. }
      assert (Hri : exists v, reparse_item (reparse_table F PS fa_of k) fa_of (fd, y) = [(pf_id fd, v)]).
      { unfold reparse_item. destruct (pf_kind fd) as [ty d| | | | |] eqn:Ek; [exfalso; eapply Hk; reflexivity| | | | |];
          destruct y; eexists; reflexivity. }
      destruct Hri as (v & Hri). exact (map_flat_map_fst_in _ _ (fd, y) v Hin Hri).
    + rewrite <- Eitems. cbn [vals frame0 length]. unfold items, table_items.
      pose proof (flat_map_length_le (fun fd => match field_item F fd fields with Some v => [(fd, v)] | None => [] end) flds) as G.
      assert (forall x, (length (match field_item F x fields with Some v => [(x, v)] | None => [] end) <= 1)%nat)
        by (intros x; destruct (field_item F x fields); cbn; lia).
      specialize (G H). lia.
    + cbn [vals frame0 app] in E2. exists c', p, s', r, d. rewrite E2. split; [|auto].
      rewrite <- Eitems. unfold items, table_items. rewrite flat_map_flat_map.
      rewrite order_vals_flat_map; [reflexivity| |exact Hnd].
      intros fd. destruct (field_item F fd fields); cbn [flat_map]; [rewrite app_nil_r; apply ri_one | left; reflexivity].
Qed.
End Step.

Theorem table_spec_all : forall k, table_spec k.
Proof.
  induction k as [|k IH]; [intros t lvl plvl v text Hp; discriminate|]. apply ptable_printed. exact IH.
Qed.
End Main.

(* ------------------------------------------------------------------ a well-typed tree is printed, as bytes *)
Lemma enum_names_ok_gen : forall E0, enums_okb E0 = true -> forall t id x nm, assocZ x (enum_of E0 t id) = Some nm -> name_okb nm = true.
Proof.
  induction E0 as [|[[t' id'] syms] r IH]; intros HE t id x nm H; cbn [enum_of] in H; [discriminate|].
  unfold enums_okb in HE. cbn [forallb] in HE. apply andb_true_iff in HE. destruct HE as [HE1 HE2].
  destruct (Nat.eqb t t' && (id =? id')); [|eapply IH; eassumption].
  cbn [snd] in HE1. clear IH HE2. induction syms as [|[v n] s IHs]; cbn [assocZ] in H; [discriminate|].
  cbn [forallb snd] in HE1. apply andb_true_iff in HE1. destruct HE1 as [Hn Hs].
  destruct (x =? v); [inversion H; subst; exact Hn | auto].
Qed.

Section Prints.
Variables (F : prflags) (PS : pschema) (E : penums).
Hypothesis HF : prflags_ok F.
Hypothesis HPS : pschema_okb PS = true.
Hypothesis HRT : rt_schema_okb PS = true.
Hypothesis HE : enums_okb E = true.

Lemma items_in flds fields it : In it (table_items F flds fields) ->
  In (fst it) flds /\ field_item F (fst it) fields = Some (snd it).
Proof.
  destruct it as [fd x]. intros Hin. unfold table_items in Hin. apply in_flat_map in Hin. destruct Hin as (fd' & Hin1 & Hin2).
  destruct (field_item F fd' fields) eqn:Ef; [|destruct Hin2]. destruct Hin2 as [Eq|[]]. inversion Eq; subst. cbn [fst snd]. auto.
Qed.

Lemma items_wt k t flds fields : nth_error PS t = Some flds -> wt_table F PS E (S k) t (VTable fields) = true ->
  forall it, In it (table_items F flds fields) -> wt_value F E (wt_table F PS E k) t (fst it) (snd it) = true.
Proof.
  intros Et Hw [fd x] Hin. cbn [wt_table] in Hw. rewrite Et in Hw. rewrite forallb_forall in Hw.
  destruct (table_facts PS HPS HRT t flds Et) as (_ & _ & _ & _ & _ & Hdef).
  destruct (items_in _ _ _ Hin) as [Hfd Hfi]. cbn [fst snd] in *. specialize (Hw fd Hfd).
  unfold field_item in Hfi. destruct (pf_kind fd) as [ty d| | | | |] eqn:Ek.
  - destruct (assocZ (pf_id fd) fields) as [y|] eqn:Ea.
    + destruct y; try (inversion Hfi; subst; exact Hw).
      destruct (fl_skip_default F && list_eqb bs d); [discriminate|]. inversion Hfi; subst. exact Hw.
    + destruct (fl_force_default F) eqn:Efd; [|discriminate]. inversion Hfi; subst.
      apply andb_true_iff in Hw. destruct Hw as [_ Hw]. cbn [negb orb] in Hw.
      unfold wt_value. rewrite Ek. rewrite Hw. destruct (Hdef fd ty d Hfd Ek) as [-> _]. reflexivity.
  - rewrite Hfi in Hw. exact Hw.
  - rewrite Hfi in Hw. exact Hw.
  - rewrite Hfi in Hw. exact Hw.
  - rewrite Hfi in Hw. exact Hw.
  - rewrite Hfi in Hw. exact Hw.
Qed.

Lemma opt_all_some {A B} (g : A -> option B) (P : B -> Prop) l :
  (forall x, In x l -> exists y, g x = Some y /\ P y) -> exists r, opt_all (map g l) = Some r /\ Forall P r.
Proof.
  induction l as [|x t IH]; intros H; [exists []; split; [reflexivity|constructor]|].
  destruct (H x (or_introl eq_refl)) as (y & Ey & Py). destruct IH as (r & Er & Pr); [intros; apply H; right; assumption|].
  exists (y :: r). cbn [map opt_all]. rewrite Ey, Er. split; [reflexivity|constructor; assumption].
Qed.

Lemma bytes_commas its : Forall (Forall in_u8) its -> Forall in_u8 (commas its).
Proof.
  intros H. destruct its as [|x r]; [constructor|]. cbn [commas]. inversion H; subst. apply Forall_app. split; [assumption|].
  clear H H2. induction r as [|y t IH]; [constructor|]. inversion H3; subst. cbn [flat_map]. constructor; [unfold in_u8; lia|].
  apply Forall_app. split; [assumption|auto].
Qed.

Lemma bytes_nl lvl : Forall in_u8 (nl F lvl).
Proof. pose proof (wsp_nl F lvl) as H. eapply Forall_impl; [|exact H]. intros x [->| ->]; unfold in_u8; lia. Qed.
Lemma bytes_sp1 : Forall in_u8 (sp1 F).
Proof. pose proof (wsp_sp1 F) as H. eapply Forall_impl; [|exact H]. intros x [->| ->]; unfold in_u8; lia. Qed.

Lemma bytes_ident nm : name_okb nm = true -> Forall in_u8 nm.
Proof.
  intros H. apply name_okb_facts in H. destruct H as [H _]. eapply Forall_impl; [|exact H].
  intros x Hx. apply ident_range in Hx. unfold in_u8. lia.
Qed.

Lemma bytes_psymbol nm : name_okb nm = true -> Forall in_u8 (psymbol F nm).
Proof.
  intros H. apply bytes_ident in H. unfold psymbol. destruct (fl_unquote F); [assumption|].
  constructor; [unfold in_u8; lia|]. apply Forall_app. split; [assumption|]. constructor; [unfold in_u8; lia|constructor].
Qed.

Lemma bytes_sdecimal x : Forall in_u8 (NumModel.sdecimal x).
Proof.
  unfold NumModel.sdecimal. destruct (x <? 0) eqn:Ex.
  - constructor; [unfold in_u8; lia|]. eapply Forall_impl; [|apply NumProofs.decimal_digits; lia].
    intros d Hd. unfold NumProofs.digitc in Hd. unfold in_u8. lia.
  - eapply Forall_impl; [|apply NumProofs.decimal_digits; lia]. intros d Hd. unfold NumProofs.digitc in Hd. unfold in_u8. lia.
Qed.

Lemma enum_names_ok t id x nm : assocZ x (enum_of E t id) = Some nm -> name_okb nm = true.
Proof. apply enum_names_ok_gen. exact HE. Qed.

Lemma bytes_scalar_text t id ty bs : sty_ok ty -> scalar_okb ty bs = true -> Forall in_u8 (scalar_text F (enum_of E t id) ty bs).
Proof.
  intros Hok Hs. unfold scalar_okb in Hs. apply andb_true_iff in Hs. destruct Hs as [Hs _].
  apply andb_true_iff in Hs. destruct Hs as [Hl Hb]. apply byte_okb_forall in Hb.
  unfold scalar_text. destruct (st_bool ty).
  { destruct (le_val bs =? 0); repeat constructor; unfold in_u8; lia. }
  assert (En : num_text ty (sval_of ty bs) = NumModel.sdecimal (sval_of ty bs)) by (apply num_text_sdecimal; [assumption|lia|assumption]).
  destruct (fl_noenum F); [rewrite En; apply bytes_sdecimal|].
  destruct (assocZ _ _) eqn:Ea; [|rewrite En; apply bytes_sdecimal].
  apply bytes_psymbol. eapply enum_names_ok. exact Ea.
Qed.

Lemma wt_prints : forall k t lvl v, wt_table F PS E k t v = true ->
  exists tx, print_table F PS E k t lvl v = Some tx /\ Forall in_u8 tx.
Proof.
  induction k as [|k IH]; intros t lvl v Hw; [discriminate|].
  pose proof Hw as Hw0. cbn [wt_table print_table] in *.
  destruct (nth_error PS t) as [flds|] eqn:Et; [|discriminate]. destruct v as [| | |fields| | | | |]; try discriminate.
  destruct (table_facts PS HPS HRT t flds Et) as (Hfok & _ & _ & _ & Hnmok & _).
  assert (Hw1 : wt_table F PS E (S k) t (VTable fields) = true) by (cbn [wt_table]; rewrite Et; exact Hw0).
  destruct (opt_all_some (fun it : pfield * value =>
              match print_value F E (print_table F PS E k) t (fst it) (lvl + 1) (snd it) with
              | Some tx => Some (pname F (lvl + 1) (pf_name (fst it)) ++ tx) | None => None end) (Forall in_u8)
              (table_items F flds fields)) as (its & -> & Hb).
  { intros [fd x] Hin. pose proof (items_wt k t flds fields Et Hw1 _ Hin) as Hwv. destruct (items_in _ _ _ Hin) as [Hfd _].
    cbn [fst snd] in *. specialize (Hfok fd Hfd). specialize (Hnmok fd Hfd).
    assert (Hv : exists tx, print_value F E (print_table F PS E k) t fd (lvl + 1) x = Some tx /\ Forall in_u8 tx).
    { unfold print_value, wt_value in *. unfold pfield_okb in Hfok. apply andb_true_iff in Hfok. destruct Hfok as [_ Hkd].
      destruct (pf_kind fd) as [ty d| |ty| |t'|t'] eqn:Ek; cbn [pkind_okb] in Hkd.
      - destruct x; try discriminate. apply andb_true_iff in Hwv. destruct Hwv as [Hs _]. eexists. split; [reflexivity|].
        apply bytes_scalar_text; assumption.
      - destruct x; try discriminate. eexists. split; [reflexivity|]. apply byte_okb_forall in Hwv.
        apply quoted_bytes. apply body_bytes. exact Hwv.
      - destruct x; try discriminate. apply andb_true_iff in Hwv. destruct Hwv as [Hes _]. eexists. split; [reflexivity|].
        constructor; [unfold in_u8; lia|]. apply Forall_app. split.
        + apply bytes_commas. apply Forall_forall. intros y Hy. apply in_map_iff in Hy. destruct Hy as (e & <- & He).
          apply Forall_app. split; [apply bytes_nl|]. rewrite forallb_forall in Hes. specialize (Hes e He).
          apply andb_true_iff in Hes. apply bytes_scalar_text; tauto.
        + unfold pend. apply Forall_app. split; [apply bytes_nl|repeat constructor; unfold in_u8; lia].
      - destruct x; try discriminate. destruct (strvec_shape _ Hwv) as (strs & -> & Hstrs).
        destruct (opt_all_some (fun x => match x with VString s => Some (nl F (lvl + 1 + 1) ++ print_string s) | _ => None end) (Forall in_u8)
                    (map VString strs)) as (its & -> & Hb).
        { intros y Hy. apply in_map_iff in Hy. destruct Hy as (s0 & <- & Hs0). eexists. split; [reflexivity|].
          apply Forall_app. split; [apply bytes_nl|]. apply quoted_bytes. apply body_bytes. rewrite Forall_forall in Hstrs. exact (Hstrs _ Hs0). }
        eexists. split; [reflexivity|]. constructor; [unfold in_u8; lia|]. apply Forall_app. split; [apply bytes_commas; exact Hb|].
        unfold pend. apply Forall_app. split; [apply bytes_nl|repeat constructor; unfold in_u8; lia].
      - destruct x; try discriminate. apply IH. exact Hwv.
      - destruct x; try discriminate.
        destruct (opt_all_some (print_table F PS E k t' (lvl + 1 + 1)) (Forall in_u8) elems) as (its & -> & Hb).
        { intros y Hy. apply IH. rewrite forallb_forall in Hwv. auto. }
        eexists. split; [reflexivity|]. constructor; [unfold in_u8; lia|]. apply Forall_app. split; [apply bytes_commas; exact Hb|].
        unfold pend. apply Forall_app. split; [apply bytes_nl|repeat constructor; unfold in_u8; lia]. }
    destruct Hv as (tx & -> & Hb). eexists. split; [reflexivity|]. unfold pname.
    apply Forall_app. split; [|exact Hb]. apply Forall_app. split; [apply bytes_nl|]. apply Forall_app. split; [apply bytes_psymbol; exact Hnmok|].
    constructor; [unfold in_u8; lia|apply bytes_sp1]. }
  eexists. split; [reflexivity|]. constructor; [unfold in_u8; lia|]. apply Forall_app. split; [apply bytes_commas; exact Hb|].
  unfold pend. apply Forall_app. split; [apply bytes_nl|repeat constructor; unfold in_u8; lia].
Qed.
End Prints.

(* ------------------------------------------------------------------ the document: print_root then parse_root *)
Definition fa_flag (flags : Z) : bool := negb (Z.land flags JF_force_add =? 0).

Theorem document_round_trip F PS E maxlvl pmax root v flags idw :
  pschema_okb PS = true -> rt_schema_okb PS = true -> enums_okb E = true -> 1 <= maxlvl ->
  wt_table F PS E (Z.to_nat (pmax - 1)) root v = true ->
  1 + need_table F PS (Z.to_nat (pmax - 1)) root v <= maxlvl ->
  exists text c sc d,
    print_root F PS E pmax root v = Some text /\
    parse_root sp_int maxlvl PS (of_list text) root flags idw =
      POk c (len text) sc (reparse_table F PS (fa_flag flags) (Z.to_nat (pmax - 1)) root v, d) /\
    cerr c = 0.
Proof.
  intros HPS HRT HE Hm Hw Hn. set (k := Z.to_nat (pmax - 1)) in *.
  destruct (wt_prints F PS E HPS HRT HE k root 0 v Hw) as (tx & Hp & Hb).
  set (last := if 0 <? fl_indent F then [10] else []).
  assert (Hwl : wsp last) by (unfold last; destruct (0 <? fl_indent F); repeat constructor; left; reflexivity).
  assert (Hbl : Forall in_u8 (tx ++ last)).
  { apply Forall_app. split; [assumption|]. unfold last. destruct (0 <? fl_indent F); repeat constructor; unfold in_u8; lia. }
  exists (tx ++ last). unfold print_root. fold k. rewrite Hp. fold last.
  pose proof (tail_is_of_list (tx ++ last) Hbl) as Ht.
  set (b := of_list (tx ++ last)) in *.
  replace (tx ++ last) with (tx ++ last ++ []) in Ht by (rewrite app_nil_r; reflexivity).
  destruct (table_spec_all F PS E maxlvl flags HPS HRT k root 0 1 v tx Hp Hw ltac:(lia) (parser_fuel b) b (ctx_init flags) 0 []
              last [] Ht Hwl I (cok_init flags)) as (c' & p & s' & r & d & E1 & Hc' & Ht').
  { unfold parser_fuel. lia. }
  unfold parse_root, parse_root_fuel. replace (maxlvl <? 1) with false by lia. rewrite E1.
  cbn [tail_is] in Ht'. destruct Ht' as [_ Hp'].
  eexists c', _, d. split; [reflexivity|]. split; [|apply Hc'].
  unfold fa_of, fa_flag. f_equal. subst p. unfold b. cbn [blen of_list]. reflexivity.
Qed.

(* ------------------------------------------------------------------ examples and witnesses *)
(* the fragment tables of gen/c04_schema.fbs: 0 = Leaf { n:long; s:string; c:Color = Green }, 1 = Rec { r:Rec; n:int; k:[Rec] },
   2 = Req { a:string (required); b:[int] (required); c:Leaf (required); d:int } *)
Definition ex_i64 : sty := {| st_size := 8; st_signed := true; st_bool := false |}.
Definition ex_i8 : sty := {| st_size := 1; st_signed := true; st_bool := false |}.
Definition rt_ps : pschema :=
  [ [ {| pf_name := [110]; pf_id := 0; pf_req := false; pf_kind := PScalar ex_i64 [0;0;0;0;0;0;0;0] |};
      {| pf_name := [115]; pf_id := 1; pf_req := false; pf_kind := PString |};
      {| pf_name := [99]; pf_id := 2; pf_req := false; pf_kind := PScalar ex_i8 [2] |} ];
    [ {| pf_name := [114]; pf_id := 0; pf_req := false; pf_kind := PTable 1 |};
      {| pf_name := [110]; pf_id := 1; pf_req := false; pf_kind := PScalar ex_i32 [0;0;0;0] |};
      {| pf_name := [107]; pf_id := 2; pf_req := false; pf_kind := PVecTable 1 |} ];
    [ {| pf_name := [97]; pf_id := 0; pf_req := true; pf_kind := PString |};
      {| pf_name := [98]; pf_id := 1; pf_req := true; pf_kind := PVecScalar ex_i32 |};
      {| pf_name := [99]; pf_id := 2; pf_req := true; pf_kind := PTable 0 |};
      {| pf_name := [100]; pf_id := 3; pf_req := false; pf_kind := PScalar ex_i32 [0;0;0;0] |} ] ].
(* enum Color : byte { Red = 1, Green, Blue = 7 } on Leaf.c *)
Definition rt_enums : penums := [ (0%nat, 2, [(1, [82;101;100]); (2, [71;114;101;101;110]); (7, [66;108;117;101])]) ].

Lemma rt_ps_ok : pschema_okb rt_ps = true /\ rt_schema_okb rt_ps = true /\ enums_okb rt_enums = true.
Proof. split; [|split]; vm_compute; reflexivity. Qed.

(* Req { a: the bytes q, quote, newline, 0xe9; b: [-2147483648, 7]; c: Leaf { n: -9223372036854775808, s: empty, c: 9 }; d: 0 (present, = default) } *)
Definition rt_tree : value :=
  VTable [ (0, VString [113; 34; 10; 233]);
           (1, VVec [[0;0;0;128]; [7;0;0;0]]);
           (2, VTable [ (0, VBytes [0;0;0;0;0;0;0;128]); (1, VString []); (2, VBytes [9]) ]);
           (3, VBytes [0;0;0;0]) ].
Definition rt_flags_pretty : prflags :=
  {| fl_unquote := true; fl_noenum := false; fl_skip_default := false; fl_force_default := true; fl_indent := 2 |}.

Lemma rt_tree_hyps : wt_table rt_flags_pretty rt_ps rt_enums (Z.to_nat (100 - 1)) 2 rt_tree = true /\
                     1 + need_table rt_flags_pretty rt_ps (Z.to_nat (100 - 1)) 2 rt_tree <= 100.
Proof. split; [vm_compute; reflexivity | apply Z.leb_le; vm_compute; reflexivity]. Qed.

(* the round trip on it, by the theorem *)
Lemma example_round_trip : exists text c sc d,
  print_root rt_flags_pretty rt_ps rt_enums 100 2 rt_tree = Some text /\
  parse_root sp_int 100 rt_ps (of_list text) 2 0 0 =
    POk c (len text) sc (reparse_table rt_flags_pretty rt_ps (fa_flag 0) (Z.to_nat (100 - 1)) 2 rt_tree, d) /\ cerr c = 0.
Proof.
  destruct rt_ps_ok as (H1 & H2 & H3). destruct rt_tree_hyps as (H4 & H5).
  apply document_round_trip; [exact H1 | exact H2 | exact H3 | lia | exact H4 | exact H5].
Qed.

(* what the printed text looks like (unquoted names, indent 2, force_default prints Leaf.c's absent ... here all present) *)
Lemma example_text :
  print_root rt_flags_pretty rt_ps rt_enums 100 2 rt_tree =
  Some [123;10;32;32;97;58;32;34;113;92;34;92;110;233;34;44;10;32;32;98;58;32;91;10;32;32;32;32;45;50;49;52;55;52;56;51;54;52;56;44;10;
        32;32;32;32;55;10;32;32;93;44;10;32;32;99;58;32;123;10;32;32;32;32;110;58;32;45;57;50;50;51;51;55;50;48;51;54;56;53;52;55;55;53;56;48;56;44;10;
        32;32;32;32;115;58;32;34;34;44;10;32;32;32;32;99;58;32;57;10;32;32;125;44;10;32;32;100;58;32;48;10;125;10].
Proof. vm_compute. reflexivity. Qed.

(* ---- the level limit.  A chain of n Rec tables through the field r, the innermost holding what [bottom] gives *)
Fixpoint rec_chain (n : nat) (bottom : list (Z * value)) : value :=
  match n with O => VTable bottom | S m => VTable [(0, rec_chain m bottom)] end.
Definition strictF : prflags := prflags0.

(* 99 nested tables, the innermost with an EMPTY vector k: the printer prints it (its limit is 99 tables), the verifier's
   budget of 100 levels suffices (99 tables + 1 vector), but the parser needs level 101 for the vector frame and
   answers `runtime` - the printed text of a verifiable buffer is rejected.
   (closed boolean statements evaluated by vm_compute; the existential forms are derived without further computation) *)
Definition deep_vec_tree : value := rec_chain 98 [(2, VOffVec [])].
Definition opt_test {A} (o : option A) (f : A -> bool) : bool := match o with Some x => f x | None => false end.
Definition is_runtime_err {A} (r : pres A) : bool := match r with PErr e _ => e =? JE_runtime | _ => false end.
Lemma opt_test_true {A} (o : option A) f : opt_test o f = true -> exists x, o = Some x /\ f x = true.
Proof. destruct o; [eauto | discriminate]. Qed.
Lemma is_runtime_err_true {A} (r : pres A) : is_runtime_err r = true -> exists loc, r = PErr JE_runtime loc.
Proof. destruct r as [| e l |]; try discriminate. cbn. intros H. exists l. f_equal. lia. Qed.

Lemma level_limit_compute :
  wt_table strictF rt_ps rt_enums 99 1 deep_vec_tree &&
  (1 + need_table strictF rt_ps 99 1 deep_vec_tree =? 101) &&
  opt_test (print_root strictF rt_ps rt_enums 100 1 deep_vec_tree)
           (fun text => is_runtime_err (parse_root sp_int 100 rt_ps (of_list text) 1 0 0)) = true.
Proof. vm_compute. reflexivity. Qed.

Lemma level_limit_witness : exists text loc,
  wt_table strictF rt_ps rt_enums 99 1 deep_vec_tree = true /\
  print_root strictF rt_ps rt_enums 100 1 deep_vec_tree = Some text /\
  1 + need_table strictF rt_ps 99 1 deep_vec_tree = 101 /\
  parse_root sp_int 100 rt_ps (of_list text) 1 0 0 = PErr JE_runtime loc.
Proof.
  pose proof level_limit_compute as H. apply andb_true_iff in H. destruct H as [H H3]. apply andb_true_iff in H. destruct H as [H1 H2].
  apply opt_test_true in H3. destruct H3 as (text & Hp & H3). apply is_runtime_err_true in H3. destruct H3 as (loc & H3).
  exists text, loc. split; [exact H1|]. split; [exact Hp|]. split; [apply Z.eqb_eq; exact H2 | exact H3].
Qed.

(* one table less and everything is fine: the hypothesis of the round-trip theorem is sharp *)
Lemma level_limit_sharp :
  wt_table strictF rt_ps rt_enums 99 1 (rec_chain 97 [(2, VOffVec [])]) = true /\
  1 + need_table strictF rt_ps 99 1 (rec_chain 97 [(2, VOffVec [])]) = 100.
Proof. split; vm_compute; reflexivity. Qed.

(* the printer's own limit: 100 nested tables are not printed (deep_recursion), 99 are *)
Lemma printer_limit_witness :
  print_root strictF rt_ps rt_enums 100 1 (rec_chain 99 []) = None /\
  print_root strictF rt_ps rt_enums 100 1 (rec_chain 98 []) <> None.
Proof.
  split; [vm_compute; reflexivity|].
  assert (H : opt_test (print_root strictF rt_ps rt_enums 100 1 (rec_chain 98 [])) (fun _ => true) = true) by (vm_compute; reflexivity).
  apply opt_test_true in H. destruct H as (x & -> & _). discriminate.
Qed.

(* ---- reprinting.  Leaf { n: 0 } with the scalar PRESENT: default settings print the member n with value 0; a parser
   without force_add does not store the default; printing what it built gives the empty object *)
Definition present_default_tree : value := VTable [(0, VBytes [0;0;0;0;0;0;0;0])].
Lemma reprint_needs_force_add_witness :
  wt_table strictF rt_ps rt_enums 99 0 present_default_tree = true /\
  print_root strictF rt_ps rt_enums 100 0 present_default_tree = Some [123;34;110;34;58;48;125] /\
  print_root strictF rt_ps rt_enums 100 0 (reparse_table strictF rt_ps false 99 0 present_default_tree) = Some [123;125].
Proof. split; [|split]; vm_compute; reflexivity. Qed.

(* ---- enum symbols: Leaf { c: 7 } prints the symbol Blue; the parser MODEL does not cover symbolic constants (W_OUT) *)
Definition blue_text : list Z := [123;34;99;34;58;34;66;108;117;101;34;125].
Lemma enum_symbol_outside_model :
  print_root strictF rt_ps rt_enums 100 0 (VTable [(2, VBytes [7])]) = Some blue_text /\
  wt_table strictF rt_ps rt_enums 99 0 (VTable [(2, VBytes [7])]) = false /\
  parse_root sp_int 100 rt_ps (of_list blue_text) 0 0 0 = PStop W_OUT.
Proof. split; [|split]; vm_compute; reflexivity. Qed.

(* ---- bool: a byte other than 0 / 1 prints as `true` and reads back as 1 (not a well-typed tree here) *)
Definition bool_ps : pschema := [ [ {| pf_name := [98]; pf_id := 0; pf_req := false; pf_kind := PScalar ex_bool [0] |} ] ].
Lemma bool_byte_not_preserved :
  print_root strictF bool_ps [] 100 0 (VTable [(0, VBytes [2])]) = Some [123;34;98;34;58;116;114;117;101;125] /\
  match parse_root sp_int 100 bool_ps (of_list [123;34;98;34;58;116;114;117;101;125]) 0 0 0 with
  | POk _ p _ (v, _) => (p =? 10) && match v with VTable [(0, VBytes [1])] => true | _ => false end
  | _ => false
  end = true.
Proof. split; vm_compute; reflexivity. Qed.

(* ------------------------------------------------------------------ the reparsed tree: same content, same text *)
Section Reparsed.
Variables (F : prflags) (PS : pschema) (E : penums) (fa : bool).
Hypothesis HPS : pschema_okb PS = true.

Lemma table_nodup t flds : nth_error PS t = Some flds -> NoDup (map pf_id flds).
Proof.
  intros Et. apply nth_error_In in Et. unfold pschema_okb in HPS. rewrite forallb_forall in HPS. specialize (HPS _ Et).
  unfold ptable_okb in HPS. apply andb_true_iff in HPS. destruct HPS as [H1 _]. apply andb_true_iff in H1. destruct H1 as [_ H2].
  apply nodupb_NoDup. exact H2.
Qed.

Lemma assoc_reparsed (G0 : prflags) rec flds fields fd : NoDup (map pf_id flds) -> In fd flds ->
  assocZ (pf_id fd) (flat_map (reparse_item rec fa) (table_items G0 flds fields)) =
  match field_item G0 fd fields with
  | Some x => match reparse_item rec fa (fd, x) with (_, v) :: _ => Some v | [] => None end
  | None => None
  end.
Proof.
  intros Hnd Hin. unfold table_items. rewrite flat_map_flat_map.
  rewrite (assoc_flat_map (fun fd => flat_map (reparse_item rec fa) (match field_item G0 fd fields with Some v => [(fd, v)] | None => [] end))).
  - destruct (field_item G0 fd fields); cbn [flat_map]; [rewrite app_nil_r|]; reflexivity.
  - intros fd'. destruct (field_item G0 fd' fields); cbn [flat_map]; [rewrite app_nil_r; apply ri_one | left; reflexivity].
  - exact Hnd.
  - exact Hin.
Qed.

Lemma reparse_is_table G0 fa0 k t fs : exists fs', reparse_table G0 PS fa0 k t (VTable fs) = VTable fs'.
Proof. destruct k; cbn [reparse_table]; [eauto|]. destruct (nth_error PS t); eauto. Qed.

Lemma items_pointwise {B} (G1 G2 : prflags) (h1 h2 : pfield * value -> list B) flds f1 f2 :
  (forall fd, In fd flds -> flat_map h1 (match field_item G1 fd f1 with Some v => [(fd, v)] | None => [] end) =
                           flat_map h2 (match field_item G2 fd f2 with Some v => [(fd, v)] | None => [] end)) ->
  flat_map h1 (table_items G1 flds f1) = flat_map h2 (table_items G2 flds f2).
Proof. intros H. unfold table_items. rewrite !flat_map_flat_map. apply flat_map_ext_in'. exact H. Qed.

(* the content (all scalars equal to their default dropped) is unchanged by print + parse *)
Theorem canon_reparse : forall k t v, canon PS k t (reparse_table F PS fa k t v) = canon PS k t v.
Proof.
  unfold canon. induction k as [|k IH]; intros t v; [reflexivity|]. cbn [reparse_table].
  destruct (nth_error PS t) as [flds|] eqn:Et; [|reflexivity].
  destruct v as [| | |fields| | | | |]; try reflexivity.
  f_equal. pose proof (table_nodup t flds Et) as Hnd.
  apply items_pointwise. intros fd Hin.
  unfold field_item at 1. rewrite (assoc_reparsed F _ flds fields fd Hnd Hin).
  unfold field_item, reparse_item. cbn [fl_skip_default fl_force_default canonF andb].
  destruct (pf_kind fd) as [ty d| |ty| |t'|t'] eqn:Ek.
  all: destruct (assocZ (pf_id fd) fields) as [y|] eqn:Ea.
  all: try destruct y.
  all: cbn [flat_map app].
  all: try reflexivity.
  - (* scalar, present *)
    destruct (list_eqb bs d) eqn:E2; destruct (fl_skip_default F); destruct fa;
      repeat (cbn [flat_map app andb negb orb]; rewrite ?Ek, ?E2); reflexivity.
  - (* scalar, absent *)
    destruct (fl_force_default F); destruct fa;
      repeat (cbn [flat_map app andb negb orb]; rewrite ?Ek, ?list_eqb_refl); reflexivity.
  - (* table *)
    rewrite !Ek. destruct (reparse_is_table F fa k t' fields0) as (fs' & Efs). rewrite Efs. rewrite <- Efs, IH. reflexivity.
  - (* vector of tables *)
    rewrite !Ek. rewrite map_map. do 4 f_equal. apply map_ext. intros a. apply IH.
Qed.
Lemma flat_map_single {A B} (g : A -> B) l : flat_map (fun x => [g x]) l = map g l.
Proof. induction l as [|x t IH]; [reflexivity|]. cbn [flat_map map app]. rewrite IH. reflexivity. Qed.

(* printing the reparsed tree gives the identical text, when skip_default and force_default are not set together and the
   parser keeps explicit defaults (force_add) or the printer has one of the default flags *)
Theorem reprint_identical :
  negb (fl_skip_default F && fl_force_default F) && (fa || fl_skip_default F || fl_force_default F) = true ->
  forall k t lvl v, print_table F PS E k t lvl (reparse_table F PS fa k t v) = print_table F PS E k t lvl v.
Proof.
  intros Hcond. induction k as [|k IH]; intros t lvl v; [reflexivity|]. cbn [reparse_table].
  destruct (nth_error PS t) as [flds|] eqn:Et; [|reflexivity].
  destruct v as [| | |fields| | | | |]; try reflexivity.
  cbn [print_table]. rewrite Et. pose proof (table_nodup t flds Et) as Hnd.
  match goal with |- match opt_all (map ?g ?a) with _ => _ end = match opt_all (map ?g ?b) with _ => _ end =>
    assert (Hm : map g a = map g b); [|rewrite Hm; reflexivity] end.
  rewrite <- !flat_map_single. apply items_pointwise. intros fd Hin.
  unfold field_item at 1. rewrite (assoc_reparsed F _ flds fields fd Hnd Hin).
  unfold field_item, reparse_item.
  destruct (pf_kind fd) as [ty d| |ty| |t'|t'] eqn:Ek.
  all: destruct (assocZ (pf_id fd) fields) as [y|] eqn:Ea.
  all: try destruct y.
  all: cbn [flat_map app].
  all: try reflexivity.
  - (* scalar, present *)
    destruct (list_eqb bs d) eqn:E2; [apply list_eqb_eq in E2; subst bs|];
      destruct (fl_skip_default F); destruct (fl_force_default F); destruct fa; try discriminate Hcond;
      repeat (cbn [flat_map app andb negb orb fst snd]; rewrite ?Ek, ?E2, ?list_eqb_refl); reflexivity.
  - (* scalar, absent *)
    destruct (fl_skip_default F); destruct (fl_force_default F); destruct fa; try discriminate Hcond;
      repeat (cbn [flat_map app andb negb orb fst snd]; rewrite ?Ek, ?list_eqb_refl); reflexivity.
  - (* table *)
    cbn [fst snd]. unfold print_value. rewrite Ek.
    destruct (reparse_is_table F fa k t' fields0) as (fs' & Efs). rewrite Efs. rewrite <- Efs, IH. reflexivity.
  - (* vector of tables *)
    cbn [fst snd]. unfold print_value. rewrite Ek. rewrite map_map.
    replace (map (fun x => print_table F PS E k t' (lvl + 1 + 1) (reparse_table F PS fa k t' x)) elems)
      with (map (print_table F PS E k t' (lvl + 1 + 1)) elems) by (apply map_ext; intros a; rewrite IH; reflexivity).
    reflexivity.
Qed.
End Reparsed.

Theorem reprint_root F PS E fa pmax root v : pschema_okb PS = true ->
  negb (fl_skip_default F && fl_force_default F) && (fa || fl_skip_default F || fl_force_default F) = true ->
  print_root F PS E pmax root (reparse_table F PS fa (Z.to_nat (pmax - 1)) root v) = print_root F PS E pmax root v.
Proof. intros HPS Hc. unfold print_root. rewrite (reprint_identical F PS E fa HPS Hc). reflexivity. Qed.

(* ------------------------------------------------------------------ strict output is RFC 8259 JSON *)
Definition nows (rest : list Z) : Prop := match rest with x :: _ => json_ws x = false | [] => True end.

Lemma skip_ws_app ws rest : wsp ws -> nows rest -> skip_ws (ws ++ rest) = rest.
Proof.
  intros Hw Hr. induction Hw as [|x t Hx Ht IH]; cbn [app].
  - destruct rest as [|y r]; [reflexivity|]. cbn in Hr. cbn [skip_ws]. rewrite Hr. reflexivity.
  - cbn [skip_ws]. replace (json_ws x) with true by (unfold json_ws; lia). exact IH.
Qed.

(* text that contains no quotation mark except as the second character of an escape *)
Inductive qsafe : list Z -> Prop :=
| qs_nil : qsafe []
| qs_raw x r : x <> 34 -> x <> 92 -> qsafe r -> qsafe (x :: r)
| qs_esc e r : qsafe r -> qsafe (92 :: e :: r).

Lemma qsafe_app a b : qsafe a -> qsafe b -> qsafe (a ++ b).
Proof. induction 1; intros Hb; cbn [app]; [assumption | apply qs_raw; auto | apply qs_esc; auto]. Qed.

Lemma split_qsafe body : qsafe body -> forall fuel acc rest, (length body < fuel)%nat ->
  split_string fuel (body ++ 34 :: rest) acc = Some (rev acc ++ body, rest).
Proof.
  induction 1 as [|x r H1 H2 Hr IH|e r Hr IH]; intros fuel acc rest Hf; (destruct fuel as [|f]; [cbn in Hf; lia|]); cbn [app split_string].
  - rewrite app_nil_r. reflexivity.
  - replace (x =? 34) with false by lia. replace (x =? 92) with false by lia.
    rewrite IH by (cbn [length] in Hf; lia). cbn [rev]. rewrite <- app_assoc. reflexivity.
  - cbn [Z.eqb Pos.eqb]. rewrite IH by (cbn [length] in Hf; lia). cbn [rev]. rewrite <- !app_assoc. reflexivity.
Qed.

Lemma json_string_ok body rest : qsafe body -> rfc8259_string (34 :: body ++ [34]) = true ->
  json_string (34 :: body ++ 34 :: rest) = Some rest.
Proof.
  intros Hq Hr. unfold json_string. cbn [Z.eqb Pos.eqb].
  rewrite (split_qsafe body Hq) by (rewrite app_length; cbn [length]; lia). cbn [rev app]. rewrite Hr. reflexivity.
Qed.

Lemma qsafe_ident nm : Forall (fun x => ident_char x = true) nm -> qsafe nm.
Proof. induction 1 as [|x t Hx Ht IH]; [constructor|]. unfold ident_char in Hx. apply qs_raw; [lia|lia|exact IH]. Qed.

Lemma qsafe_body s : bytes_ok s -> qsafe (print_string_body s).
Proof.
  induction 1 as [|x t Hx Ht IH]; [constructor|]. rewrite body_cons. apply qsafe_app; [|exact IH].
  unfold print_byte. destruct (needs_escape x) eqn:En.
  - unfold print_escape.
    destruct (x =? 34); [apply qs_esc; constructor|]. destruct (x =? 92); [apply qs_esc; constructor|].
    destruct (x =? 9); [apply qs_esc; constructor|]. destruct (x =? 12); [apply qs_esc; constructor|].
    destruct (x =? 13); [apply qs_esc; constructor|]. destruct (x =? 10); [apply qs_esc; constructor|].
    destruct (x =? 8); [apply qs_esc; constructor|].
    unfold in_u8 in Hx. pose proof (hexchar_range (x / 16) ltac:(lia)). pose proof (hexchar_range (x mod 16) ltac:(lia)).
    apply qs_esc. apply qs_raw; [lia|lia|]. apply qs_raw; [lia|lia|]. apply qs_raw; [lia|lia|]. apply qs_raw; [lia|lia|]. constructor.
  - unfold needs_escape in En. apply qs_raw; [lia|lia|constructor].
Qed.

Lemma json_chars_idents nm : Forall (fun x => ident_char x = true) nm -> json_chars (nm ++ [34]) = true.
Proof.
  induction 1 as [|x t Hx Ht IH]; [reflexivity|]. cbn [app]. unfold ident_char in Hx.
  rewrite json_chars_ascii; [exact IH | unfold needs_escape; lia | lia].
Qed.

Lemma json_string_name nm rest : name_okb nm = true -> json_string (34 :: nm ++ 34 :: rest) = Some rest.
Proof.
  intros H. apply name_okb_facts in H. destruct H as [H _]. apply json_string_ok; [apply qsafe_ident; exact H|].
  cbn [rfc8259_string]. apply json_chars_idents. exact H.
Qed.

Lemma json_string_printed s rest : bytes_ok s -> utf8_valid s = true -> json_string (print_string s ++ rest) = Some rest.
Proof.
  intros Hb Hu. unfold print_string. cbn [app]. rewrite <- app_assoc. cbn [app].
  apply json_string_ok; [apply qsafe_body; exact Hb|]. apply (strict_json_string s Hu).
Qed.

(* numbers *)
Lemma skip_digits_app ds rest : Forall NumProofs.digitc ds -> (match rest with x :: _ => is_digit x = false | [] => True end) ->
  skip_digits (ds ++ rest) = rest.
Proof.
  intros Hd Hr. induction Hd as [|d t Hd Ht IH]; cbn [app].
  - destruct rest as [|x r]; [reflexivity|]. cbn [skip_digits]. rewrite Hr. reflexivity.
  - cbn [skip_digits]. replace (is_digit d) with true by (unfold is_digit, NumProofs.digitc in *; lia). exact IH.
Qed.

Definition vf (rest : list Z) : Prop := vfollow_head rest \/ rest = [].

Lemma json_number_decimal n rest : 0 <= n -> vf rest -> json_number (NumModel.decimal n ++ rest) = Some rest.
Proof.
  intros Hn Hr. destruct (NumProofs.decimal_canon n Hn) as (Hd & _ & Hc).
  destruct rest as [|y r].
  { unfold json_number. destruct Hc as [->|(d & t & Ed & Hd0)]; [reflexivity|]. rewrite Ed in *.
    pose proof (Forall_inv Hd) as Hdd. pose proof (Forall_inv_tail Hd) as Hdt. unfold NumProofs.digitc in Hdd. cbn [app hd_is tl].
    replace (d =? 45) with false by lia. replace (d =? 48) with false by lia. replace ((49 <=? d) && (d <=? 57)) with true by lia.
    rewrite (skip_digits_app t [] Hdt I). reflexivity. }
  destruct Hr as [Hr|Hr]; [|discriminate]. cbn in Hr. unfold vfollow in Hr.
  assert (Hy : is_digit y = false) by (unfold is_digit; lia).
  assert (E46 : (y =? 46) = false) by lia. assert (E101 : (y =? 101) = false) by lia. assert (E69 : (y =? 69) = false) by lia.
  unfold json_number. destruct Hc as [->|(d & t & Ed & Hd0)]; [|rewrite Ed in *].
  - repeat (cbn [app hd_is tl Z.eqb Pos.eqb orb]; rewrite ?E46, ?E101, ?E69). reflexivity.
  - pose proof (Forall_inv Hd) as Hdd. pose proof (Forall_inv_tail Hd) as Hdt. unfold NumProofs.digitc in Hdd. cbn [app hd_is tl].
    replace (d =? 45) with false by lia. replace (d =? 48) with false by lia. replace ((49 <=? d) && (d <=? 57)) with true by lia.
    rewrite (skip_digits_app t (y :: r) Hdt Hy). repeat (cbn [hd_is tl orb]; rewrite ?E46, ?E101, ?E69). reflexivity.
Qed.

Lemma json_number_sdecimal x rest : vf rest -> json_number (NumModel.sdecimal x ++ rest) = Some rest.
Proof.
  intros Hr. unfold NumModel.sdecimal. destruct (x <? 0) eqn:Ex; [|apply json_number_decimal; [lia|assumption]].
  pose proof (json_number_decimal (- x) rest ltac:(lia) Hr) as H. unfold json_number in *. cbn [app hd_is tl Z.eqb Pos.eqb].
  destruct (NumProofs.decimal_canon (- x) ltac:(lia)) as (Hd & _ & _).
  destruct (NumModel.decimal (- x)) as [|d t] eqn:Ed; [exfalso; apply (NumProofs.decimal_nonempty (- x)); [lia|exact Ed]|].
  cbn [app hd_is tl] in H |- *.
  apply Forall_inv in Hd. unfold NumProofs.digitc in Hd. replace (d =? 45) with false in H by lia. exact H.
Qed.

Lemma strip_prefix_app lit rest : strip_prefix lit (lit ++ rest) = Some rest.
Proof. induction lit as [|l t IH]; [reflexivity|]. cbn [app strip_prefix]. rewrite Z.eqb_refl. exact IH. Qed.

Section Rfc.
Variables (F : prflags) (PS : pschema) (E : penums).
Hypothesis HQ : fl_unquote F = false.
Hypothesis HPS : pschema_okb PS = true.
Hypothesis HRT : rt_schema_okb PS = true.
Hypothesis HE : enums_okb E = true.

(* one scalar *)
Lemma json_value_scalar t id ty bs rest f : sty_ok ty -> scalar_okb ty bs = true -> vf rest ->
  json_value (S f) (scalar_text F (enum_of E t id) ty bs ++ rest) = Some rest.
Proof.
  intros Hok Hs Hr. unfold scalar_okb in Hs. apply andb_true_iff in Hs. destruct Hs as [Hs _].
  apply andb_true_iff in Hs. destruct Hs as [Hl Hb]. apply byte_okb_forall in Hb.
  unfold scalar_text. destruct (st_bool ty).
  { destruct (le_val bs =? 0); cbn [json_value app lit_false lit_true Z.eqb Pos.eqb]; [apply (strip_prefix_app lit_false) | apply (strip_prefix_app lit_true)]. }
  assert (En : num_text ty (sval_of ty bs) = NumModel.sdecimal (sval_of ty bs)) by (apply num_text_sdecimal; [assumption|lia|assumption]).
  assert (Hnum : json_value (S f) (NumModel.sdecimal (sval_of ty bs) ++ rest) = Some rest).
  { pose proof (sdecimal_head (sval_of ty bs)) as Hh. pose proof (json_number_sdecimal (sval_of ty bs) rest Hr) as Hj.
    assert (Hd : forall c, In c [123; 91; 34; 116; 102; 110] -> match NumModel.sdecimal (sval_of ty bs) with y :: _ => y <> c | [] => True end).
    { intros c Hc. unfold NumModel.sdecimal. destruct (sval_of ty bs <? 0) eqn:Ex; [cbn in Hc; lia|].
      pose proof (NumProofs.decimal_digits (sval_of ty bs) ltac:(lia)) as Hdd.
      destruct (NumModel.decimal (sval_of ty bs)); [exact I|]. apply Forall_inv in Hdd. unfold NumProofs.digitc in Hdd. cbn in Hc. lia. }
    destruct (NumModel.sdecimal (sval_of ty bs)) as [|y r] eqn:Es; [contradiction|]. cbn [app json_value].
    replace (y =? 123) with false by (specialize (Hd 123 ltac:(cbn; tauto)); lia).
    replace (y =? 91) with false by (specialize (Hd 91 ltac:(cbn; tauto)); lia).
    replace (y =? 34) with false by (specialize (Hd 34 ltac:(cbn; tauto)); lia).
    replace (y =? 116) with false by (specialize (Hd 116 ltac:(cbn; tauto)); lia).
    replace (y =? 102) with false by (specialize (Hd 102 ltac:(cbn; tauto)); lia).
    replace (y =? 110) with false by (specialize (Hd 110 ltac:(cbn; tauto)); lia).
    exact Hj. }
  destruct (fl_noenum F); [rewrite En; exact Hnum|].
  destruct (assocZ _ _) as [nm|] eqn:Ea; [|rewrite En; exact Hnum].
  unfold psymbol. rewrite HQ. cbn [app json_value Z.eqb Pos.eqb]. rewrite <- app_assoc. cbn [app].
  apply json_string_name. eapply enum_names_ok_gen; eassumption.
Qed.

(* a value text: recognized whatever follows, as long as a separator / closing character / white space follows *)
Definition vtext (tx : list Z) : Prop :=
  (match tx with y :: _ => json_ws y = false /\ y <> 93 /\ y <> 125 | [] => False end) /\
  forall f rest, Nat.lt (length tx) f -> vf rest -> json_value f (tx ++ rest) = Some rest.

Lemma vfollow_nows rest : vstop rest -> nows rest.
Proof. destruct rest as [|y r]; cbn; [tauto|]. unfold json_ws. lia. Qed.

Lemma hd_is_app_false c tx rest : (match tx with y :: _ => y <> c | [] => False end) -> hd_is c (tx ++ rest) = false.
Proof. destruct tx as [|y r]; [tauto|]. cbn. lia. Qed.

Ltac len_norm := unfold Nat.lt in *; cbn [length] in *; repeat (rewrite !app_length in *; cbn [length] in *).

(* elements of an array, separated by ',' and the white space [sep]; closed by [wsE] ']' *)
Lemma json_elements_ok sep wsE : wsp sep -> wsp wsE -> forall es e1 f rest, Forall vtext (e1 :: es) ->
  Nat.lt (length (e1 ++ flat_map (fun y => 44 :: sep ++ y) es ++ wsE ++ [93])) f ->
  json_elements f (e1 ++ flat_map (fun y => 44 :: sep ++ y) es ++ wsE ++ 93 :: rest) = Some rest.
Proof.
  intros Hsep HwE. induction es as [|e2 r IH]; intros e1 f rest Hes Hf; (destruct f as [|f]; [lia|]); cbn [json_elements];
    inversion Hes as [|? ? [Hh1 Hv1] Hes']; subst.
  - cbn [flat_map app] in *. rewrite Hv1; [| len_norm; lia | left; apply vfollow_ws; [assumption|cbn; tauto]].
    rewrite skip_ws_app by (try assumption; cbn; reflexivity). cbn [hd_is tl Z.eqb Pos.eqb]. reflexivity.
  - cbn [flat_map app] in *. rewrite <- !app_assoc in *. cbn [app] in *.
    rewrite Hv1; [| len_norm; lia | left; cbn; unfold vfollow; tauto].
    cbn [skip_ws json_ws Z.eqb Pos.eqb orb hd_is tl].
    inversion Hes' as [|? ? [Hh2 Hv2] _]; subst.
    rewrite skip_ws_app; [| assumption | destruct e2; [tauto|cbn; tauto]].
    apply IH; [assumption|]. len_norm. lia.
Qed.

Lemma json_array_ok sep wsE es f rest : wsp sep -> wsp wsE -> Forall vtext es ->
  Nat.lt (length (91 :: commas (map (app sep) es) ++ wsE ++ [93])) f ->
  json_value f ((91 :: commas (map (app sep) es) ++ wsE ++ [93]) ++ rest) = Some rest.
Proof.
  intros Hsep HwE Hes Hf. destruct f as [|f]; [lia|]. cbn [app json_value Z.eqb Pos.eqb]. destruct es as [|e1 r].
  - cbn [map commas app]. rewrite <- app_assoc. cbn [app]. rewrite skip_ws_app by (try assumption; cbn; reflexivity).
    cbn [hd_is tl Z.eqb Pos.eqb]. reflexivity.
  - cbn [map commas]. rewrite <- !app_assoc.
    replace (flat_map (fun y => 44 :: y) (map (app sep) r)) with (flat_map (fun y => 44 :: sep ++ y) r)
      by (clear; induction r as [|a t IH]; [reflexivity|]; cbn [map flat_map]; rewrite IH; reflexivity).
    inversion Hes as [|? ? [Hh1 Hv1] _]; subst.
    rewrite skip_ws_app; [| assumption | destruct e1; [tauto|cbn; tauto]].
    rewrite hd_is_app_false by (destruct e1; tauto). cbn [app].
    apply (json_elements_ok sep wsE Hsep HwE r e1 f rest Hes).
    cbn [map commas] in Hf.
    assert (El : length (flat_map (fun y => 44 :: y) (map (app sep) r)) = length (flat_map (fun y => 44 :: sep ++ y) r))
      by (clear; induction r as [|a t IH]; [reflexivity|]; cbn [map flat_map length]; rewrite !app_length, IH; reflexivity).
    len_norm. lia.
Qed.

(* members of an object: "name" ':' sp1 value, separated by ',' nl, closed by nl '}' *)
Definition mtext (body : list Z) : Prop :=
  exists nm tx, name_okb nm = true /\ vtext tx /\ body = (34 :: nm ++ [34]) ++ 58 :: sp1 F ++ tx.

Lemma json_members_ok lvl : forall bodies body f rest, Forall mtext (body :: bodies) ->
  Nat.lt (length (body ++ tail_text F lvl bodies)) f ->
  json_members f (body ++ tail_text F lvl bodies ++ rest) = Some rest.
Proof.
  induction bodies as [|b2 r IH]; intros body f rest Hb Hf; (destruct f as [|f]; [lia|]); cbn [json_members];
    inversion Hb as [|? ? (nm & tx & Hnm & [Hh Hv] & ->) Hb']; subst.
  all: cbn [app]; repeat (rewrite <- !app_assoc; cbn [app]); rewrite json_string_name by assumption.
  all: cbn [skip_ws json_ws Z.eqb Pos.eqb orb hd_is tl].
  all: rewrite skip_ws_app; [| apply wsp_sp1 | destruct tx; [tauto|cbn; tauto]].
  - cbn [tail_text] in *. rewrite <- !app_assoc. cbn [app].
    rewrite Hv; [| len_norm; lia | left; apply vfollow_ws; [apply wsp_nl|cbn; tauto]].
    rewrite skip_ws_app by (try apply wsp_nl; cbn; reflexivity). cbn [hd_is tl Z.eqb Pos.eqb]. reflexivity.
  - cbn [tail_text] in *. cbn [app].
    rewrite Hv; [| len_norm; lia | left; cbn; unfold vfollow; tauto].
    cbn [skip_ws json_ws Z.eqb Pos.eqb orb hd_is tl]. rewrite <- !app_assoc.
    inversion Hb' as [|? ? (nm2 & tx2 & Hnm2 & Hvt2 & E2) _]; subst.
    rewrite skip_ws_app; [| apply wsp_nl | cbn; reflexivity].
    apply (IH _ f rest Hb'). len_norm. lia.
Qed.

Lemma assocZ_In {A} k (l : list (Z * A)) v : assocZ k l = Some v -> In (k, v) l.
Proof.
  induction l as [|[k' a] r IH]; cbn [assocZ]; [discriminate|]. destruct (k =? k') eqn:Ek; [|right; auto].
  intros [= <-]. left. f_equal. lia.
Qed.

Lemma vtext_scalar t id ty bs : sty_ok ty -> scalar_okb ty bs = true -> vtext (scalar_text F (enum_of E t id) ty bs).
Proof.
  intros Hok Hs. split.
  - unfold scalar_text. destruct (st_bool ty); [destruct (le_val bs =? 0); cbn; unfold json_ws; lia|].
    assert (Hn : forall x, match NumModel.sdecimal x with y :: _ => json_ws y = false /\ y <> 93 /\ y <> 125 | [] => False end).
    { intros x. pose proof (sdecimal_head x) as Hh. destruct (NumModel.sdecimal x); [contradiction|]. cbn in Hh. unfold json_ws. lia. }
    unfold scalar_okb in Hs. apply andb_true_iff in Hs. destruct Hs as [Hs _]. apply andb_true_iff in Hs. destruct Hs as [Hl Hb].
    apply byte_okb_forall in Hb.
    assert (En : num_text ty (sval_of ty bs) = NumModel.sdecimal (sval_of ty bs)) by (apply num_text_sdecimal; [assumption|lia|assumption]).
    destruct (fl_noenum F); [rewrite En; apply Hn|]. destruct (assocZ _ _); [|rewrite En; apply Hn].
    unfold psymbol. rewrite HQ. cbn. unfold json_ws. lia.
  - intros f rest Hf Hr. destruct f as [|f]; [unfold Nat.lt in Hf; lia|]. apply json_value_scalar; assumption.
Qed.

Lemma vtext_string s : bytes_ok s -> utf8_valid s = true -> vtext (print_string s).
Proof.
  intros Hb Hu. split; [cbn; unfold json_ws; lia|]. intros f rest Hf Hr. destruct f as [|f]; [unfold Nat.lt in Hf; lia|].
  unfold print_string at 1. cbn [app json_value Z.eqb Pos.eqb].
  change (34 :: (print_string_body s ++ [34]) ++ rest) with (print_string s ++ rest). apply json_string_printed; assumption.
Qed.

Lemma map_app_nil (l : list (list Z)) : map (app []) l = l.
Proof. change (map (fun m : list Z => m) l = l). apply map_id. Qed.

Lemma vtext_array sep lvl es : wsp sep -> Forall vtext es -> vtext (91 :: commas (map (app sep) es) ++ pend F lvl 93).
Proof.
  intros Hsep Hes. split; [cbn; unfold json_ws; lia|]. intros f rest Hf Hr. unfold pend in *.
  apply (json_array_ok sep (nl F lvl) es f rest Hsep (wsp_nl F lvl) Hes Hf).
Qed.

Lemma vtext_table : forall k t lvl v tx, print_table F PS E k t lvl v = Some tx -> wt_table F PS E k t v = true ->
  utf8_value v = true -> vtext tx.
Proof.
  induction k as [|k IH]; intros t lvl v tx Hp Hw Hu; [discriminate|].
  pose proof Hw as Hw0. cbn [print_table wt_table] in Hp, Hw.
  destruct (nth_error PS t) as [flds|] eqn:Et; [|discriminate]. destruct v as [| | |fields| | | | |]; try discriminate.
  destruct (table_facts PS HPS HRT t flds Et) as (Hfok & _ & _ & _ & Hnmok & _).
  destruct (opt_all _) as [its|] eqn:Eits; [|discriminate]. inversion Hp; subst tx. clear Hp.
  apply opt_all_Forall2 in Eits. cbn [utf8_value] in Hu. rewrite forallb_forall in Hu.
  (* every printed member is a member text *)
  assert (Hbod : forall l r, Forall2 (fun (it : pfield * value) b0 =>
                   match print_value F E (print_table F PS E k) t (fst it) (lvl + 1) (snd it) with
                   | Some tx => Some (pname F (lvl + 1) (pf_name (fst it)) ++ tx) | None => None end = Some b0) l r ->
                 (forall it, In it l -> In it (table_items F flds fields)) ->
                 exists bodies, r = map (app (nl F (lvl + 1))) bodies /\ Forall mtext bodies).
  { induction 1 as [|it b0 l r Hb Hr IHl]; intros Hsub; [exists []; split; [reflexivity|constructor]|].
    destruct IHl as (bodies & -> & Hm); [intros; apply Hsub; right; assumption|].
    destruct (print_value _ _ _ _ _ _ _) as [tx|] eqn:Epv; [|discriminate]. inversion Hb; subst b0.
    pose proof (Hsub it (or_introl eq_refl)) as Hin. destruct it as [fd x]. cbn [fst snd] in *.
    destruct (items_in F flds fields _ Hin) as [Hfd Hfi]. cbn [fst snd] in *.
    pose proof (items_wt F PS E HPS HRT k t flds fields Et Hw0 _ Hin) as Hwv. cbn [fst snd] in Hwv.
    assert (Hux : utf8_value x = true).
    { unfold field_item in Hfi. destruct (pf_kind fd) eqn:Ek; destruct (assocZ (pf_id fd) fields) as [y|] eqn:Ea; try discriminate;
        try (inversion Hfi; subst; apply (Hu _ (assocZ_In _ _ _ Ea))).
      - destruct y; try (inversion Hfi; subst; apply (Hu _ (assocZ_In _ _ _ Ea))).
        destruct (fl_skip_default F && list_eqb bs dflt); [discriminate|]. inversion Hfi; reflexivity.
      - destruct (fl_force_default F); [|discriminate]. inversion Hfi; reflexivity. }
    exists ((psymbol F (pf_name fd) ++ 58 :: sp1 F ++ tx) :: bodies). split.
    { cbn [map]. unfold pname. rewrite <- !app_assoc. reflexivity. }
    constructor; [|exact Hm]. exists (pf_name fd), tx. split; [apply Hnmok; exact Hfd|]. split; [|unfold psymbol; rewrite HQ; reflexivity].
    (* the value *)
    specialize (Hfok fd Hfd). unfold pfield_okb in Hfok. apply andb_true_iff in Hfok. destruct Hfok as [_ Hkd].
    unfold print_value, wt_value in *.
    destruct (pf_kind fd) as [ty d| |ty| |t'|t'] eqn:Ek; cbn [pkind_okb] in Hkd.
    - destruct x; try discriminate. inversion Epv; subst. apply andb_true_iff in Hwv. apply vtext_scalar; tauto.
    - destruct x; try discriminate. inversion Epv; subst. apply vtext_string; [apply byte_okb_forall; exact Hwv|exact Hux].
    - destruct x; try discriminate. inversion Epv; subst. apply andb_true_iff in Hwv. destruct Hwv as [Hes _].
      rewrite <- (map_map (scalar_text F (enum_of E t (pf_id fd)) ty) (app (nl F (lvl + 1 + 1)))).
      apply vtext_array; [apply wsp_nl|]. apply Forall_forall. intros y Hy. apply in_map_iff in Hy. destruct Hy as (e & <- & He).
      rewrite forallb_forall in Hes. specialize (Hes e He). apply andb_true_iff in Hes. apply vtext_scalar; tauto.
    - destruct x; try discriminate. destruct (strvec_shape _ Hwv) as (strs & -> & Hstrs).
      destruct (opt_all _) as [its'|] eqn:Eo; [|discriminate]. inversion Epv; subst. apply strvec_texts in Eo. subst its'.
      rewrite <- (map_map print_string (app (nl F (lvl + 1 + 1)))).
      apply vtext_array; [apply wsp_nl|]. apply Forall_forall. intros y Hy. apply in_map_iff in Hy. destruct Hy as (s0 & <- & Hs0).
      apply vtext_string; [rewrite Forall_forall in Hstrs; exact (Hstrs _ Hs0)|].
      cbn [utf8_value] in Hux. rewrite forallb_forall in Hux. exact (Hux (VString s0) (in_map VString _ _ Hs0)).
    - destruct x; try discriminate. eapply IH; eassumption.
    - destruct x; try discriminate. destruct (opt_all _) as [its'|] eqn:Eo; [|discriminate]. inversion Epv; subst.
      apply opt_all_Forall2 in Eo. rewrite <- (map_app_nil its'). apply vtext_array; [constructor|].
      cbn [utf8_value] in Hux. rewrite forallb_forall in Hux, Hwv.
      clear - Eo IH Hux Hwv. induction Eo as [|a b0 l r Hab Hr IHl]; constructor.
      + eapply IH; [exact Hab | apply Hwv; left; reflexivity | apply Hux; left; reflexivity].
      + apply IHl; intros; [apply Hwv | apply Hux]; right; assumption. }
  destruct (Hbod _ its Eits ltac:(auto)) as (bodies & -> & Hmem). clear Hbod.
  split; [cbn; unfold json_ws; lia|]. intros f rest Hf Hr. destruct f as [|f]; [unfold Nat.lt in Hf; lia|].
  cbn [app json_value Z.eqb Pos.eqb]. unfold pend in *. destruct bodies as [|body bodies'].
  - cbn [map commas app]. rewrite <- app_assoc. cbn [app]. rewrite skip_ws_app by (try apply wsp_nl; cbn; reflexivity).
    cbn [hd_is tl Z.eqb Pos.eqb]. reflexivity.
  - cbn [map commas]. rewrite <- !app_assoc.
    replace (flat_map (fun y => 44 :: y) (map (app (nl F (lvl + 1))) bodies') ++ nl F lvl ++ [125] ++ rest)
      with (tail_text F lvl bodies' ++ rest) by (rewrite <- (tail_text_eq F), <- !app_assoc; reflexivity).
    pose proof (Forall_inv Hmem) as (nm & tx & Hnm & Hvt & Eb).
    rewrite skip_ws_app; [| apply wsp_nl | rewrite Eb; cbn; reflexivity].
    rewrite hd_is_app_false by (rewrite Eb; cbn; lia).
    apply json_members_ok; [exact Hmem|].
    cbn [map commas] in Hf. pose proof (f_equal (@length Z) (tail_text_eq F lvl bodies')) as El. len_norm. lia.
Qed.

(* with quoted names the whole document is RFC 8259 JSON when the strings are UTF-8 *)
Theorem strict_document pmax root v text : wt_table F PS E (Z.to_nat (pmax - 1)) root v = true -> utf8_value v = true ->
  print_root F PS E pmax root v = Some text -> rfc8259_document text = true.
Proof.
  intros Hw Hu Hp. unfold print_root in Hp. destruct (print_table _ _ _ _ _ _ _) as [tx|] eqn:Et; [|discriminate]. inversion Hp; subst text. clear Hp.
  destruct (vtext_table _ _ _ _ _ Et Hw Hu) as [Hh Hv]. unfold rfc8259_document.
  set (last := if 0 <? fl_indent F then [10] else []).
  assert (Hs : skip_ws (tx ++ last) = tx ++ last).
  { destruct tx as [|y r]; [contradiction|]. cbn [app skip_ws]. destruct Hh as [-> _]. reflexivity. }
  rewrite Hs. rewrite Hv.
  - unfold last. destruct (0 <? fl_indent F); reflexivity.
  - unfold Nat.lt. rewrite app_length. lia.
  - unfold last, vf. destruct (0 <? fl_indent F); [left; cbn; unfold vfollow; tauto | right; reflexivity].
Qed.
End Rfc.
