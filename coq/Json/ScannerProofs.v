(* C04: lemmas about Json/Scanner.v.
   For every modelled scanner function f:  f_post : 0 <= i <= blen b -> cgood b c -> post b c i (f b c i)
   i.e. the call returns (no out-of-bounds read, enough fuel), the returned position is in [i, end],
   the error location stays inside the input and the first error is kept. *)
From Flatcc.Json Require Import Scanner.
From Coq Require Import ZifyBool.
Local Open Scope Z_scope.
Ltac Zify.zify_post_hook ::= Z.div_mod_to_equations.

Definition cgood (b : buf) (c : pctx) : Prop := 0 <= cerrloc c <= blen b.
(* flags are never changed; once an error is set, code and location are kept *)
Definition cmono (c c' : pctx) : Prop :=
  cflags c' = cflags c /\ (cerr c <> 0 -> cerr c' = cerr c /\ cerrloc c' = cerrloc c).

Definition post {A} (b : buf) (c : pctx) (i : Z) (r : res A) : Prop :=
  match r with Ok c' p _ => i <= p <= blen b /\ cgood b c' /\ cmono c c' | _ => False end.
(* strict progress *)
Definition spost {A} (b : buf) (c : pctx) (i : Z) (r : res A) : Prop :=
  match r with Ok c' p _ => i < p <= blen b /\ cgood b c' /\ cmono c c' | _ => False end.
Definition lpost (b : buf) (i : Z) (r : lres) : Prop :=
  match r with LAt p => i <= p <= blen b | _ => False end.

Lemma spost_post {A} b c i (r : res A) : spost b c i r -> post b c i r.
Proof. destruct r; simpl; intuition lia. Qed.

Lemma get_in b i : 0 <= i < blen b -> get b i = Some (bget b i).
Proof. intros. unfold get, rd8, inb. destruct ((0 <=? i) && (i + 1 <=? blen b)) eqn:E; [reflexivity|lia]. Qed.

Lemma rd16_in b i : 0 <= i -> i + 2 <= blen b -> rd16 b i = Some (bget b i + 256 * bget b (i + 1)).
Proof. intros. unfold rd16, inb. destruct ((0 <=? i) && (i + 2 <=? blen b)) eqn:E; [reflexivity|lia]. Qed.

Lemma cmono_refl c : cmono c c.
Proof. unfold cmono; tauto. Qed.
Lemma cmono_trans c1 c2 c3 : cmono c1 c2 -> cmono c2 c3 -> cmono c1 c3.
Proof.
  unfold cmono. intros [F1 E1] [F2 E2]. split; [congruence|]. intros H.
  destruct (E1 H) as [A B]. assert (cerr c2 <> 0) by congruence. destruct (E2 H0). split; congruence.
Qed.
Lemma set_error_good b c loc e : 0 <= loc <= blen b -> cgood b c -> cgood b (set_error c loc e).
Proof. unfold cgood, set_error. intros. destruct (cerr c =? 0); simpl; lia. Qed.
Lemma set_error_mono c loc e : cmono c (set_error c loc e).
Proof. unfold cmono, set_error. destruct (cerr c =? 0) eqn:E; simpl; [|tauto]. split; [reflexivity|lia]. Qed.
Lemma set_unq_good b c u : cgood b c -> cgood b (set_unq c u).
Proof. unfold cgood; simpl; auto. Qed.
Lemma set_unq_mono c u : cmono c (set_unq c u).
Proof. unfold cmono; simpl; tauto. Qed.
Lemma newline_good b c p : cgood b c -> cgood b (newline c p).
Proof. unfold cgood; simpl; auto. Qed.
Lemma newline_mono c p : cmono c (newline c p).
Proof. unfold cmono; simpl; tauto. Qed.
Lemma has_flag_mono c c' f : cmono c c' -> has_flag c' f = has_flag c f.
Proof. unfold cmono, has_flag. intros [-> _]. reflexivity. Qed.

Create HintDb scan.
#[export] Hint Resolve cmono_refl set_error_good set_error_mono set_unq_good set_unq_mono newline_good newline_mono : scan.
#[export] Hint Extern 3 (cmono _ _) => eapply cmono_trans; [eassumption|] : scan.
#[export] Hint Extern 3 (cmono _ _) => eapply cmono_trans; [|eassumption] : scan.
#[export] Hint Extern 1 (_ <= _ <= _) => lia : scan.
#[export] Hint Extern 1 (cgood _ (set_error _ _ _)) => apply set_error_good; [lia|] : scan.

Lemma post_ok {A} b c i c' p (v : A) : i <= p <= blen b -> cgood b c' -> cmono c c' -> post b c i (Ok c' p v).
Proof. simpl; auto. Qed.
Lemma post_fail {A} b c i c' loc e (v : A) :
  i <= blen b -> 0 <= loc <= blen b -> cgood b c' -> cmono c c' -> post b c i (fail b c' loc e v).
Proof.
  intros. unfold fail. apply post_ok; [lia|apply set_error_good; auto|].
  eapply cmono_trans; [eassumption|apply set_error_mono].
Qed.
Lemma spost_ok {A} b c i c' p (v : A) : i < p <= blen b -> cgood b c' -> cmono c c' -> spost b c i (Ok c' p v).
Proof. simpl; auto. Qed.
Lemma spost_fail {A} b c i c' loc e (v : A) :
  i < blen b -> 0 <= loc <= blen b -> cgood b c' -> cmono c c' -> spost b c i (fail b c' loc e v).
Proof.
  intros. unfold fail. apply spost_ok; [lia|apply set_error_good; auto|].
  eapply cmono_trans; [eassumption|apply set_error_mono].
Qed.

Lemma post_chain {A} b c c1 i i1 (r : res A) : i <= i1 -> cmono c c1 -> post b c1 i1 r -> post b c i r.
Proof. destruct r; simpl; [|tauto|tauto]. intros ? ? (? & ? & ?). split; [lia|split; [assumption|eapply cmono_trans; eassumption]]. Qed.
Lemma spost_chain {A} b c c1 i i1 (r : res A) : i < i1 -> cmono c c1 -> post b c1 i1 r -> spost b c i r.
Proof. destruct r; simpl; [|tauto|tauto]. intros ? ? (? & ? & ?). split; [lia|split; [assumption|eapply cmono_trans; eassumption]]. Qed.

(* ------------------------------------------------------------------ tactics *)
(* resolve one guarded read or split one test *)
Ltac brk :=
  match goal with
  | |- context [get ?b ?i] => rewrite (get_in b i) by lia
  | |- context [rd16 ?b ?i] => rewrite (rd16_in b i) by lia
  | |- context [if ?c then _ else _] => destruct c eqn:?
  end.
Ltac mono :=
  repeat match goal with
  | |- cmono ?a ?a => apply cmono_refl
  | |- cmono _ (set_error _ _ _) => eapply cmono_trans; [|apply set_error_mono]
  | |- cmono _ (set_unq _ _) => eapply cmono_trans; [|apply set_unq_mono]
  | |- cmono _ (newline _ _) => eapply cmono_trans; [|apply newline_mono]
  | H : cmono ?x ?y |- cmono _ ?y => eapply cmono_trans; [|exact H]
  end.
Ltac good :=
  repeat match goal with
  | |- cgood _ (set_error _ _ _) => apply set_error_good; [lia|]
  | |- cgood _ (set_unq _ _) => apply set_unq_good
  | |- cgood _ (newline _ _) => apply newline_good
  end; assumption.
Ltac apply_post := fail.
Ltac apply_lpost := fail.
Ltac fin :=
  first [ apply post_ok; [lia | good | mono]
        | apply post_fail; [lia | lia | good | mono]
        | apply spost_ok; [lia | good | mono]
        | apply spost_fail; [lia | lia | good | mono]
        | eapply post_chain; [ | | apply_post; [lia | good]]; [lia | mono]
        | eapply spost_chain; [ | | apply_post; [lia | good]]; [lia | mono] ].
(* apply_post / apply_lpost are extended below, lemma by lemma *)
Ltac call :=
  match goal with
  | |- context [match ?e with Ok _ _ _ => _ | Oob => _ | Fuel => _ end] =>
    lazymatch e with
    | (if _ then _ else _) => fail
    | _ =>
      let P := fresh "P" in
      eassert (P : post _ _ _ e) by (apply_post; [lia | good]);
      destruct e as [? ? ?| |]; [destruct P as (? & ? & ?) | destruct P | destruct P]
    end
  | |- context [match ?e with LAt _ => _ | LOob => _ | LFuel => _ end] =>
    let P := fresh "P" in
    eassert (P : lpost _ _ e) by (apply_lpost; lia);
    destruct e as [?| |]; [simpl in P | destruct P | destruct P]
  end.
Ltac go := cbv beta zeta; repeat first [call | brk]; try fin.

(* ------------------------------------------------------------------ forward scans *)
Lemma string_part_scan_ok : forall fuel b i, 0 <= i <= blen b -> Z.of_nat fuel > blen b - i ->
  lpost b i (string_part_scan fuel b i).
Proof.
  induction fuel; intros b i Hi Hf; [lia|]. cbn [string_part_scan].
  destruct (i =? blen b) eqn:E; [simpl; lia|]. rewrite get_in by lia.
  destruct (negb (bget b i =? 34) && (32 <=? bget b i) && negb (bget b i =? 92)); [|simpl; lia].
  specialize (IHfuel b (i + 1) ltac:(lia) ltac:(lia)). destruct (string_part_scan fuel b (i + 1)); simpl in *; lia.
Qed.
Lemma scan_fuel_gt b i : Z.of_nat (scan_fuel b i) > blen b - i.
Proof. unfold scan_fuel. lia. Qed.
Arguments scan_fuel : simpl never.
Lemma string_part_scan_post b i : 0 <= i <= blen b -> lpost b i (string_part_scan (scan_fuel b i) b i).
Proof. intros. apply string_part_scan_ok; [lia|apply scan_fuel_gt]. Qed.

Lemma skip_sp_ok : forall fuel b i, 0 <= i <= blen b -> Z.of_nat fuel > blen b - i -> lpost b i (skip_sp fuel b i).
Proof.
  induction fuel; intros b i Hi Hf; [lia|]. cbn [skip_sp].
  destruct (i =? blen b) eqn:E; [simpl; lia|]. rewrite get_in by lia.
  destruct (bget b i =? 32); [|simpl; lia].
  specialize (IHfuel b (i + 1) ltac:(lia) ltac:(lia)). destruct (skip_sp fuel b (i + 1)); simpl in *; lia.
Qed.
Lemma skip_sp_post b i : 0 <= i <= blen b -> lpost b i (skip_sp (scan_fuel b i) b i).
Proof. intros. apply skip_sp_ok; [lia|apply scan_fuel_gt]. Qed.
(* at a space the scan moves *)
Lemma skip_sp_strict b i : 0 <= i < blen b -> bget b i = 32 ->
  match skip_sp (scan_fuel b i) b i with LAt p => i < p <= blen b | _ => False end.
Proof.
  intros Hi Hx. pose proof (scan_fuel_gt b i) as Hf. destruct (scan_fuel b i) as [|f]; [lia|].
  cbn [skip_sp]. destruct (i =? blen b) eqn:E; [lia|]. rewrite get_in by lia. rewrite Hx, Z.eqb_refl.
  pose proof (skip_sp_ok f b (i + 1) ltac:(lia) ltac:(lia)). destruct (skip_sp f b (i + 1)); simpl in *; lia.
Qed.

Lemma digits_ok : forall fuel b i, 0 <= i <= blen b -> Z.of_nat fuel > blen b - i -> lpost b i (digits fuel b i).
Proof.
  induction fuel; intros b i Hi Hf; [lia|]. cbn [digits].
  destruct (i =? blen b) eqn:E; [simpl; lia|]. rewrite get_in by lia.
  destruct (is_digit (bget b i)); [|simpl; lia].
  specialize (IHfuel b (i + 1) ltac:(lia) ltac:(lia)). destruct (digits fuel b (i + 1)); simpl in *; lia.
Qed.
Lemma digits_post b i : 0 <= i <= blen b -> lpost b i (digits (scan_fuel b i) b i).
Proof. intros. apply digits_ok; [lia|apply scan_fuel_gt]. Qed.

Lemma symbol_end_q_ok : forall fuel b i, 0 <= i <= blen b -> Z.of_nat fuel > blen b - i -> lpost b i (symbol_end_q fuel b i).
Proof.
  induction fuel; intros b i Hi Hf; [lia|]. cbn [symbol_end_q].
  destruct (i =? blen b) eqn:E; [simpl; lia|]. rewrite get_in by lia.
  destruct (bget b i =? 34); [simpl; lia|].
  destruct (bget b i =? 92).
  - destruct (blen b - i <? 2) eqn:E2; [simpl; lia|].
    specialize (IHfuel b (i + 2) ltac:(lia) ltac:(lia)). destruct (symbol_end_q fuel b (i + 2)); simpl in *; lia.
  - specialize (IHfuel b (i + 1) ltac:(lia) ltac:(lia)). destruct (symbol_end_q fuel b (i + 1)); simpl in *; lia.
Qed.
Lemma symbol_end_q_post b i : 0 <= i <= blen b -> lpost b i (symbol_end_q (scan_fuel b i) b i).
Proof. intros. apply symbol_end_q_ok; [lia|apply scan_fuel_gt]. Qed.

Ltac apply_lpost ::= first [apply string_part_scan_post | apply skip_sp_post | apply digits_post | apply symbol_end_q_post].

Lemma symbol_end_unq_ok : forall fuel b i cl, 0 <= i <= blen b -> Z.of_nat fuel > blen b - i ->
  exists p cl', symbol_end_unq fuel b i cl = Some (Some (p, cl')) /\ i <= p <= blen b.
Proof.
  induction fuel; intros b i cl Hi Hf; [lia|]. cbn [symbol_end_unq].
  destruct (i =? blen b) eqn:E; [eauto with scan|]. rewrite get_in by lia.
  destruct (32 <? uc (bget b i)); [|eauto with scan].
  destruct ((bget b i =? 95) || (bget b i =? 46) || negb (Z.land (bget b i) 128 =? 0) || is_digit (bget b i)).
  - destruct (IHfuel b (i + 1) (bget b i)) as (p & cl' & -> & ?); [lia|lia|]. exists p, cl'. split; [reflexivity|lia].
  - destruct (is_alpha_lc (bget b i)); [|eauto with scan].
    destruct (IHfuel b (i + 1) (bget b i)) as (p & cl' & -> & ?); [lia|lia|]. exists p, cl'. split; [reflexivity|lia].
Qed.

Lemma integer_digits_ok : forall fuel b i x, 0 <= i <= blen b -> Z.of_nat fuel > blen b - i ->
  exists r, integer_digits fuel b i x = Some (Some r) /\
    match r with inl (p, _) => i <= p <= blen b | inr p => i <= p < blen b end.
Proof.
  induction fuel; intros b i x Hi Hf; [lia|]. cbn [integer_digits].
  destruct (i =? blen b) eqn:E; [eexists; split; [reflexivity|simpl; lia]|]. rewrite get_in by lia.
  destruct (is_digit (bget b i)); [|eexists; split; [reflexivity|simpl; lia]].
  destruct (x >? (U64_MAX - (bget b i - 48)) / 10); [eexists; split; [reflexivity|simpl; lia]|].
  destruct (IHfuel b (i + 1) (u64 (x * 10 + (bget b i - 48)))) as (r & -> & Hr); [lia|lia|].
  exists r. split; [reflexivity|]. destruct r as [[p v]|p]; lia.
Qed.

(* ------------------------------------------------------------------ string_part, string_start, string_end *)
Lemma string_part_post b c i : 0 <= i <= blen b -> cgood b c -> post b c i (string_part b c i).
Proof. intros. unfold string_part. go. Qed.
Ltac apply_post ::= first [apply string_part_post].

Lemma string_start_post b c i : 0 <= i <= blen b -> cgood b c -> post b c i (string_start b c i).
Proof. intros. unfold string_start. go. Qed.
Lemma string_start_spost b c i : 0 <= i < blen b -> cgood b c -> spost b c i (string_start b c i).
Proof. intros. unfold string_start. go. Qed.
Lemma string_end_post b c i : 0 <= i <= blen b -> cgood b c -> post b c i (string_end b c i).
Proof. intros. unfold string_end. go. Qed.
Ltac apply_post ::= first [apply string_part_post | apply string_start_post | apply string_end_post].

(* ------------------------------------------------------------------ space *)
Lemma space_wide_ok b i : 0 <= i <= blen b -> exists r p, space_wide b i = Some (r, p) /\ i <= p <= blen b.
Proof.
  intros. unfold space_wide. destruct (16 <=? blen b - i) eqn:E; [|eauto with scan].
  rewrite get_in by lia. destruct (32 <? sc (bget b i)); [eauto with scan|].
  rewrite rd16_in by lia.
  destruct (bget b i + 256 * bget b (i + 1) =? 8224).
  - rewrite get_in by lia. destruct (bget b (i + 2) =? 32).
    + rewrite get_in by lia. destruct (32 <? sc (bget b (i + 2 + 1))); eexists; eexists; (split; [reflexivity|lia]).
    + rewrite get_in by lia. destruct (32 <? sc (bget b (i + 2))); eexists; eexists; (split; [reflexivity|lia]).
  - rewrite get_in by lia. destruct (bget b i =? 32).
    + rewrite get_in by lia. destruct (32 <? sc (bget b (i + 1))); eexists; eexists; (split; [reflexivity|lia]).
    + rewrite get_in by lia. destruct (32 <? sc (bget b i)); eexists; eexists; (split; [reflexivity|lia]).
Qed.

Definition prepost (b : buf) (i : Z) (r : pre) : Prop :=
  match r with PRet p => i <= p <= blen b | PCont p => i <= p <= blen b | _ => False end.
Lemma space_again_post b i : 0 <= i <= blen b -> prepost b i (space_again b i).
Proof.
  intros. unfold space_again. destruct (space_wide_ok b i) as (r & p & -> & Hp); [lia|].
  destruct r; [simpl; lia|].
  pose proof (skip_sp_post b p). destruct (skip_sp (scan_fuel b p) b p); simpl in *; lia.
Qed.
(* `goto again` from a space character always consumes it *)
Lemma space_again_strict b i : 0 <= i < blen b -> bget b i = 32 ->
  match space_again b i with PRet p => i <= p <= blen b | PCont p => i < p <= blen b | _ => False end.
Proof.
  intros Hi Hx. unfold space_again, space_wide.
  assert (Hsc : (32 <? sc 32) = false) by reflexivity.
  destruct (16 <=? blen b - i) eqn:E.
  - rewrite get_in by lia. rewrite Hx, Hsc. rewrite rd16_in by lia. rewrite Hx.
    destruct (32 + 256 * bget b (i + 1) =? 8224).
    + rewrite get_in by lia. destruct (bget b (i + 2) =? 32).
      * rewrite get_in by lia. destruct (32 <? sc (bget b (i + 2 + 1))); [lia|].
        pose proof (skip_sp_post b (i + 2 + 1)). destruct (skip_sp (scan_fuel b (i + 2 + 1)) b (i + 2 + 1)); simpl in *; lia.
      * rewrite get_in by lia. destruct (32 <? sc (bget b (i + 2))); [lia|].
        pose proof (skip_sp_post b (i + 2)). destruct (skip_sp (scan_fuel b (i + 2)) b (i + 2)); simpl in *; lia.
    + rewrite get_in by lia. rewrite Hx, Z.eqb_refl. rewrite get_in by lia.
      destruct (32 <? sc (bget b (i + 1))); [lia|].
      pose proof (skip_sp_post b (i + 1)). destruct (skip_sp (scan_fuel b (i + 1)) b (i + 1)); simpl in *; lia.
  - pose proof (skip_sp_strict b i Hi Hx). destruct (skip_sp (scan_fuel b i) b i); simpl in *; lia.
Qed.

Lemma space_ctl_ok : forall fuel b c i, 0 <= i <= blen b -> cgood b c -> Z.of_nat fuel > blen b - i ->
  post b c i (space_ctl fuel b c i).
Proof.
  induction fuel; intros b c i Hi Hc Hf; [lia|]. cbn [space_ctl].
  destruct (i =? blen b) eqn:E; [fin|]. rewrite get_in by lia.
  destruct (sc (bget b i) <=? 32); [|fin].
  destruct (bget b i =? 13).
  { destruct (1 <? blen b - i) eqn:E1.
    - rewrite get_in by lia. destruct (bget b (i + 1) =? 10).
      + eapply post_chain; [| |apply IHfuel]; auto with scan; lia.
      + eapply post_chain; [| |apply IHfuel]; auto with scan; lia.
    - eapply post_chain; [| |apply IHfuel]; auto with scan; lia. }
  destruct (bget b i =? 10).
  { eapply post_chain; [| |apply IHfuel]; auto with scan; lia. }
  destruct (bget b i =? 9).
  { eapply post_chain; [| |apply IHfuel]; auto with scan; lia. }
  destruct (bget b i =? 32) eqn:E32; [|fin].
  pose proof (space_again_strict b i ltac:(lia) ltac:(lia)) as S. destruct (space_again b i); try contradiction.
  - fin.
  - eapply post_chain; [| |apply IHfuel]; auto with scan; lia.
Qed.

Lemma space_ext_post b c i : 0 <= i <= blen b -> cgood b c -> post b c i (space_ext b c i).
Proof.
  intros. unfold space_ext. pose proof (space_again_post b i ltac:(lia)) as S.
  destruct (space_again b i); simpl in S; try contradiction.
  - fin.
  - eapply post_chain; [| |apply space_ctl_ok]; auto with scan; try lia. apply scan_fuel_gt.
Qed.
Ltac apply_post ::= first [apply string_part_post | apply string_start_post | apply string_end_post | apply space_ext_post].

Lemma space_post b c i : 0 <= i <= blen b -> cgood b c -> post b c i (space b c i).
Proof. intros. unfold space. go; apply space_ext_post; auto. Qed.
Ltac apply_post ::= first [apply string_part_post | apply string_start_post | apply string_end_post | apply space_ext_post | apply space_post].

(* ------------------------------------------------------------------ string_escape *)
Lemma decode_hex4_in b i : 0 <= i -> i + 4 <= blen b -> exists r, decode_hex4 b i = Some r.
Proof. intros. unfold decode_hex4. rewrite !get_in by lia. eauto. Qed.

Lemma string_escape_post b c i : 0 <= i <= blen b -> cgood b c -> post b c i (string_escape b c i).
Proof.
  intros. unfold string_escape, esc_fail. destruct (blen b - i <? 2) eqn:E; [fin|].
  rewrite get_in by lia. destruct (negb (bget b i =? 92)); [fin|]. rewrite get_in by lia.
  destruct (bget b (i + 1) =? 120).
  { destruct (blen b - i <? 4) eqn:E4; [fin|]. rewrite get_in by lia.
    destruct (hexdig (bget b (i + 2))); [|fin]. rewrite get_in by lia.
    destruct (hexdig (bget b (i + 3))); fin. }
  destruct (bget b (i + 1) =? 117).
  { destruct (blen b - i <? 6) eqn:E6; [fin|].
    destruct (decode_hex4_in b (i + 2)) as (r & ->); [lia|lia|]. destruct r as [u|]; [|fin].
    assert (S1 : post b c i (match decode_unicode_char u with Some l => Ok c (i + 6) l | None => Ok c (i + 6) [] end))
      by (destruct (decode_unicode_char u); fin).
    destruct ((55296 <=? u) && (u <=? 56319) && (12 <=? blen b - i)) eqn:E12; [|exact S1].
    rewrite get_in by lia. destruct (negb (bget b (i + 6) =? 92)); [exact S1|].
    rewrite get_in by lia. destruct (negb (bget b (i + 7) =? 117)); [exact S1|].
    destruct (decode_hex4_in b (i + 8)) as (r2 & ->); [lia|lia|]. destruct r2 as [u2|]; [|exact S1].
    destruct ((56320 <=? u2) && (u2 <=? 57343)); [|exact S1].
    destruct (decode_unicode_char (combine_surrogates u u2)); fin. }
  repeat (match goal with |- context [if ?c then _ else _] => destruct c end; [fin|]). fin.
Qed.
(* an escape consumes at least two bytes (or fails and returns end) *)
Lemma string_escape_spost b c i : 0 <= i < blen b -> cgood b c -> spost b c i (string_escape b c i).
Proof.
  intros. pose proof (string_escape_post b c i ltac:(lia) ltac:(auto)) as P.
  unfold string_escape, esc_fail in *. destruct (blen b - i <? 2) eqn:E; [fin|].
  rewrite get_in in * by lia. destruct (negb (bget b i =? 92)); [fin|]. rewrite get_in in * by lia.
  destruct (bget b (i + 1) =? 120).
  { destruct (blen b - i <? 4) eqn:E4; [fin|]. rewrite get_in in * by lia.
    destruct (hexdig (bget b (i + 2))); [|fin]. rewrite get_in in * by lia.
    destruct (hexdig (bget b (i + 3))); fin. }
  destruct (bget b (i + 1) =? 117).
  { destruct (blen b - i <? 6) eqn:E6; [fin|].
    destruct (decode_hex4_in b (i + 2)) as (r & Hr); [lia|lia|]. rewrite Hr in *. destruct r as [u|]; [|fin].
    assert (S1 : spost b c i (match decode_unicode_char u with Some l => Ok c (i + 6) l | None => Ok c (i + 6) [] end))
      by (destruct (decode_unicode_char u); fin).
    destruct ((55296 <=? u) && (u <=? 56319) && (12 <=? blen b - i)) eqn:E12; [|exact S1].
    rewrite get_in in * by lia. destruct (negb (bget b (i + 6) =? 92)); [exact S1|].
    rewrite get_in in * by lia. destruct (negb (bget b (i + 7) =? 117)); [exact S1|].
    destruct (decode_hex4_in b (i + 8)) as (r2 & Hr2); [lia|lia|]. rewrite Hr2 in *. destruct r2 as [u2|]; [|exact S1].
    destruct ((56320 <=? u2) && (u2 <=? 57343)); [|exact S1].
    destruct (decode_unicode_char (combine_surrogates u u2)); fin. }
  repeat (match goal with |- context [if ?c then _ else _] => destruct c end; [fin|]). fin.
Qed.
Ltac apply_post ::= first [apply string_part_post | apply string_start_post | apply string_end_post | apply space_ext_post
  | apply space_post | apply string_escape_post].

(* ------------------------------------------------------------------ symbols *)
Lemma symbol_start_post b c i : 0 <= i <= blen b -> cgood b c -> post b c i (symbol_start b c i).
Proof. intros. unfold symbol_start. go. Qed.

Lemma symbol_end_post b c i : 0 <= i <= blen b -> cgood b c -> post b c i (symbol_end b c i).
Proof.
  intros. unfold symbol_end. destruct (cunq c).
  - destruct (symbol_end_unq_ok (scan_fuel b i) b i 0) as (p & cl & -> & ?); [lia|apply scan_fuel_gt|]. go.
  - go.
Qed.

Lemma symbol_part_n_in : forall n b i sh, 0 <= i -> i + Z.of_nat n <= blen b -> exists w, symbol_part_n n b i sh = Some w.
Proof.
  induction n; intros b i sh H0 H1; cbn [symbol_part_n]; [eauto|].
  rewrite get_in by lia. destruct (IHn b (i + 1) (sh - 8)) as (w & ->); [lia|lia|]. eauto.
Qed.
Lemma symbol_part_in b i : 0 <= i <= blen b -> exists w, symbol_part b i = Some w.
Proof.
  intros. unfold symbol_part. apply symbol_part_n_in; [lia|].
  destruct (8 <=? blen b - i) eqn:E; lia.
Qed.

Lemma match_scope_in b i pos : 0 <= i <= blen b -> 0 <= pos -> exists p, match_scope b i pos = Some p /\ i <= p <= blen b.
Proof.
  intros. unfold match_scope. destruct (blen b - i <=? pos) eqn:E; [eauto with scan|].
  rewrite get_in by lia. destruct (negb (bget b (i + pos) =? 46)); eexists; (split; [reflexivity|lia]).
Qed.

Ltac apply_post ::= first [apply string_part_post | apply string_start_post | apply string_end_post | apply space_ext_post
  | apply space_post | apply string_escape_post | apply symbol_start_post | apply symbol_end_post].

Lemma match_symbol_post b c i pos : 0 <= i <= blen b -> 0 <= pos -> cgood b c -> post b c i (match_symbol b c i pos).
Proof. intros. unfold match_symbol. go. Qed.

Lemma match_bytes_in : forall lit b i, 0 <= i -> i + Z.of_nat (length lit) <= blen b -> exists r, match_bytes b i lit = Some r.
Proof.
  induction lit; intros b i H0 H1; cbn [match_bytes]; [eauto|]. cbn [length] in H1.
  rewrite get_in by lia. destruct (IHlit b (i + 1)) as (r & ->); [lia|lia|]. eauto.
Qed.

Lemma match_type_suffix_post b c i pos : 0 <= i <= blen b -> 0 <= pos -> cgood b c -> post b c i (match_type_suffix b c i pos).
Proof.
  intros. unfold match_type_suffix. destruct (blen b - i <=? pos + 5) eqn:E; [fin|].
  destruct (match_bytes_in lit_type b (i + pos)) as (r & ->); [lia|simpl; lia|].
  destruct r; [|fin]. apply match_symbol_post; auto; lia.
Qed.

Lemma match_constant_post b c i pos : 0 <= i <= blen b -> 0 <= pos -> cgood b c -> post b c i (match_constant b c i pos).
Proof. intros. unfold match_constant. go. Qed.

Lemma skip_constant_go_ok : forall fuel b c i, 0 <= i <= blen b -> cgood b c -> Z.of_nat fuel > blen b - i ->
  post b c i (skip_constant_go fuel b c i).
Proof.
  induction fuel; intros b c i Hi Hc Hf; [lia|]. cbn [skip_constant_go].
  destruct (i =? blen b) eqn:E; [fin|]. rewrite get_in by lia.
  destruct (negb (Z.land (bget b i) 128 =? 0) || (bget b i =? 95) || is_digit (bget b i) || (bget b i =? 46)).
  { eapply post_chain; [| |apply IHfuel]; auto with scan; lia. }
  destruct (is_alpha_lc (bget b i)).
  { eapply post_chain; [| |apply IHfuel]; auto with scan; lia. }
  call. destruct (p =? i) eqn:Ep; [fin|].
  eapply post_chain; [| |apply IHfuel]; eauto with scan; lia.
Qed.
Lemma skip_constant_post b c i : 0 <= i <= blen b -> cgood b c -> post b c i (skip_constant b c i).
Proof. intros. apply skip_constant_go_ok; auto. apply scan_fuel_gt. Qed.

(* ------------------------------------------------------------------ delimiters *)
Lemma delim_start_post o cl e b c i : 0 <= i <= blen b -> cgood b c -> post b c i (delim_start o cl e b c i).
Proof. intros. unfold delim_start. go. Qed.
Lemma delim_end_post cl e b c i : 0 <= i <= blen b -> cgood b c -> post b c i (delim_end cl e b c i).
Proof. intros. unfold delim_end. go. Qed.
(* closing an element consumes at least one byte (or reaches the end of the input) *)
Lemma delim_end_spost cl e b c i : 0 <= i < blen b -> cgood b c -> spost b c i (delim_end cl e b c i).
Proof. intros. unfold delim_end. go. Qed.

Lemma null_in b i : 0 <= i <= blen b -> exists p, null b i = Some p /\ i <= p <= blen b.
Proof.
  intros. unfold null. destruct (4 <=? blen b - i) eqn:E; [|eauto with scan].
  destruct (match_bytes_in lit_null b i) as (r & ->); [lia|simpl; lia|]. destruct r; eexists; (split; [reflexivity|lia]).
Qed.
Lemma none_post b c i : 0 <= i <= blen b -> cgood b c -> post b c i (none b c i).
Proof. intros. unfold none. destruct (null_in b i) as (p & -> & ?); [lia|]. go. Qed.

(* ------------------------------------------------------------------ integer, uint8, bool *)
Lemma integer_post b c i : 0 <= i <= blen b -> cgood b c -> post b c i (integer b c i).
Proof.
  intros. unfold integer. destruct (i =? blen b) eqn:E; [fin|]. rewrite get_in by lia.
  set (j := if bget b i =? 45 then i + 1 else i).
  assert (Hj : i <= j <= blen b) by (subst j; destruct (bget b i =? 45); lia).
  destruct (integer_digits_ok (scan_fuel b j) b j 0) as (r & -> & Hr); [lia|apply scan_fuel_gt|].
  destruct r as [[p v]|p]; go.
Qed.
Ltac apply_post ::= first [apply string_part_post | apply string_start_post | apply string_end_post | apply space_ext_post
  | apply space_post | apply string_escape_post | apply symbol_start_post | apply symbol_end_post | apply integer_post].

Lemma uint8_post b c i : 0 <= i <= blen b -> cgood b c -> post b c i (uint8 b c i).
Proof. intros. unfold uint8. go. destruct v as [sg v]. go. Qed.

Lemma bool_post b c i : 0 <= i <= blen b -> cgood b c -> post b c i (bool_ b c i).
Proof.
  intros. unfold bool_.
  assert (O : post b c i (match uint8 b c i with Ok c1 p v => Ok c1 p (if v =? 0 then 0 else 1) | Oob => Oob | Fuel => Fuel end)).
  { pose proof (uint8_post b c i ltac:(lia) ltac:(auto)). destruct (uint8 b c i); simpl in *; auto. }
  assert (F : post b c i (if 5 <=? blen b - i then
      match match_bytes b i lit_false with None => Oob | Some true => Ok c (i + 5) 0
      | Some false => match uint8 b c i with Ok c1 p v => Ok c1 p (if v =? 0 then 0 else 1) | Oob => Oob | Fuel => Fuel end end
      else match uint8 b c i with Ok c1 p v => Ok c1 p (if v =? 0 then 0 else 1) | Oob => Oob | Fuel => Fuel end)).
  { destruct (5 <=? blen b - i) eqn:E5; [|exact O].
    destruct (match_bytes_in lit_false b i) as (r & ->); [lia|simpl; lia|]. destruct r; [fin|exact O]. }
  destruct (4 <=? blen b - i) eqn:E4; [|exact F].
  destruct (match_bytes_in lit_true b i) as (r & ->); [lia|simpl; lia|]. destruct r; [fin|exact F].
Qed.

(* ------------------------------------------------------------------ number (with the guard at json_parser.c:541) *)
Lemma num_final_post b c r : 0 <= r <= blen b -> cgood b c -> post b c r (num_final b c r).
Proof. intros. unfold num_final, num_fail. go. Qed.
Ltac apply_post ::= first [apply string_part_post | apply string_start_post | apply string_end_post | apply space_ext_post
  | apply space_post | apply string_escape_post | apply symbol_start_post | apply symbol_end_post | apply integer_post
  | apply num_final_post].
Lemma num_exp_post b c q : 0 <= q <= blen b -> cgood b c -> post b c q (num_exp b c q).
Proof. intros. unfold num_exp, num_fail. go. Qed.
Ltac apply_post ::= first [apply string_part_post | apply string_start_post | apply string_end_post | apply space_ext_post
  | apply space_post | apply string_escape_post | apply symbol_start_post | apply symbol_end_post | apply integer_post
  | apply num_final_post | apply num_exp_post].
Lemma num_frac_post b c p : 0 <= p <= blen b -> cgood b c -> post b c p (num_frac true b c p).
Proof. intros. unfold num_frac, num_fail. go. Qed.
Ltac apply_post ::= first [apply string_part_post | apply string_start_post | apply string_end_post | apply space_ext_post
  | apply space_post | apply string_escape_post | apply symbol_start_post | apply symbol_end_post | apply integer_post
  | apply num_final_post | apply num_exp_post | apply num_frac_post].
Lemma num_int_spost b c j : 0 <= j < blen b -> cgood b c -> spost b c j (num_int true b c j).
Proof. intros. unfold num_int, num_fail. go. Qed.
Lemma number_spost b c i : 0 <= i < blen b -> cgood b c -> spost b c i (number b c i).
Proof.
  intros. unfold number, number_gen, num_fail. destruct (i =? blen b) eqn:E; [lia|]. rewrite get_in by lia.
  destruct (bget b i =? 45).
  - destruct (i + 1 =? blen b) eqn:E1; [fin|].
    pose proof (num_int_spost b c (i + 1) ltac:(lia) ltac:(auto)) as P.
    destruct (num_int true b c (i + 1)); simpl in *; intuition lia.
  - apply num_int_spost; auto; lia.
Qed.
Lemma number_post b c i : 0 <= i <= blen b -> cgood b c -> post b c i (number b c i).
Proof.
  intros. destruct (Z.eq_dec i (blen b)) as [->|].
  - unfold number, number_gen. rewrite Z.eqb_refl. fin.
  - apply spost_post, number_spost; auto; lia.
Qed.

(* ------------------------------------------------------------------ generic_json (with the guard at json_parser.c:667) *)
Lemma gstring_loop_ok : forall fuel b c i, 0 <= i <= blen b -> cgood b c -> Z.of_nat fuel > blen b - i ->
  post b c i (gstring_loop fuel b c i).
Proof.
  induction fuel; intros b c i Hi Hc Hf; [lia|]. cbn [gstring_loop].
  destruct (i =? blen b) eqn:E; [fin|]. rewrite get_in by lia.
  destruct (bget b i =? 34); [fin|]. call.
  destruct (p =? blen b) eqn:Ep.
  - call. eapply post_chain; [| |apply IHfuel]; [lia|mono|lia|good|lia].
  - rewrite get_in by lia. destruct (bget b p =? 34); [fin|].
    pose proof (string_escape_spost b c0 p ltac:(lia) ltac:(auto)) as Q.
    destruct (string_escape b c0 p); simpl in Q; try contradiction. destruct Q as (? & ? & ?).
    eapply post_chain; [| |apply IHfuel]; [lia|mono|lia|good|lia].
Qed.
Lemma gstring_loop_post b c i : 0 <= i <= blen b -> cgood b c -> post b c i (gstring_loop (scan_fuel b i) b c i).
Proof. intros. apply gstring_loop_ok; auto. apply scan_fuel_gt. Qed.
Ltac apply_post ::= first [apply string_part_post | apply string_start_post | apply string_end_post | apply space_ext_post
  | apply space_post | apply string_escape_post | apply symbol_start_post | apply symbol_end_post | apply integer_post
  | apply num_final_post | apply num_exp_post | apply num_frac_post | apply gstring_loop_post].

Lemma gstring_spost b c i : 0 <= i < blen b -> cgood b c -> spost b c i (gstring b c i).
Proof.
  intros. unfold gstring.
  pose proof (string_start_spost b c i ltac:(lia) ltac:(auto)) as Q.
  destruct (string_start b c i); simpl in Q; try contradiction. destruct Q as (? & ? & ?). go.
Qed.

Lemma gkey_post b c i : 0 <= i < blen b -> cgood b c ->
  post b c i (gkey b c i) /\ match gkey b c i with Ok _ p (Some j) => j = p /\ i < p | _ => True end.
Proof.
  intros. unfold gkey. call. call. call. destruct (p1 =? blen b) eqn:E3; [split; [fin|exact I]|].
  rewrite get_in by lia. destruct (negb (bget b p1 =? 58)); [split; [fin|exact I]|].
  call. split; [fin|]. split; [reflexivity|lia].
Qed.

Definition MAXN := JSON_GENERIC_MAX_NEST.
Lemma spush_ok x st : Z.of_nat (length st) <= MAXN -> (Z.of_nat (length st) =? MAXN) = false ->
  spush x st = Some (x :: st) /\ Z.of_nat (length (x :: st)) <= MAXN.
Proof.
  unfold spush, MAXN. intros. destruct (Z.of_nat (length st) <? JSON_GENERIC_MAX_NEST) eqn:E; [|lia].
  split; [reflexivity|]. cbn [length]. lia.
Qed.

Lemma gvalue_post b c0 j st rec :
  0 <= j <= blen b -> cgood b c0 -> Z.of_nat (length st) <= MAXN ->
  (forall c1 p st1 lbl, j < p <= blen b -> cgood b c1 -> Z.of_nat (length st1) <= MAXN -> post b c1 p (rec c1 p st1 lbl)) ->
  post b c0 j (gvalue true rec b c0 j st).
Proof.
  intros Hj Hc Hst Hrec. unfold gvalue. destruct (true && (j =? blen b)) eqn:E; [fin|].
  rewrite get_in by lia.
  destruct (bget b j =? 34).
  { pose proof (gstring_spost b c0 j ltac:(lia) ltac:(auto)) as Q.
    destruct (gstring b c0 j); simpl in Q; try contradiction. destruct Q as (? & ? & ?).
    eapply post_chain; [| |apply Hrec]; [lia|mono|lia|good|lia]. }
  destruct ((bget b j =? 45) || is_digit (bget b j)).
  { pose proof (number_spost b c0 j ltac:(lia) ltac:(auto)) as Q. unfold number in Q.
    destruct (number_gen true b c0 j); simpl in Q; try contradiction. destruct Q as (? & ? & ?).
    eapply post_chain; [| |apply Hrec]; [lia|mono|lia|good|lia]. }
  destruct ((bget b j =? 91) || (bget b j =? 123)).
  { destruct (Z.of_nat (length st) =? JSON_GENERIC_MAX_NEST) eqn:En; [fin|].
    destruct (spush_ok (if bget b j =? 91 then RBRACKET else RBRACE) st Hst En) as (-> & Hl).
    call. destruct (p =? blen b) eqn:Ep.
    - eapply post_chain; [| |apply Hrec]; [lia|mono|lia|good|exact Hl].
    - rewrite get_in by lia.
      destruct (bget b p =? (if bget b j =? 91 then RBRACKET else RBRACE));
        (eapply post_chain; [| |apply Hrec]; [lia|mono|lia|good|exact Hl]). }
  pose proof (skip_constant_post b c0 j ltac:(lia) ltac:(auto)) as Q.
  destruct (skip_constant b c0 j); simpl in Q; try contradiction. destruct Q as (? & ? & ?).
  destruct (p =? j) eqn:Ep; [fin|].
  eapply post_chain; [| |apply Hrec]; [lia|mono|lia|good|lia].
Qed.

Definition gphi (lbl : glabel) (b : buf) (i : Z) : Z := 2 * (blen b - i) + match lbl with GAgain => 2 | GPop => 1 end.

Lemma generic_go_ok : forall fuel b c i st lbl, 0 <= i <= blen b -> cgood b c -> Z.of_nat (length st) <= MAXN ->
  Z.of_nat fuel >= gphi lbl b i -> post b c i (generic_go true fuel b c i st lbl).
Proof.
  induction fuel; intros b c i st lbl Hi Hc Hst Hf; [unfold gphi in Hf; destruct lbl; lia|].
  assert (Hrec : forall j, i <= j -> forall c1 p st1 lbl1, j < p <= blen b -> cgood b c1 -> Z.of_nat (length st1) <= MAXN ->
             post b c1 p (generic_go true fuel b c1 p st1 lbl1)).
  { intros j Hij c1 p st1 lbl1 Hp Hc1 Hs1. apply IHfuel; auto; [lia|].
    unfold gphi in *. destruct lbl, lbl1; lia. }
  cbn [generic_go]. destruct lbl.
  - destruct (i =? blen b) eqn:E; [fin|].
    destruct st as [|t st'].
    + apply gvalue_post; auto. apply Hrec; lia.
    + destruct (t =? RBRACE).
      * destruct (gkey_post b c i ltac:(lia) Hc) as (P & Q).
        destruct (gkey b c i) as [c4 p4 k| |]; simpl in P; try contradiction. destruct P as (? & ? & ?).
        destruct k as [j|]; [|fin]. destruct Q as (-> & ?).
        eapply post_chain; [| |apply gvalue_post]; [lia|mono|lia|good|exact Hst|]. apply Hrec; lia.
      * apply gvalue_post; auto. apply Hrec; lia.
  - destruct st as [|t st']; [fin|].
    destruct (i =? blen b) eqn:E; [fin|].
    assert (P : spost b c i (if t =? RBRACKET then array_end b c i else object_end b c i))
      by (destruct (t =? RBRACKET); apply delim_end_spost; auto; lia).
    destruct (if t =? RBRACKET then array_end b c i else object_end b c i) as [c1 p more| |]; simpl in P; try contradiction.
    destruct P as (? & ? & ?). cbn [length] in Hst.
    destruct more; (eapply post_chain; [| |apply (Hrec i)]; [lia|mono|lia|lia|good|cbn [length]; lia]).
Qed.

Lemma generic_json_post b c i : 0 <= i <= blen b -> cgood b c -> post b c i (generic_json b c i).
Proof.
  intros. unfold generic_json, generic_json_gen. apply generic_go_ok; auto.
  - simpl. unfold MAXN, JSON_GENERIC_MAX_NEST. lia.
  - unfold generic_fuel, gphi. lia.
Qed.
Ltac apply_post ::= first [apply string_part_post | apply string_start_post | apply string_end_post | apply space_ext_post
  | apply space_post | apply string_escape_post | apply symbol_start_post | apply symbol_end_post | apply integer_post
  | apply num_final_post | apply num_exp_post | apply num_frac_post | apply gstring_loop_post | apply generic_json_post].

Lemma unmatched_symbol_post b c i : 0 <= i <= blen b -> cgood b c -> post b c i (unmatched_symbol b c i).
Proof. intros. unfold unmatched_symbol, unmatched_symbol_gen. fold generic_json. go. Qed.

(* ------------------------------------------------------------------ strings with content *)
Lemma bytes_from_length : forall n b i, length (bytes_from n b i) = n.
Proof. induction n; intros; cbn [bytes_from length]; [reflexivity|]. rewrite IHn. reflexivity. Qed.
Lemma slice_in b i j : 0 <= i -> i <= j -> j <= blen b ->
  exists s, slice b i j = Some s /\ Z.of_nat (length s) = j - i.
Proof.
  intros. unfold slice. destruct ((0 <=? i) && (i <=? j) && (j <=? blen b)) eqn:E; [|lia].
  eexists. split; [reflexivity|]. rewrite bytes_from_length. lia.
Qed.

Lemma build_string_loop_ok : forall fuel b c i acc, 0 <= i <= blen b -> cgood b c -> Z.of_nat fuel > blen b - i ->
  post b c i (build_string_loop fuel b c i acc).
Proof.
  induction fuel; intros b c i acc Hi Hc Hf; [lia|]. cbn [build_string_loop].
  destruct (i =? blen b) eqn:E; [fin|]. rewrite get_in by lia.
  destruct (bget b i =? 34); [fin|].
  pose proof (string_escape_spost b c i ltac:(lia) Hc) as Q.
  destruct (string_escape b c i) as [c1 p code| |]; simpl in Q; try contradiction. destruct Q as (? & ? & ?).
  call. destruct (p0 =? blen b) eqn:Eq.
  - eapply post_chain; [| |apply IHfuel]; [lia|mono|lia|good|lia].
  - destruct (slice_in b p p0) as (s & -> & _); [lia|lia|lia|].
    eapply post_chain; [| |apply IHfuel]; [lia|mono|lia|good|lia].
Qed.

Lemma build_string_post b c i : 0 <= i <= blen b -> cgood b c -> post b c i (build_string b c i).
Proof.
  intros. unfold build_string. call. call.
  destruct (slice_in b p p0) as (s & -> & _); [lia|lia|lia|].
  destruct (p0 =? blen b) eqn:E.
  - pose proof (build_string_loop_ok (scan_fuel b p0) b c1 p0 s ltac:(lia) ltac:(auto) (scan_fuel_gt b p0)) as Q.
    destruct (build_string_loop (scan_fuel b p0) b c1 p0 s); simpl in Q; try contradiction. destruct Q as (? & ? & ?). go.
  - rewrite get_in by lia. destruct (bget b p0 =? 34); [go|].
    pose proof (build_string_loop_ok (scan_fuel b p0) b c1 p0 s ltac:(lia) ltac:(auto) (scan_fuel_gt b p0)) as Q.
    destruct (build_string_loop (scan_fuel b p0) b c1 p0 s); simpl in Q; try contradiction. destruct Q as (? & ? & ?). go.
Qed.

(* char_array: besides the position/error facts, the bytes written never exceed the array: |written| + remaining = n *)
Definition capost (b : buf) (c : pctx) (i n0 : Z) (r : res (list Z * Z * bool)) : Prop :=
  match r with
  | Ok c' p (acc', n', _) => i <= p <= blen b /\ cgood b c' /\ cmono c c' /\ 0 <= n' /\ Z.of_nat (length acc') + n' = n0
  | _ => False
  end.
Lemma take_z_length k l : 0 <= k <= Z.of_nat (length l) -> Z.of_nat (length (take_z k l)) = k.
Proof. intros. unfold take_z. rewrite firstn_length. lia. Qed.

Lemma char_array_loop_ok : forall fuel b c i n acc, 0 <= i < blen b -> cgood b c -> Z.of_nat fuel > blen b - i -> 0 <= n ->
  capost b c i (Z.of_nat (length acc) + n) (char_array_loop fuel b c i n acc).
Proof.
  induction fuel; intros b c i n acc Hi Hc Hf Hn; [lia|]. cbn [char_array_loop].
  rewrite get_in by lia. destruct (bget b i =? 34).
  { simpl. split; [lia|]. split; [good|]. split; [mono|]. lia. }
  call. destruct (p =? blen b) eqn:Ep.
  { simpl. split; [lia|]. split; [good|]. split; [mono|]. lia. }
  destruct (slice_in b i p) as (s & -> & Hs); [lia|lia|lia|].
  destruct ((n <? p - i) && negb (has_flag c0 JF_skip_array_overflow)).
  { simpl. split; [lia|]. split; [good|]. split; [mono|]. lia. }
  set (k := if n <? p - i then n else p - i).
  assert (Hk : 0 <= k <= Z.of_nat (length s) /\ k <= n) by (subst k; destruct (n <? p - i) eqn:En; lia).
  rewrite get_in by lia. destruct (bget b p =? 34).
  { simpl. split; [lia|]. split; [good|]. split; [mono|]. split; [lia|].
    rewrite app_length, Nat2Z.inj_add, take_z_length; lia. }
  pose proof (string_escape_spost b c0 p ltac:(lia) ltac:(auto)) as Q.
  destruct (string_escape b c0 p) as [c2 q code| |]; simpl in Q; try contradiction. destruct Q as (? & ? & ?).
  destruct (q =? blen b) eqn:Eq.
  { simpl. split; [lia|]. split; [good|]. split; [mono|]. split; [lia|].
    rewrite app_length, Nat2Z.inj_add, take_z_length; lia. }
  destruct ((n - k <? Z.of_nat (length code)) && negb (has_flag c2 JF_skip_array_overflow)).
  { simpl. split; [lia|]. split; [good|]. split; [mono|]. split; [lia|].
    rewrite app_length, Nat2Z.inj_add, take_z_length; lia. }
  set (k2 := if n - k <? Z.of_nat (length code) then n - k else Z.of_nat (length code)).
  assert (Hk2 : 0 <= k2 <= Z.of_nat (length code) /\ k2 <= n - k)
    by (subst k2; destruct (n - k <? Z.of_nat (length code)) eqn:En; lia).
  specialize (IHfuel b c2 q (n - k - k2) ((acc ++ take_z k s) ++ take_z k2 code) ltac:(lia) ltac:(auto) ltac:(lia) ltac:(lia)).
  destruct (char_array_loop fuel b c2 q (n - k - k2) ((acc ++ take_z k s) ++ take_z k2 code)) as [c3 r [[acc3 n3] fin3]| |];
    simpl in IHfuel; try contradiction.
  destruct IHfuel as (? & ? & ? & ? & HL). simpl.
  split; [lia|]. split; [assumption|]. split; [mono|]. split; [lia|].
  rewrite !app_length, !Nat2Z.inj_add, !take_z_length in HL by lia. lia.
Qed.

Lemma char_array_post b c i n : 0 <= i <= blen b -> cgood b c -> 0 <= n ->
  post b c i (char_array b c i n) /\
  match char_array b c i n with Ok _ _ v => Z.of_nat (length v) <= n | _ => True end.
Proof.
  intros Hi Hc Hn. unfold char_array. call. destruct (p =? blen b) eqn:Ep.
  - destruct (negb (n =? 0) && has_flag c0 JF_reject_array_underflow).
    + split; [fin|simpl; lia].
    + call. split; [fin|]. rewrite repeat_length. lia.
  - pose proof (char_array_loop_ok (scan_fuel b p) b c0 p n [] ltac:(lia) ltac:(auto) (scan_fuel_gt b p) Hn) as Q.
    destruct (char_array_loop (scan_fuel b p) b c0 p n []) as [c2 q [[acc n1] fin1]| |]; simpl in Q; try contradiction.
    destruct Q as (? & ? & ? & ? & HL).
    destruct (negb fin1); [split; [fin|lia]|].
    destruct (negb (n1 =? 0) && has_flag c2 JF_reject_array_underflow).
    + split; [fin|lia].
    + call. split; [fin|]. rewrite app_length, repeat_length. lia.
Qed.


(* ------------------------------------------------------------------ the code as it stands: two unguarded reads *)
Definition in_dot : buf := of_list [49; 46].                          (* 1.  *)
Definition in_colon : buf := of_list [123; 34; 97; 34; 58].           (* {"a":  *)
Definition in_arr_dot : buf := of_list [91; 49; 46].                  (* [1.  *)

Lemma number_dot_at_end_refuted :
  exists b, observe (number_current b (ctx_init 0) 0) = SOob /\ observe (generic_json_current b (ctx_init 0) 0) = SOob.
Proof. exists in_dot. split; vm_compute; reflexivity. Qed.
Lemma generic_after_colon_refuted :
  exists b, observe (generic_json_current b (ctx_init 0) 0) = SOob.
Proof. exists in_colon. vm_compute; reflexivity. Qed.
Lemma fixed_on_witnesses :
  observe (number in_dot (ctx_init 0) 0) = SErr JE_invalid_numeric 2 /\
  observe (generic_json in_dot (ctx_init 0) 0) = SErr JE_invalid_numeric 2 /\
  observe (generic_json in_colon (ctx_init 0) 0) = SErr JE_unbalanced_object 5 /\
  observe (generic_json in_arr_dot (ctx_init 0) 0) = SErr JE_invalid_numeric 3.
Proof. repeat split; vm_compute; reflexivity. Qed.

(* the two added guards change nothing else: the code as it stands either performs the out-of-bounds read
   or behaves exactly like the guarded code *)
Lemma get_out b i : ~ (0 <= i < blen b) -> get b i = None.
Proof. intros. unfold get, rd8, inb. destruct ((0 <=? i) && (i + 1 <=? blen b)) eqn:E; [lia|reflexivity]. Qed.

Definition same_or_oob {A} (cur fixed : res A) : Prop := cur = Oob \/ cur = fixed.

Lemma num_frac_cur b c p : 0 <= p <= blen b -> same_or_oob (num_frac false b c p) (num_frac true b c p).
Proof.
  intros. unfold same_or_oob, num_frac. destruct (p =? blen b) eqn:E; [auto|].
  rewrite get_in by lia. destruct (bget b p =? 46); [|auto]. cbn [andb].
  destruct (p + 1 =? blen b) eqn:E1; [|auto]. left. rewrite get_out by lia. reflexivity.
Qed.
Lemma lpost_digits_le b i : 0 <= i <= blen b -> forall p, digits (scan_fuel b i) b i = LAt p -> i <= p <= blen b.
Proof. intros Hi p Hp. pose proof (digits_post b i Hi) as Q. rewrite Hp in Q. exact Q. Qed.
Lemma num_int_cur b c j : 0 <= j < blen b -> same_or_oob (num_int false b c j) (num_int true b c j).
Proof.
  intros. unfold num_int. rewrite get_in by lia.
  destruct (bget b j =? 48); [apply num_frac_cur; lia|].
  destruct (negb ((49 <=? bget b j) && (bget b j <=? 57))); [right; reflexivity|].
  destruct (digits (scan_fuel b (j + 1)) b (j + 1)) eqn:D; try (right; reflexivity).
  apply num_frac_cur. pose proof (lpost_digits_le b (j + 1) ltac:(lia) p D). lia.
Qed.
Lemma number_cur b c i : 0 <= i <= blen b -> same_or_oob (number_current b c i) (number b c i).
Proof.
  intros. unfold number_current, number, number_gen. destruct (i =? blen b) eqn:E; [right; reflexivity|].
  rewrite get_in by lia. destruct (bget b i =? 45); [|apply num_int_cur; lia].
  destruct (i + 1 =? blen b) eqn:E1; [right; reflexivity|]. apply num_int_cur; lia.
Qed.

Lemma gvalue_cur b c0 j st recc recf : 0 <= j <= blen b -> cgood b c0 ->
  (forall c1 p st1 lbl, 0 <= p <= blen b -> cgood b c1 -> same_or_oob (recc c1 p st1 lbl) (recf c1 p st1 lbl)) ->
  same_or_oob (gvalue false recc b c0 j st) (gvalue true recf b c0 j st).
Proof.
  intros Hj Hc Hrec. unfold gvalue. cbn [andb]. destruct (j =? blen b) eqn:E.
  { left. rewrite get_out by lia. reflexivity. }
  rewrite get_in by lia.
  destruct (bget b j =? 34).
  { pose proof (gstring_spost b c0 j ltac:(lia) Hc) as Q.
    destruct (gstring b c0 j); simpl in Q; try contradiction. apply Hrec; [lia|tauto]. }
  destruct ((bget b j =? 45) || is_digit (bget b j)).
  { pose proof (number_spost b c0 j ltac:(lia) Hc) as Q. unfold number in Q.
    destruct (number_cur b c0 j ltac:(lia)) as [O|O]; unfold number_current, number in O; rewrite O; [left; reflexivity|].
    destruct (number_gen true b c0 j); simpl in Q; try contradiction. apply Hrec; [lia|tauto]. }
  destruct ((bget b j =? 91) || (bget b j =? 123)).
  { destruct (Z.of_nat (length st) =? JSON_GENERIC_MAX_NEST); [right; reflexivity|].
    destruct (spush (if bget b j =? 91 then RBRACKET else RBRACE) st); [|right; reflexivity].
    pose proof (space_post b c0 (j + 1) ltac:(lia) Hc) as Q.
    destruct (space b c0 (j + 1)); simpl in Q; try contradiction.
    destruct (p =? blen b) eqn:Ep; [apply Hrec; [lia|tauto]|].
    rewrite get_in by lia.
    destruct (bget b p =? (if bget b j =? 91 then RBRACKET else RBRACE)); apply Hrec; try lia; tauto. }
  pose proof (skip_constant_post b c0 j ltac:(lia) Hc) as Q.
  destruct (skip_constant b c0 j); simpl in Q; try contradiction.
  destruct (p =? j); [right; reflexivity|]. apply Hrec; [lia|tauto].
Qed.

Lemma generic_go_cur : forall fuel b c i st lbl, 0 <= i <= blen b -> cgood b c ->
  same_or_oob (generic_go false fuel b c i st lbl) (generic_go true fuel b c i st lbl).
Proof.
  induction fuel; intros b c i st lbl Hi Hc; [right; reflexivity|]. cbn [generic_go].
  assert (Hrec : forall c1 p st1 lbl1, 0 <= p <= blen b -> cgood b c1 ->
     same_or_oob (generic_go false fuel b c1 p st1 lbl1) (generic_go true fuel b c1 p st1 lbl1))
    by (intros; apply IHfuel; auto).
  destruct lbl.
  - destruct (i =? blen b) eqn:E; [right; reflexivity|].
    destruct st as [|t st']; [apply gvalue_cur; auto|].
    destruct (t =? RBRACE); [|apply gvalue_cur; auto].
    destruct (gkey_post b c i ltac:(lia) Hc) as (P & Q).
    destruct (gkey b c i) as [c4 p4 k| |]; simpl in P; try contradiction.
    destruct k as [j|]; [|right; reflexivity]. destruct Q as (-> & ?). apply gvalue_cur; auto; [lia|tauto].
  - destruct st as [|t st']; [right; reflexivity|].
    destruct (i =? blen b) eqn:E; [right; reflexivity|].
    assert (P : post b c i (if t =? RBRACKET then array_end b c i else object_end b c i))
      by (destruct (t =? RBRACKET); apply delim_end_post; auto).
    destruct (if t =? RBRACKET then array_end b c i else object_end b c i) as [c1 p more| |]; simpl in P; try contradiction.
    destruct more; apply Hrec; try lia; tauto.
Qed.
Lemma generic_json_cur b c i : 0 <= i <= blen b -> cgood b c ->
  same_or_oob (generic_json_current b c i) (generic_json b c i).
Proof. intros. apply generic_go_cur; auto. Qed.

(* ------------------------------------------------------------------ statements in terms of what a caller observes *)
Definition safe {A} (b : buf) (c : pctx) (i : Z) (r : res A) : Prop :=
  exists c' p v, r = Ok c' p v                              (* returns: every read was in bounds, the fuel sufficed *)
    /\ i <= p <= blen b                                      (* returned position inside [i, end] *)
    /\ 0 <= cerrloc c' <= blen b                             (* error location inside the input *)
    /\ cflags c' = cflags c
    /\ (cerr c <> 0 -> cerr c' = cerr c /\ cerrloc c' = cerrloc c).   (* first error wins *)
Definition progress {A} (i : Z) (r : res A) : Prop := match r with Ok _ p _ => i < p | _ => False end.

Lemma post_safe {A} b c i (r : res A) : post b c i r -> safe b c i r.
Proof.
  destruct r as [c' p v| |]; simpl; [|tauto|tauto]. intros (? & G & F & M).
  exists c', p, v. unfold cgood in G. repeat split; auto; try lia; apply M; auto.
Qed.
Lemma spost_progress {A} b c i (r : res A) : spost b c i r -> progress i r.
Proof. destruct r; simpl; tauto. Qed.

Definition obs_ok {A} (b : buf) (i : Z) (o : sres A) : Prop :=
  match o with SOk p _ => i <= p <= blen b | SErr _ loc => 0 <= loc <= blen b | SOob => False | SFuel => False end.
Lemma safe_obs {A} b c i (r : res A) : safe b c i r -> obs_ok b i (observe r).
Proof. intros (c' & p & v & -> & ? & ? & _). simpl. destruct (cerr c' =? 0); simpl; lia. Qed.
Lemma cgood_init b flags : 0 <= blen b -> cgood b (ctx_init flags).
Proof. unfold cgood, ctx_init; simpl. lia. Qed.

(* ------------------------------------------------------------------ the modelled scanner functions as one family *)
Definition erase {A} (r : res A) : res unit :=
  match r with Ok c p _ => Ok c p tt | Oob => Oob | Fuel => Fuel end.
Definition scanner := buf -> pctx -> Z -> res unit.
Definition scanners : list scanner :=
  [ (fun b c i => erase (space b c i)); (fun b c i => erase (space_ext b c i));
    (fun b c i => erase (string_start b c i)); (fun b c i => erase (string_part b c i));
    (fun b c i => erase (string_end b c i)); (fun b c i => erase (string_escape b c i));
    (fun b c i => erase (symbol_start b c i)); (fun b c i => erase (symbol_end b c i));
    (fun b c i => erase (skip_constant b c i)); (fun b c i => erase (number b c i));
    (fun b c i => erase (integer b c i)); (fun b c i => erase (uint8 b c i)); (fun b c i => erase (bool_ b c i));
    (fun b c i => erase (none b c i));
    (fun b c i => erase (object_start b c i)); (fun b c i => erase (object_end b c i));
    (fun b c i => erase (array_start b c i)); (fun b c i => erase (array_end b c i));
    (fun b c i => erase (generic_json b c i)); (fun b c i => erase (unmatched_symbol b c i));
    (fun b c i => erase (build_string b c i)) ].
(* functions with a compile-time offset argument *)
Definition matchers (pos : Z) : list scanner :=
  [ (fun b c i => erase (match_symbol b c i pos)); (fun b c i => erase (match_type_suffix b c i pos));
    (fun b c i => erase (match_constant b c i pos)) ].

Lemma erase_post {A} b c i (r : res A) : post b c i r -> post b c i (erase r).
Proof. destruct r; simpl; auto. Qed.
Lemma erase_observe_oob {A} (r : res A) : observe (erase r) = SOob <-> r = Oob.
Proof. destruct r; simpl; try (destruct (cerr c =? 0)); split; congruence. Qed.

Lemma scanners_post : forall f, In f scanners -> forall b c i, 0 <= i <= blen b -> cgood b c -> post b c i (f b c i).
Proof.
  intros f Hf b c i Hi Hc. unfold scanners in Hf. simpl in Hf.
  repeat (destruct Hf as [<-|Hf]; [apply erase_post; first
    [ apply space_post | apply space_ext_post | apply string_start_post | apply string_part_post | apply string_end_post
    | apply string_escape_post | apply symbol_start_post | apply symbol_end_post | apply skip_constant_post
    | apply number_post | apply integer_post | apply uint8_post | apply bool_post | apply none_post
    | apply delim_start_post | apply delim_end_post | apply generic_json_post | apply unmatched_symbol_post
    | apply build_string_post ]; auto|]).
  contradiction.
Qed.
Lemma scanners_safe : forall f, In f scanners -> forall b c i, 0 <= i <= blen b -> 0 <= cerrloc c <= blen b -> safe b c i (f b c i).
Proof. intros. apply post_safe, scanners_post; auto. Qed.

Lemma matchers_safe : forall pos f, 0 <= pos -> In f (matchers pos) ->
  forall b c i, 0 <= i <= blen b -> 0 <= cerrloc c <= blen b -> safe b c i (f b c i).
Proof.
  intros pos f Hp Hf b c i Hi Hc. apply post_safe. simpl in Hf.
  repeat (destruct Hf as [<-|Hf]; [apply erase_post; first
    [apply match_symbol_post | apply match_type_suffix_post | apply match_constant_post]; auto|]).
  contradiction.
Qed.

Lemma lookahead_safe : forall b i pos, 0 <= i <= blen b -> 0 <= pos ->
  (exists w, symbol_part b i = Some w) /\
  (exists p, match_scope b i pos = Some p /\ i <= p <= blen b) /\
  (exists p, null b i = Some p /\ i <= p <= blen b).
Proof. intros. split; [apply symbol_part_in; auto|]. split; [apply match_scope_in; auto|apply null_in; auto]. Qed.

Lemma char_array_safe : forall b c i n, 0 <= i <= blen b -> 0 <= cerrloc c <= blen b -> 0 <= n ->
  safe b c i (char_array b c i n) /\
  (forall c' p v, char_array b c i n = Ok c' p v -> Z.of_nat (length v) <= n).
Proof.
  intros b c i n Hi Hc Hn. destruct (char_array_post b c i n Hi Hc Hn) as (P & L).
  split; [apply post_safe; exact P|]. intros c' p v E. rewrite E in L. exact L.
Qed.

(* corollaries about what a caller observes from a freshly initialised context *)
Lemma scan_obs_ok : forall f, In f scanners -> forall b flags i, 0 <= i <= blen b -> obs_ok b i (observe (f b (ctx_init flags) i)).
Proof. intros. eapply safe_obs. apply scanners_safe; auto. simpl. lia. Qed.

Lemma scan_no_oob : forall f, In f scanners -> forall b flags i, 0 <= i <= blen b -> observe (f b (ctx_init flags) i) <> SOob.
Proof. intros f Hf b flags i Hi E. pose proof (scan_obs_ok f Hf b flags i Hi) as O. rewrite E in O. exact O. Qed.
Lemma scan_no_fuel : forall f, In f scanners -> forall b flags i, 0 <= i <= blen b -> observe (f b (ctx_init flags) i) <> SFuel.
Proof. intros f Hf b flags i Hi E. pose proof (scan_obs_ok f Hf b flags i Hi) as O. rewrite E in O. exact O. Qed.
Lemma error_loc_in_input : forall f, In f scanners -> forall b flags i code loc, 0 <= i <= blen b ->
  observe (f b (ctx_init flags) i) = SErr code loc -> 0 <= loc <= blen b.
Proof. intros f Hf b flags i code loc Hi E. pose proof (scan_obs_ok f Hf b flags i Hi) as O. rewrite E in O. exact O. Qed.
Lemma result_pos_in_input : forall f, In f scanners -> forall b flags i p v, 0 <= i <= blen b ->
  observe (f b (ctx_init flags) i) = SOk p v -> i <= p <= blen b.
Proof. intros f Hf b flags i p v Hi E. pose proof (scan_obs_ok f Hf b flags i Hi) as O. rewrite E in O. exact O. Qed.

(* the explicit fuel: 2 * remaining + 2 iterations of the two labels suffice, whatever the nesting *)
Lemma generic_json_terminates : forall b c i fuel, 0 <= i <= blen b -> 0 <= cerrloc c <= blen b ->
  Z.of_nat fuel >= 2 * (blen b - i) + 2 ->
  exists c' p, generic_go true fuel b c i [] GAgain = Ok c' p tt /\ i <= p <= blen b.
Proof.
  intros b c i fuel Hi Hc Hf.
  pose proof (generic_go_ok fuel b c i [] GAgain Hi Hc) as P.
  destruct (generic_go true fuel b c i [] GAgain) as [c' p []| |]; simpl in P.
  - exists c', p. split; [reflexivity|]. apply P; [unfold MAXN, JSON_GENERIC_MAX_NEST; simpl; lia|unfold gphi; lia].
  - exfalso. apply P; [unfold MAXN, JSON_GENERIC_MAX_NEST; simpl; lia|unfold gphi; lia].
  - exfalso. apply P; [unfold MAXN, JSON_GENERIC_MAX_NEST; simpl; lia|unfold gphi; lia].
Qed.

Lemma scan_progress : forall b c i, 0 <= i < blen b -> 0 <= cerrloc c <= blen b ->
  progress i (string_start b c i) /\ progress i (string_escape b c i) /\ progress i (number b c i) /\
  progress i (gstring b c i) /\ progress i (array_end b c i) /\ progress i (object_end b c i).
Proof.
  intros. repeat split; eapply spost_progress;
    first [apply string_start_spost | apply string_escape_spost | apply number_spost | apply gstring_spost | apply delim_end_spost]; auto.
Qed.

Lemma first_error_wins : forall c loc e, cerr c <> 0 -> set_error c loc e = c.
Proof. intros. unfold set_error. destruct (cerr c =? 0) eqn:E; [lia|reflexivity]. Qed.
Lemma set_error_records : forall c loc e, cerr c = 0 -> cerr (set_error c loc e) = e /\ cerrloc (set_error c loc e) = loc.
Proof. intros c loc e H. unfold set_error. rewrite H. simpl. auto. Qed.

Lemma fix_is_conservative : forall b c i, 0 <= i <= blen b -> 0 <= cerrloc c <= blen b ->
  (number_current b c i = Oob \/ number_current b c i = number b c i) /\
  (generic_json_current b c i = Oob \/ generic_json_current b c i = generic_json b c i).
Proof. intros. split; [apply number_cur; auto|apply generic_json_cur; auto]. Qed.

Lemma hyps_satisfiable : exists b c i, 0 <= i <= blen b /\ 0 <= cerrloc c <= blen b /\ blen b = 5.
Proof. exists in_colon, (ctx_init 3), 2. vm_compute. intuition congruence. Qed.
