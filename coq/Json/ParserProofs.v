(* C04 (parser layer): lemmas about Json/ParserModel.v.
   1. every run of the table-parser model returns (no read outside the input, the fuel [parser_fuel] suffices), positions and
      error locations stay inside the input;
   2. a successful run issues only well-typed build calls: the script it returns satisfies Builder/Script.wt_script for
      the schema [to_schema PS], with the returned value tree and depth bound;
   3. the depth bound is below the level limit the parser runs the builder with. *)
From Flatcc.Json Require Import Scanner ScannerProofs ParserModel.
From Flatcc.Builder Require Import VMem Objects OffVec Buffer Script.
From Coq Require Import ZifyBool Znumtheory.
Local Open Scope Z_scope.
Ltac Zify.zify_post_hook ::= Z.div_mod_to_equations.

(* ------------------------------------------------------------------ schema side conditions (decidable) *)
Definition sty_okb (ty : sty) : bool :=
  ((st_size ty =? 1) || (st_size ty =? 2) || (st_size ty =? 4) || (st_size ty =? 8)) && (negb (st_bool ty) || (st_size ty =? 1)).
Definition pkind_okb (k : pkind) : bool :=
  match k with PScalar ty _ => sty_okb ty | PVecScalar ty => sty_okb ty | _ => true end.
Definition pfield_okb (fd : pfield) : bool :=
  (0 <=? pf_id fd) && (pf_id fd <? 32765) && negb (lenZ (pf_name fd) =? 0) && pkind_okb (pf_kind fd).
Fixpoint nodupb (l : list Z) : bool :=
  match l with [] => true | x :: r => negb (existsb (Z.eqb x) r) && nodupb r end.
Definition ptable_okb (flds : list pfield) : bool :=
  forallb pfield_okb flds && nodupb (map pf_id flds) && (Z.of_nat (length flds) <=? 32765).
Definition pschema_okb (PS : pschema) : bool := forallb ptable_okb PS.

Definition sty_ok (ty : sty) : Prop := sty_okb ty = true.

(* contract of the abstracted scalar parser *)
Definition sp_ok (sp : scalar_parser) : Prop :=
  forall ty b c i, sty_ok ty -> 0 <= i <= blen b -> cgood b c ->
    post b c i (sp ty b c i) /\ (forall c' p l, sp ty b c i = Ok c' p (SBytes l) -> lenZ l = st_size ty).

Lemma nodupb_NoDup l : nodupb l = true -> NoDup l.
Proof.
  induction l as [|x r IH]; cbn [nodupb]; intros H; [constructor|].
  apply andb_true_iff in H. destruct H as [H1 H2]. constructor; [|auto].
  intros Hin. apply negb_true_iff in H1. rewrite <- not_true_iff_false in H1. apply H1.
  apply existsb_exists. exists x. split; [assumption|lia].
Qed.

(* ------------------------------------------------------------------ the concrete integer / bool instance *)
Lemma le_bytes_length n x : length (le_bytes n x) = n.
Proof. revert x. induction n; intros; cbn [le_bytes length]; [reflexivity|]. rewrite IHn. reflexivity. Qed.

Lemma coerce_post ty b c p sign v i : i <= p <= blen b -> 0 <= i -> cgood b c -> post b c i (coerce ty b c p sign v).
Proof.
  intros. unfold coerce. cbv zeta.
  repeat match goal with |- context [if ?x then _ else _] => destruct x end;
    first [apply post_ok; [lia|assumption|apply cmono_refl] | apply post_fail; [lia|lia|assumption|apply cmono_refl]].
Qed.

Lemma coerce_len ty b c p sign v c' p' l : 0 <= st_size ty ->
  coerce ty b c p sign v = Ok c' p' (SBytes l) -> lenZ l = st_size ty.
Proof.
  intros Hs. unfold coerce, fail. cbv zeta.
  repeat match goal with |- context [if ?x then _ else _] => destruct x end;
    intros E; inversion E; subst; unfold lenZ; rewrite le_bytes_length; lia.
Qed.

Lemma sp_int_ok : sp_ok sp_int.
Proof.
  intros ty b c i Hty Hi Hc. unfold sty_ok, sty_okb in Hty. unfold sp_int.
  destruct (i =? blen b) eqn:Ei.
  { split; [apply post_ok; [lia|assumption|apply cmono_refl]|intros; discriminate]. }
  destruct (st_bool ty) eqn:Eb.
  - pose proof (bool_post b c i Hi Hc) as Q.
    destruct (bool_ b c i) as [c1 p v| |]; simpl in Q; try contradiction. destruct Q as (? & ? & ?).
    destruct (p =? i); (split; [apply post_ok; [lia|assumption|assumption]|]); intros c' p' l E; inversion E; subst.
    unfold lenZ. cbn [length]. lia.
  - pose proof (integer_post b c i Hi Hc) as Q.
    destruct (integer b c i) as [c1 p v| |]; simpl in Q; try contradiction. destruct Q as (? & ? & ?).
    destruct (p =? i); [split; [apply post_ok; [lia|assumption|assumption]|intros; discriminate]|].
    destruct (negb (cerr c1 =? 0)); [split; [apply post_ok; [lia|assumption|assumption]|intros; discriminate]|].
    split.
    + eapply post_chain; [| |apply coerce_post]; [apply Z.le_refl|eassumption|lia|lia|assumption].
    + intros c' p' l E. apply coerce_len in E; [assumption|lia].
Qed.

(* ------------------------------------------------------------------ progress of the delimiters *)
Lemma space_ge b c i : 0 <= i <= blen b -> cgood b c ->
  match space b c i with Ok c' p _ => i <= p <= blen b /\ cgood b c' /\ cmono c c' | _ => False end.
Proof. intros. exact (space_post b c i H H0). Qed.

(* an opened object / array has consumed its bracket *)
Lemma delim_start_progress o cl e b c i c' p v : e <> 0 -> 0 <= i <= blen b -> cgood b c -> cerr c = 0 ->
  delim_start o cl e b c i = Ok c' p v -> cerr c' = 0 -> i < p.
Proof.
  intros Hne Hi Hc He. unfold delim_start, fail.
  destruct (i =? blen b) eqn:E1.
  { intros E; inversion E; subst. unfold set_error. rewrite He. cbn. intros; lia. }
  rewrite get_in by lia. destruct (negb (bget b i =? o)).
  { intros E; inversion E; subst. unfold set_error. rewrite He. cbn. intros; lia. }
  pose proof (space_post b c (i + 1) ltac:(lia) Hc) as Q.
  destruct (space b c (i + 1)) as [c1 p1 u| |]; simpl in Q; try contradiction. destruct Q as (? & ? & ?).
  destruct (p1 =? blen b) eqn:?; [intros E; inversion E; subst; lia|].
  rewrite get_in by lia. destruct (bget b p1 =? cl).
  - pose proof (space_post b c1 (p1 + 1) ltac:(lia) ltac:(assumption)) as Q.
    destruct (space b c1 (p1 + 1)) as [c2 p2 u2| |]; simpl in Q; try contradiction. destruct Q as (? & ? & ?).
    intros E; inversion E; subst; lia.
  - intros E; inversion E; subst; lia.
Qed.

(* `more` after an element means a comma was consumed *)
Lemma delim_end_progress cl e b c i c' p : 0 <= i <= blen b -> cgood b c ->
  delim_end cl e b c i = Ok c' p true -> i < p.
Proof.
  intros Hi Hc. unfold delim_end, fail.
  pose proof (space_post b c i Hi Hc) as Q.
  destruct (space b c i) as [c1 p1 u| |]; simpl in Q; try contradiction. destruct Q as (? & ? & ?).
  destruct (p1 =? blen b) eqn:?; [intros E; inversion E|].
  rewrite get_in by lia. destruct (negb (bget b p1 =? 44)).
  - destruct (negb (bget b p1 =? cl)); [intros E; inversion E|].
    destruct (space b c1 (p1 + 1)); intros E; inversion E.
  - pose proof (space_post b c1 (p1 + 1) ltac:(lia) ltac:(assumption)) as Q.
    destruct (space b c1 (p1 + 1)) as [c2 p2 u2| |]; simpl in Q; try contradiction. destruct Q as (? & ? & ?).
    destruct (p2 =? blen b) eqn:?; [intros E; inversion E|].
    rewrite get_in by lia. destruct (bget b p2 =? cl).
    + destruct (space b c2 (p2 + 1)); intros E; inversion E.
    + intros E; inversion E; subst; lia.
Qed.

Lemma NoDup_app_snoc {A} (l : list A) x : NoDup l -> ~ In x l -> NoDup (l ++ [x]).
Proof.
  induction l as [|y r IH]; cbn [app]; intros Hn Hx; [constructor; [intros []|constructor]|].
  inversion Hn; subst. constructor.
  - intros Hin. apply in_app_or in Hin. destruct Hin as [Hin|[->|[]]]; [contradiction|]. apply Hx. left; reflexivity.
  - apply IH; [assumption|]. intros Hin. apply Hx. right; assumption.
Qed.

Lemma Forall2_in_l {A B} (R : A -> B -> Prop) l1 l2 a : Forall2 R l1 l2 -> In a l1 -> exists y, In y l2 /\ R a y.
Proof.
  induction 1; intros Hin; [destruct Hin|]. destruct Hin as [<-|Hin].
  - eexists; split; [left; reflexivity|assumption].
  - destruct (IHForall2 Hin) as (y' & ? & ?). exists y'. split; [right; assumption|assumption].
Qed.

(* ------------------------------------------------------------------ good results *)
Section Good.
Variable b : buf.

(* the call returned: not OOB, not out of fuel; a success is at a position in [lo, end] without error and satisfies Q;
   an error location is inside the input *)
Definition rgood {A} (lo : Z) (Q : pctx -> Z -> list cmd -> A -> Prop) (r : pres A) : Prop :=
  match r with
  | POk c p s v => lo <= p <= blen b /\ cgood b c /\ cerr c = 0 /\ Q c p s v
  | PErr e l => 0 <= l <= blen b /\ e <> 0
  | PStop w => w = W_OUT
  end.

Lemma rgood_mono {A} lo lo' (Q Q' : pctx -> Z -> list cmd -> A -> Prop) r :
  rgood lo Q r -> lo' <= lo -> (forall c p s v, lo <= p <= blen b -> Q c p s v -> Q' c p s v) -> rgood lo' Q' r.
Proof. destruct r; simpl; intros H Hl HQ; [|assumption|assumption]. destruct H as (? & ? & ? & ?). split; [lia|]. split; [assumption|]. split; [assumption|]. apply HQ; [lia|assumption]. Qed.

Lemma lift_good {A B} (r : res A) (k : pctx -> Z -> A -> pres B) c i lo Q :
  post b c i r ->
  (forall c' p v, r = Ok c' p v -> i <= p <= blen b -> cgood b c' -> cmono c c' -> cerr c' = 0 -> rgood lo Q (k c' p v)) ->
  rgood lo Q (lift r k).
Proof.
  intros Hp Hk. destruct r as [c' p v| |]; simpl in Hp; try contradiction. destruct Hp as (? & ? & ?).
  unfold lift. destruct (cerr c' =? 0) eqn:E; [apply Hk; auto; lia|].
  simpl. unfold cgood in *. split; lia.
Qed.

Lemma failed_good {A} lo (Q : pctx -> Z -> list cmd -> A -> Prop) p : 0 <= p <= blen b -> rgood lo Q (failed p).
Proof. intros. simpl. unfold JE_runtime. split; lia. Qed.

(* ------------------------------------------------------------------ typing environment of the script built so far *)
Variable PS : pschema.
Variable maxlvl : Z.
Let Sc := to_schema PS.

Definition entry_of (ty : oty) (v : value) (d : nat) : entry := {| en_ty := ty; en_val := v; en_depth := d |}.
Definition inv (s : list cmd) (G : env) : Prop := wt_cmds Sc [] s G /\ length G = length s.
Definition ext (G G' : env) : Prop := exists D, G' = G ++ D.

Lemma ext_refl G : ext G G.
Proof. exists []. rewrite app_nil_r. reflexivity. Qed.
Lemma ext_trans G1 G2 G3 : ext G1 G2 -> ext G2 G3 -> ext G1 G3.
Proof. intros [D1 ->] [D2 ->]. exists (D1 ++ D2). rewrite app_assoc. reflexivity. Qed.
Lemma lookup_ext G G' r e : ext G G' -> lookup G r = Some e -> lookup G' r = Some e.
Proof.
  intros [D ->]. unfold lookup. destruct (nth_error G r) eqn:E; [|discriminate].
  rewrite nth_error_app1; [rewrite E; auto|]. apply nth_error_Some. congruence.
Qed.
Lemma wt_cmds_snoc G0 l G1 c G2 : wt_cmds Sc G0 l G1 -> wt_cmd Sc G1 c G2 -> wt_cmds Sc G0 (l ++ [c]) G2.
Proof.
  induction 1; intros Hc; cbn [app].
  - econstructor; [eassumption|constructor].
  - econstructor; [eassumption|auto].
Qed.
Lemma inv_snoc s G c ty v d : inv s G -> wt_cmd Sc G c (G ++ [mk ty v d]) ->
  inv (s ++ [c]) (G ++ [mk ty v d]) /\ lookup (G ++ [mk ty v d]) (length s) = Some (entry_of ty v d) /\ ext G (G ++ [mk ty v d]).
Proof.
  intros [Hw Hl] Hc. split; [split|split].
  - eapply wt_cmds_snoc; eassumption.
  - rewrite !app_length. cbn. lia.
  - unfold lookup. rewrite nth_error_app2 by lia. rewrite Hl, Nat.sub_diag. reflexivity.
  - eexists; reflexivity.
Qed.
Lemma inv_nil : inv [] [].
Proof. split; [constructor|reflexivity]. Qed.

(* one table_add / table_add_offset call, well typed for field f with value v (Script.wt_field without the membership) *)
Inductive add_wt (G : env) (n : nat) (f : field) : targ -> value -> Prop :=
| AW_scalar size al bytes : fk f = FScalar size al -> add_wt G n f (TInline (fid f) size al bytes) (VBytes bytes)
| AW_string r v k : fk f = FString -> lookup G r = Some (entry_of OString v k) -> (k <= n)%nat ->
    add_wt G n f (TOffset (fid f) r) v
| AW_vector es al mc r elems k : fk f = FVector es al mc -> lookup G r = Some (entry_of (OVec es al) (VVec elems) k) -> (k <= n)%nat ->
    Z.of_nat (length elems) <= mc -> add_wt G n f (TOffset (fid f) r) (VVec elems)
| AW_strvec r v k : fk f = FStringVec -> lookup G r = Some (entry_of OStrVec v k) -> (k <= n)%nat ->
    add_wt G n f (TOffset (fid f) r) v
| AW_table t r v k : fk f = FTable t -> lookup G r = Some (entry_of (OTable t) v k) -> (k <= n)%nat ->
    add_wt G n f (TOffset (fid f) r) v
| AW_tabvec t r v k : fk f = FTableVec t -> lookup G r = Some (entry_of (OTabVec t) v k) -> (k <= n)%nat ->
    add_wt G n f (TOffset (fid f) r) v.

Lemma add_wt_mono G G' n n' f a v : add_wt G n f a v -> ext G G' -> (n <= n')%nat -> add_wt G' n' f a v.
Proof.
  intros H He Hn. inversion H; subst.
  - eapply AW_scalar; eauto.
  - eapply AW_string; eauto using lookup_ext; lia.
  - eapply AW_vector; eauto using lookup_ext; lia.
  - eapply AW_strvec; eauto using lookup_ext; lia.
  - eapply AW_table; eauto using lookup_ext; lia.
  - eapply AW_tabvec; eauto using lookup_ext; lia.
Qed.

Lemma add_wt_field G n ads f a v : add_wt G n f a v -> In a ads -> wt_field Sc G n ads f (Some v).
Proof.
  intros H Hin. inversion H; subst.
  - eapply WF_scalar; eauto.
  - eapply WF_string; eauto.
  - eapply WF_vector; eauto.
  - eapply WF_strvec; eauto.
  - eapply WF_table; eauto.
  - eapply WF_tabvec; eauto.
Qed.

Lemma add_wt_id G n f a v : add_wt G n f a v -> ParserModel.targ_id a = fid f.
Proof. intros H; inversion H; reflexivity. Qed.

(* the frame of a table under construction: the adds so far are distinct, well formed and each is well typed for a
   declared field; L = the builder level of the table frame *)
Definition pair_ok (G : env) (n : nat) (flds : list pfield) (a : targ) (iv : Z * value) : Prop :=
  fst iv = ParserModel.targ_id a /\ exists fd, In fd flds /\ add_wt G n (to_field fd) a (snd iv).
Definition fr_ok (G : env) (flds : list pfield) (L : Z) (fr : tframe) : Prop :=
  Forall2 (pair_ok G (dmax fr) flds) (adds fr) (vals fr) /\
  NoDup (map ParserModel.targ_id (adds fr)) /\ Forall targ_wf (adds fr) /\ Z.of_nat (dmax fr) + L <= maxlvl.

Lemma fr_ok_0 G flds L : L <= maxlvl -> fr_ok G flds L frame0.
Proof. intros. unfold fr_ok, frame0; cbn. repeat split; [constructor|constructor|constructor|lia]. Qed.

Lemma Forall2_pair_mono G G' n n' flds l1 l2 : Forall2 (pair_ok G n flds) l1 l2 -> ext G G' -> (n <= n')%nat ->
  Forall2 (pair_ok G' n' flds) l1 l2.
Proof.
  induction 1; intros; constructor; auto.
  destruct H as (? & fd & ? & ?). split; [assumption|]. exists fd. split; [assumption|]. eapply add_wt_mono; eauto.
Qed.

Lemma fr_ok_ext G G' flds L fr : fr_ok G flds L fr -> ext G G' -> fr_ok G' flds L fr.
Proof. intros (H1 & H2 & H3 & H4) He. repeat split; auto. eapply Forall2_pair_mono; eauto. Qed.

Lemma has_id_false id ads : has_id id ads = false -> ~ In id (map ParserModel.targ_id ads).
Proof.
  unfold has_id. intros H Hin. apply in_map_iff in Hin. destruct Hin as (a & Ha & Hin).
  assert (existsb (fun a => ParserModel.targ_id a =? id) ads = true); [|congruence].
  apply existsb_exists. exists a. split; [assumption|lia].
Qed.
Lemma has_id_true id ads : has_id id ads = true -> In id (map ParserModel.targ_id ads).
Proof.
  unfold has_id. intros H. apply existsb_exists in H. destruct H as (a & Hin & E).
  apply in_map_iff. exists a. split; [lia|assumption].
Qed.

Lemma fr_ok_add G G' flds L fr fd a v d :
  fr_ok G flds L fr -> ext G G' -> In fd flds -> has_id (pf_id fd) (adds fr) = false ->
  add_wt G' d (to_field fd) a v -> targ_wf a -> Z.of_nat d + L <= maxlvl ->
  fr_ok G' flds L (frame_add fr a v d).
Proof.
  intros (H1 & H2 & H3 & H4) He Hin Hid Ha Hwf Hd. unfold fr_ok, frame_add; cbn [adds vals dmax].
  pose proof (add_wt_id _ _ _ _ _ Ha) as Eid. cbn [to_field fid] in Eid.
  repeat split.
  - apply Forall2_app.
    + eapply Forall2_pair_mono; eauto. lia.
    + constructor; [|constructor]. split; [reflexivity|]. exists fd. split; [assumption|]. cbn [snd].
      eapply add_wt_mono; [eassumption|apply ext_refl|lia].
  - rewrite map_app. cbn [map]. apply NoDup_app_snoc; [assumption|]. rewrite Eid. apply has_id_false. assumption.
  - apply Forall_app. split; [assumption|constructor; [assumption|constructor]].
  - lia.
Qed.

(* ------------------------------------------------------------------ strings *)
Definition Qstr (G : env) : pctx -> Z -> list cmd -> nat * list Z -> Prop :=
  fun _ _ s' rt => exists G', ext G G' /\ inv s' G' /\ lookup G' (fst rt) = Some (entry_of OString (VString (snd rt)) 0).

Lemma string_ok G s t : inv s G -> Qstr G (ctx_init 0) 0 (s ++ [CString t]) (length s, t).
Proof.
  intros Hi. destruct (inv_snoc s G (CString t) OString (VString t) 0%nat Hi (WT_string Sc G t)) as (H1 & H2 & H3).
  exists (G ++ [mk OString (VString t) 0]). cbn [fst snd]. auto.
Qed.

Lemma pstring_good lvl c i s G : 0 <= i <= blen b -> cgood b c -> inv s G ->
  rgood i (Qstr G) (pstring maxlvl lvl b c i s).
Proof.
  intros Hi Hc HI. unfold pstring.
  eapply lift_good; [apply string_start_post; assumption|]. intros c1 m _ _ Hm Hc1 _ _.
  eapply lift_good; [apply string_part_post; [lia|assumption]|]. intros c2 p _ _ Hp Hc2 _ He2.
  destruct (slice_in b m p) as (t0 & -> & _); [lia|lia|lia|].
  assert (Hfin : forall c3 q t, m <= q <= blen b -> cgood b c3 -> cerr c3 = 0 ->
            rgood i (Qstr G) (POk c3 q (s ++ [CString t]) (length s, t))).
  { intros c3 q t Hq Hc3 He3. simpl. split; [lia|]. split; [assumption|]. split; [assumption|]. apply (string_ok G s t HI). }
  destruct (p =? blen b) eqn:Ep.
  - destruct (maxlvl <? lvl + 1); [apply failed_good; lia|].
    eapply lift_good; [apply build_string_loop_ok; [lia|assumption|apply scan_fuel_gt]|]. intros c3 q text _ Hq Hc3 _ _.
    eapply lift_good; [apply string_end_post; [lia|assumption]|]. intros c4 r _ _ Hr Hc4 _ He4. apply Hfin; [lia|assumption|assumption].
  - rewrite get_in by lia. destruct (bget b p =? 34).
    + eapply lift_good; [apply string_end_post; [lia|assumption]|]. intros c3 q _ _ Hq Hc3 _ He3. apply Hfin; [lia|assumption|assumption].
    + destruct (maxlvl <? lvl + 1); [apply failed_good; lia|].
      eapply lift_good; [apply build_string_loop_ok; [lia|assumption|apply scan_fuel_gt]|]. intros c3 q text _ Hq Hc3 _ _.
      eapply lift_good; [apply string_end_post; [lia|assumption]|]. intros c4 r _ _ Hr Hc4 _ He4. apply Hfin; [lia|assumption|assumption].
Qed.

(* ------------------------------------------------------------------ vectors of scalars / strings *)
Variable sp : scalar_parser.
Hypothesis Hsp : sp_ok sp.

Lemma sty_size ty : sty_ok ty -> st_size ty = 1 \/ st_size ty = 2 \/ st_size ty = 4 \/ st_size ty = 8.
Proof. unfold sty_ok, sty_okb. lia. Qed.
Lemma sty_pow2 ty : sty_ok ty -> pow2 (st_size ty).
Proof.
  intros H. destruct (sty_size ty H) as [E|[E|[E|E]]]; rewrite E;
    [exists 0|exists 1|exists 2|exists 3]; (split; [lia|reflexivity]).
Qed.
Lemma count_max_ok ty : sty_ok ty -> count_max (st_size ty) * st_size ty <= U32_MAX /\ 0 <= count_max (st_size ty).
Proof. intros H. unfold count_max, U32_MAX. destruct (sty_size ty H) as [E|[E|[E|E]]]; rewrite E; lia. Qed.

Definition Qscal (ty : sty) (s : list cmd) : pctx -> Z -> list cmd -> list (list Z) -> Prop :=
  fun _ _ s' es => s' = s /\ Forall (fun e => lenZ e = st_size ty) es /\ Z.of_nat (length es) <= count_max (st_size ty).

Lemma pscalvec_good ty : sty_ok ty -> forall fuel c i s elems, 0 <= i <= blen b -> cgood b c -> Z.of_nat fuel > blen b - i ->
  Forall (fun e => lenZ e = st_size ty) elems -> rgood i (Qscal ty s) (pscalvec fuel sp ty b c i s elems).
Proof.
  intros Hty. induction fuel; intros c i s elems Hi Hc Hf Hel; [lia|]. cbn [pscalvec].
  destruct (count_max (st_size ty) <? Z.of_nat (length elems) + 1) eqn:Ec; [apply failed_good; lia|].
  destruct (Hsp ty b c i Hty Hi Hc) as [Hpost Hlen].
  eapply lift_good; [exact Hpost|]. intros c1 p sv Esv Hp Hc1 _ He1.
  destruct sv as [bytes| |]; [|apply failed_good; lia|reflexivity].
  eapply lift_good; [apply delim_end_post; [lia|assumption]|]. intros c2 q more Em Hq Hc2 _ He2.
  assert (Hel' : Forall (fun e => lenZ e = st_size ty) (elems ++ [bytes])).
  { apply Forall_app. split; [assumption|]. constructor; [|constructor]. eapply Hlen; eassumption. }
  destruct more.
  - apply delim_end_progress in Em; [|lia|assumption].
    eapply rgood_mono; [apply IHfuel; [lia|assumption|lia|exact Hel']|lia|auto].
  - simpl. split; [lia|]. split; [assumption|]. split; [assumption|]. split; [reflexivity|]. split; [assumption|].
    rewrite app_length. cbn [length]. lia.
Qed.

Definition Qstrvec (G : env) : pctx -> Z -> list cmd -> list nat * list value -> Prop :=
  fun _ _ s' rv => exists G', ext G G' /\ inv s' G' /\
    Forall2 (fun r v => lookup G' r = Some (entry_of OString v 0)) (fst rv) (snd rv).

Lemma Forall2_snoc {A B} (R : A -> B -> Prop) l1 l2 x y : Forall2 R l1 l2 -> R x y -> Forall2 R (l1 ++ [x]) (l2 ++ [y]).
Proof. intros. apply Forall2_app; [assumption|constructor; [assumption|constructor]]. Qed.
Lemma Forall2_impl {A B} (R R' : A -> B -> Prop) l1 l2 : (forall x y, R x y -> R' x y) -> Forall2 R l1 l2 -> Forall2 R' l1 l2.
Proof. induction 2; constructor; auto. Qed.

Lemma pstrvec_good lvl : forall fuel c i s rs vs G, 0 <= i <= blen b -> cgood b c -> Z.of_nat fuel > blen b - i ->
  inv s G -> Forall2 (fun r v => lookup G r = Some (entry_of OString v 0)) rs vs ->
  rgood i (Qstrvec G) (pstrvec fuel maxlvl lvl b c i s rs vs).
Proof.
  induction fuel; intros c i s rs vs G Hi Hc Hf HI Hrs; [lia|]. cbn [pstrvec].
  pose proof (pstring_good lvl c i s G Hi Hc HI) as Hs.
  destruct (pstring maxlvl lvl b c i s) as [c1 p s1 [r text]|e l|w]; [|exact Hs|exact Hs].
  simpl in Hs. destruct Hs as (Hp & Hc1 & He1 & G1 & Hx1 & HI1 & Hl1). cbn [fst snd] in Hl1.
  assert (Hrs' : Forall2 (fun r v => lookup G1 r = Some (entry_of OString v 0)) (rs ++ [r]) (vs ++ [VString text])).
  { apply Forall2_snoc; [|assumption]. eapply Forall2_impl; [|exact Hrs]. intros x y Hxy. eapply lookup_ext; eassumption. }
  eapply lift_good; [apply delim_end_post; [lia|assumption]|]. intros c2 q more Em Hq Hc2 _ He2.
  destruct more.
  - apply delim_end_progress in Em; [|lia|assumption].
    eapply rgood_mono; [apply (IHfuel c2 q s1 _ _ G1); [lia|assumption|lia|assumption|exact Hrs']|lia|].
    intros c' p' s' v _ (G' & Hx & HI' & HF). exists G'. split; [eapply ext_trans; eassumption|auto].
  - simpl. split; [lia|]. split; [assumption|]. split; [assumption|]. exists G1. cbn [fst snd]. auto.
Qed.

(* ------------------------------------------------------------------ one member value *)
Definition Qfr (G : env) (flds : list pfield) (L : Z) : pctx -> Z -> list cmd -> tframe -> Prop :=
  fun _ _ s' fr' => exists G', ext G G' /\ inv s' G' /\ fr_ok G' flds L fr'.
Definition Qtab (G : env) (t : nat) (lvl : Z) : pctx -> Z -> list cmd -> nat * value * nat -> Prop :=
  fun _ _ s' x => exists G', ext G G' /\ inv s' G' /\
    lookup G' (fst (fst x)) = Some (entry_of (OTable t) (snd (fst x)) (snd x)) /\ Z.of_nat (snd x) + lvl <= maxlvl.
Definition Qvec (G : env) (t : nat) (lvl : Z) : pctx -> Z -> list cmd -> list nat * list value * nat -> Prop :=
  fun _ _ s' x => exists G', ext G G' /\ inv s' G' /\
    Forall2 (fun r v => exists k, lookup G' r = Some (entry_of (OTable t) v k) /\ (k <= snd x)%nat) (fst (fst x)) (snd (fst x)) /\
    Z.of_nat (snd x) + lvl <= maxlvl.

Lemma pfield_ok_facts fd : pfield_okb fd = true ->
  0 <= pf_id fd < 32765 /\ 0 < lenZ (pf_name fd) /\ pkind_okb (pf_kind fd) = true.
Proof.
  unfold pfield_okb. intros H. repeat (apply andb_true_iff in H; destruct H as [H ?]).
  split; [lia|]. split; [|assumption]. unfold lenZ in *. lia.
Qed.

Lemma offset_wf id r : 0 <= id < 32765 -> targ_wf (TOffset id r).
Proof.
  intros. unfold targ_wf. cbn. split; [lia|]. split; [lia|]. split; [exists 2; split; [lia|reflexivity]|]. split; [lia|exact I].
Qed.

Lemma add_offset_good G G' flds L fr fd r v d lo c p s' :
  fr_ok G flds L fr -> ext G G' -> inv s' G' -> In fd flds -> pfield_okb fd = true ->
  add_wt G' d (to_field fd) (TOffset (pf_id fd) r) v -> Z.of_nat d + L <= maxlvl ->
  0 <= lo <= blen b -> lo <= p <= blen b -> cgood b c -> cerr c = 0 ->
  rgood lo (Qfr G flds L) (add_offset fr (pf_id fd) r v d p (fun fr1 => POk c p s' fr1)).
Proof.
  intros Hfr Hx HI Hin Hok Ha Hd Hlo Hp Hc He. unfold add_offset.
  destruct (has_id (pf_id fd) (adds fr)) eqn:Eid; [apply failed_good; lia|].
  simpl. split; [lia|]. split; [assumption|]. split; [assumption|]. exists G'. split; [assumption|]. split; [assumption|].
  eapply fr_ok_add; eauto. apply offset_wf. apply (pfield_ok_facts fd Hok).
Qed.

Lemma pvalue_good rec_table rec_tabvec fd L c i s fr G flds :
  (forall t c' i' s' G', i <= i' <= blen b -> cgood b c' -> cerr c' = 0 -> inv s' G' -> rgood (i' + 1) (Qtab G' t L) (rec_table t L c' i' s')) ->
  (forall t c' i' s' G', i + 1 <= i' <= blen b -> cgood b c' -> cerr c' = 0 -> inv s' G' -> L + 1 <= maxlvl ->
       rgood i' (Qvec G' t (L + 1)) (rec_tabvec t (L + 1) c' i' s' [] [] O)) ->
  0 <= i <= blen b -> cgood b c -> cerr c = 0 -> inv s G -> In fd flds -> pfield_okb fd = true -> fr_ok G flds L fr ->
  rgood i (Qfr G flds L) (pvalue sp maxlvl rec_table rec_tabvec fd L b c i s fr).
Proof.
  intros Hrt Hrv Hi Hc He HI Hin Hok Hfr.
  destruct (pfield_ok_facts fd Hok) as (Hid & Hnm & Hk).
  assert (HL : Z.of_nat 0 + L <= maxlvl) by (destruct Hfr as (_ & _ & _ & ?); lia).
  unfold pvalue. destruct (pf_kind fd) as [ty dflt| |ty| |t|t] eqn:Ek; cbn [pkind_okb] in Hk.
  - (* scalar *)
    destruct (Hsp ty b c i Hk Hi Hc) as [Hpost Hlen].
    eapply lift_good; [exact Hpost|]. intros c1 p sv Esv Hp Hc1 _ He1.
    destruct sv as [bytes| |]; [|apply failed_good; lia|reflexivity].
    destruct (list_eqb bytes dflt && negb (has_flag c1 JF_force_add)).
    { simpl. split; [lia|]. split; [assumption|]. split; [assumption|]. exists G. split; [apply ext_refl|auto]. }
    destruct (has_id (pf_id fd) (adds fr)) eqn:Eid; [apply failed_good; lia|].
    simpl. split; [lia|]. split; [assumption|]. split; [assumption|]. exists G. split; [apply ext_refl|]. split; [assumption|].
    eapply fr_ok_add; [eassumption|apply ext_refl|eassumption|assumption| | |lia].
    + apply (AW_scalar G 0%nat (to_field fd) (st_size ty) (st_size ty) bytes). cbn [to_field fk]. rewrite Ek. reflexivity.
    + unfold targ_wf. cbn. pose proof (sty_size ty Hk). split; [lia|]. split; [lia|]. split; [apply sty_pow2; assumption|].
      split; [lia|]. eapply Hlen; eassumption.
  - (* string *)
    pose proof (pstring_good L c i s G Hi Hc HI) as Hs.
    destruct (pstring maxlvl L b c i s) as [c1 p s1 [r text]|e l|w]; [|exact Hs|exact Hs].
    simpl in Hs. destruct Hs as (Hp & Hc1 & He1 & G1 & Hx1 & HI1 & Hl1). cbn [fst snd] in Hl1.
    eapply add_offset_good; eauto.
    eapply AW_string; [cbn [to_field fk]; rewrite Ek; reflexivity|eassumption|lia].
  - (* vector of scalars *)
    destruct (maxlvl <? L + 1); [apply failed_good; lia|].
    eapply lift_good; [apply delim_start_post; assumption|]. intros c1 p more Em Hp Hc1 _ He1.
    assert (Hfin : forall c2 q elems, i <= q <= blen b -> cgood b c2 -> cerr c2 = 0 ->
              Forall (fun e => lenZ e = st_size ty) elems -> Z.of_nat (length elems) <= count_max (st_size ty) ->
              rgood i (Qfr G flds L)
                (add_offset fr (pf_id fd) (length s) (VVec elems) 0 q
                   (fun fr1 => POk c2 q (s ++ [CVector (st_size ty) (st_size ty) (count_max (st_size ty)) (Z.of_nat (length elems)) (concat elems)]) fr1))).
    { intros c2 q elems Hq Hc2 He2 Hel Hcnt.
      assert (Hw : wt_cmd Sc G (CVector (st_size ty) (st_size ty) (count_max (st_size ty)) (Z.of_nat (length elems)) (concat elems))
                     (G ++ [mk (OVec (st_size ty) (st_size ty)) (VVec elems) 0])).
      { apply WT_vector; [apply sty_pow2; assumption| |assumption|apply count_max_ok; assumption].
        pose proof (sty_size ty Hk). unfold U32_MAX. lia. }
      destruct (inv_snoc s G _ _ _ _ HI Hw) as (HI1 & Hl1 & Hx1).
      eapply add_offset_good; eauto.
      eapply AW_vector; [cbn [to_field fk]; rewrite Ek; reflexivity|eassumption|lia|assumption]. }
    destruct more.
    + pose proof (pscalvec_good ty Hk (scan_fuel b p) c1 p s [] ltac:(lia) Hc1 (scan_fuel_gt b p) (Forall_nil _)) as Hv.
      destruct (pscalvec (scan_fuel b p) sp ty b c1 p s []) as [c2 q s2 elems|e l|w]; [|exact Hv|exact Hv].
      simpl in Hv. destruct Hv as (Hq & Hc2 & He2 & _ & Hel & Hcnt). apply Hfin; auto. lia.
    + apply Hfin; auto. cbn. apply count_max_ok; assumption.
  - (* vector of strings *)
    destruct (maxlvl <? L + 1); [apply failed_good; lia|].
    eapply lift_good; [apply delim_start_post; assumption|]. intros c1 p more Em Hp Hc1 _ He1.
    assert (Hfin : forall c2 q s1 rs vs G1, i <= q <= blen b -> cgood b c2 -> cerr c2 = 0 -> ext G G1 -> inv s1 G1 ->
              Forall2 (fun r v => lookup G1 r = Some (entry_of OString v 0)) rs vs ->
              rgood i (Qfr G flds L)
                (add_offset fr (pf_id fd) (length s1) (VOffVec vs) 0 q (fun fr1 => POk c2 q (s1 ++ [COffVec rs]) fr1))).
    { intros c2 q s1 rs vs G1 Hq Hc2 He2 Hx1 HI1 Hrs.
      assert (Hw : wt_cmd Sc G1 (COffVec rs) (G1 ++ [mk (offvec_ty OString) (VOffVec vs) 0])).
      { apply WT_offvec; [left; reflexivity|]. eapply Forall2_impl; [|exact Hrs]. intros x y Hxy. exists 0%nat. split; [exact Hxy|lia]. }
      destruct (inv_snoc s1 G1 _ _ _ _ HI1 Hw) as (HI2 & Hl2 & Hx2).
      eapply add_offset_good; [eassumption|eapply ext_trans; eassumption|eassumption|eassumption|assumption| |lia|lia|lia|assumption|assumption].
      eapply AW_strvec; [cbn [to_field fk]; rewrite Ek; reflexivity|exact Hl2|lia]. }
    destruct more.
    + pose proof (pstrvec_good (L + 1) (scan_fuel b p) c1 p s [] [] G ltac:(lia) Hc1 (scan_fuel_gt b p) HI (Forall2_nil _)) as Hv.
      destruct (pstrvec (scan_fuel b p) maxlvl (L + 1) b c1 p s [] []) as [c2 q s1 [rs vs]|e l|w]; [|exact Hv|exact Hv].
      simpl in Hv. destruct Hv as (Hq & Hc2 & He2 & G1 & Hx1 & HI1 & Hrs). cbn [fst snd] in Hrs. eapply Hfin; eauto. lia.
    + eapply Hfin; eauto using ext_refl; try lia; try constructor.
  - (* table *)
    pose proof (Hrt t c i s G ltac:(lia) Hc He HI) as Hs.
    destruct (rec_table t L c i s) as [c1 p s1 [[r v] d]|e l|w]; [|exact Hs|exact Hs].
    simpl in Hs. destruct Hs as (Hp & Hc1 & He1 & G1 & Hx1 & HI1 & Hl1 & Hd). cbn [fst snd] in Hl1, Hd.
    eapply add_offset_good; eauto; [|lia].
    eapply AW_table; [cbn [to_field fk]; rewrite Ek; reflexivity|eassumption|lia].
  - (* vector of tables *)
    destruct (maxlvl <? L + 1) eqn:EL; [apply failed_good; lia|].
    eapply lift_good; [apply delim_start_post; assumption|]. intros c1 p more Em Hp Hc1 _ He1.
    assert (Hfin : forall c2 q s1 rs vs d G1, i <= q <= blen b -> cgood b c2 -> cerr c2 = 0 -> ext G G1 -> inv s1 G1 ->
              Forall2 (fun r v => exists k, lookup G1 r = Some (entry_of (OTable t) v k) /\ (k <= d)%nat) rs vs ->
              Z.of_nat d + L <= maxlvl ->
              rgood i (Qfr G flds L)
                (add_offset fr (pf_id fd) (length s1) (VOffVec vs) d q (fun fr1 => POk c2 q (s1 ++ [COffVec rs]) fr1))).
    { intros c2 q s1 rs vs d G1 Hq Hc2 He2 Hx1 HI1 Hrs Hd.
      assert (Hw : wt_cmd Sc G1 (COffVec rs) (G1 ++ [mk (offvec_ty (OTable t)) (VOffVec vs) d])).
      { apply WT_offvec; [right; exists t; reflexivity|exact Hrs]. }
      destruct (inv_snoc s1 G1 _ _ _ _ HI1 Hw) as (HI2 & Hl2 & Hx2).
      eapply add_offset_good; [eassumption|eapply ext_trans; eassumption|eassumption|eassumption|assumption| |lia|lia|lia|assumption|assumption].
      eapply AW_tabvec; [cbn [to_field fk]; rewrite Ek; reflexivity|exact Hl2|lia]. }
    destruct more.
    + assert (Hpp : i < p) by (eapply (delim_start_progress 91 93 JE_expected_array); [unfold JE_expected_array; lia|exact Hi|exact Hc|exact He|exact Em|exact He1]).
      pose proof (Hrv t c1 p s G ltac:(lia) Hc1 He1 HI ltac:(lia)) as Hv.
      destruct (rec_tabvec t (L + 1) c1 p s [] [] 0%nat) as [c2 q s1 [[rs vs] d]|e l|w]; [|exact Hv|exact Hv].
      simpl in Hv. destruct Hv as (Hq & Hc2 & He2 & G1 & Hx1 & HI1 & Hrs & Hd). cbn [fst snd] in Hrs, Hd.
      eapply Hfin; eauto; lia.
    + eapply Hfin; eauto using ext_refl; try lia; try constructor.
Qed.

(* ------------------------------------------------------------------ end of a table *)
Lemma place_end_eq ads : forall off, place_end ads off = tplace_end ads off.
Proof. induction ads as [|a r IH]; intros off; cbn [place_end tplace_end]; [reflexivity|]. rewrite IH. destruct a; reflexivity. Qed.

Lemma Forall2_fst G n flds ads vs : Forall2 (pair_ok G n flds) ads vs -> map fst vs = map ParserModel.targ_id ads.
Proof. induction 1; cbn [map]; [reflexivity|]. destruct H as [-> _]. rewrite IHForall2. reflexivity. Qed.

Lemma assocZ_none {A} k (l : list (Z * A)) : assocZ k l = None -> ~ In k (map fst l).
Proof.
  induction l as [|[k' a] r IH]; cbn [assocZ map fst]; intros H; [intros []|].
  destruct (k =? k') eqn:E; [discriminate|]. intros [Hk|Hin]; [lia|]. exact (IH H Hin).
Qed.

Lemma assocZ_some G n flds k : forall ads vs v, Forall2 (pair_ok G n flds) ads vs -> assocZ k vs = Some v ->
  exists a, In a ads /\ ParserModel.targ_id a = k /\ exists fd, In fd flds /\ add_wt G n (to_field fd) a v.
Proof.
  induction 1 as [|a [k' v'] ads vs Hp HF IH]; cbn [assocZ]; [discriminate|].
  destruct (k =? k') eqn:E.
  - intros [= ->]. destruct Hp as (Hk & fd & Hin & Ha). cbn [fst snd] in *. exists a. split; [left; reflexivity|]. split; [lia|eauto].
  - intros H. destruct (IH H) as (a' & Hin & R). exists a'. split; [right; assumption|assumption].
Qed.

Lemma nodup_inj (flds : list pfield) fd fd' : NoDup (map pf_id flds) -> In fd flds -> In fd' flds -> pf_id fd = pf_id fd' -> fd = fd'.
Proof.
  induction flds as [|x r IH]; cbn [map]; intros Hn H1 H2 E; [destruct H1|].
  inversion Hn as [|? ? Hnin Hn']; subst.
  destruct H1 as [<-|H1], H2 as [<-|H2]; [reflexivity| | |auto].
  - exfalso. apply Hnin. rewrite E. apply in_map. assumption.
  - exfalso. apply Hnin. rewrite <- E. apply in_map. assumption.
Qed.

Lemma wt_fields_build G n ads vs flds : Forall2 (pair_ok G n flds) ads vs -> NoDup (map pf_id flds) ->
  forall sub, incl sub flds -> required_ok sub ads = true ->
  wt_fields Sc G n ads (map to_field sub) (order_vals sub vs).
Proof.
  intros HF Hnd. induction sub as [|fd r IH]; intros Hincl Hreq; cbn [map]; [constructor|].
  unfold order_vals. cbn [flat_map]. fold (order_vals r vs).
  cbn [required_ok forallb] in Hreq. apply andb_true_iff in Hreq. destruct Hreq as [Hr1 Hr2]. fold (required_ok r ads) in Hr2.
  assert (Hin : In fd flds) by (apply Hincl; left; reflexivity).
  assert (Hincl' : incl r flds) by (intros x Hx; apply Hincl; right; assumption).
  destruct (assocZ (pf_id fd) vs) as [v|] eqn:Ea; cbn [app].
  - destruct (assocZ_some G n flds _ _ _ _ HF Ea) as (a & Hina & Hid & fd' & Hin' & Ha).
    assert (fd' = fd).
    { apply (nodup_inj flds); auto. pose proof (add_wt_id _ _ _ _ _ Ha) as E. cbn [to_field fid] in E. lia. }
    subst fd'. apply (WFS_present Sc G n ads (to_field fd)); [eapply add_wt_field; eassumption|auto].
  - apply WFS_absent; [|auto]. pose proof (assocZ_none _ _ Ea) as Hno. rewrite (Forall2_fst _ _ _ _ _ HF) in Hno.
    apply WF_absent.
    + intros a Hina E. apply Hno. apply in_map_iff. exists a. split; [|assumption]. cbn [to_field fid] in E. destruct a; exact E.
    + cbn [to_field fk]. destruct (pf_kind fd); exact I.
    + cbn [to_field frequired]. destruct (pf_req fd); [|reflexivity]. cbn [negb orb] in Hr1.
      exfalso. apply Hno. apply has_id_true. exact Hr1.
Qed.

Hypothesis HPS : pschema_okb PS = true.

Lemma table_ok t flds : nth_error PS t = Some flds ->
  Forall (fun fd => pfield_okb fd = true) flds /\ NoDup (map pf_id flds) /\ Z.of_nat (length flds) <= 32765.
Proof.
  intros E. apply nth_error_In in E. unfold pschema_okb in HPS. rewrite forallb_forall in HPS. specialize (HPS _ E).
  unfold ptable_okb in HPS. apply andb_true_iff in HPS. destruct HPS as [H12 H3]. apply andb_true_iff in H12. destruct H12 as [H1 H2].
  split; [apply Forall_forall; rewrite forallb_forall in H1; exact H1|]. split; [apply nodupb_NoDup; exact H2|lia].
Qed.

Lemma tfinish_good t flds c q s fr G L lo : nth_error PS t = Some flds -> inv s G -> fr_ok G flds L fr ->
  0 <= q -> lo <= q <= blen b -> cgood b c -> cerr c = 0 ->
  rgood lo (Qtab G t (L - 1)) (tfinish flds c q s fr).
Proof.
  intros Et HI (HF & Hnd & Hwf & Hd) Hq0 Hq Hc He. destruct (table_ok t flds Et) as (Hfo & Hndf & Hlen).
  unfold tfinish. destruct (negb (required_ok flds (adds fr))) eqn:Er; [simpl; unfold JE_required; split; lia|].
  destruct (65535 <? place_end (adds fr) 0 + 4) eqn:Es; [reflexivity|].
  apply negb_false_iff in Er.
  assert (Hw : wt_cmd Sc G (CTable (adds fr)) (G ++ [mk (OTable t) (VTable (order_vals flds (vals fr))) (S (dmax fr))])).
  { apply (WT_table Sc G (adds fr) t (map to_field flds)).
    - exact Hwf.
    - assert (length (map ParserModel.targ_id (adds fr)) <= length (map pf_id flds))%nat.
      { apply NoDup_incl_length; [exact Hnd|]. intros x Hx. apply in_map_iff in Hx. destruct Hx as (a & <- & Hina).
        destruct (Forall2_in_l _ _ _ _ HF Hina) as (iv & _ & _ & fd & Hin & Ha).
        pose proof (add_wt_id _ _ _ _ _ Ha) as E. cbn [to_field fid] in E. rewrite E. apply in_map. exact Hin. }
      rewrite !map_length in H. lia.
    - rewrite <- place_end_eq. lia.
    - unfold table_fields, Sc, to_schema. cbn [tables]. apply map_nth_error. exact Et.
    - apply (wt_fields_build G (dmax fr) (adds fr) (vals fr) flds HF Hndf flds); [apply incl_refl|exact Er]. }
  destruct (inv_snoc s G _ _ _ _ HI Hw) as (HI1 & Hl1 & Hx1).
  simpl. split; [lia|]. split; [assumption|]. split; [assumption|].
  eexists. split; [exact Hx1|]. split; [exact HI1|]. split; [exact Hl1|]. cbn [snd]. lia.
Qed.

(* ------------------------------------------------------------------ name dispatch *)
Lemma find_field_spec c i : forall flds fd r, find_field flds b c i = Some (fd, r) ->
  In fd flds /\ r = match_symbol b c i (lenZ (pf_name fd)) /\ (forall c' p u, r = Ok c' p u -> p <> i).
Proof.
  induction flds as [|x rest IH]; cbn [find_field]; intros fd r; [discriminate|].
  assert (Hrec : find_field rest b c i = Some (fd, r) ->
            In fd (x :: rest) /\ r = match_symbol b c i (lenZ (pf_name fd)) /\ (forall c' p u, r = Ok c' p u -> p <> i)).
  { intros H. destruct (IH _ _ H) as (? & ? & ?). split; [right; assumption|auto]. }
  destruct (name_at b i (pf_name x)); [|exact Hrec].
  destruct (match_symbol b c i (lenZ (pf_name x))) as [c' p u| |] eqn:Em.
  - destruct (p =? i) eqn:Ep; [exact Hrec|]. intros [= <- <-]. split; [left; reflexivity|]. split; [auto|].
    intros c2 p2 u2 [= <- <- <-]. lia.
  - intros [= <- <-]. split; [left; reflexivity|]. split; [auto|]. intros; discriminate.
  - intros [= <- <-]. split; [left; reflexivity|]. split; [auto|]. intros; discriminate.
Qed.

(* ------------------------------------------------------------------ the table parser *)
Notation ptable' := (ptable sp maxlvl PS b).
Notation pfields' := (pfields sp maxlvl PS b).
Notation ptabvec' := (ptabvec sp maxlvl PS b).

Lemma ptabvec_S f t lvl c i s rs vs d :
  ptabvec' (S f) t lvl c i s rs vs d =
  match ptable' f t lvl c i s with
  | PErr e l => PErr e l
  | PStop w => PStop w
  | POk c1 p s1 (r, v, d1) =>
    lift (array_end b c1 p) (fun c2 q more =>
    if more then ptabvec' f t lvl c2 q s1 (rs ++ [r]) (vs ++ [v]) (Nat.max d d1)
    else POk c2 q s1 (rs ++ [r], vs ++ [v], Nat.max d d1))
  end.
Proof. reflexivity. Qed.

Definition elems_ok (G : env) (t : nat) (d : nat) (rs : list nat) (vs : list value) : Prop :=
  Forall2 (fun r v => exists k, lookup G r = Some (entry_of (OTable t) v k) /\ (k <= d)%nat) rs vs.

Lemma parser_main : forall fuel,
  (forall t lvl c i s G, Z.of_nat fuel >= 2 * (blen b - i) + 2 -> 0 <= i <= blen b -> cgood b c -> cerr c = 0 -> inv s G ->
     rgood (i + 1) (Qtab G t lvl) (ptable' fuel t lvl c i s)) /\
  (forall t flds L c i s fr G, Z.of_nat fuel >= 2 * (blen b - i) + 1 -> 0 <= i <= blen b -> cgood b c -> cerr c = 0 -> inv s G ->
     nth_error PS t = Some flds -> fr_ok G flds L fr ->
     rgood i (Qtab G t (L - 1)) (pfields' fuel flds L c i s fr)) /\
  (forall t lvl c i s rs vs d G, Z.of_nat fuel >= 2 * (blen b - i) + 3 -> 0 <= i <= blen b -> cgood b c -> cerr c = 0 -> inv s G ->
     elems_ok G t d rs vs -> Z.of_nat d + lvl <= maxlvl ->
     rgood i (Qvec G t lvl) (ptabvec' fuel t lvl c i s rs vs d)).
Proof.
  induction fuel as [|f IH].
  { split; [|split]; intros; lia. }
  destruct IH as (IHt & IHf & IHv).
  split; [|split].
  - (* ptable *)
    intros t lvl c i s G Hf Hi Hc He HI. cbn [ptable].
    destruct (nth_error PS t) as [flds|] eqn:Et; [|reflexivity].
    destruct (maxlvl <? lvl + 1) eqn:EL; [apply failed_good; lia|].
    eapply lift_good; [apply delim_start_post; assumption|]. intros c1 p more Em Hp Hc1 _ He1.
    assert (Hpp : i < p) by (eapply (delim_start_progress 123 125 JE_expected_object); [unfold JE_expected_object; lia|exact Hi|exact Hc|exact He|exact Em|exact He1]).
    destruct more.
    + eapply rgood_mono; [apply (IHf t flds (lvl + 1) c1 p s frame0 G); auto; [lia|lia|apply fr_ok_0; lia]|lia|].
      intros c' p' s' v _ (G' & ? & ? & ? & ?). exists G'. split; [assumption|]. split; [assumption|]. split; [assumption|]. lia.
    + eapply rgood_mono; [apply (tfinish_good t flds c1 p s frame0 G (lvl + 1) p); auto; [apply fr_ok_0; lia|lia|lia]|lia|].
      intros c' p' s' v _ (G' & ? & ? & ? & ?). exists G'. split; [assumption|]. split; [assumption|]. split; [assumption|]. lia.
  - (* pfields *)
    intros t flds L c i s fr G Hf Hi Hc He HI Et Hfr. cbn [pfields].
    eapply lift_good; [apply symbol_start_post; assumption|]. intros c1 p1 _ _ Hp1 Hc1 _ He1. cbv zeta.
    assert (Hnext : forall r, rgood p1 (Qfr G flds L) r ->
              rgood i (Qtab G t (L - 1))
                (match r with
                 | POk c3 p3 s3 fr3 =>
                   lift (object_end b c3 p3) (fun c4 p4 more => if more then pfields' f flds L c4 p4 s3 fr3 else tfinish flds c4 p4 s3 fr3)
                 | PErr e l => PErr e l
                 | PStop w => PStop w
                 end)).
    { intros r Hr. destruct r as [c3 p3 s3 fr3|e l|w]; [|exact Hr|exact Hr].
      simpl in Hr. destruct Hr as (Hp3 & Hc3 & He3 & G3 & Hx3 & HI3 & Hfr3).
      assert (HQ : forall c' p' s' v, Qtab G3 t (L - 1) c' p' s' v -> Qtab G t (L - 1) c' p' s' v).
      { intros c' p' s' v (G' & ? & ? & ? & ?). exists G'. split; [eapply ext_trans; eassumption|auto]. }
      eapply lift_good; [apply delim_end_post; [lia|assumption]|]. intros c4 p4 more Em Hp4 Hc4 _ He4.
      destruct more.
      - apply delim_end_progress in Em; [|lia|assumption].
        eapply rgood_mono; [apply (IHf t flds L c4 p4 s3 fr3 G3); auto; lia|lia|]. intros; apply HQ; assumption.
      - eapply rgood_mono; [apply (tfinish_good t flds c4 p4 s3 fr3 G3 L p4); auto; lia|lia|]. intros; apply HQ; assumption. }
    destruct (find_field flds b c1 p1) as [[fd r]|] eqn:Eff.
    + apply Hnext. destruct (find_field_spec c1 p1 _ _ _ Eff) as (Hin & -> & Hne).
      destruct (table_ok t flds Et) as (Hfo & _ & _). rewrite Forall_forall in Hfo. pose proof (Hfo _ Hin) as Hok.
      destruct (pfield_ok_facts fd Hok) as (_ & Hnm & _).
      eapply lift_good; [apply match_symbol_post; [lia|lia|assumption]|]. intros c2 p2 u Em Hp2 Hc2 _ He2.
      specialize (Hne _ _ _ Em).
      eapply rgood_mono; [apply (pvalue_good (ptable' f) (ptabvec' f) fd L c2 p2 s fr G flds); auto|lia|auto].
      * intros t' c' i' s' G' Hi' Hc' He' HI'. apply IHt; auto; lia.
      * intros t' c' i' s' G' Hi' Hc' He' HI' HL. apply IHv; auto; try lia; constructor.
      * lia.
    + apply Hnext. eapply lift_good; [apply unmatched_symbol_post; [lia|assumption]|]. intros c2 p2 u Em Hp2 Hc2 _ He2.
      simpl. split; [lia|]. split; [assumption|]. split; [assumption|]. exists G. split; [apply ext_refl|auto].
  - (* ptabvec *)
    intros t lvl c i s rs vs d G Hf Hi Hc He HI Hrs Hd. rewrite ptabvec_S.
    pose proof (IHt t lvl c i s G ltac:(lia) Hi Hc He HI) as Ht.
    destruct (ptable' f t lvl c i s) as [c1 p s1 [[r v] d1]|e l|w]; [|exact Ht|exact Ht].
    simpl in Ht. destruct Ht as (Hp & Hc1 & He1 & G1 & Hx1 & HI1 & Hl1 & Hd1). cbn [fst snd] in Hl1, Hd1.
    assert (Hrs' : elems_ok G1 t (Nat.max d d1) (rs ++ [r]) (vs ++ [v])).
    { apply Forall2_snoc.
      - eapply Forall2_impl; [|exact Hrs]. intros x y (k & Hk & Hkd). exists k. split; [eapply lookup_ext; eassumption|lia].
      - exists d1. split; [assumption|lia]. }
    eapply lift_good; [apply delim_end_post; [lia|assumption]|]. intros c2 q more Em Hq Hc2 _ He2.
    destruct more.
    + apply delim_end_progress in Em; [|lia|assumption].
      eapply rgood_mono; [apply (IHv t lvl c2 q s1 _ _ (Nat.max d d1) G1); auto; lia|lia|].
      intros c' p' s' x _ (G' & ? & ? & ? & ?). exists G'. split; [eapply ext_trans; eassumption|auto].
    + simpl. split; [lia|]. split; [assumption|]. split; [assumption|]. exists G1. cbn [fst snd]. split; [assumption|]. split; [assumption|]. split; [exact Hrs'|]. lia.
Qed.
End Good.

(* ------------------------------------------------------------------ the root parser *)
Section Root.
Variable sp : scalar_parser.
Variable maxlvl : Z.
Variable PS : pschema.
Variable b : buf.
Hypothesis Hsp : sp_ok sp.
Hypothesis HPS : pschema_okb PS = true.
Hypothesis Hb : 0 <= blen b.

Definition root_good (root : nat) (flags : Z) (r : pres (value * nat)) : Prop :=
  match r with
  | POk c p sc (v, d) =>
    1 <= p <= blen b /\ wt_script (to_schema PS) sc (RTable root) v (has_flag (ctx_init flags) JF_with_size) d /\ Z.of_nat d + 1 <= maxlvl
  | PErr e l => e <> 0 /\ 0 <= l <= blen b
  | PStop w => w = W_OUT
  end.

Lemma parse_root_fuel_good fuel root flags idw : Z.of_nat fuel >= 2 * blen b + 2 -> in_u32 idw ->
  root_good root flags (parse_root_fuel sp maxlvl PS b fuel root flags idw).
Proof.
  intros Hf Hid. unfold parse_root_fuel. destruct (maxlvl <? 1); [reflexivity|].
  destruct (parser_main b PS maxlvl sp Hsp HPS fuel) as (Ht & _ & _).
  pose proof (Ht root 1 (ctx_init flags) 0 [] [] ltac:(lia) ltac:(lia) (cgood_init b flags Hb) eq_refl (inv_nil PS)) as H.
  destruct (ptable sp maxlvl PS b fuel root 1 (ctx_init flags) 0 []) as [c1 p s [[r v] d]|e l|w]; simpl in H |- *; [|tauto|exact H].
  destruct H as (Hp & Hc1 & He1 & G' & Hx & (Hw & Hlen) & Hl & Hd). cbn [fst snd] in Hl, Hd.
  split; [lia|]. split; [|lia].
  destruct (has_flag (ctx_init flags) JF_with_size).
  - refine (WT_top (to_schema PS) true 0 0 [] idw 0 2 s r (RTable root) v d [] G' _ _ Hw Hl _ Hid _);
      [left; reflexivity|constructor|left; reflexivity|lia].
  - refine (WT_top (to_schema PS) true 0 0 [] idw 0 0 s r (RTable root) v d [] G' _ _ Hw Hl _ Hid _);
      [left; reflexivity|constructor|left; reflexivity|lia].
Qed.

Lemma parser_fuel_enough : Z.of_nat (parser_fuel b) >= 2 * blen b + 2.
Proof. unfold parser_fuel. lia. Qed.

Lemma parse_root_good root flags idw : in_u32 idw -> root_good root flags (parse_root sp maxlvl PS b root flags idw).
Proof. intros. apply parse_root_fuel_good; [apply parser_fuel_enough|assumption]. Qed.

(* 1. success => the script is well typed, the depth bound is below the level limit *)
Lemma parse_ok_well_typed root flags idw c p sc v d : in_u32 idw ->
  parse_root sp maxlvl PS b root flags idw = POk c p sc (v, d) ->
  wt_script (to_schema PS) sc (RTable root) v (has_flag (ctx_init flags) JF_with_size) d /\ Z.of_nat d + 1 <= maxlvl.
Proof. intros Hid E. pose proof (parse_root_good root flags idw Hid) as H. rewrite E in H. simpl in H. tauto. Qed.

(* 2. termination: any fuel >= 2 * length + 2 suffices *)
Lemma parser_terminates fuel root flags idw : Z.of_nat fuel >= 2 * blen b + 2 -> in_u32 idw ->
  parse_root_fuel sp maxlvl PS b fuel root flags idw <> PStop W_FUEL /\
  parse_root sp maxlvl PS b root flags idw <> PStop W_FUEL.
Proof.
  intros Hf Hid. split.
  - pose proof (parse_root_fuel_good fuel root flags idw Hf Hid) as H. intros E. rewrite E in H. simpl in H. discriminate.
  - pose proof (parse_root_good root flags idw Hid) as H. intros E. rewrite E in H. simpl in H. discriminate.
Qed.

(* 3. no read outside the input; positions inside the input *)
Lemma parser_positions root flags idw : in_u32 idw ->
  parse_root sp maxlvl PS b root flags idw <> PStop W_OOB /\
  (forall c p sc x, parse_root sp maxlvl PS b root flags idw = POk c p sc x -> 0 <= p <= blen b) /\
  (forall e l, parse_root sp maxlvl PS b root flags idw = PErr e l -> e <> 0 /\ 0 <= l <= blen b).
Proof.
  intros Hid. pose proof (parse_root_good root flags idw Hid) as H. split; [|split].
  - intros E. rewrite E in H. simpl in H. discriminate.
  - intros c p sc [v d] E. rewrite E in H. simpl in H. lia.
  - intros e l E. rewrite E in H. simpl in H. exact H.
Qed.
End Root.

(* ------------------------------------------------------------------ composition with C02 (builder => verifier) *)
From Flatcc.Verifier Require Schema VerifierModel CompleteBase CompleteTable Complete CompleteBuild CompleteBytes.
Module VS := Flatcc.Verifier.Schema.
Module VM := Flatcc.Verifier.VerifierModel.
Module CB := Flatcc.Verifier.CompleteBase.
Module CT := Flatcc.Verifier.CompleteTable.
Module CC := Flatcc.Verifier.Complete.
Module CY := Flatcc.Verifier.CompleteBytes.

Lemma to_schema_in_fragment PS : CT.schema_in_fragment (to_schema PS) = true.
Proof.
  unfold CT.schema_in_fragment, to_schema. cbn [tables]. apply forallb_forall. intros l Hl. apply in_map_iff in Hl.
  destruct Hl as (flds & <- & _). apply forallb_forall. intros f Hf. apply in_map_iff in Hf. destruct Hf as (fd & <- & _).
  cbn [to_field fk]. destruct (pf_kind fd); reflexivity.
Qed.
Lemma to_schema_members PS : CT.members_nonempty (to_schema PS) = true.
Proof. reflexivity. Qed.

(* schemas without vectors of tables: the level limit of the parser gives the verifier's level hypothesis *)
Definition has_tabvec (PS : pschema) : bool :=
  existsb (existsb (fun fd => match pf_kind fd with PVecTable _ => true | _ => false end)) PS.
Lemma vecnest_tabvec PS : CT.schema_vecnest (to_schema PS) = has_tabvec PS.
Proof.
  unfold CT.schema_vecnest, has_tabvec, to_schema. cbn [tables]. induction PS as [|flds r IH]; cbn [map existsb]; [reflexivity|].
  rewrite IH. f_equal. clear. induction flds as [|fd r IH]; cbn [map existsb]; [reflexivity|]. rewrite IH. f_equal.
  cbn [to_field fk]. destruct (pf_kind fd); reflexivity.
Qed.
Lemma levels_from_parser_bound PS maxlvl d : Z.of_nat d + 1 <= maxlvl -> maxlvl <= VERIFIER_MAX_LEVELS ->
  (has_tabvec PS = false \/ 2 * Z.of_nat d <= VERIFIER_MAX_LEVELS) ->
  CC.levels_needed (to_schema PS) d <= VERIFIER_MAX_LEVELS.
Proof.
  intros Hd Hm Hc. unfold CC.levels_needed. rewrite vecnest_tabvec. destruct (has_tabvec PS); [|lia].
  destruct Hc as [Hc|Hc]; [discriminate|lia].
Qed.

Theorem parse_ok_buffer_verifies sp maxlvl PS b root flags idw c p sc v d regs ems st addr fuel :
  sp_ok sp -> pschema_okb PS = true -> 0 <= blen b -> in_u32 idw ->
  parse_root sp maxlvl PS b root flags idw = POk c p sc (v, d) ->
  (* inherited from C02_build_verifies *)
  run init_state [] sc = Some (regs, ems, st) -> small st ->
  VS.schema_wf (CB.to_vschema (to_schema PS)) = true ->
  CY.script_bytes sc = true ->
  maxlvl <= VERIFIER_MAX_LEVELS -> (has_tabvec PS = false \/ 2 * Z.of_nat d <= VERIFIER_MAX_LEVELS) ->
  (d <= fuel)%nat ->
  addr mod buffer_alignment st = 0 ->
  VM.verify_root (of_list (buffer_bytes st)) addr (CB.to_vschema (to_schema PS)) fuel (CB.to_vroot (RTable root))
    (CC.to_variant (has_flag (ctx_init flags) JF_with_size)) = VM.VOk.
Proof.
  intros Hsp HPS Hb Hid E Hrun Hsm Hwf Hby Hm Hlv Hfuel Haddr.
  destruct (parse_ok_well_typed sp maxlvl PS b Hsp HPS Hb root flags idw c p sc v d Hid E) as [Hwt Hd].
  eapply CY.build_verifies'; try eassumption.
  - apply to_schema_in_fragment.
  - apply to_schema_members.
  - exact I.
  - eapply levels_from_parser_bound; eassumption.
  - exact I.
Qed.

(* ------------------------------------------------------------------ the hypotheses are satisfiable *)
(* table T { n:int; s:string (required); v:[short]; k:[T]; c:T; vs:[string]; b:bool; } *)
Definition ex_i32 : sty := {| st_size := 4; st_signed := true; st_bool := false |}.
Definition ex_i16 : sty := {| st_size := 2; st_signed := true; st_bool := false |}.
Definition ex_bool : sty := {| st_size := 1; st_signed := false; st_bool := true |}.
Definition ex_ps : pschema :=
  [ [ {| pf_name := [110]; pf_id := 0; pf_req := false; pf_kind := PScalar ex_i32 [0; 0; 0; 0] |};
      {| pf_name := [115]; pf_id := 1; pf_req := true; pf_kind := PString |};
      {| pf_name := [118]; pf_id := 2; pf_req := false; pf_kind := PVecScalar ex_i16 |};
      {| pf_name := [107]; pf_id := 3; pf_req := false; pf_kind := PVecTable 0 |};
      {| pf_name := [99]; pf_id := 4; pf_req := false; pf_kind := PTable 0 |};
      {| pf_name := [118; 115]; pf_id := 5; pf_req := false; pf_kind := PVecString |};
      {| pf_name := [98]; pf_id := 6; pf_req := false; pf_kind := PScalar ex_bool [0] |} ] ].
(* {"s":"a\n","n":-5,"v":[1,-2],"k":[{"s":"x"}],c:{s:"y",b:true},"vs":["p","q"]} *)
Definition ex_input : list Z :=
  [123; 34; 115; 34; 58; 34; 97; 92; 110; 34; 44; 34; 110; 34; 58; 45; 53; 44; 34; 118; 34; 58; 91; 49; 44; 45; 50; 93; 44;
   34; 107; 34; 58; 91; 123; 34; 115; 34; 58; 34; 120; 34; 125; 93; 44; 99; 58; 123; 115; 58; 34; 121; 34; 44; 98; 58; 116; 114; 117; 101; 125; 44;
   34; 118; 115; 34; 58; 91; 34; 112; 34; 44; 34; 113; 34; 93; 125].

Lemma example_parse_verifies :
  pschema_okb ex_ps = true /\
  exists c p sc v d regs ems st,
    parse_root sp_int 100 ex_ps (of_list ex_input) 0 JF_with_size 1414681411 = POk c p sc (v, d) /\
    p = lenZ ex_input /\ d = 2%nat /\
    run init_state [] sc = Some (regs, ems, st) /\ lenZ (buffer_bytes st) = 172 /\
    VM.verify_root (of_list (buffer_bytes st)) 0 (CB.to_vschema (to_schema ex_ps)) 100 (CB.to_vroot (RTable 0))
      (CC.to_variant (has_flag (ctx_init JF_with_size) JF_with_size)) = VM.VOk.
Proof.
  split; [reflexivity|].
  destruct (parse_root sp_int 100 ex_ps (of_list ex_input) 0 JF_with_size 1414681411) as [c p sc [v d]|e l|w] eqn:E;
    [|vm_compute in E; discriminate|vm_compute in E; discriminate].
  assert (Hp : p = lenZ ex_input /\ d = 2%nat /\ CY.script_bytes sc = true /\
               exists regs ems st, run init_state [] sc = Some (regs, ems, st) /\ lenZ (buffer_bytes st) = 172 /\ small st /\
                 0 mod buffer_alignment st = 0).
  { vm_compute in E. injection E as <- <- <- <- <-. split; [reflexivity|]. split; [reflexivity|]. split; [reflexivity|].
    destruct (run init_state [] _) as [[[regs ems] st]|] eqn:R; [|vm_compute in R; discriminate].
    exists regs, ems, st. split; [reflexivity|]. vm_compute in R. injection R as <- <- <-.
    split; [reflexivity|]. split; [vm_compute; repeat split; congruence|reflexivity]. }
  destruct Hp as (-> & -> & Hby & regs & ems & st & Hrun & Hlen & Hsm & Haddr).
  exists c, (lenZ ex_input), sc, v, 2%nat, regs, ems, st. split; [reflexivity|]. split; [reflexivity|]. split; [reflexivity|].
  split; [exact Hrun|]. split; [exact Hlen|].
  eapply (parse_ok_buffer_verifies sp_int 100 ex_ps (of_list ex_input)); try eassumption.
  - exact sp_int_ok.
  - reflexivity.
  - cbn. lia.
  - unfold in_u32. lia.
  - reflexivity.
  - unfold VERIFIER_MAX_LEVELS. lia.
  - right. unfold VERIFIER_MAX_LEVELS. lia.
  - lia.
Qed.
