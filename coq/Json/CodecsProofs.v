(* C05: proofs about the printer-side codecs of Json/Codecs.v against the parser of Json/Scanner.v. *)
From Flatcc.Json Require Import Codecs.
From Coq Require Import ZifyBool.
Local Open Scope Z_scope.
Ltac Zify.zify_post_hook ::= Z.div_mod_to_equations.

Notation len l := (Z.of_nat (length l)).

(* ------------------------------------------------------------------ finite sweeps *)
Lemma range_forall (P : Z -> bool) n :
  forallb P (map Z.of_nat (seq 0 n)) = true -> forall v, 0 <= v < Z.of_nat n -> P v = true.
Proof.
  intros H v Hv. rewrite forallb_forall in H. apply H. apply in_map_iff.
  exists (Z.to_nat v). split; [lia | apply in_seq; lia].
Qed.

(* resolve the first `if` whose test lia can decide *)
Ltac if_lia :=
  match goal with
  | |- context [if ?t then _ else _] =>
    first [ replace t with true by (symmetry; lia) | replace t with false by (symmetry; lia) ]
  end.

(* ------------------------------------------------------------------ buffers holding a known text *)
Fixpoint holds (b : buf) (i : Z) (l : list Z) : Prop :=
  match l with
  | [] => 0 <= i <= blen b
  | x :: t => get b i = Some x /\ holds b (i + 1) t
  end.

Lemma get_Some b i x : get b i = Some x -> 0 <= i /\ i + 1 <= blen b /\ bget b i = x.
Proof. unfold get. intros H. apply rd8_Some in H. destruct H as (?&?&?). auto. Qed.

Lemma holds_range b l : forall i, holds b i l -> 0 <= i /\ i + len l <= blen b.
Proof.
  induction l as [|x t IH]; intros i H.
  - simpl in *. lia.
  - destruct H as [Hg Ht]. apply get_Some in Hg. apply IH in Ht.
    change (length (x :: t)) with (S (length t)). lia.
Qed.

Lemma holds_app b l1 : forall l2 i, holds b i (l1 ++ l2) <-> holds b i l1 /\ holds b (i + len l1) l2.
Proof.
  induction l1 as [|x t IH]; intros l2 i.
  - simpl. replace (i + 0) with i by lia. split.
    + intros H. split; [|exact H]. apply holds_range in H. lia.
    + tauto.
  - change ((x :: t) ++ l2) with (x :: t ++ l2). cbn [holds]. rewrite IH.
    change (length (x :: t)) with (S (length t)).
    replace (i + 1 + len t) with (i + Z.of_nat (S (length t))) by lia. tauto.
Qed.

Lemma nthZ_app pre x t : nthZ (pre ++ x :: t) (length pre) = x.
Proof. induction pre; simpl; auto. Qed.

Lemma holds_of_list l : forall pre post, Forall in_u8 l ->
  holds (of_list (pre ++ l ++ post)) (len pre) l.
Proof.
  induction l as [|x t IH]; intros pre post Hl.
  - simpl. rewrite app_length. lia.
  - inversion Hl as [|? ? Hx Ht]; subst. split.
    + unfold get, rd8, inb. cbn [blen bget of_list].
      match goal with |- (if ?t then _ else _) = _ =>
        replace t with true by (symmetry; rewrite !app_length; cbn [length]; lia) end.
      replace (len pre <? 0) with false by (symmetry; lia).
      rewrite Nat2Z.id. change ((x :: t) ++ post) with (x :: t ++ post). rewrite nthZ_app.
      rewrite u8_id by exact Hx. reflexivity.
    + specialize (IH (pre ++ [x]) post Ht).
      replace ((pre ++ [x]) ++ t ++ post) with (pre ++ (x :: t) ++ post) in IH
        by (rewrite <- app_assoc; reflexivity).
      replace (len (pre ++ [x])) with (len pre + 1) in IH by (rewrite app_length; simpl; lia).
      exact IH.
Qed.

Lemma holds_of_list0 l post : Forall in_u8 l -> holds (of_list (l ++ post)) 0 l.
Proof. intros H. exact (holds_of_list l [] post H). Qed.

Lemma bytes_from_holds b l : forall i, holds b i l -> bytes_from (length l) b i = l.
Proof.
  induction l as [|x t IH]; intros i H; [reflexivity|].
  destruct H as [Hg Ht]. apply get_Some in Hg. cbn [length bytes_from].
  rewrite (IH _ Ht). destruct Hg as (_&_&->). reflexivity.
Qed.

Lemma slice_holds b i l j : holds b i l -> j = i + len l -> slice b i j = Some l.
Proof.
  intros H ->. pose proof (holds_range _ _ _ H) as R. unfold slice.
  replace ((0 <=? i) && (i <=? i + len l) && (i + len l <=? blen b)) with true by (symmetry; lia).
  replace (Z.to_nat (i + len l - i)) with (length l) by lia.
  rewrite (bytes_from_holds _ _ _ H). reflexivity.
Qed.

(* ------------------------------------------------------------------ the scanner over printed text *)
Definition raw (x : Z) : Prop := needs_escape x = false.

Lemma scan_run : forall run fuel b i stop,
  Forall raw run -> needs_escape stop = true -> holds b i (run ++ [stop]) -> (length run < fuel)%nat ->
  string_part_scan fuel b i = LAt (i + len run).
Proof.
  induction run as [|x t IH]; intros fuel b i stop Hr Hs Hh Hf.
  - destruct fuel as [|f]; [simpl in Hf; lia|]. destruct Hh as [Hg _].
    pose proof (get_Some _ _ _ Hg). cbn [string_part_scan]. rewrite Hg.
    replace (i =? blen b) with false by (symmetry; lia).
    unfold needs_escape in Hs.
    replace (negb (stop =? 34) && (32 <=? stop) && negb (stop =? 92)) with false by (symmetry; lia).
    simpl. f_equal. lia.
  - destruct fuel as [|f]; [simpl in Hf; lia|]. destruct Hh as [Hg Ht].
    inversion Hr as [|? ? Hx Hr']; subst.
    pose proof (get_Some _ _ _ Hg). cbn [string_part_scan]. rewrite Hg.
    replace (i =? blen b) with false by (symmetry; lia).
    unfold raw, needs_escape in Hx.
    replace (negb (x =? 34) && (32 <=? x) && negb (x =? 92)) with true by (symmetry; lia).
    rewrite (IH f b (i + 1) stop Hr' Hs Ht) by (simpl in Hf; lia).
    f_equal. change (length (x :: t)) with (S (length t)). lia.
Qed.

Lemma string_part_run b c i run stop :
  Forall raw run -> stop = 34 \/ stop = 92 -> holds b i (run ++ [stop]) ->
  string_part b c i = Ok c (i + len run) tt.
Proof.
  intros Hr Hs Hh. unfold string_part.
  pose proof (holds_range _ _ _ Hh) as R. rewrite app_length in R. simpl in R.
  rewrite (scan_run run (scan_fuel b i) b i stop Hr); [| unfold needs_escape; lia | exact Hh | unfold scan_fuel; lia].
  apply holds_app in Hh. destruct Hh as [_ [Hg _]]. pose proof (get_Some _ _ _ Hg).
  replace (i + len run =? blen b) with false by (symmetry; lia).
  rewrite Hg. destruct Hs as [-> | ->]; reflexivity.
Qed.

Lemma string_start_quote b c i : get b i = Some 34 -> string_start b c i = Ok c (i + 1) tt.
Proof.
  intros Hg. pose proof (get_Some _ _ _ Hg). unfold string_start. rewrite Hg.
  replace (i =? blen b) with false by (symmetry; lia). reflexivity.
Qed.

Lemma string_end_quote b c i : get b i = Some 34 -> string_end b c i = Ok c (i + 1) tt.
Proof.
  intros Hg. pose proof (get_Some _ _ _ Hg). unfold string_end. rewrite Hg.
  replace (i =? blen b) with false by (symmetry; lia). reflexivity.
Qed.

(* ------------------------------------------------------------------ print_escape against string_escape *)
Lemma hexdig_hexchar : forall x, 0 <= x < 16 -> hexdig (hexchar x) = Some x.
Proof.
  intros x Hx.
  pose (P := fun v => match hexdig (hexchar v) with Some w => w =? v | None => false end).
  assert (H : P x = true).
  { apply (range_forall P 16); [vm_compute; reflexivity | exact Hx]. }
  unfold P in H. destruct (hexdig (hexchar x)); [|discriminate]. f_equal. lia.
Qed.

Lemma hexchar_range : forall x, 0 <= x < 16 -> 48 <= hexchar x < 128 /\ hexchar x <> 92.
Proof. intros x Hx. unfold hexchar, u8. destruct (x <? 10) eqn:E; lia. Qed.

Lemma decode_hex4_gets b j a0 a1 a2 a3 :
  get b j = Some a0 -> get b (j + 1) = Some a1 -> get b (j + 2) = Some a2 -> get b (j + 3) = Some a3 ->
  decode_hex4 b j =
    Some (match hexdig a0 with None => None | Some h0 =>
          match hexdig a1 with None => None | Some h1 =>
          match hexdig a2 with None => None | Some h2 =>
          match hexdig a3 with None => None | Some h3 => Some (4096 * h0 + 256 * h1 + 16 * h2 + h3)
          end end end end).
Proof. intros H0 H1 H2 H3. unfold decode_hex4. rewrite H0, H1, H2, H3. reflexivity. Qed.

Lemma holds2 b i a0 a1 t : holds b i (a0 :: a1 :: t) ->
  get b i = Some a0 /\ get b (i + 1) = Some a1 /\ holds b (i + 2) t.
Proof.
  cbn [holds]. intros (H0 & H1 & Ht). replace (i + 1 + 1) with (i + 2) in Ht by lia. auto.
Qed.

Lemma escape_simple b c i e v :
  (e = 116 /\ v = 9) \/ (e = 110 /\ v = 10) \/ (e = 114 /\ v = 13) \/ (e = 98 /\ v = 8) \/
  (e = 102 /\ v = 12) \/ (e = 34 /\ v = 34) \/ (e = 92 /\ v = 92) ->
  holds b i [92; e] -> string_escape b c i = Ok c (i + 2) [v].
Proof.
  intros He Hh. apply holds2 in Hh. destruct Hh as (H0 & H1 & Ht). cbn [holds] in Ht.
  unfold string_escape. rewrite H0, H1.
  replace (blen b - i <? 2) with false by (symmetry; lia).
  change (negb (92 =? 92)) with false. cbv iota.
  destruct He as [[-> ->]|[[-> ->]|[[-> ->]|[[-> ->]|[[-> ->]|[[-> ->]|[-> ->]]]]]]]; reflexivity.
Qed.

Lemma escape_u00 b c i x :
  0 <= x < 128 -> holds b i [92; 117; 48; 48; hexchar (x / 16); hexchar (x mod 16)] ->
  string_escape b c i = Ok c (i + 6) [x].
Proof.
  intros Hx Hh. cbn [holds] in Hh. destruct Hh as (H0 & H1 & H2 & H3 & H4 & H5 & Hr).
  replace (i + 1 + 1) with (i + 2) in * by lia.
  replace (i + 2 + 1) with (i + 2 + 1) in * by lia.
  unfold string_escape. rewrite H0, H1.
  replace (blen b - i <? 2) with false by (symmetry; lia).
  change (negb (92 =? 92)) with false. cbv iota.
  change (117 =? 120) with false. cbv iota.
  change (117 =? 117) with true. cbv iota.
  replace (blen b - i <? 6) with false by (symmetry; lia).
  rewrite (decode_hex4_gets b (i + 2) 48 48 (hexchar (x / 16)) (hexchar (x mod 16)));
    [ | exact H2 | exact H3 | replace (i + 2 + 2) with (i + 2 + 1 + 1) by lia; exact H4
      | replace (i + 2 + 3) with (i + 2 + 1 + 1 + 1) by lia; exact H5 ].
  change (hexdig 48) with (Some 0). cbv iota beta.
  rewrite (hexdig_hexchar (x / 16)) by lia. rewrite (hexdig_hexchar (x mod 16)) by lia.
  cbv iota beta.
  replace (4096 * 0 + 256 * 0 + 16 * (x / 16) + x mod 16) with x by lia.
  replace ((55296 <=? x) && (x <=? 56319) && (12 <=? blen b - i)) with false by (symmetry; lia).
  unfold decode_unicode_char. replace (x <=? 127) with true by (symmetry; lia). reflexivity.
Qed.

Lemma print_escape_length x : len (print_escape x) = 2 \/ len (print_escape x) = 6.
Proof.
  unfold print_escape.
  destruct (x =? 34); [left; reflexivity|]. destruct (x =? 92); [left; reflexivity|].
  destruct (x =? 9); [left; reflexivity|]. destruct (x =? 12); [left; reflexivity|].
  destruct (x =? 13); [left; reflexivity|]. destruct (x =? 10); [left; reflexivity|].
  destruct (x =? 8); [left; reflexivity|]. right; reflexivity.
Qed.

(* what string_escape makes of the output of print_escape: the byte itself *)
Lemma escape_roundtrip b c i x :
  0 <= x -> needs_escape x = true -> holds b i (print_escape x) ->
  string_escape b c i = Ok c (i + len (print_escape x)) [x] /\ get b i = Some 92.
Proof.
  intros Hx Hn Hh. split; [| destruct Hh as [Hg _]; exact Hg].
  unfold print_escape in *.
  destruct (x =? 34) eqn:E1.
  { rewrite (escape_simple b c i 34 x) by (first [lia | exact Hh]). reflexivity. }
  destruct (x =? 92) eqn:E2.
  { rewrite (escape_simple b c i 92 x) by (first [lia | exact Hh]). reflexivity. }
  destruct (x =? 9) eqn:E3.
  { rewrite (escape_simple b c i 116 x) by (first [lia | exact Hh]). reflexivity. }
  destruct (x =? 12) eqn:E4.
  { rewrite (escape_simple b c i 102 x) by (first [lia | exact Hh]). reflexivity. }
  destruct (x =? 13) eqn:E5.
  { rewrite (escape_simple b c i 114 x) by (first [lia | exact Hh]). reflexivity. }
  destruct (x =? 10) eqn:E6.
  { rewrite (escape_simple b c i 110 x) by (first [lia | exact Hh]). reflexivity. }
  destruct (x =? 8) eqn:E7.
  { rewrite (escape_simple b c i 98 x) by (first [lia | exact Hh]). reflexivity. }
  unfold needs_escape in Hn. rewrite (escape_u00 b c i x) by (first [lia | exact Hh]). reflexivity.
Qed.

(* ------------------------------------------------------------------ shape of the printed body *)
Fixpoint raw_prefix (s : list Z) : list Z * list Z :=
  match s with
  | [] => ([], [])
  | x :: t => if needs_escape x then ([], s) else let (r, u) := raw_prefix t in (x :: r, u)
  end.

Definition esc_head (u : list Z) : Prop := match u with [] => True | x :: _ => needs_escape x = true end.

Lemma body_cons x t : print_string_body (x :: t) = print_byte x ++ print_string_body t.
Proof. reflexivity. Qed.

Lemma body_app s t : print_string_body (s ++ t) = print_string_body s ++ print_string_body t.
Proof. unfold print_string_body. apply flat_map_app. Qed.

Lemma body_raw r : Forall raw r -> print_string_body r = r.
Proof.
  induction 1 as [|x t Hx Ht IH]; [reflexivity|].
  rewrite body_cons, IH. unfold print_byte. rewrite Hx. reflexivity.
Qed.

Lemma raw_prefix_spec s : forall r u, raw_prefix s = (r, u) ->
  s = r ++ u /\ Forall raw r /\ esc_head u /\ (length u <= length s)%nat.
Proof.
  induction s as [|x t IH]; intros r u H.
  - simpl in H. inversion H; subst. simpl. auto.
  - cbn [raw_prefix] in H. destruct (needs_escape x) eqn:E.
    + inversion H; subst. simpl. rewrite E. auto.
    + destruct (raw_prefix t) as [r' u'] eqn:Et. inversion H; subst.
      destruct (IH r' u eq_refl) as (Hs & Hr & He & Hl). subst t.
      repeat split; auto. simpl. lia.
Qed.

Lemma body_split s r u : raw_prefix s = (r, u) -> print_string_body s = r ++ print_string_body u.
Proof.
  intros H. destruct (raw_prefix_spec _ _ _ H) as (-> & Hr & _ & _).
  rewrite body_app, body_raw by exact Hr. reflexivity.
Qed.

(* the stop byte of a run inside a printed body: the closing quote or the backslash of the next escape *)
Lemma body_head_stop u tail : esc_head u ->
  exists stop rest', print_string_body u ++ 34 :: tail = stop :: rest' /\ (stop = 34 \/ stop = 92).
Proof.
  destruct u as [|x t]; intros He.
  - exists 34, tail. auto.
  - simpl in He. rewrite body_cons. unfold print_byte. rewrite He. unfold print_escape.
    eexists _, _. split; [reflexivity | auto].
Qed.

(* ------------------------------------------------------------------ C05.1 build_string (print_string s) = s *)
Lemma build_loop_ok : forall n u fuel b c i acc,
  (length u <= n)%nat -> Forall in_u8 u -> esc_head u ->
  holds b i (print_string_body u ++ [34]) -> (length (print_string_body u) < fuel)%nat ->
  build_string_loop fuel b c i acc = Ok c (i + len (print_string_body u)) (acc ++ u).
Proof.
  induction n as [|n IH]; intros u fuel b c i acc Hn Hb He Hh Hf.
  - destruct u; [|simpl in Hn; lia]. destruct fuel as [|f]; [simpl in Hf; lia|].
    simpl in Hh. destruct Hh as [Hg _]. pose proof (get_Some _ _ _ Hg).
    cbn [build_string_loop]. rewrite Hg. replace (i =? blen b) with false by (symmetry; lia).
    change (34 =? 34) with true. cbv iota. rewrite app_nil_r. simpl. f_equal. lia.
  - destruct u as [|x t].
    { destruct fuel as [|f]; [simpl in Hf; lia|].
      simpl in Hh. destruct Hh as [Hg _]. pose proof (get_Some _ _ _ Hg).
      cbn [build_string_loop]. rewrite Hg. replace (i =? blen b) with false by (symmetry; lia).
      change (34 =? 34) with true. cbv iota. rewrite app_nil_r. simpl. f_equal. lia. }
    simpl in He. inversion Hb as [|? ? Hx Ht]; subst.
    destruct (raw_prefix t) as [r u1] eqn:Ep.
    destruct (raw_prefix_spec _ _ _ Ep) as (Hs & Hr & He1 & Hl1).
    pose proof (body_split _ _ _ Ep) as Hbody.
    rewrite body_cons in Hh, Hf |- *. unfold print_byte in Hh, Hf |- *. rewrite He in Hh, Hf |- *.
    rewrite Hbody in Hh, Hf |- *.
    rewrite <- !app_assoc in Hh.
    apply holds_app in Hh. destruct Hh as [Hesc Hh].
    destruct (escape_roundtrip b c i x) as [Hse Hg0]; [destruct Hx; lia | exact He | exact Hesc |].
    set (p := i + len (print_escape x)) in *.
    destruct (body_head_stop u1 [] He1) as (stop & rest' & Hst & Hstop).
    assert (Hh2 := Hh). rewrite Hst in Hh2.
    apply holds_app in Hh. destruct Hh as [Hrun Hh3].
    assert (Hrs : holds b p (r ++ [stop])).
    { change (stop :: rest') with ([stop] ++ rest') in Hh2. rewrite app_assoc in Hh2.
      apply holds_app in Hh2. tauto. }
    pose proof (string_part_run b c p r stop Hr Hstop Hrs) as Hsp.
    pose proof (holds_range _ _ _ Hrs) as R. rewrite app_length in R. simpl in R.
    pose proof (get_Some _ _ _ Hg0) as G0.
    destruct fuel as [|f]; [simpl in Hf; lia|].
    cbn [build_string_loop]. rewrite Hg0. replace (i =? blen b) with false by (symmetry; lia).
    change (92 =? 34) with false. cbv iota.
    rewrite Hse. fold p. rewrite Hsp.
    replace (p + len r =? blen b) with false by (symmetry; lia).
    rewrite (slice_holds b p r (p + len r) Hrun eq_refl).
    assert (Hl : (length u1 <= n)%nat).
    { subst t. cbn [length] in Hn. rewrite app_length in Hn. lia. }
    assert (Hb1 : Forall in_u8 u1). { subst t. apply Forall_app in Ht. tauto. }
    rewrite (IH u1 f b c (p + len r) (acc ++ [x] ++ r) Hl Hb1 He1 Hh3).
    + f_equal.
      * rewrite !app_length. unfold p. lia.
      * subst t. rewrite <- !app_assoc. reflexivity.
    + rewrite !app_length in Hf. simpl in Hf. pose proof (print_escape_length x). lia.
Qed.

Lemma print_string_length s : len (print_string s) = len (print_string_body s) + 2.
Proof. unfold print_string. cbn [length]. rewrite app_length. simpl. lia. Qed.

Lemma hexchar_u8 x : in_u8 (hexchar x).
Proof. unfold hexchar. apply u8_range. Qed.

Lemma print_escape_bytes x : in_u8 x -> Forall in_u8 (print_escape x).
Proof.
  intros Hx. unfold print_escape. pose proof (hexchar_u8 (x / 16)). pose proof (hexchar_u8 (x mod 16)).
  unfold in_u8 in *.
  destruct (x =? 34); [repeat constructor; lia|]. destruct (x =? 92); [repeat constructor; lia|].
  destruct (x =? 9); [repeat constructor; lia|]. destruct (x =? 12); [repeat constructor; lia|].
  destruct (x =? 13); [repeat constructor; lia|]. destruct (x =? 10); [repeat constructor; lia|].
  destruct (x =? 8); [repeat constructor; lia|]. repeat constructor; lia.
Qed.

Lemma body_bytes s : Forall in_u8 s -> Forall in_u8 (print_string_body s).
Proof.
  induction 1 as [|x t Hx Ht IH]; [constructor|].
  rewrite body_cons. apply Forall_app. split; [|exact IH].
  unfold print_byte. destruct (needs_escape x); [apply print_escape_bytes; exact Hx | constructor; auto].
Qed.

Lemma quoted_bytes body : Forall in_u8 body -> Forall in_u8 (34 :: body ++ [34]).
Proof.
  intros H. constructor; [unfold in_u8; lia|]. apply Forall_app. split; [exact H|].
  constructor; [unfold in_u8; lia | constructor].
Qed.

(* the parser, on any buffer that holds the printed text of s at position i *)
Lemma build_string_holds b c i s :
  Forall in_u8 s -> holds b i (print_string s) ->
  build_string b c i = Ok c (i + len (print_string s)) s.
Proof.
  intros Hb Hh. rewrite print_string_length. unfold print_string in Hh.
  destruct Hh as [Hq Hh].
  destruct (raw_prefix s) as [r u] eqn:Ep.
  destruct (raw_prefix_spec _ _ _ Ep) as (Hs & Hr & He & Hl).
  pose proof (body_split _ _ _ Ep) as Hbody. rewrite Hbody in Hh |- *.
  rewrite <- app_assoc in Hh.
  destruct (body_head_stop u [] He) as (stop & rest' & Hst & Hstop).
  assert (Hh2 := Hh). rewrite Hst in Hh2.
  apply holds_app in Hh. destruct Hh as [Hrun Hh3].
  assert (Hrs : holds b (i + 1) (r ++ [stop])).
  { change (stop :: rest') with ([stop] ++ rest') in Hh2. rewrite app_assoc in Hh2.
    apply holds_app in Hh2. tauto. }
  pose proof (string_part_run b c (i + 1) r stop Hr Hstop Hrs) as Hsp.
  pose proof (holds_range _ _ _ Hrs) as R. rewrite app_length in R. simpl in R.
  unfold build_string. rewrite (string_start_quote b c i Hq). rewrite Hsp.
  rewrite (slice_holds b (i + 1) r (i + 1 + len r) Hrun eq_refl).
  replace (i + 1 + len r =? blen b) with false by (symmetry; lia).
  destruct u as [|x t].
  - (* no escape at all: create_string on the input bytes *)
    simpl in Hh3. destruct Hh3 as [Hg _]. rewrite Hg. change (34 =? 34) with true. cbv iota.
    rewrite (string_end_quote b c _ Hg). rewrite app_nil_r in Hs. subst s.
    f_equal. rewrite app_nil_r. lia.
  - assert (Hg : get b (i + 1 + len r) = Some 92).
    { simpl in He. rewrite body_cons in Hh3. unfold print_byte in Hh3. rewrite He in Hh3.
      unfold print_escape in Hh3. destruct Hh3 as [Hg _]. exact Hg. }
    rewrite Hg. change (92 =? 34) with false. cbv iota.
    assert (Hbu : Forall in_u8 (x :: t)). { subst s. apply Forall_app in Hb. tauto. }
    pose proof (holds_range _ _ _ Hh3) as R3. rewrite app_length in R3. cbn [length] in R3.
    rewrite (build_loop_ok (length (x :: t)) (x :: t) _ b c (i + 1 + len r) r (le_n _) Hbu He Hh3);
      [| unfold scan_fuel; lia].
    apply holds_app in Hh3. destruct Hh3 as [_ [Hg2 _]].
    rewrite (string_end_quote b c _ Hg2). subst s. f_equal. rewrite app_length. lia.
Qed.

Theorem unescape_escape : forall s flags rest,
  Forall (fun x => 0 <= x < 256) s ->
  exists c,
    build_string (of_list (print_string s ++ rest)) (ctx_init flags) 0
      = Ok c (Z.of_nat (length (print_string s))) s /\ cerr c = 0.
Proof.
  intros s flags rest Hb. exists (ctx_init flags). split; [|reflexivity].
  rewrite (build_string_holds _ (ctx_init flags) 0 s Hb).
  - reflexivity.
  - apply holds_of_list0. apply quoted_bytes. apply body_bytes. exact Hb.
Qed.

(* ------------------------------------------------------------------ C05.2 base64 *)
Lemma list_ind3 (P : list Z -> Prop) :
  P [] -> (forall a, P [a]) -> (forall a b, P [a; b]) ->
  (forall a b c t, P t -> P (a :: b :: c :: t)) -> forall l, P l.
Proof.
  intros H0 H1 H2 H3. fix F 1. intros l.
  destruct l as [|a [|b [|c t]]]; [exact H0 | apply H1 | apply H2 | apply H3; apply F].
Qed.

(* the decoding table inverts the alphabet, in both modes; alphabet symbols pass the JSON string scanner *)
Lemma dectab_alphabet url v : 0 <= v < 64 -> b64_dectab url (b64_alphabet url v) = v.
Proof.
  intros Hv. pose (P := fun v => b64_dectab url (b64_alphabet url v) =? v).
  assert (H : P v = true).
  { apply (range_forall P 64); [destruct url; vm_compute; reflexivity | exact Hv]. }
  unfold P in H. lia.
Qed.

Definition ascii_raw (x : Z) : Prop := raw x /\ 0 <= x <= 127.

Lemma alphabet_ascii_raw url v : 0 <= v < 64 -> ascii_raw (b64_alphabet url v).
Proof.
  intros Hv.
  pose (P := fun v => negb (needs_escape (b64_alphabet url v)) && (0 <=? b64_alphabet url v) && (b64_alphabet url v <=? 127)).
  assert (H : P v = true).
  { apply (range_forall P 64); [destruct url; vm_compute; reflexivity | exact Hv]. }
  unfold P in H. unfold ascii_raw, raw. destruct (needs_escape (b64_alphabet url v)); [discriminate|].
  split; [reflexivity | lia].
Qed.

Lemma dectab_pad url : b64_dectab url 61 = 66.
Proof. destruct url; reflexivity. Qed.

Lemma b64_tail_0 i h0 h1 h2 limit acc consumed :
  b64_tail 0 i h0 h1 h2 limit acc consumed = (B64_EOK, acc, consumed + i).
Proof. reflexivity. Qed.

Lemma b64_tail_2 i h0 h1 h2 limit acc consumed :
  (h1 * 16) mod 256 = 0 -> 1 <= limit ->
  b64_tail 2 i h0 h1 h2 limit acc consumed = (B64_EOK, acc ++ [u8 (h0 * 4 + h1 / 16)], consumed + i).
Proof.
  intros Hd Hl. unfold b64_tail. change (2 =? 0) with false. change (2 =? 2) with true. cbv iota.
  rewrite Hd. change (negb (0 =? 0)) with false. cbv iota.
  replace (limit <? 1) with false by (symmetry; lia). reflexivity.
Qed.

Lemma b64_tail_3 i h0 h1 h2 limit acc consumed :
  (h2 * 64) mod 256 = 0 -> 2 <= limit ->
  b64_tail 3 i h0 h1 h2 limit acc consumed =
    (B64_EOK, acc ++ [u8 (h0 * 4 + h1 / 16); u8 (h1 * 16 + h2 / 4)], consumed + i).
Proof.
  intros Hd Hl. unfold b64_tail. change (3 =? 0) with false. change (3 =? 2) with false.
  change (3 =? 3) with true. cbv iota.
  rewrite Hd. change (negb (0 =? 0)) with false. cbv iota.
  replace (limit <? 2) with false by (symmetry; lia). reflexivity.
Qed.

Lemma b64_stop_pad2 url : b64_stop url 66 [61] 2 = 4.
Proof. destruct url; reflexivity. Qed.
Lemma b64_stop_pad3 url : b64_stop url 66 [] 3 = 4.
Proof. destruct url; reflexivity. Qed.

Lemma dec_loop_encode url pad : forall d limit acc consumed,
  Forall in_u8 d -> len d <= limit ->
  b64_dec_loop url (base64_encode url pad d) limit acc consumed =
    (B64_EOK, acc ++ d, consumed + len (base64_encode url pad d)).
Proof.
  intros d. induction d as [| s0 | s0 s1 | s0 s1 s2 t IH] using list_ind3; intros limit acc consumed Hb Hl.
  - cbn [base64_encode b64_dec_loop length]. rewrite app_nil_r.
    destruct (limit <=? 0); [|rewrite b64_tail_0]; f_equal; lia.
  - inversion Hb as [|? ? H0 _]; subst. unfold in_u8 in H0. cbn [length] in Hl.
    destruct pad; cbn [base64_encode b64_dec_loop].
    + replace (limit <=? 0) with false by (symmetry; lia).
      rewrite !dectab_alphabet by lia. rewrite dectab_pad.
      do 2 if_lia. change (64 <=? 66) with true. cbv iota.
      rewrite b64_stop_pad2. rewrite b64_tail_2 by lia.
      replace (u8 (s0 / 4 * 4 + s0 mod 4 * 16 / 16)) with s0 by (unfold u8; lia). reflexivity.
    + replace (limit <=? 0) with false by (symmetry; lia).
      rewrite !dectab_alphabet by lia.
      do 2 if_lia. rewrite b64_tail_2 by lia.
      replace (u8 (s0 / 4 * 4 + s0 mod 4 * 16 / 16)) with s0 by (unfold u8; lia). reflexivity.
  - inversion Hb as [|? ? H0 Hb1]; subst. inversion Hb1 as [|? ? H1 _]; subst.
    unfold in_u8 in H0, H1. cbn [length] in Hl.
    destruct pad; cbn [base64_encode b64_dec_loop].
    + replace (limit <=? 0) with false by (symmetry; lia).
      rewrite !dectab_alphabet by lia. rewrite dectab_pad.
      do 3 if_lia. change (64 <=? 66) with true. cbv iota.
      rewrite b64_stop_pad3. rewrite b64_tail_3 by lia.
      replace (u8 (s0 / 4 * 4 + (s0 mod 4 * 16 + s1 / 16) / 16)) with s0 by (unfold u8; lia).
      replace (u8 ((s0 mod 4 * 16 + s1 / 16) * 16 + s1 mod 16 * 4 / 4)) with s1 by (unfold u8; lia).
      reflexivity.
    + replace (limit <=? 0) with false by (symmetry; lia).
      rewrite !dectab_alphabet by lia.
      do 3 if_lia. rewrite b64_tail_3 by lia.
      replace (u8 (s0 / 4 * 4 + (s0 mod 4 * 16 + s1 / 16) / 16)) with s0 by (unfold u8; lia).
      replace (u8 ((s0 mod 4 * 16 + s1 / 16) * 16 + s1 mod 16 * 4 / 4)) with s1 by (unfold u8; lia).
      reflexivity.
  - inversion Hb as [|? ? H0 Hb1]; subst. inversion Hb1 as [|? ? H1 Hb2]; subst.
    inversion Hb2 as [|? ? H2 Hb3]; subst.
    unfold in_u8 in H0, H1, H2. cbn [length] in Hl.
    cbn [base64_encode b64_dec_loop].
    replace (limit <=? 0) with false by (symmetry; lia).
    rewrite !dectab_alphabet by lia.
    do 5 if_lia.
    rewrite IH by (first [exact Hb3 | lia]).
    replace (u8 (s0 / 4 * 4 + (s0 mod 4 * 16 + s1 / 16) / 16)) with s0 by (unfold u8; lia).
    replace (u8 ((s0 mod 4 * 16 + s1 / 16) * 16 + (s1 mod 16 * 4 + s2 / 64) / 4)) with s1 by (unfold u8; lia).
    replace (u8 ((s1 mod 16 * 4 + s2 / 64) * 64 + s2 mod 64)) with s2 by (unfold u8; lia).
    rewrite <- app_assoc. cbn [app length]. f_equal. lia.
Qed.

Lemma encode_length url pad : forall d,
  len (base64_encode url pad d) = base64_encoded_size (len d) pad.
Proof.
  intros d. induction d as [| s0 | s0 s1 | s0 s1 s2 t IH] using list_ind3.
  - destruct pad; reflexivity.
  - destruct pad; reflexivity.
  - destruct pad; reflexivity.
  - cbn [base64_encode length]. rewrite !Nat2Z.inj_succ. rewrite IH.
    set (n := len t). assert (Hn : 0 <= n) by (unfold n; lia). clearbody n.
    unfold base64_encoded_size.
    replace (Z.succ (Z.succ (Z.succ n)) mod 3) with (n mod 3) by lia.
    replace ((Z.succ (Z.succ (Z.succ n)) * 4 / 3 + 3) / 4 * 4) with ((n * 4 / 3 + 3) / 4 * 4 + 4) by lia.
    destruct pad; [lia|].
    destruct (n mod 3 =? 2); [lia|]. destruct (n mod 3 =? 1); lia.
Qed.

Lemma decoded_size_encoded n pad : 0 <= n -> n <= base64_decoded_size (base64_encoded_size n pad).
Proof.
  intros Hn. unfold base64_encoded_size.
  destruct pad.
  - unfold base64_decoded_size.
    destruct ((n * 4 / 3 + 3) / 4 * 4 mod 4 =? 3) eqn:E1; [lia|].
    destruct ((n * 4 / 3 + 3) / 4 * 4 mod 4 =? 2) eqn:E2; lia.
  - destruct (n mod 3 =? 2) eqn:K2; [| destruct (n mod 3 =? 1) eqn:K1].
    + unfold base64_decoded_size.
      destruct (((n * 4 / 3 + 3) / 4 * 4 - 1) mod 4 =? 3) eqn:E1; [lia|].
      destruct (((n * 4 / 3 + 3) / 4 * 4 - 1) mod 4 =? 2) eqn:E2; lia.
    + unfold base64_decoded_size.
      destruct (((n * 4 / 3 + 3) / 4 * 4 - 2) mod 4 =? 3) eqn:E1; [lia|].
      destruct (((n * 4 / 3 + 3) / 4 * 4 - 2) mod 4 =? 2) eqn:E2; lia.
    + unfold base64_decoded_size.
      destruct ((n * 4 / 3 + 3) / 4 * 4 mod 4 =? 3) eqn:E1; [lia|].
      destruct ((n * 4 / 3 + 3) / 4 * 4 mod 4 =? 2) eqn:E2; lia.
Qed.

Theorem base64_roundtrip : forall url pad d, Forall in_u8 d ->
  base64_decode url (base64_encode url pad d)
    (base64_decoded_size (Z.of_nat (length (base64_encode url pad d))))
  = (B64_EOK, d, Z.of_nat (length (base64_encode url pad d))).
Proof.
  intros url pad d Hb. unfold base64_decode.
  rewrite dec_loop_encode; [reflexivity | exact Hb |].
  rewrite encode_length.
  pose proof (decoded_size_encoded (len d) pad ltac:(lia)) as H.
  destruct (0 <? base64_decoded_size (base64_encoded_size (len d) pad)) eqn:E; [exact H|].
  unfold SIZE_MAX. lia.
Qed.

(* the encoder output has exactly the size base64_encoded_size announces (the printer advances by it) *)
Theorem base64_encoded_size_exact : forall url pad d,
  Z.of_nat (length (base64_encode url pad d)) = base64_encoded_size (Z.of_nat (length d)) pad.
Proof. exact encode_length. Qed.

(* chunked encoding in print_uint8_vector_base64_object: whole 3-byte groups first (unpadded mode), then the rest *)
Theorem base64_encode_chunks : forall url pad d1 d2,
  (Z.of_nat (length d1)) mod 3 = 0 ->
  base64_encode url pad (d1 ++ d2) = base64_encode url false d1 ++ base64_encode url pad d2.
Proof.
  intros url pad d1. induction d1 as [| s0 | s0 s1 | s0 s1 s2 t IH] using list_ind3; intros d2 Hm.
  - reflexivity.
  - cbn [length] in Hm. lia.
  - cbn [length] in Hm. lia.
  - change ((s0 :: s1 :: s2 :: t) ++ d2) with (s0 :: s1 :: s2 :: (t ++ d2)).
    cbn [base64_encode]. rewrite IH; [reflexivity|].
    cbn [length] in Hm. lia.
Qed.

Lemma encode_ascii_raw url pad : forall d, Forall in_u8 d -> Forall ascii_raw (base64_encode url pad d).
Proof.
  assert (P61 : ascii_raw 61) by (split; [reflexivity | lia]).
  intros d. induction d as [| s0 | s0 s1 | s0 s1 s2 t IH] using list_ind3; intros Hb.
  - constructor.
  - inversion Hb as [|? ? H0 _]; subst. unfold in_u8 in H0.
    pose proof (alphabet_ascii_raw url (s0 / 4) ltac:(lia)).
    pose proof (alphabet_ascii_raw url (s0 mod 4 * 16) ltac:(lia)).
    cbn [base64_encode]. destruct pad; repeat (apply Forall_cons; [assumption|]); apply Forall_nil.
  - inversion Hb as [|? ? H0 Hb1]; subst. inversion Hb1 as [|? ? H1 _]; subst.
    unfold in_u8 in H0, H1.
    pose proof (alphabet_ascii_raw url (s0 / 4) ltac:(lia)).
    pose proof (alphabet_ascii_raw url (s0 mod 4 * 16 + s1 / 16) ltac:(lia)).
    pose proof (alphabet_ascii_raw url (s1 mod 16 * 4) ltac:(lia)).
    cbn [base64_encode]. destruct pad; repeat (apply Forall_cons; [assumption|]); apply Forall_nil.
  - inversion Hb as [|? ? H0 Hb1]; subst. inversion Hb1 as [|? ? H1 Hb2]; subst.
    inversion Hb2 as [|? ? H2 Hb3]; subst.
    unfold in_u8 in H0, H1, H2. pose proof (IH Hb3) as IHr.
    pose proof (alphabet_ascii_raw url (s0 / 4) ltac:(lia)).
    pose proof (alphabet_ascii_raw url (s0 mod 4 * 16 + s1 / 16) ltac:(lia)).
    pose proof (alphabet_ascii_raw url (s1 mod 16 * 4 + s2 / 64) ltac:(lia)).
    pose proof (alphabet_ascii_raw url (s2 mod 64) ltac:(lia)).
    cbn [base64_encode]. repeat (apply Forall_cons; [assumption|]). exact IHr.
Qed.

Lemma encode_raw_bytes url pad : forall d, Forall in_u8 d ->
  Forall raw (base64_encode url pad d) /\ Forall in_u8 (base64_encode url pad d).
Proof.
  intros d Hb. pose proof (encode_ascii_raw url pad d Hb) as H. split.
  - eapply Forall_impl; [|exact H]. intros x [Hr _]. exact Hr.
  - eapply Forall_impl; [|exact H]. intros x [_ Hx]. unfold in_u8. lia.
Qed.

Lemma parse_base64_holds url b c i d :
  Forall in_u8 d -> holds b i (print_base64 url d) ->
  parse_base64 url b c i = Ok c (i + len (print_base64 url d)) d.
Proof.
  intros Hb Hh. unfold print_base64 in *.
  set (enc := base64_encode url true d) in *.
  destruct (encode_raw_bytes url true d Hb) as [Hraw _]. fold enc in Hraw.
  destruct Hh as [Hq Hh].
  pose proof (string_part_run b c (i + 1) enc 34 Hraw (or_introl eq_refl) Hh) as Hsp.
  apply holds_app in Hh. destruct Hh as [Hrun [Hg _]].
  pose proof (get_Some _ _ _ Hg) as G.
  unfold parse_base64. rewrite (string_start_quote b c i Hq). rewrite Hsp.
  replace (i + 1 + len enc =? blen b) with false by (symmetry; lia).
  rewrite Hg. change (34 =? 34) with true. cbv iota.
  rewrite (slice_holds b (i + 1) enc (i + 1 + len enc) Hrun eq_refl).
  replace (i + 1 + len enc - (i + 1)) with (len enc) by lia.
  unfold enc at 1 2. rewrite (base64_roundtrip url true d Hb). fold enc. cbv iota beta.
  change (B64_EOK =? 0) with true. cbn [negb]. rewrite Z.eqb_refl. cbn [negb].
  rewrite (string_end_quote b c _ Hg). f_equal.
  cbn [length]. rewrite app_length. cbn [length]. lia.
Qed.

Lemma print_base64_bytes url d : Forall in_u8 d -> Forall in_u8 (print_base64 url d).
Proof.
  intros Hb. unfold print_base64. apply quoted_bytes. apply (encode_raw_bytes url true d Hb).
Qed.

Theorem base64_field_roundtrip : forall url d flags rest, Forall in_u8 d ->
  exists c,
    parse_base64 url (of_list (print_base64 url d ++ rest)) (ctx_init flags) 0
      = Ok c (Z.of_nat (length (print_base64 url d))) d /\ cerr c = 0.
Proof.
  intros url d flags rest Hb. exists (ctx_init flags). split; [|reflexivity].
  rewrite (parse_base64_holds url _ (ctx_init flags) 0 d Hb).
  - reflexivity.
  - apply holds_of_list0. apply print_base64_bytes. exact Hb.
Qed.

(* ------------------------------------------------------------------ C05.3 char arrays *)
Lemma strip_spec a :
  a = strip_nuls a ++ repeat 0 (length a - length (strip_nuls a)) /\ (length (strip_nuls a) <= length a)%nat.
Proof.
  induction a as [|x t [IH IHl]]; [split; [reflexivity | apply le_n]|].
  cbn [strip_nuls]. destruct (strip_nuls t) as [|y t'] eqn:E.
  - cbn [length app] in IH. rewrite Nat.sub_0_r in IH.
    destruct (x =? 0) eqn:Ex.
    + cbn [length app]. split; [|lia]. assert (x = 0) by lia. subst x.
      change (S (length t) - 0)%nat with (S (length t)). cbn [repeat]. f_equal. exact IH.
    + cbn [length app]. split; [|lia].
      replace (S (length t) - 1)%nat with (length t) by lia. f_equal. exact IH.
  - cbn [length] in *. split; [|lia].
    change ((x :: y :: t') ++ repeat 0 (S (length t) - S (S (length t')))) with
           (x :: ((y :: t') ++ repeat 0 (S (length t) - S (S (length t'))))).
    f_equal. replace (S (length t) - S (S (length t')))%nat with (length t - S (length t'))%nat by lia.
    exact IH.
Qed.

Lemma strip_bytes a : Forall in_u8 a -> Forall in_u8 (strip_nuls a).
Proof.
  intros H. destruct (strip_spec a) as [E _]. rewrite E in H. apply Forall_app in H. tauto.
Qed.

Lemma strip_trailing_nul a : strip_nuls (a ++ [0]) = strip_nuls a.
Proof.
  induction a as [|x t IH]; [reflexivity|].
  change ((x :: t) ++ [0]) with (x :: (t ++ [0])). cbn [strip_nuls]. rewrite IH. reflexivity.
Qed.

Lemma body_first_not_quote u : u <> [] ->
  exists z rest', print_string_body u ++ [34] = z :: rest' /\ z <> 34.
Proof.
  destruct u as [|x t]; [congruence|]. intros _. rewrite body_cons. unfold print_byte.
  destruct (needs_escape x) eqn:E.
  - unfold print_escape. eexists _, _. split; [reflexivity | lia].
  - eexists _, _. split; [reflexivity|]. unfold needs_escape in E. lia.
Qed.

Lemma take_z_all r : take_z (len r) r = r.
Proof. unfold take_z. rewrite Nat2Z.id. apply firstn_all. Qed.

Lemma char_array_loop_ok : forall m u fuel b c i n acc,
  (length u <= m)%nat -> Forall in_u8 u -> holds b i (print_string_body u ++ [34]) -> len u <= n ->
  (length (print_string_body u) < fuel)%nat ->
  char_array_loop fuel b c i n acc = Ok c (i + len (print_string_body u)) (acc ++ u, n - len u, true).
Proof.
  induction m as [|m IH]; intros u fuel b c i n acc Hm Hb Hh Hn Hf.
  - destruct u; [|simpl in Hm; lia]. destruct fuel as [|f]; [simpl in Hf; lia|].
    simpl in Hh. destruct Hh as [Hg _].
    cbn [char_array_loop]. rewrite Hg. change (34 =? 34) with true. cbv iota.
    rewrite app_nil_r. simpl. f_equal; [lia | f_equal; f_equal; lia].
  - destruct u as [|x0 t0].
    { destruct fuel as [|f]; [simpl in Hf; lia|].
      simpl in Hh. destruct Hh as [Hg _].
      cbn [char_array_loop]. rewrite Hg. change (34 =? 34) with true. cbv iota.
      rewrite app_nil_r. simpl. f_equal; [lia | f_equal; f_equal; lia]. }
    destruct (body_first_not_quote (x0 :: t0) ltac:(congruence)) as (z & rest0 & Hz & Hz34).
    assert (Hgz : get b i = Some z). { rewrite Hz in Hh. destruct Hh as [Hg _]. exact Hg. }
    destruct (raw_prefix (x0 :: t0)) as [r u1] eqn:Ep.
    destruct (raw_prefix_spec _ _ _ Ep) as (Hs & Hr & He1 & Hl1).
    pose proof (body_split _ _ _ Ep) as Hbody.
    rewrite Hbody in Hh, Hf |- *. rewrite <- app_assoc in Hh.
    destruct (body_head_stop u1 [] He1) as (stop & rest' & Hst & Hstop).
    assert (Hh2 := Hh). rewrite Hst in Hh2.
    apply holds_app in Hh. destruct Hh as [Hrun Hh3].
    assert (Hrs : holds b i (r ++ [stop])).
    { change (stop :: rest') with ([stop] ++ rest') in Hh2. rewrite app_assoc in Hh2.
      apply holds_app in Hh2. tauto. }
    pose proof (string_part_run b c i r stop Hr Hstop Hrs) as Hsp.
    pose proof (holds_range _ _ _ Hrs) as R. rewrite app_length in R. cbn [length] in R.
    assert (Hlen : len (x0 :: t0) = len r + len u1). { rewrite Hs, app_length. lia. }
    destruct fuel as [|f]; [simpl in Hf; lia|].
    cbn [char_array_loop]. rewrite Hgz. replace (z =? 34) with false by (symmetry; lia).
    rewrite Hsp. replace (i + len r =? blen b) with false by (symmetry; lia).
    rewrite (slice_holds b i r (i + len r) Hrun eq_refl).
    replace (i + len r - i) with (len r) by lia.
    replace (n <? len r) with false by (symmetry; lia). cbn [andb].
    rewrite take_z_all.
    destruct u1 as [|x t].
    + (* the run reaches the closing quote *)
      rewrite Hst in Hh3. destruct Hh3 as [Hg _].
      simpl in Hst. inversion Hst; subst stop rest'. rewrite Hg. change (34 =? 34) with true. cbv iota.
      rewrite app_nil_r in Hs. rewrite Hs. change (print_string_body []) with (@nil Z).
      rewrite app_nil_r. reflexivity.
    + simpl in He1. rewrite body_cons in Hh3, Hf |- *. unfold print_byte in Hh3, Hf |- *.
      rewrite He1 in Hh3, Hf |- *.
      assert (Hbu : Forall in_u8 (x :: t)). { rewrite Hs in Hb. apply Forall_app in Hb. tauto. }
      inversion Hbu as [|? ? Hx Hbt]; subst.
      rewrite <- app_assoc in Hh3. apply holds_app in Hh3. destruct Hh3 as [Hesc Hh4].
      destruct (escape_roundtrip b c (i + len r) x) as [Hse Hg0]; [destruct Hx; lia | exact He1 | exact Hesc |].
      pose proof (holds_range _ _ _ Hh4) as R4. rewrite app_length in R4. cbn [length] in R4.
      rewrite Hg0. change (92 =? 34) with false. cbv iota.
      rewrite Hse.
      replace (i + len r + len (print_escape x) =? blen b) with false by (symmetry; lia).
      cbn [length] in Hlen, Hn. cbn [length].
      change (Z.of_nat 1) with 1.
      replace (n - len r <? 1) with false by (symmetry; lia). cbn [andb].
      change (take_z 1 [x]) with [x].
      assert (Hlt : (length t <= m)%nat).
      { rewrite Hs in Hm. rewrite app_length in Hm. cbn [length] in Hm. lia. }
      rewrite (IH t f b c _ (n - len r - 1) ((acc ++ r) ++ [x]) Hlt Hbt Hh4).
      * f_equal; [rewrite !app_length; lia|]. f_equal. f_equal.
        -- rewrite Hs. rewrite <- !app_assoc. reflexivity.
        -- lia.
      * lia.
      * rewrite !app_length in Hf. pose proof (print_escape_length x). lia.
Qed.

Definition underflow_rejected (c : pctx) (a : list Z) : bool :=
  negb (len a - len (strip_nuls a) =? 0) && has_flag c JF_reject_array_underflow.

(* exact result of parsing a printed char array back into an array of the same length *)
Lemma char_array_holds b c i a :
  Forall in_u8 a -> holds b i (print_char_array a) ->
  char_array b c i (len a) =
    if underflow_rejected c a
    then Ok (set_error c (i + len (print_char_array a) - 1) JE_array_underflow) (blen b) (strip_nuls a)
    else Ok c (i + len (print_char_array a)) a.
Proof.
  intros Hb Hh. unfold underflow_rejected. unfold print_char_array in *.
  destruct (strip_spec a) as [Ea Hla]. set (s := strip_nuls a) in *.
  assert (Hbs : Forall in_u8 s) by (apply strip_bytes; exact Hb).
  destruct Hh as [Hq Hh].
  pose proof (holds_range _ _ _ Hh) as R. rewrite app_length in R. cbn [length] in R.
  unfold char_array. rewrite (string_start_quote b c i Hq).
  replace (i + 1 =? blen b) with false by (symmetry; lia).
  rewrite (char_array_loop_ok (length s) s _ b c (i + 1) (len a) [] (le_n _) Hbs Hh);
    [| lia | unfold scan_fuel; lia].
  cbv iota beta. cbn [negb app].
  assert (Hlen : len (34 :: print_string_body s ++ [34]) = len (print_string_body s) + 2).
  { cbn [length]. rewrite app_length. cbn [length]. lia. }
  rewrite Hlen.
  apply holds_app in Hh. destruct Hh as [_ [Hg _]].
  destruct (negb (len a - len s =? 0) && has_flag c JF_reject_array_underflow) eqn:E.
  - f_equal. f_equal. lia.
  - rewrite (string_end_quote b c _ Hg). f_equal; [lia|].
    replace (Z.to_nat (len a - len s)) with (length a - length s)%nat by lia.
    symmetry. exact Ea.
Qed.

Lemma print_char_array_bytes a : Forall in_u8 a -> Forall in_u8 (print_char_array a).
Proof.
  intros H. unfold print_char_array. apply quoted_bytes. apply body_bytes. apply strip_bytes. exact H.
Qed.

Theorem char_array_roundtrip : forall a flags rest,
  Forall in_u8 a -> Z.land flags JF_reject_array_underflow = 0 ->
  exists c,
    char_array (of_list (print_char_array a ++ rest)) (ctx_init flags) 0 (Z.of_nat (length a))
      = Ok c (Z.of_nat (length (print_char_array a))) a /\ cerr c = 0.
Proof.
  intros a flags rest Hb Hf. exists (ctx_init flags). split; [|reflexivity].
  rewrite (char_array_holds _ (ctx_init flags) 0 a Hb)
    by (apply holds_of_list0; apply print_char_array_bytes; exact Hb).
  unfold underflow_rejected, has_flag. cbn [cflags ctx_init]. rewrite Hf.
  change (negb (0 =? 0)) with false. rewrite andb_false_r. reflexivity.
Qed.

(* with any flags, when the printer had nothing to strip *)
Theorem char_array_roundtrip_unstripped : forall a flags rest,
  Forall in_u8 a -> strip_nuls a = a ->
  exists c,
    char_array (of_list (print_char_array a ++ rest)) (ctx_init flags) 0 (Z.of_nat (length a))
      = Ok c (Z.of_nat (length (print_char_array a))) a /\ cerr c = 0.
Proof.
  intros a flags rest Hb Hs. exists (ctx_init flags). split; [|reflexivity].
  rewrite (char_array_holds _ (ctx_init flags) 0 a Hb)
    by (apply holds_of_list0; apply print_char_array_bytes; exact Hb).
  unfold underflow_rejected. rewrite Hs. rewrite Z.sub_diag. reflexivity.
Qed.

(* JF_reject_array_underflow makes the parser refuse what the printer wrote for an array ending in NUL *)
Theorem char_array_underflow_flag : forall a flags rest,
  Forall in_u8 a -> Z.land flags JF_reject_array_underflow <> 0 ->
  observe (char_array (of_list (print_char_array (a ++ [0]) ++ rest)) (ctx_init flags) 0
             (Z.of_nat (length (a ++ [0]))))
  = SErr JE_array_underflow (Z.of_nat (length (print_char_array (a ++ [0]))) - 1).
Proof.
  intros a flags rest Hb Hf.
  assert (Hb0 : Forall in_u8 (a ++ [0])).
  { apply Forall_app. split; [exact Hb|]. constructor; [unfold in_u8; lia | constructor]. }
  rewrite (char_array_holds _ (ctx_init flags) 0 (a ++ [0]) Hb0)
    by (apply holds_of_list0; apply print_char_array_bytes; exact Hb0).
  unfold underflow_rejected, has_flag. cbn [cflags ctx_init].
  rewrite strip_trailing_nul. destruct (strip_spec a) as [_ Hl].
  replace (negb (len (a ++ [0]) - len (strip_nuls a) =? 0)) with true
    by (symmetry; rewrite app_length; cbn [length]; lia).
  replace (negb (Z.land flags JF_reject_array_underflow =? 0)) with true by (symmetry; lia).
  cbn [andb]. reflexivity.
Qed.

(* ------------------------------------------------------------------ C05.4 strict output is an RFC 8259 string *)
Lemma json_hexdig_hexchar x : 0 <= x < 16 -> json_hexdig (hexchar x) = true.
Proof.
  intros Hx. pose (P := fun v => json_hexdig (hexchar v)).
  apply (range_forall P 16); [vm_compute; reflexivity | exact Hx].
Qed.

Lemma json_chars_simple e rest : json_simple_escape e = true -> json_chars (92 :: e :: rest) = json_chars rest.
Proof.
  intros He. cbn [json_chars]. change (92 =? 34) with false. change (92 =? 92) with true. cbv iota.
  rewrite He. reflexivity.
Qed.

Lemma json_chars_escape x rest :
  0 <= x < 256 -> json_chars (print_escape x ++ rest) = json_chars rest.
Proof.
  intros Hx. unfold print_escape.
  destruct (x =? 34). { apply json_chars_simple. reflexivity. }
  destruct (x =? 92). { apply json_chars_simple. reflexivity. }
  destruct (x =? 9). { apply json_chars_simple. reflexivity. }
  destruct (x =? 12). { apply json_chars_simple. reflexivity. }
  destruct (x =? 13). { apply json_chars_simple. reflexivity. }
  destruct (x =? 10). { apply json_chars_simple. reflexivity. }
  destruct (x =? 8). { apply json_chars_simple. reflexivity. }
  cbn [app json_chars]. change (92 =? 34) with false. change (92 =? 92) with true. cbv iota.
  change (json_simple_escape 117) with false. change (117 =? 117) with true. cbv iota.
  change (json_hexdig 48) with true.
  rewrite (json_hexdig_hexchar (x / 16)) by lia. rewrite (json_hexdig_hexchar (x mod 16)) by lia.
  reflexivity.
Qed.

Lemma json_chars_ascii x rest :
  needs_escape x = false -> 0 <= x <= 127 -> json_chars (x :: rest) = json_chars rest.
Proof.
  intros Hn Hx. unfold needs_escape in Hn. cbn [json_chars].
  replace (x =? 34) with false by (symmetry; lia). replace (x =? 92) with false by (symmetry; lia).
  replace (json_unescaped_ascii x) with true by (symmetry; unfold json_unescaped_ascii; lia).
  reflexivity.
Qed.

Lemma json_chars_high b0 t0 : 128 <= b0 ->
  json_chars (b0 :: t0) =
    match t0 with [] => false | b1 :: t1 =>
    if utf8_2 b0 b1 then json_chars t1 else
    match t1 with [] => false | b2 :: t2 =>
    if utf8_3 b0 b1 b2 then json_chars t2 else
    match t2 with [] => false | b3 :: t3 =>
    if utf8_4 b0 b1 b2 b3 then json_chars t3 else false
    end end end.
Proof.
  intros H. cbn [json_chars].
  replace (b0 =? 34) with false by (symmetry; lia). replace (b0 =? 92) with false by (symmetry; lia).
  replace (json_unescaped_ascii b0) with false by (symmetry; unfold json_unescaped_ascii; lia).
  reflexivity.
Qed.

Lemma body_high x t : 128 <= x -> print_string_body (x :: t) = x :: print_string_body t.
Proof.
  intros H. rewrite body_cons. unfold print_byte.
  replace (needs_escape x) with false by (symmetry; unfold needs_escape; lia). reflexivity.
Qed.

Lemma strict_body : forall n s, (length s <= n)%nat -> utf8_valid s = true ->
  json_chars (print_string_body s ++ [34]) = true.
Proof.
  induction n as [|n IH]; intros s Hl Hv.
  - destruct s; [reflexivity | simpl in Hl; lia].
  - destruct s as [|b0 t0]; [reflexivity|]. cbn [length] in Hl. cbn [utf8_valid] in Hv.
    destruct (utf8_1 b0) eqn:E1.
    { (* one ASCII byte *)
      unfold utf8_1 in E1. rewrite body_cons. unfold print_byte. rewrite <- app_assoc.
      destruct (needs_escape b0) eqn:En.
      - rewrite json_chars_escape by lia. apply IH; [lia | exact Hv].
      - cbn [app]. rewrite json_chars_ascii by (first [exact En | lia]). apply IH; [lia | exact Hv]. }
    destruct t0 as [|b1 t1]; [discriminate|]. cbn [length] in Hl.
    destruct (utf8_2 b0 b1) eqn:E2.
    { assert (R : 128 <= b0 /\ 128 <= b1) by (unfold utf8_2, utf8_tail in E2; lia).
      rewrite !body_high by tauto. cbn [app].
      rewrite json_chars_high by tauto. rewrite E2. apply IH; [lia | exact Hv]. }
    destruct t1 as [|b2 t2]; [discriminate|]. cbn [length] in Hl.
    destruct (utf8_3 b0 b1 b2) eqn:E3.
    { assert (R : 128 <= b0 /\ 128 <= b1 /\ 128 <= b2) by (unfold utf8_3, utf8_tail in E3; lia).
      rewrite !body_high by tauto. cbn [app].
      rewrite json_chars_high by tauto. rewrite E2, E3. apply IH; [lia | exact Hv]. }
    destruct t2 as [|b3 t3]; [discriminate|]. cbn [length] in Hl.
    destruct (utf8_4 b0 b1 b2 b3) eqn:E4; [|discriminate].
    assert (R : 128 <= b0 /\ 128 <= b1 /\ 128 <= b2 /\ 128 <= b3) by (unfold utf8_4, utf8_tail in E4; lia).
    rewrite !body_high by tauto. cbn [app].
    rewrite json_chars_high by tauto. rewrite E2, E3, E4. apply IH; [lia | exact Hv].
Qed.

Theorem strict_json_string : forall s, utf8_valid s = true -> rfc8259_string (print_string s) = true.
Proof.
  intros s Hv. change (rfc8259_string (print_string s)) with (json_chars (print_string_body s ++ [34])).
  exact (strict_body (length s) s (le_n _) Hv).
Qed.

(* print_char_array prints the stripped array the same way *)
Theorem strict_json_char_array : forall a, utf8_valid (strip_nuls a) = true ->
  rfc8259_string (print_char_array a) = true.
Proof. intros a Hv. exact (strict_json_string (strip_nuls a) Hv). Qed.

(* base64 text is a JSON string whatever the data *)
Theorem strict_json_base64 : forall url d, Forall in_u8 d -> rfc8259_string (print_base64 url d) = true.
Proof.
  intros url d Hb.
  change (rfc8259_string (print_base64 url d)) with (json_chars (base64_encode url true d ++ [34])).
  pose proof (encode_ascii_raw url true d Hb) as H.
  induction H as [|x t [Hr Hx] Ht IH]; [reflexivity|].
  cbn [app]. rewrite json_chars_ascii by (first [exact Hr | lia]). exact IH.
Qed.

(* ------------------------------------------------------------------ base64_decode stays inside its buffers *)
Lemma list_ind4 (P : list Z -> Prop) :
  P [] -> (forall a, P [a]) -> (forall a b, P [a; b]) -> (forall a b c, P [a; b; c]) ->
  (forall a b c d t, P t -> P (a :: b :: c :: d :: t)) -> forall l, P l.
Proof.
  intros H0 H1 H2 H3 H4. fix F 1. intros l.
  destruct l as [|a [|b [|c [|d t]]]]; [exact H0 | apply H1 | apply H2 | apply H3 | apply H4; apply F].
Qed.

Lemma decoded_size_facts n : 0 <= n ->
  0 <= base64_decoded_size n /\ (2 <= n -> 1 <= base64_decoded_size n) /\ (3 <= n -> 2 <= base64_decoded_size n) /\
  base64_decoded_size (n + 4) = base64_decoded_size n + 3.
Proof.
  intros Hn. unfold base64_decoded_size.
  replace ((n + 4) mod 4) with (n mod 4) by lia. replace ((n + 4) / 4 * 3) with (n / 4 * 3 + 3) by lia.
  destruct (n mod 4 =? 3) eqn:E3; [lia|]. destruct (n mod 4 =? 2) eqn:E2; lia.
Qed.

Lemma strip_pad_bound url : forall s i, i <= b64_strip_pad url s i <= i + len s.
Proof.
  induction s as [|ch t IH]; intros i; cbn [b64_strip_pad length]; [lia|].
  destruct (i <? 8); [|lia]. destruct (b64_dectab url ch =? 66); [|lia].
  specialize (IH (i + 1)). lia.
Qed.

Lemma stop_bound url h s i : i <= b64_stop url h s i <= i + 1 + len s.
Proof.
  unfold b64_stop. destruct (h =? 66); [|lia]. pose proof (strip_pad_bound url s (i + 1)). lia.
Qed.

Definition dec_bounded (r : Z * list Z * Z) (acc : list Z) (limit consumed : Z) (s : list Z) : Prop :=
  match r with (ret, out, n) =>
    len out <= len acc + limit /\ len out <= len acc + base64_decoded_size (len s) /\
    consumed <= n <= consumed + len s
  end.

Lemma tail_bounded k i h0 h1 h2 limit acc consumed s :
  0 <= limit -> 0 <= i <= len s -> (k = 0 \/ k = 1 \/ (k = 2 /\ 2 <= len s) \/ (k = 3 /\ 3 <= len s)) ->
  dec_bounded (b64_tail k i h0 h1 h2 limit acc consumed) acc limit consumed s.
Proof.
  intros Hl Hi Hk. destruct (decoded_size_facts (len s) ltac:(lia)) as (D0 & D2 & D3 & _).
  unfold b64_tail.
  destruct (k =? 0) eqn:K0. { unfold dec_bounded. lia. }
  destruct (k =? 2) eqn:K2.
  { destruct (negb ((h1 * 16) mod 256 =? 0)). { unfold dec_bounded. lia. }
    destruct (limit <? 1) eqn:L. { unfold dec_bounded. lia. }
    unfold dec_bounded. rewrite app_length. cbn [length]. lia. }
  destruct (k =? 3) eqn:K3.
  { destruct (negb ((h2 * 64) mod 256 =? 0)). { unfold dec_bounded. lia. }
    destruct (limit <? 2) eqn:L. { unfold dec_bounded. lia. }
    unfold dec_bounded. rewrite app_length. cbn [length]. lia. }
  unfold dec_bounded. lia.
Qed.

Lemma dec_loop_bounded url : forall s limit acc consumed, 0 <= limit ->
  dec_bounded (b64_dec_loop url s limit acc consumed) acc limit consumed s.
Proof.
  intros s. induction s as [| c0 | c0 c1 | c0 c1 c2 | c0 c1 c2 c3 t IH] using list_ind4;
    intros limit acc consumed Hl; cbn [b64_dec_loop].
  - destruct (limit <=? 0). { unfold dec_bounded; cbn [length]; unfold base64_decoded_size; simpl; lia. }
    apply tail_bounded; cbn [length]; lia.
  - pose proof (decoded_size_facts (len [c0]) ltac:(lia)) as (D0 & _).
    destruct (limit <=? 0). { unfold dec_bounded. lia. }
    destruct (64 <=? b64_dectab url c0).
    { pose proof (stop_bound url (b64_dectab url c0) [] 0). apply tail_bounded; cbn [length] in *; lia. }
    apply tail_bounded; cbn [length]; lia.
  - pose proof (decoded_size_facts (len [c0; c1]) ltac:(lia)) as (D0 & _).
    destruct (limit <=? 0). { unfold dec_bounded. lia. }
    destruct (64 <=? b64_dectab url c0).
    { pose proof (stop_bound url (b64_dectab url c0) [c1] 0). apply tail_bounded; cbn [length] in *; lia. }
    destruct (64 <=? b64_dectab url c1).
    { pose proof (stop_bound url (b64_dectab url c1) [] 1). apply tail_bounded; cbn [length] in *; lia. }
    apply tail_bounded; cbn [length]; lia.
  - pose proof (decoded_size_facts (len [c0; c1; c2]) ltac:(lia)) as (D0 & _).
    destruct (limit <=? 0). { unfold dec_bounded. lia. }
    destruct (64 <=? b64_dectab url c0).
    { pose proof (stop_bound url (b64_dectab url c0) [c1; c2] 0). apply tail_bounded; cbn [length] in *; lia. }
    destruct (64 <=? b64_dectab url c1).
    { pose proof (stop_bound url (b64_dectab url c1) [c2] 1). apply tail_bounded; cbn [length] in *; lia. }
    destruct (64 <=? b64_dectab url c2).
    { pose proof (stop_bound url (b64_dectab url c2) [] 2). apply tail_bounded; cbn [length] in *; lia. }
    apply tail_bounded; cbn [length]; lia.
  - pose proof (decoded_size_facts (len (c0 :: c1 :: c2 :: c3 :: t)) ltac:(lia)) as (D0 & _).
    destruct (limit <=? 0) eqn:L0. { unfold dec_bounded. lia. }
    destruct (64 <=? b64_dectab url c0).
    { pose proof (stop_bound url (b64_dectab url c0) (c1 :: c2 :: c3 :: t) 0).
      apply tail_bounded; cbn [length] in *; lia. }
    destruct (64 <=? b64_dectab url c1).
    { pose proof (stop_bound url (b64_dectab url c1) (c2 :: c3 :: t) 1).
      apply tail_bounded; cbn [length] in *; lia. }
    destruct (64 <=? b64_dectab url c2).
    { pose proof (stop_bound url (b64_dectab url c2) (c3 :: t) 2).
      apply tail_bounded; cbn [length] in *; lia. }
    destruct (64 <=? b64_dectab url c3).
    { pose proof (stop_bound url (b64_dectab url c3) t 3).
      apply tail_bounded; cbn [length] in *; lia. }
    destruct (limit <? 3) eqn:L3. { unfold dec_bounded. lia. }
    match goal with |- dec_bounded (b64_dec_loop url t ?lim ?acc' ?cons') _ _ _ _ =>
      pose proof (IH lim acc' cons' ltac:(lia)) as B;
      destruct (b64_dec_loop url t lim acc' cons') as [[ret out] n] end.
    unfold dec_bounded in *. rewrite app_length in B. cbn [length] in B.
    destruct (decoded_size_facts (len t) ltac:(lia)) as (_ & _ & _ & D4).
    replace (len (c0 :: c1 :: c2 :: c3 :: t)) with (len t + 4) by (cbn [length]; lia).
    rewrite D4. lia.
Qed.

(* for ANY source text: never more than dst_len bytes are written when dst_len > 0 (dst_len = 0 means
   "no limit" to the C function), never more than base64_decoded_size (source length) in any case - which is
   the size the JSON parser gives the vector before decoding - and the consumed count stays within the source *)
Theorem base64_decode_bounded : forall url src dst_len, 0 <= dst_len ->
  match base64_decode url src dst_len with
  | (ret, out, n) =>
    (0 < dst_len -> Z.of_nat (length out) <= dst_len) /\
    Z.of_nat (length out) <= base64_decoded_size (Z.of_nat (length src)) /\
    0 <= n <= Z.of_nat (length src)
  end.
Proof.
  intros url src dst_len Hd. unfold base64_decode.
  set (limit := if 0 <? dst_len then dst_len else SIZE_MAX).
  assert (Hl : 0 <= limit) by (unfold limit, SIZE_MAX; destruct (0 <? dst_len); lia).
  pose proof (dec_loop_bounded url src limit [] 0 Hl) as B.
  destruct (b64_dec_loop url src limit [] 0) as [[ret out] n].
  unfold dec_bounded in B. cbn [length] in B. split; [|lia].
  intros Hp. unfold limit in B. replace (0 <? dst_len) with true in B by (symmetry; lia). lia.
Qed.
