(* C05: the text codecs of the JSON printer (src/runtime/json_printer.c), the base64 codec both sides share
   (include/flatcc/portable/pbase64.h), the base64 field parser (src/runtime/json_parser.c:788) and two
   independent recognizers (RFC 3629 well-formed UTF-8, RFC 8259 section 7 string).

   Data are lists of bytes (Z in 0..255).  Where the C computes in uint8_t the wrap [u8] is written.
   size_t arithmetic (lengths, limits) is written without wrap: every such value below is bounded by a
   source/destination length, and `len * 4` in base64_encoded_size stays below 2^64 for len < 2^62
   (FlatBuffer vectors are shorter than 2^32).
   Output flushing (print/print_ex, the chunked loop of print_uint8_vector_base64_object) only decides
   WHERE the produced bytes go, not WHICH bytes are produced: the functions here return the produced byte
   sequence.  Buffer management is the subject of C11.
   No proofs in this file. *)
From Flatcc.Json Require Export Scanner.
Local Open Scope Z_scope.

(* ------------------------------------------------------------------ print_escape  (json_printer.c:197) *)
(* x += x < 10 ? '0' : 'a' - 10;   in unsigned char *)
Definition hexchar (x : Z) : Z := u8 (x + (if x <? 10 then 48 else 87)).

(* c is an unsigned char.  `c >> 4` is c / 16, `c & 15` is c mod 16. *)
Definition print_escape (c : Z) : list Z :=
  92 ::
  (if c =? 34 then [34]            (* QUOTE -> backslash QUOTE *)
   else if c =? 92 then [92]       (* backslash -> two backslashes *)
   else if c =? 9 then [116]       (* \t *)
   else if c =? 12 then [102]      (* \f *)
   else if c =? 13 then [114]      (* \r *)
   else if c =? 10 then [110]      (* \n *)
   else if c =? 8 then [98]        (* \b *)
   else [117; 48; 48; hexchar (c / 16); hexchar (c mod 16)]).

(* ------------------------------------------------------------------ print_string  (json_printer.c:235) *)
(* the run scanner continues while  c >= 0x20 && c != QUOTE && c != BACKSLASH  *)
Definition needs_escape (c : Z) : bool := (c <? 32) || (c =? 34) || (c =? 92).

Definition print_byte (c : Z) : list Z := if needs_escape c then print_escape c else [c].

(* The C loop alternates (1) scan a maximal run of bytes that need no escape, print it verbatim and
   (2) print_escape of the byte that stopped the scan.  The scan has no length test: it relies on the NUL
   terminator every FlatBuffer string has at s[n], which stops the scan (0 < 0x20).  After a run, `n -= k`;
   n == 0 means the stopping byte WAS the terminator and the loop ends; otherwise the stopping byte is one of
   the n string bytes (possibly an embedded NUL, printed as \u0000) and is escaped.  Hence every one of the n
   bytes is emitted exactly once, in order, verbatim when it needs no escape and through print_escape when it
   does: the per-byte formulation below.  [s] is the n string bytes WITHOUT the terminator. *)
Definition print_string_body (s : list Z) : list Z := flat_map print_byte s.
Definition print_string (s : list Z) : list Z := 34 :: print_string_body s ++ [34].

(* ------------------------------------------------------------------ print_char_array  (json_printer.c:266) *)
(* while (n > 0 && s[n - 1] == '\0') --n; *)
Fixpoint strip_nuls (a : list Z) : list Z :=
  match a with
  | [] => []
  | x :: t => match strip_nuls t with
              | [] => if x =? 0 then [] else [x]
              | t' => x :: t'
              end
  end.

(* the same alternation as print_string, but the run scanner tests the remaining length (`while (n)`) instead
   of relying on a terminator *)
Definition print_char_array (a : list Z) : list Z := 34 :: print_string_body (strip_nuls a) ++ [34].

(* ------------------------------------------------------------------ pbase64.h *)
(* T = rfc4648_alphabet / url_alphabet (the two string literals) *)
Definition b64_alphabet_rfc4648 : list Z := [
   65; 66; 67; 68; 69; 70; 71; 72; 73; 74; 75; 76; 77; 78; 79; 80;
   81; 82; 83; 84; 85; 86; 87; 88; 89; 90; 97; 98; 99; 100; 101; 102;
   103; 104; 105; 106; 107; 108; 109; 110; 111; 112; 113; 114; 115; 116; 117; 118;
   119; 120; 121; 122; 48; 49; 50; 51; 52; 53; 54; 55; 56; 57; 43; 47].
Definition b64_alphabet_url : list Z := [
   65; 66; 67; 68; 69; 70; 71; 72; 73; 74; 75; 76; 77; 78; 79; 80;
   81; 82; 83; 84; 85; 86; 87; 88; 89; 90; 97; 98; 99; 100; 101; 102;
   103; 104; 105; 106; 107; 108; 109; 110; 111; 112; 113; 114; 115; 116; 117; 118;
   119; 120; 121; 122; 48; 49; 50; 51; 52; 53; 54; 55; 56; 57; 45; 95].

(* T[v]; every index the encoder forms is in 0..63 *)
Definition b64_alphabet (url : bool) (v : Z) : Z :=
  nthZ (if url then b64_alphabet_url else b64_alphabet_rfc4648) (Z.to_nat v).

(* base64rfc4648_decode[256] / base64url_decode[256]: 0..63 value, 64 cinvalid, 66 cpadding.
   The two *_skipspace tables (the only ones containing 65 = cignore) are selected by
   base64_dec_modifier_skipspace, which the JSON parser never sets: they are not modelled, and neither is
   the `hold[i] == cignore` branch they alone can reach. *)
Definition b64_dectab_rfc4648 : list Z := [
   64; 64; 64; 64; 64; 64; 64; 64; 64; 64; 64; 64; 64; 64; 64; 64;
   64; 64; 64; 64; 64; 64; 64; 64; 64; 64; 64; 64; 64; 64; 64; 64;
   64; 64; 64; 64; 64; 64; 64; 64; 64; 64; 64; 62; 64; 64; 64; 63;
   52; 53; 54; 55; 56; 57; 58; 59; 60; 61; 64; 64; 64; 66; 64; 64;
   64;  0;  1;  2;  3;  4;  5;  6;  7;  8;  9; 10; 11; 12; 13; 14;
   15; 16; 17; 18; 19; 20; 21; 22; 23; 24; 25; 64; 64; 64; 64; 64;
   64; 26; 27; 28; 29; 30; 31; 32; 33; 34; 35; 36; 37; 38; 39; 40;
   41; 42; 43; 44; 45; 46; 47; 48; 49; 50; 51; 64; 64; 64; 64; 64;
   64; 64; 64; 64; 64; 64; 64; 64; 64; 64; 64; 64; 64; 64; 64; 64;
   64; 64; 64; 64; 64; 64; 64; 64; 64; 64; 64; 64; 64; 64; 64; 64;
   64; 64; 64; 64; 64; 64; 64; 64; 64; 64; 64; 64; 64; 64; 64; 64;
   64; 64; 64; 64; 64; 64; 64; 64; 64; 64; 64; 64; 64; 64; 64; 64;
   64; 64; 64; 64; 64; 64; 64; 64; 64; 64; 64; 64; 64; 64; 64; 64;
   64; 64; 64; 64; 64; 64; 64; 64; 64; 64; 64; 64; 64; 64; 64; 64;
   64; 64; 64; 64; 64; 64; 64; 64; 64; 64; 64; 64; 64; 64; 64; 64;
   64; 64; 64; 64; 64; 64; 64; 64; 64; 64; 64; 64; 64; 64; 64; 64].
Definition b64_dectab_url : list Z := [
   64; 64; 64; 64; 64; 64; 64; 64; 64; 64; 64; 64; 64; 64; 64; 64;
   64; 64; 64; 64; 64; 64; 64; 64; 64; 64; 64; 64; 64; 64; 64; 64;
   64; 64; 64; 64; 64; 64; 64; 64; 64; 64; 64; 64; 64; 62; 64; 64;
   52; 53; 54; 55; 56; 57; 58; 59; 60; 61; 64; 64; 64; 66; 64; 64;
   64;  0;  1;  2;  3;  4;  5;  6;  7;  8;  9; 10; 11; 12; 13; 14;
   15; 16; 17; 18; 19; 20; 21; 22; 23; 24; 25; 64; 64; 64; 64; 63;
   64; 26; 27; 28; 29; 30; 31; 32; 33; 34; 35; 36; 37; 38; 39; 40;
   41; 42; 43; 44; 45; 46; 47; 48; 49; 50; 51; 64; 64; 64; 64; 64;
   64; 64; 64; 64; 64; 64; 64; 64; 64; 64; 64; 64; 64; 64; 64; 64;
   64; 64; 64; 64; 64; 64; 64; 64; 64; 64; 64; 64; 64; 64; 64; 64;
   64; 64; 64; 64; 64; 64; 64; 64; 64; 64; 64; 64; 64; 64; 64; 64;
   64; 64; 64; 64; 64; 64; 64; 64; 64; 64; 64; 64; 64; 64; 64; 64;
   64; 64; 64; 64; 64; 64; 64; 64; 64; 64; 64; 64; 64; 64; 64; 64;
   64; 64; 64; 64; 64; 64; 64; 64; 64; 64; 64; 64; 64; 64; 64; 64;
   64; 64; 64; 64; 64; 64; 64; 64; 64; 64; 64; 64; 64; 64; 64; 64;
   64; 64; 64; 64; 64; 64; 64; 64; 64; 64; 64; 64; 64; 64; 64; 64].

(* T[src[i]] for a source byte ch (outside 0..255 cannot happen for uint8_t; answered cinvalid) *)
Definition b64_dectab (url : bool) (ch : Z) : Z :=
  if (0 <=? ch) && (ch <? 256)
  then nthZ (if url then b64_dectab_url else b64_dectab_rfc4648) (Z.to_nat ch)
  else 64.

(* base64_encoded_size: n = (len * 4 / 3 + 3) & ~3  is  ((len * 4 / 3 + 3) / 4) * 4 *)
Definition base64_encoded_size (len : Z) (pad : bool) : Z :=
  let k := len mod 3 in
  let n := (len * 4 / 3 + 3) / 4 * 4 in
  if pad then n else
  if k =? 2 then n - 1 else if k =? 1 then n - 2 else n.

Definition base64_decoded_size (len : Z) : Z :=
  let k := len mod 4 in
  let n := len / 4 * 3 in
  if k =? 3 then n + 2 else if k =? 2 then n + 1 else n.

(* base64_encode with dst_len = 0 and *src_len = length d (mode rfc4648 or url, so ret = BASE64_EOK and the whole
   source is consumed): the bytes written to dst.  On uint8_t operands promoted to int:
     src[0] >> 2                          = s0 / 4
     ((src[0] << 4) & 0x30) | (src[1] >> 4) = (s0 mod 4) * 16 + s1 / 16     (bits 4-5 and bits 0-3: disjoint, | is +)
     ((src[1] << 2) & 0x3c) | (src[2] >> 6) = (s1 mod 16) * 4 + s2 / 64     (bits 2-5 and bits 0-1: disjoint)
     src[2] & 0x3f                        = s2 mod 64
   print_uint8_vector_base64_object encodes a long vector in chunks of k*3/4 source bytes (k a multiple of 4,
   unpadded mode) before the final call: whole 3-byte groups, so the concatenation is the single-call output. *)
Fixpoint base64_encode (url pad : bool) (d : list Z) : list Z :=
  match d with
  | s0 :: s1 :: s2 :: rest =>
      b64_alphabet url (s0 / 4) ::
      b64_alphabet url ((s0 mod 4) * 16 + s1 / 16) ::
      b64_alphabet url ((s1 mod 16) * 4 + s2 / 64) ::
      b64_alphabet url (s2 mod 64) :: base64_encode url pad rest
  | [s0; s1] =>                                                             (* case 2 *)
      b64_alphabet url (s0 / 4) ::
      b64_alphabet url ((s0 mod 4) * 16 + s1 / 16) ::
      b64_alphabet url ((s1 mod 16) * 4) :: (if pad then [61] else [])
  | [s0] =>                                                                 (* case 1 *)
      b64_alphabet url (s0 / 4) ::
      b64_alphabet url ((s0 mod 4) * 16) :: (if pad then [61; 61] else [])
  | [] => []
  end.

(* base64_decode, always called with both src_len and dst_len non-null.
   Result: (ret, the bytes written to dst = dst[0 .. *dst_len), *src_len on return). *)
Definition SIZE_MAX : Z := 18446744073709551615.

(* `++i; while (i < len && i < 8) { if (T[src[i]] != cpadding && T[src[i]] != cignore) break; ++i; }`
   [s] = the source from src[i] on, so `i < len` is `s <> []`. Returns the final i. *)
Fixpoint b64_strip_pad (url : bool) (s : list Z) (i : Z) : Z :=
  match s with
  | [] => i
  | ch :: s' =>
    if i <? 8 then
      if b64_dectab url ch =? 66 then b64_strip_pad url s' (i + 1) else i
    else i
  end.

(* the value of i at `len -= i; goto tail` when hold[i] >= cinvalid: [s'] = source from src[i + 1] on *)
Definition b64_stop (url : bool) (h : Z) (s' : list Z) (i : Z) : Z :=
  if h =? 66 then b64_strip_pad url s' (i + 1) else i.

(* label tail: k symbols held, i source bytes taken by this partial block.  [consumed] = *src_len(in) - mark at
   the start of the block.  Success paths set mark = len (after `len -= i`): consumed + i; the error paths leave
   mark at the block start.  hold[] < 64, so in int:
     (hold[1] << 4) & 0xff            = (h1 * 16) mod 256
     (hold[2] << 6) & 0xff            = (h2 * 64) mod 256
     (hold[0] << 2) | (hold[1] >> 4)  = h0 * 4 + h1 / 16     (multiple of 4 below 256, and a value below 4)
     (hold[1] << 4) | (hold[2] >> 2)  = h1 * 16 + h2 / 4     (multiple of 16, and a value below 16)
   each then cast to uint8_t. *)
Definition b64_tail (k i h0 h1 h2 limit : Z) (acc : list Z) (consumed : Z) : Z * list Z * Z :=
  if k =? 0 then (B64_EOK, acc, consumed + i)
  else if k =? 2 then
    if negb ((h1 * 16) mod 256 =? 0) then (B64_EDIRTY, acc, consumed)
    else if limit <? 1 then (B64_EMORE, acc, consumed)
    else (B64_EOK, acc ++ [u8 (h0 * 4 + h1 / 16)], consumed + i)
  else if k =? 3 then
    if negb ((h2 * 64) mod 256 =? 0) then (B64_EDIRTY, acc, consumed)
    else if limit <? 2 then (B64_EMORE, acc, consumed)
    else (B64_EOK, acc ++ [u8 (h0 * 4 + h1 / 16); u8 (h1 * 16 + h2 / 4)], consumed + i)
  else (B64_ETAIL, acc, consumed).

(* `while (limit > 0) { for (i = 0; i < 4; ++i) { ... } ... }` with the for loop unrolled; [s] = the source from
   src on (so `len == i` means s has exactly i elements), [acc] = dst_base[0 .. dst - dst_base).
     (hold[2] << 6) | hold[3] = h2 * 64 + h3     (multiple of 64, and a value below 64) *)
Fixpoint b64_dec_loop (url : bool) (s : list Z) (limit : Z) (acc : list Z) (consumed : Z) : Z * list Z * Z :=
  if limit <=? 0 then (B64_EOK, acc, consumed) else
  match s with
  | [] => b64_tail 0 0 0 0 0 limit acc consumed
  | c0 :: s1 =>
    let h0 := b64_dectab url c0 in
    if 64 <=? h0 then b64_tail 0 (b64_stop url h0 s1 0) 0 0 0 limit acc consumed else
    match s1 with
    | [] => b64_tail 1 1 h0 0 0 limit acc consumed
    | c1 :: s2 =>
      let h1 := b64_dectab url c1 in
      if 64 <=? h1 then b64_tail 1 (b64_stop url h1 s2 1) h0 0 0 limit acc consumed else
      match s2 with
      | [] => b64_tail 2 2 h0 h1 0 limit acc consumed
      | c2 :: s3 =>
        let h2 := b64_dectab url c2 in
        if 64 <=? h2 then b64_tail 2 (b64_stop url h2 s3 2) h0 h1 0 limit acc consumed else
        match s3 with
        | [] => b64_tail 3 3 h0 h1 h2 limit acc consumed
        | c3 :: s4 =>
          let h3 := b64_dectab url c3 in
          if 64 <=? h3 then b64_tail 3 (b64_stop url h3 s4 3) h0 h1 h2 limit acc consumed else
          if limit <? 3 then (B64_EMORE, acc, consumed) else
          b64_dec_loop url s4 (limit - 3)
            (acc ++ [u8 (h0 * 4 + h1 / 16); u8 (h1 * 16 + h2 / 4); u8 (h2 * 64 + h3)]) (consumed + 4)
        end
      end
    end
  end.

(* `if (dst_len && *dst_len > 0) limit = *dst_len;` else limit stays (size_t)-1 *)
Definition base64_decode (url : bool) (src : list Z) (dst_len : Z) : Z * list Z * Z :=
  b64_dec_loop url src (if 0 <? dst_len then dst_len else SIZE_MAX) [] 0.

(* ------------------------------------------------------------------ the base64 field, both sides *)
(* print_uint8_vector_base64_object called from flatcc_json_printer_uint8_vector_base64_field (json_printer.c:729):
   mode = url or rfc4648, always | base64_enc_modifier_padding *)
Definition print_base64 (url : bool) (d : list Z) : list Z := 34 :: base64_encode url true d ++ [34].

(* flatcc_json_parser_build_uint8_vector_base64 (json_parser.c:788); value = the vector handed to the builder
   (after truncate_vector), [] on the error paths (`*ref = 0`); builder failures are outside this model. *)
Definition parse_base64 (urlsafe : bool) (b : buf) (c : pctx) (i : Z) : res (list Z) :=
  let err := if urlsafe then JE_base64url else JE_base64 in
  do! c1, m, _u <- string_start b c i;
  do! c2, p, _u2 <- string_part b c1 m;
  let quoted := if p =? blen b then Some false else match get b p with None => None | Some x => Some (x =? 34) end in
  match quoted with
  | None => Oob
  | Some false => fail b c2 p err []
  | Some true =>
    sl! text <- b @[m, p];
    let max_len := base64_decoded_size (p - m) in
    let '(ret, dec, src_len) := base64_decode urlsafe text max_len in
    if negb (ret =? 0) then fail b c2 (m + src_len) err [] else
    if negb (src_len =? p - m) then fail b c2 (m + src_len) err [] else
    do! c3, q, _u3 <- string_end b c2 p; Ok c3 q dec
  end.

(* ------------------------------------------------------------------ recognizers (independent of flatcc) *)
(* RFC 3629 section 4:
     UTF8-1 = %x00-7F                         UTF8-tail = %x80-BF
     UTF8-2 = %xC2-DF UTF8-tail
     UTF8-3 = %xE0 %xA0-BF UTF8-tail / %xE1-EC 2( UTF8-tail ) / %xED %x80-9F UTF8-tail / %xEE-EF 2( UTF8-tail )
     UTF8-4 = %xF0 %x90-BF 2( UTF8-tail ) / %xF1-F3 3( UTF8-tail ) / %xF4 %x80-8F 2( UTF8-tail )            *)
Definition utf8_tail (x : Z) : bool := (128 <=? x) && (x <=? 191).
Definition utf8_1 (b0 : Z) : bool := (0 <=? b0) && (b0 <=? 127).
Definition utf8_2 (b0 b1 : Z) : bool := (194 <=? b0) && (b0 <=? 223) && utf8_tail b1.
Definition utf8_3 (b0 b1 b2 : Z) : bool :=
  ((b0 =? 224) && (160 <=? b1) && (b1 <=? 191)
   || (225 <=? b0) && (b0 <=? 236) && utf8_tail b1
   || (b0 =? 237) && (128 <=? b1) && (b1 <=? 159)
   || (238 <=? b0) && (b0 <=? 239) && utf8_tail b1) && utf8_tail b2.
Definition utf8_4 (b0 b1 b2 b3 : Z) : bool :=
  ((b0 =? 240) && (144 <=? b1) && (b1 <=? 191)
   || (241 <=? b0) && (b0 <=? 243) && utf8_tail b1
   || (b0 =? 244) && (128 <=? b1) && (b1 <=? 143)) && utf8_tail b2 && utf8_tail b3.

(* UTF8-octets = *( UTF8-char ) *)
Fixpoint utf8_valid (s : list Z) : bool :=
  match s with
  | [] => true
  | b0 :: t0 =>
    if utf8_1 b0 then utf8_valid t0 else
    match t0 with [] => false | b1 :: t1 =>
    if utf8_2 b0 b1 then utf8_valid t1 else
    match t1 with [] => false | b2 :: t2 =>
    if utf8_3 b0 b1 b2 then utf8_valid t2 else
    match t2 with [] => false | b3 :: t3 =>
    if utf8_4 b0 b1 b2 b3 then utf8_valid t3 else false
    end end end
  end.

(* RFC 8259 section 7:
     string = quotation-mark *char quotation-mark
     char = unescaped / escape ( %x22 / %x5C / %x2F / %x62 / %x66 / %x6E / %x72 / %x74 / %x75 4HEXDIG )
     unescaped = %x20-21 / %x23-5B / %x5D-10FFFF
   over the UTF-8 encoding of the text (section 8.1): an unescaped code point above 7F is one well-formed
   UTF-8 sequence.  HEXDIG (RFC 5234) is case insensitive. *)
Definition json_unescaped_ascii (x : Z) : bool :=
  (32 <=? x) && (x <=? 33) || (35 <=? x) && (x <=? 91) || (93 <=? x) && (x <=? 127).
Definition json_simple_escape (x : Z) : bool :=
  (x =? 34) || (x =? 92) || (x =? 47) || (x =? 98) || (x =? 102) || (x =? 110) || (x =? 114) || (x =? 116).
Definition json_hexdig (x : Z) : bool :=
  (48 <=? x) && (x <=? 57) || (65 <=? x) && (x <=? 70) || (97 <=? x) && (x <=? 102).

(* *char quotation-mark, and nothing after it *)
Fixpoint json_chars (s : list Z) : bool :=
  match s with
  | [] => false
  | b0 :: t0 =>
    if b0 =? 34 then (match t0 with [] => true | _ :: _ => false end) else
    if b0 =? 92 then
      match t0 with [] => false | e :: t1 =>
        if json_simple_escape e then json_chars t1 else
        if e =? 117 then
          match t1 with
          | h0 :: h1 :: h2 :: h3 :: t5 =>
            json_hexdig h0 && json_hexdig h1 && json_hexdig h2 && json_hexdig h3 && json_chars t5
          | _ => false
          end
        else false
      end
    else
    if json_unescaped_ascii b0 then json_chars t0 else
    match t0 with [] => false | b1 :: t1 =>
    if utf8_2 b0 b1 then json_chars t1 else
    match t1 with [] => false | b2 :: t2 =>
    if utf8_3 b0 b1 b2 then json_chars t2 else
    match t2 with [] => false | b3 :: t3 =>
    if utf8_4 b0 b1 b2 b3 then json_chars t3 else false
    end end end
  end.

Definition rfc8259_string (s : list Z) : bool :=
  match s with
  | 34 :: t => json_chars t
  | _ => false
  end.
