(* modelrun_refmap: line protocol over the extracted C18 model.
   seq <m|n> <op> <op> ...   one operation sequence from flatcc_refmap_init; m = extracted refmap_hash,
                             n = the same finalizer on native Int64 (the theorems hold for every hash function;
                             `hash`/`nhash` lines let the check compare the two and the C on samples)
     i<src>,<ref>,<a>  insert (a: 1 calloc answers, 0 calloc refuses)   -> [F]<ret>/<count>/<buckets>
     f<src>            find                                              -> <ret>
     r<c>,<a>          resize                                            -> [F]<ret>/<count>/<buckets>
     z  reset, c  clear                                                  -> z/<count>/<buckets>
     d                 dump of occupied slots                            -> D<slot>:<src>:<ref>;...
   hash <src> / nhash <src>
   clone <root> <fuel> <node>:<child>,<child>;...   abstract memoized clone with the extracted refmap as memo *)
let int64_of_z z =
  let rec pos p = match p with XH -> 1L | XO q -> Int64.shift_left (pos q) 1 | XI q -> Int64.logor (Int64.shift_left (pos q) 1) 1L in
  match z with Z0 -> 0L | Zpos p -> pos p | Zneg p -> Int64.neg (pos p)
let z_of_int64u (x : int64) =
  if x = 0L then Z0 else begin
    (* most significant set bit *)
    let top = ref 63 in
    while Int64.logand (Int64.shift_right_logical x !top) 1L = 0L do decr top done;
    let p = ref XH in
    for b = !top - 1 downto 0 do
      p := if Int64.logand (Int64.shift_right_logical x b) 1L = 1L then XI !p else XO !p
    done;
    Zpos !p
  end
let native_hash (src : z) : z =
  let x = Int64.logxor (int64_of_z src) 0x2f693b52L in
  let x = Int64.logxor x (Int64.shift_right_logical x 33) in
  let x = Int64.mul x 0xff51afd7ed558ccdL in
  let x = Int64.logxor x (Int64.shift_right_logical x 33) in
  let x = Int64.mul x 0xc4ceb9fe1a85ec53L in
  let x = Int64.logxor x (Int64.shift_right_logical x 33) in
  z_of_int64u x

let split_on c s = String.split_on_char c s
let tail s = String.sub s 1 (String.length s - 1)

let run_seq hm ops =
  let hash = if hm = "n" then native_hash else refmap_hash in
  let b = Buffer.create 65536 in
  let m = ref rm_init in
  let dead = ref false in
  let st () = "/" ^ string_of_z !m.count ^ "/" ^ string_of_z !m.buckets in
  let first = ref true in
  let emit s = (if !first then first := false else Buffer.add_char b ' '); Buffer.add_string b s in
  List.iter (fun tok ->
    if !dead then emit "X" else
    match tok.[0] with
    | 'i' -> (match split_on ',' (tail tok) with
        | [s; r; a] -> (match insert hash (a = "1") !m (z_of_string s) (z_of_string r) with
            | Some (m', Done v) -> m := m'; emit (string_of_z v ^ st ())
            | Some (m', AllocFailed v) -> m := m'; emit ("F" ^ string_of_z v ^ st ())
            | None -> dead := true; emit "NONE")
        | _ -> emit "BAD")
    | 'f' -> (match find hash !m (z_of_string (tail tok)) with
        | Some v -> emit (string_of_z v)
        | None -> dead := true; emit "NONE")
    | 'r' -> (match split_on ',' (tail tok) with
        | [c; a] -> (match resize hash (a = "1") !m (z_of_string c) with
            | Some (m', Done v) -> m := m'; emit (string_of_z v ^ st ())
            | Some (m', AllocFailed v) -> m := m'; emit ("F" ^ string_of_z v ^ st ())
            | None -> dead := true; emit "NONE")
        | _ -> emit "BAD")
    | 'z' -> m := reset !m; emit ("z" ^ st ())
    | 'c' -> m := clear !m; emit ("c" ^ st ())
    | 'd' ->
        let n = int_of_z !m.buckets in
        let parts = ref [] in
        for j = n - 1 downto 0 do
          let (s, r) = tget !m.table (z_of_int j) in
          if s <> Z0 then parts := (string_of_int j ^ ":" ^ string_of_z s ^ ":" ^ string_of_z r) :: !parts
        done;
        emit ("D" ^ (if !parts = [] then "-" else String.concat ";" !parts))
    | _ -> emit "BAD") ops;
  Buffer.contents b

(* abstract clone with the extracted reference map as the memo *)
let run_clone root fuel graph =
  let tbl = Hashtbl.create 64 in
  if graph <> "-" then
    List.iter (fun part -> match split_on ':' part with
      | [n; cs] -> Hashtbl.replace tbl n (if cs = "" then [] else List.map z_of_string (split_on ',' cs))
      | _ -> failwith "graph") (split_on ';' graph);
  let children n = try Hashtbl.find tbl (string_of_z n) with Not_found -> [] in
  let mfind m k = match find refmap_hash m k with Some v -> v | None -> failwith "find: NONE" in
  let minsert m k r = match insert refmap_hash true m k r with Some (m', _) -> m' | None -> failwith "insert: NONE" in
  match clone mfind minsert children (nat_of_int fuel) { memo = rm_init; emitted = [] } (z_of_string root) with
  | None -> "NONE"
  | Some (st, r) -> string_of_z r ^ " " ^ string_of_z st.memo.count ^ " " ^ String.concat "," (List.map string_of_z st.emitted)

let handle = function
  | "seq" :: hm :: ops -> run_seq hm ops
  | ["hash"; s] -> string_of_z (refmap_hash (z_of_string s))
  | ["nhash"; s] -> string_of_z (native_hash (z_of_string s))
  | ["clone"; root; fuel; graph] -> run_clone root (int_of_string fuel) graph
  | l -> "BAD " ^ String.concat " " (List.filteri (fun i _ -> i < 4) l)
let () = main_loop handle
