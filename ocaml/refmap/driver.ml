(* modelrun_refmap: line protocol over the extracted C18 model.
   seq <m|n> <op> <op> ...   one operation sequence from flatcc_refmap_init; m = extracted refmap_hash,
                             n = the same finalizer on native Int64 (the theorems hold for every hash function;
                             `hash`/`nhash` lines let the check compare the two and the C on samples)
     The growth policy is an ORACLE: <g> is what the implementation was observed to do in this operation,
     F = the allocation was refused, <n> = the bucket count after the operation.
     i<src>,<ref>,<g>  insert            -> <ret>/<count> | F<ret>/<count> | POLICY/<count>/<buckets of the model>
     f<src>            find              -> <ret>
     r<c>,<g>          resize            -> <ret>/<count> | F<ret>/<count> | POLICY/<count>/<buckets of the model>
     z  reset, c  clear                  -> z/<count>
     d                 dump of occupied slots  -> D<slot>:<src>:<ref>;...
   hash <src> / nhash <src>
   refpolicy <count> <buckets> [<c>]   the bucket count the transcribed refmap.c policy chooses for an insert [a resize(c)] (diagnostic)
   clone <root> <fuel> <node>:<child>,<child>;...   abstract memoized clone with the extracted refmap as memo *)
let int64_of_z z =
  let rec pos p = match p with XH -> 1L | XO q -> Int64.shift_left (pos q) 1 | XI q -> Int64.logor (Int64.shift_left (pos q) 1) 1L in
  match z with Z0 -> 0L | Zpos p -> pos p | Zneg p -> Int64.neg (pos p)
let z_of_int64u (x : int64) =
  if x = 0L then Z0 else begin
    (* most significant set bit *)
    let top = ref 63 in
    while Int64.logand (Int64.shift_right_logical x !top) 1L = 0L do decr top done;
    let p = ref XH in
    for b = !top - 1 downto 0 do
      p := if Int64.logand (Int64.shift_right_logical x b) 1L = 1L then XI !p else XO !p
    done;
    Zpos !p
  end
let native_hash (src : z) : z =
  let x = Int64.logxor (int64_of_z src) 0x2f693b52L in
  let x = Int64.logxor x (Int64.shift_right_logical x 33) in
  let x = Int64.mul x 0xff51afd7ed558ccdL in
  let x = Int64.logxor x (Int64.shift_right_logical x 33) in
  let x = Int64.mul x 0xc4ceb9fe1a85ec53L in
  let x = Int64.logxor x (Int64.shift_right_logical x 33) in
  z_of_int64u x

let split_on c s = String.split_on_char c s
let tail s = String.sub s 1 (String.length s - 1)

let oracle_of g = if g = "F" then ORefused else OBuckets (z_of_string g)
let run_seq hm ops =
  let hash = if hm = "n" then native_hash else refmap_hash in
  let b = Buffer.create 65536 in
  let m = ref rm_init in
  let dead = ref false in
  let st () = "/" ^ string_of_z !m.count in
  let first = ref true in
  let emit s = (if !first then first := false else Buffer.add_char b ' '); Buffer.add_string b s in
  let outc = function
    | Some (m', Done v) -> m := m'; emit (string_of_z v ^ st ())
    | Some (m', AllocFailed v) -> m := m'; emit ("F" ^ string_of_z v ^ st ())
    | Some (m', BadPolicy) -> m := m'; emit ("POLICY" ^ st () ^ "/" ^ string_of_z !m.buckets)
    | None -> dead := true; emit "NONE" in
  List.iter (fun tok ->
    if !dead then emit "X" else
    match tok.[0] with
    | 'i' -> (match split_on ',' (tail tok) with
        | [s; r; g] -> outc (insert hash !m (z_of_string s) (z_of_string r) (oracle_of g))
        | _ -> emit "BAD")
    | 'f' -> (match find hash !m (z_of_string (tail tok)) with
        | Some v -> emit (string_of_z v)
        | None -> dead := true; emit "NONE")
    | 'r' -> (match split_on ',' (tail tok) with
        | [_; g] -> outc (resize hash !m (oracle_of g))
        | _ -> emit "BAD")
    | 'z' -> m := reset !m; emit ("z" ^ st ())
    | 'c' -> m := clear !m; emit ("c" ^ st ())
    | 'd' ->
        let n = int_of_z !m.buckets in
        let parts = ref [] in
        for j = n - 1 downto 0 do
          let (s, r) = tget !m.table (z_of_int j) in
          if s <> Z0 then parts := (string_of_int j ^ ":" ^ string_of_z s ^ ":" ^ string_of_z r) :: !parts
        done;
        emit ("D" ^ (if !parts = [] then "-" else String.concat ";" !parts))
    | _ -> emit "BAD") ops;
  Buffer.contents b

(* abstract clone with the extracted reference map as the memo *)
let run_clone root fuel graph =
  let tbl = Hashtbl.create 64 in
  if graph <> "-" then
    List.iter (fun part -> match split_on ':' part with
      | [n; cs] -> Hashtbl.replace tbl n (if cs = "" then [] else List.map z_of_string (split_on ',' cs))
      | _ -> failwith "graph") (split_on ';' graph);
  let children n = try Hashtbl.find tbl (string_of_z n) with Not_found -> [] in
  let mfind m k = match find refmap_hash m k with Some v -> v | None -> failwith "find: NONE" in
  let minsert m k r =
    let nb = match ref_insert_buckets m with Some nb -> nb | None -> failwith "reference policy: NONE" in
    match insert refmap_hash m k r (OBuckets nb) with Some (m', Done _) -> m' | Some _ -> failwith "insert: refused / policy" | None -> failwith "insert: NONE" in
  match clone mfind minsert children (nat_of_int fuel) { memo = rm_init; emitted = [] } (z_of_string root) with
  | None -> "NONE"
  | Some (st, r) -> string_of_z r ^ " " ^ string_of_z st.memo.count ^ " " ^ String.concat "," (List.map string_of_z st.emitted)

let handle = function
  | "seq" :: hm :: ops -> run_seq hm ops
  | ["hash"; s] -> string_of_z (refmap_hash (z_of_string s))
  | ["nhash"; s] -> string_of_z (native_hash (z_of_string s))
  | ["refpolicy"; c; b] -> (match ref_insert_buckets { count = z_of_string c; buckets = z_of_string b; table = TLeaf } with Some nb -> string_of_z nb | None -> "NONE")
  | ["refpolicy"; c; b; rq] -> (match ref_resize_buckets { count = z_of_string c; buckets = z_of_string b; table = TLeaf } (z_of_string rq) with Some nb -> string_of_z nb | None -> "NONE")
  | ["clone"; root; fuel; graph] -> run_clone root (int_of_string fuel) graph
  | l -> "BAD " ^ String.concat " " (List.filteri (fun i _ -> i < 4) l)
let () = main_loop handle
