(* modelrun_coerce: line protocol over the extracted C08 model.
   literal:  d+DIGITS d-DIGITS (decimal)   x+HEX x-HEX (hex digits after 0x)   b+1 b+0 b-1 b-0 (true/false)   f+ f- (float token)
   value  :  u:N  i:N  b:N  fi:N (float holding integer N)  fl (float literal)  none  inv
   every reply gives the corrected model first and the pinned-commit transcription second:  <fixed> | <cur>        *)
let digit c = match c with '0'..'9' -> Char.code c - 48 | 'a'..'f' -> Char.code c - 87 | 'A'..'F' -> Char.code c - 55 | _ -> failwith "digit"
let digits s = List.init (String.length s) (fun i -> ztab.(digit s.[i]))
let lit_of s =
  let n = String.length s in
  if n < 2 then failwith "lit";
  let neg = (s.[1] = '-') in
  let body = String.sub s 2 (n - 2) in
  match s.[0] with
  | 'd' -> LDec (neg, digits body)
  | 'x' -> LHex (neg, digits body)
  | 'b' -> LBool (neg, body = "1")
  | 'f' -> LFloat neg
  | _ -> failwith "lit"
let sty_of = function
  | "bool" -> Tbool | "ubyte" -> Tubyte | "char" -> Tchar | "byte" -> Tbyte | "ushort" -> Tushort | "short" -> Tshort
  | "uint" -> Tuint | "int" -> Tint | "ulong" -> Tulong | "long" -> Tlong | "float" -> Tfloat | "double" -> Tdouble
  | s -> failwith ("sty " ^ s)
let sv = function
  | VNone -> "none" | VUint u -> "u:" ^ string_of_z u | VInt i -> "i:" ^ string_of_z i | VBool b -> "b:" ^ string_of_z b
  | VFloatInt n -> "fi:" ^ string_of_z n | VFloatLit -> "fl" | VInvalid -> "inv"
let sres = function Ok v -> "OK " ^ sv v | Err -> "ERR"
let b01 s = (s = "1")
let members lexf s =
  if s = "-" then Some [] else
  let l = String.split_on_char ',' s in
  let vs = List.map (fun m -> if m = "_" then VNone else lexf (lit_of m)) l in
  if List.exists (fun v -> v = VInvalid) vs then None else Some vs
let senum = function None -> "ERR" | Some vs -> "OK " ^ String.concat "," (List.map sv vs)
let pair a b = a ^ " | " ^ b
let handle = function
  | ["lex"; l] -> pair (sv (lex (lit_of l))) (sv (lex_cur (lit_of l)))
  | ["fd"; abc; st; l] ->
      pair (sres (field_default (b01 abc) (sty_of st) (lit_of l))) (sres (field_default_cur (b01 abc) (sty_of st) (lit_of l)))
  | ["enum"; abc; asc; uniq; st; bf; ms] ->
      let run pe lexf = match members lexf ms with None -> "ERR"
        | Some vs -> senum (pe (b01 abc) (b01 asc) (b01 uniq) (sty_of st) (b01 bf) vs) in
      pair (run process_enum lex) (run process_enum_cur lex_cur)
  | ["alen"; l] ->
      let f lexf = match array_len (lexf (lit_of l)) with Some n -> "OK " ^ string_of_z n | None -> "ERR" in
      pair (f lex) (f lex_cur)
  | ["falign"; amax; l] ->
      let f lexf = match force_align_value (z_of_string amax) (lexf (lit_of l)) with Some n -> "OK " ^ string_of_z n | None -> "ERR" in
      pair (f lex) (f lex_cur)
  | ["struct"; smax; fa; ms] ->
      let m = List.map (fun s -> match String.split_on_char ':' s with
                                 | [a; b] -> (z_of_string a, z_of_string b) | _ -> failwith "member") (String.split_on_char ',' ms) in
      let f pc = match struct_layout pc (z_of_string smax) (z_of_string fa) m with
        | Some (sz, al) -> "OK " ^ string_of_z sz ^ " " ^ string_of_z al | None -> "ERR" in
      pair (f true) (f false)
  | ["exact"; p; n] -> if exact_in (z_of_string p) (z_of_string n) then "1" else "0"
  | l -> "BAD " ^ String.concat " " l
let () = main_loop handle
