(* modelrun_layout: line protocol over the extracted C07 models (struct layout, field ids).
   structs <struct_max> <force_align_max> <decl>;<decl>;...   decl = <force|-> ':' member,member,...
        member = s<size>x<len> (scalar/enum) | r<index>x<len> (earlier struct)       (no spaces inside)
     -> per struct  off,off,..:size:align  or  X  joined by ';'
   ids <vt_max> <field> ...    field = n<id|_> | u<id|_>   (u = union or union vector)
     -> count id:typeid ...  or  X
   align <size> <align> -> fb_align *)
let z = z_of_string
let split c s = if s = "" then [] else String.split_on_char c s
let parse_member s =
  let k = s.[0] in
  let rest = String.sub s 1 (String.length s - 1) in
  match String.split_on_char 'x' rest with
  | [a; n] -> if k = 's' then SScalar (z a, z n)
              else if k = 'r' then SRef (nat_of_int (int_of_string a), z n)
              else failwith "member"
  | _ -> failwith "member"
let parse_decl s =
  match String.index_opt s ':' with
  | None -> failwith "decl"
  | Some i ->
    let f = String.sub s 0 i and ms = String.sub s (i + 1) (String.length s - i - 1) in
    { sd_force = (if f = "-" then None else Some (z f)); sd_members = List.map parse_member (split ',' ms) }
let show_layout = function
  | None -> "X"
  | Some l -> String.concat "," (List.map string_of_z l.l_offsets) ^ ":" ^ string_of_z l.l_size ^ ":" ^ string_of_z l.l_align
let parse_field s =
  let u = (s.[0] = 'u') in
  let rest = String.sub s 1 (String.length s - 1) in
  { f_id = (if rest = "_" then None else Some (z rest)); f_union = u }
let handle = function
  | ["structs"; smax; amax; decls] ->
      let c = { struct_max = z smax; force_align_max = z amax } in
      let ds = List.map parse_decl (split ';' decls) in
      String.concat ";" (List.map show_layout (layout_structs c [] ds))
  | "ids" :: vt :: fields ->
      (match assign_ids (z vt) (List.map parse_field fields) with
       | None -> "X"
       | Some (ids, n) ->
         string_of_z n ^ String.concat "" (List.map (fun (v, t) ->
           " " ^ string_of_z v ^ ":" ^ (match t with Some t -> string_of_z t | None -> "-")) ids))
  | ["align"; s; a] -> string_of_z (fb_align (z s) (z a))
  | ["validalign"; amax; a] -> if is_valid_align { struct_max = Z0; force_align_max = z amax } (z a) then "1" else "0"
  | l -> "BAD " ^ String.concat " " l
let () = main_loop handle
