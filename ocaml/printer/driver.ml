(* modelrun_printer: line protocol over the extracted C11 model (zutil.ml.inc is prepended).
   value grammar (tokens):  N hex | ES symhex txthex | EF n hex*n txthex | EN txthex | S hex | B hex
                          | T n v*n | R n v*n | V k n v*n (k = n|s|p) | Z | K | F namehex v | U namehex v 0|1 v
   variant: four digits  fix_progress fix_b64 fix_end fix_sep  (1111 = repaired code, 0000 = pinned tree)
   run <variant> <mode f|d|l> <size> <oracle: - or comma separated block sizes handed back by realloc, 0 = failure> <indent> <unquote> <noenum> value *)
let zl h = zs_of_hex h
let rec pval = function
  | "N" :: h :: r -> VNum (zl h), r
  | "ES" :: s :: t :: r -> VEnum (ESym (zl s), zl t), r
  | "EF" :: n :: r ->
      let n = int_of_string n in
      let rec take k r acc = if k = 0 then List.rev acc, r else (match r with h :: r' -> take (k - 1) r' (zl h :: acc) | [] -> failwith "EF") in
      let syms, r = take n r [] in
      (match r with t :: r' -> VEnum (EFlags syms, zl t), r' | [] -> failwith "EF txt")
  | "EN" :: t :: r -> VEnum (ENum, zl t), r
  | "S" :: h :: r -> VStr (zl h), r
  | "B" :: h :: r -> VB64 (zl h), r
  | "T" :: n :: r -> let l, r = plist (int_of_string n) r in VTable l, r
  | "R" :: n :: r -> let l, r = plist (int_of_string n) r in VStruct l, r
  | "V" :: k :: n :: r ->
      let k = (match k with "n" -> VkNl | "s" -> VkSep | "p" -> VkPlain | _ -> failwith "vkind") in
      let l, r = plist (int_of_string n) r in VVec (k, l), r
  | "Z" :: r -> VNull, r
  | "K" :: r -> VSkip, r
  | "F" :: nm :: r -> let v, r = pval r in VField (zl nm, v), r
  | "U" :: nm :: r -> let ty, r = pval r in
      (match r with
       | pr :: r -> let m, r = pval r in VUnionField (zl nm, ty, pr = "1", m), r
       | [] -> failwith "U")
  | t :: _ -> failwith ("value token " ^ t)
  | [] -> failwith "value: end of input"
and plist n r = if n = 0 then [], r else let v, r = pval r in let l, r = plist (n - 1) r in v :: l, r

let variant s =
  if String.length s <> 4 then failwith "variant";
  let b i = s.[i] = '1' in
  { rSV = pRINT_RESERVE; fix_progress = b 0; fix_b64 = b 1 }, { fix_end = b 2; fix_sep = b 3 }
let flags ind unq noe = { indent = z_of_string ind; unquote = (unq = "1"); noenum = (noe = "1") }
let mode = function "f" -> Fixed | "d" -> Dynamic | "l" -> File | _ -> failwith "mode"

let thash (tr : z list) =
  List.fold_left (fun h v -> (h * 1000003 + (int_of_z v + 1073741824)) mod 1000000007) 7 tr
let b01 b = if b then "1" else "0"
(* ret:err:viol:term:obad:oracle-left : diagnostic ntr:trh *)
let summary (r : result) =
  Printf.sprintf "%d:%d:%s:%s:%s:%d:%d:%d" (int_of_z r.r_ret) (int_of_z r.r_err) (b01 r.r_viol) (b01 r.r_term)
    (b01 r.r_obad) (int_of_z r.r_orc_left) (List.length r.r_trace) (thash r.r_trace)
let oracle s = if s = "-" then [] else List.map z_of_string (String.split_on_char ',' s)

let handle = function
  | "text" :: var :: ind :: unq :: noe :: rest ->
      let c, o = variant var in let f = flags ind unq noe in
      let v, _ = pval rest in
      let ops = root_ops o f v in
      let wf = wfv pRINT_NUM_WRITE_MAX v && not (is_fieldlike v) in
      let ck = (match chk c Z0 ops with Some _ -> "1" | None -> "0") in
      Printf.sprintf "%s %s %s %d %s" (b01 wf) ck (b01 (no_perr ops)) (List.length ops) (hex_of_zs (text ops))
  | "run" :: var :: m :: size :: orc :: ind :: unq :: noe :: rest ->
      let c, o = variant var in let f = flags ind unq noe in
      let v, _ = pval rest in
      (match run_f c (root_ops o f v) (init c (mode m) (z_of_string size) (oracle orc)) with
       | None -> "HANG"
       | Some s -> let r = observe s in summary r ^ " " ^ hex_of_zs r.r_text ^ " " ^ String.concat "," (List.map string_of_z r.r_trace))
  | "sweep" :: var :: m :: from :: upto :: ind :: unq :: noe :: rest ->
      let c, o = variant var in let f = flags ind unq noe in
      let v, _ = pval rest in
      let ops = root_ops o f v in
      let a = int_of_string from and b = int_of_string upto in
      let buf = Buffer.create 4096 in
      for sz = a to b do
        if sz > a then Buffer.add_char buf ' ';
        (match run_f c ops (init c (mode m) (z_of_int sz) []) with
         | None -> Buffer.add_string buf "H"
         | Some s -> Buffer.add_string buf (summary (observe s)))
      done;
      Buffer.contents buf
  | "dsweep" :: var :: from :: upto :: orcs :: ind :: unq :: noe :: rest ->
      (* growing buffer, every initial size from..upto, one oracle per size separated by '/' *)
      let c, o = variant var in let f = flags ind unq noe in
      let v, _ = pval rest in
      let ops = root_ops o f v in
      let a = int_of_string from and b = int_of_string upto in
      let os = Array.of_list (String.split_on_char '/' orcs) in
      if Array.length os <> b - a + 1 then failwith "dsweep: oracle count";
      let buf = Buffer.create 4096 in
      for sz = a to b do
        if sz > a then Buffer.add_char buf ' ';
        (match run_f c ops (init c Dynamic (z_of_int sz) (oracle os.(sz - a))) with
         | None -> Buffer.add_string buf "H"
         | Some s -> Buffer.add_string buf (summary (observe s)))
      done;
      Buffer.contents buf
  | l -> "BAD " ^ String.concat " " l
let () = main_loop handle
