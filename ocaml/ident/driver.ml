(* modelrun_ident: line protocol over the extracted C17 model *)
let buf_of_hex s =
  let b = bytes_of_hex s in
  let n = Bytes.length b in
  { blen = z_of_int n; bget = (fun i -> let k = int_of_z i in if k >= 0 && k < n then ztab.(Char.code (Bytes.get b k)) else Z0) }
let req_of s =
  if s = "null" then ReqNull
  else if String.length s >= 2 && String.sub s 0 2 = "s:" then ReqString (zs_of_hex (String.sub s 2 (String.length s - 2)))
  else if String.length s >= 2 && String.sub s 0 2 = "h:" then ReqHash (z_of_string (String.sub s 2 (String.length s - 2)))
  else failwith "req"
let hres = function HOk n -> "OK " ^ string_of_z n | HErr c -> "ERR " ^ string_of_z c | HOob -> "OOB"
let ob = function Some true -> "1" | Some false -> "0" | None -> "OOB"
let handle = function
  | ["fnv"; h] -> string_of_z (fnv1a32 (zs_of_hex h))
  | ["name"; h] -> string_of_z (type_hash_from_name (zs_of_hex h))
  | ["compile"; name; scope] ->
      let sc = if scope = "-" then [] else List.map zs_of_hex (String.split_on_char ',' scope) in
      string_of_z (compile_type_hash sc (zs_of_hex name)) ^ " " ^ hex_of_zs (compile_type_identifier sc (zs_of_hex name))
  | ["idfromname"; h] -> hex_of_zs (identifier_from_name (zs_of_hex h))
  | ["idfromhash"; d] -> hex_of_zs (identifier_from_type_hash (z_of_string d))
  | ["hashfromid"; h] -> string_of_z (type_hash_from_identifier (zs_of_hex h))
  | ["hashfromstr"; h] -> string_of_z (type_hash_from_string (zs_of_hex h))
  | ["hdr"; "p"; addr; req; b] -> hres (verify_buffer_header (z_of_string addr) (buf_of_hex b) (req_of req))
  | ["hdr"; "s"; addr; req; b] -> hres (verify_buffer_header_with_size (z_of_string addr) (buf_of_hex b) (req_of req))
  | ["has"; base; req; b] -> ob (has_identifier (buf_of_hex b) (z_of_string base) (req_of req))
  | ["pacc"; req; b] -> ob (printer_accept_header (buf_of_hex b) (req_of req))
  | ["idfield"; "null"] -> hex_of_zs (builder_id_field None)
  | ["idfield"; h] -> hex_of_zs (builder_id_field (Some (zs_of_hex h)))
  | ["stored"; ws; b] -> (match stored_identifier (buf_of_hex b) (ws = "1") with Some v -> string_of_z v | None -> "OOB")
  | l -> "BAD " ^ String.concat " " l
let () = main_loop handle
