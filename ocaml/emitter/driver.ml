(* modelrun_emitter: line protocol over the extracted C12 models (Emitter/EmitterModel.v, Emitter/EmitModel.v).
   em <P> <tokens..>          one emitter session, same tokens / same reply format as harness/emitter_diff.c
   ef|eb <c|f> <start> <end> <accept> <lens|->   emit_front / emit_back with the guard as written (c) or fixed (f)
   rs <start> <end>           emit_start / emit_end after flatcc_builder_custom_reset
   sites                      the call-site inventory *)
let split_on c s = String.split_on_char c s
let pieces_of s = List.map zs_of_hex (split_on ',' s)
let zstr = string_of_z
let observe p st =
  let b = Buffer.create 4096 in
  let add = Buffer.add_string b in
  add (Printf.sprintf "{used=%s cap=%s avg=%s fl=%s bl=%s fc=%s bc=%s" (zstr st.used) (zstr st.cap) (zstr st.avg)
         (zstr st.fl) (zstr st.bl) (zstr st.fc) (zstr st.bc));
  add (" poff=" ^ (if st.pages = [] then "-" else String.concat "," (List.map (fun pg -> zstr pg.poff) st.pages)));
  add " ring=0";
  add (Printf.sprintf " pages=%d spare=%d" (List.length st.pages) (List.length st.spare));
  (match copy_buffer p st st.used with
   | CNull -> add " copy=null ret=null"
   | CBytes (out, r) -> add (" copy=" ^ hex_of_zs out ^ " ret=" ^ zstr r)
   | COob -> add " copy=OOB ret=OOB");
  (if int_of_z st.used > 0 then
     (match copy_buffer p st (z_of_int (int_of_z st.used - 1)) with
      | CNull -> add " small=null"
      | _ -> add " small=nonnull")
   else add " small=-");
  (match direct_buffer st with
   | (DNull, sz) -> add (" direct=null dsize=" ^ zstr sz)
   | (DBytes out, sz) -> add (" direct=" ^ hex_of_zs out ^ " dsize=" ^ zstr sz)
   | (DOob, sz) -> add (" direct=OOB dsize=" ^ zstr sz));
  add (" size=" ^ zstr (buffer_size st) ^ "}");
  Buffer.contents b

let session p toks =
  let fail_at = ref (-1) in
  let alloc n = if int_of_nat n = !fail_at then None else Some [] in
  let st = ref est_init in
  let start = ref 0 and fin = ref 0 in
  let out = ref [] in
  let failed = ref false in
  List.iter (fun t ->
    if not !failed then begin
      let n = String.length t in
      let r =
        if n >= 2 && (t.[0] = 'f' || t.[0] = 'b') && t.[1] = ':' then begin
          let iov = pieces_of (String.sub t 2 (n - 2)) in
          let total = List.fold_left (fun a c -> a + List.length c) 0 iov in
          let off = if t.[0] = 'f' then !start - total else !fin in
          match emitter p alloc !st iov (z_of_int off) (z_of_int total) with
          | Some st' -> st := st'; (if t.[0] = 'f' then start := !start - total else fin := !fin + total); "0"
          | None -> failed := true; "FAIL"
        end
        else if t = "r" || (n >= 2 && t.[0] = 'r' && t.[1] = ':') then begin
          (* r:<k> = reset keeping k spare pages (the implementation's observed pool policy); bare r keeps all *)
          let keep = if t = "r" then 1000000 else int_of_string (String.sub t 2 (n - 2)) in
          st := reset p (nat_of_int (min keep (List.length !st.pages + List.length !st.spare))) !st; start := 0; fin := 0;
          "r" ^ string_of_int (List.length !st.spare)
        end
        else if n >= 2 && t.[0] = 'y' && t.[1] = ':' then begin
          let i = int_of_string (String.sub t 2 (n - 2)) in
          match recycle !st (nat_of_int (List.length !st.pages + i)) with
          | Some (st', rc) -> st := st'; zstr rc
          | None -> "nopage"
        end
        else if n >= 2 && t.[0] = 'Y' && t.[1] = ':' then begin
          let i = int_of_string (String.sub t 2 (n - 2)) in
          match recycle !st (nat_of_int i) with
          | Some (st', rc) -> st := st'; zstr rc
          | None -> "nopage"
        end
        else if t = "z" then begin
          if !st.pages = [] || !st.spare = [] then "nopage" else
          match recycle !st (nat_of_int (List.length !st.pages + List.length !st.spare - 1)) with
          | Some (st', rc) -> st := st'; zstr rc
          | None -> "nopage"
        end
        else if t = "c" then (st := clear !st; start := 0; fin := 0; "c0")
        else if n >= 2 && t.[0] = 'A' && t.[1] = ':' then
          (fail_at := int_of_nat !st.nalloc + int_of_string (String.sub t 2 (n - 2)); "A")
        else if t = "o" then observe p !st
        else "BAD" in
      out := r :: !out
    end) toks;
  String.concat " " (List.rev !out) ^ " live=0"

let lens_of s = if s = "-" then [] else List.map z_of_string (split_on ',' s)
let show_call ((st, c), ret) =
  Printf.sprintf "ret=%s start=%s end=%s %s" (zstr ret) (zstr st.emit_start) (zstr st.emit_end)
    (match c with
     | None -> "call=none"
     | Some c -> Printf.sprintf "call=%s:%s:%s:%s" (zstr c.c_count) (zstr c.c_offset) (zstr c.c_len)
                   (if c.c_pieces = [] then "-" else String.concat "," (List.map zstr c.c_pieces)))

let handle = function
  | "em" :: p :: toks -> session (z_of_string p) toks
  | [dir; g; s; e; acc; lens] when dir = "ef" || dir = "eb" ->
      let iov = build_iov (List.map (fun l -> (l, true)) (lens_of lens)) in
      let st = { emit_start = z_of_string s; emit_end = z_of_string e } in
      let guard = if g = "c" then toolarge_c else toolarge_fixed in
      if dir = "ef" then show_call (emit_front guard st iov (acc = "1")) else show_call (emit_back st iov (acc = "1"))
  | ["rs"; s; e] ->
      let st = bst_reset { emit_start = z_of_string s; emit_end = z_of_string e } in
      Printf.sprintf "start=%s end=%s" (zstr st.emit_start) (zstr st.emit_end)
  | ["sites"] ->
      String.concat ";" (List.map (fun ((n, f), b) -> Printf.sprintf "%s:%s:%s" (zstr n) (if f then "F" else "-") (if b then "B" else "-")) site_inventory)
  | l -> "BAD " ^ String.concat " " l
let () = main_loop handle
