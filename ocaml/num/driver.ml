(* modelrun_num: line protocol over the extracted C19 model (Num/NumModel.v, Num/FloatOracle.v).
   Requests and replies are the same as those of harness/num_diff.c so that lines can be compared verbatim. *)
let zb = function "1" -> true | _ -> false
let sb b = if b then "1" else "0"
let pres (k, l) = string_of_z k ^ " " ^ hex_of_zs l
let pint = function
  | PEnd -> "END" | PUnmatched -> "UNMATCHED" | PInvalid -> "INVALID"
  | PRange u -> if u then "UNDERFLOW" else "OVERFLOW"
  | POk (neg, x, k) -> "OK " ^ sb neg ^ " " ^ string_of_z x ^ " " ^ string_of_z k
let tres = function
  | TEnd -> "END" | TUnmatched -> "UNMATCHED" | TInvalid -> "INVALID"
  | TRange u -> if u then "UNDERFLOW" else "OVERFLOW"
  | TOk (v, k) -> "OK " ^ string_of_z v ^ " " ^ string_of_z k
let jerr = function ErrRange -> "ERR RANGE" | ErrFloatUnexpected -> "ERR FLOAT"
let jint = function
  | JUnmatched -> "UNMATCHED" | JErr e -> jerr e
  | JOk (neg, x, k) -> "OK " ^ sb neg ^ " " ^ string_of_z x ^ " " ^ string_of_z k
let jres = function
  | JTUnmatched -> "UNMATCHED" | JTErr e -> jerr e
  | JTOk (v, k) -> "OK " ^ string_of_z v ^ " " ^ string_of_z k
let cres = function COk v -> "OK " ^ string_of_z v | CErr u -> if u then "ERR UNDERFLOW" else "ERR OVERFLOW"
let handle = function
  | ["pu"; "8"; n] -> pres (print_uint8 (z_of_string n))
  | ["pu"; "16"; n] -> pres (print_uint16 (z_of_string n))
  | ["pu"; "32"; n] -> pres (print_uint32 (z_of_string n))
  | ["pu"; "64"; n] -> pres (print_uint64 (z_of_string n))
  | ["pi"; "8"; n] -> pres (print_int8 (z_of_string n))
  | ["pi"; "16"; n] -> pres (print_int16 (z_of_string n))
  | ["pi"; "32"; n] -> pres (print_int32 (z_of_string n))
  | ["pi"; "64"; n] -> pres (print_int64 (z_of_string n))
  | ["pint"; h] -> pint (parse_integer (zs_of_hex h))
  | ["pint_current"; h] -> pint (parse_integer_current (zs_of_hex h))
  | ["ptyp"; ty; h] ->
      let s = zs_of_hex h in
      tres (match ty with
        | "u8" -> parse_uint8 s | "u16" -> parse_uint16 s | "u32" -> parse_uint32 s | "u64" -> parse_uint64 s
        | "i8" -> parse_int8 s | "i16" -> parse_int16 s | "i32" -> parse_int32 s | "i64" -> parse_int64 s
        | _ -> failwith "type")
  | ["jint"; h] -> jint (json_integer (zs_of_hex h))
  | ["jint_current"; h] -> jint (json_integer_current (zs_of_hex h))
  | ["jtyp"; ty; h] ->
      let s = zs_of_hex h in
      jres (match ty with
        | "u8" -> json_uint8 s | "u16" -> json_uint16 s | "u32" -> json_uint32 s | "u64" -> json_uint64 s
        | "i8" -> json_int8 s | "i16" -> json_int16 s | "i32" -> json_int32 s | "i64" -> json_int64 s
        | "bool" -> json_bool s
        | _ -> failwith "type")
  | ["coerce"; ty; neg; v] ->
      let n = zb neg and v = z_of_string v in
      cres (match ty with
        | "u8" -> coerce_uint8 n v | "u16" -> coerce_uint16 n v | "u32" -> coerce_uint32 n v | "u64" -> coerce_uint64 n v
        | "i8" -> coerce_int8 n v | "i16" -> coerce_int16 n v | "i32" -> coerce_int32 n v | "i64" -> coerce_int64 n v
        | "bool" -> coerce_bool n v
        | _ -> failwith "type")
  | ["decimal"; n] -> hex_of_zs (sdecimal (z_of_string n))
  | ["rt"; "32"; bits; neg; m; e] -> sb (rounds_to32 (z_of_string bits) (zb neg) (z_of_string m) (z_of_string e))
  | ["rt"; "64"; bits; neg; m; e] -> sb (rounds_to64 (z_of_string bits) (zb neg) (z_of_string m) (z_of_string e))
  | ["rtinf"; "32"; m; e] -> sb (rounds_to_inf32 (z_of_string m) (z_of_string e))
  | ["rtinf"; "64"; m; e] -> sb (rounds_to_inf64 (z_of_string m) (z_of_string e))
  | l -> "BAD " ^ String.concat " " l
let () = main_loop handle
