(* modelrun_builder: line protocol over the extracted builder model (C02/C03/C15).
   run <cmd> <cmd> ...                         -> OK refs=.. align=.. start=.. end=.. bytes=<hex> emits=<off>:<hex>;...   | FAIL
   dec <schema> <root> <ws 0|1> <depth> <align|0> <hex>  -> value tree text | NONE   (align: start aligned to that only)
   Script tokens (fields separated by ':'):
     S:<hex>  V:<esize>:<align>:<maxcount>:<count>:<hex>  R:<align>:<hex>  O:<r>,<r>..|O:-  U:<code>/<r|->,..|U:-
     T:<add>;<add>.. with add = i/<id>/<size>/<align>/<hex> | o/<id>/<r>   (T:- = no fields)
     B:<id>:<block_align>:<flags>  E:<r>  C:<id>:<block_align>:<r>:<align>:<flags>  M:<block_align>:<align>:<flags>:<hex>
     X:<clustering 0|1>:<block_align>:<id>
   Schema: <tables>#<unions>; tables '|'-separated, fields ';'-separated <id>,<req>,<kind>;
     kinds s:<size>:<align> str v:<esize>:<align>:<maxcount> sv t:<n> tv:<n> u:<n> uv:<n> nt:<align>:<n> ns:<size>:<align>
     unions '|'-separated, members ';'-separated <code>,(t:<n>|s:<size>:<align>|str).  '-' = empty list.
   Root: t:<n> | s:<size>:<align> *)
let zi = z_of_string
let split c s = if s = "-" || s = "" then [] else String.split_on_char c s
let nat_of_string s = nat_of_int (int_of_string s)

let parse_add s =
  match String.split_on_char '/' s with
  | ["i"; id; size; align; hex] -> TInline (zi id, zi size, zi align, zs_of_hex hex)
  | ["o"; id; r] -> TOffset (zi id, nat_of_string r)
  | _ -> failwith ("add: " ^ s)

let parse_cmd tok =
  match String.split_on_char ':' tok with
  | ["S"; h] -> CString (zs_of_hex h)
  | ["V"; es; al; mc; cnt; h] -> CVector (zi es, zi al, zi mc, zi cnt, zs_of_hex h)
  | ["R"; al; h] -> CStruct (zi al, zs_of_hex h)
  | ["O"; rs] -> COffVec (List.map nat_of_string (split ',' rs))
  | ["U"; es] -> CUnionVec (List.map (fun e -> match String.split_on_char '/' e with
                                     | [c; "-"] -> (zi c, None)
                                     | [c; r] -> (zi c, Some (nat_of_string r))
                                     | _ -> failwith "uelem") (split ',' es))
  | ["T"; adds] -> CTable (List.map parse_add (split ';' adds))
  | ["B"; id; ba; fl] -> CStartBuffer (zi id, zi ba, zi fl)
  | ["E"; r] -> CEndBuffer (nat_of_string r)
  | ["C"; id; ba; r; al; fl] -> CCreateBuffer (zi id, zi ba, nat_of_string r, zi al, zi fl)
  | ["M"; ba; al; fl; h] -> CEmbedBuffer (zi ba, zs_of_hex h, zi al, zi fl)
  | ["X"; cl; ba; id] -> CSettings (cl = "1", zi ba, zi id)
  | _ -> failwith ("cmd: " ^ tok)

let parse_kind l =
  match l with
  | ["s"; size; al] -> FScalar (zi size, zi al)
  | ["str"] -> FString
  | ["v"; es; al; mc] -> FVector (zi es, zi al, zi mc)
  | ["sv"] -> FStringVec
  | ["t"; n] -> FTable (nat_of_string n)
  | ["tv"; n] -> FTableVec (nat_of_string n)
  | ["u"; n] -> FUnion (nat_of_string n)
  | ["uv"; n] -> FUnionVec (nat_of_string n)
  | ["nt"; al; n] -> FNestedTable (zi al, nat_of_string n)
  | ["ns"; size; al] -> FNestedStruct (zi size, zi al)
  | _ -> failwith "kind"

let parse_field s =
  match String.split_on_char ',' s with
  | [id; req; k] -> { fid = zi id; frequired = (req = "1"); fk = parse_kind (String.split_on_char ':' k) }
  | _ -> failwith ("field: " ^ s)

let parse_member s =
  match String.split_on_char ',' s with
  | [code; k] -> (zi code, (match String.split_on_char ':' k with
                            | ["t"; n] -> UTable (nat_of_string n)
                            | ["s"; size; al] -> UStruct (zi size, zi al)
                            | ["str"] -> UString
                            | _ -> failwith "member"))
  | _ -> failwith ("member: " ^ s)

let parse_schema s =
  match String.split_on_char '#' s with
  | [ts; us] ->
    { tables = List.map (fun t -> List.map parse_field (split ';' t)) (split '|' ts);
      unions = List.map (fun u -> List.map parse_member (split ';' u)) (split '|' us) }
  | _ -> failwith "schema"

let parse_root s =
  match String.split_on_char ':' s with
  | ["t"; n] -> RTable (nat_of_string n)
  | ["s"; size; al] -> RStruct (zi size, zi al)
  | _ -> failwith "root"

let rec show_value v =
  match v with
  | VBytes bs -> "b" ^ hex_of_zs bs
  | VString s -> "s" ^ hex_of_zs s
  | VVec es -> "v[" ^ String.concat "," (List.map hex_of_zs es) ^ "]"
  | VTable fs -> "t{" ^ String.concat ";" (List.map (fun (id, v) -> string_of_z id ^ "=" ^ show_value v) fs) ^ "}"
  | VOffVec es -> "o[" ^ String.concat "," (List.map show_value es) ^ "]"
  | VUnion (c, v) -> "u" ^ string_of_z c ^ ":" ^ show_value v
  | VUnionVec es -> "U[" ^ String.concat "," (List.map (fun (c, o) -> string_of_z c ^ ":" ^ (match o with None -> "-" | Some v -> show_value v)) es) ^ "]"
  | VNested v -> "n(" ^ show_value v ^ ")"
  | VUnknown -> "?"

let mem_of_hex s =
  let b = bytes_of_hex s in
  let n = Bytes.length b in
  ((fun i -> let k = int_of_z i in if k >= 0 && k < n then Some ztab.(Char.code (Bytes.get b k)) else None), n)

let schema_cache : (string, schema) Hashtbl.t = Hashtbl.create 16
let get_schema s = match Hashtbl.find_opt schema_cache s with Some x -> x | None -> let x = parse_schema s in Hashtbl.add schema_cache s x; x

let handle = function
  | "run" :: toks ->
    (match run init_state [] (List.map parse_cmd toks) with
     | None -> "FAIL"
     | Some ((regs, emits), st) ->
       Printf.sprintf "OK refs=%s align=%s start=%s end=%s bytes=%s emits=%s"
         (String.concat "," (List.map string_of_z regs))
         (string_of_z (buffer_alignment st)) (string_of_z st.e_start) (string_of_z st.e_end)
         (hex_of_zs (buffer_bytes st))
         (if emits = [] then "-" else String.concat ";" (List.map (fun e -> string_of_z e.em_off ^ ":" ^ hex_of_zs e.em_bytes) emits)))
  | ["dec"; schema; root; ws; depth; align; hex] ->
    let (m, n) = mem_of_hex hex in
    let ds0 = if align = "0" then [] else [zi align] in
    (match decode_mem (nat_of_string depth) (get_schema schema) (parse_root root) (ws = "1") ds0 m (z_of_int n) with
     | None -> "NONE"
     | Some v -> show_value v)
  | l -> "BAD " ^ String.concat " " l
let () = main_loop handle
