(* modelrun_sort: line protocol over the extracted C16 model.
   sort  <z|s> <elems>                    elems: 'e' | key:payload,...   (key decimal for z, hex bytes for s, '-' = empty string)
   sorto <z|s> <offsets> <keys>           stored offsets of the slots and the key found through each slot
   q     <z|s> <elems> <queries>          queries: op,mode,b,e,key;...   op find|scan|rscan|scanx|rscanx, mode -|n|c *)
let split c s = if s = "" then [] else String.split_on_char c s
let parse_list s = if s = "e" then [] else split ',' s
let kp s = match String.index_opt s ':' with
  | Some i -> (String.sub s 0 i, String.sub s (i + 1) (String.length s - i - 1))
  | None -> (s, "0")
let show_opt f = function None -> "NONE" | Some l -> if l = [] then "e" else String.concat "," (List.map f l)
let res = function None -> "NONE" | Some z -> string_of_z z
let hexs l = hex_of_zs l

let queries_z l qs =
  let one q = match split ',' q with
    | [op; _; b; e; key] ->
      let k = z_of_string key in let dk = (fun x -> scalar_diff x k) in
      let d = (Z0, Z0) in
      (match op with
       | "find" -> res (find_list fst dk d l)
       | "scan" -> res (scan_list fst dk d l)
       | "rscan" -> res (rscan_list fst dk d l)
       | "scanx" -> res (scan_ex_list fst dk d l (z_of_string b) (z_of_string e))
       | "rscanx" -> res (rscan_ex_list fst dk d l (z_of_string b) (z_of_string e))
       | _ -> "BADQ")
    | _ -> "BADQ" in
  String.concat "," (List.map one (split ';' qs))

let queries_s l qs =
  let one q = match split ',' q with
    | [op; mode; b; e; key] ->
      let k = zs_of_hex key in
      let dk = if mode = "c" then (fun v -> strcmp v k) else (fun v -> string_n_cmp v k) in
      let d = ([], Z0) in
      (match op with
       | "find" -> res (find_list fst dk d l)
       | "scan" -> res (scan_list fst dk d l)
       | "rscan" -> res (rscan_list fst dk d l)
       | "scanx" -> res (scan_ex_list fst dk d l (z_of_string b) (z_of_string e))
       | "rscanx" -> res (rscan_ex_list fst dk d l (z_of_string b) (z_of_string e))
       | _ -> "BADQ")
    | _ -> "BADQ" in
  String.concat "," (List.map one (split ';' qs))

let elems_z s = List.map (fun x -> let (k, p) = kp x in (z_of_string k, z_of_string p)) (parse_list s)
let elems_s s = List.map (fun x -> let (k, p) = kp x in (zs_of_hex k, z_of_string p)) (parse_list s)

(* key lookup by target for the offset model: association list target -> key *)
let rec zeq a b = match a, b with
  | Z0, Z0 -> true
  | Zpos p, Zpos q | Zneg p, Zneg q -> peq p q
  | _ -> false
and peq p q = match p, q with
  | XH, XH -> true
  | XO a, XO b | XI a, XI b -> peq a b
  | _ -> false
let keyof_tab tgts keys default = fun t ->
  let rec go ts ks = match ts, ks with
    | a :: ts', k :: ks' -> if zeq a t then k else go ts' ks'
    | _ -> default in go tgts keys

let handle = function
  | ["sort"; "z"; elems] ->
    show_opt (fun (k, p) -> string_of_z k ^ ":" ^ string_of_z p) (heap_sort_list fst scalar_diff (Z0, Z0) (elems_z elems))
  | ["sort"; "s"; elems] ->
    show_opt (fun (k, p) -> hexs k ^ ":" ^ string_of_z p) (heap_sort_list fst string_diff ([], Z0) (elems_s elems))
  | ["sorto"; "z"; offs; keys] ->
    let os = List.map z_of_string (parse_list offs) in
    let ks = List.map z_of_string (parse_list keys) in
    show_opt string_of_z (heap_sort_offsets (keyof_tab (targets os) ks Z0) scalar_diff os)
  | ["sorto"; "s"; offs; keys] ->
    let os = List.map z_of_string (parse_list offs) in
    let ks = List.map zs_of_hex (parse_list keys) in
    show_opt string_of_z (heap_sort_offsets (keyof_tab (targets os) ks []) string_diff os)
  | ["q"; "z"; elems; qs] -> queries_z (elems_z elems) qs
  | ["q"; "s"; elems; qs] -> queries_s (elems_s elems) qs
  | l -> "BAD " ^ String.concat " " l
let () = main_loop handle
