(* modelrun_jsonprint: line protocol over the extracted printer-text model (coq/Json/PrinterText.v) composed with the
   extracted parser model (coq/Json/ParserModel.v).
   request:  rt <maxlvl> <pmax> <root index> <printer flag bits> <indent | -1> <parser flags> <identifier word>
                <descriptor> <enum descriptor> <tree> <hex of the C-built source buffer B0 | -> <hex of the C-built reparsed buffer B1 | ->
   descriptor: as for modelrun_jsonparser (tables ';', fields ',', field = <name hex>:<id>:<req>:<kind>)
   enum descriptor: '-' or entries separated by ';', entry = <table index>:<field id>:<value>=<name hex>[,<value>=<name hex>...]
   tree:     one token, ';' separated prefix form:  T<n> followed by n times (<id> <value>) | B<hex> | S<hex> | V<n> n times <hex> | O<n> n values
             (hex '-' = empty)
   reply:    <T1 hex | NOPRINT> <parse: OK <end_loc> | ERR <code> <loc> | STOP <w>> R<0|1|-> D<0|1|-> S<0|1|-> P<0|1|-> J<0|1> W<0|1> N<need> U<0|1> Y<0|1>
             R: parsed value = reparse_table v     D: decode_root of B1 = parsed value     S: decode_root of B0 = v
             P: print_root of the parsed value = T1   J: rfc8259_document T1   W: wt_table v with noenum forced (typing only)   N: need_table v
             U: all strings valid UTF-8   Y: wt_table v under the actual settings (typing + no enum symbol is printed) *)
let buf_of_list (l : z list) =
  let a = Array.of_list l in
  let n = Array.length a in
  { blen = z_of_int n; bget = (fun i -> let k = int_of_z i in if k >= 0 && k < n then a.(k) else Z0) }
let sty_of s =
  let size = int_of_string (String.sub s 0 (String.length s - 1)) in
  let k = s.[String.length s - 1] in
  { st_size = z_of_int size; st_signed = (k = 'i'); st_bool = (k = 'b') }
let kind_of parts =
  match parts with
  | [k; d] when k.[0] = 's' -> PScalar (sty_of (String.sub k 1 (String.length k - 1)), zs_of_hex d)
  | ["S"] -> PString
  | ["V"] -> PVecString
  | [k] when k.[0] = 'v' -> PVecScalar (sty_of (String.sub k 1 (String.length k - 1)))
  | [k] when k.[0] = 't' -> PTable (nat_of_int (int_of_string (String.sub k 1 (String.length k - 1))))
  | [k] when k.[0] = 'T' -> PVecTable (nat_of_int (int_of_string (String.sub k 1 (String.length k - 1))))
  | _ -> failwith "kind"
let field_of s =
  match String.split_on_char ':' s with
  | nm :: id :: req :: kind -> { pf_name = zs_of_hex nm; pf_id = z_of_string id; pf_req = (req = "1"); pf_kind = kind_of kind }
  | _ -> failwith "field"
let table_of s = if s = "" then [] else List.map field_of (String.split_on_char ',' s)
let schema_of s = List.map table_of (String.split_on_char ';' s)
let enums_of s =
  if s = "-" then [] else
  List.map (fun e -> match String.split_on_char ':' e with
    | [t; id; ms] ->
      ((nat_of_int (int_of_string t), z_of_string id),
       List.map (fun m -> match String.split_on_char '=' m with [v; nm] -> (z_of_string v, zs_of_hex nm) | _ -> failwith "member") (String.split_on_char ',' ms))
    | _ -> failwith "enum") (String.split_on_char ';' s)
let cache : (string, pfield list list) Hashtbl.t = Hashtbl.create 7
let schema_cached s = match Hashtbl.find_opt cache s with Some x -> x | None -> let x = schema_of s in Hashtbl.add cache s x; x
(* tree *)
let parse_tree s =
  let toks = ref (String.split_on_char ';' s) in
  let next () = match !toks with t :: r -> toks := r; t | [] -> failwith "tree: short" in
  let rec value () =
    let t = next () in
    let arg = String.sub t 1 (String.length t - 1) in
    match t.[0] with
    | 'B' -> VBytes (zs_of_hex arg)
    | 'S' -> VString (zs_of_hex arg)
    | 'V' -> let n = int_of_string arg in VVec (List.init n (fun _ -> zs_of_hex (next ())))
    | 'O' -> let n = int_of_string arg in let rec go k = if k = 0 then [] else let v = value () in v :: go (k - 1) in VOffVec (go n)
    | 'T' -> let n = int_of_string arg in
      let rec go k = if k = 0 then [] else let id = z_of_string (next ()) in let v = value () in (id, v) :: go (k - 1) in VTable (go n)
    | _ -> failwith "tree: tag" in
  let v = value () in
  if !toks <> [] then failwith "tree: trailing"; v
let rec strings_utf8 = function
  | VString s -> utf8_valid s
  | VTable fs -> List.for_all (fun (_, v) -> strings_utf8 v) fs
  | VOffVec vs -> List.for_all strings_utf8 vs
  | _ -> true
let rec depth_of = function
  | VTable fs -> 1 + List.fold_left (fun a (_, v) -> max a (depth_of v)) 0 fs
  | VOffVec vs -> List.fold_left (fun a v -> max a (depth_of v)) 0 vs
  | _ -> 0
let bit b = if b then "1" else "0"
let handle = function
  | ["rt"; maxlvl; pmax; root; pbits; indent; flags; idw; desc; edesc; tree; b0; b1] ->
    let ps = schema_cached desc in
    let en = enums_of edesc in
    let fl = int_of_string flags in
    let fa = fl land 2 <> 0 in
    let rooti = nat_of_int (int_of_string root) in
    let f0 = api_set_flags (z_of_string pbits) prflags0 in
    let f = if int_of_string indent >= 0 then api_set_indent (z_of_string indent) f0 else f0 in
    let v = parse_tree tree in
    let pm = z_of_string pmax in
    let k = nat_of_int (int_of_string pmax - 1) in
    let w = wt_table { f with fl_noenum = true } ps en k rooti v in
    let y = wt_table f ps en k rooti v in
    let nd = need_table f ps k rooti v in
    let sch = to_schema ps in
    let dec h exp = if h = "-" then "-" else
        (match decode_root (nat_of_int (depth_of exp + 2)) sch (RTable rooti) (fl land 4 <> 0) (zs_of_hex h) with
         | Some v' -> bit (v' = exp) | None -> "0") in
    let s0 = if b0 = "-" then "-" else
        (match decode_root (nat_of_int (depth_of v + 2)) sch (RTable rooti) false (zs_of_hex b0) with Some v' -> bit (v' = v) | None -> "0") in
    (match print_root f ps en pm rooti v with
     | None -> Printf.sprintf "NOPRINT - R- D- S%s P- J0 W%s N%d U%s Y%s" s0 (bit w) (int_of_z nd) (bit (strings_utf8 v)) (bit y)
     | Some t1 ->
       let j = rfc8259_document t1 in
       let pr, r, d, p =
         (match parse_root sp_int (z_of_string maxlvl) ps (buf_of_list t1) rooti (z_of_int fl) (z_of_string idw) with
          | PErr (e, l) -> Printf.sprintf "ERR %d %d" (int_of_z e) (int_of_z l), "-", "-", "-"
          | PStop wv -> Printf.sprintf "STOP %d" (int_of_z wv), "-", "-", "-"
          | POk (_, p, _, (v', _)) ->
            Printf.sprintf "OK %d" (int_of_z p),
            bit (v' = reparse_table f ps fa k rooti v),
            dec b1 v',
            (match print_root f ps en pm rooti v' with Some t2 -> bit (t2 = t1) | None -> "0")) in
       Printf.sprintf "%s %s R%s D%s S%s P%s J%s W%s N%d U%s Y%s" (hex_of_zs t1) pr r d s0 p (bit j) (bit w) (int_of_z nd) (bit (strings_utf8 v)) (bit y))
  | _ -> "BAD"
let () = main_loop handle
