(* modelrun_printerwalk: line protocol over the extracted JSON-printer read model (C01, printer half).
   Schema text syntax and root syntax are those of ocaml/verifier/driver.ml (parser copied).
     schema <name> <T:...|U:...>*                      -> OK | NOTWF
     pwalk <name> <root> <p|s> <addr> <hex>            -> OK | ERR <printer error> | BAD <pos> <w> <al> | FUEL
     pwalkid <name> <root> <p|s> <addr> <hash> <hex>   -> same, with an identifier (type hash of fid) to match
     pwalklev <maxlev> <name> <root> <p|s> <addr> <hex>-> same as pwalk with another FLATCC_JSON_PRINT_MAX_LEVELS
     verify <name> <root> <p|s> <addr> <hex>           -> OK | ERR <code> | OOB | FUEL
     levels                                            -> <JSON_PRINT_MAX_LEVELS> <VERIFIER_MAX_LEVELS> *)
let buf_of_hex s =
  let b = bytes_of_hex s in
  let n = Bytes.length b in
  { blen = z_of_int n; bget = (fun i -> let k = int_of_z i in if k >= 0 && k < n then ztab.(Char.code (Bytes.get b k)) else Z0) }
let schemas : (string, schema) Hashtbl.t = Hashtbl.create 16
let zi s = z_of_string s
let ni s = nat_of_int (int_of_string s)
let parse_kind = function
  | ["S"; s; a] -> FScalar (zi s, zi a)
  | ["X"] -> FString
  | ["V"; e; a; m] -> FVector (zi e, zi a, zi m)
  | ["XV"] -> FStringVec
  | ["T"; t] -> FTable (ni t)
  | ["TV"; t] -> FTableVec (ni t)
  | ["U"; u] -> FUnion (ni u)
  | ["UV"; u] -> FUnionVec (ni u)
  | ["NT"; a; t] -> FNestedTable (zi a, ni t)
  | ["NS"; s; a] -> FNestedStruct (zi s, zi a)
  | l -> failwith ("kind " ^ String.concat "/" l)
let parse_field s = match String.split_on_char '/' s with
  | id :: req :: k -> { fid = zi id; freq = (req = "1"); fk = parse_kind k }
  | _ -> failwith "field"
let parse_member s = match String.split_on_char '/' s with
  | [c; "T"; t] -> (zi c, UTable (ni t))
  | [c; "S"; sz; a] -> (zi c, UStruct (zi sz, zi a))
  | [c; "X"] -> (zi c, UString)
  | _ -> failwith "member"
let items s = if s = "" then [] else String.split_on_char ',' s
let parse_schema toks =
  let ts = ref [] and us = ref [] in
  List.iter (fun tok ->
    let body = String.sub tok 2 (String.length tok - 2) in
    if tok.[0] = 'T' then ts := List.map parse_field (items body) :: !ts
    else us := List.map parse_member (items body) :: !us) toks;
  { tables = List.rev !ts; unions = List.rev !us }
let parse_root s = match String.split_on_char '/' s with
  | ["T"; t] -> RTable (ni t)
  | ["S"; sz; a] -> RStruct (zi sz, zi a)
  | _ -> failwith "root"
let fuel = nat_of_int 130
let show = function
  | POk -> "OK"
  | PErr e -> "ERR " ^ string_of_z e
  | PBad (p, w, a) -> Printf.sprintf "BAD %s %s %s" (string_of_z p) (string_of_z w) (string_of_z a)
  | PFuel -> "FUEL"
let handle = function
  | "schema" :: name :: toks -> let s = parse_schema toks in Hashtbl.replace schemas name s;
      if schema_wf s then "OK" else "NOTWF"
  | ["pwalk"; name; root; v; addr; hex] ->
      show (print_walk (buf_of_hex hex) (zi addr) (Hashtbl.find schemas name) fuel (parse_root root) (v = "s") None)
  | ["pwalkid"; name; root; v; addr; h; hex] ->
      show (print_walk (buf_of_hex hex) (zi addr) (Hashtbl.find schemas name) fuel (parse_root root) (v = "s") (Some (zi h)))
  | ["pwalklev"; lev; name; root; v; addr; hex] ->
      show (print_walk_gen (buf_of_hex hex) (zi addr) (Hashtbl.find schemas name) (zi lev) fuel (parse_root root) (v = "s") None)
  | ["verify"; name; root; v; addr; hex] ->
      let s = Hashtbl.find schemas name in
      (match verify_root (buf_of_hex hex) (zi addr) s fuel (parse_root root) (if v = "s" then WithSize else Plain) with
       | VOk -> "OK" | VErr c -> "ERR " ^ string_of_z c | VOob -> "OOB" | VFuel -> "FUEL")
  | ["levels"] -> string_of_z jSON_PRINT_MAX_LEVELS ^ " " ^ string_of_z vERIFIER_MAX_LEVELS
  | l -> "BAD " ^ String.concat " " l
let () = main_loop handle
