(* modelrun_reset: line protocol over the extracted C14 / C13 builder-state model.
   One request line = one history:  F<0|1> op op op ...   (F1 = defects repaired, F0 = faithful transcription)
   One reply line: one token per op (the call's return value; `snap` -> {field=value,...}; `fin` -> hex of the
   buffer assembled from the emit events since the last reset / clear; FAULT ends the line).
   `$k` in a reference position stands for the return value of op number k (0-based) of the same line. *)
let zi = z_of_int
let iz = int_of_z
let zs s = z_of_string s
let hex s = if s = "-" || s = "" then [] else zs_of_hex s
let b01 s = s = "1"

let snap (s : bstate) =
  let c k = string_of_z (cap_get k s.caps) in
  let f n v = n ^ "=" ^ string_of_z v in
  String.concat "," [
    "c_vs=" ^ c VS; "c_ds=" ^ c DS; "c_vb=" ^ c VB; "c_pl=" ^ c PL; "c_fs=" ^ c FS; "c_ht=" ^ c HT; "c_vd=" ^ c VD; "c_us=" ^ c US;
    f "vs_off" s.vs_off; f "pl_off" s.pl_off; f "id_end" s.id_end;
    f "ds_offset" s.ds_offset; f "ds_limit" s.ds_limit; f "ds_first" s.ds_first;
    "frame_ptr=" ^ (match s.frame_ptr with None -> "N" | Some p -> string_of_z p);
    f "ht_width" s.ht_width; f "vb_end" s.vb_end; f "vd_end" s.vd_end;
    f "min_align" s.min_align; f "align" s.align; f "block_align" s.block_align;
    f "emit_start" s.emit_start; f "emit_end" s.emit_end; f "buffer_mark" s.buffer_mark;
    f "nest_count" s.nest_count; f "nest_id" s.nest_id; f "level" s.level; f "limit_level" s.limit_level;
    f "buffer_flags" s.buffer_flags; f "identifier" s.identifier;
    f "vb_flush_limit" s.vb_flush_limit; f "max_level" s.max_level; f "disable_vt_clustering" s.disable_vt_clustering;
    f "user_frame_offset" s.user_frame_offset; f "user_frame_end" s.user_frame_end;
    f "e_cap" s.e_cap; f "e_used" s.e_used; f "e_avg" s.e_avg ]

(* events since the last reset -> contiguous buffer [emit_start, emit_end) *)
let assemble (evs : event list) (s : bstate) =
  let lo = iz s.emit_start and hi = iz s.emit_end in
  let n = hi - lo in
  if n < 0 || n > 50_000_000 then "BADRANGE" else begin
    let b = Bytes.make n '\xee' in
    let ok = ref true in
    List.iter (fun e ->
      let r = iz e.ev_ref in
      List.iteri (fun i v -> let p = r - lo + i in
        if p < 0 || p >= n then ok := false else Bytes.set b p (Char.chr (iz v land 255))) e.ev_bytes) evs;
    if not !ok then "OUTSIDE" else if n = 0 then "-" else
    String.concat "" (List.init n (fun i -> Printf.sprintf "%02x" (Char.code (Bytes.get b i))))
  end

let handle toks =
  match toks with
  | [] -> "EMPTY"
  | fx :: ops ->
    let fixed = (fx = "F1") in
    let st = ref st_init in
    let results : z array = Array.make (List.length ops + 1) Z0 in
    let evs = ref [] in   (* events since last reset, newest first *)
    let out = Buffer.create 256 in
    let stop = ref false in
    let guard = ref 0 in   (* 0 off, 1 watching for the first failing call, 2 tripped: ops are skipped until REC *)
    let is_failure name r =
      if List.mem name ["sb"; "st"; "sv"; "so"; "sS"; "su"; "tv"; "tov"; "tS"; "rs"; "jp"; "jr"] then r <> 0
      else if List.mem name ["ss"; "ta"; "to"; "xv"; "xo"; "aS"; "xu"; "uf"; "es"; "et"; "ev"; "eo"; "eS"; "eu"; "cu"; "eb"; "cb"; "cs"; "cS"; "cv"; "emb"; "cln"] then r = 0
      else false in
    let cur = ref "" in
    (* XA:<i> = an allocation fails during op number i, whatever the allocator's sizing policy: just before op i every capacity
       (and the limits derived from capacities) is dropped to zero and the next allocator call is bound to fail *)
    let force_at = ref (-1) in
    let refv s = if String.length s > 0 && s.[0] = '$' then results.(int_of_string (String.sub s 1 (String.length s - 1))) else zs s in
    let run_op i (o : op) =
      match step fixed o !st with
      | Fault -> Buffer.add_string out "FAULT "; stop := true
      | Ret (a, s, e) ->
        st := s; results.(i) <- a;
        if !guard = 1 && is_failure !cur (iz a) then guard := 2;
        (match o with OReset (_, _) | OClear -> if iz a = 0 then evs := [] | _ -> ());
        evs := List.rev_append e !evs;
        Buffer.add_string out (string_of_z a); Buffer.add_char out ' ' in
    List.iteri (fun i tok ->
      if not !stop then begin
        let f = Array.of_list (String.split_on_char ':' tok) in
        let a k = f.(k) in
        cur := a 0;
        if i = !force_at && !guard <> 2 then
          st := (if a 0 = "rs" then set_fa Z0 (set_fa_rep false !st)    (* reset only touches buffers that exist *)
                 else set_fa Z0 (set_fa_rep false (set_caps caps0 (set_ds_limit Z0 (set_limit_level Z0 !st)))));
        if a 0 = "XA" then (force_at := int_of_string (a 1); Buffer.add_string out "ok ")
        else if a 0 = "GUARD" then (guard := 1; Buffer.add_string out "ok ")
        else if a 0 = "REC" then (Buffer.add_string out (if !guard = 2 then "tripped " else "clean "); guard := 0)
        else if !guard = 2 then Buffer.add_string out "_ "
        else
        match a 0 with
        | "snap" -> Buffer.add_string out ("{" ^ snap !st ^ "} ")
        | "fin" -> Buffer.add_string out (assemble !evs !st ^ " ")
        | "dir" -> (* the buffer is directly available iff front and back share the single first page *)
            let half = iz pAGE_SIZE / 2 in
            let s = !st in
            if iz s.e_cap = 0 || iz s.e_front > half || iz s.e_back > half then Buffer.add_string out "D:null "
            else Buffer.add_string out (Printf.sprintf "D:%d:ok " (iz s.e_used))
        | "evs" -> (* emit calls since the last reset: ref:len,... *)
            let l = List.rev_map (fun e -> Printf.sprintf "%d:%d" (iz e.ev_ref) (List.length e.ev_bytes)) !evs in
            Buffer.add_string out ((if l = [] then "-" else String.concat "," l) ^ " ")
        | "evb" -> (* emit calls since the last reset: ref:nest:hex,... *)
            let l = List.rev_map (fun e -> Printf.sprintf "%d:%d:%s" (iz e.ev_ref) (iz e.ev_nest) (hex_of_zs e.ev_bytes)) !evs in
            Buffer.add_string out ((if l = [] then "-" else String.concat "," l) ^ " ")
        | "nvt" -> (* number of vtable events since reset, and number of distinct (nest, bytes) among them *)
            let vts = List.filter (fun e -> iz e.ev_kind = 1) !evs in
            let keys = List.sort_uniq compare (List.map (fun e -> (iz e.ev_nest, List.map iz e.ev_tag)) vts) in
            Buffer.add_string out (Printf.sprintf "%d/%d " (List.length vts) (List.length keys))
        | "FA" -> st := set_fa (zs (a 1)) (set_fa_rep (b01 (a 2)) !st); Buffer.add_string out "ok "
        | "FE" -> st := set_fe (zs (a 1)) (set_fe_rep (b01 (a 2)) !st); Buffer.add_string out "ok "
        | "sb" -> run_op i (OStartBuffer (zs (a 1), zs (a 2), zs (a 3)))
        | "eb" -> run_op i (OEndBuffer (refv (a 1)))
        | "cb" -> run_op i (OCreateBuffer (zs (a 1), zs (a 2), refv (a 3), zs (a 4), zs (a 5)))
        | "ss" -> run_op i (OStartStruct (zs (a 1), hex (a 2)))
        | "es" -> run_op i OEndStruct
        | "cs" -> run_op i (OCreateStruct (hex (a 1), zs (a 2)))
        | "st" -> run_op i (OStartTable (zs (a 1)))
        | "ta" -> run_op i (OTableAdd (zs (a 1), zs (a 2), zs (a 3), hex (a 4)))
        | "to" -> run_op i (OTableAddOffset (zs (a 1), refv (a 2)))
        | "et" -> run_op i OEndTable
        | "sv" -> run_op i (OStartVector (zs (a 1), zs (a 2), zs (a 3)))
        | "xv" -> run_op i (OExtendVector (zs (a 1), hex (a 2)))
        | "tv" -> run_op i (OTruncateVector (zs (a 1)))
        | "ev" -> run_op i OEndVector
        | "cv" -> run_op i (OCreateVector (hex (a 1), zs (a 2), zs (a 3), zs (a 4), zs (a 5)))
        | "so" -> run_op i OStartOffsetVector
        | "xo" -> run_op i (OExtendOffsetVector (if a 1 = "-" then [] else List.map refv (String.split_on_char ',' (a 1))))
        | "tov" -> run_op i (OTruncateOffsetVector (zs (a 1)))
        | "eo" -> run_op i OEndOffsetVector
        | "sS" -> run_op i OStartString
        | "aS" -> run_op i (OAppendString (hex (a 1)))
        | "tS" -> run_op i (OTruncateString (zs (a 1)))
        | "eS" -> run_op i OEndString
        | "cS" -> run_op i (OCreateString (hex (a 1)))
        | "uf" -> run_op i (OEnterUserFrame (zs (a 1)))
        | "ux" -> run_op i OExitUserFrame
        | "ua" -> run_op i (OExitUserFrameAt (refv (a 1)))
        | "cl" -> run_op i (OSetClustering (b01 (a 1)))
        | "ml" -> run_op i (OSetMaxLevel (zs (a 1)))
        | "vl" -> run_op i (OSetCacheLimit (zs (a 1)))
        | "id" -> run_op i (OSetIdentifier (zs (a 1)))
        | "fc" -> run_op i OFlushCache
        | "pa" -> run_op i OPushAlign
        | "qa" -> run_op i (OPopAlign (refv (a 1)))
        | "rs" -> run_op i (OReset (b01 (a 1), b01 (a 2)))
        | "clr" -> run_op i OClear
        | _ -> Buffer.add_string out ("BAD:" ^ tok ^ " ")
      end) ops;
    String.trim (Buffer.contents out)

let () = main_loop handle
