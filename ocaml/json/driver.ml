(* modelrun_json: line protocol over the extracted JSON scanner model (C04) and codecs (C05).
   request:  <prim> <flags> <unq 0|1> <pos> <hex input> [<arg>]
   reply  :  <ret> <err> <errloc> <line> <lstart> <unq> <value>     | OOB | FUEL
   (the same line harness/json_scan_diff.c prints for /repo's code) *)
let buf_of_hex s =
  let b = bytes_of_hex s in
  let n = Bytes.length b in
  { blen = z_of_int n; bget = (fun i -> let k = int_of_z i in if k >= 0 && k < n then ztab.(Char.code (Bytes.get b k)) else Z0) }
let mkctx flags unq = let c = ctx_init (z_of_string flags) in { c with cunq = (unq = "1") }
let show (fv : 'a -> string) (r : 'a res) : string =
  match r with
  | Oob -> "OOB"
  | Fuel -> "FUEL"
  | Ok (c, p, v) ->
    Printf.sprintf "%d %d %d %d %d %d %s" (int_of_z p) (int_of_z c.cerr) (int_of_z c.cerrloc) (int_of_z c.cline)
      (int_of_z c.clstart) (if c.cunq then 1 else 0) (fv v)
let vunit () = "-"
let vbool b = if b then "1" else "0"
let vhex l = hex_of_zs l
let vz z = string_of_z z
let vopt = function Some z -> string_of_z z | None -> "OOB"
let b01 s = (s = "1")
let handle = function
  (* ---- C05 codecs: no parser context *)
  | ["pstr"; h] -> hex_of_zs (json_print_string (zs_of_hex h))
  | ["pca"; h] -> hex_of_zs (print_char_array (zs_of_hex h))
  | ["pb64"; url; h] -> hex_of_zs (print_base64 (b01 url) (zs_of_hex h))
  | ["b64e"; url; pad; h] -> hex_of_zs (base64_encode (b01 url) (b01 pad) (zs_of_hex h))
  | ["b64d"; url; dstlen; h] ->
      let ((ret, out), n) = base64_decode (b01 url) (zs_of_hex h) (z_of_string dstlen) in
      Printf.sprintf "%s %s %s" (string_of_z ret) (hex_of_zs out) (string_of_z n)
  | ["b64sz"; len] -> Printf.sprintf "%s %s %s" (string_of_z (base64_encoded_size (z_of_string len) true))
                        (string_of_z (base64_encoded_size (z_of_string len) false)) (string_of_z (base64_decoded_size (z_of_string len)))
  | ["utf8"; h] -> if utf8_valid (zs_of_hex h) then "1" else "0"
  | ["rfcstr"; h] -> if rfc8259_string (zs_of_hex h) then "1" else "0"
  | ["parse_b64"; url; flags; pos; h] ->
      show vhex (parse_base64 (b01 url) (buf_of_hex h) (mkctx flags "0") (z_of_string pos))
  | [prim; flags; unq; pos; h] ->
    let b = buf_of_hex h and c = mkctx flags unq and i = z_of_string pos in
    (match prim with
     | "space" -> show vunit (space b c i)
     | "space_ext" -> show vunit (space_ext b c i)
     | "string_start" -> show vunit (string_start b c i)
     | "string_part" -> show vunit (string_part b c i)
     | "string_end" -> show vunit (string_end b c i)
     | "string_escape" -> show vhex (string_escape b c i)
     | "symbol_start" -> show vunit (symbol_start b c i)
     | "symbol_end" -> show vunit (symbol_end b c i)
     | "symbol_part" -> vopt (symbol_part b i)
     | "skip_constant" -> show vunit (skip_constant b c i)
     | "object_start" -> show vbool (object_start b c i)
     | "object_end" -> show vbool (object_end b c i)
     | "array_start" -> show vbool (array_start b c i)
     | "array_end" -> show vbool (array_end b c i)
     | "null" -> vopt (null b i)
     | "none" -> show vunit (none b c i)
     | "integer" -> show (fun (s, v) -> (if s then "1 " else "0 ") ^ string_of_z v) (integer b c i)
     | "uint8" -> show vz (uint8 b c i)
     | "bool" -> show vz (bool_ b c i)
     | "number" -> show vunit (number b c i)
     | "number_cur" -> show vunit (number_current b c i)
     | "generic" -> show vunit (generic_json b c i)
     | "generic_cur" -> show vunit (generic_json_current b c i)
     | "unmatched" -> show vunit (unmatched_symbol b c i)
     | "unmatched_cur" -> show vunit (unmatched_symbol_gen false b c i)
     | "build_string" -> show vhex (build_string b c i)
     | _ -> "BAD " ^ prim)
  | [prim; flags; unq; pos; h; arg] ->
    let b = buf_of_hex h and c = mkctx flags unq and i = z_of_string pos and a = z_of_string arg in
    (match prim with
     | "match_scope" -> vopt (match_scope b i a)
     | "match_symbol" -> show vunit (match_symbol b c i a)
     | "match_type_suffix" -> show vunit (match_type_suffix b c i a)
     | "match_constant" -> show vbool (match_constant b c i a)
     | "char_array" -> show vhex (char_array b c i a)
     | _ -> "BAD " ^ prim)
  | l -> "BAD " ^ String.concat " " l
let () = main_loop handle
