(* modelrun_trie: line protocol over the extracted C10 model (TrieEval), specification (TrieSpec) and certified checker
   (TrieCheck).
     def ID NAMES SEXP...      register a trie (s-expression as printed by translators/trie_h_to_coq.py) with its names
                               (hex:key,hex:key or -)                                       -> ok
     check MODE ID             certified checker for the terminator bytes of MODE            -> 1 | 0
     diag MODE ID              components of the checker                                      -> conv=.. scoped=.. snd=.. symfail=hex,..
     ident ID                  names_ident                                                    -> 1 | 0
     eval MODE ID HEX          run win  tm_MODE trie input                                    -> M <key> | U | S
     evalc MODE ID HEX         run win_c (sign-extending window of the pinned C code)         -> M <key> | U | S
     lookup MODE ID HEX        lookup tm_MODE names input                                     -> M <key> | U
   MODE: symq symu symuc scope constq constu *)
let tbl : (string, trie * (z list * z) list) Hashtbl.t = Hashtbl.create 64

type tok = L | R | A of string
let tokens s =
  let out = ref [] and b = Buffer.create 16 in
  let flush () = if Buffer.length b > 0 then (out := A (Buffer.contents b) :: !out; Buffer.clear b) in
  String.iter (fun c -> match c with
    | '(' -> flush (); out := L :: !out
    | ')' -> flush (); out := R :: !out
    | ' ' | '\t' -> flush ()
    | c -> Buffer.add_char b c) s;
  flush (); List.rev !out

let rec parse = function
  | A "u" :: r -> (TUnmatched, r)
  | L :: A "goto" :: A l :: R :: r -> (TGoto (z_of_string l), r)
  | L :: A "lt" :: A c :: r -> let (a, r) = parse r in let (b, r) = parse r in (TIfLt (z_of_string c, a, b), close r)
  | L :: A "eq" :: A c :: r -> let (a, r) = parse r in let (b, r) = parse r in (TIfEq (z_of_string c, a, b), close r)
  | L :: A "mask" :: A m :: A t :: r -> let (a, r) = parse r in let (b, r) = parse r in (TIfMask (z_of_string m, z_of_string t, a, b), close r)
  | L :: A "match" :: A n :: A h :: r -> let (a, r) = parse r in (TMatch (nat_of_int (int_of_string n), z_of_string h, a), close r)
  | L :: A "adv" :: r -> let (a, r) = parse r in (TAdvance a, close r)
  | L :: A "guard" :: A l :: r -> let (a, r) = parse r in let (b, r) = parse r in (TGuard (z_of_string l, a, b), close r)
  | _ -> failwith "sexp"
and close = function R :: r -> r | _ -> failwith "sexp: expected )"

let names_of s =
  if s = "-" then [] else
  List.map (fun e -> match String.split_on_char ':' e with
    | [h; k] -> (zs_of_hex (if h = "" then "-" else h), z_of_string k)
    | _ -> failwith "names") (String.split_on_char ',' s)

let tm_of = function
  | "symq" -> tm_symbol false | "symu" -> tm_symbol true | "symuc" -> tm_symbol_c true
  | "scope" -> tm_scope | "constq" -> tm_constant false | "constu" -> tm_constant true
  | _ -> failwith "mode"
let tl_of = function
  | "symq" -> tl_symbol_quoted | "symu" -> tl_symbol_unquoted | "symuc" -> tl_symbol_unquoted_c
  | "scope" -> tl_scope | "constq" -> tl_constant_quoted | "constu" -> tl_constant_unquoted
  | _ -> failwith "mode"
let out_s = function Matched h -> "M " ^ string_of_z h | Unmatched -> "U" | Stuck -> "S"
let b01 b = if b then "1" else "0"

let handle = function
  | "def" :: id :: names :: rest ->
      let (t, r) = parse (tokens (String.concat " " rest)) in
      if r <> [] then failwith "sexp: trailing tokens";
      Hashtbl.replace tbl id (t, names_of names); "ok"
  | ["check"; mode; id] -> let (t, ns) = Hashtbl.find tbl id in b01 (check (tl_of mode) t ns)
  | ["ident"; id] -> let (_, ns) = Hashtbl.find tbl id in b01 (names_ident ns)
  | ["diag"; mode; id] ->
      let (t, ns) = Hashtbl.find tbl id in
      let tl = tl_of mode in
      (match conv t with
       | None -> "conv=0"
       | Some bt ->
           let bad = List.filter (fun (nm, h) -> not (sres_is (sym tl bt nm) h)) ns in
           Printf.sprintf "conv=1 scoped=%s snd=%s symfail=%s" (b01 (scoped [] bt)) (b01 (snd_ok ns [] [] bt))
             (if bad = [] then "-" else String.concat "," (List.map (fun (nm, _) -> hex_of_zs nm) bad)))
  | ["eval"; mode; id; hx] -> let (t, _) = Hashtbl.find tbl id in out_s (run win (tm_of mode) t (zs_of_hex hx))
  | ["evalc"; mode; id; hx] -> let (t, _) = Hashtbl.find tbl id in out_s (run win_c (tm_of mode) t (zs_of_hex hx))
  | ["lookup"; mode; id; hx] -> let (_, ns) = Hashtbl.find tbl id in out_s (lookup (tm_of mode) ns (zs_of_hex hx))
  | l -> "BAD " ^ String.concat " " l
let () = main_loop handle
