(* modelrun_jsonparser: line protocol over the extracted model of the generated table parsers (coq/Json/ParserModel.v).
   request:  parse <maxlvl> <root index> <flags> <identifier word> <descriptor> <hex input> [<hex of the C-built buffer>]
   descriptor: tables separated by ';', fields by ',', a field is  <name hex>:<id>:<required 0|1>:<kind>  with kind
               s<size><u|i|b>:<default hex>   scalar (unsigned / signed / bool)
               S                              string
               v<size><u|i|b>                 vector of scalars
               V                              vector of strings
               t<table index>                 table
               T<table index>                 vector of tables
   reply:    OK <end_loc> <hex of the model's finished buffer | NOBUF> <D1|D0|D->   (D: Spec.decode_root of the C buffer = model value)
             ERR <code> <loc>
             STOP <0 oob | 1 fuel | 2 outside the fragment> *)
let buf_of_hex s =
  let b = bytes_of_hex s in
  let n = Bytes.length b in
  { blen = z_of_int n; bget = (fun i -> let k = int_of_z i in if k >= 0 && k < n then ztab.(Char.code (Bytes.get b k)) else Z0) }
let sty_of s =
  let size = int_of_string (String.sub s 0 (String.length s - 1)) in
  let k = s.[String.length s - 1] in
  { st_size = z_of_int size; st_signed = (k = 'i'); st_bool = (k = 'b') }
let kind_of parts =
  match parts with
  | [k; d] when k.[0] = 's' -> PScalar (sty_of (String.sub k 1 (String.length k - 1)), zs_of_hex d)
  | ["S"] -> PString
  | ["V"] -> PVecString
  | [k] when k.[0] = 'v' -> PVecScalar (sty_of (String.sub k 1 (String.length k - 1)))
  | [k] when k.[0] = 't' -> PTable (nat_of_int (int_of_string (String.sub k 1 (String.length k - 1))))
  | [k] when k.[0] = 'T' -> PVecTable (nat_of_int (int_of_string (String.sub k 1 (String.length k - 1))))
  | _ -> failwith "kind"
let field_of s =
  match String.split_on_char ':' s with
  | nm :: id :: req :: kind -> { pf_name = zs_of_hex nm; pf_id = z_of_string id; pf_req = (req = "1"); pf_kind = kind_of kind }
  | _ -> failwith "field"
let table_of s = if s = "" then [] else List.map field_of (String.split_on_char ',' s)
let schema_of s = List.map table_of (String.split_on_char ';' s)
let cache : (string, pfield list list) Hashtbl.t = Hashtbl.create 7
let schema_cached s = match Hashtbl.find_opt cache s with Some x -> x | None -> let x = schema_of s in Hashtbl.add cache s x; x
let rec depth_of = function
  | VTable fs -> 1 + List.fold_left (fun a (_, v) -> max a (depth_of v)) 0 fs
  | VOffVec vs -> List.fold_left (fun a v -> max a (depth_of v)) 0 vs
  | _ -> 0
let handle = function
  | "parse" :: maxlvl :: root :: flags :: idw :: desc :: h :: rest ->
    let ps = schema_cached desc in
    let fl = int_of_string flags in
    (match run_parser sp_int (z_of_string maxlvl) ps (buf_of_hex h) (nat_of_int (int_of_string root)) (z_of_int fl) (z_of_string idw) with
     | OReject (e, l) -> Printf.sprintf "ERR %d %d" (int_of_z e) (int_of_z l)
     | OStop w -> Printf.sprintf "STOP %d" (int_of_z w)
     | OAccept (p, bytes, v) ->
       let d = match rest with
         | [ch] when ch <> "-" ->
           (match decode_root (nat_of_int (depth_of v)) (to_schema ps) (RTable (nat_of_int (int_of_string root))) (fl land 4 <> 0) (zs_of_hex ch) with
            | Some v' -> if v' = v then "D1" else "D0"
            | None -> "D0")
         | _ -> "D-" in
       Printf.sprintf "OK %d %s %s" (int_of_z p) (match bytes with Some l -> hex_of_zs l | None -> "NOBUF") d)
  | _ -> "BAD"
let () = main_loop handle
