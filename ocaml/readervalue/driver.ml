(* modelrun_readervalue: line protocol over the extracted generated-reader VALUE model (coq/Verifier/ReaderValue.v, C03).
   rv    <schema> <root> <ws 0|1> <depth> <hex>   -> value tree text of read_root (format of modelrun_builder dec) | NONE
   agree <schema> <root> <ws 0|1> <depth> <hex>   -> AGREE <text> | REJECTED (decoder refuses; reader result not constrained)
                                                     | DIFFER reader=<text> decoder=<text>      (C03_reader_agrees_with_decode, run)
   dump  <schema> <extras> <root> <rootleaves|-> <ws 0|1> <hex>
         -> the dump of harness/buf_check.c + glue.h (checks/builder_util.py gen_glue), produced by calling the MODEL's accessors
            in the order the glue calls the generated ones; FAULT when a model load leaves the buffer
   Schema / root: as in ocaml/builder/driver.ml.
   Extras: <tables>#<unions>; tables '|'-separated, fields ';'-separated <id>,<tag><data>:
            S<hex> scalar with default bytes, P<hex> optional scalar, L<leaves> struct / struct vector / nested struct root, '-' none;
           unions '|'-separated, members ';'-separated <code>,<leaves|->.   leaves: <off>.<size>/<off>.<size>/..
   The walk below is glue (as gen_glue is on the C side): every VALUE it prints comes out of an extracted accessor. *)
let zi = z_of_string
let split c s = if s = "-" || s = "" then [] else String.split_on_char c s
let nat_of_string s = nat_of_int (int_of_string s)

let parse_kind l =
  match l with
  | ["s"; size; al] -> FScalar (zi size, zi al)
  | ["str"] -> FString
  | ["v"; es; al; mc] -> FVector (zi es, zi al, zi mc)
  | ["sv"] -> FStringVec
  | ["t"; n] -> FTable (nat_of_string n)
  | ["tv"; n] -> FTableVec (nat_of_string n)
  | ["u"; n] -> FUnion (nat_of_string n)
  | ["uv"; n] -> FUnionVec (nat_of_string n)
  | ["nt"; al; n] -> FNestedTable (zi al, nat_of_string n)
  | ["ns"; size; al] -> FNestedStruct (zi size, zi al)
  | _ -> failwith "kind"

let parse_field s =
  match String.split_on_char ',' s with
  | [id; req; k] -> { fid = zi id; frequired = (req = "1"); fk = parse_kind (String.split_on_char ':' k) }
  | _ -> failwith ("field: " ^ s)

let parse_member s =
  match String.split_on_char ',' s with
  | [code; k] -> (zi code, (match String.split_on_char ':' k with
                            | ["t"; n] -> UTable (nat_of_string n)
                            | ["s"; size; al] -> UStruct (zi size, zi al)
                            | ["str"] -> UString
                            | _ -> failwith "member"))
  | _ -> failwith ("member: " ^ s)

let parse_schema s =
  match String.split_on_char '#' s with
  | [ts; us] ->
    { tables = List.map (fun t -> List.map parse_field (split ';' t)) (split '|' ts);
      unions = List.map (fun u -> List.map parse_member (split ';' u)) (split '|' us) }
  | _ -> failwith "schema"

let parse_root s =
  match String.split_on_char ':' s with
  | ["t"; n] -> RTable (nat_of_string n)
  | ["s"; size; al] -> RStruct (zi size, zi al)
  | _ -> failwith "root"

let rec show_value v =
  match v with
  | VBytes bs -> "b" ^ hex_of_zs bs
  | VString s -> "s" ^ hex_of_zs s
  | VVec es -> "v[" ^ String.concat "," (List.map hex_of_zs es) ^ "]"
  | VTable fs -> "t{" ^ String.concat ";" (List.map (fun (id, v) -> string_of_z id ^ "=" ^ show_value v) fs) ^ "}"
  | VOffVec es -> "o[" ^ String.concat "," (List.map show_value es) ^ "]"
  | VUnion (c, v) -> "u" ^ string_of_z c ^ ":" ^ show_value v
  | VUnionVec es -> "U[" ^ String.concat "," (List.map (fun (c, o) -> string_of_z c ^ ":" ^ (match o with None -> "-" | Some v -> show_value v)) es) ^ "]"
  | VNested v -> "n(" ^ show_value v ^ ")"
  | VUnknown -> "?"

let mem_of_hex s =
  let b = bytes_of_hex s in
  let n = Bytes.length b in
  ((fun i -> let k = int_of_z i in if k >= 0 && k < n then Some ztab.(Char.code (Bytes.get b k)) else None), n)

let schema_cache : (string, schema) Hashtbl.t = Hashtbl.create 16
let get_schema s = match Hashtbl.find_opt schema_cache s with Some x -> x | None -> let x = parse_schema s in Hashtbl.add schema_cache s x; x

(* ---------------------------------------------------------------- extras *)
type extra = XScalar of z list | XOpt of z list | XLeaves of (int * int) list | XNone
let parse_leaves s = List.map (fun l -> match String.split_on_char '.' l with [o; z] -> (int_of_string o, int_of_string z) | _ -> failwith "leaf") (split '/' s)
let parse_extra s =
  if s = "-" || s = "" then XNone else
  let d = String.sub s 1 (String.length s - 1) in
  match s.[0] with
  | 'S' -> XScalar (zs_of_hex d) | 'P' -> XOpt (zs_of_hex d) | 'L' -> XLeaves (parse_leaves d) | _ -> failwith "extra"
type extras = { xt : (int * extra) list array; xu : (int * (int * int) list) list array }
let parse_extras s =
  match String.split_on_char '#' s with
  | [ts; us] ->
    let fld f = match String.index_opt f ',' with
      | Some i -> (int_of_string (String.sub f 0 i), parse_extra (String.sub f (i + 1) (String.length f - i - 1)))
      | None -> failwith "xfield" in
    let mem f = match String.index_opt f ',' with
      | Some i -> (int_of_string (String.sub f 0 i), parse_leaves (String.sub f (i + 1) (String.length f - i - 1)))
      | None -> failwith "xmember" in
    { xt = Array.of_list (List.map (fun t -> List.map fld (split ';' t)) (split '|' ts));
      xu = Array.of_list (List.map (fun u -> List.map mem (split ';' u)) (split '|' us)) }
  | _ -> failwith "extras"
let extras_cache : (string, extras) Hashtbl.t = Hashtbl.create 16
let get_extras s = match Hashtbl.find_opt extras_cache s with Some x -> x | None -> let x = parse_extras s in Hashtbl.add extras_cache s x; x

(* ---------------------------------------------------------------- the glue walk over the model's accessors *)
exception Fault
let get = function Some x -> x | None -> raise Fault
let zadd a k = z_of_int (int_of_z a + k)

let dump (sc : schema) (xs : extras) (m : mem) (root : root) (rootleaves : (int * int) list) (ws : bool) : string =
  let b = Buffer.create 256 in
  let out = Buffer.add_string b in
  let bytes_at p n = get (ldbytes m p (nat_of_int n)) in
  let hex l = hex_of_zs l in
  (* ds_<struct>: leaf by leaf through the struct accessors (each leaf a scalar load at p + offset) *)
  let leaves p ls = out (String.concat "," (List.map (fun (o, z) -> hex (bytes_at (zadd p o) z)) ls)) in
  let dump_string s = let n = int_of_z (get (vec_len m (Some s))) in out "s"; out (hex (bytes_at s n)) in
  let rec du u ty value =
    out (string_of_z ty); out ":";
    (match union_member sc (nat_of_int u) ty with
     | Some UString -> dump_string (string_cast_from_generic value)
     | Some (UTable t) -> dt (int_of_nat t) (Some value)
     | Some (UStruct (_, _)) -> out "b"; leaves value (List.assoc (int_of_z ty) xs.xu.(u))
     | None -> out "?")
  and dt tix t =
    match t with
    | None -> out "NULL"
    | Some t ->
      out "t{";
      let sep = ref false in
      let pre id = (if !sep then out ";"); sep := true; out (string_of_z id); out "=" in
      let flds = get (table_fields sc (nat_of_int tix)) in
      List.iter (fun f ->
        let id = f.fid and req = f.frequired in
        let x = (try List.assoc (int_of_z id) xs.xt.(tix) with Not_found -> XNone) in
        let present () = get (field_present m t id) in
        match f.fk, x with
        | FScalar (size, _), XOpt d ->
          let (is_null, v) = get (scalar_option m t id (nat_of_int (int_of_z size)) d) in
          pre id; (if is_null <> not (present ()) then out "!OPT");
          if is_null then out "~null" else (out "+b"; out (hex v))
        | FScalar (size, _), XScalar d ->
          let v = get (scalar_get m t id (nat_of_int (int_of_z size)) d) in
          pre id; out (if present () then "+" else "~"); out "b"; out (hex v)
        | FScalar (_, _), XLeaves ls ->
          if present () then begin
            match get (struct_field m t id req) with
            | Some p -> pre id; out "b"; leaves p ls
            | None -> raise Fault end
        | FScalar (_, _), _ -> failwith "scalar field without extras"
        | FString, _ ->
          if present () then (pre id; dump_string (get (get (offset_field m t id req (z_of_int 4)))))
        | FVector (esize, _, _), _ ->
          if present () then begin
            let v = get (get (offset_field m t id req (z_of_int 4))) in
            let n = int_of_z (get (vec_len m (Some v))) in
            pre id; out "v[";
            for i = 0 to n - 1 do
              (if i > 0 then out ",");
              (match x with
               | XLeaves ls -> leaves (struct_vec_at v esize (z_of_int i)) ls
               | _ -> out (hex (get (scalar_vec_at m v esize (z_of_int i)))))
            done; out "]" end
        | FStringVec, _ ->
          if present () then begin
            let v = get (get (offset_field m t id req (z_of_int 4))) in
            let n = int_of_z (get (vec_len m (Some v))) in
            pre id; out "o[";
            for i = 0 to n - 1 do (if i > 0 then out ","); dump_string (get (offset_vec_at m v (z_of_int i) (z_of_int 4))) done;
            out "]" end
        | FTable t', _ ->
          if present () then (pre id; dt (int_of_nat t') (get (offset_field m t id req Z0)))
        | FTableVec t', _ ->
          if present () then begin
            let v = get (get (offset_field m t id req (z_of_int 4))) in
            let n = int_of_z (get (vec_len m (Some v))) in
            pre id; out "o[";
            for i = 0 to n - 1 do (if i > 0 then out ","); dt (int_of_nat t') (Some (get (offset_vec_at m v (z_of_int i) Z0))) done;
            out "]" end
        | FUnion u, _ ->
          if present () then begin
            let (ty, value) = get (union_field m t id req) in
            pre id; out "u";
            (* the glue cross-checks T_f_type / T_f against T_f_union *)
            (if get (union_type_field m t (zadd id (-1))) <> ty || get (offset_field m t id req Z0) <> value then out "!UNION");
            (match value with Some p -> du (int_of_nat u) ty p | None -> out (string_of_z ty); out ":"; out "?") end
        | FUnionVec u, _ ->
          if present () then begin
            let uv = get (union_vec_field m t id req) in
            let n = int_of_z (get (union_vec_len m uv)) in
            pre id; out "U[";
            (if int_of_z (get (vec_len m (snd uv))) <> n then out "!UVLEN");
            for i = 0 to n - 1 do
              (if i > 0 then out ",");
              (match get (union_vec_at m uv (z_of_int i)) with
               | (ty, None) -> out "0:-"
               | (ty, Some p) -> du (int_of_nat u) ty p)
            done; out "]" end
        | FNestedTable (_, t'), _ ->
          if present () then begin
            let buf = get (get (offset_field m t id req (z_of_int 4))) in
            pre id; out "n("; dt (int_of_nat t') (Some (get (read_root_ptr m buf))); out ")" end
        | FNestedStruct (_, _), _ ->
          if present () then begin
            let buf = get (get (offset_field m t id req (z_of_int 4))) in
            let ls = (match x with XLeaves ls -> ls | _ -> failwith "nested struct without leaves") in
            pre id; out "n(b"; leaves (get (read_root_ptr m buf)) ls; out ")" end) flds;
      out "}" in
  (try
    let buf = if ws then read_size_prefix Z0 else Z0 in
    let p = get (read_root_ptr m buf) in
    (match root with
     | RTable t -> dt (int_of_nat t) (Some p)
     | RStruct (_, _) -> out "b"; leaves p rootleaves);
    Buffer.contents b
  with Fault -> "FAULT " ^ Buffer.contents b)

let handle = function
  | ["rv"; schema; root; ws; depth; hex] ->
    let (m, _) = mem_of_hex hex in
    (match read_root (nat_of_string depth) (get_schema schema) (fun _ _ -> []) (parse_root root) (ws = "1") m with
     | None -> "NONE"
     | Some v -> show_value v)
  | ["agree"; schema; root; ws; depth; hex] ->
    let (m, n) = mem_of_hex hex in
    let sc = get_schema schema and r = parse_root root and d = nat_of_string depth in
    let sh = function None -> "NONE" | Some v -> show_value v in
    let dec = decode_mem d sc r (ws = "1") [] m (z_of_int n) in
    (match dec with
     | None -> "REJECTED"
     | Some _ ->
       let rd = read_root d sc (fun _ _ -> []) r (ws = "1") m in
       if rd = dec then "AGREE " ^ sh rd else "DIFFER reader=" ^ sh rd ^ " decoder=" ^ sh dec)
  | ["dump"; schema; extras; root; rootleaves; ws; hex] ->
    let (m, _) = mem_of_hex hex in
    dump (get_schema schema) (get_extras extras) m (parse_root root) (parse_leaves rootleaves) (ws = "1")
  | l -> "BAD " ^ String.concat " " l
let () = main_loop handle
