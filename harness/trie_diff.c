/* H-trie (C10): line-protocol harness over the JSON parser that /repo's CURRENT flatcc generated for one schema.
   Compiled once per schema with
     -DC10_PARSER_HDR="<schema>_json_parser.h" -DC10_PARSE=<schema>_parse_json
   against /repo's current runtime (builder.c emitter.c refmap.c json_parser.c) and the generated common headers.

   request : <flags> <path> <hexjson>
             flags  = flatcc_json_parser flags (1 skip_unknown, 2 force_add)
             path   = '-' or dot separated field ids: offset fields (sub-table / union value) to follow from the root table
             hexjson= the JSON text (exact-size heap block: an over-read hits the ASan redzone)
   reply   : ERR <code> <pos>                      parser error code (flatcc_json_parser_error_no) and error position
             OK id=hex id=hex ...                 fields present in the addressed table's vtable, each with the bytes
                                                  from its offset up to the next field / the end of the table
             NOPATH <id>                           a field on the path is absent in the parsed buffer
             BADBUF <what>                         the produced buffer is not walkable (would be a builder defect) */
#include "hx.h"
#include "flatcc/flatcc_builder.h"
#include "flatbuffers_common_reader.h"
#include "flatbuffers_common_builder.h"
#include C10_PARSER_HDR

static uint32_t rd32(const uint8_t *p) { return (uint32_t)p[0] | ((uint32_t)p[1] << 8) | ((uint32_t)p[2] << 16) | ((uint32_t)p[3] << 24); }
static uint16_t rd16(const uint8_t *p) { return (uint16_t)(p[0] | (p[1] << 8)); }

/* table position -> vtable info; returns 0 when out of bounds */
static int table_info(const uint8_t *b, size_t n, size_t tpos, size_t *vt, size_t *vsize, size_t *tsize)
{
    int32_t so; size_t v;
    if (tpos + 4 > n) return 0;
    so = (int32_t)rd32(b + tpos);
    v = (size_t)((int64_t)tpos - so);
    if (v + 4 > n) return 0;
    *vt = v; *vsize = rd16(b + v); *tsize = rd16(b + v + 2);
    if (*vsize < 4 || (*vsize & 1) || v + *vsize > n || tpos + *tsize > n) return 0;
    return 1;
}

static size_t field_off(const uint8_t *b, size_t vt, size_t vsize, unsigned id)
{
    size_t slot = 4 + 2 * (size_t)id;
    if (slot + 2 > vsize) return 0;
    return rd16(b + vt + slot);
}

int main(void)
{
    char *line, *t[4];
    while ((line = hx_getline())) {
        int n = hx_split(line, t, 4);
        uint8_t *js; size_t len; int flags, rc;
        flatcc_builder_t B; flatcc_json_parser_t ctx;
        if (n != 3) { printf("BAD\n"); continue; }
        flags = atoi(t[0]);
        len = hx_decode(t[2], &js);
        flatcc_builder_init(&B);
        memset(&ctx, 0, sizeof(ctx));
        rc = C10_PARSE(&B, &ctx, (const char *)js, len, (flatcc_json_parser_flags_t)flags);
        if (rc) {
            printf("ERR %d %d\n", rc, (int)(ctx.error_loc ? ctx.error_loc - (const char *)js : -1));
        } else {
            size_t bn; uint8_t *b = (uint8_t *)flatcc_builder_finalize_buffer(&B, &bn);
            if (!b || bn < 8) { printf("BADBUF finalize\n"); }
            else {
                size_t tpos = rd32(b), vt, vsize, tsize; int ok = 1; char *p = t[1];
                if (!table_info(b, bn, tpos, &vt, &vsize, &tsize)) { printf("BADBUF root\n"); ok = 0; }
                while (ok && p && *p && *p != '-') {
                    unsigned id = (unsigned)strtoul(p, &p, 10); size_t off;
                    if (*p == '.') ++p;
                    off = field_off(b, vt, vsize, id);
                    if (!off) { printf("NOPATH %u\n", id); ok = 0; break; }
                    if (tpos + off + 4 > bn) { printf("BADBUF path\n"); ok = 0; break; }
                    tpos = tpos + off + rd32(b + tpos + off);
                    if (!table_info(b, bn, tpos, &vt, &vsize, &tsize)) { printf("BADBUF subtable\n"); ok = 0; }
                }
                if (ok) {
                    unsigned id, nf = (unsigned)((vsize - 4) / 2);
                    printf("OK");
                    for (id = 0; id < nf; ++id) {
                        size_t off = field_off(b, vt, vsize, id), end = tsize; unsigned j;
                        if (!off) continue;
                        for (j = 0; j < nf; ++j) { size_t o2 = field_off(b, vt, vsize, j); if (o2 > off && o2 < end) end = o2; }
                        if (off >= tsize) { printf(" %u=BAD", id); continue; }
                        printf(" %u=", id); hx_print(b + tpos + off, end - off);
                    }
                    printf("\n");
                }
                free(b);   /* FLATCC_BUILDER_ALLOC default is malloc */
            }
        }
        flatcc_builder_clear(&B);
        free(js);
        fflush(stdout);
    }
    return 0;
}
