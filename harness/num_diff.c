/* H-num: line-protocol harness over /repo's current number <-> text code (C19).
   Built against: portable/pprintint.h, pparseint.h, pprintfp.h, pparsefp.h (grisu3), json_parser.c
   (flatcc_json_parser_integer / _float / _double), flatcc_json_parser.h (coerce_*, typed scalar parsers) and
   the JSON parser / printer that the freshly built flatcc generated for gen/c19num.fbs.
   Every text handed to an integer parser lives in an exact-size heap block (no terminator) so that an
   over-read hits the ASan redzone; float parsers get one readable terminator byte, which is their contract
   ("reads up to len + 1 bytes"). Replies use the same format as ocaml/num/driver.ml. */
#include "hx.h"
#include <inttypes.h>
#include "flatcc/portable/pprintint.h"
#include "flatcc/portable/pparseint.h"
#include "flatcc/portable/pprintfp.h"
#include "flatcc/portable/pparsefp.h"
#include "flatcc/flatcc_json_parser.h"
#include "flatcc/flatcc_json_printer.h"
#include "c19num_json_parser.h"
#include "c19num_json_printer.h"
#include "c19num_reader.h"

static const char *status_name(int st) {
    switch (st) {
    case PARSE_INTEGER_OVERFLOW: return "OVERFLOW";
    case PARSE_INTEGER_UNDERFLOW: return "UNDERFLOW";
    case PARSE_INTEGER_INVALID: return "INVALID";
    case PARSE_INTEGER_UNMATCHED: return "UNMATCHED";
    case PARSE_INTEGER_END: return "END";
    }
    return "ODDSTATUS";
}

/* status / pointer conventions of pparseint.h: END, UNMATCHED return buf; the other failures return NULL */
static int fail_ptr_ok(int st, const char *ret, const char *buf) {
    if (st == PARSE_INTEGER_END || st == PARSE_INTEGER_UNMATCHED) return ret == buf;
    return ret == 0;
}

static const char *jerr_class(int e, char *tmp) {
    if (e == flatcc_json_parser_error_overflow || e == flatcc_json_parser_error_underflow) return "RANGE";
    if (e == flatcc_json_parser_error_float_unexpected) return "FLOAT";
    if (e == flatcc_json_parser_error_invalid_numeric) return "NUMERIC";
    sprintf(tmp, "OTHER:%d", e); return tmp;
}

static void ctx_init(flatcc_json_parser_t *ctx, const char *buf) {
    memset(ctx, 0, sizeof(*ctx)); ctx->line_start = buf; ctx->line = 1;
}

static uint32_t f2u(float f) { uint32_t u; memcpy(&u, &f, 4); return u; }
static uint64_t d2u(double d) { uint64_t u; memcpy(&u, &d, 8); return u; }
static float u2f(uint32_t u) { float f; memcpy(&f, &u, 4); return f; }
static double u2d(uint64_t u) { double d; memcpy(&d, &u, 8); return d; }

#define PRINT_CASE(CALL, REFFMT, REFVAL) do {                                         \
        char ref[32]; int rl = snprintf(ref, sizeof ref, REFFMT, REFVAL);              \
        char *b = (char *)malloc((size_t)rl + 1); int k;                               \
        memset(b, 0xAA, (size_t)rl + 1);                                               \
        k = CALL;                                                                      \
        printf("%d ", k); hx_print((uint8_t *)b, (size_t)rl + 1); printf("\n");        \
        free(b);                                                                       \
    } while (0)

#define PTYP(NAME, TYPE, FMT, CAST) do {                                               \
        TYPE v = (TYPE)0x5a; int st = 77; const char *r = parse_ ## NAME((const char *)p, len, &v, &st); \
        if (st >= 0) { if (!r) printf("ODD ok-null\n"); else printf("OK " FMT " %ld\n", (CAST)v, (long)(r - (const char *)p)); } \
        else if (!fail_ptr_ok(st, r, (const char *)p)) printf("ODD %s ptr\n", status_name(st)); \
        else printf("%s\n", status_name(st));                                          \
    } while (0)

/* hex entry points of pparseint.h: same reply format; no pointer-convention test (UNMATCHED after "0x" returns past the prefix) */
#define PHTYP(NAME, TYPE, FMT, CAST) do {                                              \
        TYPE v = (TYPE)0x5a; int st = 77; const char *r = parse_hex_ ## NAME((const char *)p, len, &v, &st); \
        if (st >= 0) { if (!r) printf("ODD ok-null\n"); else printf("OK " FMT " %ld\n", (CAST)v, (long)(r - (const char *)p)); } \
        else printf("%s\n", status_name(st));                                          \
    } while (0)

#define JTYP(NAME, TYPE, FMT, CAST) do {                                               \
        TYPE v = (TYPE)0x5a; const char *r; ctx_init(&ctx, (const char *)p);           \
        r = flatcc_json_parser_ ## NAME(&ctx, (const char *)p, (const char *)p + len, &v); \
        if (ctx.error) printf("ERR %s\n", jerr_class(ctx.error, tmp));                 \
        else if (r == (const char *)p) printf("UNMATCHED\n");                          \
        else printf("OK " FMT " %ld\n", (CAST)v, (long)(r - (const char *)p));         \
    } while (0)

#define COERCE(NAME, TYPE, FMT, CAST) do {                                             \
        TYPE v = (TYPE)0x5a; const char *r; char dummy[2] = { '}', 0 }; ctx_init(&ctx, dummy); \
        r = flatcc_json_parser_coerce_ ## NAME(&ctx, dummy, dummy + 1, sign, value, &v); (void)r; \
        if (ctx.error == flatcc_json_parser_error_overflow) printf("ERR OVERFLOW\n");  \
        else if (ctx.error == flatcc_json_parser_error_underflow) printf("ERR UNDERFLOW\n"); \
        else if (ctx.error) printf("ERR OTHER:%d\n", ctx.error);                       \
        else printf("OK " FMT "\n", (CAST)v);                                          \
    } while (0)

static uint64_t rng_state;
static uint64_t rng_next(void) { uint64_t x = rng_state; x ^= x << 13; x ^= x >> 7; x ^= x << 17; rng_state = x; return x; }

/* one integer round trip for the sweeps; returns 0 when everything agrees. tb: terminator after the text
   for the JSON parsers (the block is text + terminator, exact size). */
static int rt_u(uint64_t u, int width, char tb) {
    char ref[32]; int rl = snprintf(ref, sizeof ref, "%" PRIu64, u); int k, st = 77, bad = 0; const char *r;
    char *b = (char *)malloc((size_t)rl + 1); flatcc_json_parser_t ctx;
    if (width == 32) k = print_uint32((uint32_t)u, b); else if (width == 16) k = print_uint16((uint16_t)u, b);
    else if (width == 8) k = print_uint8((uint8_t)u, b); else k = print_uint64(u, b);
    if (k != rl || memcmp(b, ref, (size_t)rl + 1)) bad |= 1;
    if (width == 64) { uint64_t v = 1; r = parse_uint64(b, (size_t)rl, &v, &st); if (st != 0 || r != b + rl || v != u) bad |= 2; }
    else if (width == 32) { unsigned int v = 1; r = parse_uint(b, (size_t)rl, &v, &st); if (st != 0 || r != b + rl || v != u) bad |= 2; }
    else if (width == 16) { uint16_t v = 1; r = parse_uint16(b, (size_t)rl, &v, &st); if (st != 0 || r != b + rl || v != u) bad |= 2; }
    else { uint8_t v = 1; r = parse_uint8(b, (size_t)rl, &v, &st); if (st != 0 || r != b + rl || v != u) bad |= 2; }
    b[rl] = tb; ctx_init(&ctx, b);
    if (width == 64) { uint64_t v = 1; r = flatcc_json_parser_uint64(&ctx, b, b + rl + 1, &v); if (ctx.error || r != b + rl || v != u) bad |= 4; }
    else if (width == 32) { uint32_t v = 1; r = flatcc_json_parser_uint32(&ctx, b, b + rl + 1, &v); if (ctx.error || r != b + rl || v != u) bad |= 4; }
    else if (width == 16) { uint16_t v = 1; r = flatcc_json_parser_uint16(&ctx, b, b + rl + 1, &v); if (ctx.error || r != b + rl || v != u) bad |= 4; }
    else { uint8_t v = 1; r = flatcc_json_parser_uint8(&ctx, b, b + rl + 1, &v); if (ctx.error || r != b + rl || v != u) bad |= 4; }
    free(b); return bad;
}
static int rt_i(int64_t i, int width, char tb) {
    char ref[32]; int rl = snprintf(ref, sizeof ref, "%" PRId64, i); int k, st = 77, bad = 0; const char *r;
    char *b = (char *)malloc((size_t)rl + 1); flatcc_json_parser_t ctx;
    if (width == 32) k = print_int32((int32_t)i, b); else if (width == 16) k = print_int16((int16_t)i, b);
    else if (width == 8) k = print_int8((int8_t)i, b); else k = print_int64(i, b);
    if (k != rl || memcmp(b, ref, (size_t)rl + 1)) bad |= 1;
    if (width == 64) { int64_t v = 1; r = parse_int64(b, (size_t)rl, &v, &st); if (st != (i < 0) || r != b + rl || v != i) bad |= 2; }
    else if (width == 32) { int32_t v = 1; r = parse_int32(b, (size_t)rl, &v, &st); if (st != (i < 0) || r != b + rl || v != i) bad |= 2; }
    else if (width == 16) { int16_t v = 1; r = parse_int16(b, (size_t)rl, &v, &st); if (st != (i < 0) || r != b + rl || v != i) bad |= 2; }
    else { int8_t v = 1; r = parse_int8(b, (size_t)rl, &v, &st); if (st != (i < 0) || r != b + rl || v != i) bad |= 2; }
    b[rl] = tb; ctx_init(&ctx, b);
    if (width == 64) { int64_t v = 1; r = flatcc_json_parser_int64(&ctx, b, b + rl + 1, &v); if (ctx.error || r != b + rl || v != i) bad |= 4; }
    else if (width == 32) { int32_t v = 1; r = flatcc_json_parser_int32(&ctx, b, b + rl + 1, &v); if (ctx.error || r != b + rl || v != i) bad |= 4; }
    else if (width == 16) { int16_t v = 1; r = flatcc_json_parser_int16(&ctx, b, b + rl + 1, &v); if (ctx.error || r != b + rl || v != i) bad |= 4; }
    else { int8_t v = 1; r = flatcc_json_parser_int8(&ctx, b, b + rl + 1, &v); if (ctx.error || r != b + rl || v != i) bad |= 4; }
    free(b); return bad;
}

/* float round trips: print, parse with the portable parser (len = k, NUL readable at buf[k]) and with the JSON
   float parser (terminator tb inside the block). bad bit 1: parse_* differs, 2: JSON parser differs */
static int rt_f(uint32_t bits, char tb, char *textout) {
    char *b = (char *)malloc(40); int k, bad = 0; float g = 1.0f; const char *r; flatcc_json_parser_t ctx;
    memset(b, 0, 40); k = print_float(u2f(bits), b);
    if (textout) { memcpy(textout, b, (size_t)k + 1); }
    r = parse_float(b, (size_t)k, &g); if (r != b + k || f2u(g) != bits) bad |= 1;
    b[k] = tb; g = 1.0f; ctx_init(&ctx, b);
    r = flatcc_json_parser_float(&ctx, b, b + k + 1, &g); if (ctx.error || r != b + k || f2u(g) != bits) bad |= 2;
    free(b); return bad;
}
static int rt_d_one_ulp;   /* set by rt_d: every wrong result was a complete parse to a non-zero value exactly one ulp away */
static int rt_d(uint64_t bits, char tb, char *textout) {
    char *b = (char *)malloc(40); int k, bad = 0; double g = 1.0; const char *r; flatcc_json_parser_t ctx;
    memset(b, 0, 40); k = print_double(u2d(bits), b); rt_d_one_ulp = 1;
    if (textout) { memcpy(textout, b, (size_t)k + 1); }
    r = parse_double(b, (size_t)k, &g); if (r != b + k || d2u(g) != bits) { bad |= 1; if (r != b + k || (d2u(g) + 1 != bits && d2u(g) != bits + 1) || !(d2u(g) << 1)) rt_d_one_ulp = 0; }
    b[k] = tb; g = 1.0; ctx_init(&ctx, b);
    r = flatcc_json_parser_double(&ctx, b, b + k + 1, &g); if (ctx.error || r != b + k || d2u(g) != bits) { bad |= 2; if (ctx.error || r != b + k || (d2u(g) + 1 != bits && d2u(g) != bits + 1) || !(d2u(g) << 1)) rt_d_one_ulp = 0; }
    free(b); return bad;
}
static int finite32(uint32_t b) { return (b & 0x7f800000u) != 0x7f800000u; }
static int finite64(uint64_t b) { return (b & 0x7ff0000000000000ull) != 0x7ff0000000000000ull; }

int main(void) {
    char *line, *t[8]; int n; char tmp[32]; flatcc_json_parser_t ctx;
    static const char terms[] = { ',', '}', ']', ' ', '\n', '\t', '\r', ':' };
    while ((line = hx_getline())) {
        n = hx_split(line, t, 8);
        if (n == 0) { printf("BAD\n"); continue; }
        if (!strcmp(t[0], "pu") && n == 3) {
            uint64_t v = strtoull(t[2], 0, 10); int w = atoi(t[1]);
            if (w == 8) PRINT_CASE(print_uint8((uint8_t)v, b), "%" PRIu64, v);
            else if (w == 16) PRINT_CASE(print_uint16((uint16_t)v, b), "%" PRIu64, v);
            else if (w == 32) PRINT_CASE(print_uint32((uint32_t)v, b), "%" PRIu64, v);
            else PRINT_CASE(print_uint64(v, b), "%" PRIu64, v);
        } else if (!strcmp(t[0], "pi") && n == 3) {
            int64_t v = strtoll(t[2], 0, 10); int w = atoi(t[1]);
            if (w == 8) PRINT_CASE(print_int8((int8_t)v, b), "%" PRId64, v);
            else if (w == 16) PRINT_CASE(print_int16((int16_t)v, b), "%" PRId64, v);
            else if (w == 32) PRINT_CASE(print_int32((int32_t)v, b), "%" PRId64, v);
            else PRINT_CASE(print_int64(v, b), "%" PRId64, v);
        } else if (!strcmp(t[0], "pint") && n == 2) {
            uint8_t *p; size_t len = hx_decode(t[1], &p); uint64_t v = 0x5a; int st = 77;
            const char *r = parse_integer((const char *)p, len, &v, &st);
            if (st >= 0) { if (!r) printf("ODD ok-null\n"); else printf("OK %d %" PRIu64 " %ld\n", st, v, (long)(r - (const char *)p)); }
            else if (!fail_ptr_ok(st, r, (const char *)p)) printf("ODD %s ptr\n", status_name(st));
            else printf("%s\n", status_name(st));
            free(p);
        } else if (!strcmp(t[0], "ptyp") && n == 3) {
            uint8_t *p; size_t len = hx_decode(t[2], &p);
            if (!strcmp(t[1], "u8")) PTYP(uint8, uint8_t, "%" PRIu64, uint64_t);
            else if (!strcmp(t[1], "u16")) PTYP(uint16, uint16_t, "%" PRIu64, uint64_t);
            else if (!strcmp(t[1], "u32")) PTYP(uint, unsigned int, "%" PRIu64, uint64_t);
            else if (!strcmp(t[1], "u64")) PTYP(uint64, uint64_t, "%" PRIu64, uint64_t);
            else if (!strcmp(t[1], "i8")) PTYP(int8, int8_t, "%" PRId64, int64_t);
            else if (!strcmp(t[1], "i16")) PTYP(int16, int16_t, "%" PRId64, int64_t);
            else if (!strcmp(t[1], "i32")) PTYP(int32, int32_t, "%" PRId64, int64_t);
            else if (!strcmp(t[1], "i64")) PTYP(int64, int64_t, "%" PRId64, int64_t);
            else printf("BAD\n");
            free(p);
        } else if (!strcmp(t[0], "phex") && n == 2) {
            uint8_t *p; size_t len = hx_decode(t[1], &p); uint64_t v = 0x5a; int st = 77;
            const char *r = parse_hex_integer((const char *)p, len, &v, &st);
            if (st >= 0) { if (!r) printf("ODD ok-null\n"); else printf("OK %d %" PRIu64 " %ld\n", st, v, (long)(r - (const char *)p)); }
            else printf("%s\n", status_name(st));
            free(p);
        } else if (!strcmp(t[0], "phtyp") && n == 3) {
            uint8_t *p; size_t len = hx_decode(t[2], &p);
            if (!strcmp(t[1], "u8")) PHTYP(uint8, uint8_t, "%" PRIu64, uint64_t);
            else if (!strcmp(t[1], "u16")) PHTYP(uint16, uint16_t, "%" PRIu64, uint64_t);
            else if (!strcmp(t[1], "u32")) PHTYP(uint, unsigned int, "%" PRIu64, uint64_t);
            else if (!strcmp(t[1], "u64")) PHTYP(uint64, uint64_t, "%" PRIu64, uint64_t);
            else if (!strcmp(t[1], "i8")) PHTYP(int8, int8_t, "%" PRId64, int64_t);
            else if (!strcmp(t[1], "i16")) PHTYP(int16, int16_t, "%" PRId64, int64_t);
            else if (!strcmp(t[1], "i32")) PHTYP(int32, int32_t, "%" PRId64, int64_t);
            else if (!strcmp(t[1], "i64")) PHTYP(int64, int64_t, "%" PRId64, int64_t);
            else printf("BAD\n");
            free(p);
        } else if (!strcmp(t[0], "jint") && n == 2) {
            uint8_t *p; size_t len = hx_decode(t[1], &p); uint64_t v = 0x5a; int sign = 77; const char *r;
            ctx_init(&ctx, (const char *)p);
            r = flatcc_json_parser_integer(&ctx, (const char *)p, (const char *)p + len, &sign, &v);
            if (ctx.error) printf("ERR %s\n", jerr_class(ctx.error, tmp));
            else if (r == (const char *)p) printf("UNMATCHED\n");
            else printf("OK %d %" PRIu64 " %ld\n", sign, v, (long)(r - (const char *)p));
            free(p);
        } else if (!strcmp(t[0], "jtyp") && n == 3) {
            uint8_t *p; size_t len = hx_decode(t[2], &p);
            if (!strcmp(t[1], "u8")) JTYP(uint8, uint8_t, "%" PRIu64, uint64_t);
            else if (!strcmp(t[1], "u16")) JTYP(uint16, uint16_t, "%" PRIu64, uint64_t);
            else if (!strcmp(t[1], "u32")) JTYP(uint32, uint32_t, "%" PRIu64, uint64_t);
            else if (!strcmp(t[1], "u64")) JTYP(uint64, uint64_t, "%" PRIu64, uint64_t);
            else if (!strcmp(t[1], "i8")) JTYP(int8, int8_t, "%" PRId64, int64_t);
            else if (!strcmp(t[1], "i16")) JTYP(int16, int16_t, "%" PRId64, int64_t);
            else if (!strcmp(t[1], "i32")) JTYP(int32, int32_t, "%" PRId64, int64_t);
            else if (!strcmp(t[1], "i64")) JTYP(int64, int64_t, "%" PRId64, int64_t);
            else if (!strcmp(t[1], "bool")) JTYP(bool, uint8_t, "%" PRIu64, uint64_t);
            else printf("BAD\n");
            free(p);
        } else if (!strcmp(t[0], "coerce") && n == 4) {
            int sign = atoi(t[2]); uint64_t value = strtoull(t[3], 0, 10);
            if (!strcmp(t[1], "u8")) COERCE(uint8, uint8_t, "%" PRIu64, uint64_t);
            else if (!strcmp(t[1], "u16")) COERCE(uint16, uint16_t, "%" PRIu64, uint64_t);
            else if (!strcmp(t[1], "u32")) COERCE(uint32, uint32_t, "%" PRIu64, uint64_t);
            else if (!strcmp(t[1], "u64")) COERCE(uint64, uint64_t, "%" PRIu64, uint64_t);
            else if (!strcmp(t[1], "i8")) COERCE(int8, int8_t, "%" PRId64, int64_t);
            else if (!strcmp(t[1], "i16")) COERCE(int16, int16_t, "%" PRId64, int64_t);
            else if (!strcmp(t[1], "i32")) COERCE(int32, int32_t, "%" PRId64, int64_t);
            else if (!strcmp(t[1], "i64")) COERCE(int64, int64_t, "%" PRId64, int64_t);
            else if (!strcmp(t[1], "bool")) COERCE(bool, uint8_t, "%" PRIu64, uint64_t);
            else printf("BAD\n");
        } else if (!strcmp(t[0], "json") && n == 2) {
            /* whole document through the generated parser, then the generated printer: ERR <class> | OK <hex of printed JSON> */
            uint8_t *p; size_t len = hx_decode(t[1], &p); flatcc_builder_t B; int rc; void *out; size_t sz;
            flatcc_builder_init(&B);
            rc = c19num_parse_json(&B, &ctx, (const char *)p, len, 0);
            if (rc) printf("ERR %s\n", jerr_class(ctx.error, tmp));
            else {
                out = flatcc_builder_finalize_aligned_buffer(&B, &sz);
                if (!out) printf("ERR FINALIZE\n");
                else {
                    flatcc_json_printer_t pc; size_t jl; char *js;
                    flatcc_json_printer_init_dynamic_buffer(&pc, 0);
                    if (c19num_print_json(&pc, (const char *)out, sz) < 0) printf("ERR PRINT\n");
                    else { js = (char *)flatcc_json_printer_get_buffer(&pc, &jl); printf("OK "); hx_print((uint8_t *)js, jl); printf("\n"); }
                    flatcc_json_printer_clear(&pc);
                    flatcc_builder_aligned_free(out);
                }
            }
            flatcc_builder_clear(&B); free(p);
        } else if (!strcmp(t[0], "rtf") && n == 2) {
            /* float bits -> text -> bits: <hex text> <parse_float bits> <consumed> <json bits|ERR class> <consumed> */
            uint32_t bits = (uint32_t)strtoul(t[1], 0, 10); char *b = (char *)malloc(40); int k; float g = 1.0f; const char *r;
            memset(b, 0, 40); k = print_float(u2f(bits), b); hx_print((uint8_t *)b, (size_t)k);
            r = parse_float(b, (size_t)k, &g); printf(" %u %ld", f2u(g), r ? (long)(r - b) : -1L);
            b[k] = '}'; g = 1.0f; ctx_init(&ctx, b); r = flatcc_json_parser_float(&ctx, b, b + k + 1, &g);
            if (ctx.error) printf(" ERR:%s 0\n", jerr_class(ctx.error, tmp)); else printf(" %u %ld\n", f2u(g), (long)(r - b));
            free(b);
        } else if (!strcmp(t[0], "rtd") && n == 2) {
            uint64_t bits = strtoull(t[1], 0, 10); char *b = (char *)malloc(40); int k; double g = 1.0; const char *r;
            memset(b, 0, 40); k = print_double(u2d(bits), b); hx_print((uint8_t *)b, (size_t)k);
            r = parse_double(b, (size_t)k, &g); printf(" %" PRIu64 " %ld", d2u(g), r ? (long)(r - b) : -1L);
            b[k] = '}'; g = 1.0; ctx_init(&ctx, b); r = flatcc_json_parser_double(&ctx, b, b + k + 1, &g);
            if (ctx.error) printf(" ERR:%s 0\n", jerr_class(ctx.error, tmp)); else printf(" %" PRIu64 " %ld\n", d2u(g), (long)(r - b));
            free(b);
        } else if ((!strcmp(t[0], "sd") || !strcmp(t[0], "sf")) && n == 2) {
            /* text (last byte = terminator, readable) -> parse_double / parse_float with len = size - 1:
               OK <bits> <consumed> | FAIL <bits> (returned buf or NULL) */
            uint8_t *p; size_t len = hx_decode(t[1], &p); const char *r;
            if (len == 0) { printf("BAD\n"); free(p); continue; }
            if (t[0][1] == 'd') { double g = 1.0; r = parse_double((const char *)p, len - 1, &g);
                if (!r || r == (const char *)p) printf("FAIL %" PRIu64 "\n", d2u(g)); else printf("OK %" PRIu64 " %ld\n", d2u(g), (long)(r - (const char *)p)); }
            else { float g = 1.0f; r = parse_float((const char *)p, len - 1, &g);
                if (!r || r == (const char *)p) printf("FAIL %u\n", f2u(g)); else printf("OK %u %ld\n", f2u(g), (long)(r - (const char *)p)); }
            free(p);
        } else if ((!strcmp(t[0], "jd") || !strcmp(t[0], "jf")) && n == 2) {
            /* flatcc_json_parser_double / _float on text whose last byte is the terminator (inside the block) */
            uint8_t *p; size_t len = hx_decode(t[1], &p); const char *r; ctx_init(&ctx, (const char *)p);
            if (t[0][1] == 'd') { double g = 1.0; r = flatcc_json_parser_double(&ctx, (const char *)p, (const char *)p + len, &g);
                if (ctx.error) printf("ERR %s\n", jerr_class(ctx.error, tmp)); else if (r == (const char *)p) printf("UNMATCHED\n");
                else printf("OK %" PRIu64 " %ld\n", d2u(g), (long)(r - (const char *)p)); }
            else { float g = 1.0f; r = flatcc_json_parser_float(&ctx, (const char *)p, (const char *)p + len, &g);
                if (ctx.error) printf("ERR %s\n", jerr_class(ctx.error, tmp)); else if (r == (const char *)p) printf("UNMATCHED\n");
                else printf("OK %u %ld\n", f2u(g), (long)(r - (const char *)p)); }
            free(p);
        } else if (!strcmp(t[0], "isweep") && n == 5) {
            /* isweep <width> <lo> <hi> <step>: every x in [lo, hi) as unsigned and as signed value of the width */
            int w = atoi(t[1]); uint64_t lo = strtoull(t[2], 0, 10), hi = strtoull(t[3], 0, 10), step = strtoull(t[4], 0, 10), x;
            uint64_t cnt = 0, nbad = 0, first = 0; int firstcode = 0;
            for (x = lo; x < hi; x += step) {
                int64_t i = w == 8 ? (int64_t)(int8_t)x : w == 16 ? (int64_t)(int16_t)x : w == 32 ? (int64_t)(int32_t)x : (int64_t)x;
                int bad = rt_u(x, w, terms[x % sizeof terms]) | (rt_i(i, w, terms[(x >> 3) % sizeof terms]) << 4);
                ++cnt; if (bad) { if (!nbad) { first = x; firstcode = bad; } ++nbad; }
                if (hi - x <= step) break;
            }
            printf("DONE %" PRIu64 " %" PRIu64 " %" PRIu64 " %d\n", cnt, nbad, first, firstcode);
        } else if (!strcmp(t[0], "irand64") && n == 3) {
            /* irand64 <seed> <count>: pseudo-random 64-bit values of every bit length */
            uint64_t cnt = strtoull(t[2], 0, 10), k, nbad = 0, first = 0; int firstcode = 0; rng_state = strtoull(t[1], 0, 10) * 2654435761u + 88172645463325252ull;
            for (k = 0; k < cnt; ++k) {
                uint64_t x = rng_next(); int sh = (int)(rng_next() % 64); int bad; x >>= sh; if (rng_next() & 1) x = ~x;
                bad = rt_u(x, 64, terms[k % sizeof terms]) | (rt_i((int64_t)x, 64, terms[(k >> 3) % sizeof terms]) << 4);
                if (bad) { if (!nbad) { first = x; firstcode = bad; } ++nbad; }
            }
            printf("DONE %" PRIu64 " %" PRIu64 " %" PRIu64 " %d\n", cnt, nbad, first, firstcode);
        } else if (!strcmp(t[0], "fsweep32") && n == 4) {
            /* fsweep32 <lo> <hi> <step>: every finite float pattern in [lo, hi) */
            uint64_t lo = strtoull(t[1], 0, 10), hi = strtoull(t[2], 0, 10), step = strtoull(t[3], 0, 10), x, cnt = 0, nbad = 0, first = 0; int firstcode = 0;
            for (x = lo; x < hi; x += step) {
                int bad; if (!finite32((uint32_t)x)) continue;
                bad = rt_f((uint32_t)x, terms[x % sizeof terms], 0);
                ++cnt; if (bad) { if (!nbad) { first = x; firstcode = bad; } ++nbad; }
            }
            printf("DONE %" PRIu64 " %" PRIu64 " %" PRIu64 " %d\n", cnt, nbad, first, firstcode);
        } else if (!strcmp(t[0], "frand64") && n == 3) {
            /* frand64 <seed> <count>: pseudo-random finite double patterns, a quarter of them denormal or near a binade edge.
               reply: DONE <count> <mismatches> <first> <code> <mismatches with biased exponent > 11 or not exactly one ulp off> <first of those>
                      <one-ulp mismatches with biased exponent 0..1> <first of those> */
            uint64_t cnt = strtoull(t[2], 0, 10), k, done = 0, nbad = 0, first = 0, nout = 0, firstout = 0, nden = 0, firstden = 0; int firstcode = 0; rng_state = strtoull(t[1], 0, 10) * 2654435761u + 1442695040888963407ull;
            for (k = 0; k < cnt; ++k) {
                uint64_t x = rng_next(); int sel = (int)(rng_next() % 8), bad;
                if (sel == 0) x &= 0x800fffffffffffffull;                             /* denormal */
                else if (sel == 1) x = (x & 0xfff0000000000000ull) | (rng_next() % 4); /* just above a power of two */
                else if (sel == 2) x = (x | 0x000fffffffffffffull) - (rng_next() % 4); /* just below a power of two */
                if (!finite64(x)) continue;
                bad = rt_d(x, terms[k % sizeof terms], 0);
                ++done; if (bad) { unsigned be = (unsigned)((x >> 52) & 0x7ff);
                    if (!nbad) { first = x; firstcode = bad; } ++nbad;
                    /* mismatches outside biased exponent 2..11 are counted separately (the class of a known finding must not hide others) */
                    if (be <= 1 && rt_d_one_ulp) { if (!nden) firstden = x; ++nden; }
                    else if (be > 11 || !rt_d_one_ulp) { if (!nout) firstout = x; ++nout; } }
            }
            printf("DONE %" PRIu64 " %" PRIu64 " %" PRIu64 " %d %" PRIu64 " %" PRIu64 " %" PRIu64 " %" PRIu64 "\n", done, nbad, first, firstcode, nout, firstout, nden, firstden);
        } else printf("BAD\n");
        fflush(stdout);
    }
    return 0;
}
