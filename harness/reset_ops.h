/* Shared op interpreter for harness/reset_hist.c (C14) and harness/fault_inject.c (C13).
 * One request line = one history executed on one flatcc_builder_t through the real runtime API:
 *     cfg:<emitter>:<alloc> op op op ...
 *   emitter 0 = default emitter (flatcc_builder_custom_init(B, 0, 0, ...)), 1 = recording emitter around a private
 *             flatcc_emitter_t (every emit call is logged: offset, length, is-padding), may be told to fail
 *   alloc   0 = default allocator (null), 1 = counting / failing wrapper around flatcc_builder_default_alloc,
 *             2 = exact allocator: honours every request exactly (really shrinks on the reduce_buffers request)
 * Reply: one token per op; the same tokens the extracted model prints (ocaml/reset/driver.ml) for the ops the model
 * knows; `$k` = return value of op k, `%k` = second return value (type vector of a union vector) of op k.
 * Harness-only ops: su / xu / eu (union vector), emb (embed_buffer), jp (generated JSON parser), cln (generated clone
 * with refmap), rm (attach refmap), ri (refmap inserts), evs (emit log), nvt (vtables emitted / distinct).
 */
#ifndef RESET_OPS_H
#define RESET_OPS_H
#include <stdio.h>
#include <stdlib.h>
#include <string.h>
#include <stdint.h>
#include "hx.h"
#include "flatcc/flatcc_builder.h"
#include "flatcc/flatcc_emitter.h"
#include "flatcc/flatcc_refmap.h"
#include "c14_schema_builder.h"
#include "c14_schema_json_parser.h"
#include "c14_schema_verifier.h"

#define RO_MAX_OPS 400000

typedef struct ro_emit_rec { long long off; size_t len; int pad; int vt_guess; unsigned nest; uint8_t *bytes; } ro_emit_rec_t;

typedef struct ro_ctx {
    flatcc_builder_t B;
    int emitter_mode, alloc_mode;
    /* recording emitter */
    flatcc_emitter_t E;
    ro_emit_rec_t *recs; size_t nrecs, caprecs;
    long long fe; int fe_rep; int fe_code;   /* emit failure countdown: <0 never, 0 next call fails; value the failing call returns (any non-zero) */
    long long emit_calls;
    /* allocator wrapper */
    long long fa; int fa_rep;
    long long alloc_calls;
    void *live[FLATCC_BUILDER_ALLOC_BUFFER_COUNT];   /* bookkeeping: what the builder holds per kind */
    long long live_errors;
    /* refmap */
    flatcc_refmap_t refmap; int refmap_on;
    /* results */
    long long *res, *res2; size_t nres;
    int guard;   /* 0 off, 1 watching for the first failing call, 2 tripped: ops are skipped until REC */
} ro_ctx_t;

static int ro_emit(void *ctxp, const flatcc_iovec_t *iov, int iov_count, flatbuffers_soffset_t offset, size_t len)
{
    ro_ctx_t *c = (ro_ctx_t *)ctxp; int i; size_t k = 0; ro_emit_rec_t *r;
    ++c->emit_calls;
    if (c->fe == 0) { if (!c->fe_rep) c->fe = -1; return c->fe_code ? c->fe_code : -1; }
    if (c->fe > 0) --c->fe;
    if (c->nrecs == c->caprecs) { c->caprecs = c->caprecs ? c->caprecs * 2 : 64; c->recs = (ro_emit_rec_t *)realloc(c->recs, c->caprecs * sizeof(*c->recs)); }
    r = &c->recs[c->nrecs++];
    r->off = offset; r->len = len; r->nest = (unsigned)c->B.nest_id; r->bytes = (uint8_t *)malloc(len ? len : 1);
    r->pad = (iov_count == 1 && iov[0].iov_base == (void *)flatcc_builder_padding_base);
    for (i = 0; i < iov_count; ++i) { memcpy(r->bytes + k, iov[i].iov_base, iov[i].iov_len); k += iov[i].iov_len; }
    if (k != len) { fprintf(stderr, "emit: iov lengths %zu != len %zu\n", k, len); exit(4); }
    return flatcc_emitter(&c->E, iov, iov_count, offset, len);
}

static void ro_clear_recs(ro_ctx_t *c) { size_t i; for (i = 0; i < c->nrecs; ++i) free(c->recs[i].bytes); c->nrecs = 0; }

static int ro_alloc(void *ctxp, flatcc_iovec_t *b, size_t request, int zero_fill, int kind)
{
    ro_ctx_t *c = (ro_ctx_t *)ctxp; int r;
    if (b->iov_base != c->live[kind]) ++c->live_errors;   /* the builder presents a block we did not hand out */
    if (request == 0) { r = flatcc_builder_default_alloc(0, b, 0, zero_fill, kind); c->live[kind] = b->iov_base; return r; }
    ++c->alloc_calls;
    if (c->fa == 0) { if (!c->fa_rep) c->fa = -1; return -1; }
    if (c->fa > 0) --c->fa;
    if (c->alloc_mode == 2) {
        /* exact allocator: new block of exactly `request` bytes (at least 1), old content copied, rest zeroed */
        void *p = malloc(request); size_t keep;
        if (!p) return -1;
        keep = b->iov_len < request ? b->iov_len : request;
        if (keep) memcpy(p, b->iov_base, keep);
        if (request > keep) memset((uint8_t *)p + keep, zero_fill ? 0 : 0xcd, request - keep);
        free(b->iov_base); b->iov_base = p; b->iov_len = request; c->live[kind] = p; return 0;
    }
    r = flatcc_builder_default_alloc(0, b, request, zero_fill, kind);
    c->live[kind] = b->iov_base;
    return r;
}

static void ro_init_builder(ro_ctx_t *c)
{
    flatcc_builder_custom_init(&c->B, c->emitter_mode ? ro_emit : 0, c->emitter_mode ? c : 0,
                               c->alloc_mode ? ro_alloc : 0, c->alloc_mode ? c : 0);
    if (c->refmap_on) flatcc_builder_set_refmap(&c->B, &c->refmap);
}

static void ro_open(ro_ctx_t *c, int emitter_mode, int alloc_mode)
{
    memset(c, 0, sizeof(*c));
    c->emitter_mode = emitter_mode; c->alloc_mode = alloc_mode; c->fa = -1; c->fe = -1;
    flatcc_emitter_init(&c->E); flatcc_refmap_init(&c->refmap);
    ro_init_builder(c);
}

static void ro_close(ro_ctx_t *c)
{
    flatcc_builder_clear(&c->B);
    flatcc_emitter_clear(&c->E);
    flatcc_refmap_clear(&c->refmap);
    ro_clear_recs(c); free(c->recs); free(c->res); free(c->res2);
}

static long long ro_ref(ro_ctx_t *c, const char *s)
{
    if (s[0] == '$') return c->res[atol(s + 1)];
    if (s[0] == '%') return c->res2[atol(s + 1)];
    return atoll(s);
}

static size_t ro_off(const void *p, const void *base) { return p ? (size_t)((const char *)p - (const char *)base) : 0; }

static void ro_snap(ro_ctx_t *c)
{
    flatcc_builder_t *B = &c->B; flatcc_emitter_t *E = c->emitter_mode ? &c->E : &B->default_emit_context;
    printf("{c_vs=%zu,c_ds=%zu,c_vb=%zu,c_pl=%zu,c_fs=%zu,c_ht=%zu,c_vd=%zu,c_us=%zu,",
        B->buffers[flatcc_builder_alloc_vs].iov_len, B->buffers[flatcc_builder_alloc_ds].iov_len, B->buffers[flatcc_builder_alloc_vb].iov_len,
        B->buffers[flatcc_builder_alloc_pl].iov_len, B->buffers[flatcc_builder_alloc_fs].iov_len, B->buffers[flatcc_builder_alloc_ht].iov_len,
        B->buffers[flatcc_builder_alloc_vd].iov_len, B->buffers[flatcc_builder_alloc_us].iov_len);
    printf("vs_off=%zu,pl_off=%zu,id_end=%u,ds_offset=%u,ds_limit=%u,ds_first=%u,",
        ro_off(B->vs, B->buffers[flatcc_builder_alloc_vs].iov_base), ro_off(B->pl, B->buffers[flatcc_builder_alloc_pl].iov_base),
        (unsigned)B->id_end, (unsigned)B->ds_offset, (unsigned)B->ds_limit, (unsigned)B->ds_first);
    if (B->frame) printf("frame_ptr=%lld,", (long long)((char *)B->frame - (char *)B->buffers[flatcc_builder_alloc_fs].iov_base));
    else printf("frame_ptr=N,");
    printf("ht_width=%zu,vb_end=%u,vd_end=%u,min_align=%u,align=%u,block_align=%u,emit_start=%d,emit_end=%d,buffer_mark=%d,",
        B->ht_width, (unsigned)B->vb_end, (unsigned)B->vd_end, (unsigned)B->min_align, (unsigned)B->align, (unsigned)B->block_align,
        (int)B->emit_start, (int)B->emit_end, (int)B->buffer_mark);
    printf("nest_count=%u,nest_id=%u,level=%d,limit_level=%d,buffer_flags=%u,identifier=%u,vb_flush_limit=%zu,max_level=%d,disable_vt_clustering=%d,",
        (unsigned)B->nest_count, (unsigned)B->nest_id, B->level, B->limit_level, (unsigned)B->buffer_flags, (unsigned)B->identifier,
        B->vb_flush_limit, B->max_level, B->disable_vt_clustering);
    printf("user_frame_offset=%zu,user_frame_end=%zu,e_cap=%zu,e_used=%zu,e_avg=%zu", B->user_frame_offset, B->user_frame_end,
        E->capacity, E->used, E->used_average);
#ifndef RO_E_LIVE
#define RO_E_LIVE (-1LL)
#endif
#ifndef RO_C_LIVE
#define RO_C_LIVE (-1LL)
#endif
    printf(",rm_buckets=%zu,rm_count=%zu,alloc_calls=%lld,emit_calls=%lld,live_errors=%lld,e_live=%lld,c_live_bytes=%lld} ", c->refmap.buckets, c->refmap.count, c->alloc_calls, c->emit_calls, c->live_errors, (long long)RO_E_LIVE, (long long)RO_C_LIVE);
}

static void ro_fin(ro_ctx_t *c)
{
    flatcc_builder_t *B = &c->B; size_t n = 0; uint8_t *p;
    if (c->emitter_mode) {
        n = flatcc_emitter_get_buffer_size(&c->E);
        p = (uint8_t *)malloc(n ? n : 1);
        if (n && !flatcc_emitter_copy_buffer(&c->E, p, n)) { printf("COPYFAIL "); free(p); return; }
        hx_print(p, n); printf(" "); free(p); return;
    }
    p = (uint8_t *)flatcc_builder_finalize_buffer(B, &n);
    if (!p) { printf(n == 0 && flatcc_builder_get_buffer_size(B) == 0 ? "- " : "FINFAIL "); return; }
    hx_print(p, n); printf(" ");
    flatcc_builder_free(p);
}

/* documented failure value of each call: 1 when r is the failure value of op `name` */
static int ro_is_failure(const char *name, long long r)
{
    static const char *neg[] = { "sb", "st", "sv", "so", "sS", "su", "tv", "tov", "tS", "rs", "jp", "jr", 0 };   /* int: 0 ok, else failure */
    static const char *zero[] = { "ss", "ta", "to", "xv", "xo", "aS", "xu", "uf", "es", "et", "ev", "eo", "eS", "eu", "cu", "eb", "cb", "cs", "cS", "cv", "emb", "cln", 0 };
    int k;
    if (!strcmp(name, "pj")) return r < 0 || r >= 1000000;
    if (!strcmp(name, "ri")) return r < 0;   /* init failed / printer error code set */
    for (k = 0; neg[k]; ++k) if (!strcmp(name, neg[k])) return r != 0;
    for (k = 0; zero[k]; ++k) if (!strcmp(name, zero[k])) return r == 0;
    return 0;
}

#ifdef RO_EXTRA
static int RO_EXTRA(struct ro_ctx *c, size_t i, char **f, int nf, long long *r);
#endif

/* one op; returns 0 to continue, 1 when the op token is unknown */
static int ro_op(ro_ctx_t *c, size_t i, char *tok)
{
    flatcc_builder_t *B = &c->B; char *f[8]; int nf = 0; char *p = tok; long long r = 0; int printed = 0;
    uint8_t *d = 0; size_t n = 0;
    f[nf++] = p;
    while (*p && nf < 8) { if (*p == ':') { *p = 0; f[nf++] = p + 1; } ++p; }
#define A(k) (k < nf ? f[k] : "0")
#define IS(s) (strcmp(f[0], s) == 0)
    if (IS("GUARD")) { c->guard = 1; printf("ok "); return 0; }
    if (IS("REC")) { printf(c->guard == 2 ? "tripped " : "clean "); c->guard = 0; return 0; }
    if (c->guard == 2) { printf("_ "); return 0; }
    if (IS("snap")) { ro_snap(c); return 0; }
    if (IS("fin")) { ro_fin(c); return 0; }
    if (IS("dir")) {
        /* flatcc_builder_get_direct_buffer (default emitter) / flatcc_emitter_get_direct_buffer: D:null or D:<size>:<ok|diff> (bytes vs copy_buffer) */
        size_t dn = 12345; void *dp = c->emitter_mode ? flatcc_emitter_get_direct_buffer(&c->E, &dn) : flatcc_builder_get_direct_buffer(B, &dn);
        if (!dp) printf(dn == 0 ? "D:null " : "D:null:size%zu ", dn);
        else {
            flatcc_emitter_t *E = c->emitter_mode ? &c->E : &B->default_emit_context; size_t cn = flatcc_emitter_get_buffer_size(E);
            uint8_t *cp = (uint8_t *)malloc(cn ? cn : 1); int same = cn == dn && flatcc_emitter_copy_buffer(E, cp, cn) && !memcmp(cp, dp, dn);
            printf("D:%zu:%s ", dn, same ? "ok" : "diff"); free(cp);
        }
        return 0;
    }
    if (IS("evs")) { size_t k; if (!c->nrecs) printf("-"); for (k = 0; k < c->nrecs; ++k) printf("%s%lld:%zu", k ? "," : "", c->recs[k].off, c->recs[k].len); printf(" "); return 0; }
    if (IS("evb")) { /* emit log with the nest id of the buffer under construction and the bytes: off:nest:hex,... */
        size_t k; if (!c->nrecs) printf("-");
        for (k = 0; k < c->nrecs; ++k) { printf("%s%lld:%u:", k ? "," : "", c->recs[k].off, c->recs[k].nest); hx_print(c->recs[k].bytes, c->recs[k].len); }
        printf(" "); return 0; }
    if (IS("nvt")) {
        /* clustered vtables are exactly the non-padding emits at offsets >= 0 */
        size_t k, j, nv = 0, nd = 0;
        for (k = 0; k < c->nrecs; ++k) if (c->recs[k].off >= 0 && !c->recs[k].pad) {
            int dup = 0; ++nv;
            for (j = 0; j < k; ++j) if (c->recs[j].off >= 0 && !c->recs[j].pad && c->recs[j].len == c->recs[k].len && !memcmp(c->recs[j].bytes, c->recs[k].bytes, c->recs[k].len)) { dup = 1; break; }
            if (!dup) ++nd;
        }
        printf("%zu/%zu ", nv, nd); return 0;
    }
    if (IS("FA")) { c->fa = atoll(A(1)); c->fa_rep = atoi(A(2)); printf("ok "); return 0; }
    if (IS("FE")) { c->fe = atoll(A(1)); c->fe_rep = atoi(A(2)); c->fe_code = nf > 3 ? atoi(A(3)) : -1; printf("ok "); return 0; }
    if (IS("sb")) { uint32_t id = (uint32_t)strtoul(A(1), 0, 10); r = flatcc_builder_start_buffer(B, id ? (const char *)&id : 0, (uint16_t)atoi(A(2)), (flatcc_builder_buffer_flags_t)atoi(A(3))); }
    else if (IS("eb")) r = flatcc_builder_end_buffer(B, (flatcc_builder_ref_t)ro_ref(c, A(1)));
    else if (IS("cb")) { uint32_t id = (uint32_t)strtoul(A(1), 0, 10); r = flatcc_builder_create_buffer(B, id ? (const char *)&id : 0, (uint16_t)atoi(A(2)), (flatcc_builder_ref_t)ro_ref(c, A(3)), (uint16_t)atoi(A(4)), (flatcc_builder_buffer_flags_t)atoi(A(5))); }
    else if (IS("ss")) { void *q; n = hx_decode(A(2), &d); q = flatcc_builder_start_struct(B, n, (uint16_t)atoi(A(1))); if (q) memcpy(q, d, n); r = q != 0; }
    else if (IS("es")) r = flatcc_builder_end_struct(B);
    else if (IS("cs")) { n = hx_decode(A(1), &d); r = flatcc_builder_create_struct(B, d, n, (uint16_t)atoi(A(2))); }
    else if (IS("st")) r = flatcc_builder_start_table(B, atoi(A(1)));
    else if (IS("ta")) { void *q; size_t sz = (size_t)atoll(A(2)); n = hx_decode(A(4), &d); q = flatcc_builder_table_add(B, atoi(A(1)), sz, (uint16_t)atoi(A(3))); if (q) { memset(q, 0, sz); memcpy(q, d, n < sz ? n : sz); } r = q != 0; }
    else if (IS("to")) { flatcc_builder_ref_t *q = flatcc_builder_table_add_offset(B, atoi(A(1))); if (q) *q = (flatcc_builder_ref_t)ro_ref(c, A(2)); r = q != 0; }
    else if (IS("et")) r = flatcc_builder_end_table(B);
    else if (IS("sv")) r = flatcc_builder_start_vector(B, (size_t)atoll(A(1)), (uint16_t)atoi(A(2)), (size_t)atoll(A(3)));
    else if (IS("xv")) { void *q; n = hx_decode(A(2), &d); q = flatcc_builder_extend_vector(B, (size_t)atoll(A(1))); if (q) memcpy(q, d, n); r = q != 0; }
    else if (IS("tv")) r = flatcc_builder_truncate_vector(B, (size_t)atoll(A(1)));
    else if (IS("ev")) r = flatcc_builder_end_vector(B);
    else if (IS("cv")) { n = hx_decode(A(1), &d); r = flatcc_builder_create_vector(B, d, (size_t)atoll(A(2)), (size_t)atoll(A(3)), (uint16_t)atoi(A(4)), (size_t)atoll(A(5))); }
    else if (IS("so")) r = flatcc_builder_start_offset_vector(B);
    else if (IS("xo")) {
        size_t cnt = 0, k; char *s = A(1); long long vals[256]; flatcc_builder_ref_t *q;
        if (!(s[0] == '-' && s[1] == 0)) { char *t = s; while (cnt < 256) { char *e = strchr(t, ','); if (e) *e = 0; vals[cnt++] = ro_ref(c, t); if (!e) break; t = e + 1; } }
        q = flatcc_builder_extend_offset_vector(B, cnt);
        if (q) for (k = 0; k < cnt; ++k) q[k] = (flatcc_builder_ref_t)vals[k];
        r = q != 0;
    }
    else if (IS("tov")) r = flatcc_builder_truncate_offset_vector(B, (size_t)atoll(A(1)));
    else if (IS("eo")) r = flatcc_builder_end_offset_vector(B);
    else if (IS("sS")) r = flatcc_builder_start_string(B);
    else if (IS("aS")) { n = hx_decode(A(1), &d); r = flatcc_builder_append_string(B, (const char *)d, n) != 0; }
    else if (IS("tS")) r = flatcc_builder_truncate_string(B, (size_t)atoll(A(1)));
    else if (IS("eS")) r = flatcc_builder_end_string(B);
    else if (IS("cS")) { n = hx_decode(A(1), &d); r = flatcc_builder_create_string(B, (const char *)d, n); }
    else if (IS("uf")) r = (long long)flatcc_builder_enter_user_frame(B, (size_t)atoll(A(1)));
    else if (IS("ux")) r = (long long)flatcc_builder_exit_user_frame(B);
    else if (IS("ua")) r = (long long)flatcc_builder_exit_user_frame_at(B, (size_t)ro_ref(c, A(1)));
    else if (IS("cl")) { flatcc_builder_set_vtable_clustering(B, atoi(A(1))); r = 0; }
    else if (IS("ml")) { flatcc_builder_set_max_level(B, atoi(A(1))); r = 0; }
    else if (IS("vl")) { flatcc_builder_set_vtable_cache_limit(B, (size_t)atoll(A(1))); r = 0; }
    else if (IS("id")) { uint32_t id = (uint32_t)strtoul(A(1), 0, 10); flatcc_builder_set_identifier(B, id ? (const char *)&id : 0); r = 0; }
    else if (IS("fc")) { flatcc_builder_flush_vtable_cache(B); r = 0; }
    else if (IS("pa")) r = flatcc_builder_push_buffer_alignment(B);
    else if (IS("qa")) { flatcc_builder_pop_buffer_alignment(B, (uint16_t)ro_ref(c, A(1))); r = 0; }
    else if (IS("rs")) {
        r = flatcc_builder_custom_reset(B, atoi(A(1)), atoi(A(2)));
        if (r == 0 && c->emitter_mode) { flatcc_emitter_reset(&c->E); ro_clear_recs(c); }
    }
    else if (IS("clr")) {
        flatcc_builder_clear(B);
        { int k; for (k = 0; k < FLATCC_BUILDER_ALLOC_BUFFER_COUNT; ++k) if (c->alloc_mode && c->live[k]) ++c->live_errors; }
        if (c->emitter_mode) { flatcc_emitter_clear(&c->E); ro_clear_recs(c); }
        if (c->refmap_on) flatcc_refmap_clear(&c->refmap);
        ro_init_builder(c); r = 0;
    }
    /* ---- harness-only ops */
    else if (IS("su")) r = flatcc_builder_start_union_vector(B);
    else if (IS("xu")) {
        /* xu:<type>,<ref>;<type>,<ref>;... */
        char *s = A(1); size_t cnt = 0, k; flatcc_builder_union_ref_t u[64], *q;
        if (!(s[0] == '-' && s[1] == 0)) { char *t = s; while (cnt < 64) { char *e = strchr(t, ';'); char *cm; if (e) *e = 0; cm = strchr(t, ','); *cm = 0; u[cnt].type = (flatcc_builder_utype_t)atoi(t); u[cnt].value = (flatcc_builder_ref_t)ro_ref(c, cm + 1); ++cnt; if (!e) break; t = e + 1; } }
        q = flatcc_builder_extend_union_vector(B, cnt);
        if (q) for (k = 0; k < cnt; ++k) q[k] = u[k];
        r = q != 0;
    }
    else if (IS("cu")) {
        /* cu:<type>,<ref>;...  flatcc_builder_create_union_vector from an array of union refs */
        char *sx = A(1); size_t cnt = 0; static flatcc_builder_union_ref_t u[1024]; flatcc_builder_union_vec_ref_t uv;
        if (!(sx[0] == '-' && sx[1] == 0)) { char *t = sx; while (cnt < 1024) { char *e = strchr(t, ';'); char *cm; if (e) *e = 0; cm = strchr(t, ','); *cm = 0; u[cnt].type = (flatcc_builder_utype_t)atoi(t); u[cnt].value = (flatcc_builder_ref_t)ro_ref(c, cm + 1); ++cnt; if (!e) break; t = e + 1; } }
        uv = flatcc_builder_create_union_vector(B, u, cnt);
        r = (uv.value && uv.type) ? uv.value : 0; c->res2[i] = uv.type;
    }
    else if (IS("eu")) { flatcc_builder_union_vec_ref_t uv = flatcc_builder_end_union_vector(B); r = (uv.value && uv.type) ? uv.value : 0; c->res2[i] = uv.type; }
    else if (IS("emb")) { n = hx_decode(A(2), &d); r = flatcc_builder_embed_buffer(B, (uint16_t)atoi(A(1)), d, n, (uint16_t)atoi(A(3)), (flatcc_builder_buffer_flags_t)atoi(A(4))); }
    else if (IS("jp")) {
        /* generated JSON parser of gen/c14_schema.fbs; input copied to a zero padded block (C04's one byte over-reads are not C14's subject) */
        flatcc_json_parser_t pc; char *buf;
        n = hx_decode(A(1), &d);
        buf = (char *)calloc(n + 16, 1); memcpy(buf, d, n);
        r = c14_schema_parse_json(B, &pc, buf, n, (flatcc_json_parser_flags_t)atoi(A(2)));
        free(buf);
    }
    else if (IS("jr")) {
        /* the same through <Table>_parse_json_as_root (flatcc_json_parser_table_as_root: temporary nesting limit) */
        flatcc_json_parser_t pc; char *buf;
        n = hx_decode(A(1), &d);
        buf = (char *)calloc(n + 16, 1); memcpy(buf, d, n);
        r = C14_Root_parse_json_as_root(B, &pc, buf, n, (flatcc_json_parser_flags_t)atoi(A(2)), "C14R");
        free(buf);
    }
    else if (IS("cln")) {
        /* clone the root table of a finished buffer (hex) as the root of a new buffer; uses the refmap when attached */
        n = hx_decode(A(1), &d);
        if (C14_Root_verify_as_root(d, n)) r = -2;
        else { void *al = 0; if (posix_memalign(&al, 64, n ? n : 1)) exit(3); memcpy(al, d, n); r = C14_Root_clone_as_root(B, C14_Root_as_root(al)); free(al); }
    }
    else if (IS("rm")) { c->refmap_on = atoi(A(1)); flatcc_builder_set_refmap(B, c->refmap_on ? &c->refmap : 0); r = 0; }
    else if (IS("ri")) {
        /* ri:<n>[:<lookups>] inserts n distinct keys; -1 when an insert returned flatcc_refmap_not_found (documented for a failed growth);
           then looks up <lookups> absent keys (must all be not_found) */
        static char fake[1 << 17]; long long k, cnt = atoll(A(1)), nl = nf > 2 ? atoll(A(2)) : 0; int failed = 0;
        for (k = 0; k < cnt && k < (1 << 16); ++k)
            if (flatcc_builder_refmap_insert(B, fake + k, (flatcc_builder_ref_t)(-4 * (k + 1))) == flatcc_refmap_not_found) failed = 1;
        for (k = 0; k < nl; ++k) if (flatcc_builder_refmap_find(B, fake + (1 << 16) + k) != flatcc_refmap_not_found) failed = 2;
        r = failed ? -failed : (long long)c->refmap.count;
    }
#ifdef RO_EXTRA
    else if (RO_EXTRA(c, i, f, nf, &r)) { }
#endif
    else { printf("BAD:%s ", tok); printed = 1; free(d); return 1; }
    c->res[i] = r;
    if (c->guard == 1 && ro_is_failure(f[0], r)) c->guard = 2;
    if (!printed) printf("%lld ", r);
    free(d);
    return 0;
#undef A
#undef IS
}

/* run a whole line (already split at spaces); tok[0] is cfg:<e>:<a> */
static void ro_run_line(char **tok, int ntok)
{
    ro_ctx_t *c = (ro_ctx_t *)calloc(1, sizeof(*c)); int i, em = 0, am = 0;
    if (ntok > 0 && strncmp(tok[0], "cfg:", 4) == 0) { em = atoi(tok[0] + 4); { char *q = strchr(tok[0] + 4, ':'); if (q) am = atoi(q + 1); } }
    ro_open(c, em, am);
    c->res = (long long *)calloc((size_t)ntok + 1, sizeof(long long)); c->res2 = (long long *)calloc((size_t)ntok + 1, sizeof(long long));
    for (i = 1; i < ntok; ++i) if (ro_op(c, (size_t)(i - 1), tok[i])) break;
    ro_close(c); free(c);
#ifdef RO_AFTER_CLOSE
    RO_AFTER_CLOSE();
#endif
    printf("\n"); fflush(stdout);
}
#endif
