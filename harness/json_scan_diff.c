/* H-scan (C04): line-protocol harness over /repo's CURRENT JSON parser.
   - scanner primitives of src/runtime/json_parser.c (included as source so that the static
     __flatcc_json_parser_number is reachable) and include/flatcc/flatcc_json_parser.h;
   - whole generated parsers T_parse_json_as_root of gen/c04_schema.fbs (generated on every run by the fresh flatcc),
     followed by the generated verifier, and after a failure by flatcc_builder_reset + a reference build.
   The input is ALWAYS on a heap block of exactly its length (never NUL terminated): one byte read past `end`
   lands in the ASan redzone.  Built with -fsanitize=address,undefined -fsanitize-recover=address and run with
   halt_on_error=0: an ASan report does not kill the process, it is caught by the report callback and printed as
   the reply `ASAN <summary>` for that request line.

   primitive request:  <prim> <flags> <unq 0|1> <pos> <hex> [<arg>]
   reply:              <ret - start> <error> <error_loc - start> <line> <line_start - start> <unquoted> <value>
   parser request:     parse|parsem <Root|Leaf|Other|Sub|Rec|Node|Pt|Fix> <flags> <fidmode 0|1> <want buffer hex 0|1> <hex>
   (parsem: the same parse on a FRESH builder made with flatcc_builder_custom_init and an allocator that moves every block
    it grows - malloc of exactly the requested size, copy, free - so that any pointer into a builder stack kept across a
    growing operation is a heap-use-after-free for ASan; no reuse step; sizes rounded up to 8)
   (parset: the same parse twice with 48 bytes of '0' digits resp. '}' behind the input, poisoned for instrumented code but visible to
    uninstrumented libc code such as strtod: reply `T2 <core A> | <core B>`; the cores must be equal)
   reply:              OK <end_loc - start> <size> <verify rc> <fnv of buffer> [<buffer hex>]
                       ERR <rc> <ctx.error> <error_loc - start> <line> <pos> REUSE <0 same bytes as fresh builder | 1 differs | 2 build failed>
*/
#include "hx.h"
#include <signal.h>
#include <unistd.h>
#include "json_parser.c"                 /* -I<repo>/src/runtime */
#include "flatcc/flatcc_verifier.h"
#include "c04_schema_builder.h"
#include "c04_schema_json_parser.h"
#include "c04_schema_verifier.h"
#ifdef C04_SROOT
/* gen/c04_sroot.fbs: struct root_type; built as a second executable because this header may not compile */
#include "c04_sroot_builder.h"
#include "c04_sroot_json_parser.h"
#include "c04_sroot_verifier.h"
#endif

void __asan_set_error_report_callback(void (*cb)(const char *));
void __asan_poison_memory_region(void const volatile *addr, size_t size);

static volatile int asan_hits;
static char asan_msg[600];
static int asan_write;

static void on_asan(const char *report)
{
    const char *p, *q; size_t n;
    if (asan_hits++) return;
    /* in recover mode the text handed to the callback may accumulate earlier reports: look at the last one */
    { const char *last = report, *x = report; while ((x = strstr(x, "ERROR: AddressSanitizer: "))) { last = x; x += 10; } report = last; }
    /* first line: "==pid==ERROR: AddressSanitizer: heap-buffer-overflow on address ... " ; keep kind, access, frame #0 / #1 */
    asan_msg[0] = 0;
    p = strstr(report, "AddressSanitizer: ");
    if (p) { p += 18; q = p; while (*q && *q != ' ' && *q != '\n') ++q; n = (size_t)(q - p); if (n > 60) n = 60; strncat(asan_msg, p, n); }
    if (strstr(report, "WRITE of size")) { asan_write = 1; strcat(asan_msg, " WRITE"); }
    else if ((p = strstr(report, "READ of size "))) { strcat(asan_msg, " READ"); strncat(asan_msg, p + 13, 1); }
    p = report;
    { int k; for (k = 0; k < 3; ++k) {
        char tag[8]; sprintf(tag, "#%d 0x", k);
        p = strstr(report, tag);
        if (!p) break;
        p = strstr(p, " in ");
        if (!p) break;
        p += 4; q = p; while (*q && *q != ' ' && *q != '\n') ++q;
        n = (size_t)(q - p); if (n > 80) n = 80;
        strcat(asan_msg, k ? " <" : " @"); strncat(asan_msg, p, n);
    } }
}

/* UBSan (recover mode): remember the first report of the request; printed as a suffix ` UBSAN <kind>@<file>:<line>` */
void __ubsan_get_current_report_data(const char **kind, const char **msg, const char **file, unsigned *line, unsigned *col, char **addr);
static int ubsan_hits; static char ubsan_msg[300];
void __ubsan_on_report(void)
{
    const char *kind = 0, *msg = 0, *file = 0, *b; unsigned line = 0, col = 0; char *addr = 0;
    if (ubsan_hits++) return;
    __ubsan_get_current_report_data(&kind, &msg, &file, &line, &col, &addr);
    b = file ? strrchr(file, '/') : 0;
    snprintf(ubsan_msg, sizeof(ubsan_msg), "%s@%s:%u", kind ? kind : "?", b ? b + 1 : (file ? file : "?"), line);
}
#define UB_SUFFIX() do { if (ubsan_hits) printf(" UBSAN %s", ubsan_msg); } while (0)

#include <setjmp.h>
static sigjmp_buf verify_jmp; static volatile int in_verify;
static void on_alarm(int sig) { static const char m[] = "HANG\n"; (void)sig; if (in_verify) siglongjmp(verify_jmp, 1); if (write(1, m, 5)) {} _exit(98); }

/* exact-length heap copy: byte 0 at the start of the user region, `end` == first redzone byte */
static char *exact_copy(const char *hex, size_t *len, void **to_free)
{
    uint8_t *tmp; size_t n = hx_decode(hex, &tmp); char *p;
    if (n == 0) { char *blk = (char *)malloc(8); *to_free = blk; free(tmp); *len = 0; return blk + 8; }
    p = (char *)malloc(n); memcpy(p, tmp, n); free(tmp); *to_free = p; *len = n; return p;
}

void __asan_unpoison_memory_region(void const volatile *addr, size_t size);
/* copy followed by TAILN readable-by-libc bytes filled with `fill` and poisoned for instrumented code: uninstrumented libc code
   (strtod) that runs past `end` then sees `fill`, so two runs with different fills give different results */
#define TAILN 48
static char *tail_copy(const char *hex, size_t *len, void **to_free, int fill)
{
    uint8_t *tmp; size_t n = hx_decode(hex, &tmp); char *p = (char *)malloc(n + TAILN);
    memcpy(p, tmp, n); free(tmp); memset(p + n, fill, TAILN);
    __asan_poison_memory_region(p + n, TAILN);
    *to_free = p; *len = n; return p;
}
static void tail_free(void *p, size_t n) { __asan_unpoison_memory_region((char *)p + n, TAILN); free(p); }

static void reply_ctx(const char *buf, const char *ret, flatcc_json_parser_t *ctx)
{
    printf("%ld %d %ld %d %ld %d ", (long)(ret - buf), ctx->error, (long)(ctx->error_loc - buf), ctx->line,
           (long)(ctx->line_start - buf), ctx->unquoted);
}

static uint64_t fnv64(const uint8_t *p, size_t n) { uint64_t h = 1469598103934665603ull; size_t i; for (i = 0; i < n; ++i) { h ^= p[i]; h *= 1099511628211ull; } return h; }

static flatcc_builder_t B;            /* one builder for all parse requests: reuse after failure is part of the property */
static uint8_t *ref_bytes; static size_t ref_size;
static const char ref_json[] =
    "{\"name\":\"ref\",\"i32\":-7,\"any_type\":\"Leaf\",\"any\":{\"n\":5,\"s\":\"x\"},\"vs\":[\"a\",\"bc\"],"
    "\"anys_type\":[\"Other\",\"Str\",\"Pt\"],\"anys\":[{\"v\":[1,2]},\"s\",{\"x\":1,\"y\":2}],\"nest\":{\"id\":3,\"tag\":\"t\"},"
    "\"vt\":[{\"n\":1},{\"n\":2,\"s\":\"q\"}],\"fix\":{\"a\":[1,2,3],\"name\":\"ab\",\"d\":0.5},\"b64\":\"QUJD\",\"leaf\":{\"c\":\"Blue\"}}";

static int build_ref(flatcc_builder_t *b, uint8_t **out, size_t *size)
{
    flatcc_json_parser_t ctx; void *p; size_t len; void *fr; char *in; int rc;
    /* reference input also on an exact heap block */
    { char *hex = (char *)malloc(2 * sizeof(ref_json)); size_t i; for (i = 0; i + 1 < sizeof(ref_json); ++i) sprintf(hex + 2 * i, "%02x", (unsigned char)ref_json[i]);
      in = exact_copy(hex, &len, &fr); free(hex); }
    rc = C4_Root_parse_json_as_root(b, &ctx, in, len, 0, "C4RT");
    free(fr);
    if (rc) return -1;
    p = flatcc_builder_finalize_buffer(b, size);
    if (!p) return -1;
    *out = (uint8_t *)p; return 0;
}

/* builder allocator for `parsem`: never grows in place, blocks have exactly the requested size */
static int moving_alloc(void *alloc_context, flatcc_iovec_t *b, size_t request, int zero_fill, int hint)
{
    void *p;
    (void)alloc_context; (void)hint;
    if (request == 0) { free(b->iov_base); b->iov_base = 0; b->iov_len = 0; return 0; }
    if (request <= b->iov_len) return 0;
    /* the requested size rounded up to 8: refresh_ds (builder.c:209) computes iov_len - ds_first unsigned, and a new frame's
       ds_first is aligned up to 8, so a block whose length is not a multiple of 8 makes ds_limit wrap (builder matter, not C04) */
    request = (request + 7) & ~(size_t)7;
    if (!(p = malloc(request))) return -1;
    if (b->iov_base) memcpy(p, b->iov_base, b->iov_len);
    if (zero_fill) memset((uint8_t *)p + b->iov_len, 0, request - b->iov_len);
    else memset((uint8_t *)p + b->iov_len, 0xa5, request - b->iov_len);
    free(b->iov_base);
    b->iov_base = p; b->iov_len = request;
    return 0;
}

/* the schema-level entry point <basename>_parse_json (table root): no fid argument, the schema's file identifier is used */
static int schema_root_parse(flatcc_builder_t *b, flatcc_json_parser_t *ctx, const char *buf, size_t bufsiz, flatcc_json_parser_flags_t flags, const char *fid)
{ (void)fid; return c04_schema_parse_json(b, ctx, buf, bufsiz, flags); }
#ifdef C04_SROOT
static int sroot_schema_parse(flatcc_builder_t *b, flatcc_json_parser_t *ctx, const char *buf, size_t bufsiz, flatcc_json_parser_flags_t flags, const char *fid)
{ (void)fid; return c04_sroot_parse_json(b, ctx, buf, bufsiz, flags); }
#endif

typedef int parse_f(flatcc_builder_t *B, flatcc_json_parser_t *ctx, const char *buf, size_t bufsiz, flatcc_json_parser_flags_t flags, const char *fid);
typedef int verify_f(const void *buf, size_t bufsiz, const char *fid);
struct root { const char *name; parse_f *parse; verify_f *verify, *verify_ws; };
static struct root roots[] = {
    { "Root", C4_Root_parse_json_as_root, C4_Root_verify_as_root_with_identifier, C4_Root_verify_as_root_with_identifier_and_size },
    { "Leaf", C4_Leaf_parse_json_as_root, C4_Leaf_verify_as_root_with_identifier, C4_Leaf_verify_as_root_with_identifier_and_size },
    { "Other", C4_Other_parse_json_as_root, C4_Other_verify_as_root_with_identifier, C4_Other_verify_as_root_with_identifier_and_size },
    { "Sub", C4_Sub_parse_json_as_root, C4_Sub_verify_as_root_with_identifier, C4_Sub_verify_as_root_with_identifier_and_size },
    { "Pt", C4_Pt_parse_json_as_root, C4_Pt_verify_as_root_with_identifier, C4_Pt_verify_as_root_with_identifier_and_size },
    { "Rec", C4_Rec_parse_json_as_root, C4_Rec_verify_as_root_with_identifier, C4_Rec_verify_as_root_with_identifier_and_size },
    { "Node", C4_Node_parse_json_as_root, C4_Node_verify_as_root_with_identifier, C4_Node_verify_as_root_with_identifier_and_size },
    { "Req", C4_Req_parse_json_as_root, C4_Req_verify_as_root_with_identifier, C4_Req_verify_as_root_with_identifier_and_size },
    { "Nums", C4_Nums_parse_json_as_root, C4_Nums_verify_as_root_with_identifier, C4_Nums_verify_as_root_with_identifier_and_size },
    { "Geo", C4_Geo_parse_json_as_root, C4_Geo_verify_as_root_with_identifier, C4_Geo_verify_as_root_with_identifier_and_size },
    { "Tri", C4_Tri_parse_json_as_root, C4_Tri_verify_as_root_with_identifier, C4_Tri_verify_as_root_with_identifier_and_size },
    { "Poly", C4_Poly_parse_json_as_root, C4_Poly_verify_as_root_with_identifier, C4_Poly_verify_as_root_with_identifier_and_size },
    { "Root@schema", schema_root_parse, C4_Root_verify_as_root_with_identifier, C4_Root_verify_as_root_with_identifier_and_size },
#ifdef C04_SROOT
    { "SPt", C4S_SPt_parse_json_as_root, C4S_SPt_verify_as_root_with_identifier, C4S_SPt_verify_as_root_with_identifier_and_size },
    { "SPt@schema", sroot_schema_parse, C4S_SPt_verify_as_root_with_identifier, C4S_SPt_verify_as_root_with_identifier_and_size },
#endif
    { "DepFirst", C4_DepFirst_parse_json_as_root, C4_DepFirst_verify_as_root_with_identifier, C4_DepFirst_verify_as_root_with_identifier_and_size },
    { "DepMid", C4_DepMid_parse_json_as_root, C4_DepMid_verify_as_root_with_identifier, C4_DepMid_verify_as_root_with_identifier_and_size },
    { "DepLast", C4_DepLast_parse_json_as_root, C4_DepLast_verify_as_root_with_identifier, C4_DepLast_verify_as_root_with_identifier_and_size },
    { "DepOnly", C4_DepOnly_parse_json_as_root, C4_DepOnly_verify_as_root_with_identifier, C4_DepOnly_verify_as_root_with_identifier_and_size },
    { "Tiny", C4_Tiny_parse_json_as_root, C4_Tiny_verify_as_root_with_identifier, C4_Tiny_verify_as_root_with_identifier_and_size },
    { "S1", C4_S1_parse_json_as_root, C4_S1_verify_as_root_with_identifier, C4_S1_verify_as_root_with_identifier_and_size },
    { "S2", C4_S2_parse_json_as_root, C4_S2_verify_as_root_with_identifier, C4_S2_verify_as_root_with_identifier_and_size },
    { "S2s", C4_S2s_parse_json_as_root, C4_S2s_verify_as_root_with_identifier, C4_S2s_verify_as_root_with_identifier_and_size },
    { "S3", C4_S3_parse_json_as_root, C4_S3_verify_as_root_with_identifier, C4_S3_verify_as_root_with_identifier_and_size },
    { "Twin", C4_Twin_parse_json_as_root, C4_Twin_verify_as_root_with_identifier, C4_Twin_verify_as_root_with_identifier_and_size },
    { "DpT", C4_DpT_parse_json_as_root, C4_DpT_verify_as_root_with_identifier, C4_DpT_verify_as_root_with_identifier_and_size },
    { "Dp1", C4_Dp1_parse_json_as_root, C4_Dp1_verify_as_root_with_identifier, C4_Dp1_verify_as_root_with_identifier_and_size },
    { "Multi", C4_Multi_parse_json_as_root, C4_Multi_verify_as_root_with_identifier, C4_Multi_verify_as_root_with_identifier_and_size },
    { "Opt", C4_Opt_parse_json_as_root, C4_Opt_verify_as_root_with_identifier, C4_Opt_verify_as_root_with_identifier_and_size },
    { "Fix", C4_Fix_parse_json_as_root, C4_Fix_verify_as_root_with_identifier, C4_Fix_verify_as_root_with_identifier_and_size },
    { 0, 0, 0, 0 }
};

int main(void)
{
    char *line, *t[8]; int n;
    __asan_set_error_report_callback(on_asan);
    signal(SIGALRM, on_alarm);
    flatcc_builder_init(&B);
    { flatcc_builder_t fresh; flatcc_builder_init(&fresh);
      if (build_ref(&fresh, &ref_bytes, &ref_size)) { printf("REFFAIL\n"); fflush(stdout); return 2; }
      flatcc_builder_clear(&fresh); }
    while ((line = hx_getline())) {
        size_t len = 0; void *fr = 0; char *buf = 0; const char *end, *ret; flatcc_json_parser_t ctx; long pos, arg = 0;
        n = hx_split(line, t, 8);
        if (n == 0) { printf("BAD\n"); fflush(stdout); continue; }
        asan_hits = 0; asan_write = 0; ubsan_hits = 0;
        alarm(20);
        if (!strcmp(t[0], "parset") && n == 6) {
            /* the same parse twice on the shared builder, with digits / with a terminator behind the input:
               T2 <core A> | <core B>   (core = OK end size vrc hash | ERR rc error loc) */
            struct root *r = roots; int rc, k; flatcc_json_parser_flags_t flags = (flatcc_json_parser_flags_t)atoi(t[2]);
            const char *fid = atoi(t[3]) ? "C4RT" : 0; static const int fills[2] = { '0', '}' };
            while (r->name && strcmp(r->name, t[1])) ++r;
            if (!r->name) { printf("BAD\n"); fflush(stdout); continue; }
            printf("T2");
            for (k = 0; k < 2; ++k) {
                buf = tail_copy(t[5], &len, &fr, fills[k]);
                flatcc_builder_reset(&B);
                rc = r->parse(&B, &ctx, buf, len, flags, fid);
                if (rc == 0) {
                    size_t size = 0; void *out = flatcc_builder_finalize_aligned_buffer(&B, &size);
                    if (!out) printf(" OK %ld 0 -1 0", (long)(ctx.end_loc - buf));
                    else { printf(" OK %ld %lu 0 %016llx", (long)(ctx.end_loc - buf), (unsigned long)size, (unsigned long long)fnv64((uint8_t *)out, size)); flatcc_builder_aligned_free(out); }
                } else printf(" ERR %d %d %ld", rc, ctx.error, (long)(ctx.error_loc - buf));
                if (k == 0) printf(" |");
                tail_free(fr, len);
            }
            if (asan_hits) printf(" ASAN %s", asan_msg);
            UB_SUFFIX(); printf("\n");
            alarm(0); fflush(stdout);
            if (asan_write) return 99;
            continue;
        }
        if (!strcmp(t[0], "parsem") && n == 6) {
            struct root *r = roots; int rc; flatcc_json_parser_flags_t flags = (flatcc_json_parser_flags_t)atoi(t[2]);
            const char *fid = atoi(t[3]) ? "C4RT" : 0; flatcc_builder_t MB;
            while (r->name && strcmp(r->name, t[1])) ++r;
            if (!r->name) { printf("BAD\n"); fflush(stdout); continue; }
            buf = exact_copy(t[5], &len, &fr);
            if (flatcc_builder_custom_init(&MB, 0, 0, moving_alloc, 0)) { printf("INITFAIL\n"); fflush(stdout); free(fr); continue; }
            rc = r->parse(&MB, &ctx, buf, len, flags, fid);
            if (asan_hits) { printf("ASAN %s", asan_msg); UB_SUFFIX(); printf("\n"); }
            else if (rc == 0) {
                size_t size = 0; void *out = flatcc_builder_finalize_aligned_buffer(&MB, &size); int vrc;
                if (!out) { printf("OK %ld 0 -1 0", (long)(ctx.end_loc - buf)); UB_SUFFIX(); printf("\n"); }
                else {
                    alarm(3); in_verify = 1;
                    if (sigsetjmp(verify_jmp, 1)) vrc = -2;
                    else vrc = (flags & flatcc_json_parser_f_with_size) ? r->verify_ws(out, size, fid) : r->verify(out, size, fid);
                    in_verify = 0; alarm(20);
                    printf("OK %ld %lu %d %016llx", (long)(ctx.end_loc - buf), (unsigned long)size, vrc, (unsigned long long)fnv64((uint8_t *)out, size));
                    if (asan_hits) printf(" ASAN-IN-VERIFY %s", asan_msg);
                    UB_SUFFIX(); printf("\n");
                    flatcc_builder_aligned_free(out);
                }
            } else {
                printf("ERR %d %d %ld %d %d", rc, ctx.error, (long)(ctx.error_loc - buf), ctx.line, ctx.pos); UB_SUFFIX(); printf("\n");
            }
            flatcc_builder_clear(&MB);
            free(fr); alarm(0); fflush(stdout);
            if (asan_write) return 99;
            continue;
        }
        if (!strcmp(t[0], "parse") && n == 6) {
            struct root *r = roots; int rc; flatcc_json_parser_flags_t flags = (flatcc_json_parser_flags_t)atoi(t[2]);
            const char *fid = atoi(t[3]) ? "C4RT" : 0; int want_hex = atoi(t[4]);
            while (r->name && strcmp(r->name, t[1])) ++r;
            if (!r->name) { printf("BAD\n"); fflush(stdout); continue; }
            buf = exact_copy(t[5], &len, &fr);
            flatcc_builder_reset(&B);
            rc = r->parse(&B, &ctx, buf, len, flags, fid);
            if (asan_hits) { printf("ASAN %s", asan_msg); UB_SUFFIX(); printf("\n"); }
            else if (rc == 0) {
                size_t size = 0; void *out = flatcc_builder_finalize_aligned_buffer(&B, &size); int vrc;
                if (!out) { printf("OK %ld 0 -1 0", (long)(ctx.end_loc - buf)); UB_SUFFIX(); printf("\n"); }
                else {
                    /* the verifier is not the code under test here: give it 3 s, report -2 when it does not come back */
                    alarm(3); in_verify = 1;
                    if (sigsetjmp(verify_jmp, 1)) vrc = -2;
                    else vrc = (flags & flatcc_json_parser_f_with_size) ? r->verify_ws(out, size, fid) : r->verify(out, size, fid);
                    in_verify = 0; alarm(20);
                    printf("OK %ld %lu %d %016llx", (long)(ctx.end_loc - buf), (unsigned long)size, vrc, (unsigned long long)fnv64((uint8_t *)out, size));
                    if (asan_hits) printf(" ASAN-IN-VERIFY %s", asan_msg);
                    if (want_hex) { printf(" "); hx_print((uint8_t *)out, size); }
                    UB_SUFFIX(); printf("\n");
                    flatcc_builder_aligned_free(out);
                }
            } else {
                uint8_t *again = 0; size_t asz = 0; int reuse;
                printf("ERR %d %d %ld %d %d", rc, ctx.error, (long)(ctx.error_loc - buf), ctx.line, ctx.pos);
                flatcc_builder_reset(&B);
                if (build_ref(&B, &again, &asz)) reuse = 2;
                else { reuse = (asz == ref_size && !memcmp(again, ref_bytes, asz)) ? 0 : 1; flatcc_builder_free(again); }
                if (asan_hits) printf(" REUSE-ASAN %s", asan_msg); else printf(" REUSE %d", reuse);
                UB_SUFFIX(); printf("\n");
            }
            free(fr); alarm(0); fflush(stdout);
            if (asan_write) return 99;
            continue;
        }
        if (n < 5) { printf("BAD\n"); fflush(stdout); continue; }
        buf = exact_copy(t[4], &len, &fr); end = buf + len;
        pos = atol(t[3]); if (n >= 6) arg = atol(t[5]);
        flatcc_json_parser_init(&ctx, 0, buf, end, (flatcc_json_parser_flags_t)atoi(t[1]));
        ctx.unquoted = atoi(t[2]);
#define P1(name, call) else if (!strcmp(t[0], name)) { ret = call; if (asan_hits) printf("ASAN %s\n", asan_msg); else { reply_ctx(buf, ret, &ctx); printf("-\n"); } }
        if (0) {}
        P1("space", flatcc_json_parser_space(&ctx, buf + pos, end))
        P1("space_ext", flatcc_json_parser_space_ext(&ctx, buf + pos, end))
        P1("string_start", flatcc_json_parser_string_start(&ctx, buf + pos, end))
        P1("string_part", flatcc_json_parser_string_part(&ctx, buf + pos, end))
        P1("string_end", flatcc_json_parser_string_end(&ctx, buf + pos, end))
        P1("symbol_start", flatcc_json_parser_symbol_start(&ctx, buf + pos, end))
        P1("symbol_end", flatcc_json_parser_symbol_end(&ctx, buf + pos, end))
        P1("skip_constant", flatcc_json_parser_skip_constant(&ctx, buf + pos, end))
        P1("none", flatcc_json_parser_none(&ctx, buf + pos, end))
        P1("number", __flatcc_json_parser_number(&ctx, buf + pos, end))
        P1("generic", flatcc_json_parser_generic_json(&ctx, buf + pos, end))
        P1("unmatched", flatcc_json_parser_unmatched_symbol(&ctx, buf + pos, end))
        P1("match_symbol", flatcc_json_parser_match_symbol(&ctx, buf + pos, end, (int)arg))
        P1("match_type_suffix", flatcc_json_parser_match_type_suffix(&ctx, buf + pos, end, (int)arg))
        else if (!strcmp(t[0], "string_escape")) {
            flatcc_json_parser_escape_buffer_t code; memset(code, 0x7e, sizeof(code));
            ret = flatcc_json_parser_string_escape(&ctx, buf + pos, end, code);
            if (asan_hits) printf("ASAN %s\n", asan_msg); else { reply_ctx(buf, ret, &ctx); hx_print((uint8_t *)code + 1, (size_t)code[0]); printf("\n"); }
        } else if (!strcmp(t[0], "symbol_part")) {
            uint64_t w = flatcc_json_parser_symbol_part(buf + pos, end);
            if (asan_hits) printf("ASAN %s\n", asan_msg); else printf("%llu\n", (unsigned long long)w);
        } else if (!strcmp(t[0], "match_scope")) {
            ret = flatcc_json_parser_match_scope(&ctx, buf + pos, end, (int)arg);
            if (asan_hits) printf("ASAN %s\n", asan_msg); else printf("%ld\n", (long)(ret - buf));
        } else if (!strcmp(t[0], "null")) {
            ret = flatcc_json_parser_null(buf + pos, end);
            if (asan_hits) printf("ASAN %s\n", asan_msg); else printf("%ld\n", (long)(ret - buf));
        } else if (!strcmp(t[0], "match_constant") || !strcmp(t[0], "object_start") || !strcmp(t[0], "object_end")
                   || !strcmp(t[0], "array_start") || !strcmp(t[0], "array_end")) {
            int more = 7;
            if (t[0][0] == 'm') ret = flatcc_json_parser_match_constant(&ctx, buf + pos, end, (int)arg, &more);
            else if (!strcmp(t[0], "object_start")) ret = flatcc_json_parser_object_start(&ctx, buf + pos, end, &more);
            else if (!strcmp(t[0], "object_end")) ret = flatcc_json_parser_object_end(&ctx, buf + pos, end, &more);
            else if (!strcmp(t[0], "array_start")) ret = flatcc_json_parser_array_start(&ctx, buf + pos, end, &more);
            else ret = flatcc_json_parser_array_end(&ctx, buf + pos, end, &more);
            if (asan_hits) printf("ASAN %s\n", asan_msg); else { reply_ctx(buf, ret, &ctx); printf("%d\n", more); }
        } else if (!strcmp(t[0], "integer")) {
            int sign = 0; uint64_t v = 0;
            ret = flatcc_json_parser_integer(&ctx, buf + pos, end, &sign, &v);
            if (asan_hits) printf("ASAN %s\n", asan_msg); else { reply_ctx(buf, ret, &ctx); printf("%d %llu\n", sign, (unsigned long long)v); }
        } else if (!strcmp(t[0], "uint8") || !strcmp(t[0], "bool")) {
            uint8_t v = 0x7e;
            ret = t[0][0] == 'u' ? flatcc_json_parser_uint8(&ctx, buf + pos, end, &v) : flatcc_json_parser_bool(&ctx, buf + pos, end, &v);
            if (asan_hits) printf("ASAN %s\n", asan_msg); else { reply_ctx(buf, ret, &ctx); printf("%u\n", (unsigned)v); }
        } else if (!strcmp(t[0], "char_array")) {
            /* the array also on an exact heap block, prefilled with a marker so that unwritten bytes are visible */
            size_t an = (size_t)arg; char *s = (char *)malloc(an ? an : 1); memset(s, 0xee, an ? an : 1);
            if (an == 0) __asan_poison_memory_region(s, 1);
            ret = flatcc_json_parser_char_array(&ctx, buf + pos, end, s, an);
            if (asan_hits) printf("ASAN %s\n", asan_msg); else { reply_ctx(buf, ret, &ctx); hx_print((uint8_t *)s, an); printf("\n"); }
            free(s);
        } else if (!strcmp(t[0], "build_string")) {
            flatcc_builder_t b2; flatcc_builder_ref_t ref = 0; size_t size; uint8_t *out;
            flatcc_builder_init(&b2); ctx.ctx = &b2;
            flatcc_builder_start_buffer(&b2, 0, 0, 0);
            ret = flatcc_json_parser_build_string(&ctx, buf + pos, end, &ref);
            if (asan_hits) printf("ASAN %s\n", asan_msg);
            else {
                reply_ctx(buf, ret, &ctx);
                if (!ref) printf("NOREF\n");
                else if (!flatcc_builder_end_buffer(&b2, ref) || !(out = (uint8_t *)flatcc_builder_finalize_buffer(&b2, &size))) printf("NOBUF\n");
                else { uint32_t off = *(uint32_t *)out; uint32_t sl = *(uint32_t *)(out + off); hx_print(out + off + 4, sl); printf("\n"); flatcc_builder_free(out); }
            }
            flatcc_builder_clear(&b2);
        } else printf("BAD\n");
        free(fr); alarm(0); fflush(stdout);
        if (asan_write) return 99;
    }
    return 0;
}
