/* H-clone (C18): builds a DAG-shaped source buffer from a program with the freshly generated builder for
   gen/c18_clone.fbs, verifies it, clones / picks it into a second builder with or without a reference map, verifies the
   copy with the generated verifier and compares canonical dumps of source and copy.

   request:  run <mode> <refmap 0|1> <dumps 0|1> <obj> <obj> ...
     mode: clone | clonews | clonet | clonetws (N_clone_as_root, _as_root_with_size, _as_typed_root, _as_typed_root_with_size; each verified
           with the matching N_verify_as_[typed_]root[_with_size] and read back through the matching as_[typed_]root)
           | pick:<mask> | fclone:<mask> | vec:<mask>     (mask: decimal bit set over the Node fields, see FIELDS)
           swap:<mask>:<split>  pick the fields below bit <split>, then the idiom flatcc_builder.h documents for nested
                                buffers: saved = set_refmap(B, &nested_map); build the `nested` field as a nested buffer
                                (clone of the source's leaf); set_refmap(B, saved); then pick the remaining fields.
                                api=<bits> reports set_refmap returning the wrong map / changing a map's content
           oldclone | oldpick:<mask>  the source is built with this schema (union Any { Node, Leaf, Vec3, Pair, Str }), clone / pick is
                                done with the code generated from the OLDER schema (union Any { Node, Leaf, Vec3 }) and the copy is
                                verified with the older verifier; members the older schema does not know must read as NONE
           cycle:<e>:<r>   three build cycles on ONE builder with the reference map left installed: clone_as_root, take the buffer,
                           reset, again. e: 0 default emitter (flatcc_builder_init), 1 flatcc_builder_custom_init with an explicit
                           flatcc_emitter context; r: 0 flatcc_builder_reset, 1..4 flatcc_builder_custom_reset(set_defaults, reduce_buffers)
                           = (0,0) (1,0) (0,1) (1,1). Every cycle must verify, read and share like the source and give the bytes of
                           the first (fresh) cycle; the map must be empty after every reset (flatcc_builder.h: reset resets the refmap)
                           -> OK srcv=0 cyc=<first failing cycle or 0> dstv=.. val=.. share=.. same=.. mapreset=.. size=..
           nest:<1|2>      the clone is made INSIDE a nested buffer of the copy (level 1: root.nested8 = clone of the source root;
                           level 2: root.nested8 = Node{ nested8 = clone of the source root }), same reference map: the innermost
                           nested root must read and SHARE like the source
   request:  wseq <level> <op> ...   i<src>,<ref> / f<src> through the BUILDER wrappers flatcc_builder_refmap_insert / _find with an
                           attached map while <level>+1 buffers are open (0 = top level buffer, 1, 2 = nested); replies as refmap_diff
   request:  raw <mode> <refmap> <dumps> <hex>   like run, the source is the given (hand-made) buffer
   request:  api          direct test of flatcc_builder_set_refmap / get_refmap / refmap_find / refmap_insert -> API ok | API <failures>
     objects are numbered 0.. in order of appearance, later objects refer to earlier ones by number (sharing = DAG):
       S:<hex>  string        B:<hex> [ubyte]     L:<a.b.c> [long]   C:<a.b> [Color]   V:<a.b> [Vec3]   P:<a.b> [Pair]
       SV:<i.j> [string]      LV:<i.j> [Leaf]     NV:<i.j> [Node]    VS:<a> Vec3 (union member)   PS:<a> Pair (union member)
       UV:<t/i.t/i> [Any] (t 0 = NONE, i ignored)   UX:<a>/<b> type vector of UV a with value vector of UV b
       A32|A64|A128|A256:<int>,<n>,<hexstr> nested T32..T256 buffer (v = struct from int, vs = n structs, s = string), placed at that alignment
       NB:<hexname>,<val> nested Leaf buffer as [ubyte]     N8:<int> nested Node buffer (big = int) as [ubyte], 8-aligned
       LF:name=<i>,val=<int>,pos=<int>,tags=<i>        (any subset)
       N:id=..,name=<i>,pos=<int>,pair=<int>,color=..,flag=..,big=..,f=..,opt=..,left=<i>,right=<i>,leaf=<i>,bytes=<i>,
         longs=<i>,colors=<i>,structs=<i>,pairs=<i>,strs=<i>,nodes=<i>,leaves=<i>,any=<t>/<i>,anys=<i>,nested=<i>,nested8=<i>,
         nested32=<i>,nested64=<i>,nested128=<i>,nested256=<i>
         (a key written `id!` uses force_add).   The root is the last N.
   reply:  OK srcv=<rc> dstv=<rc> val=<0|1> share=<0|1> extra=<fields outside the mask present in the copy> back_src=<n> back_dst=<n> map=<count> size=<src>/<dst> [| value dumps | sharing dumps]
           ERR <what>                                                                                              */
#include "hx.h"
#include <stdarg.h>
#include <unistd.h>
#include "flatcc/flatcc_builder.h"
#include "flatcc/flatcc_refmap.h"
#include "flatcc/flatcc_emitter.h"
#include "c18_clone_builder.h"
#include "c18_clone_verifier.h"
#include "c18_clone_old_builder.h"    /* namespace CO: the same schema with `union Any { Node, Leaf, Vec3 }` (an older version) */
#include "c18_clone_old_verifier.h"
#undef ns
#define ns(x) FLATBUFFERS_WRAP_NAMESPACE(CT, x)

/* ------------------------------------------------------------------ output buffer */
struct obuf { char *p; size_t n, cap; };
static void ob_put(struct obuf *o, const char *fmt, ...)
{
    va_list ap; int k;
    if (o->cap - o->n < 256) { o->cap = o->cap ? o->cap * 2 : 4096; o->p = (char *)realloc(o->p, o->cap); }
    va_start(ap, fmt); k = vsnprintf(o->p + o->n, o->cap - o->n, fmt, ap); va_end(ap);
    if (k > 0) o->n += (size_t)k;
}
/* ------------------------------------------------------------------ identity numbering (sharing dump) */
struct ids { const void **p; const void **rk; size_t n, cap, back; };
/* p: what identifies the object (for strings and vectors the address of the length field, for tables and structs the
   object); rk: the address the generated clone code uses as reference map key (for vectors the first element, which for
   an EMPTY vector is also the address of whatever follows it in the buffer) */
static int ident2(struct ids *t, const void *p, const void *rk, struct obuf *o)
{
    size_t i;
    if (!t) return 0;
    for (i = 0; i < t->n; ++i) if (t->p[i] == p) { ob_put(o, "@%lu", (unsigned long)i); ++t->back; return 1; }
    if (t->n == t->cap) { t->cap = t->cap ? t->cap * 2 : 256; t->p = (const void **)realloc((void *)t->p, t->cap * sizeof(void *)); t->rk = (const void **)realloc((void *)t->rk, t->cap * sizeof(void *)); }
    t->p[t->n] = p; t->rk[t->n] = rk; ++t->n; ob_put(o, "#%lu", (unsigned long)(t->n - 1));
    return 0;
}
static int ident(struct ids *t, const void *p, struct obuf *o) { return ident2(t, p, p, o); }
#define HDR(v) ((const void *)((const char *)(v) - sizeof(flatbuffers_uoffset_t)))
static int identv(struct ids *t, const void *v, struct obuf *o) { return ident2(t, HDR(v), v, o); }
static size_t key_aliases(struct ids *t)
{
    size_t i, j, n = 0;
    for (i = 0; i < t->n; ++i) for (j = i + 1; j < t->n; ++j) if (t->rk[i] == t->rk[j]) ++n;
    return n;
}
static unsigned fbits(float f) { unsigned u; memcpy(&u, &f, 4); return u; }
static unsigned long long dbits(double f) { unsigned long long u; memcpy(&u, &f, 8); return u; }

static void d_string(struct obuf *o, struct ids *t, flatbuffers_string_t s)
{
    size_t i, n;
    if (!s) { ob_put(o, "~"); return; }
    ob_put(o, "s"); if (identv(t, s, o)) return;
    n = flatbuffers_string_len(s); ob_put(o, "%lu:", (unsigned long)n);
    for (i = 0; i < n; ++i) ob_put(o, "%02x", (unsigned char)s[i]);
    ob_put(o, "/%d", s[n]);
}
static void d_vec3(struct obuf *o, ns(Vec3_struct_t) p) { if (!p) { ob_put(o, "~"); return; } ob_put(o, "(%x,%x,%x)", fbits(ns(Vec3_x(p))), fbits(ns(Vec3_y(p))), fbits(ns(Vec3_z(p)))); }
static void d_pair(struct obuf *o, ns(Pair_struct_t) p) { if (!p) { ob_put(o, "~"); return; } ob_put(o, "(%u,%lld)", (unsigned)ns(Pair_a(p)), (long long)ns(Pair_b(p))); }
static void d_strvec(struct obuf *o, struct ids *t, flatbuffers_string_vec_t v)
{
    size_t i, n;
    if (!v) { ob_put(o, "~"); return; }
    ob_put(o, "["); if (identv(t, v, o)) { ob_put(o, "]"); return; }
    n = flatbuffers_string_vec_len(v);
    for (i = 0; i < n; ++i) { d_string(o, t, flatbuffers_string_vec_at(v, i)); ob_put(o, ","); }
    ob_put(o, "]");
}
static void d_leaf(struct obuf *o, struct ids *t, ns(Leaf_table_t) l)
{
    if (!l) { ob_put(o, "~"); return; }
    ob_put(o, "L"); if (ident(t, l, o)) return;
    ob_put(o, "{"); d_string(o, t, ns(Leaf_name(l)));
    ob_put(o, " val%d=%d ", ns(Leaf_val_is_present(l)), (int)ns(Leaf_val(l)));
    d_vec3(o, ns(Leaf_pos(l))); ob_put(o, " "); d_strvec(o, t, ns(Leaf_tags(l))); ob_put(o, "}");
}
static void d_node(struct obuf *o, struct ids *t, ns(Node_table_t) n, unsigned mask);
static unsigned g_known_max = 255;   /* union member codes above this read as NONE (two-schema modes) */
static void d_union(struct obuf *o, struct ids *t, ns(Any_union_t) u)
{
    if (u.type > g_known_max) { u.type = 0; u.value = 0; }
    ob_put(o, "U%u:", (unsigned)u.type);
    switch (u.type) {
    case ns(Any_NONE): ob_put(o, u.value ? "!value" : "-"); break;
    case ns(Any_Node): d_node(o, t, (ns(Node_table_t))u.value, ~0u); break;
    case ns(Any_Leaf): d_leaf(o, t, (ns(Leaf_table_t))u.value); break;
    case ns(Any_Vec3): ob_put(o, "v"); if (!ident(t, u.value, o)) d_vec3(o, (ns(Vec3_struct_t))u.value); break;
    case ns(Any_Pair): ob_put(o, "p"); if (!ident(t, u.value, o)) d_pair(o, (ns(Pair_struct_t))u.value); break;
    case ns(Any_Str): d_string(o, t, flatbuffers_string_cast_from_union(u)); break;   /* u.value points at the length field */
    default: ob_put(o, "?"); break;
    }
}
/* the fields of Node in declaration order; the bit number is the position in this list */
#define FIELDS(X) X(0,id) X(1,name) X(2,pos) X(3,pair) X(4,color) X(5,flag) X(6,big) X(7,f) X(8,opt) X(9,left) X(10,right) X(11,leaf) \
    X(12,bytes) X(13,longs) X(14,colors) X(15,structs) X(16,pairs) X(17,strs) X(18,nodes) X(19,leaves) X(20,any) X(21,anys) X(22,nested) X(23,nested8) \
    X(24,nested32) X(25,nested64) X(26,nested128) X(27,nested256)
#define M(i) (mask & (1u << (i)))
static void d_node(struct obuf *o, struct ids *t, ns(Node_table_t) n, unsigned mask)
{
    size_t i, k;
    if (!n) { ob_put(o, "~"); return; }
    ob_put(o, "N"); if (ident(t, n, o)) return;
    ob_put(o, "{");
    if (M(0)) ob_put(o, "id%d=%d ", ns(Node_id_is_present(n)), (int)ns(Node_id(n)));
    if (M(1)) { ob_put(o, "name="); d_string(o, t, ns(Node_name(n))); ob_put(o, " "); }
    if (M(2)) { ob_put(o, "pos="); d_vec3(o, ns(Node_pos(n))); ob_put(o, " "); }
    if (M(3)) { ob_put(o, "pair="); d_pair(o, ns(Node_pair(n))); ob_put(o, " "); }
    if (M(4)) ob_put(o, "color%d=%d ", ns(Node_color_is_present(n)), (int)ns(Node_color(n)));
    if (M(5)) ob_put(o, "flag%d=%d ", ns(Node_flag_is_present(n)), (int)ns(Node_flag(n)));
    if (M(6)) ob_put(o, "big%d=%llu ", ns(Node_big_is_present(n)), (unsigned long long)ns(Node_big(n)));
    if (M(7)) ob_put(o, "f%d=%llx ", ns(Node_f_is_present(n)), dbits(ns(Node_f(n))));
    if (M(8)) ob_put(o, "opt%d=%d ", ns(Node_opt_is_present(n)), (int)ns(Node_opt(n)));
    if (M(9)) { ob_put(o, "left="); d_node(o, t, ns(Node_left(n)), ~0u); ob_put(o, " "); }
    if (M(10)) { ob_put(o, "right="); d_node(o, t, ns(Node_right(n)), ~0u); ob_put(o, " "); }
    if (M(11)) { ob_put(o, "leaf="); d_leaf(o, t, ns(Node_leaf(n))); ob_put(o, " "); }
    if (M(12)) { flatbuffers_uint8_vec_t v = ns(Node_bytes(n)); ob_put(o, "bytes=");
        if (!v) ob_put(o, "~"); else { ob_put(o, "["); if (!identv(t, v, o)) { k = flatbuffers_uint8_vec_len(v); for (i = 0; i < k; ++i) ob_put(o, "%02x", flatbuffers_uint8_vec_at(v, i)); } ob_put(o, "]"); } ob_put(o, " "); }
    if (M(13)) { flatbuffers_int64_vec_t v = ns(Node_longs(n)); ob_put(o, "longs=");
        if (!v) ob_put(o, "~"); else { ob_put(o, "["); if (!identv(t, v, o)) { k = flatbuffers_int64_vec_len(v); for (i = 0; i < k; ++i) ob_put(o, "%lld,", (long long)flatbuffers_int64_vec_at(v, i)); } ob_put(o, "]"); } ob_put(o, " "); }
    if (M(14)) { ns(Color_vec_t) v = ns(Node_colors(n)); ob_put(o, "colors=");
        if (!v) ob_put(o, "~"); else { ob_put(o, "["); if (!identv(t, v, o)) { k = ns(Color_vec_len(v)); for (i = 0; i < k; ++i) ob_put(o, "%d,", (int)ns(Color_vec_at(v, i))); } ob_put(o, "]"); } ob_put(o, " "); }
    if (M(15)) { ns(Vec3_vec_t) v = ns(Node_structs(n)); ob_put(o, "structs=");
        if (!v) ob_put(o, "~"); else { ob_put(o, "["); if (!identv(t, v, o)) { k = ns(Vec3_vec_len(v)); for (i = 0; i < k; ++i) d_vec3(o, ns(Vec3_vec_at(v, i))); } ob_put(o, "]"); } ob_put(o, " "); }
    if (M(16)) { ns(Pair_vec_t) v = ns(Node_pairs(n)); ob_put(o, "pairs=");
        if (!v) ob_put(o, "~"); else { ob_put(o, "["); if (!identv(t, v, o)) { k = ns(Pair_vec_len(v)); for (i = 0; i < k; ++i) d_pair(o, ns(Pair_vec_at(v, i))); } ob_put(o, "]"); } ob_put(o, " "); }
    if (M(17)) { ob_put(o, "strs="); d_strvec(o, t, ns(Node_strs(n))); ob_put(o, " "); }
    if (M(18)) { ns(Node_vec_t) v = ns(Node_nodes(n)); ob_put(o, "nodes=");
        if (!v) ob_put(o, "~"); else { ob_put(o, "["); if (!identv(t, v, o)) { k = ns(Node_vec_len(v)); for (i = 0; i < k; ++i) { d_node(o, t, ns(Node_vec_at(v, i)), ~0u); ob_put(o, ","); } } ob_put(o, "]"); } ob_put(o, " "); }
    if (M(19)) { ns(Leaf_vec_t) v = ns(Node_leaves(n)); ob_put(o, "leaves=");
        if (!v) ob_put(o, "~"); else { ob_put(o, "["); if (!identv(t, v, o)) { k = ns(Leaf_vec_len(v)); for (i = 0; i < k; ++i) { d_leaf(o, t, ns(Leaf_vec_at(v, i))); ob_put(o, ","); } } ob_put(o, "]"); } ob_put(o, " "); }
    if (M(20)) { ob_put(o, "any%d=", ns(Node_any_is_present(n)) && ns(Node_any_type(n)) <= g_known_max); d_union(o, t, ns(Node_any_union(n))); ob_put(o, " "); }
    if (M(21)) { ns(Any_vec_t) tv = ns(Node_anys_type(n)); flatbuffers_generic_vec_t vv = ns(Node_anys(n)); ob_put(o, "anys=");
        if (!tv && !vv) ob_put(o, "~"); else if (!tv || !vv) ob_put(o, "!half"); else {
            ns(Any_union_vec_t) uv = ns(Node_anys_union(n));
            ob_put(o, "T["); if (!identv(t, tv, o)) { k = ns(Any_vec_len(tv)); for (i = 0; i < k; ++i) ob_put(o, "%u,", (unsigned)ns(Any_vec_at(tv, i)) > g_known_max ? 0u : (unsigned)ns(Any_vec_at(tv, i))); } ob_put(o, "]");
            ob_put(o, "W["); if (!identv(t, vv, o)) { k = ns(Any_union_vec_len(uv)); for (i = 0; i < k; ++i) { d_union(o, t, ns(Any_union_vec_at(uv, i))); ob_put(o, ","); } } ob_put(o, "]"); }
        ob_put(o, " "); }
    if (M(22)) { flatbuffers_uint8_vec_t v = ns(Node_nested(n)); ob_put(o, "nested=");
        if (!v) ob_put(o, "~"); else { ob_put(o, "["); if (!identv(t, v, o)) { k = flatbuffers_uint8_vec_len(v); for (i = 0; i < k; ++i) ob_put(o, "%02x", flatbuffers_uint8_vec_at(v, i));
            ob_put(o, "|"); d_leaf(o, 0, ns(Node_nested_as_root(n))); } ob_put(o, "]"); } ob_put(o, " "); }
    if (M(23)) { flatbuffers_uint8_vec_t v = ns(Node_nested8(n)); ob_put(o, "nested8=");
        if (!v) ob_put(o, "~"); else { ob_put(o, "["); if (!identv(t, v, o)) { k = flatbuffers_uint8_vec_len(v); for (i = 0; i < k; ++i) ob_put(o, "%02x", flatbuffers_uint8_vec_at(v, i));
            ob_put(o, "|a%u|", (unsigned)((size_t)v & 7)); } ob_put(o, "]"); } ob_put(o, " "); }
#define D_ALIGNED(BIT, AL) \
    if (M(BIT)) { flatbuffers_uint8_vec_t v = ns(Node_nested##AL(n)); ob_put(o, "nested" #AL "="); \
        if (!v) ob_put(o, "~"); else { ob_put(o, "["); if (!identv(t, v, o)) { ns(T##AL##_table_t) r = ns(Node_nested##AL##_as_root(n)); ns(A##AL##_vec_t) sv = ns(T##AL##_vs(r)); \
            k = flatbuffers_uint8_vec_len(v); ob_put(o, "%lu:", (unsigned long)k); for (i = 0; i < k; ++i) ob_put(o, "%02x", flatbuffers_uint8_vec_at(v, i)); \
            ob_put(o, "|id%d=%d v=", ns(T##AL##_id_is_present(r)), (int)ns(T##AL##_id(r))); \
            if (ns(T##AL##_v(r))) ob_put(o, "(%llu,%u)a%u", (unsigned long long)ns(A##AL##_a(ns(T##AL##_v(r)))), (unsigned)ns(A##AL##_b(ns(T##AL##_v(r)))), (unsigned)((size_t)ns(T##AL##_v(r)) & (AL - 1))); else ob_put(o, "~"); \
            ob_put(o, " vs="); if (!sv) ob_put(o, "~"); else { ob_put(o, "[a%u:", (unsigned)((size_t)sv & (AL - 1))); k = ns(A##AL##_vec_len(sv)); \
                for (i = 0; i < k; ++i) ob_put(o, "(%llu,%u)", (unsigned long long)ns(A##AL##_a(ns(A##AL##_vec_at(sv, i)))), (unsigned)ns(A##AL##_b(ns(A##AL##_vec_at(sv, i))))); ob_put(o, "]"); } \
            ob_put(o, " s="); d_string(o, 0, ns(T##AL##_s(r))); } ob_put(o, "]"); } ob_put(o, " "); }
    D_ALIGNED(24, 32) D_ALIGNED(25, 64) D_ALIGNED(26, 128) D_ALIGNED(27, 256)
#undef D_ALIGNED
    ob_put(o, "}");
}

/* ------------------------------------------------------------------ building the source from the program */
enum { K_S, K_B, K_L, K_C, K_V, K_P, K_SV, K_LV, K_NV, K_VS, K_PS, K_UV, K_UX, K_NB, K_N8, K_LF, K_N, K_A32, K_A64, K_A128, K_A256 };
struct obj { int kind; flatcc_builder_ref_t ref, ref2; };
static struct obj *objs; static size_t nobjs, capobjs;
static const char *g_err;

static size_t ints(const char *s, long long *out, size_t max)   /* a.b.c ; "" = none */
{
    size_t n = 0; char *e;
    while (*s && n < max) { out[n++] = strtoll(s, &e, 10); s = e; if (*s == '.') ++s; else break; }
    return n;
}
static flatcc_builder_ref_t oref(long long i, int kind)
{
    if (i < 0 || (size_t)i >= nobjs || objs[i].kind != kind) { g_err = "bad object reference"; return 0; }
    return objs[i].ref;
}
static ns(Any_union_ref_t) uref(long long t, long long i)
{
    ns(Any_union_ref_t) u; u.type = (ns(Any_union_type_t))t; u.value = 0;
    switch (t) {
    case 0: break;
    case 1: u.value = oref(i, K_N); break;
    case 2: u.value = oref(i, K_LF); break;
    case 3: u.value = oref(i, K_VS); break;
    case 4: u.value = oref(i, K_PS); break;
    case 5: u.value = oref(i, K_S); break;
    default: g_err = "bad union type";
    }
    return u;
}
#define MAXN 4096
static long long tmp[MAXN];
static flatcc_builder_ref_t rtmp[MAXN];

static int build_leaf(flatcc_builder_t *B, char *pl, flatcc_builder_ref_t *out)
{
    char *kv, *save = 0;
    if (ns(Leaf_start(B))) return -1;
    for (kv = strtok_r(pl, ",", &save); kv; kv = strtok_r(0, ",", &save)) {
        char *eq = strchr(kv, '='); long long v; if (!eq) continue; *eq++ = 0; v = strtoll(eq, 0, 10);
        if (!strcmp(kv, "name")) { if (ns(Leaf_name_add(B, oref(v, K_S)))) return -1; }
        else if (!strcmp(kv, "val")) { if (ns(Leaf_val_add(B, (int32_t)v))) return -1; }
        else if (!strcmp(kv, "val!")) { if (ns(Leaf_val_force_add(B, (int32_t)v))) return -1; }
        else if (!strcmp(kv, "pos")) { if (ns(Leaf_pos_create(B, (float)v, (float)v + 0.5f, (float)-v))) return -1; }
        else if (!strcmp(kv, "tags")) { if (ns(Leaf_tags_add(B, oref(v, K_SV)))) return -1; }
        else { g_err = "bad leaf key"; return -1; }
    }
    *out = ns(Leaf_end(B));
    return *out ? 0 : -1;
}
static int build_node(flatcc_builder_t *B, char *pl, flatcc_builder_ref_t *out)
{
    char *kv, *save = 0;
    if (ns(Node_start(B))) return -1;
    for (kv = strtok_r(pl, ",", &save); kv; kv = strtok_r(0, ",", &save)) {
        char *eq = strchr(kv, '='); long long v; int r = 0; if (!eq) continue; *eq++ = 0; v = strtoll(eq, 0, 10);
        if (!strcmp(kv, "id")) r = ns(Node_id_add(B, (int32_t)v));
        else if (!strcmp(kv, "id!")) r = ns(Node_id_force_add(B, (int32_t)v));
        else if (!strcmp(kv, "name")) r = ns(Node_name_add(B, oref(v, K_S)));
        else if (!strcmp(kv, "pos")) r = ns(Node_pos_create(B, (float)v, (float)v + 0.5f, (float)-v));
        else if (!strcmp(kv, "pair")) r = ns(Node_pair_create(B, (uint8_t)v, v * 1000003LL));
        else if (!strcmp(kv, "color")) r = ns(Node_color_add(B, (ns(Color_enum_t))v));
        else if (!strcmp(kv, "color!")) r = ns(Node_color_force_add(B, (ns(Color_enum_t))v));
        else if (!strcmp(kv, "flag")) r = ns(Node_flag_add(B, (flatbuffers_bool_t)(v != 0)));
        else if (!strcmp(kv, "flag!")) r = ns(Node_flag_force_add(B, (flatbuffers_bool_t)(v != 0)));
        else if (!strcmp(kv, "big")) r = ns(Node_big_add(B, (uint64_t)strtoull(eq, 0, 10)));
        else if (!strcmp(kv, "big!")) r = ns(Node_big_force_add(B, (uint64_t)strtoull(eq, 0, 10)));
        else if (!strcmp(kv, "f")) r = ns(Node_f_add(B, (double)v / 8.0));
        else if (!strcmp(kv, "opt")) r = ns(Node_opt_add(B, (int16_t)v));
        else if (!strcmp(kv, "left")) r = ns(Node_left_add(B, oref(v, K_N)));
        else if (!strcmp(kv, "right")) r = ns(Node_right_add(B, oref(v, K_N)));
        else if (!strcmp(kv, "leaf")) r = ns(Node_leaf_add(B, oref(v, K_LF)));
        else if (!strcmp(kv, "bytes")) r = ns(Node_bytes_add(B, oref(v, K_B)));
        else if (!strcmp(kv, "longs")) r = ns(Node_longs_add(B, oref(v, K_L)));
        else if (!strcmp(kv, "colors")) r = ns(Node_colors_add(B, oref(v, K_C)));
        else if (!strcmp(kv, "structs")) r = ns(Node_structs_add(B, oref(v, K_V)));
        else if (!strcmp(kv, "pairs")) r = ns(Node_pairs_add(B, oref(v, K_P)));
        else if (!strcmp(kv, "strs")) r = ns(Node_strs_add(B, oref(v, K_SV)));
        else if (!strcmp(kv, "nodes")) r = ns(Node_nodes_add(B, oref(v, K_NV)));
        else if (!strcmp(kv, "leaves")) r = ns(Node_leaves_add(B, oref(v, K_LV)));
        else if (!strcmp(kv, "any")) { char *sl = strchr(eq, '/'); r = ns(Node_any_add(B, uref(v, sl ? strtoll(sl + 1, 0, 10) : -1))); }
        else if (!strcmp(kv, "anys")) { ns(Any_union_vec_ref_t) uv;
            if (v < 0 || (size_t)v >= nobjs || (objs[v].kind != K_UV && objs[v].kind != K_UX)) { g_err = "bad anys reference"; return -1; }
            uv.type = objs[v].ref; uv.value = objs[v].ref2; r = ns(Node_anys_add(B, uv)); }
        else if (!strcmp(kv, "nested")) r = ns(Node_nested_add(B, oref(v, K_NB)));
        else if (!strcmp(kv, "nested8")) r = ns(Node_nested8_add(B, oref(v, K_N8)));
        else if (!strcmp(kv, "nested32")) r = ns(Node_nested32_add(B, oref(v, K_A32)));
        else if (!strcmp(kv, "nested64")) r = ns(Node_nested64_add(B, oref(v, K_A64)));
        else if (!strcmp(kv, "nested128")) r = ns(Node_nested128_add(B, oref(v, K_A128)));
        else if (!strcmp(kv, "nested256")) r = ns(Node_nested256_add(B, oref(v, K_A256)));
        else { g_err = "bad node key"; return -1; }
        if (r || g_err) { if (!g_err) g_err = "node field add failed"; return -1; }
    }
    *out = ns(Node_end(B));
    return *out ? 0 : -1;
}
/* the structs are written as raw little-endian bytes: the builder's internal stack is not over-aligned, and a typed store
   through an A256_t pointer there is what UBSan's alignment check would (rightly, harmlessly) report */
static void put_astruct(void *p, size_t size, uint64_t a, uint32_t b) { memset(p, 0, size); memcpy(p, &a, 8); memcpy((char *)p + 8, &b, 4); }
static int build_obj(flatcc_builder_t *B, char *tok, int *is_node)
{
    char *pl = strchr(tok, ':'); struct obj ob; size_t n, i; uint8_t *bytes; size_t blen;
    if (!pl) { g_err = "object without payload"; return -1; }
    *pl++ = 0; ob.ref = ob.ref2 = 0; *is_node = 0;
    if (nobjs == capobjs) { capobjs = capobjs ? capobjs * 2 : 256; objs = (struct obj *)realloc(objs, capobjs * sizeof(*objs)); }
    if (!strcmp(tok, "S")) { ob.kind = K_S; blen = hx_decode(*pl ? pl : "-", &bytes); ob.ref = flatbuffers_string_create(B, (char *)bytes, blen); free(bytes); }
    else if (!strcmp(tok, "B")) { ob.kind = K_B; blen = hx_decode(*pl ? pl : "-", &bytes); ob.ref = flatbuffers_uint8_vec_create(B, bytes, blen); free(bytes); }
    else if (!strcmp(tok, "L")) { int64_t *d; ob.kind = K_L; n = ints(pl, tmp, MAXN); d = (int64_t *)malloc(n * 8 + 8); for (i = 0; i < n; ++i) d[i] = tmp[i]; ob.ref = flatbuffers_int64_vec_create(B, d, n); free(d); }
    else if (!strcmp(tok, "C")) { ns(Color_enum_t) *d; ob.kind = K_C; n = ints(pl, tmp, MAXN); d = (ns(Color_enum_t) *)malloc(n + 1); for (i = 0; i < n; ++i) d[i] = (ns(Color_enum_t))tmp[i]; ob.ref = ns(Color_vec_create(B, d, n)); free(d); }
    else if (!strcmp(tok, "V")) { ns(Vec3_t) *d; ob.kind = K_V; n = ints(pl, tmp, MAXN); d = (ns(Vec3_t) *)calloc(n + 1, sizeof(*d)); for (i = 0; i < n; ++i) { d[i].x = (float)tmp[i]; d[i].y = (float)tmp[i] + 0.5f; d[i].z = (float)-tmp[i]; } ob.ref = ns(Vec3_vec_create(B, d, n)); free(d); }
    else if (!strcmp(tok, "P")) { ns(Pair_t) *d; ob.kind = K_P; n = ints(pl, tmp, MAXN); d = (ns(Pair_t) *)calloc(n + 1, sizeof(*d)); for (i = 0; i < n; ++i) { d[i].a = (uint8_t)tmp[i]; d[i].b = tmp[i] * 1000003LL; } ob.ref = ns(Pair_vec_create(B, d, n)); free(d); }
    else if (!strcmp(tok, "SV")) { ob.kind = K_SV; n = ints(pl, tmp, MAXN); for (i = 0; i < n; ++i) rtmp[i] = oref(tmp[i], K_S); ob.ref = flatbuffers_string_vec_create(B, rtmp, n); }
    else if (!strcmp(tok, "LV")) { ob.kind = K_LV; n = ints(pl, tmp, MAXN); for (i = 0; i < n; ++i) rtmp[i] = oref(tmp[i], K_LF); ob.ref = ns(Leaf_vec_create(B, rtmp, n)); }
    else if (!strcmp(tok, "NV")) { ob.kind = K_NV; n = ints(pl, tmp, MAXN); for (i = 0; i < n; ++i) rtmp[i] = oref(tmp[i], K_N); ob.ref = ns(Node_vec_create(B, rtmp, n)); }
    else if (!strcmp(tok, "VS")) { long long v = strtoll(pl, 0, 10); ob.kind = K_VS; ob.ref = ns(Vec3_create(B, (float)v, (float)v + 0.5f, (float)-v)); }
    else if (!strcmp(tok, "PS")) { long long v = strtoll(pl, 0, 10); ob.kind = K_PS; ob.ref = ns(Pair_create(B, (uint8_t)v, v * 1000003LL)); }
    else if (!strcmp(tok, "UV")) { ns(Any_union_ref_t) *u; ns(Any_union_vec_ref_t) uv; char *p = pl, *e; ob.kind = K_UV; n = 0;
        u = (ns(Any_union_ref_t) *)calloc(MAXN, sizeof(*u));
        while (*p && n < MAXN) { long long t = strtoll(p, &e, 10), ix = -1; p = e; if (*p == '/') { ix = strtoll(p + 1, &e, 10); p = e; } u[n++] = uref(t, ix); if (*p == '.') ++p; else break; }
        uv = ns(Any_vec_create(B, u, n)); free(u); ob.ref = uv.type; ob.ref2 = uv.value; }
    else if (!strcmp(tok, "UX")) { char *sl = strchr(pl, '/'); long long a = strtoll(pl, 0, 10), b = sl ? strtoll(sl + 1, 0, 10) : -1; ob.kind = K_UX;
        if (a < 0 || b < 0 || (size_t)a >= nobjs || (size_t)b >= nobjs || objs[a].kind != K_UV || objs[b].kind != K_UV) { g_err = "bad UX"; return -1; }
        ob.ref = objs[a].ref; ob.ref2 = objs[b].ref2; }
    else if (!strcmp(tok, "NB") || !strcmp(tok, "N8")) {
        flatcc_builder_t B3; void *nb; size_t nsz; char *comma = strchr(pl, ',');
        flatcc_builder_init(&B3);
        if (tok[1] == 'B') { ob.kind = K_NB; if (comma) *comma++ = 0; blen = hx_decode(*pl ? pl : "-", &bytes);
            ns(Leaf_start_as_root(&B3)); ns(Leaf_name_create(&B3, (char *)bytes, blen)); ns(Leaf_val_add(&B3, comma ? atoi(comma) : 0)); ns(Leaf_end_as_root(&B3)); free(bytes); }
        else { ob.kind = K_N8; ns(Node_start_as_root(&B3)); ns(Node_big_add(&B3, strtoull(pl, 0, 10))); ns(Node_id_add(&B3, 5)); ns(Node_end_as_root(&B3)); }
        nb = flatcc_builder_finalize_aligned_buffer(&B3, &nsz);
        ob.ref = flatcc_builder_create_vector(B, nb, nsz, 1, 8, FLATBUFFERS_COUNT_MAX(1));
        flatcc_builder_aligned_free(nb); flatcc_builder_clear(&B3); }
#define MK_ALIGNED(AL) \
    else if (!strcmp(tok, "A" #AL)) { flatcc_builder_t B3; void *nb, *fp; size_t nsz; char *e; long long v = strtoll(pl, &e, 10), cnt = 0, q; \
        ob.kind = K_A##AL; if (*e == ',') cnt = strtoll(e + 1, &e, 10); \
        flatcc_builder_init(&B3); ns(T##AL##_start_as_root(&B3)); \
        if (v & 1) ns(T##AL##_id_add(&B3, (int32_t)v)); \
        if (!(v & 2) && (fp = flatcc_builder_table_add(&B3, 1, sizeof(ns(A##AL##_t)), AL))) put_astruct(fp, sizeof(ns(A##AL##_t)), (uint64_t)v * 0x100000001ULL, (uint32_t)(v + 7)); \
        if (cnt >= 0) { char *d = 0; if (posix_memalign((void **)&d, 256, (size_t)(cnt + 1) * sizeof(ns(A##AL##_t)))) exit(3); \
            for (q = 0; q < cnt; ++q) put_astruct(d + (size_t)q * sizeof(ns(A##AL##_t)), sizeof(ns(A##AL##_t)), (uint64_t)(v + q), (uint32_t)q); \
            ns(T##AL##_vs_add(&B3, flatcc_builder_create_vector(&B3, d, (size_t)cnt, sizeof(ns(A##AL##_t)), AL, FLATBUFFERS_COUNT_MAX(sizeof(ns(A##AL##_t)))))); free(d); } \
        if (*e == ',' && e[1]) { blen = hx_decode(e + 1, &bytes); ns(T##AL##_s_create(&B3, (char *)bytes, blen)); free(bytes); } \
        ns(T##AL##_end_as_root(&B3)); nb = flatcc_builder_finalize_aligned_buffer(&B3, &nsz); \
        ob.ref = flatcc_builder_create_vector(B, nb, nsz, 1, AL, FLATBUFFERS_COUNT_MAX(1)); \
        flatcc_builder_aligned_free(nb); flatcc_builder_clear(&B3); }
    MK_ALIGNED(32) MK_ALIGNED(64) MK_ALIGNED(128) MK_ALIGNED(256)
#undef MK_ALIGNED
    else if (!strcmp(tok, "LF")) { ob.kind = K_LF; if (build_leaf(B, pl, &ob.ref)) { if (!g_err) g_err = "leaf failed"; return -1; } }
    else if (!strcmp(tok, "N")) { ob.kind = K_N; *is_node = 1; if (build_node(B, pl, &ob.ref)) { if (!g_err) g_err = "node failed"; return -1; } }
    else { g_err = "unknown object kind"; return -1; }
    if (g_err) return -1;
    if (!ob.ref) { g_err = "object creation returned 0"; return -1; }
    objs[nobjs++] = ob;
    return 0;
}

/* ------------------------------------------------------------------ the operations under test */
static int op_pick(flatcc_builder_t *B, ns(Node_table_t) src, unsigned mask)
{
#define X(i, name) if (M(i) && ns(Node_##name##_pick(B, src))) return -(100 + i);
    FIELDS(X)
#undef X
    return 0;
}
static int op_fclone(flatcc_builder_t *B, ns(Node_table_t) t, unsigned mask)
{
#define SC(i, name) if (M(i) && ns(Node_##name##_get_ptr(t)) && ns(Node_##name##_clone(B, ns(Node_##name##_get_ptr(t))))) return -(100 + i);
#define PT(i, name) if (M(i) && ns(Node_##name##_is_present(t)) && ns(Node_##name##_clone(B, ns(Node_##name(t))))) return -(100 + i);
    SC(0, id) PT(1, name) PT(2, pos) PT(3, pair) SC(4, color) SC(5, flag) SC(6, big) SC(7, f) SC(8, opt)
    PT(9, left) PT(10, right) PT(11, leaf) PT(12, bytes) PT(13, longs) PT(14, colors) PT(15, structs) PT(16, pairs) PT(17, strs) PT(18, nodes) PT(19, leaves)
    if (M(20) && ns(Node_any_type(t)) && ns(Node_any_clone(B, ns(Node_any_union(t))))) return -120;
    if (M(21) && ns(Node_anys_is_present(t)) && ns(Node_anys_clone(B, ns(Node_anys_union(t))))) return -121;
    PT(22, nested) PT(23, nested8) PT(24, nested32) PT(25, nested64) PT(26, nested128) PT(27, nested256)
#undef SC
#undef PT
    return 0;
}
static int op_vec(flatcc_builder_t *B, ns(Node_table_t) t, unsigned mask)
{
    /* type level clone functions followed by _add; scalars and inline structs have none: pick */
#define PK(i, name) if (M(i) && ns(Node_##name##_pick(B, t))) return -(100 + i);
#define CL(i, name, fn) if (M(i) && ns(Node_##name##_is_present(t)) && ns(Node_##name##_add(B, fn(B, ns(Node_##name(t)))))) return -(100 + i);
    PK(0, id) PK(2, pos) PK(3, pair) PK(4, color) PK(5, flag) PK(6, big) PK(7, f) PK(8, opt) PK(22, nested) PK(23, nested8) PK(24, nested32) PK(25, nested64) PK(26, nested128) PK(27, nested256)   /* a nested buffer is not a plain byte vector */
    CL(1, name, flatbuffers_string_clone) CL(9, left, ns(Node_clone)) CL(10, right, ns(Node_clone)) CL(11, leaf, ns(Leaf_clone))
    CL(12, bytes, flatbuffers_uint8_vec_clone) CL(13, longs, flatbuffers_int64_vec_clone) CL(14, colors, ns(Color_vec_clone))
    CL(15, structs, ns(Vec3_vec_clone)) CL(16, pairs, ns(Pair_vec_clone)) CL(17, strs, flatbuffers_string_vec_clone)
    CL(18, nodes, ns(Node_vec_clone)) CL(19, leaves, ns(Leaf_vec_clone))
    if (M(20) && ns(Node_any_type(t)) && ns(Node_any_add(B, ns(Any_clone(B, ns(Node_any_union(t))))))) return -120;
    if (M(21) && ns(Node_anys_is_present(t)) && ns(Node_anys_add(B, ns(Any_vec_clone(B, ns(Node_anys_union(t))))))) return -121;
#undef PK
#undef CL
    return 0;
}

static int op_pick_old(flatcc_builder_t *B, CO_Node_table_t src, unsigned mask)
{
#define X(i, name) if (M(i) && CO_Node_##name##_pick(B, src)) return -(100 + i);
    FIELDS(X)
#undef X
    return 0;
}
static unsigned g_api;   /* bit 0: set_refmap did not return the previous map, bit 1: a map changed under set_refmap, bit 2: get_refmap wrong */
static int op_swap(flatcc_builder_t *B, ns(Node_table_t) src, unsigned mask, unsigned split, flatcc_refmap_t *outer)
{
    flatcc_refmap_t nested_map, *saved; size_t c0, b0; int r;
    ns(Leaf_table_t) leaf = ns(Node_leaf(src));
    mask &= ~(1u << 22);
#define X(i, name) if (i < split && M(i) && ns(Node_##name##_pick(B, src))) return -(100 + i);
    FIELDS(X)
#undef X
    flatcc_refmap_init(&nested_map);
    c0 = outer ? outer->count : 0; b0 = outer ? outer->buckets : 0;
    saved = flatcc_builder_set_refmap(B, &nested_map);
    if (saved != outer) g_api |= 1;
    if (flatcc_builder_get_refmap(B) != &nested_map) g_api |= 4;
    if (outer && (outer->count != c0 || outer->buckets != b0)) g_api |= 2;
    if (leaf) r = ns(Node_nested_clone_as_root(B, leaf));
    else { r = ns(Node_nested_start_as_root(B)); if (!r) r = ns(Leaf_val_add(B, 99)); if (!r) r = ns(Node_nested_end_as_root(B)); }
    { size_t nc = nested_map.count;
      if (flatcc_builder_set_refmap(B, saved) != &nested_map) g_api |= 1;
      if (nested_map.count != nc) g_api |= 2; }
    if (flatcc_builder_get_refmap(B) != outer) g_api |= 4;
    if (outer && (outer->count != c0 || outer->buckets != b0)) g_api |= 2;
    flatcc_refmap_clear(&nested_map);
    if (r) return -90;
#define X(i, name) if (i >= split && M(i) && ns(Node_##name##_pick(B, src))) return -(100 + i);
    FIELDS(X)
#undef X
    return 0;
}
static void run_api(void)
{
    flatcc_builder_t B; flatcc_refmap_t m1, m2; int a = 1, b = 2; unsigned bad = 0;
    flatcc_builder_init(&B); flatcc_refmap_init(&m1); flatcc_refmap_init(&m2);
    if (flatcc_builder_refmap_find(&B, &a) != 0) bad |= 1;                       /* no map: finds nothing */
    if (flatcc_builder_refmap_insert(&B, &a, 17) != 17) bad |= 2;                /* no map: hands the reference back */
    flatcc_refmap_insert(&m1, &a, 11); flatcc_refmap_insert(&m2, &b, 22);
    if (flatcc_builder_set_refmap(&B, &m1) != 0) bad |= 4;
    if (m1.count != 1 || flatcc_refmap_find(&m1, &a) != 11) bad |= 8;           /* installing a map keeps its entries */
    if (flatcc_builder_refmap_find(&B, &a) != 11 || flatcc_builder_refmap_find(&B, &b) != 0) bad |= 16;
    if (flatcc_builder_set_refmap(&B, &m2) != &m1) bad |= 32;
    if (m1.count != 1 || m2.count != 1 || flatcc_refmap_find(&m2, &b) != 22 || flatcc_refmap_find(&m1, &a) != 11) bad |= 64;
    if (flatcc_builder_refmap_insert(&B, &a, 33) != 33 || flatcc_refmap_find(&m2, &a) != 33 || flatcc_refmap_find(&m1, &a) != 11) bad |= 128;
    if (flatcc_builder_set_refmap(&B, &m1) != &m2) bad |= 256;
    if (m1.count != 1 || flatcc_builder_refmap_find(&B, &a) != 11 || m2.count != 2) bad |= 512;   /* restoring the parent map keeps it */
    if (flatcc_builder_get_refmap(&B) != &m1) bad |= 1024;
    {   /* the wrappers go to the attached map at every buffer nesting level: what was inserted is found with its reference */
        int lvl, c = 3, d = 4;
        for (lvl = 0; lvl < 3; ++lvl) {
            if (flatcc_builder_start_buffer(&B, 0, 0, 0)) { bad |= 4096; break; }
            if (flatcc_builder_refmap_find(&B, &a) != 11) bad |= 8192;                                      /* inserted outside, found inside */
            if (flatcc_builder_refmap_insert(&B, lvl ? (void *)&d : (void *)&c, 70 + lvl) != 70 + lvl) bad |= 8192;
            if (flatcc_builder_refmap_find(&B, lvl ? (void *)&d : (void *)&c) != 70 + lvl) bad |= 16384;    /* inserted inside, found inside */
        }
        if (flatcc_refmap_find(&m1, &c) != 70 || flatcc_refmap_find(&m1, &d) != 72 || m1.count != 3) bad |= 32768;
        flatcc_builder_reset(&B);      /* abandons the open buffers, resets the installed map */
        if (m1.count != 0) bad |= 65536;
        flatcc_refmap_insert(&m1, &a, 11);
    }
    if (flatcc_builder_set_refmap(&B, 0) != &m1 || flatcc_builder_get_refmap(&B) != 0 || m1.count != 1) bad |= 2048;
    flatcc_refmap_clear(&m1); flatcc_refmap_clear(&m2); flatcc_builder_clear(&B);
    if (bad) printf("API failed=%u\n", bad); else printf("API ok\n");
}

static void run_cycles(ns(Node_table_t) sroot, int use_map, int ek, int rk, size_t ssz)
{
    flatcc_builder_t B; flatcc_emitter_t E; flatcc_refmap_t map; int cyc, bad = 0, dstv = 0, val = 1, share = 1, same = 1, mapreset = 1;
    void *first = 0; size_t fsz = 0, dsz = 0; struct obuf vs = {0, 0, 0}, hs = {0, 0, 0}; struct ids is = {0, 0, 0, 0, 0};
    d_node(&vs, 0, sroot, ~0u); d_node(&hs, &is, sroot, ~0u); ob_put(&vs, ""); ob_put(&hs, "");
    memset(&E, 0, sizeof(E));
    if (ek) flatcc_builder_custom_init(&B, flatcc_emitter, &E, 0, 0); else flatcc_builder_init(&B);
    flatcc_refmap_init(&map);
    if (use_map) flatcc_builder_set_refmap(&B, &map);
    for (cyc = 1; cyc <= 3 && !bad; ++cyc) {
        void *dst = 0; int rc;
        if (!ns(Node_clone_as_root(&B, sroot))) { bad = cyc; dstv = -1; break; }
        if (ek) { dsz = flatcc_emitter_get_buffer_size(&E); if (posix_memalign(&dst, 256, dsz + 256)) exit(3); if (!flatcc_emitter_copy_buffer(&E, dst, dsz)) { free(dst); dst = 0; } }
        else dst = flatcc_builder_finalize_aligned_buffer(&B, &dsz);
        if (!dst) { bad = cyc; dstv = -4; break; }
        rc = ns(Node_verify_as_root(dst, dsz));
        if (rc) { bad = cyc; dstv = rc; }
        else {
            struct obuf vd = {0, 0, 0}, hd = {0, 0, 0}; struct ids id = {0, 0, 0, 0, 0};
            d_node(&vd, 0, ns(Node_as_root(dst)), ~0u); d_node(&hd, &id, ns(Node_as_root(dst)), ~0u); ob_put(&vd, ""); ob_put(&hd, "");
            if (vd.n != vs.n || memcmp(vd.p, vs.p, vs.n)) { val = 0; bad = cyc; }
            if (use_map && (hd.n != hs.n || memcmp(hd.p, hs.p, hs.n))) { share = 0; bad = cyc; }
            free(vd.p); free(hd.p); free((void *)id.p); free((void *)id.rk);
            if (cyc == 1) { first = malloc(dsz ? dsz : 1); memcpy(first, dst, dsz); fsz = dsz; }
            else if (dsz != fsz || memcmp(first, dst, dsz)) { same = 0; bad = cyc; }
        }
        if (ek) free(dst); else flatcc_builder_aligned_free(dst);
        /* next cycle: reset the builder, the map stays installed */
        if (rk == 0) rc = flatcc_builder_reset(&B); else rc = flatcc_builder_custom_reset(&B, rk == 2 || rk == 4, rk == 3 || rk == 4);
        if (ek) flatcc_emitter_reset(&E);      /* an explicit emitter context is reset by its owner */
        if (rc) { bad = cyc; dstv = -5; }
        if (use_map && (map.count != 0 || flatcc_builder_get_refmap(&B) != &map)) mapreset = 0;   /* go on: the next cycle shows the consequence */
    }
    if (!bad && !mapreset) bad = 1;
    printf("OK srcv=0 cyc=%d dstv=%d api=0 nest=1 val=%d share=%d extra=0 same=%d mapreset=%d back_src=%lu size=%lu/%lu\n", bad, dstv, val, share, same, mapreset,
           (unsigned long)is.back, (unsigned long)ssz, (unsigned long)dsz);
    flatcc_builder_set_refmap(&B, 0); flatcc_refmap_clear(&map); flatcc_builder_clear(&B); if (ek) flatcc_emitter_clear(&E);
    free(first); free(vs.p); free(hs.p); free((void *)is.p); free((void *)is.rk);
}

static void run_wseq(char **tok, int ntok)
{
    flatcc_builder_t B; flatcc_refmap_t m; int i, lvl = atoi(tok[1]), first = 1;
    flatcc_builder_init(&B); flatcc_refmap_init(&m); flatcc_builder_set_refmap(&B, &m);
    for (i = 0; i <= lvl; ++i) if (flatcc_builder_start_buffer(&B, 0, 0, 0)) { printf("ERR start_buffer %d\n", i); goto done; }
    for (i = 2; i < ntok; ++i) {
        char *q; unsigned long long src = strtoull(tok[i] + 1, &q, 10);
        if (!first) putchar(' ');
        first = 0;
        if (tok[i][0] == 'i') {
            long long ref = strtoll(q + 1, 0, 10);
            printf("%ld/%lu/%lu", (long)flatcc_builder_refmap_insert(&B, (const void *)(uintptr_t)src, (flatcc_builder_ref_t)ref), (unsigned long)m.count, (unsigned long)m.buckets);
        } else if (tok[i][0] == 'f') printf("%ld", (long)flatcc_builder_refmap_find(&B, (const void *)(uintptr_t)src));
        else printf("BAD");
    }
    putchar('\n');
done:
    flatcc_builder_set_refmap(&B, 0); flatcc_refmap_clear(&m); flatcc_builder_clear(&B);
}

static void run(char **tok, int ntok)
{
    flatcc_builder_t B1, B2; flatcc_refmap_t refmap; void *src = 0, *dst = 0; size_t ssz = 0, dsz = 0;
    const char *mode = tok[1]; int use_map = atoi(tok[2]), dumps = atoi(tok[3]); unsigned mask = ~0u; int i, is_node, rc = 0, srcv, dstv;
    flatcc_builder_ref_t root = 0; const char *colon = strchr(mode, ':');
    struct obuf vs = {0, 0, 0}, vd = {0, 0, 0}, hs = {0, 0, 0}, hd = {0, 0, 0}; struct ids is = {0, 0, 0, 0, 0}, id = {0, 0, 0, 0, 0};
    ns(Node_table_t) sroot;
    size_t mapcount = 0, nalias = 0; unsigned extra = 0, split = 0; int swap = !strncmp(mode, "swap", 4), nest_eq = 1;
    int raw = !strcmp(tok[0], "raw"), old = !strncmp(mode, "old", 3); void *raw_free = 0;
    int nest = !strncmp(mode, "nest", 4) ? atoi(mode + 5) : 0, cv = 0; ns(Node_table_t) dcmp;
    if (colon) { char *e; mask = (unsigned)strtoul(colon + 1, &e, 10); if (*e == ':') split = (unsigned)strtoul(e + 1, 0, 10); }
    if (swap) mask &= ~(1u << 22);
    if (nest) mask = ~0u;
    g_api = 0;
    nobjs = 0; g_err = 0; g_known_max = old ? 3 : 255;
    flatcc_builder_init(&B1);
    if (raw) { src = hx_decode_aligned(tok[4], 0, &ssz, &raw_free); goto have_src; }
    if (flatcc_builder_start_buffer(&B1, ns(Node_identifier), 0, 0)) { printf("ERR start_buffer\n"); goto done1; }
    for (i = 4; i < ntok; ++i) {
        if (build_obj(&B1, tok[i], &is_node)) { printf("ERR build object %d: %s\n", i - 4, g_err ? g_err : "?"); goto done1; }
        if (is_node) root = objs[nobjs - 1].ref;
    }
    if (!root) { printf("ERR no root\n"); goto done1; }
    if (!flatcc_builder_end_buffer(&B1, root)) { printf("ERR end_buffer\n"); goto done1; }
    src = flatcc_builder_finalize_aligned_buffer(&B1, &ssz);
    if (!src) { printf("ERR finalize source\n"); goto done1; }
have_src:
    srcv = ns(Node_verify_as_root(src, ssz));
    if (!srcv && old) srcv = CO_Node_verify_as_root(src, ssz);
    if (srcv) { printf("ERR source does not verify: %s\n", flatcc_verify_error_string(srcv)); goto done1; }
    sroot = ns(Node_as_root(src));
    if (!strncmp(mode, "cycle", 5)) { run_cycles(sroot, use_map, (int)(mask & 0xff), (int)split, ssz); goto done1; }
    d_node(&hs, &is, sroot, mask); nalias = key_aliases(&is);

    flatcc_builder_init(&B2); flatcc_refmap_init(&refmap);
    if (use_map) flatcc_builder_set_refmap(&B2, &refmap);
    if (!strncmp(mode, "clone", 5)) {
        cv = !strcmp(mode, "clonews") ? 1 : !strcmp(mode, "clonet") ? 2 : !strcmp(mode, "clonetws") ? 3 : 0;
        if (!(cv == 0 ? ns(Node_clone_as_root(&B2, sroot)) : cv == 1 ? ns(Node_clone_as_root_with_size(&B2, sroot))
              : cv == 2 ? ns(Node_clone_as_typed_root(&B2, sroot)) : ns(Node_clone_as_typed_root_with_size(&B2, sroot)))) rc = -1;
    } else if (nest) {
        if (flatbuffers_buffer_start(&B2, ns(Node_identifier)) || ns(Node_start(&B2))) rc = -2;
        if (!rc && nest == 2 && ns(Node_nested8_start_as_root(&B2))) rc = -6;
        if (!rc && ns(Node_nested8_clone_as_root(&B2, sroot))) rc = -7;
        if (!rc && nest == 2 && ns(Node_nested8_end_as_root(&B2))) rc = -8;
        if (!rc && !flatbuffers_buffer_end(&B2, ns(Node_end(&B2)))) rc = -3;
    } else if (!strncmp(mode, "oldclone", 8)) {
        if (!CO_Node_clone_as_root(&B2, (CO_Node_table_t)sroot)) rc = -1;
    } else if (old) {
        if (flatbuffers_buffer_start(&B2, ns(Node_identifier)) || CO_Node_start(&B2)) rc = -2;
        if (!rc) rc = op_pick_old(&B2, (CO_Node_table_t)sroot, mask);
        if (!rc && !flatbuffers_buffer_end(&B2, CO_Node_end(&B2))) rc = -3;
    } else {
        if (flatbuffers_buffer_start(&B2, ns(Node_identifier)) || ns(Node_start(&B2))) rc = -2;
        if (!rc) rc = swap ? op_swap(&B2, sroot, mask, split, use_map ? &refmap : 0) : !strncmp(mode, "pick", 4) ? op_pick(&B2, sroot, mask) : !strncmp(mode, "fclone", 6) ? op_fclone(&B2, sroot, mask) : op_vec(&B2, sroot, mask);
        if (!rc && !flatbuffers_buffer_end(&B2, ns(Node_end(&B2)))) rc = -3;
    }
    mapcount = refmap.count;
    flatcc_builder_set_refmap(&B2, 0);
    if (rc) { printf("OK srcv=0 failed=%d alias=%lu size=%lu/0\n", rc, (unsigned long)nalias, (unsigned long)ssz); goto done2; }
    dst = flatcc_builder_finalize_aligned_buffer(&B2, &dsz);
    if (!dst) { printf("OK srcv=0 failed=-4 alias=%lu size=%lu/0\n", (unsigned long)nalias, (unsigned long)ssz); goto done2; }
    dstv = old ? CO_Node_verify_as_root(dst, dsz) : cv == 1 ? ns(Node_verify_as_root_with_size(dst, dsz)) : cv == 2 ? ns(Node_verify_as_typed_root(dst, dsz))
         : cv == 3 ? ns(Node_verify_as_typed_root_with_size(dst, dsz)) : ns(Node_verify_as_root(dst, dsz));
    if (dstv) { printf("OK srcv=0 dstv=%d alias=%lu size=%lu/%lu (%s)\n", dstv, (unsigned long)nalias, (unsigned long)ssz, (unsigned long)dsz, flatcc_verify_error_string(dstv)); goto done2; }
    {   /* read back through the matching entry point (null when the identifier does not match) */
        void *body = (cv & 1) ? flatbuffers_read_size_prefix(dst, 0) : dst;
        dcmp = (cv & 2) ? ns(Node_as_typed_root(body)) : ns(Node_as_root(body));
    }
    if (nest) { int l; for (l = 0; l < nest && dcmp; ++l) dcmp = ns(Node_nested8_is_present(dcmp)) ? ns(Node_nested8_as_root(dcmp)) : 0; }
    if (!dcmp) { printf("OK srcv=0 failed=-9 alias=%lu size=%lu/%lu\n", (unsigned long)nalias, (unsigned long)ssz, (unsigned long)dsz); goto done2; }
    d_node(&vs, 0, sroot, mask); d_node(&vd, 0, dcmp, mask);
    d_node(&hd, &id, dcmp, mask);
    {   /* fields outside the mask must be absent from the copy */
        ns(Node_table_t) droot = dcmp;
#define X(i, name) if (!M(i) && ns(Node_##name##_is_present(droot))) extra |= 1u << i;
        FIELDS(X)
#undef X
        if (swap) {   /* the nested buffer built between the two halves: the source's leaf (or val=99) */
            struct obuf a = {0, 0, 0}, b = {0, 0, 0}; ns(Leaf_table_t) nl = ns(Node_nested_is_present(droot)) ? ns(Node_nested_as_root(droot)) : 0;
            extra &= ~(1u << 22);
            if (!nl) nest_eq = 0; else if (ns(Node_leaf(sroot))) { d_leaf(&a, 0, ns(Node_leaf(sroot))); d_leaf(&b, 0, nl); ob_put(&a, ""); ob_put(&b, ""); nest_eq = a.n == b.n && !memcmp(a.p, b.p, a.n); }
            else nest_eq = ns(Leaf_val(nl)) == 99;
            free(a.p); free(b.p);
        }
    }
    ob_put(&vs, ""); ob_put(&vd, ""); ob_put(&hs, ""); ob_put(&hd, "");
    {
        int veq = vs.n == vd.n && !memcmp(vs.p, vd.p, vs.n), heq = hs.n == hd.n && !memcmp(hs.p, hd.p, hs.n);
        printf("OK srcv=0 dstv=0 api=%u nest=%d val=%d share=%d extra=%u back_src=%lu back_dst=%lu map=%lu alias=%lu ids=%lu/%lu size=%lu/%lu", g_api, nest_eq, veq, heq, extra, (unsigned long)is.back, (unsigned long)id.back,
               (unsigned long)mapcount, (unsigned long)nalias, (unsigned long)is.n, (unsigned long)id.n, (unsigned long)ssz, (unsigned long)dsz);
        if (dumps || !veq) { vs.p[vs.n] = 0; vd.p[vd.n] = 0; printf(" | %s | %s", vs.p, vd.p); }
        if (dumps || (!heq && use_map)) { hs.p[hs.n] = 0; hd.p[hd.n] = 0; printf(" | %s | %s", hs.p, hd.p); }
        printf("\n");
    }
done2:
    flatcc_refmap_clear(&refmap);
    if (dst) flatcc_builder_aligned_free(dst);
    flatcc_builder_clear(&B2);
done1:
    if (raw) { free(raw_free); src = 0; }
    if (src) flatcc_builder_aligned_free(src);
    flatcc_builder_clear(&B1);
    free(vs.p); free(vd.p); free(hs.p); free(hd.p); free((void *)is.p); free((void *)id.p); free((void *)is.rk); free((void *)id.rk);
}

int main(void)
{
    char *line; char **tok = 0; size_t cap = 0;
    while ((line = hx_getline())) {
        size_t n = 0; char *p = line;
        while (*p) {
            while (*p == ' ' || *p == '\n' || *p == '\r') ++p;
            if (!*p) break;
            if (n == cap) { cap = cap ? cap * 2 : 1024; tok = (char **)realloc(tok, cap * sizeof(char *)); }
            tok[n++] = p; while (*p && *p != ' ' && *p != '\n' && *p != '\r') ++p;
            if (*p) *p++ = 0;
        }
        alarm(10);   /* a reference map whose probe loop does not end must not hang the check */
        if (n >= 5 && (!strcmp(tok[0], "run") || !strcmp(tok[0], "raw"))) run(tok, (int)n); else if (n == 1 && !strcmp(tok[0], "api")) run_api(); else if (n >= 3 && !strcmp(tok[0], "wseq")) run_wseq(tok, (int)n); else printf("BAD\n");
        alarm(0);
        fflush(stdout);
    }
    return 0;
}
