/* C13: allocation layer substituted for malloc / calloc / realloc / free in /repo's runtime through the overridable
 * macros of flatcc_alloc.h (FLATCC_ALLOC, FLATCC_CALLOC, FLATCC_REALLOC, FLATCC_FREE, and everything defined in terms of
 * them: FLATCC_BUILDER_*, FLATCC_EMITTER_*, FLATCC_JSON_PRINTER_*, the refmap's calloc).  Force-included when the runtime
 * is compiled for harness/fault_inject.c.  The k-th request fails (returns NULL); live blocks are counted. */
#ifndef FI_ALLOC_H
#define FI_ALLOC_H
#include <stddef.h>
void *fi_malloc(size_t n);
void *fi_calloc(size_t nm, size_t n);
void *fi_realloc(void *p, size_t n);
void fi_free(void *p);
void *fi_aligned_alloc(size_t a, size_t n);
void fi_aligned_free(void *p);
#endif
