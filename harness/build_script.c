/* C02/C03/C15 harness: executes a build script through the REAL flatcc runtime builder API with a recording
 * emitter and prints every emitter call, every returned reference, the finished bytes and the reported alignment.
 *
 * One request line:   build <op> <op> ...      (buildm: the same with an allocator that moves every block it grows;
 *                                               buildd: flatcc's DEFAULT emitter (src/runtime/emitter.c, paged front / back) instead of the
 *                                               recording one: bytes= is what flatcc_builder_finalize_buffer returns, emits=-)
 * One reply line:     OK refs=<r,..> align=<a> start=<s> end=<e> bytes=<hex> emits=<off>:<hex>;...   |  FAIL <op index> <op>
 *
 * Ops (fields separated by ':'; <r> = index of an earlier result; results are numbered in completion order):
 *   S:<style>:<hex>                         string: c create_string, s start/append/end, e start/extend/end, t append+truncate, n create_string_strn
 *   V:<style>:<esize>:<align>:<maxcount>:<count>:<hex>   vector: c create, p push, a append (chunks), e extend, t append+truncate
 *   R:<style>:<align>:<hex>                 struct: c create_struct, s start_struct/end_struct
 *   O:<style>:<r>,<r>..                     offset vector: c create_offset_vector, 2 the same twice from ONE reference array (two results), d _direct, p push, a append, t append+truncate
 *   U:<style>:<code>/<r|->,..               union vector: c create_union_vector, d _direct, p push, a append, t append+truncate (two results: values, types)
 *   Ts:<count>  Ti:<style>:<id>:<size>:<align>:<hex>  To:<id>:<r>  Tu:<id>:<code>:<r|->  Tv:<id>:<rtypes>:<rvalues>  Te
 *   Tr:<count>                               reserve_table(count) inside an open table frame (no effect on the layout; needed before an id >= the start count)
 *                                            table frame: start_table, table_add (a) / table_add_copy (c), table_add_offset,
 *                                            table_add_union, table_add_union_vector, end_table
 *   B:<id hex|->:<block_align>:<flags>  E:<r>   start_buffer / end_buffer
 *   C:<id hex|->:<block_align>:<r>:<align>:<flags>   create_buffer (align 0: pass flatcc_builder_get_buffer_alignment())
 *   M:<block_align>:<align>:<flags>:<hex>    embed_buffer
 *   X:<clustering>:<block_align>:<id hex|->  set_vtable_clustering, set_block_align, set_identifier
 *   K:<id>                                   check_required_field(id) must be true  (within a table frame)
 *   P / Q                                    push_buffer_alignment (result kept on a stack) / pop_buffer_alignment(top of that stack): the low-level
 *                                            bracket around create_buffer(is_nested) that replaces start_buffer / end_buffer
 *   Z                                        flatcc_builder_reset: abandons everything built so far (tables may be left open); results restart at 0
 * With -DWITH_GLUE (one binary per corpus schema) the GENERATED builder API of that schema is reachable as well:
 *   Gs:<t> <T>_start   Ge:<t> <T>_end   Ga:<t>:<fi>:<hex> <T>_<f>_add (scalar: default elision applies; struct: by pointer)
 *   GA:<t>:<fi>:<hex> <T>_<f>_create(struct field BY ARGUMENTS: every leaf in declaration order)
 *   Gf:<t>:<fi>:<hex> <T>_<f>_force_add   Go:<t>:<fi>:<r> <T>_<f>_add(ref)   Gu:<t>:<fi>:<code>:<r|-> union   Gv:<t>:<fi>:<rt>:<rv> union vector
 *   GS:<t>:<fi>:<style>:<hex> string field  c _create, s _create_str, n _create_strn, b _start/append/_end, k _clone, l _slice   (1 result slot, value 0)
 *   GV:<t>:<fi>:<style>:<count>:<hex> vector field  c _create, p _push, e _extend, a _append, t append+_truncate, k _push_create by arguments (struct elements)  (1 slot)
 *   GW:<t>:<fi>:<style>/<hex>,..  string vector field: _start, per element p _push(create) c _push_create s _push_create_str n _push_create_strn
 *                                  b _push_start/append/_push_end k _push_clone l _push_slice, _end                                 (elements + 1 slots)
 *   GX:<t>:<fi>:<code>/<style>/<hex|r>,..  union vector field: _start, <Member>_push* per element (string members as for GW, r = ref), _end (strings + 2 slots)
 *   Gc:<t>:<arg>,.. <T>_create(all fields)   Gn:<t>:<fi>:<hex> <T>_<f>_create_as_root (nested struct root from its members)
 */
#include "hx.h"
#include "flatcc/flatcc_builder.h"

typedef struct { uint8_t *p; size_t n, cap; } bytes_t;
static void bytes_append(bytes_t *b, const uint8_t *d, size_t n) {
    if (b->n + n > b->cap) { size_t c = b->cap ? b->cap * 2 : 256; while (c < b->n + n) c *= 2; b->p = (uint8_t *)realloc(b->p, c); b->cap = c; }
    if (n) memcpy(b->p + b->n, d, n);
    b->n += n;
}
static void bytes_prepend(bytes_t *b, const uint8_t *d, size_t n) {
    if (b->n + n > b->cap) { size_t c = b->cap ? b->cap * 2 : 256; while (c < b->n + n) c *= 2; b->p = (uint8_t *)realloc(b->p, c); b->cap = c; }
    memmove(b->p + n, b->p, b->n);
    if (n) memcpy(b->p, d, n);
    b->n += n;
}

typedef struct { long off; size_t at, len; } emit_rec_t;
typedef struct {
    bytes_t front, back, log;     /* log: concatenated bytes of every emit call */
    emit_rec_t *recs; size_t nrecs, caprecs;
    long start, end;
    int broken;                   /* an emit call that is not adjacent to the stream (C12's concern; reported) */
} rec_t;

static int rec_emit(void *ctx, const flatcc_iovec_t *iov, int iov_count, flatbuffers_soffset_t offset, size_t len)
{
    rec_t *R = (rec_t *)ctx;
    bytes_t tmp = { 0, 0, 0 };
    int i;
    for (i = 0; i < iov_count; ++i) bytes_append(&tmp, (const uint8_t *)iov[i].iov_base, iov[i].iov_len);
    if (tmp.n != len) R->broken = 1;
    if (R->nrecs == R->caprecs) { R->caprecs = R->caprecs ? R->caprecs * 2 : 64; R->recs = (emit_rec_t *)realloc(R->recs, R->caprecs * sizeof(emit_rec_t)); }
    R->recs[R->nrecs].off = offset; R->recs[R->nrecs].at = R->log.n; R->recs[R->nrecs].len = tmp.n; R->nrecs++;
    bytes_append(&R->log, tmp.p, tmp.n);
    if (offset < 0) {
        if ((long)offset + (long)tmp.n != R->start) R->broken = 1;
        bytes_prepend(&R->front, tmp.p, tmp.n); R->start = offset;
    } else {
        if ((long)offset != R->end) R->broken = 1;
        bytes_append(&R->back, tmp.p, tmp.n); R->end = offset + (long)tmp.n;
    }
    free(tmp.p);
    return 0;
}

/* "buildm": an allocator that MOVES every block it grows (new block, copy, free the old one: a write through a pointer taken before
 * the growth hits freed memory - ASan reports it); sizes follow flatcc_builder_default_alloc */
static int moving_alloc(void *ctx, flatcc_iovec_t *b, size_t request, int zero_fill, int hint)
{
    void *p; size_t n;
    (void)ctx;
    if (request == 0) { if (b->iov_base) { free(b->iov_base); b->iov_base = 0; b->iov_len = 0; } return 0; }
    switch (hint) {
    case flatcc_builder_alloc_ds: n = 256; break;
    case flatcc_builder_alloc_ht: n = request; break;
    case flatcc_builder_alloc_fs: n = sizeof(__flatcc_builder_frame_t) * 8; break;
    case flatcc_builder_alloc_us: n = 64; break;
    default: n = 32; break;
    }
    while (n < request) n *= 2;
    if (request <= b->iov_len && b->iov_len / 2 >= n) return 0;
    if (!(p = malloc(n))) return -1;
    if (b->iov_base) memcpy(p, b->iov_base, b->iov_len < n ? b->iov_len : n);
    if (zero_fill && b->iov_len < n) memset((uint8_t *)p + b->iov_len, 0, n - b->iov_len);
    free(b->iov_base);
    b->iov_base = p; b->iov_len = n;
    return 0;
}

static uint16_t pushed[64]; static int npushed;      /* push_buffer_alignment results (ops P / Q) */
#define MAXREG 65536
static flatcc_builder_ref_t regs[MAXREG];
static int nregs;
static void push_reg(flatcc_builder_ref_t r) { if (nregs < MAXREG) regs[nregs++] = r; }

static int split_colon(char *s, char **f, int max) { int n = 0; f[n++] = s; while (*s && n < max) { if (*s == ':') { *s = 0; f[n++] = s + 1; } ++s; } return n; }
static int split_ch(char *s, char c, char **f, int max) { int n = 0; if (s[0] == '-' && s[1] == 0) return 0; if (!*s) return 0; f[n++] = s; while (*s && n < max) { if (*s == c) { *s = 0; f[n++] = s + 1; } ++s; } return n; }

static int get_id(const char *s, char id[4]) { uint8_t *p; size_t n; if (s[0] == '-' ) return 0; n = hx_decode(s, &p); memset(id, 0, 4); memcpy(id, p, n < 4 ? n : 4); free(p); return 1; }

#ifdef WITH_GLUE
/* per-schema glue over the GENERATED builder API (checks/builder_util.py gen_glue_build): ops Gs Ge Ga Gf Go Gu Gv Gc Gn */
#include "glueb.h"
#endif

#define FAILIF(c) do { if (c) goto fail; } while (0)

static int run_op(flatcc_builder_t *B, char *op)
{
    char *f[16]; int nf; uint8_t *d = 0; size_t n = 0;
    static char *el[MAXREG];
    nf = split_colon(op, f, 16);
#ifdef WITH_GLUE
    if (f[0][0] == 'G') return glue_op(B, f, nf);
#endif
    if (!strcmp(f[0], "S")) {
        char st = f[1][0]; flatcc_builder_ref_t r = 0;
        n = hx_decode(f[2], &d);
        if (st == 'c') r = flatcc_builder_create_string(B, (const char *)d, n);
        else if (st == 'n') { /* strn with a limit beyond the data: only used when the data has no NUL and a NUL follows */
            char *z = (char *)malloc(n + 1); memcpy(z, d, n); z[n] = 0; r = flatcc_builder_create_string_strn(B, z, n + 1); free(z); }
        else {
            FAILIF(flatcc_builder_start_string(B));
            if (st == 's') { size_t h = n / 2; FAILIF(n && !flatcc_builder_append_string(B, (const char *)d, h)); FAILIF(!flatcc_builder_append_string(B, (const char *)d + h, n - h) && n - h); }
            else if (st == 'e') { char *p = flatcc_builder_extend_string(B, n); FAILIF(!p && n); if (n) memcpy(p, d, n); }
            else if (st == 't') { FAILIF(!flatcc_builder_append_string(B, (const char *)d, n) && n); FAILIF(!flatcc_builder_append_string(B, "xyz", 3)); FAILIF(flatcc_builder_truncate_string(B, 3)); }
            else goto fail;
            FAILIF(flatcc_builder_string_len(B) != n);
            r = flatcc_builder_end_string(B);
        }
        free(d); FAILIF(!r); push_reg(r); return 0;
    }
    if (!strcmp(f[0], "V")) {
        char st = f[1][0]; size_t esize = strtoul(f[2], 0, 10), align = strtoul(f[3], 0, 10), maxc = strtoul(f[4], 0, 10), count = strtoul(f[5], 0, 10), i;
        flatcc_builder_ref_t r = 0;
        n = hx_decode(f[6], &d);
        if (st == 'c') r = flatcc_builder_create_vector(B, d, count, esize, (uint16_t)align, maxc);
        else {
            FAILIF(flatcc_builder_start_vector(B, esize, (uint16_t)align, maxc));
            if (st == 'p') { for (i = 0; i < count; ++i) FAILIF(!flatcc_builder_vector_push(B, d + i * esize)); }
            else if (st == 'a') { size_t h = count / 2; FAILIF(h && !flatcc_builder_append_vector(B, d, h)); FAILIF(count - h && !flatcc_builder_append_vector(B, d + h * esize, count - h)); }
            else if (st == 'e') { void *p = flatcc_builder_extend_vector(B, count); FAILIF(!p && count); if (count) memcpy(p, d, count * esize); }
            else if (st == 't') { FAILIF(count && !flatcc_builder_append_vector(B, d, count)); if (count) { FAILIF(!flatcc_builder_append_vector(B, d, 1)); FAILIF(flatcc_builder_truncate_vector(B, 1)); } }
            else goto fail;
            FAILIF(flatcc_builder_vector_count(B) != count);
            r = flatcc_builder_end_vector(B);
        }
        free(d); FAILIF(!r); push_reg(r); return 0;
    }
    if (!strcmp(f[0], "R")) {
        char st = f[1][0]; size_t align = strtoul(f[2], 0, 10); flatcc_builder_ref_t r = 0;
        n = hx_decode(f[3], &d);
        if (st == 'c') r = flatcc_builder_create_struct(B, d, n, (uint16_t)align);
        else { void *p = flatcc_builder_start_struct(B, n, (uint16_t)align); FAILIF(!p); memcpy(p, d, n); r = flatcc_builder_end_struct(B); }
        free(d); FAILIF(!r); push_reg(r); return 0;
    }
    if (!strcmp(f[0], "O")) {
        char st = f[1][0]; int cnt = split_ch(f[2], ',', el, MAXREG), i; flatcc_builder_ref_t r = 0;
        flatcc_builder_ref_t *v = (flatcc_builder_ref_t *)malloc(sizeof(*v) * (size_t)(cnt + 1));
        for (i = 0; i < cnt; ++i) v[i] = regs[atoi(el[i])];
        if (st == 'c') r = flatcc_builder_create_offset_vector(B, v, (size_t)cnt);
        else if (st == '2') {   /* the same (const) reference array used for two vectors: two results */
            flatcc_builder_ref_t r1 = flatcc_builder_create_offset_vector(B, v, (size_t)cnt);
            FAILIF(!r1); push_reg(r1);
            r = flatcc_builder_create_offset_vector(B, v, (size_t)cnt);
        }
        else if (st == 'd') r = flatcc_builder_create_offset_vector_direct(B, v, (size_t)cnt);
        else {
            FAILIF(flatcc_builder_start_offset_vector(B));
            if (st == 'p') { for (i = 0; i < cnt; ++i) FAILIF(!flatcc_builder_offset_vector_push(B, v[i])); }
            else if (st == 'a') { int h = cnt / 2; FAILIF(h && !flatcc_builder_append_offset_vector(B, v, (size_t)h)); FAILIF(cnt - h && !flatcc_builder_append_offset_vector(B, v + h, (size_t)(cnt - h))); }
            else if (st == 't') { FAILIF(cnt && !flatcc_builder_append_offset_vector(B, v, (size_t)cnt)); if (cnt) { FAILIF(!flatcc_builder_offset_vector_push(B, v[0])); FAILIF(flatcc_builder_truncate_offset_vector(B, 1)); } }
            else goto fail;
            FAILIF(flatcc_builder_offset_vector_count(B) != (size_t)cnt);
            r = flatcc_builder_end_offset_vector(B);
        }
        free(v); FAILIF(!r); push_reg(r); return 0;
    }
    if (!strcmp(f[0], "U")) {
        char st = f[1][0]; int cnt = split_ch(f[2], ',', el, MAXREG), i; flatcc_builder_union_vec_ref_t uv;
        flatcc_builder_union_ref_t *u = (flatcc_builder_union_ref_t *)malloc(sizeof(*u) * (size_t)(cnt + 1));
        for (i = 0; i < cnt; ++i) { char *sl = strchr(el[i], '/'); *sl = 0; u[i].type = (flatcc_builder_utype_t)atoi(el[i]); u[i].value = sl[1] == '-' ? 0 : regs[atoi(sl + 1)]; }
        if (st == 'c') uv = flatcc_builder_create_union_vector(B, u, (size_t)cnt);
        else if (st == 'd') {
            flatcc_builder_utype_t *t = (flatcc_builder_utype_t *)malloc((size_t)cnt + 1); flatcc_builder_ref_t *v = (flatcc_builder_ref_t *)malloc(sizeof(*v) * (size_t)(cnt + 1));
            for (i = 0; i < cnt; ++i) { t[i] = u[i].type; v[i] = u[i].value; }
            uv = flatcc_builder_create_union_vector_direct(B, t, v, (size_t)cnt); free(t); free(v);
        } else {
            FAILIF(flatcc_builder_start_union_vector(B));
            if (st == 'p') { for (i = 0; i < cnt; ++i) FAILIF(!flatcc_builder_union_vector_push(B, u[i])); }
            else if (st == 'a') { int h = cnt / 2; FAILIF(h && !flatcc_builder_append_union_vector(B, u, (size_t)h)); FAILIF(cnt - h && !flatcc_builder_append_union_vector(B, u + h, (size_t)(cnt - h))); }
            else if (st == 't') { FAILIF(cnt && !flatcc_builder_append_union_vector(B, u, (size_t)cnt)); if (cnt) { FAILIF(!flatcc_builder_union_vector_push(B, u[0])); FAILIF(flatcc_builder_truncate_union_vector(B, 1)); } }
            else goto fail;
            FAILIF(flatcc_builder_union_vector_count(B) != (size_t)cnt);
            uv = flatcc_builder_end_union_vector(B);
        }
        free(u); FAILIF(!uv.value || !uv.type); push_reg(uv.value); push_reg(uv.type); return 0;
    }
    if (!strcmp(f[0], "Ts")) { FAILIF(flatcc_builder_start_table(B, atoi(f[1]))); return 0; }
    if (!strcmp(f[0], "Ti")) {
        char st = f[1][0]; int id = atoi(f[2]); size_t size = strtoul(f[3], 0, 10), align = strtoul(f[4], 0, 10); void *p;
        n = hx_decode(f[5], &d);
        if (st == 'c') { FAILIF(!flatcc_builder_table_add_copy(B, id, d, size, (uint16_t)align)); }
        else { p = flatcc_builder_table_add(B, id, size, (uint16_t)align); FAILIF(!p); memcpy(p, d, size); FAILIF(flatcc_builder_table_edit(B, size) != p); }
        free(d); return 0;
    }
    if (!strcmp(f[0], "To")) { flatcc_builder_ref_t *p = flatcc_builder_table_add_offset(B, atoi(f[1])); FAILIF(!p); *p = regs[atoi(f[2])]; return 0; }
    if (!strcmp(f[0], "Tu")) { flatcc_builder_union_ref_t u; u.type = (flatcc_builder_utype_t)atoi(f[2]); u.value = f[3][0] == '-' ? 0 : regs[atoi(f[3])];
        FAILIF(flatcc_builder_table_add_union(B, atoi(f[1]), u)); return 0; }
    if (!strcmp(f[0], "Tv")) { flatcc_builder_union_vec_ref_t u; u.type = regs[atoi(f[2])]; u.value = regs[atoi(f[3])];
        FAILIF(flatcc_builder_table_add_union_vector(B, atoi(f[1]), u)); return 0; }
    if (!strcmp(f[0], "Tr")) { FAILIF(flatcc_builder_reserve_table(B, atoi(f[1]))); return 0; }
    if (!strcmp(f[0], "P")) { if (npushed < 64) pushed[npushed++] = flatcc_builder_push_buffer_alignment(B); return 0; }
    if (!strcmp(f[0], "Q")) { FAILIF(npushed == 0); flatcc_builder_pop_buffer_alignment(B, pushed[--npushed]); return 0; }
    if (!strcmp(f[0], "K")) { FAILIF(!flatcc_builder_check_required_field(B, (flatbuffers_voffset_t)atoi(f[1]))); return 0; }
    if (!strcmp(f[0], "Te")) { flatcc_builder_ref_t r = flatcc_builder_end_table(B); FAILIF(!r); push_reg(r); return 0; }
    if (!strcmp(f[0], "B")) { char id[4]; int has = get_id(f[1], id);
        FAILIF(flatcc_builder_start_buffer(B, has ? id : 0, (uint16_t)atoi(f[2]), (flatcc_builder_buffer_flags_t)atoi(f[3]))); return 0; }
    if (!strcmp(f[0], "E")) { flatcc_builder_ref_t r = flatcc_builder_end_buffer(B, regs[atoi(f[1])]); FAILIF(!r); push_reg(r); return 0; }
    if (!strcmp(f[0], "C")) { char id[4]; int has = get_id(f[1], id);
        uint16_t al = (uint16_t)atoi(f[4]);   /* 0: what flatcc_builder_get_buffer_alignment reports, as the API documentation suggests */
        flatcc_builder_ref_t r = flatcc_builder_create_buffer(B, has ? id : 0, (uint16_t)atoi(f[2]), regs[atoi(f[3])], al ? al : flatcc_builder_get_buffer_alignment(B), (flatcc_builder_buffer_flags_t)atoi(f[5]));
        FAILIF(!r); push_reg(r); return 0; }
    if (!strcmp(f[0], "M")) { flatcc_builder_ref_t r; n = hx_decode(f[4], &d);
        r = flatcc_builder_embed_buffer(B, (uint16_t)atoi(f[1]), d, n, (uint16_t)atoi(f[2]), (flatcc_builder_buffer_flags_t)atoi(f[3])); free(d); FAILIF(!r); push_reg(r); return 0; }
    if (!strcmp(f[0], "X")) { char id[4]; int has = get_id(f[3], id);
        flatcc_builder_set_vtable_clustering(B, atoi(f[1])); flatcc_builder_set_block_align(B, (uint16_t)atoi(f[2])); flatcc_builder_set_identifier(B, has ? id : 0); return 0; }
fail:
    return -1;
}

int main(void)
{
    char *line;
    static char *tok[1 << 20];
    while ((line = hx_getline())) {
        int nt = hx_split(line, tok, 1 << 20), i, failed = -1;
        flatcc_builder_t builder, *B = &builder;
        rec_t R;
        char *failop = 0;
        if (nt < 1 || (strcmp(tok[0], "build") && strcmp(tok[0], "buildm") && strcmp(tok[0], "buildd"))) { printf("BAD\n"); fflush(stdout); continue; }
        memset(&R, 0, sizeof(R));
        nregs = 0; npushed = 0;
        if (tok[0][5] == 'd') flatcc_builder_init(B);
        else flatcc_builder_custom_init(B, rec_emit, &R, tok[0][5] == 'm' ? moving_alloc : 0, 0);
        for (i = 1; i < nt; ++i) {
            if (!strcmp(tok[i], "Z")) {
                /* abandon whatever is open and start over: flatcc_builder_reset; results and the recording start afresh */
                if (flatcc_builder_reset(B)) { failed = i - 1; failop = strdup(tok[i]); break; }
                free(R.front.p); free(R.back.p); free(R.log.p); free(R.recs); memset(&R, 0, sizeof(R)); nregs = 0;
                continue;
            }
            failop = strdup(tok[i]);
            if (run_op(B, tok[i])) { failed = i - 1; break; }
            free(failop); failop = 0;
        }
        if (failed >= 0) { printf("FAIL %d %s\n", failed, failop); free(failop); }
        else if (tok[0][5] == 'd') {
            size_t sz = 0, want = flatcc_builder_get_buffer_size(B); void *buf = flatcc_builder_finalize_buffer(B, &sz);
            printf("OK refs=");
            if (!nregs) printf("-");
            for (i = 0; i < nregs; ++i) printf("%s%ld", i ? "," : "", (long)regs[i]);
            printf(" align=%u start=%ld end=%ld bytes=", (unsigned)flatcc_builder_get_buffer_alignment(B),
                   (long)flatcc_builder_get_buffer_start(B), (long)flatcc_builder_get_buffer_end(B));
            if (!buf || !sz) printf("-"); else hx_print((const uint8_t *)buf, sz);
            printf(" emits=-");
            if (sz != want) printf(" SIZE-MISMATCH");
            printf("\n");
            if (buf) flatcc_builder_free(buf);
        }
        else {
            size_t k;
            printf("OK refs=");
            if (!nregs) printf("-");
            for (i = 0; i < nregs; ++i) printf("%s%ld", i ? "," : "", (long)regs[i]);
            printf(" align=%u start=%ld end=%ld bytes=", (unsigned)flatcc_builder_get_buffer_alignment(B),
                   (long)flatcc_builder_get_buffer_start(B), (long)flatcc_builder_get_buffer_end(B));
            if (R.front.n + R.back.n == 0) printf("-");
            if (R.front.n) hx_print(R.front.p, R.front.n); if (R.back.n) hx_print(R.back.p, R.back.n);
            printf(" emits=");
            if (!R.nrecs) printf("-");
            for (k = 0; k < R.nrecs; ++k) { printf("%s%ld:", k ? ";" : "", R.recs[k].off); hx_print(R.log.p + R.recs[k].at, R.recs[k].len); }
            if (R.broken) printf(" BROKEN-STREAM");
            if ((long)flatcc_builder_get_buffer_size(B) != (long)(R.front.n + R.back.n)) printf(" SIZE-MISMATCH");
            printf("\n");
        }
        fflush(stdout);
        flatcc_builder_clear(B);
        free(R.front.p); free(R.back.p); free(R.log.p); free(R.recs);
    }
    return 0;
}
