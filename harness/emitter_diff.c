/* H-emitter: line-protocol harness over /repo's CURRENT src/runtime/emitter.c (C12 part A).
   Compiled with -I/repo/src/runtime so that the emitter is included as source: the page allocator is replaced by a
   counting / failing one and FLATCC_EMITTER_PAGE_SIZE may be overridden with -D for the small-page variants.

   One request line = one session on a fresh flatcc_emitter_t; tokens:
     f:<hex>,<hex>,..   front emit of the pieces (offset = current start - len, as the builder would pass)
     b:<hex>,<hex>,..   back emit (offset = current end)
     r                  flatcc_emitter_reset (reply r<number of spare pages kept>)
     y:<i>              flatcc_emitter_recycle_page on the i-th page after E->back (a page not in use)
     Y:<i>              flatcc_emitter_recycle_page on the i-th page counted from E->front (refused for front/back)
     z                  flatcc_emitter_recycle_page on E->front->prev when that is a spare page
     c                  flatcc_emitter_clear and carry on with the same struct (reply c<pages still allocated>)
     A:<k>              the k-th page allocation from now on fails (0 = the next one)
     o                  observe: state fields, copy_buffer into an exact-size block (bytes at the CALLER's pointer and
                        returned pointer minus caller's pointer), a too-small copy, get_direct_buffer, get_buffer_size
   Reply: one token per request token, separated by spaces: emit -> rc, r -> "r<kept>", y/Y -> rc, A -> "A", o -> "{...}".
   After a failing emit (-1) the session stops: "FAIL" is printed for it, the emitter is cleared, and the line ends with
   live=<pages still allocated after flatcc_emitter_clear>. */
#include <stdio.h>
/* every reply line is assembled in memory and written at once: a sanitizer abort in the middle of a request leaves no
   partial line behind (the driver attributes a missing reply to the request that crashed) */
static FILE *hx_out;
#define printf(...) fprintf(hx_out, __VA_ARGS__)
#include "hx.h"
#include <stddef.h>
#include <signal.h>
#include <unistd.h>
/* every request runs under a hard limit: a request that does not return (e.g. a page ring that no longer closes) ends the
   process with HANG on stderr and no reply line, which the driver reports as a violation of that request */
static void hx_on_alarm(int sig) { static const char m[] = "HANG: request did not finish within the time limit\n"; (void)sig; if (write(2, m, sizeof(m) - 1)) {} _exit(3); }
#define HX_LIMIT_S 5

static long hx_live = 0, hx_allocs = 0, hx_fail_at = -1;
static void *hx_page_alloc(size_t n) {
    void *p;
    if (hx_fail_at >= 0 && hx_allocs == hx_fail_at) { ++hx_allocs; return 0; }
    ++hx_allocs;
    p = malloc(n);
    if (p) { memset(p, 0xEE, n); ++hx_live; }
    return p;
}
static void hx_page_free(void *p) { if (p) { --hx_live; free(p); } }
#define FLATCC_EMITTER_ALLOC(n) hx_page_alloc(n)
#define FLATCC_EMITTER_FREE(p) hx_page_free(p)
#include "emitter.c"

#define MAXP 64
static int parse_pieces(char *s, flatcc_iovec_t *iov, uint8_t **blocks, size_t *total) {
    int n = 0; char *p = s; *total = 0;
    while (n < MAXP) {
        char *q = strchr(p, ','); size_t len;
        if (q) *q = 0;
        len = hx_decode(p, &blocks[n]);
        iov[n].iov_base = blocks[n]; iov[n].iov_len = len; *total += len; ++n;
        if (!q) break;
        p = q + 1;
    }
    return n;
}

static void observe(flatcc_emitter_t *E) {
    flatcc_emitter_page_t *p; int np = 0, ns = 0; size_t used = flatcc_emitter_get_buffer_size(E);
    printf("{used=%lu cap=%lu avg=%lu fl=%lu bl=%lu", (unsigned long)E->used, (unsigned long)E->capacity,
           (unsigned long)E->used_average, (unsigned long)E->front_left, (unsigned long)E->back_left);
    if (E->front) {
        printf(" fc=%ld bc=%ld", (long)(E->front_cursor - E->front->page), (long)(E->back_cursor - E->back->page));
        printf(" poff=");
        for (p = E->front; ; p = p->next) { printf("%s%ld", np ? "," : "", (long)p->page_offset); ++np; if (p == E->back) break; }
        for (p = E->back->next; p != E->front; p = p->next) ++ns;
        /* ring consistency: prev pointers mirror next pointers */
        { int bad = 0, k = 0; p = E->front; do { if (p->next->prev != p) bad = 1; p = p->next; } while (p != E->front && ++k < 100000); printf(" ring=%d", bad); }
    } else {
        printf(" fc=0 bc=0 poff=- ring=0");
    }
    printf(" pages=%d spare=%d", np, ns);
    /* copy into an exact-size heap block */
    {
        uint8_t *buf = (uint8_t *)malloc(used ? used : 1); void *ret;
        memset(buf, 0xCD, used ? used : 1);
        ret = flatcc_emitter_copy_buffer(E, buf, used);
        if (!ret) printf(" copy=null ret=null");
        else { printf(" copy="); hx_print(buf, used); printf(" ret=%ld", (long)((uint8_t *)ret - buf)); }
        free(buf);
    }
    /* a buffer one byte too small: must return null and write nothing */
    if (used > 0) {
        uint8_t *buf = (uint8_t *)malloc(used); void *ret; size_t i; int touched = 0;
        memset(buf, 0xCD, used);
        ret = flatcc_emitter_copy_buffer(E, buf, used - 1);
        for (i = 0; i < used; ++i) if (buf[i] != 0xCD) touched = 1;
        printf(" small=%s%s", ret ? "nonnull" : "null", touched ? "+written" : "");
        free(buf);
    } else printf(" small=-");
    {
        size_t dsz = 12345; uint8_t *d = (uint8_t *)flatcc_emitter_get_direct_buffer(E, &dsz);
        if (!d) printf(" direct=null dsize=%lu", (unsigned long)dsz);
        else { printf(" direct="); hx_print(d, dsz); printf(" dsize=%lu", (unsigned long)dsz); }
    }
    printf(" size=%lu}", (unsigned long)used);
}

int main(void) {
    char *line; static char *tok[4096]; char *obuf = 0; size_t olen = 0;
    while ((line = hx_getline())) {
        flatcc_emitter_t E; int n, i, failed = 0; long start = 0, end = 0;
        hx_out = open_memstream(&obuf, &olen);
        signal(SIGALRM, hx_on_alarm); alarm(HX_LIMIT_S);
        n = hx_split(line, tok, 4096);
        if (n == 1 && !strcmp(tok[0], "P")) { printf("%d\n", (int)FLATCC_EMITTER_PAGE_SIZE); goto flush; }
        flatcc_emitter_init(&E);
        hx_allocs = 0; hx_fail_at = -1;
        for (i = 0; i < n && !failed; ++i) {
            char *t = tok[i];
            if (i) printf(" ");
            if ((t[0] == 'f' || t[0] == 'b') && t[1] == ':') {
                flatcc_iovec_t iov[MAXP]; uint8_t *blocks[MAXP]; size_t total; int k, cnt, rc;
                cnt = parse_pieces(t + 2, iov, blocks, &total);
                if (t[0] == 'f') { rc = flatcc_emitter(&E, iov, cnt, (flatbuffers_soffset_t)(start - (long)total), total); if (!rc) start -= (long)total; }
                else { rc = flatcc_emitter(&E, iov, cnt, (flatbuffers_soffset_t)end, total); if (!rc) end += (long)total; }
                for (k = 0; k < cnt; ++k) free(blocks[k]);
                if (rc) { printf("FAIL"); failed = 1; } else printf("0");
            } else if (t[0] == 'r' && !t[1]) {
                flatcc_emitter_reset(&E); start = end = 0;
                /* the number of pages the reset kept besides the front page: pool policy, passed to the model as its oracle */
                { int ns = 0; flatcc_emitter_page_t *q; if (E.front) for (q = E.back->next; q != E.front; q = q->next) ++ns; printf("r%d", ns); }
            } else if ((t[0] == 'y' || t[0] == 'Y') && t[1] == ':') {
                int idx = atoi(t + 2), k; flatcc_emitter_page_t *p;
                if (!E.front) { printf("nopage"); continue; }
                p = t[0] == 'y' ? E.back->next : E.front;
                if (t[0] == 'y' && p == E.front) { printf("nopage"); continue; }
                for (k = 0; k < idx; ++k) { p = p->next; if (p == E.front) break; }
                if (k < idx) { printf("nopage"); continue; }
                printf("%d", flatcc_emitter_recycle_page(&E, p));
            } else if (t[0] == 'z' && !t[1]) {
                /* recycle the page directly before E->front when it is a spare page ("valid but pointless") */
                if (!E.front || E.front->prev == E.back) printf("nopage"); else printf("%d", flatcc_emitter_recycle_page(&E, E.front->prev));
            } else if (t[0] == 'c' && !t[1]) {
                /* flatcc_emitter_clear, then the SAME struct is used on without flatcc_emitter_init (application-owned emitter) */
                flatcc_emitter_clear(&E); start = end = 0; printf("c%ld", hx_live);
            } else if (t[0] == 'A' && t[1] == ':') {
                hx_fail_at = hx_allocs + atol(t + 2); printf("A");
            } else if (t[0] == 'o' && !t[1]) {
                observe(&E);
            } else printf("BAD");
        }
        flatcc_emitter_clear(&E);
        printf(" live=%ld\n", hx_live);
flush:
        fclose(hx_out); fwrite(obuf, 1, olen, stdout); fflush(stdout); free(obuf); obuf = 0;
    }
    return 0;
}
